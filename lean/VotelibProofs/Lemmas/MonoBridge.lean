/-
  C17 helper lemmas: from ballots to the pairwise matrix.  Lifting `w` on one unit of one ballot (or adding a bullet
  ballot for `w`) turns the matrix `RankedToCondorcetVotes().convert(p)` into a `Raised` one.
-/
import VotelibProofs.Lemmas.ConvertCondorcet
import VotelibProofs.Lemmas.MonoMinimax
import VotelibProofs.Lemmas.MonoProfile
namespace VL.Mono
open VL VL.Convert VL.Condorcet

/-! ### the matrix as weighted sums -/

theorem pget_eq_toFun (v : Pairwise) (hk : (dkeys v).Nodup) (k : Pair) : pget v k = toFun v k := by
  rcases pget_mem_or_zero v k with h | ⟨h1, h2⟩
  · rw [toFun_eq_of_mem hk h]
  · rw [h2, toFun_eq_zero_of_not_mem (by simpa [dkeys] using h1)]

/-- the universe of candidates the converter uses -/
def candUniverse (p : RProfile) : List Cand := canonSet (allRankedCandidates p)

theorem pairwiseOf_eq (p : RProfile) : pairwiseOf p = condorcetU true (candUniverse p) p := rfl

theorem mem_candUniverse (p : RProfile) (c : Cand) : c ∈ candUniverse p ↔ c ∈ allRankedCandidates p := mem_canonSet c _

theorem nodup_candUniverse (p : RProfile) : (candUniverse p).Nodup := nodup_canonSet _

theorem candUniverse_eq {p p' : RProfile} (h : ∀ c, c ∈ allRankedCandidates p' ↔ c ∈ allRankedCandidates p) :
    candUniverse p' = candUniverse p := (canonSet_eq_iff _ _).mpr h

/-- the ballot counts the pair (x, y) -/
def counts (U : List Cand) (b : Ballot) (k : Pair) : Prop := k ∈ condPairs true U b

instance (U : List Cand) (b : Ballot) (k : Pair) : Decidable (counts U b k) := by unfold counts; infer_instance

/-- 1 if the ballot counts the pair -/
def ind (U : List Cand) (b : Ballot) (k : Pair) : Rat := if counts U b k then 1 else 0

theorem counts_iff (U : List Cand) (b : Ballot) (x y : Cand) :
    counts U b (x, y) ↔ Above b x y ∨ (x ∈ ballotCands b ∧ y ∈ U ∧ y ∉ ballotCands b) := by
  unfold counts; rw [mem_condPairs]; simp

theorem pget_condorcetU (U : List Cand) (hU : U.Nodup) (p : RProfile) (hwf : ∀ b ∈ dkeys p, (ballotCands b).Nodup)
    (k : Pair) : pget (condorcetU true U p) k = wsum p (fun b => ind U b k) := by
  rw [pget_eq_toFun _ (condorcetU_nodup true U p), condorcetU_sum true U p k]
  apply wsum_congr
  intro bw hbw
  obtain ⟨x, y⟩ := k
  show cnt (condPairs true U bw.1) (x, y) = ind U bw.1 (x, y)
  rw [cnt_condPairs true hU (hwf bw.1 (List.mem_map.mpr ⟨bw, hbw, rfl⟩))]
  rfl

/-! ### `Above` under append, strip and lift -/

theorem above_append (l₁ l₂ : Ballot) (x y : Cand) :
    Above (l₁ ++ l₂) x y ↔ Above l₁ x y ∨ (x ∈ ballotCands l₁ ∧ y ∈ ballotCands l₂) ∨ Above l₂ x y := by
  induction l₁ with
  | nil => simp [Above, ballotCands]
  | cons it rest ih =>
    simp only [List.cons_append, Above, ih, bc_cons, ballotCands_append, List.mem_append]
    tauto

theorem above_singleton (it : RankItem) (x y : Cand) : ¬ Above [it] x y := by
  simp [Above, ballotCands]

theorem mem_stripItem_cands {w : Cand} {it it' : RankItem} (h : stripItem w it = some it') (z : Cand) :
    z ∈ it'.cands ↔ z ∈ it.cands ∧ z ≠ w := by
  have := stripItem_cands (w := w) (it := it)
  rw [h] at this
  simp only [Option.map_some, Option.getD_some] at this
  rw [this]; simp

theorem stripItem_none_cands {w : Cand} {it : RankItem} (h : stripItem w it = none) (z : Cand) (hz : z ∈ it.cands) : z = w := by
  have := stripItem_cands (w := w) (it := it)
  rw [h] at this
  simp only [Option.map_none, Option.getD_none] at this
  by_contra hne
  have hm : z ∈ it.cands.filter (fun c => c ≠ w) := by simp [hz, hne]
  rw [← this] at hm
  simp at hm

theorem mem_ballotCands_strip {w : Cand} {b : Ballot} {z : Cand} : z ∈ ballotCands (strip w b) ↔ z ∈ ballotCands b ∧ z ≠ w := by
  rw [ballotCands_strip]; simp

/-- taking `w` out does not change the relative order of the others -/
theorem above_strip (w : Cand) (b : Ballot) (x y : Cand) (hx : x ≠ w) (hy : y ≠ w) :
    Above (strip w b) x y ↔ Above b x y := by
  induction b with
  | nil => simp [strip, Above]
  | cons it rest ih =>
    have hrest : y ∈ ballotCands (strip w rest) ↔ y ∈ ballotCands rest := by
      rw [mem_ballotCands_strip]; simp [hy]
    cases hs : stripItem w it with
    | none =>
      have : strip w (it :: rest) = strip w rest := by simp [strip, hs]
      rw [this, ih]
      simp only [Above]
      constructor
      · exact Or.inr
      · rintro (⟨hxi, _⟩ | h)
        · exact absurd (stripItem_none_cands hs x hxi) hx
        · exact h
    | some it' =>
      have : strip w (it :: rest) = it' :: strip w rest := by simp [strip, hs]
      rw [this]
      simp only [Above, ih]
      have e : ballotCands (List.filterMap (stripItem w) rest) = ballotCands (strip w rest) := rfl
      rw [mem_stripItem_cands hs x]
      constructor
      · rintro (⟨⟨hxi, _⟩, hyr⟩ | h)
        · exact Or.inl ⟨hxi, hrest.mp hyr⟩
        · exact Or.inr h
      · rintro (⟨hxi, hyr⟩ | h)
        · exact Or.inl ⟨⟨hxi, hx⟩, hrest.mpr hyr⟩
        · exact Or.inr h

theorem above_fst' {b : Ballot} {x y : Cand} (h : Above b x y) : x ∈ ballotCands b := above_fst h
theorem above_snd' {b : Ballot} {x y : Cand} (h : Above b x y) : y ∈ ballotCands b := above_snd h

/-- `Above` on the lifted ballot, in terms of the stripped ballot `s` -/
theorem above_lift (w : Cand) (i : Nat) (b : Ballot) (x y : Cand) :
    Above (lift w i b) x y ↔
      Above (strip w b) x y ∧ x ≠ w ∧ y ≠ w ∨
      (x = w ∧ y ∈ ballotCands ((strip w b).drop i)) ∨
      (y = w ∧ x ∈ ballotCands ((strip w b).take i)) := by
  unfold lift
  have hws := not_mem_strip w b
  have hsplit : strip w b = (strip w b).take i ++ (strip w b).drop i := (List.take_append_drop i _).symm
  have hwt : w ∉ ballotCands ((strip w b).take i) := by
    intro h; apply hws; rw [hsplit, ballotCands_append]; exact List.mem_append_left _ h
  have hwd : w ∉ ballotCands ((strip w b).drop i) := by
    intro h; apply hws; rw [hsplit, ballotCands_append]; exact List.mem_append_right _ h
  have hab : Above (strip w b) x y ↔ Above ((strip w b).take i) x y ∨
      (x ∈ ballotCands ((strip w b).take i) ∧ y ∈ ballotCands ((strip w b).drop i)) ∨ Above ((strip w b).drop i) x y := by
    conv_lhs => rw [hsplit]
    exact above_append _ _ x y
  rw [above_append, hab]
  simp only [Above, bc_cons, RankItem.cands, List.mem_append, List.mem_singleton]
  constructor
  · rintro (h | ⟨hx, rfl | hy⟩ | ⟨rfl, hy⟩ | h)
    · have h1 : x ≠ w := fun e => hwt (by have h' := above_fst h; rw [e] at h'; exact h')
      have h2 : y ≠ w := fun e => hwt (by have h' := above_snd h; rw [e] at h'; exact h')
      exact Or.inl ⟨Or.inl h, h1, h2⟩
    · exact Or.inr (Or.inr ⟨rfl, hx⟩)
    · have h1 : x ≠ w := fun e => hwt (by have h' := hx; rw [e] at h'; exact h')
      have h2 : y ≠ w := fun e => hwd (by have h' := hy; rw [e] at h'; exact h')
      exact Or.inl ⟨Or.inr (Or.inl ⟨hx, hy⟩), h1, h2⟩
    · exact Or.inr (Or.inl ⟨rfl, hy⟩)
    · have h1 : x ≠ w := fun e => hwd (by have h' := above_fst h; rw [e] at h'; exact h')
      have h2 : y ≠ w := fun e => hwd (by have h' := above_snd h; rw [e] at h'; exact h')
      exact Or.inl ⟨Or.inr (Or.inr h), h1, h2⟩
  · rintro (⟨h | ⟨hx, hy⟩ | h, h1, h2⟩ | ⟨rfl, hy⟩ | ⟨rfl, hx⟩)
    · exact Or.inl h
    · exact Or.inr (Or.inl ⟨hx, Or.inr hy⟩)
    · exact Or.inr (Or.inr (Or.inr h))
    · exact Or.inr (Or.inr (Or.inl ⟨rfl, hy⟩))
    · exact Or.inr (Or.inl ⟨hx, Or.inl rfl⟩)

/-! ### what one ballot counts before and after the lift -/

theorem mem_cands_lift_iff {w : Cand} {i : Nat} {b : Ballot} {z : Cand} (hz : z ≠ w) :
    z ∈ ballotCands (lift w i b) ↔ z ∈ ballotCands b := by
  rw [mem_ballotCands_lift]; simp [hz]

theorem counts_lift_same (U : List Cand) (w : Cand) (i : Nat) (b : Ballot) (x y : Cand) (hx : x ≠ w) (hy : y ≠ w) :
    counts U (lift w i b) (x, y) ↔ counts U b (x, y) := by
  rw [counts_iff, counts_iff, above_lift, above_strip w b x y hx hy, mem_cands_lift_iff hx, mem_cands_lift_iff hy]
  simp [hx, hy]

theorem not_counts_self (U : List Cand) (b : Ballot) (hnd : (ballotCands b).Nodup) (x : Cand) : ¬ counts U b (x, x) := by
  rw [counts_iff]
  rintro (h | ⟨h1, _, h2⟩)
  · exact above_asymm hnd h h
  · exact h2 h1

theorem counts_lift_from_w (U : List Cand) (w : Cand) (i : Nat) (b : Ballot) (hnd : (ballotCands b).Nodup)
    (hok : liftOK w i b = true) (y : Cand) (h : counts U b (w, y)) : counts U (lift w i b) (w, y) := by
  have hyw : y ≠ w := by rintro rfl; exact not_counts_self U b hnd y h
  rw [counts_iff] at h ⊢
  rcases h with h | ⟨h1, h2, h3⟩
  · left
    rw [above_lift]
    right; left
    refine ⟨rfl, ?_⟩
    unfold liftOK at hok
    rcases decompose w b with ⟨hwb, _⟩ | ⟨b₁, it, b₂, hb, hwit, hwb1, hpos⟩
    · exact absurd (above_fst h) hwb
    · rw [hpos] at hok
      simp only [decide_eq_true_eq] at hok
      subst hb
      have hwb2 : w ∉ ballotCands b₂ := by
        intro h'
        rw [ballotCands_append, bc_cons] at hnd
        have h2 := (List.nodup_append.mp hnd).2.1
        exact (List.nodup_append.mp h2).2.2 w hwit w h' rfl
      have hy2 : y ∈ ballotCands b₂ := by
        rw [above_append] at h
        rcases h with h | ⟨h, _⟩ | h
        · exact absurd (above_fst h) hwb1
        · exact absurd h hwb1
        · simp only [Above] at h
          rcases h with ⟨_, h⟩ | h
          · exact h
          · exact absurd (above_fst h) hwb2
      rw [strip_decomposed hwb1 hwb2, List.append_assoc, List.drop_append_of_le_length hok, ballotCands_append,
        ballotCands_append]
      exact List.mem_append_right _ (List.mem_append_right _ hy2)
  · right
    exact ⟨mem_ballotCands_lift.mpr (Or.inl rfl), h2, fun h' => h3 ((mem_cands_lift_iff hyw).mp h')⟩

theorem counts_lift_to_w (U : List Cand) (w : Cand) (i : Nat) (b : Ballot) (hnd : (ballotCands b).Nodup)
    (hok : liftOK w i b = true) (hwU : w ∈ U) (y : Cand) (h : counts U (lift w i b) (y, w)) : counts U b (y, w) := by
  have hyw : y ≠ w := by rintro rfl; exact not_counts_self U _ (nodup_lift hnd) y h
  rw [counts_iff] at h ⊢
  rcases h with h | ⟨_, _, h3⟩
  · rw [above_lift] at h
    rcases h with ⟨_, _, h⟩ | ⟨h, _⟩ | ⟨_, h⟩
    · exact absurd rfl h
    · exact absurd h hyw
    · unfold liftOK at hok
      rcases decompose w b with ⟨hwb, hpos⟩ | ⟨b₁, it, b₂, hb, hwit, hwb1, hpos⟩
      · right
        rw [strip_of_not_mem hwb] at h
        refine ⟨?_, hwU, hwb⟩
        have : b = b.take i ++ b.drop i := (List.take_append_drop i b).symm
        rw [this, ballotCands_append]; exact List.mem_append_left _ h
      · rw [hpos] at hok
        simp only [decide_eq_true_eq] at hok
        subst hb
        have hwb2 : w ∉ ballotCands b₂ := by
          intro h'
          rw [ballotCands_append, bc_cons] at hnd
          have h2 := (List.nodup_append.mp hnd).2.1
          exact (List.nodup_append.mp h2).2.2 w hwit w h' rfl
        rw [strip_decomposed hwb1 hwb2, List.append_assoc, List.take_append_of_le_length hok] at h
        left
        rw [above_append]
        right; left
        refine ⟨?_, by rw [bc_cons]; exact List.mem_append_left _ hwit⟩
        have : b₁ = b₁.take i ++ b₁.drop i := (List.take_append_drop i b₁).symm
        rw [this, ballotCands_append]; exact List.mem_append_left _ h
  · exact absurd (mem_ballotCands_lift.mpr (Or.inl rfl)) h3

theorem ind_le_of_imp {U U' : List Cand} {b b' : Ballot} {k k' : Pair} (h : counts U b k → counts U' b' k') :
    ind U b k ≤ ind U' b' k' := by
  unfold ind
  by_cases h1 : counts U b k
  · rw [if_pos h1, if_pos (h h1)]
  · rw [if_neg h1]; split <;> norm_num

theorem ind_eq_of_iff {U U' : List Cand} {b b' : Ballot} {k k' : Pair} (h : counts U b k ↔ counts U' b' k') :
    ind U b k = ind U' b' k' := le_antisymm (ind_le_of_imp h.mp) (ind_le_of_imp h.mpr)

/-! ### `Raised` -/

theorem nodup_keys_replaceUnit {p : RProfile} {w : Cand} {i : Nat} {b : Ballot}
    (hwf : ∀ x ∈ dkeys p, (ballotCands x).Nodup) (hb : b ∈ dkeys p) :
    ∀ x ∈ dkeys (replaceUnit p b (lift w i b)), (ballotCands x).Nodup := by
  intro x hx
  rcases mem_dkeys_replaceUnit hx with hx | rfl
  · exact hwf x hx
  · exact nodup_lift (hwf b hb)

theorem pget_lift_val (p : RProfile) (w : Cand) (i : Nat) (b : Ballot) (hwf : ∀ x ∈ dkeys p, (ballotCands x).Nodup)
    (hb : b ∈ dkeys p) (hw : w ∈ allRankedCandidates p) (k : Pair) :
    pget (pairwiseOf (replaceUnit p b (lift w i b))) k
      = pget (pairwiseOf p) k - ind (candUniverse p) b k + ind (candUniverse p) (lift w i b) k := by
  have hU := candUniverse_eq (arc_replaceUnit p b (lift w i b) w hb hw (fun c => mem_ballotCands_lift))
  rw [pairwiseOf_eq, pairwiseOf_eq, hU, pget_condorcetU _ (nodup_candUniverse p) _ (nodup_keys_replaceUnit hwf hb),
    pget_condorcetU _ (nodup_candUniverse p) _ hwf, wsum_replaceUnit _ _ _ _ hb]

/-- **Lifting `w` on one unit of one ballot raises the matrix.** -/
theorem raised_lift (p : RProfile) (w : Cand) (i : Nat) (b : Ballot) (hwf : ∀ x ∈ dkeys p, (ballotCands x).Nodup)
    (hb : b ∈ dkeys p) (hok : liftOK w i b = true) (hw : w ∈ allRankedCandidates p) :
    Raised (pairwiseOf p) (pairwiseOf (replaceUnit p b (lift w i b))) w := by
  have hU := candUniverse_eq (arc_replaceUnit p b (lift w i b) w hb hw (fun c => mem_ballotCands_lift))
  have hnd := hwf b hb
  have hwU : w ∈ candUniverse p := (mem_candUniverse p w).mpr hw
  have hval : ∀ k, pget (pairwiseOf (replaceUnit p b (lift w i b))) k
      = pget (pairwiseOf p) k - ind (candUniverse p) b k + ind (candUniverse p) (lift w i b) k := by
    intro k
    rw [pairwiseOf_eq, pairwiseOf_eq, hU, pget_condorcetU _ (nodup_candUniverse p) _ (nodup_keys_replaceUnit hwf hb),
      pget_condorcetU _ (nodup_candUniverse p) _ hwf, wsum_replaceUnit _ _ _ _ hb]
  refine ⟨fun y => ?_, fun y => ?_, fun x y hx hy => ?_⟩
  · rw [hval]
    have := ind_le_of_imp (counts_lift_from_w (candUniverse p) w i b hnd hok y)
    linarith
  · rw [hval]
    have := ind_le_of_imp (counts_lift_to_w (candUniverse p) w i b hnd hok hwU y)
    linarith
  · rw [hval, ind_eq_of_iff (counts_lift_same (candUniverse p) w i b x y hx hy)]; ring

theorem counts_bullet (U : List Cand) (w x y : Cand) : counts U [RankItem.one w] (x, y) ↔ x = w ∧ y ∈ U ∧ y ≠ w := by
  rw [counts_iff]
  simp [Above, ballotCands, RankItem.cands]

/-- **A bullet ballot for `w` raises the matrix.** -/
theorem raised_bullet (p : RProfile) (w : Cand) (hwf : ∀ x ∈ dkeys p, (ballotCands x).Nodup)
    (hw : w ∈ allRankedCandidates p) :
    Raised (pairwiseOf p) (pairwiseOf (addTo p [RankItem.one w] 1)) w := by
  have hU := candUniverse_eq (arc_addTo p [RankItem.one w] (by simpa [ballotCands, RankItem.cands] using hw))
  have hwf' : ∀ x ∈ dkeys (addTo p [RankItem.one w] 1), (ballotCands x).Nodup := by
    intro x hx
    rcases (mem_dkeys_addTo p _ 1 x).mp hx with hx | rfl
    · exact hwf x hx
    · simp [ballotCands, RankItem.cands]
  have hval : ∀ k, pget (pairwiseOf (addTo p [RankItem.one w] 1)) k
      = pget (pairwiseOf p) k + ind (candUniverse p) [RankItem.one w] k := by
    intro k
    rw [pairwiseOf_eq, pairwiseOf_eq, hU, pget_condorcetU _ (nodup_candUniverse p) _ hwf',
      pget_condorcetU _ (nodup_candUniverse p) _ hwf, wsum_addTo]; ring
  have hnn : ∀ k, 0 ≤ ind (candUniverse p) [RankItem.one w] k := by intro k; unfold ind; split <;> norm_num
  refine ⟨fun y => ?_, fun y => ?_, fun x y hx hy => ?_⟩
  · rw [hval]; have := hnn (w, y); linarith
  · rw [hval]
    have : ind (candUniverse p) [RankItem.one w] (y, w) = 0 := by
      unfold ind; rw [if_neg]; rw [counts_bullet]; simp
    rw [this]; ring_nf; exact le_refl _
  · rw [hval]
    have : ind (candUniverse p) [RankItem.one w] (x, y) = 0 := by
      unfold ind; rw [if_neg]; rw [counts_bullet]; simp [hx]
    rw [this]; ring

/-! ### the matrix of a profile of positive weights is well-formed and positive -/

theorem mem_dkeys_foldl_const {κ : Type} [DecidableEq κ] (l : List κ) (v : Rat) (acc : Dict κ) (x : κ) :
    x ∈ dkeys (l.foldl (fun agg c => addTo agg c v) acc) ↔ x ∈ dkeys acc ∨ x ∈ l := by
  induction l generalizing acc with
  | nil => simp
  | cons a t ih => rw [List.foldl_cons, ih, mem_dkeys_addTo]; simp only [List.mem_cons]; tauto

theorem mem_dkeys_condorcetU (U : List Cand) (p : RProfile) (k : Pair) :
    k ∈ dkeys (condorcetU true U p) ↔ ∃ b ∈ dkeys p, counts U b k := by
  have : ∀ (acc : Dict Pair), k ∈ dkeys (p.foldl (fun counts bw =>
      (condorcetPairs (unrankedOf U true bw.1) bw.1).foldl (fun counts k => addTo counts k bw.2) counts) acc)
      ↔ k ∈ dkeys acc ∨ ∃ b ∈ dkeys p, counts U b k := by
    induction p with
    | nil => intro acc; simp [dkeys]
    | cons bw t ih =>
      intro acc
      rw [List.foldl_cons, ih, mem_dkeys_foldl_const]
      simp only [dkeys, List.map_cons, List.mem_cons, exists_eq_or_imp]
      unfold counts condPairs
      tauto
  unfold condorcetU
  rw [this []]
  simp [dkeys]

theorem wsum_nonneg' {β : Type} (p : Dict β) (f : β → Rat) (hnn : ∀ bw ∈ p, 0 ≤ bw.2 * f bw.1) : 0 ≤ wsum p f := by
  induction p with
  | nil => simp
  | cons a t ih =>
    rw [wsum_cons]
    have := hnn a (by simp)
    have := ih (fun x hx => hnn x (by simp [hx]))
    linarith

theorem wsum_pos {β : Type} (p : Dict β) (f : β → Rat) (hnn : ∀ bw ∈ p, 0 ≤ bw.2 * f bw.1)
    (hex : ∃ bw ∈ p, 0 < bw.2 * f bw.1) : 0 < wsum p f := by
  induction p with
  | nil => obtain ⟨_, h, _⟩ := hex; simp at h
  | cons a t ih =>
    rw [wsum_cons]
    have ha := hnn a (by simp)
    have ht := wsum_nonneg' t f (fun x hx => hnn x (by simp [hx]))
    obtain ⟨bw, hbw, hpos⟩ := hex
    rcases List.mem_cons.mp hbw with rfl | hbw'
    · linarith
    · have := ih (fun x hx => hnn x (by simp [hx])) ⟨bw, hbw', hpos⟩
      linarith

theorem ind_nonneg (U : List Cand) (b : Ballot) (k : Pair) : 0 ≤ ind U b k := by unfold ind; split <;> norm_num

/-- the pairwise matrix of a profile of duplicate-free ballots with positive weights -/
theorem wf_condorcetU (U : List Cand) (hU : U.Nodup) (p : RProfile) (hwf : ∀ b ∈ dkeys p, (ballotCands b).Nodup)
    (hpos : ∀ bw ∈ p, 0 < bw.2) : Condorcet.WF (condorcetU true U p) ∧ Positive (condorcetU true U p) := by
  have hnd := condorcetU_nodup true U p
  have hentry : ∀ e ∈ condorcetU true U p, e.1.1 ≠ e.1.2 ∧ 0 < e.2 := by
    intro e he
    have hk : e.1 ∈ dkeys (condorcetU true U p) := List.mem_map.mpr ⟨e, he, rfl⟩
    obtain ⟨b, hb, hc⟩ := (mem_dkeys_condorcetU U p e.1).mp hk
    refine ⟨?_, ?_⟩
    · intro heq
      apply not_counts_self U b (hwf b hb) e.1.1
      have : e.1 = (e.1.1, e.1.1) := by rw [Prod.ext_iff]; exact ⟨rfl, heq.symm⟩
      rw [← this]; exact hc
    · have hv : pget (condorcetU true U p) e.1 = e.2 := pget_of_mem hnd (show (e.1, e.2) ∈ _ from he)
      rw [← hv, pget_condorcetU U hU p hwf]
      apply wsum_pos
      · intro bw hbw
        exact mul_nonneg (le_of_lt (hpos bw hbw)) (ind_nonneg _ _ _)
      · obtain ⟨bw, hbw, rfl⟩ := List.mem_map.mp hb
        refine ⟨bw, hbw, ?_⟩
        have : ind U bw.1 e.1 = 1 := by unfold ind; rw [if_pos hc]
        rw [this]; simpa using hpos bw hbw
  exact ⟨⟨hnd, fun e he => (hentry e he).1, fun e he => le_of_lt (hentry e he).2⟩, fun e he => (hentry e he).2⟩

/-- both candidates of a counted pair stand in the election -/
theorem counts_mem (U : List Cand) (b : Ballot) (x y : Cand) (h : counts U b (x, y)) :
    (x ∈ ballotCands b) ∧ (y ∈ ballotCands b ∨ y ∈ U) := by
  rw [counts_iff] at h
  rcases h with h | ⟨h1, h2, _⟩
  · exact ⟨above_fst h, Or.inl (above_snd h)⟩
  · exact ⟨h1, Or.inr h2⟩

theorem candidates_sub_arc (p : RProfile) (c : Cand) (h : c ∈ candidates (pairwiseOf p)) : c ∈ allRankedCandidates p := by
  obtain ⟨e, he, hc⟩ := mem_candidates.mp h
  have hk : e.1 ∈ dkeys (condorcetU true (candUniverse p) p) := List.mem_map.mpr ⟨e, he, rfl⟩
  obtain ⟨b, hb, hcnt⟩ := (mem_dkeys_condorcetU _ p e.1).mp hk
  obtain ⟨h1, h2⟩ := counts_mem _ b e.1.1 e.1.2 hcnt
  rcases hc with rfl | rfl
  · exact (mem_arc p _).mpr ⟨b, hb, h1⟩
  · rcases h2 with h2 | h2
    · exact (mem_arc p _).mpr ⟨b, hb, h2⟩
    · exact (mem_candUniverse p _).mp h2

/-! ### positive weights after the move -/

theorem pos_decr {κ : Type} [DecidableEq κ] (p : Dict κ) (b : κ) (hpos : ∀ bw ∈ p, 0 < bw.2)
    (hunit : ∀ bw ∈ p, bw.1 = b → 1 ≤ bw.2) : ∀ bw ∈ decr p b, 0 < bw.2 := by
  induction p with
  | nil => intro bw h; simp [decr] at h
  | cons e t ih =>
    obtain ⟨k, v⟩ := e
    intro bw hbw
    simp only [decr] at hbw
    have ht : ∀ bw ∈ t, 0 < bw.2 := fun x hx => hpos x (by simp [hx])
    by_cases hk : k = b
    · rw [if_pos hk] at hbw
      by_cases hv : v = 1
      · rw [if_pos hv] at hbw; exact ht bw hbw
      · rw [if_neg hv] at hbw
        rcases List.mem_cons.mp hbw with rfl | h
        · have := hunit (k, v) (by simp) hk
          simp only at this ⊢
          exact lt_of_le_of_ne (by linarith) (fun h0 => hv (by linarith))
        · exact ht bw h
    · rw [if_neg hk] at hbw
      rcases List.mem_cons.mp hbw with rfl | h
      · exact hpos (k, v) (by simp)
      · exact ih ht (fun x hx => hunit x (by simp [hx])) bw h

theorem pos_addTo {κ : Type} [DecidableEq κ] (p : Dict κ) (b : κ) (hpos : ∀ bw ∈ p, 0 < bw.2) :
    ∀ bw ∈ addTo p b 1, 0 < bw.2 := by
  induction p with
  | nil => intro bw h; simp only [addTo, List.mem_singleton] at h; rw [h]; norm_num
  | cons e t ih =>
    obtain ⟨k, v⟩ := e
    intro bw hbw
    simp only [addTo] at hbw
    have hv := hpos (k, v) (by simp)
    simp only at hv
    by_cases hk : k = b
    · rw [if_pos hk] at hbw
      rcases List.mem_cons.mp hbw with rfl | h
      · simp only; linarith
      · exact hpos bw (by simp [h])
    · rw [if_neg hk] at hbw
      rcases List.mem_cons.mp hbw with rfl | h
      · exact hv
      · exact ih (fun x hx => hpos x (by simp [hx])) bw h

/-! ### everything the matrix-level theorems need, for the two moves -/

/-- a profile as the Condorcet theorems need it: duplicate-free ballots, positive weights, and every candidate of the
    election occurs in some counted pair (false only when all ballots put all candidates into one shared rank) -/
structure ProfileOK (p : RProfile) : Prop where
  nodup : ∀ b ∈ dkeys p, (ballotCands b).Nodup
  pos : ∀ bw ∈ p, 0 < bw.2
  full : ∀ c ∈ allRankedCandidates p, c ∈ candidates (pairwiseOf p)

structure MatrixFacts (v v' : Pairwise) (w : Cand) : Prop where
  wf : Condorcet.WF v
  wf' : Condorcet.WF v'
  pos : Positive v
  pos' : Positive v'
  raised : Raised v v' w
  cands : ∀ c ∈ candidates v', c ∈ candidates v

/-- a candidate other than `w` that stands in the election is, on the lifted ballot, in a counted pair with `w` -/
theorem counts_lift_pair_with_w (U : List Cand) (w : Cand) (i : Nat) (b : Ballot) (c : Cand) (hcw : c ≠ w)
    (hc : c ∈ ballotCands b ∨ c ∈ U) :
    counts U (lift w i b) (c, w) ∨ counts U (lift w i b) (w, c) := by
  by_cases hcb : c ∈ ballotCands b
  · have hcs : c ∈ ballotCands (strip w b) := mem_ballotCands_strip.mpr ⟨hcb, hcw⟩
    have hsplit : strip w b = (strip w b).take i ++ (strip w b).drop i := (List.take_append_drop i _).symm
    rw [hsplit, ballotCands_append, List.mem_append] at hcs
    rcases hcs with h | h
    · left; rw [counts_iff, above_lift]; left; right; right; exact ⟨rfl, h⟩
    · right; rw [counts_iff, above_lift]; left; right; left; exact ⟨rfl, h⟩
  · right
    rw [counts_iff]; right
    refine ⟨mem_ballotCands_lift.mpr (Or.inl rfl), ?_, fun h => hcb ((mem_cands_lift_iff hcw).mp h)⟩
    rcases hc with h | h
    · exact absurd h hcb
    · exact h

theorem matrixFacts_lift (p : RProfile) (w : Cand) (i : Nat) (b : Ballot) (hp : ProfileOK p) (hb : b ∈ dkeys p)
    (hunit : ∀ bw ∈ p, bw.1 = b → 1 ≤ bw.2) (hok : liftOK w i b = true) (hw : w ∈ candidates (pairwiseOf p)) :
    MatrixFacts (pairwiseOf p) (pairwiseOf (replaceUnit p b (lift w i b))) w := by
  have hwa := candidates_sub_arc p w hw
  have hnd' := nodup_keys_replaceUnit (w := w) (i := i) hp.nodup hb
  have hpos' : ∀ bw ∈ replaceUnit p b (lift w i b), 0 < bw.2 := pos_addTo _ _ (pos_decr p b hp.pos hunit)
  obtain ⟨h1, h2⟩ := wf_condorcetU _ (nodup_candUniverse p) p hp.nodup hp.pos
  obtain ⟨h3, h4⟩ := wf_condorcetU _ (nodup_candUniverse (replaceUnit p b (lift w i b))) _ hnd' hpos'
  refine ⟨h1, h3, h2, h4, raised_lift p w i b hp.nodup hb hok hwa, fun c hc => ?_⟩
  apply hp.full
  exact (arc_replaceUnit p b (lift w i b) w hb hwa (fun c => mem_ballotCands_lift) c).mp (candidates_sub_arc _ c hc)

theorem matrixFacts_bullet (p : RProfile) (w : Cand) (hp : ProfileOK p) (hw : w ∈ candidates (pairwiseOf p)) :
    MatrixFacts (pairwiseOf p) (pairwiseOf (addTo p [RankItem.one w] 1)) w := by
  have hwa := candidates_sub_arc p w hw
  have hnd' : ∀ x ∈ dkeys (addTo p [RankItem.one w] 1), (ballotCands x).Nodup := by
    intro x hx
    rcases (mem_dkeys_addTo p _ 1 x).mp hx with hx | rfl
    · exact hp.nodup x hx
    · simp [ballotCands, RankItem.cands]
  obtain ⟨h1, h2⟩ := wf_condorcetU _ (nodup_candUniverse p) p hp.nodup hp.pos
  obtain ⟨h3, h4⟩ := wf_condorcetU _ (nodup_candUniverse (addTo p [RankItem.one w] 1)) _ hnd' (pos_addTo _ _ hp.pos)
  refine ⟨h1, h3, h2, h4, raised_bullet p w hp.nodup hwa, fun c hc => ?_⟩
  apply hp.full
  exact (arc_addTo p [RankItem.one w] (by simpa [ballotCands, RankItem.cands] using hwa) c).mp (candidates_sub_arc _ c hc)

/-- `w` occurs in a pair of the raised matrix when it is ranked above somebody in the base matrix -/
theorem mem_candidates_raised {v v' : Pairwise} {w : Cand} (h : Raised v v' w) (y : Cand) (hy : 0 < pget v (w, y)) :
    w ∈ candidates v' :=
  fst_mem_candidates (pget_pos_mem (lt_of_lt_of_le hy (h.up y)))

theorem wf_pairwiseOf (p : RProfile) (hp : ProfileOK p) : Condorcet.WF (pairwiseOf p) ∧ Positive (pairwiseOf p) := by
  rw [pairwiseOf_eq]; exact wf_condorcetU _ (nodup_candUniverse p) p hp.nodup hp.pos

/-- after the lift `w` still occurs in a counted pair -/
theorem mem_candidates_lift (p : RProfile) (w : Cand) (i : Nat) (b : Ballot) (hp : ProfileOK p) (hb : b ∈ dkeys p)
    (hok : liftOK w i b = true) (hw : w ∈ candidates (pairwiseOf p)) :
    w ∈ candidates (pairwiseOf (replaceUnit p b (lift w i b))) := by
  have hwa := candidates_sub_arc p w hw
  obtain ⟨hwf, hposv⟩ := wf_pairwiseOf p hp
  have hr := raised_lift p w i b hp.nodup hb hok hwa
  obtain ⟨e, he, hc⟩ := mem_candidates.mp hw
  have hepos : 0 < pget (pairwiseOf p) e.1 := by
    rw [pget_of_mem hwf.1 (show (e.1, e.2) ∈ _ from he)]; exact hposv e he
  rcases hc with hc | hc
  · -- a pair (w, y)
    have : e.1 = (w, e.1.2) := by rw [Prod.ext_iff]; exact ⟨hc.symm, rfl⟩
    rw [this] at hepos
    exact mem_candidates_raised hr e.1.2 hepos
  · -- a pair (y, w)
    have hk : e.1 = (e.1.1, w) := by rw [Prod.ext_iff]; exact ⟨rfl, hc.symm⟩
    rw [hk] at hepos
    set y := e.1.1 with hy
    by_cases hpos' : 0 < pget (pairwiseOf (replaceUnit p b (lift w i b))) (y, w)
    · exact snd_mem_candidates (pget_pos_mem hpos')
    · -- the only ballot counting (y, w) was the lifted one; it now counts (w, y)
      have hv := pget_lift_val p w i b hp.nodup hb hwa (y, w)
      have hi1 := ind_nonneg (candUniverse p) (lift w i b) (y, w)
      have hcb : counts (candUniverse p) b (y, w) := by
        by_contra hno
        have : ind (candUniverse p) b (y, w) = 0 := by unfold ind; rw [if_neg hno]
        rw [this] at hv
        exact hpos' (by linarith)
      have hyw : y ≠ w := by rintro h; rw [h] at hcb; exact not_counts_self _ b (hp.nodup b hb) w hcb
      have hyb : y ∈ ballotCands b := (counts_mem _ b y w hcb).1
      have hys : y ∈ ballotCands (strip w b) := mem_ballotCands_strip.mpr ⟨hyb, hyw⟩
      have hsplit : strip w b = (strip w b).take i ++ (strip w b).drop i := (List.take_append_drop i _).symm
      rw [hsplit, ballotCands_append, List.mem_append] at hys
      rcases hys with hyt | hyd
      · -- y is still above w: then the lifted ballot counts (y, w), so the count stays positive
        exfalso
        have hcl : counts (candUniverse p) (lift w i b) (y, w) := by
          rw [counts_iff, above_lift]; left; right; right; exact ⟨rfl, hyt⟩
        have h1 : ind (candUniverse p) (lift w i b) (y, w) = 1 := by unfold ind; rw [if_pos hcl]
        have h2 : ind (candUniverse p) b (y, w) = 1 := by unfold ind; rw [if_pos hcb]
        rw [h1, h2] at hv
        exact hpos' (by linarith)
      · have hcl : counts (candUniverse p) (lift w i b) (w, y) := by
          rw [counts_iff, above_lift]; left; right; left; exact ⟨rfl, hyd⟩
        have hv2 := pget_lift_val p w i b hp.nodup hb hwa (w, y)
        have h1 : ind (candUniverse p) (lift w i b) (w, y) = 1 := by unfold ind; rw [if_pos hcl]
        have h2 : ind (candUniverse p) b (w, y) = 0 := by
          unfold ind; rw [if_neg]
          intro h'
          exact condPairs_asymm true _ (hp.nodup b hb) hcb h'
        have h3 := pget_nonneg hwf (w, y)
        rw [h1, h2] at hv2
        exact fst_mem_candidates (pget_pos_mem (show 0 < pget _ (w, y) by linarith))

/-- after a bullet ballot `w` still occurs in a counted pair -/
theorem mem_candidates_bullet (p : RProfile) (w : Cand) (hp : ProfileOK p) (hw : w ∈ candidates (pairwiseOf p)) :
    w ∈ candidates (pairwiseOf (addTo p [RankItem.one w] 1)) := by
  have hwa := candidates_sub_arc p w hw
  obtain ⟨hwf, hposv⟩ := wf_pairwiseOf p hp
  have hr := raised_bullet p w hp.nodup hwa
  obtain ⟨e, he, hc⟩ := mem_candidates.mp hw
  have hepos : 0 < pget (pairwiseOf p) e.1 := by
    rw [pget_of_mem hwf.1 (show (e.1, e.2) ∈ _ from he)]; exact hposv e he
  have hne := hwf.2.1 e he
  -- the other candidate of the pair
  obtain ⟨y, hyw, hyc⟩ : ∃ y, y ≠ w ∧ y ∈ candidates (pairwiseOf p) := by
    rcases hc with hc | hc
    · exact ⟨e.1.2, by rw [hc]; exact fun h => hne h.symm, snd_mem_candidates he⟩
    · exact ⟨e.1.1, by rw [hc]; exact hne, fst_mem_candidates he⟩
  have hyU : y ∈ candUniverse p := (mem_candUniverse p y).mpr (candidates_sub_arc p y hyc)
  -- the bullet ballot counts (w, y)
  have hU := candUniverse_eq (arc_addTo p [RankItem.one w] (by simpa [ballotCands, RankItem.cands] using hwa))
  have hk : (w, y) ∈ dkeys (condorcetU true (candUniverse (addTo p [RankItem.one w] 1)) (addTo p [RankItem.one w] 1)) := by
    rw [mem_dkeys_condorcetU, hU]
    exact ⟨[RankItem.one w], (mem_dkeys_addTo p _ 1 _).mpr (Or.inr rfl), (counts_bullet _ w w y).mpr ⟨rfl, hyU, hyw⟩⟩
  obtain ⟨e', he', hk'⟩ := List.mem_map.mp hk
  have := fst_mem_candidates (v := pairwiseOf (addTo p [RankItem.one w] 1)) he'
  rw [hk'] at this
  exact this

theorem mem_candidates_of_counts (p : RProfile) (b : Ballot) (hb : b ∈ dkeys p) (x y : Cand)
    (h : counts (candUniverse p) b (x, y)) : x ∈ candidates (pairwiseOf p) ∧ y ∈ candidates (pairwiseOf p) := by
  have hk : (x, y) ∈ dkeys (condorcetU true (candUniverse p) p) := (mem_dkeys_condorcetU _ p _).mpr ⟨b, hb, h⟩
  obtain ⟨e, he, hk'⟩ := List.mem_map.mp hk
  have h1 := fst_mem_candidates (v := pairwiseOf p) he
  have h2 := snd_mem_candidates (v := pairwiseOf p) he
  rw [hk'] at h1 h2
  exact ⟨h1, h2⟩

/-- no candidate drops out of the matrix when `w` is lifted on one unit of one ballot -/
theorem candidates_lift_superset (p : RProfile) (w : Cand) (i : Nat) (b : Ballot) (hp : ProfileOK p) (hb : b ∈ dkeys p)
    (hok : liftOK w i b = true) (hw : w ∈ candidates (pairwiseOf p)) (c : Cand) (hc : c ∈ candidates (pairwiseOf p)) :
    c ∈ candidates (pairwiseOf (replaceUnit p b (lift w i b))) := by
  by_cases hcw : c = w
  · rw [hcw]; exact mem_candidates_lift p w i b hp hb hok hw
  have hwa := candidates_sub_arc p w hw
  have hU := candUniverse_eq (arc_replaceUnit p b (lift w i b) w hb hwa (fun c => mem_ballotCands_lift))
  obtain ⟨e, he, hce⟩ := mem_candidates.mp hc
  have hk : e.1 ∈ dkeys (condorcetU true (candUniverse p) p) := List.mem_map.mpr ⟨e, he, rfl⟩
  obtain ⟨bx, hbx, hcnt⟩ := (mem_dkeys_condorcetU _ p e.1).mp hk
  -- a counted pair of the new profile with endpoint c is all we need
  have hdone : ∀ (b' : Ballot), b' ∈ dkeys (replaceUnit p b (lift w i b)) → ∀ x y, (c = x ∨ c = y) →
      counts (candUniverse p) b' (x, y) → c ∈ candidates (pairwiseOf (replaceUnit p b (lift w i b))) := by
    intro b' hb' x y hxy hcn
    rw [← hU] at hcn
    obtain ⟨h1, h2⟩ := mem_candidates_of_counts _ b' hb' x y hcn
    rcases hxy with rfl | rfl <;> assumption
  have hpair : e.1 = (e.1.1, e.1.2) := rfl
  rw [hpair] at hcnt
  rcases mem_dkeys_replaceUnit_of_mem (b := b) (b' := lift w i b) hbx with rfl | hbx'
  · -- the pair was counted by the changed ballot
    have hnew := new_mem_dkeys_replaceUnit p bx (lift w i bx)
    by_cases h1 : e.1.1 = w
    · -- pair (w, c)
      have hc2 : c = e.1.2 := by
        rcases hce with h | h
        · exact absurd (h.trans h1) hcw
        · exact h
      have hmem := (counts_mem _ bx e.1.1 e.1.2 hcnt).2
      rw [← hc2] at hmem
      rcases counts_lift_pair_with_w (candUniverse p) w i bx c hcw hmem with h | h
      · exact hdone _ hnew c w (Or.inl rfl) h
      · exact hdone _ hnew w c (Or.inr rfl) h
    · by_cases h2 : e.1.2 = w
      · -- pair (c, w)
        have hc1 : c = e.1.1 := by
          rcases hce with h | h
          · exact h
          · exact absurd (h.trans h2) hcw
        have hmem := (counts_mem _ bx e.1.1 e.1.2 hcnt).1
        rw [← hc1] at hmem
        rcases counts_lift_pair_with_w (candUniverse p) w i bx c hcw (Or.inl hmem) with h | h
        · exact hdone _ hnew c w (Or.inl rfl) h
        · exact hdone _ hnew w c (Or.inr rfl) h
      · exact hdone _ hnew e.1.1 e.1.2 hce ((counts_lift_same _ w i bx _ _ h1 h2).mpr hcnt)
  · exact hdone bx hbx' e.1.1 e.1.2 hce hcnt

theorem candidates_bullet_superset (p : RProfile) (w : Cand) (hw : w ∈ allRankedCandidates p) (c : Cand)
    (hc : c ∈ candidates (pairwiseOf p)) : c ∈ candidates (pairwiseOf (addTo p [RankItem.one w] 1)) := by
  have hU := candUniverse_eq (arc_addTo p [RankItem.one w] (by simpa [ballotCands, RankItem.cands] using hw))
  obtain ⟨e, he, hce⟩ := mem_candidates.mp hc
  have hk : e.1 ∈ dkeys (condorcetU true (candUniverse p) p) := List.mem_map.mpr ⟨e, he, rfl⟩
  obtain ⟨bx, hbx, hcnt⟩ := (mem_dkeys_condorcetU _ p e.1).mp hk
  have hpair : e.1 = (e.1.1, e.1.2) := rfl
  rw [hpair, ← hU] at hcnt
  obtain ⟨h1, h2⟩ := mem_candidates_of_counts _ bx ((mem_dkeys_addTo p _ 1 bx).mpr (Or.inl hbx)) _ _ hcnt
  rcases hce with rfl | rfl <;> assumption

end VL.Mono
