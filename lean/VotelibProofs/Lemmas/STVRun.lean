/-
  Lemmas about whole runs of the transferable-vote model: the initial allocation and the invariants of every
  state reached by `nth_count`; used by Props/C03.lean and Props/C04.lean.
-/
import VotelibProofs.Lemmas.STVCount
namespace VL.STV
open VL

/-! ### the initial allocation -/

/-- weight of the empty ballots (dropped by `initial_allocation`, counted in `total_n_votes`) -/
def emptyWeight (votes : Profile) : Rat := ((votes.filter (fun bw => decide (bw.1 = []))).map (·.2)).sum

/-- vote counts are non-negative -/
def WFVotes (votes : Profile) : Prop := ∀ bw ∈ votes, 0 ≤ bw.2

theorem sum_indicator {cs : List Cand} (hnd : cs.Nodup) {c0 : Cand} (hc : c0 ∈ cs) (w : Rat) :
    (cs.map (fun c => if c0 = c then w else 0)).sum = w := by
  induction cs with
  | nil => cases hc
  | cons x xs ih =>
    have hx := List.nodup_cons.mp hnd
    simp only [List.map_cons, List.sum_cons]
    rcases List.mem_cons.mp hc with h | h
    · subst h
      have : (xs.map (fun c => if c0 = c then w else 0)) = xs.map (fun _ => (0 : Rat)) := by
        apply List.map_congr_left
        intro c hcx
        rw [if_neg (fun (e : c0 = c) => hx.1 (e ▸ hcx))]
      rw [this]; simp
    · rw [if_neg (fun (e : c0 = x) => hx.1 (e ▸ h)), ih hx.2 h]; simp

theorem sum_map_add' (cs : List Cand) (f g : Cand → Rat) :
    (cs.map (fun c => f c + g c)).sum = (cs.map f).sum + (cs.map g).sum := by
  induction cs with
  | nil => simp
  | cons x xs ih => simp only [List.map_cons, List.sum_cons, ih]; ring

theorem split_first (votes : Profile) {cs : List Cand} (hnd : cs.Nodup)
    (hall : ∀ bw ∈ votes, ∀ c rest, bw.1 = .one c :: rest → c ∈ cs) :
    (cs.map (fun c => pileTotal (votes.filter (firstIs c)))).sum + pileTotal (fictionalPile votes)
      + emptyWeight votes = totalVotes votes := by
  induction votes with
  | nil => simp [fictionalPile, emptyWeight, totalVotes]
  | cons bw rest ih =>
    have ih' := ih (fun x hx => hall x (List.mem_cons_of_mem _ hx))
    obtain ⟨b, w⟩ := bw
    have hb := hall (b, w) List.mem_cons_self
    simp only [fictionalPile, emptyWeight, totalVotes, List.filter_cons, List.map_cons, List.sum_cons] at ih' ⊢
    cases b with
    | nil =>
      simp only [firstIs, sharedFirst, Bool.false_eq_true, if_false, decide_true, if_true, List.map_cons, List.sum_cons]
      linarith
    | cons it more =>
      cases it with
      | one c0 =>
        have hc0 : c0 ∈ cs := hb c0 more rfl
        have : (cs.map (fun c => pileTotal (if firstIs c (RankItem.one c0 :: more, w) = true
            then (RankItem.one c0 :: more, w) :: rest.filter (firstIs c) else rest.filter (firstIs c))))
            = cs.map (fun c => (if c0 = c then w else 0) + pileTotal (rest.filter (firstIs c))) := by
          apply List.map_congr_left
          intro c _
          by_cases hcc : c0 = c
          · simp [firstIs, hcc]
          · simp [firstIs, hcc]
        rw [this, sum_map_add', sum_indicator hnd hc0]
        simp only [sharedFirst, Bool.false_eq_true, if_false, reduceCtorEq, decide_false]
        linarith
      | shared ms =>
        simp only [firstIs, sharedFirst, Bool.false_eq_true, if_false, if_true, reduceCtorEq, decide_false,
          pileTotal_cons]
        linarith

theorem held_firstPrefs (votes : Profile) :
    held (firstPrefs votes) = ((allRanked votes).map (fun c => pileTotal (votes.filter (firstIs c)))).sum := by
  unfold firstPrefs held
  rw [List.map_map]
  rfl

theorem allocKeys_firstPrefs (votes : Profile) : allocKeys (firstPrefs votes) = (allRanked votes).map some := by
  unfold firstPrefs allocKeys
  rw [List.map_map]; rfl

theorem continuing_firstPrefs (votes : Profile) : continuing (firstPrefs votes) = allRanked votes := by
  rw [continuing_eq, allocKeys_firstPrefs, List.filterMap_map]
  simp

theorem first_mem_allRanked {votes : Profile} {bw : Ballot × Rat} (hbw : bw ∈ votes) {c : Cand} {rest : Ballot}
    (h : bw.1 = .one c :: rest) : c ∈ allRanked votes :=
  mem_allRanked.mpr ⟨bw, hbw, by rw [h]; simp [ballotCands, itemCands]⟩

structure InitInv (votes : Profile) (a0 : Alloc) : Prop where
  held_eq : held a0 + emptyWeight votes = totalVotes votes
  keys : KeysNodup a0
  nonneg : WFVotes votes → NonNeg a0
  rests : RestsOK a0
  cont_eq : continuing a0 = allRanked votes
  grow : WFVotes votes → ∀ c ∈ allRanked votes, pileTotal (votes.filter (firstIs c)) ≤ totalOf a0 c
  ballots : BallotsFrom (votes.map (·.1)) a0

theorem init_inv {E : Engine} (hE : EngineOK E) {votes : Profile} {ds ds' : List Draw} {a0 : Alloc}
    (h : initialAllocation E votes ds = .ok (a0, ds')) : InitInv votes a0 := by
  unfold initialAllocation at h
  have hc : ∀ t ∈ allRanked votes, t ∈ continuing (firstPrefs votes) := by
    intro t ht; rw [continuing_firstPrefs]; exact ht
  have hs := movePile_spec hE hc h
  have hk0 : KeysNodup (firstPrefs votes) := by
    unfold KeysNodup
    rw [allocKeys_firstPrefs]
    exact (allRanked_nodup votes).map (fun _ _ h => by injection h)
  refine ⟨?_, hs.keys hk0, ?_, ?_, by rw [hs.cont_eq, continuing_firstPrefs], ?_, ?_⟩
  rotate_right 2
  · intro hwf c hc
    have hmem : (some c, votes.filter (firstIs c)) ∈ firstPrefs votes :=
      List.mem_map.mpr ⟨c, hc, rfl⟩
    have := hs.grow (fun x hx => hwf x (List.mem_filter.mp hx).1) (some c)
    rw [allocPile_of_mem hk0 hmem] at this
    exact this
  · intro hp hhp x hx
    rcases hs.entry hp hhp x hx with ⟨hp', hm', _, hxx'⟩ | ⟨bw, hbw, h3, _⟩
    · unfold firstPrefs at hm'
      obtain ⟨c, _, rfl⟩ := List.mem_map.mp hm'
      exact List.mem_map.mpr ⟨x, (List.mem_filter.mp hxx').1, rfl⟩
    · exact List.mem_map.mpr ⟨bw, (List.mem_filter.mp hbw).1, h3.symm⟩
  · rw [hs.held_eq, held_firstPrefs]
    exact split_first votes (allRanked_nodup votes) (fun bw hbw c rest he => first_mem_allRanked hbw he)
  · intro hwf
    apply hs.nonneg
    · intro hp hhp x hx
      unfold firstPrefs at hhp
      obtain ⟨c, _, rfl⟩ := List.mem_map.mp hhp
      exact hwf x (List.mem_filter.mp hx).1
    · intro x hx
      exact hwf x (List.mem_filter.mp hx).1
  · intro hp hhp x hx hns
    rw [hs.cont_eq, continuing_firstPrefs]
    rcases hs.entry hp hhp x hx with ⟨hp', hm', hk', hxx'⟩ | ⟨bw, hbw, h3, _⟩
    · unfold firstPrefs at hm'
      obtain ⟨c, hcm, rfl⟩ := List.mem_map.mp hm'
      have hx2 := (List.mem_filter.mp hxx').2
      rw [← hk']
      simp only
      unfold firstIs at hx2
      split at hx2
      · rename_i c' more hb
        have hcc : c' = c := by simpa using hx2
        rw [hb, topCont_cons_one, hcc, if_pos hcm]
      · cases hx2
    · exfalso
      have hsf := (List.mem_filter.mp hbw).2
      unfold sharedFirst at hsf
      split at hsf
      · rename_i ms more hb
        rw [h3, hb, noShared_cons_shared] at hns
        cases hns
      · cases hsf


/-! ### seats bookkeeping -/

theorem sumSeats_nil : sumSeats [] = 0 := rfl
theorem sumSeats_cons (x : Cand × Nat) (xs : Seats) : sumSeats (x :: xs) = x.2 + sumSeats xs := by
  simp [sumSeats]

theorem sumSeats_seatsAdd1 (s : Seats) (c : Cand) (k : Nat) : sumSeats (seatsAdd1 s c k) = sumSeats s + k := by
  induction s with
  | nil => simp [seatsAdd1, sumSeats]
  | cons x xs ih =>
    obtain ⟨c', k'⟩ := x
    simp only [seatsAdd1]
    split
    · simp only [sumSeats_cons]; omega
    · simp only [sumSeats_cons, ih]; omega

theorem sumSeats_seatsAdd (s add : Seats) : sumSeats (seatsAdd s add) = sumSeats s + sumSeats add := by
  unfold seatsAdd
  induction add generalizing s with
  | nil => simp [sumSeats]
  | cons x xs ih => rw [List.foldl_cons, ih, sumSeats_seatsAdd1, sumSeats_cons]; omega

theorem totAvail_go (avail : List (Cand × Option Int)) (acc : Option Int) {t : Int}
    (h : avail.foldl availAdd acc = some t) :
    ∃ s0, acc = some s0 ∧ (∀ p ∈ avail, ∃ k, p.2 = some k) ∧ t = s0 + (avail.map (fun p => p.2.getD 0)).sum := by
  induction avail generalizing acc with
  | nil => simp only [List.foldl_nil] at h; exact ⟨t, h, by simp, by simp⟩
  | cons x xs ih =>
    rw [List.foldl_cons] at h
    obtain ⟨s1, h1, h2, h3⟩ := ih _ h
    cases acc with
    | none => simp [availAdd] at h1
    | some s0 =>
      cases hx : x.2 with
      | none => simp [availAdd, hx] at h1
      | some k =>
        simp only [availAdd, hx, Option.some.injEq] at h1
        refine ⟨s0, rfl, ?_, ?_⟩
        · intro p hp
          rcases List.mem_cons.mp hp with he | he
          · exact ⟨k, he ▸ hx⟩
          · exact h2 p he
        · simp only [List.map_cons, List.sum_cons, hx, Option.getD_some]
          omega

theorem electAll_spec {a : Alloc} {prev maxS : Seats} {ds ds' : List Draw} {out : CountOut}
    (h : electAll a prev maxS ds = .ok (out, ds')) :
    out.alloc = [] ∧ out.shortcut = true ∧ out.eliminated = [] ∧ ds' = ds ∧
    out.elected = (availSeats a prev maxS).map (fun p => (p.1, (p.2.getD 0).toNat)) ∧
    ∀ p ∈ availSeats a prev maxS, ∃ k : Int, p.2 = some k ∧ 0 ≤ k := by
  unfold electAll at h
  simp only at h
  split at h
  · cases h
  · rename_i hany
    injection h with h; injection h with h1 h2
    subst h1
    refine ⟨rfl, rfl, rfl, h2.symm, rfl, ?_⟩
    intro p hp
    have := fun hc => hany (List.any_eq_true.mpr ⟨p, hp, hc⟩)
    cases hp2 : p.2 with
    | none => rw [hp2] at this; exact absurd rfl this
    | some k =>
      rw [hp2] at this
      refine ⟨k, rfl, ?_⟩
      by_contra hneg
      exact this (by simpa using hneg)

theorem sum_toNat (l : List (Cand × Option Int)) (h : ∀ p ∈ l, ∃ k : Int, p.2 = some k ∧ 0 ≤ k) :
    ((sumSeats (l.map (fun p => (p.1, (p.2.getD 0).toNat))) : Nat) : Int) = (l.map (fun p => p.2.getD 0)).sum := by
  induction l with
  | nil => simp [sumSeats]
  | cons x xs ih =>
    obtain ⟨k, hk, hk0⟩ := h x List.mem_cons_self
    simp only [List.map_cons, sumSeats_cons, List.sum_cons, hk, Option.getD_some]
    rw [← ih (fun p hp => h p (List.mem_cons_of_mem _ hp))]
    push_cast
    rw [Int.toNat_of_nonneg hk0]

/-- the elect-all-remaining shortcut fills exactly the open seats -/
theorem shortcut_fills {cfg : Cfg} {a : Alloc} {nSeats : Nat} {prev maxS : Seats} {ds ds' : List Draw} {out : CountOut}
    (hs : shortcutCond cfg a nSeats prev maxS = true) (he : electAll a prev maxS ds = .ok (out, ds'))
    (hle : sumSeats prev ≤ nSeats) : sumSeats prev + sumSeats out.elected = nSeats := by
  obtain ⟨_, _, _, _, hel, hall⟩ := electAll_spec he
  unfold shortcutCond at hs
  simp only [Bool.and_eq_true, decide_eq_true_eq] at hs
  obtain ⟨s0, h0, _, h2⟩ := totAvail_go _ _ hs.1
  simp only [Option.some.injEq] at h0
  have := sum_toNat _ hall
  rw [hel]
  omega

/-! ### states reached by `nth_count` -/

inductive Reach (E : Engine) (cfg : Cfg) (inp : Input) (ds0 : List Draw) : St → Prop
  | init {st : St} : initState E inp ds0 = .ok st → Reach E cfg inp ds0 st
  | step {st st' : St} : Reach E cfg inp ds0 st → countStep E cfg inp st = .ok (some st') → Reach E cfg inp ds0 st'

theorem Reach.runCounts {E : Engine} {cfg : Cfg} {inp : Input} {ds0 : List Draw} {k : Nat} {st st' : St}
    (hr : Reach E cfg inp ds0 st) (h : runCounts E cfg inp k st = .ok st') : Reach E cfg inp ds0 st' := by
  induction k generalizing st with
  | zero => simp only [STV.runCounts] at h; injection h with h; subst h; exact hr
  | succ k ih =>
    simp only [STV.runCounts] at h
    split at h
    · cases h
    · injection h with h; subst h; exact hr
    · rename_i st1 hstep
      exact ih (.step hr hstep) h

theorem countStep_inv {E : Engine} {cfg : Cfg} {inp : Input} {st st' : St}
    (h : countStep E cfg inp st = .ok (some st')) :
    sumSeats st.seats ≠ inp.nSeats ∧ ∃ out ds',
      nextCount E cfg st.alloc inp.nSeats (totalVotes inp.votes) st.seats inp.maxS st.draws = .ok (out, ds') ∧
      noProgress st out = false ∧ st' = advance st out ds' := by
  unfold countStep at h
  split at h
  · cases h
  · rename_i hne
    refine ⟨hne, ?_⟩
    split at h
    · cases h
    · rename_i out ds' hnext
      split at h
      · cases h
      · rename_i hnp
        injection h with h; injection h with h
        exact ⟨out, ds', hnext, by simpa using hnp, h.symm⟩

/-- the quota value of a run -/
def runQuota (cfg : Cfg) (inp : Input) : Rat := quotaValue cfg (totalVotes inp.votes) inp.nSeats

/-- invariants of a loop state -/
structure StInv (cfg : Cfg) (inp : Input) (st : St) : Prop where
  fin : st.final = true → sumSeats st.seats = inp.nSeats
  keys : st.final = false → KeysNodup st.alloc
  cons : st.final = false →
    held st.alloc + emptyWeight inp.votes + runQuota cfg inp * (st.byQuota : Rat) = totalVotes inp.votes
  nonneg : WFVotes inp.votes → st.final = false → NonNeg st.alloc
  rests : st.final = false → RestsOK st.alloc
  ballots : st.final = false → BallotsFrom (inp.votes.map (·.1)) st.alloc
  cont_sub : ∀ c ∈ continuing st.alloc, c ∈ allRanked inp.votes

theorem initState_inv {E : Engine} (hE : EngineOK E) {cfg : Cfg} {inp : Input} {ds : List Draw} {st : St}
    (h : initState E inp ds = .ok st) : StInv cfg inp st ∧ st.final = false ∧ st.seats = inp.prev ∧ st.byQuota = 0 := by
  unfold initState at h
  split at h
  · cases h
  · rename_i a ds' hinit
    injection h with h; subst h
    have hi := init_inv hE hinit
    refine ⟨⟨(by intro hc; cases hc), fun _ => hi.keys, fun _ => ?_, fun hw _ => hi.nonneg hw, fun _ => hi.rests,
      fun _ => hi.ballots, fun c hc => (by rw [hi.cont_eq] at hc; exact hc)⟩, rfl, rfl, rfl⟩
    simp only [Nat.cast_zero, mul_zero, add_zero]
    exact hi.held_eq

theorem step_inv {E : Engine} (hE : EngineOK E) {cfg : Cfg} {inp : Input} {st st' : St}
    (hi : StInv cfg inp st) (h : countStep E cfg inp st = .ok (some st')) : StInv cfg inp st' := by
  obtain ⟨hne, out, ds', hnext, _, hadv⟩ := countStep_inv h
  have hfin : st.final = false := by
    cases hf : st.final with
    | false => rfl
    | true => exact absurd (hi.fin hf) hne
  subst hadv
  obtain ⟨hle, hcase⟩ := nextCount_cases hnext
  cases hsc : out.shortcut with
  | true =>
    have hal : out.alloc = [] := by
      cases hcase with
      | shortcut hs he => exact (electAll_spec he).1
      | election qv hq hpos el hel hne' hout =>
        obtain ⟨_, _, _, _, _, _, h5⟩ := afterElection_inv hout; rw [h5] at hsc; cases hsc
      | elimination _ hout =>
        obtain ⟨_, _, _, _, _, h5⟩ := afterElimination_inv hout; rw [h5] at hsc; cases hsc
    refine ⟨?_, ?_, ?_, ?_, ?_, ?_, ?_⟩
    · intro _
      simp only [advance, sumSeats_seatsAdd]
      cases hcase with
      | shortcut hs he => exact shortcut_fills hs he hle
      | election qv hq hpos el hel hne' hout =>
        obtain ⟨_, _, _, _, _, _, h5⟩ := afterElection_inv hout; rw [h5] at hsc; cases hsc
      | elimination _ hout =>
        obtain ⟨_, _, _, _, _, h5⟩ := afterElimination_inv hout; rw [h5] at hsc; cases hsc
    all_goals first
      | (intro hf; simp only [advance, hsc] at hf; cases hf)
      | (intro _ hf; simp only [advance, hsc] at hf; cases hf)
      | (intro c hc; simp only [advance, hal, continuing, List.filterMap_nil] at hc; cases hc)
  | false =>
    have hc := count_inv hE (hi.keys hfin) hnext hsc
    refine ⟨?_, fun _ => hc.keys, fun _ => ?_, fun hw _ => hc.nonneg (hi.nonneg hw hfin),
      fun _ => hc.rests (hi.rests hfin), fun _ => hc.ballots _ (hi.ballots hfin), ?_⟩
    · intro hf; simp only [advance, hsc] at hf; cases hf
    · simp only [advance, hsc, Bool.false_eq_true, if_false]
      have h1 := hi.cons hfin
      have h2 := hc.held_eq
      unfold runQuota at h1 ⊢
      push_cast
      linarith
    · intro c hcm
      simp only [advance] at hcm
      rw [hc.cont_eq] at hcm
      exact hi.cont_sub c (List.mem_filter.mp hcm).1

theorem reach_inv {E : Engine} (hE : EngineOK E) {cfg : Cfg} {inp : Input} {ds0 : List Draw} {st : St}
    (hr : Reach E cfg inp ds0 st) : StInv cfg inp st := by
  induction hr with
  | init h => exact (initState_inv hE h).1
  | step _ h ih => exact step_inv hE ih h


/-- every state listed by the count-by-count trace (what the driver prints for `stv_trace`) is reached -/
theorem traceGo_reach {E : Engine} {cfg : Cfg} {inp : Input} {ds0 : List Draw} (k : Nat) (st : St) (acc : List St)
    (hr : Reach E cfg inp ds0 st) (hacc : ∀ s ∈ acc, Reach E cfg inp ds0 s) :
    ∀ s ∈ (traceGo E cfg inp k st acc).1, Reach E cfg inp ds0 s := by
  induction k generalizing st acc with
  | zero => intro s hs; simp only [traceGo, List.mem_reverse] at hs; exact hacc s hs
  | succ k ih =>
    intro s hs
    simp only [traceGo] at hs
    split at hs
    · simp only [List.mem_reverse] at hs; exact hacc s hs
    · simp only [List.mem_reverse] at hs; exact hacc s hs
    · rename_i st' hstep
      have hr' : Reach E cfg inp ds0 st' := .step hr hstep
      exact ih st' (st' :: acc) hr' (fun x hx => by
        rcases List.mem_cons.mp hx with h | h
        · rw [h]; exact hr'
        · exact hacc x h) s hs

end VL.STV
