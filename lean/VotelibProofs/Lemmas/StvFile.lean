/-
  Helper lemmas about the STV file section model (VotelibModel.StvFile) for C19.
-/
import VotelibModel.StvFile
import VotelibProofs.Lemmas.Blt
import Mathlib.Data.List.Nodup
import Mathlib.Algebra.Order.Ring.Rat
import Mathlib.Tactic.Linarith
namespace VL.StvFile
open VL
set_option linter.unusedSimpArgs false

@[simp] theorem ok_bind {α β} (a : α) (f : α → Except Err β) : (Except.ok a >>= f) = f a := rfl
@[simp] theorem err_bind {α β} (e : Err) (f : α → Except Err β) : ((Except.error e : Except Err α) >>= f) = Except.error e := rfl
@[simp] theorem pure_eq {α} (a : α) : (pure a : Except Err α) = Except.ok a := rfl
@[simp] theorem throw_eq {α} (e : Err) : (throw e : Except Err α) = Except.error e := rfl

/-! ### nick table -/
theorem nickSet_fresh : ∀ (nk : List (String × Nat)) (k : String) (v : Nat), k ∉ nk.map (·.1) →
    nickSet nk k v = nk ++ [(k, v)]
  | [], k, v, _ => by simp [nickSet]
  | (k', v') :: t, k, v, h => by
      have hne : k' ≠ k := by intro e; apply h; simp [e]
      have ht : k ∉ t.map (·.1) := by intro hm; apply h; simp [hm]
      simp [nickSet, hne, nickSet_fresh t k v ht]

/-- the table after reading candidate lines with pairwise different nicknames: nickname i ↦ position i -/
def enumFrom (k : Nat) : List String → List (String × Nat)
  | [] => []
  | s :: t => (s, k) :: enumFrom (k + 1) t

theorem enumFrom_keys : ∀ (l : List String) (k : Nat), (enumFrom k l).map (·.1) = l
  | [], _ => rfl
  | s :: t, k => by simp [enumFrom, enumFrom_keys t (k + 1)]

/-- candidate lines followed by the ballots line -/
theorem loadHeader_cands : ∀ (zs : List ((String × Bool × String) × String)) (n : Nat)
    (cs : List (String × Bool)) (nk : List (String × Nat)) (sc : Comps) (sys : Summary),
    createSystem sc = .ok sys →
    (nk.map (fun (p : String × Nat) => p.1) ++ zs.map (fun (z : (String × Bool × String) × String) => z.2)).Nodup →
    loadHeader (zs.map (fun p => HLine.cand p.1.2.1 p.2 p.1.1) ++ [HLine.ballotsN n]) cs nk sc []
      = .ok (cs ++ zs.map (fun p => (p.1.1, p.1.2.1)), nk ++ enumFrom cs.length (zs.map (·.2)), sys, some n, false)
  | [], n, cs, nk, sc, sys, hsys, _ => by simp [loadHeader, applyOrder, enumFrom, hsys]
  | z :: t, n, cs, nk, sc, sys, hsys, hn => by
      have hfresh : z.2 ∉ nk.map (·.1) := by
        intro hm
        have := List.nodup_append.1 hn
        exact this.2.2 _ hm _ (by simp) rfl
      have hn' : ((nk ++ [(z.2, cs.length)]).map (fun (p : String × Nat) => p.1)
          ++ t.map (fun (z : (String × Bool × String) × String) => z.2)).Nodup := by
        simpa [List.append_assoc] using hn
      simp only [List.map_cons, List.cons_append, loadHeader]
      rw [nickSet_fresh nk z.2 cs.length hfresh, loadHeader_cands t n _ _ sc sys hsys hn']
      simp [enumFrom, List.append_assoc]

theorem lookup_enumFrom : ∀ (l : List String) (k i : Nat), l.Nodup → i < l.length →
    (enumFrom k l).lookup ((l[i]?).getD "") = some (k + i)
  | [], _, i, _, h => by simp at h
  | s :: t, k, i, hn, hi => by
      cases i with
      | zero => simp [enumFrom, List.lookup]
      | succ j =>
        have hj : j < t.length := by simpa using hi
        have hnd := List.nodup_cons.1 hn
        have hne : ((t[j]?).getD "" == s) = false := by
          have hmem : (t[j]?).getD "" ∈ t := by
            rw [List.getElem?_eq_getElem hj]; simp
          have : (t[j]?).getD "" ≠ s := fun e => hnd.1 (e ▸ hmem)
          simpa using this
        simp only [enumFrom, List.getElem?_cons_succ, List.lookup, hne]
        rw [lookup_enumFrom t (k + 1) j hnd.2 hj]
        congr 1; omega

theorem lookupNicks_ok (nicks : List String) (hn : nicks.Nodup) : ∀ idx : List Nat, (∀ i ∈ idx, i < nicks.length) →
    lookupNicks (enumFrom 0 nicks) (idx.map (nickAt nicks)) = .ok idx
  | [], _ => rfl
  | i :: t, h => by
      have hi : i < nicks.length := h i (List.mem_cons_self)
      have hl := lookup_enumFrom nicks 0 i hn hi
      simp only [List.map_cons, lookupNicks, nickAt, hl]
      rw [lookupNicks_ok nicks hn t (fun j hj => h j (List.mem_cons_of_mem _ hj))]
      simp

theorem addVote_fresh : ∀ (bs : List (List Nat × Rat)) (b : List Nat) (w : Rat), b ∉ bs.map (·.1) →
    addVote bs b w = bs ++ [(b, w)]
  | [], b, w, _ => by simp [addVote]
  | (b', w') :: t, b, w, h => by
      have hne : b' ≠ b := by intro e; apply h; simp [e]
      have ht : b ∉ t.map (·.1) := by intro hm; apply h; simp [hm]
      simp [addVote, hne, addVote_fresh t b w ht]


/-- what `wfStv` asks of one ballot -/
def voteOK (nicks : List String) (b : List Nat × Weight) : Bool :=
  b.1.all (· < nicks.length) && decide (0 ≤ b.2.val) && (b.2.spellable || !needMult (b.1.map (nickAt nicks)) b.2)

theorem loadVotes_line (nicks : List String) (hn : nicks.Nodup) (b : List Nat × Weight) (hb : voteOK nicks b = true)
    (n : Nat) (rest : List VLine) (i : Nat) (acc : List (List Nat × Rat)) :
    loadVotes (enumFrom 0 nicks) n (voteLine nicks b :: rest) i acc
      = loadVotes (enumFrom 0 nicks) n rest (i + 1) (addVote acc b.1 b.2.val) := by
  obtain ⟨idx, w⟩ := b
  simp only [voteOK, Bool.and_eq_true, List.all_eq_true, decide_eq_true_eq, Bool.or_eq_true,
    Bool.not_eq_true'] at hb
  obtain ⟨⟨hidx, _⟩, hsp⟩ := hb
  have hlk := lookupNicks_ok nicks hn idx hidx
  cases hm : needMult (idx.map (nickAt nicks)) w with
  | true =>
    have hs : w.spellable = true := by
      cases hsp with
      | inl h => exact h
      | inr h => rw [hm] at h; cases h
    simp only [voteLine, hm, if_true, hs]
    simp only [loadVotes, hlk, ok_bind]
  | false =>
    -- no multiplier: the weight is 1 and the line is neither empty nor 'end'
    simp only [needMult, Bool.or_eq_false_iff, decide_eq_false_iff_not, ne_eq, not_not] at hm
    obtain ⟨⟨h1, hne⟩, _⟩ := hm
    cases hnames : idx.map (nickAt nicks) with
    | nil => rw [hnames] at hne; simp at hne
    | cons s more =>
      have hm' : needMult (s :: more) w = false := by
        rw [← hnames]; simp only [needMult, Bool.or_eq_false_iff, decide_eq_false_iff_not, ne_eq, not_not]
        exact ⟨⟨h1, hne⟩, by assumption⟩
      rw [hnames] at hlk
      simp only [voteLine, hnames, hm', Bool.false_eq_true, if_false]
      simp only [loadVotes, hlk, ok_bind, h1]

theorem loadVotes_lines (nicks : List String) (hn : nicks.Nodup) (n : Nat) :
    ∀ (bl : List (List Nat × Weight)) (i : Nat) (acc : List (List Nat × Rat)),
    (∀ b ∈ bl, voteOK nicks b = true) →
    (acc.map (fun (a : List Nat × Rat) => a.1) ++ bl.map (fun (b : List Nat × Weight) => b.1)).Nodup →
    i + bl.length = n →
    loadVotes (enumFrom 0 nicks) n (bl.map (voteLine nicks) ++ [VLine.endLine]) i acc
      = .ok (acc ++ bl.map (fun b => (b.1, b.2.val)))
  | [], i, acc, _, _, hlen => by
      have : i = n := by simpa using hlen
      simp [loadVotes, this]
  | b :: t, i, acc, hok, hnd, hlen => by
      have hfresh : b.1 ∉ acc.map (·.1) := by
        intro hm
        have := List.nodup_append.1 hnd
        exact this.2.2 _ hm _ (by simp) rfl
      have hnd' : ((acc ++ [(b.1, b.2.val)]).map (fun (a : List Nat × Rat) => a.1)
          ++ t.map (fun (b : List Nat × Weight) => b.1)).Nodup := by
        simpa [List.append_assoc] using hnd
      simp only [List.map_cons, List.cons_append]
      rw [loadVotes_line nicks hn b (hok b (List.mem_cons_self)), addVote_fresh acc _ _ hfresh,
        loadVotes_lines nicks hn n t (i + 1) _ (fun x hx => hok x (List.mem_cons_of_mem _ hx)) hnd'
          (by simp at hlen; omega)]
      simp

/-! ### nicknames are pairwise different -/
theorem letterOf_inj : ∀ a : Fin 26, ∀ b : Fin 26, letterOf a.val = letterOf b.val → a = b := by decide

theorem letterOf_mod (i : Nat) : letterOf (i % 26) = letterOf i := by simp [letterOf]

theorem ordinalNick_inj : ∀ (k i j : Nat), i < 26 ^ k → j < 26 ^ k → ordinalNick k i = ordinalNick k j → i = j
  | 0, i, j, hi, hj, _ => by simp at hi hj; omega
  | k + 1, i, j, hi, hj, h => by
      simp only [ordinalNick, List.cons.injEq] at h
      obtain ⟨h1, h2⟩ := h
      have hm : i % 26 = j % 26 := by
        have := letterOf_inj ⟨i % 26, Nat.mod_lt _ (by norm_num)⟩ ⟨j % 26, Nat.mod_lt _ (by norm_num)⟩
          (by simp only [letterOf_mod]; exact h1)
        exact Fin.mk.inj_iff.1 this
      have hd : i / 26 = j / 26 :=
        ordinalNick_inj k (i / 26) (j / 26) (by rw [Nat.div_lt_iff_lt_mul (by norm_num)]; rw [pow_succ] at hi; exact hi)
          (by rw [Nat.div_lt_iff_lt_mul (by norm_num)]; rw [pow_succ] at hj; exact hj) h2
      have := Nat.div_add_mod i 26
      have := Nat.div_add_mod j 26
      omega

theorem nLettersFrom_spec (n : Nat) : ∀ (fuel k : Nat), n ≤ 26 ^ (k + fuel) → n ≤ 26 ^ (nLettersFrom n fuel k)
  | 0, k, h => by simpa [nLettersFrom] using h
  | fuel + 1, k, h => by
      simp only [nLettersFrom]
      split
      · assumption
      · exact nLettersFrom_spec n fuel (k + 1) (by rw [show k + 1 + fuel = k + (fuel + 1) by omega]; exact h)

theorem nLetters_spec (n : Nat) : n ≤ 26 ^ (nLetters n) := by
  unfold nLetters
  have h1 : n ≤ 26 ^ (nLettersFrom n n 0) := by
    apply nLettersFrom_spec
    simp only [Nat.zero_add]
    exact le_of_lt (Nat.lt_pow_self (by norm_num))
  exact le_trans h1 (Nat.pow_le_pow_right (by norm_num) (le_max_right _ _))

theorem nLetters_pos (n : Nat) : 1 ≤ nLetters n := by unfold nLetters; exact le_max_left _ _

theorem ordinalNicks_nodup (n : Nat) : (ordinalNicks n).Nodup := by
  unfold ordinalNicks
  refine List.Nodup.map_on ?_ List.nodup_range
  intro i hi j hj h
  have hi' : i < n := List.mem_range.1 hi
  have hj' : j < n := List.mem_range.1 hj
  have hs := nLetters_spec n
  exact ordinalNick_inj (nLetters n) i j (by omega) (by omega) (String.ofList_injective h)

theorem hasDupFrom_nodup : ∀ (l seen : List String), hasDupFrom l seen = false → seen.Nodup → (seen ++ l).Nodup
  | [], seen, _, hs => by simpa using hs
  | s :: t, seen, h, hs => by
      simp only [hasDupFrom] at h
      split at h
      · simp at h
      · rename_i hnot0
        have hnot : s ∉ seen := fun hm => hnot0 (Or.inr hm)
        have := hasDupFrom_nodup t (seen ++ [s]) h (by
          rw [List.nodup_append]
          refine ⟨hs, by simp, ?_⟩
          intro a ha b hb
          simp at hb
          subst hb
          intro e; subst e; exact hnot ha)
        simpa [List.append_assoc] using this

/-- the nicknames `_candidate_nicks` assigns are always pairwise different -/
theorem candidateNicks_nodup (initials : List String) : (candidateNicks initials).Nodup := by
  unfold candidateNicks
  split
  · exact ordinalNicks_nodup _
  · rename_i h
    have := hasDupFrom_nodup initials [] (by simpa using h) List.nodup_nil
    simpa using this


/-! ### ... and never empty -/
theorem hasDupFrom_nonempty : ∀ (l seen : List String), hasDupFrom l seen = false → ∀ s ∈ l, s ≠ ""
  | [], _, _, s, hs => by simp at hs
  | a :: t, seen, h, s, hs => by
      simp only [hasDupFrom] at h
      split at h
      · simp at h
      · rename_i hnot
        rcases List.mem_cons.1 hs with rfl | hm
        · exact fun e => hnot (Or.inl e)
        · exact hasDupFrom_nonempty t _ h s hm

theorem ordinalNick_length : ∀ (k i : Nat), (ordinalNick k i).length = k
  | 0, _ => rfl
  | k + 1, i => by simp [ordinalNick, ordinalNick_length k]

theorem candidateNicks_nonempty (initials : List String) : ∀ s ∈ candidateNicks initials, s ≠ "" := by
  unfold candidateNicks
  split
  · intro s hs
    simp only [ordinalNicks, List.mem_map, List.mem_range] at hs
    obtain ⟨i, _, rfl⟩ := hs
    intro e
    have hl := congrArg String.length e
    simp only [String.length_ofList, ordinalNick_length, String.length_empty] at hl
    have := nLetters_pos initials.length
    omega
  · rename_i h
    exact hasDupFrom_nonempty initials [] (by simpa using h)

theorem ordinalNicks_length (n : Nat) : (ordinalNicks n).length = n := by simp [ordinalNicks]

theorem candidateNicks_length (l : List String) : (candidateNicks l).length = l.length := by
  unfold candidateNicks
  split
  · exact ordinalNicks_length _
  · rfl

theorem zip_map_snd_of_length {α β} : ∀ (a : List α) (b : List β), a.length = b.length → (a.zip b).map (·.2) = b
  | [], [], _ => rfl
  | [], _ :: _, h => by simp at h
  | _ :: _, [], h => by simp at h
  | x :: xs, y :: ys, h => by simp [zip_map_snd_of_length xs ys (by simpa using h)]

theorem zip_map_fst_of_length {α β} : ∀ (a : List α) (b : List β), a.length = b.length → (a.zip b).map (·.1) = a
  | [], [], _ => rfl
  | [], _ :: _, h => by simp at h
  | _ :: _, [], h => by simp at h
  | x :: xs, y :: ys, h => by simp [zip_map_fst_of_length xs ys (by simpa using h)]

theorem loadHeader_others : ∀ (ls : List (String × SVal)) (rest : List HLine) (cs : List (String × Bool))
    (nk : List (String × Nat)) (sc sc' : Comps) (ord : List String), collect ls sc = .ok sc' →
    loadHeader (ls.map (fun p => HLine.other p.1 p.2) ++ rest) cs nk sc ord = loadHeader rest cs nk sc' ord
  | [], rest, cs, nk, sc, sc', ord, h => by simp [collect] at h; subst h; simp
  | p :: t, rest, cs, nk, sc, sc', ord, h => by
      simp only [collect] at h
      cases hc : compsAdd sc p.1 p.2 with
      | error e => rw [hc] at h; simp at h
      | ok c1 =>
        rw [hc] at h
        simp only [ok_bind] at h
        simp only [List.map_cons, List.cons_append, loadHeader, hc, ok_bind]
        exact loadHeader_others t rest cs nk c1 sc' ord h

/-- the header `_dump_system` writes for a supported system is read back by `_create_system` to the same settings -/
theorem sys_rt (d : SysDoc) (h : wfSys d = true) :
    ∃ ls c, dumpSys d.toSys = .ok ls ∧
      collect (ls ++ argLines d.seatsArg) {} = .ok c ∧
      createSystem c = .ok d.summary := by
  obtain ⟨title, sf, sa, rnd, q, m⟩ := d
  simp only [wfSys, Bool.and_eq_true, Bool.or_eq_true, decide_eq_true_eq, Bool.not_eq_true', Bool.and_eq_false_iff] at h
  obtain ⟨hq, hs⟩ := h
  rcases hq with rfl | rfl <;> cases title <;> cases sf <;> cases sa <;> cases m <;>
    (first | (simp at hs; done) | skip) <;> rcases rnd with _ | _ | n <;>
    (refine ⟨_, _, rfl, rfl, ?_⟩; simp [createSystem, sysTitle, sysMethod, sysQuotaSel, sysQuota, sysRandom,
      sysSeats, SysDoc.summary, knownQuotas, SVal.word, SVal.num, bind, Except.bind, pure, Except.pure])

theorem wf_no_negative (d : Doc Weight) (h : wfStv d = true) :
    d.ballots.any (fun b => decide (b.2.val < 0)) = false := by
  simp only [wfStv, Bool.and_eq_true, decide_eq_true_eq, List.all_eq_true] at h
  rw [Bool.eq_false_iff]
  intro hany
  simp only [List.any_eq_true, decide_eq_true_eq] at hany
  obtain ⟨b, hb, hneg⟩ := hany
  have := (h.1 b hb).1.2
  linarith

theorem load_dump_gen (sys : Sys) (arg : Option Nat) (ls : List (String × SVal)) (c : Comps) (sm : Summary)
    (hls : dumpSys sys = .ok ls)
    (hcol : collect (ls ++ argLines arg) {} = .ok c)
    (hsys : createSystem c = .ok sm)
    (d : Doc Weight) (h : wfStv d = true) (cls : String → OItem) (bl : List Blt.Line) :
    ∃ hv, dumpStv sys arg true d = .ok hv ∧
      loadStv cls hv.1 hv.2 bl = .ok (eraseDoc d, d.cands.map (fun c => (c.1, c.2.1)), sm) := by
  refine ⟨((ls ++ argLines arg).map (fun p => HLine.other p.1 p.2)
      ++ (d.cands.zip (candidateNicks (d.cands.map (·.2.2)))).map (fun p => HLine.cand p.1.2.1 p.2 p.1.1)
      ++ [HLine.ballotsN d.ballots.length],
    d.ballots.map (voteLine (candidateNicks (d.cands.map (·.2.2)))) ++ [VLine.endLine]), ?_, ?_⟩
  · simp only [dumpStv, hls, ok_bind, pure_eq, wf_no_negative d h]
    rfl
  simp only [wfStv, Bool.and_eq_true, decide_eq_true_eq, List.all_eq_true] at h
  obtain ⟨hall, hbn⟩ := h
  have hnd := candidateNicks_nodup (d.cands.map (·.2.2))
  have hlen : (candidateNicks (d.cands.map (·.2.2))).length = d.cands.length := by
    rw [candidateNicks_length]; simp
  have hzs : (d.cands.zip (candidateNicks (d.cands.map (·.2.2)))).map (·.2) = candidateNicks (d.cands.map (·.2.2)) :=
    zip_map_snd_of_length _ _ hlen.symm
  have hzf : (d.cands.zip (candidateNicks (d.cands.map (·.2.2)))).map (·.1) = d.cands :=
    zip_map_fst_of_length _ _ hlen.symm
  have hok : ∀ b ∈ d.ballots, voteOK (candidateNicks (d.cands.map (·.2.2))) b = true := by
    intro b hb
    have := hall b hb
    simp only [voteOK, hlen]
    simpa using this
  simp only [loadStv]
  rw [List.append_assoc, loadHeader_others _ _ _ _ _ c [] hcol, loadHeader_cands _ _ [] [] _ _ hsys (by simpa [hzs] using hnd)]
  simp only [ok_bind, List.nil_append, List.length_nil, hzs]
  rw [loadVotes_lines _ hnd d.ballots.length d.ballots 0 [] hok (by simpa using hbn) (by simp)]
  simp only [ok_bind, pure_eq, List.nil_append]
  have hc : (d.cands.zip (candidateNicks (d.cands.map (·.2.2)))).map (fun p => (p.1.1, p.1.2.1))
      = d.cands.map (fun c => (c.1, c.2.1)) := by
    have : (d.cands.zip (candidateNicks (d.cands.map (·.2.2)))).map (fun p => (p.1.1, p.1.2.1))
        = ((d.cands.zip (candidateNicks (d.cands.map (·.2.2)))).map (·.1)).map (fun c => (c.1, c.2.1)) := by simp
    rw [this, hzf]
  rw [hc]
  simp [eraseDoc]


theorem load_dump (sd : SysDoc) (hsd : wfSys sd = true) (d : Doc Weight) (h : wfStv d = true) (cls : String → OItem)
    (bl : List Blt.Line) :
    ∃ hv, dumpStv sd.toSys sd.seatsArg true d = .ok hv ∧
      loadStv cls hv.1 hv.2 bl = .ok (eraseDoc d, d.cands.map (fun c => (c.1, c.2.1)), sd.summary) := by
  obtain ⟨ls, c, hls, hcol, hsys⟩ := sys_rt sd hsd
  exact load_dump_gen sd.toSys sd.seatsArg ls c sd.summary hls hcol hsys d h cls bl

/-! ### which exceptions the reader can raise -/
def StvErr (e : Err) : Prop := e = Err.parseError ∨ e = Err.notImplemented

macro "stv_err_cases" h:ident : tactic => `(tactic| (
  repeat' split at $h:ident
  all_goals first
    | (simp at $h:ident; done)
    | (simp at $h:ident; subst $h:ident; simp [StvErr]; done)))

theorem compsAdd_err (c k v) (e : Err) (h : compsAdd c k v = .error e) : StvErr e := by
  unfold compsAdd at h; stv_err_cases h
theorem sysMethod_err (sc) (e : Err) (h : sysMethod sc = .error e) : StvErr e := by
  unfold sysMethod at h; stv_err_cases h
theorem sysQuotaSel_err (m sc) (e : Err) (h : sysQuotaSel m sc = .error e) : StvErr e := by
  unfold sysQuotaSel at h; simp only at h; stv_err_cases h
theorem sysQuota_err (b q) (e : Err) (h : sysQuota b q = .error e) : StvErr e := by
  cases q <;> simp only [sysQuota] at h <;> stv_err_cases h
theorem sysRandom_err (sc) (e : Err) (h : sysRandom sc = .error e) : StvErr e := by
  unfold sysRandom at h; stv_err_cases h
theorem sysSeats_err (sc) (e : Err) (h : sysSeats sc = .error e) : StvErr e := by
  unfold sysSeats at h; stv_err_cases h

theorem createSystem_err (sc : Comps) (e : Err) (h : createSystem sc = .error e) : StvErr e := by
  unfold createSystem at h
  cases h2 : sysMethod sc with
  | error e' => simp only [h2, ok_bind, err_bind] at h; cases h; exact sysMethod_err sc _ h2
  | ok m =>
    cases h3 : sysQuotaSel m sc with
    | error e' => simp only [h2, h3, ok_bind, err_bind] at h; cases h; exact sysQuotaSel_err m sc _ h3
    | ok qm =>
      cases h4 : sysQuota (decide (m = "blt")) qm.1 with
      | error e' => simp only [h2, h3, h4, ok_bind, err_bind] at h; cases h; exact sysQuota_err _ _ _ h4
      | ok q =>
        cases h5 : sysRandom sc with
        | error e' => simp only [h2, h3, h4, h5, ok_bind, err_bind] at h; cases h; exact sysRandom_err sc _ h5
        | ok r =>
          cases h6 : sysSeats sc with
          | error e' => simp only [h2, h3, h4, h5, h6, ok_bind, err_bind] at h; cases h; exact sysSeats_err sc _ h6
          | ok z => simp only [h2, h3, h4, h5, h6, ok_bind, err_bind, pure_eq] at h; cases h

theorem reorderNicks_err (nk : List (String × Nat)) : ∀ (l : List String) (acc : List (String × Nat)) (e : Err),
    reorderNicks nk l acc = .error e → e = Err.parseError
  | [], _, e, h => by simp [reorderNicks] at h
  | s :: t, acc, e, h => by
      simp only [reorderNicks] at h
      split at h
      · exact reorderNicks_err nk t _ e h
      · simp at h; exact h.symm

theorem applyOrder_err (nk : List (String × Nat)) (ord : List String) (e : Err) (h : applyOrder nk ord = .error e) :
    e = Err.parseError := by
  unfold applyOrder at h
  split at h
  · simp at h
  · cases hr : reorderNicks nk ord [] with
    | error e' => rw [hr] at h; simp at h; subst h; exact reorderNicks_err nk _ _ _ hr
    | ok r => rw [hr] at h; simp at h

theorem loadHeader_err : ∀ (hs : List HLine) (cs : List (String × Bool)) (nk : List (String × Nat))
    (sc : Comps) (ord : List String) (e : Err), loadHeader hs cs nk sc ord = .error e → StvErr e
  | [], _, _, _, _, e, h => by simp [loadHeader] at h; exact Or.inl h.symm
  | .blank :: rest, cs, nk, sc, ord, e, h => by simp only [loadHeader] at h; exact loadHeader_err rest cs nk sc ord e h
  | .invalid :: _, _, _, _, _, e, h => by simp [loadHeader] at h; exact Or.inl h.symm
  | .cand w nick name :: rest, cs, nk, sc, ord, e, h => by
      simp only [loadHeader] at h; exact loadHeader_err rest _ _ sc ord e h
  | .candBad :: _, _, _, _, _, e, h => by simp [loadHeader] at h; exact Or.inl h.symm
  | .ballotsN n :: _, _, nk, sc, ord, e, h => by
      simp only [loadHeader] at h
      cases ho : applyOrder nk ord with
      | error e' => rw [ho] at h; simp at h; subst h; exact Or.inl (applyOrder_err nk ord e' ho)
      | ok r =>
        rw [ho] at h; simp only [ok_bind] at h
        cases hc : createSystem sc with
        | error e' => rw [hc] at h; simp at h; subst h; exact createSystem_err sc e' hc
        | ok sys => rw [hc] at h; simp at h
  | .ballotsBlt :: _, _, nk, sc, ord, e, h => by
      simp only [loadHeader] at h
      cases ho : applyOrder nk ord with
      | error e' => rw [ho] at h; simp at h; subst h; exact Or.inl (applyOrder_err nk ord e' ho)
      | ok r =>
        rw [ho] at h; simp only [ok_bind] at h
        cases hc : createSystem sc with
        | error e' => rw [hc] at h; simp at h; subst h; exact createSystem_err sc e' hc
        | ok sys => rw [hc] at h; simp at h
  | .ballotsBad :: _, _, nk, sc, ord, e, h => by
      simp only [loadHeader] at h
      cases ho : applyOrder nk ord with
      | error e' => rw [ho] at h; simp at h; subst h; exact Or.inl (applyOrder_err nk ord e' ho)
      | ok r =>
        rw [ho] at h; simp only [ok_bind] at h
        cases hc : createSystem sc with
        | error e' => rw [hc] at h; simp at h; subst h; exact createSystem_err sc e' hc
        | ok sys => rw [hc] at h; simp at h; exact Or.inl h.symm
  | .order l :: rest, cs, nk, sc, _, e, h => by simp only [loadHeader] at h; exact loadHeader_err rest cs nk sc l e h
  | .other k v :: rest, cs, nk, sc, ord, e, h => by
      simp only [loadHeader] at h
      cases hc : compsAdd sc k v with
      | error e' => rw [hc] at h; simp at h; subst h; exact compsAdd_err sc k v e' hc
      | ok c1 => rw [hc] at h; simp only [ok_bind] at h; exact loadHeader_err rest cs nk c1 ord e h

theorem lookupNicks_err (nk : List (String × Nat)) : ∀ (l : List String) (e : Err),
    lookupNicks nk l = .error e → e = Err.parseError
  | [], e, h => by simp [lookupNicks] at h
  | s :: t, e, h => by
      simp only [lookupNicks] at h
      split at h
      · cases ht : lookupNicks nk t with
        | error e' => rw [ht] at h; simp at h; subst h; exact lookupNicks_err nk t e' ht
        | ok r => rw [ht] at h; simp at h
      · simp at h; exact h.symm

theorem loadVotes_err (nk : List (String × Nat)) (n : Nat) : ∀ (vs : List VLine) (i : Nat) (acc : List (List Nat × Rat))
    (e : Err), loadVotes nk n vs i acc = .error e → StvErr e
  | [], _, _, e, h => by simp [loadVotes] at h; exact Or.inl h.symm
  | .endLine :: _, i, acc, e, h => by
      simp only [loadVotes] at h
      split at h
      · simp at h; exact Or.inl h.symm
      · simp at h
  | .blank :: rest, i, acc, e, h => by simp only [loadVotes] at h; exact loadVotes_err nk n rest _ _ e h
  | .items first more :: rest, i, acc, e, h => by
      simp only [loadVotes] at h
      cases first with
      | mult r =>
        simp only at h
        cases hl : lookupNicks nk more with
        | error e' => rw [hl] at h; simp at h; subst h; exact Or.inl (lookupNicks_err nk _ _ hl)
        | ok b => rw [hl] at h; simp only [ok_bind] at h; exact loadVotes_err nk n rest _ _ e h
      | multBad => simp at h; exact Or.inl h.symm
      | word s =>
        simp only at h
        cases hl : lookupNicks nk (s :: more) with
        | error e' => rw [hl] at h; simp at h; subst h; exact Or.inl (lookupNicks_err nk _ _ hl)
        | ok b => rw [hl] at h; simp only [ok_bind] at h; exact loadVotes_err nk n rest _ _ e h

theorem ordItems_err (cls : String → OItem) (cands : List Nat) : ∀ (l : List String) (i : Nat) (e : Err),
    ordItems cls cands i l = .error e → e = Err.parseError
  | [], _, e, h => by simp [ordItems] at h
  | s :: t, i, e, h => by
      simp only [ordItems] at h
      split at h
      · cases hr : ordItems cls cands (i + 1) t with
        | error e' => rw [hr] at h; simp at h; subst h; exact ordItems_err cls cands t _ e' hr
        | ok r => rw [hr] at h; simp at h
      · exact ordItems_err cls cands t _ e h
      · simp at h; exact h.symm

theorem ordVote_err (cls : String → OItem) (cands : List Nat) (items : List String) (e : Err)
    (h : ordVote cls cands items = .error e) : e = Err.parseError := by
  unfold ordVote at h
  cases hr : ordItems cls cands 0 items with
  | error e' => rw [hr] at h; simp at h; subst h; exact ordItems_err cls cands _ _ e' hr
  | ok co =>
    rw [hr] at h; simp only [ok_bind] at h
    split at h
    · simp at h
    · simp at h; exact h.symm

theorem loadOrdered_err (cls : String → OItem) (cands : List Nat) (n : Nat) : ∀ (vs : List VLine) (i : Nat)
    (acc : List (List Nat × Rat)) (e : Err), loadOrdered cls cands n vs i acc = .error e → StvErr e
  | [], _, _, e, h => by simp [loadOrdered] at h; exact Or.inl h.symm
  | .endLine :: _, i, acc, e, h => by
      simp only [loadOrdered] at h
      split at h
      · simp at h; exact Or.inl h.symm
      · simp at h
  | .blank :: rest, i, acc, e, h => by simp only [loadOrdered] at h; exact loadOrdered_err cls cands n rest _ _ e h
  | .items first more :: rest, i, acc, e, h => by
      simp only [loadOrdered] at h
      cases first with
      | mult r =>
        simp only at h
        cases hl : ordVote cls cands more with
        | error e' => rw [hl] at h; simp at h; subst h; exact Or.inl (ordVote_err cls cands _ _ hl)
        | ok b => rw [hl] at h; simp only [ok_bind] at h; exact loadOrdered_err cls cands n rest _ _ e h
      | multBad => simp at h; exact Or.inl h.symm
      | word s =>
        simp only at h
        cases hl : ordVote cls cands (s :: more) with
        | error e' => rw [hl] at h; simp at h; subst h; exact Or.inl (ordVote_err cls cands _ _ hl)
        | ok b => rw [hl] at h; simp only [ok_bind] at h; exact loadOrdered_err cls cands n rest _ _ e h

theorem loadStv_err (cls : String → OItem) (hs : List HLine) (vs : List VLine) (bl : List Blt.Line) (e : Err)
    (h : loadStv cls hs vs bl = .error e) : StvErr e := by
  simp only [loadStv] at h
  cases hh : loadHeader hs [] [] {} [] with
  | error e' => rw [hh] at h; simp at h; subst h; exact loadHeader_err _ _ _ _ _ _ hh
  | ok r =>
    obtain ⟨cs, nk, sys, n?, o⟩ := r
    rw [hh] at h
    simp only [ok_bind] at h
    cases n? with
    | some n =>
      simp only at h
      cases o with
      | false =>
        simp only [Bool.false_eq_true, if_false] at h
        cases hv : loadVotes nk n vs 0 [] with
        | error e' => rw [hv] at h; simp at h; subst h; exact loadVotes_err _ _ _ _ _ _ hv
        | ok bs => rw [hv] at h; simp at h
      | true =>
        simp only [if_true] at h
        cases hv : loadOrdered cls (nk.map (·.2)) n vs 0 [] with
        | error e' => rw [hv] at h; simp at h; subst h; exact loadOrdered_err _ _ _ _ _ _ _ hv
        | ok bs => rw [hv] at h; simp at h
    | none =>
      simp only at h
      cases hb : Blt.loadBlt bl with
      | error e' => rw [hb] at h; simp at h; subst h; exact Or.inl (Blt.loadBlt_err bl e' hb)
      | ok d => rw [hb] at h; simp at h

/-! ### the writer's refusals -/
theorem dumpStv_negative (sys : Sys) (arg : Option Nat) (namesOK : Bool) (d : Doc Weight)
    (h : ∃ b ∈ d.ballots, b.2.val < 0) : ∃ e, dumpStv sys arg namesOK d = .error e := by
  have hany : d.ballots.any (fun b => decide (b.2.val < 0)) = true := by
    obtain ⟨b, hb, hneg⟩ := h
    exact List.any_eq_true.2 ⟨b, hb, by simpa using hneg⟩
  simp only [dumpStv]
  cases hs : dumpSys sys with
  | error e => exact ⟨e, by simp⟩
  | ok ls =>
    cases namesOK with
    | false => exact ⟨notSupported, by simp⟩
    | true => exact ⟨notSupported, by simp [hany]⟩

theorem dumpTb_err : ∀ (tb : Tb) (e : Err), dumpTb tb = .error e → e = notSupported
  | .pre ok inner, e, h => by
      simp only [dumpTb] at h
      split at h
      · exact dumpTb_err inner e h
      · simp at h; exact h.symm
  | .order, e, h => by simp [dumpTb] at h
  | .sortitor (some n), e, h => by simp [dumpTb] at h
  | .sortitor none, e, h => by simp [dumpTb] at h
  | .unsupported, e, h => by simp [dumpTb] at h; exact h.symm

theorem dumpTv_err (a b c : Bool) (q : Option String) (m : Bool) (e : Err) (h : dumpTv a b c q m = .error e) :
    e = notSupported := by
  unfold dumpTv at h
  cases a <;> cases b <;> cases c <;> simp at h <;> (try exact h.symm)
  rcases q with _ | n
  · simp at h
  · simp only at h
    split at h
    · simp at h
    · simp at h; exact h.symm

theorem dumpSys_err : ∀ (sys : Sys) (e : Err), dumpSys sys = .error e → e = notSupported
  | .voting none s, e, h => by simp only [dumpSys] at h; exact dumpSys_err s e h
  | .voting (some (name, ok)) s, e, h => by
      simp only [dumpSys] at h
      cases ok with
      | false => simp at h; exact h.symm
      | true =>
        simp only [Bool.not_true, Bool.false_eq_true, if_false] at h
        cases hs : dumpSys s with
        | error e' => rw [hs] at h; simp at h; subst h; exact dumpSys_err s e' hs
        | ok r => rw [hs] at h; simp at h
  | .fixed n s, e, h => by
      simp only [dumpSys] at h
      cases hs : dumpSys s with
      | error e' => rw [hs] at h; simp at h; subst h; exact dumpSys_err s e' hs
      | ok r => rw [hs] at h; simp at h
  | .tie m tb _, e, h => by
      simp only [dumpSys] at h
      cases hs : dumpSys m with
      | error e' => rw [hs] at h; simp at h; subst h; exact dumpSys_err m e' hs
      | ok r =>
        rw [hs] at h
        simp only [ok_bind] at h
        cases ht : dumpTb tb with
        | error e' => rw [ht] at h; simp at h; subst h; exact dumpTb_err tb e' ht
        | ok t => rw [ht] at h; simp at h
  | .tv a b c q m _ _, e, h => by simp only [dumpSys] at h; exact dumpTv_err a b c q m e h
  | .other, e, h => by simp [dumpSys] at h

/-- whatever the writer refuses, it refuses with NotSupportedInSTV -/
theorem dumpStv_err (sys : Sys) (arg : Option Nat) (namesOK : Bool) (d : Doc Weight) (e : Err)
    (h : dumpStv sys arg namesOK d = .error e) : e = notSupported := by
  simp only [dumpStv] at h
  cases hs : dumpSys sys with
  | error e' => rw [hs] at h; simp at h; subst h; exact dumpSys_err sys e' hs
  | ok ls =>
    rw [hs] at h
    simp only [ok_bind] at h
    cases namesOK with
    | false => simp at h; exact h.symm
    | true =>
      simp only [Bool.not_true, Bool.false_eq_true, if_false] at h
      split at h
      · simp at h; exact h.symm
      · simp at h

/-! ### BLT mode -/
def bltSummary (seats : Nat) : Summary :=
  { title := none, seats := some (seats : Int), quota := Quota.unknown, mandatory := false, random := none }

theorem load_dump_blt (d : Blt.Doc Blt.Weight) (h : Blt.WFdoc d = true) (cls : String → OItem) (vs : List VLine) :
    ∃ hv, dumpStvBlt d = .ok hv ∧
      loadStv cls hv.1 vs hv.2 = .ok ({ cands := d.cands.map (fun c => (c.1, c.2, "")),
                                        ballots := d.ballots.map (fun b => (b.1, b.2.val)) }, d.cands, bltSummary d.nSeats) := by
  have h' : Blt.WFdoc { d with title := none } = true := by simpa [Blt.WFdoc] using h
  obtain ⟨ls, hd, hl⟩ := Blt.load_dump _ h'
  refine ⟨([HLine.other "method" (SVal.word "blt"), HLine.ballotsBlt], ls), ?_, ?_⟩
  · simp [dumpStvBlt, hd]
  · have hh : loadHeader [HLine.other "method" (SVal.word "blt"), HLine.ballotsBlt] [] [] {} []
        = .ok ([], [], { title := none, seats := none, quota := Quota.unknown, mandatory := false, random := none }, none, false) := by
      rfl
    simp only [loadStv, hh, ok_bind, hl]
    cases hc : d.cands with
    | nil => simp [bltMode, Blt.eraseDoc, hc, bltSummary, pure, Except.pure]
    | cons c t => simp [bltMode, Blt.eraseDoc, hc, bltSummary, pure, Except.pure]

/-! ### a returned ballot names candidates of the returned list -/
def NkOK (nk : List (String × Nat)) (n : Nat) : Prop := ∀ p ∈ nk, p.2 < n

theorem nickSet_ok : ∀ (nk : List (String × Nat)) (k : String) (v n : Nat), NkOK nk n → v < n → NkOK (nickSet nk k v) n
  | [], k, v, n, _, hv => by intro p hp; simp [nickSet] at hp; subst hp; exact hv
  | (k', v') :: t, k, v, n, h, hv => by
      intro p hp
      simp only [nickSet] at hp
      split at hp
      · rcases List.mem_cons.1 hp with rfl | hm
        · exact hv
        · exact h p (List.mem_cons_of_mem _ hm)
      · rcases List.mem_cons.1 hp with rfl | hm
        · exact h _ List.mem_cons_self
        · exact nickSet_ok t k v n (fun q hq => h q (List.mem_cons_of_mem _ hq)) hv p hm

theorem lookup_mem : ∀ (nk : List (String × Nat)) (s : String) (i : Nat), nk.lookup s = some i → (s, i) ∈ nk
  | [], _, _, h => by simp [List.lookup] at h
  | (k, v) :: t, s, i, h => by
      simp only [List.lookup] at h
      split at h
      · rename_i heq
        have : s = k := by simpa using heq
        cases h; subst this; exact List.mem_cons_self
      · exact List.mem_cons_of_mem _ (lookup_mem t s i h)

theorem reorderNicks_ok (nk : List (String × Nat)) (n : Nat) (hk : NkOK nk n) : ∀ (l : List String)
    (acc r : List (String × Nat)), reorderNicks nk l acc = .ok r → NkOK acc n → NkOK r n
  | [], acc, r, h, ha => by simp [reorderNicks] at h; subst h; exact ha
  | s :: t, acc, r, h, ha => by
      simp only [reorderNicks] at h
      split at h
      · rename_i i hi
        exact reorderNicks_ok nk n hk t _ r h (nickSet_ok acc s i n ha (hk _ (lookup_mem nk s i hi)))
      · simp at h

theorem applyOrder_ok (nk : List (String × Nat)) (n : Nat) (hk : NkOK nk n) (ord : List String)
    (r : List (String × Nat) × Bool) (h : applyOrder nk ord = .ok r) : NkOK r.1 n := by
  unfold applyOrder at h
  split at h
  · simp at h; subst h; exact hk
  · cases hr : reorderNicks nk ord [] with
    | error e' => rw [hr] at h; simp at h
    | ok r' =>
      rw [hr] at h; simp at h; subst h
      exact reorderNicks_ok nk n hk ord [] r' hr (by intro p hp; simp at hp)

theorem loadHeader_nk : ∀ (hs : List HLine) (cs : List (String × Bool)) (nk : List (String × Nat)) (sc : Comps)
    (ord : List String) (cs' : List (String × Bool)) (nk' : List (String × Nat)) (sys : Summary) (n? : Option Nat) (o : Bool),
    loadHeader hs cs nk sc ord = .ok (cs', nk', sys, n?, o) → NkOK nk cs.length → NkOK nk' cs'.length
  | [], _, _, _, _, _, _, _, _, _, h, _ => by simp [loadHeader] at h
  | .blank :: rest, cs, nk, sc, ord, cs', nk', sys, n?, o, h, hk => by
      simp only [loadHeader] at h; exact loadHeader_nk rest cs nk sc ord cs' nk' sys n? o h hk
  | .invalid :: _, _, _, _, _, _, _, _, _, _, h, _ => by simp [loadHeader] at h
  | .cand w nick name :: rest, cs, nk, sc, ord, cs', nk', sys, n?, o, h, hk => by
      simp only [loadHeader] at h
      refine loadHeader_nk rest _ _ sc ord cs' nk' sys n? o h ?_
      have hlen : (cs ++ [(name, w)]).length = cs.length + 1 := by simp
      rw [hlen]
      exact nickSet_ok nk nick cs.length (cs.length + 1) (fun p hp => Nat.lt_succ_of_lt (hk p hp)) (Nat.lt_succ_self _)
  | .candBad :: _, _, _, _, _, _, _, _, _, _, h, _ => by simp [loadHeader] at h
  | .ballotsN n :: _, cs, nk, sc, ord, cs', nk', sys, n?, o, h, hk => by
      simp only [loadHeader] at h
      cases ho : applyOrder nk ord with
      | error e' => rw [ho] at h; simp at h
      | ok r =>
        rw [ho] at h; simp only [ok_bind] at h
        cases hc : createSystem sc with
        | error e' => rw [hc] at h; simp at h
        | ok s0 =>
          rw [hc] at h; simp at h; obtain ⟨rfl, rfl, _, _, _⟩ := h
          exact applyOrder_ok nk _ hk ord r ho
  | .ballotsBlt :: _, cs, nk, sc, ord, cs', nk', sys, n?, o, h, hk => by
      simp only [loadHeader] at h
      cases ho : applyOrder nk ord with
      | error e' => rw [ho] at h; simp at h
      | ok r =>
        rw [ho] at h; simp only [ok_bind] at h
        cases hc : createSystem sc with
        | error e' => rw [hc] at h; simp at h
        | ok s0 =>
          rw [hc] at h; simp at h; obtain ⟨rfl, rfl, _, _, _⟩ := h
          exact applyOrder_ok nk _ hk ord r ho
  | .ballotsBad :: _, _, nk, sc, ord, _, _, _, _, _, h, _ => by
      simp only [loadHeader] at h
      cases ho : applyOrder nk ord with
      | error e' => rw [ho] at h; simp at h
      | ok r =>
        rw [ho] at h; simp only [ok_bind] at h
        cases hc : createSystem sc with
        | error e' => rw [hc] at h; simp at h
        | ok s0 => rw [hc] at h; simp at h
  | .order l :: rest, cs, nk, sc, _, cs', nk', sys, n?, o, h, hk => by
      simp only [loadHeader] at h; exact loadHeader_nk rest cs nk sc l cs' nk' sys n? o h hk
  | .other k v :: rest, cs, nk, sc, ord, cs', nk', sys, n?, o, h, hk => by
      simp only [loadHeader] at h
      cases hc : compsAdd sc k v with
      | error e' => rw [hc] at h; simp at h
      | ok c1 => rw [hc] at h; simp only [ok_bind] at h; exact loadHeader_nk rest cs nk c1 ord cs' nk' sys n? o h hk

theorem lookupNicks_valid (nk : List (String × Nat)) (n : Nat) (hk : NkOK nk n) : ∀ (l : List String) (idx : List Nat),
    lookupNicks nk l = .ok idx → ∀ i ∈ idx, i < n
  | [], idx, h => by simp [lookupNicks] at h; subst h; simp
  | s :: t, idx, h => by
      simp only [lookupNicks] at h
      split at h
      · rename_i j hj
        cases ht : lookupNicks nk t with
        | error e' => rw [ht] at h; simp at h
        | ok r =>
          rw [ht] at h; simp at h; subst h
          intro i hi
          rcases List.mem_cons.1 hi with rfl | hm
          · exact hk _ (lookup_mem nk s _ hj)
          · exact lookupNicks_valid nk n hk t r ht i hm
      · simp at h

def BallotsOK (bs : List (List Nat × Rat)) (n : Nat) : Prop := ∀ b ∈ bs, ∀ i ∈ b.1, i < n

theorem addVote_ok : ∀ (bs : List (List Nat × Rat)) (b : List Nat) (w : Rat) (n : Nat), BallotsOK bs n →
    (∀ i ∈ b, i < n) → BallotsOK (addVote bs b w) n
  | [], b, w, n, _, hb => by intro x hx; simp [addVote] at hx; subst hx; exact hb
  | (b', w') :: t, b, w, n, h, hb => by
      intro x hx
      simp only [addVote] at hx
      split at hx
      · rcases List.mem_cons.1 hx with rfl | hm
        · exact fun i hi => h (b', w') List.mem_cons_self i hi
        · exact h x (List.mem_cons_of_mem _ hm)
      · rcases List.mem_cons.1 hx with rfl | hm
        · exact h _ List.mem_cons_self
        · exact addVote_ok t b w n (fun q hq => h q (List.mem_cons_of_mem _ hq)) hb x hm

theorem loadVotes_valid (nk : List (String × Nat)) (m : Nat) (hk : NkOK nk m) (n : Nat) : ∀ (vs : List VLine) (i : Nat)
    (acc bs : List (List Nat × Rat)), loadVotes nk n vs i acc = .ok bs → BallotsOK acc m → BallotsOK bs m
  | [], _, _, _, h, _ => by simp [loadVotes] at h
  | .endLine :: _, i, acc, bs, h, ha => by
      simp only [loadVotes] at h
      split at h
      · simp at h
      · simp at h; subst h; exact ha
  | .blank :: rest, i, acc, bs, h, ha => by simp only [loadVotes] at h; exact loadVotes_valid nk m hk n rest _ _ bs h ha
  | .items first more :: rest, i, acc, bs, h, ha => by
      simp only [loadVotes] at h
      cases first with
      | mult r =>
        simp only at h
        cases hl : lookupNicks nk more with
        | error e' => rw [hl] at h; simp at h
        | ok b =>
          rw [hl] at h; simp only [ok_bind] at h
          exact loadVotes_valid nk m hk n rest _ _ bs h (addVote_ok acc b r m ha (lookupNicks_valid nk m hk _ _ hl))
      | multBad => simp at h
      | word s =>
        simp only at h
        cases hl : lookupNicks nk (s :: more) with
        | error e' => rw [hl] at h; simp at h
        | ok b =>
          rw [hl] at h; simp only [ok_bind] at h
          exact loadVotes_valid nk m hk n rest _ _ bs h (addVote_ok acc b 1 m ha (lookupNicks_valid nk m hk _ _ hl))

theorem ordItems_mem (cls : String → OItem) (cands : List Nat) : ∀ (l : List String) (i : Nat) (co : List (Nat × Nat)),
    ordItems cls cands i l = .ok co → ∀ p ∈ co, p.1 ∈ cands
  | [], _, co, h => by simp [ordItems] at h; subst h; simp
  | s :: t, i, co, h => by
      simp only [ordItems] at h
      split at h
      · rename_i r c _ hc
        cases hr : ordItems cls cands (i + 1) t with
        | error e' => rw [hr] at h; simp at h
        | ok rest =>
          rw [hr] at h; simp at h; subst h
          intro p hp
          rcases List.mem_cons.1 hp with rfl | hm
          · exact List.mem_of_getElem? hc
          · exact ordItems_mem cls cands t _ rest hr p hm
      · exact ordItems_mem cls cands t _ co h
      · simp at h

theorem mem_insertRank (x : Nat × Nat) : ∀ (l : List (Nat × Nat)) (p : Nat × Nat), p ∈ insertRank x l → p = x ∨ p ∈ l
  | [], p, h => by simp [insertRank] at h; exact Or.inl h
  | y :: ys, p, h => by
      simp only [insertRank] at h
      split at h
      · rcases List.mem_cons.1 h with rfl | hm
        · exact Or.inl rfl
        · exact Or.inr hm
      · rcases List.mem_cons.1 h with rfl | hm
        · exact Or.inr List.mem_cons_self
        · rcases mem_insertRank x ys p hm with rfl | h2
          · exact Or.inl rfl
          · exact Or.inr (List.mem_cons_of_mem _ h2)

theorem mem_sortRank : ∀ (l : List (Nat × Nat)) (p : Nat × Nat), p ∈ sortRank l → p ∈ l
  | [], p, h => by simp [sortRank] at h
  | x :: xs, p, h => by
      simp only [sortRank] at h
      rcases mem_insertRank x _ p h with rfl | h2
      · exact List.mem_cons_self
      · exact List.mem_cons_of_mem _ (mem_sortRank xs p h2)

theorem ordVote_valid (cls : String → OItem) (cands : List Nat) (items : List String) (b : List Nat)
    (h : ordVote cls cands items = .ok b) : ∀ i ∈ b, i ∈ cands := by
  unfold ordVote at h
  cases hr : ordItems cls cands 0 items with
  | error e' => rw [hr] at h; simp at h
  | ok co =>
    rw [hr] at h; simp only [ok_bind] at h
    split at h
    · simp at h; subst h
      intro i hi
      obtain ⟨p, hp, rfl⟩ := List.mem_map.1 hi
      exact ordItems_mem cls cands items 0 co hr p (mem_sortRank co p hp)
    · simp at h

theorem loadOrdered_valid (cls : String → OItem) (cands : List Nat) (m : Nat) (hc : ∀ c ∈ cands, c < m) (n : Nat) :
    ∀ (vs : List VLine) (i : Nat) (acc bs : List (List Nat × Rat)), loadOrdered cls cands n vs i acc = .ok bs →
    BallotsOK acc m → BallotsOK bs m
  | [], _, _, _, h, _ => by simp [loadOrdered] at h
  | .endLine :: _, i, acc, bs, h, ha => by
      simp only [loadOrdered] at h
      split at h
      · simp at h
      · simp at h; subst h; exact ha
  | .blank :: rest, i, acc, bs, h, ha => by
      simp only [loadOrdered] at h; exact loadOrdered_valid cls cands m hc n rest _ _ bs h ha
  | .items first more :: rest, i, acc, bs, h, ha => by
      simp only [loadOrdered] at h
      cases first with
      | mult r =>
        simp only at h
        cases hl : ordVote cls cands more with
        | error e' => rw [hl] at h; simp at h
        | ok b =>
          rw [hl] at h; simp only [ok_bind] at h
          exact loadOrdered_valid cls cands m hc n rest _ _ bs h
            (addVote_ok acc b r m ha (fun i hi => hc i (ordVote_valid cls cands _ b hl i hi)))
      | multBad => simp at h
      | word s =>
        simp only at h
        cases hl : ordVote cls cands (s :: more) with
        | error e' => rw [hl] at h; simp at h
        | ok b =>
          rw [hl] at h; simp only [ok_bind] at h
          exact loadOrdered_valid cls cands m hc n rest _ _ bs h
            (addVote_ok acc b 1 m ha (fun i hi => hc i (ordVote_valid cls cands _ b hl i hi)))

theorem loadStv_valid (cls : String → OItem) (hs : List HLine) (vs : List VLine) (bl : List Blt.Line)
    (r : Doc Rat × List (String × Bool) × Summary)
    (h : loadStv cls hs vs bl = .ok r) : ∀ b ∈ r.1.ballots, ∀ i ∈ b.1, i < r.2.1.length := by
  simp only [loadStv] at h
  cases hh : loadHeader hs [] [] {} [] with
  | error e' => rw [hh] at h; simp at h
  | ok r0 =>
    obtain ⟨cs, nk, sys, n?, o⟩ := r0
    rw [hh] at h
    simp only [ok_bind] at h
    have hk : NkOK nk cs.length := loadHeader_nk hs [] [] {} [] cs nk sys n? o hh (by intro p hp; simp at hp)
    cases n? with
    | some n =>
      simp only at h
      cases o with
      | false =>
        simp only [Bool.false_eq_true, if_false] at h
        cases hv : loadVotes nk n vs 0 [] with
        | error e' => rw [hv] at h; simp at h
        | ok bs =>
          rw [hv] at h; simp at h; subst h
          exact loadVotes_valid nk cs.length hk n vs 0 [] bs hv (by intro b hb; simp at hb)
      | true =>
        simp only [if_true] at h
        cases hv : loadOrdered cls (nk.map (·.2)) n vs 0 [] with
        | error e' => rw [hv] at h; simp at h
        | ok bs =>
          rw [hv] at h; simp at h; subst h
          refine loadOrdered_valid cls _ cs.length ?_ n vs 0 [] bs hv (by intro b hb; simp at hb)
          intro c hc
          obtain ⟨p, hp, rfl⟩ := List.mem_map.1 hc
          exact hk p hp
    | none =>
      simp only at h
      cases hb : Blt.loadBlt bl with
      | error e' => rw [hb] at h; simp at h
      | ok d =>
        rw [hb] at h; simp at h; subst h
        have hval := Blt.loadBlt_valid bl d hb
        intro b hbm i hi
        have hlt := hval b hbm i hi
        simp only [bltMode]
        cases hc : d.cands with
        | nil => rw [hc] at hlt; simp at hlt
        | cons c t => rw [hc] at hlt; simpa using hlt

end VL.StvFile
