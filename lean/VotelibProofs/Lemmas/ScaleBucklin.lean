/-
  C11: Bucklin (`PreferenceAddition()`, one seat — the C17 model) is scale invariant: the decoupling of shared ranks is
  linear, every round's totals and the majority quota scale by `k`.
-/
import VotelibProofs.Lemmas.ScaleConvert
import VotelibProofs.Lemmas.ScaleCondorcet
import VotelibModel.Mono
namespace VL.Scale
open VL VL.Convert VL.Mono

theorem sumValues_scale {κ : Type} (k : Rat) (d : Dict κ) : sumValues (scaleD k d) = k * sumValues d := by
  unfold sumValues scaleD
  have h := foldl_simMap (fun a : Rat => k * a) (fun acc (kv : κ × Rat) => acc + kv.2) (fun acc (kv : κ × Rat) => acc + kv.2)
    (fun kv => (kv.1, k * kv.2)) (fun s b => by simp only [mul_add]) d 0
  rw [mul_zero] at h
  exact h

theorem scaleD_isEmpty {κ : Type} (k : Rat) (d : Dict κ) : (scaleD k d).isEmpty = d.isEmpty := by cases d <;> rfl

theorem scaleD_filter_key {κ : Type} (k : Rat) (P : κ → Bool) (d : Dict κ) :
    (scaleD k d).filter (fun e => P e.1) = scaleD k (d.filter (fun e => P e.1)) := by
  unfold scaleD; rw [List.filter_map]; rfl

theorem decouple_scale (k : Rat) (p : RProfile) : decouple (scaleD k p) = scaleD k (decouple p) := by
  unfold decouple
  have h := foldl_sim (scaleD (κ := Ballot) k)
    (fun nv (bw : Ballot × Rat) =>
      if bw.1.any isShared then
        (linearize bw.1).foldl (fun nv v => addTo nv v (bw.2 / ((linearize bw.1).length : Rat))) (nv.filter (fun e => e.1 ≠ bw.1))
      else nv)
    (fun nv (bw : Ballot × Rat) =>
      if bw.1.any isShared then
        (linearize bw.1).foldl (fun nv v => addTo nv v (bw.2 / ((linearize bw.1).length : Rat))) (nv.filter (fun e => e.1 ≠ bw.1))
      else nv)
    (fun bw => (bw.1, k * bw.2))
    (by
      intro nv bw
      by_cases hs : bw.1.any isShared = true
      · simp only [hs, if_true, mul_div_assoc]
        have hf : (scaleD k nv).filter (fun e => decide (e.1 ≠ bw.1)) = scaleD k (nv.filter (fun e => decide (e.1 ≠ bw.1))) :=
          scaleD_filter_key k (fun b => decide (b ≠ bw.1)) nv
        rw [hf]
        exact foldl_addTo_scale k _ _ _
      · simp only [hs]; rfl)
    p p
  exact h

theorem bucklinRound_scale (k : Rat) (p : RProfile) (i : Nat) (tot : Votes) :
    bucklinRound (scaleD k p) i (scaleVotes k tot) = scaleVotes k (bucklinRound p i tot) := by
  unfold bucklinRound
  have h := foldl_sim (scaleD (κ := Cand) k)
    (fun t (bw : Ballot × Rat) => match bw.1[i]? with
      | some it => it.cands.foldl (fun t c => addTo t c bw.2) t
      | none => t)
    (fun t (bw : Ballot × Rat) => match bw.1[i]? with
      | some it => it.cands.foldl (fun t c => addTo t c bw.2) t
      | none => t)
    (fun bw => (bw.1, k * bw.2))
    (by
      intro t bw
      simp only
      cases bw.1[i]? with
      | none => rfl
      | some it => exact foldl_addTo_scale k bw.2 it.cands t)
    p tot
  exact h

theorem bucklinLoop_scale (k : Rat) (hk : 0 < k) (p : RProfile) (q : Rat) : ∀ (f i : Nat) (tot : Votes),
    bucklinLoop (scaleD k p) (k * q) f i (scaleVotes k tot) = bucklinLoop p q f i tot := by
  intro f
  induction f with
  | zero => intro i tot; rfl
  | succ f ih =>
    intro i tot
    simp only [bucklinLoop, bucklinRound_scale, sortDesc_scale k hk]
    have hf : (scaleVotes k (sortDesc (bucklinRound p i tot))).filter (fun e => decide (k * q < e.2))
        = scaleVotes k ((sortDesc (bucklinRound p i tot)).filter (fun e => decide (q < e.2))) :=
      filter_scale k _ _ _ (fun e _ => by simp only [mul_lt_mul_iff_right₀ hk])
    rw [hf, getNBest_scaleC k hk, ih]

theorem evalBucklin_scale (k : Rat) (hk : 0 < k) (p : RProfile) : evalBucklin (scaleD k p) = evalBucklin p := by
  unfold evalBucklin
  rw [scaleD_isEmpty, sumValues_scale, maxLen_scale, mul_div_assoc]
  have := bucklinLoop_scale k hk p (sumValues p / 2) (maxLen p) 0 []
  rw [show scaleVotes k [] = [] from rfl] at this
  rw [this]

/-- **Bucklin** (`PreferenceAddition()` with the default splitting of shared ranks; one seat) -/
theorem evalBucklinSplit_scale (k : Rat) (hk : 0 < k) (p : RProfile) :
    evalBucklinSplit (scaleD k p) = evalBucklinSplit p := by
  unfold evalBucklinSplit
  rw [decouple_scale, evalBucklin_scale k hk]

end VL.Scale
