/-
  C08 instances for the approval family — models VL.Appr of C12 (VotelibModel/Approval.lean):
  SequentialProportionalApproval (`spav`) and ProportionalApproval (`pav` = one call on a fresh instance; `pavStep` =
  a call with any valid coefficient cache).

  Candidates "appearing in the votes" of an approval profile: `allCands votes` (the union of the ballots;
  `Appr.mem_allCands`, `Appr.allCands_nodup`).
-/
import VotelibProofs.Lemmas.ShapeDefs
import VotelibProofs.Props.C12
namespace VL.C08
open VL VL.Appr

/-- a list of `n` distinct candidates of `cands`, reported individually, has the selection shape -/
theorem selShape_map_cand_pav {cands : List Cand} {n : Nat} {l : List Cand} (hlen : l.length = n)
    (hsub : ∀ c ∈ l, c ∈ cands) (hnd : l.Nodup) : SelShape cands n (l.map Slot.cand) := by
  have hno : ∀ T, Slot.tie T ∉ l.map Slot.cand := by
    intro T h
    obtain ⟨c, _, hc⟩ := List.mem_map.mp h
    cases hc
  refine ⟨by rw [List.length_map]; exact hlen, ?_, ?_, ?_, ?_, ?_⟩
  · intro c hc
    obtain ⟨d, hd, he⟩ := List.mem_map.mp hc
    injection he with he
    exact hsub c (he ▸ hd)
  · intro T hT; exact absurd hT (hno T)
  · rw [electedOf_map_cand]; exact hnd
  · intro T hT; exact absurd hT (hno T)
  · intro T hT; exact absurd hT (hno T)

/-! ### Sequential PAV -/

theorem spavGo_length (votes : Profile) : ∀ (k : Nat) (elected el : List Cand),
    spavGo votes k elected = .ok el → el.length ≤ elected.length + k := by
  intro k
  induction k with
  | zero =>
    intro elected el h
    simp only [spavGo] at h
    injection h with h
    subst h
    omega
  | succ k ih =>
    intro elected el h
    unfold spavGo at h
    simp only at h
    split at h
    · injection h with h; subst h; omega
    · cases h
    · have := ih _ _ h
      rw [List.length_append, List.length_singleton] at this
      omega

/-- **SPAV has the selection shape**: whenever `evaluate(votes, n)` returns, with `n ≤ #candidates approved by
    somebody`, it returns exactly `n` distinct such candidates (SPAV never reports ties: a tied round is refused). -/
theorem spav_shape (votes : Profile) (hwf : WF votes) (n : Nat) (hlen : n ≤ (allCands votes).length)
    (el : List Cand) (h : spav votes n = .ok el) : SelShape (allCands votes) n (el.map Slot.cand) := by
  obtain ⟨hbest, hfull⟩ := C12.spav_round_argmax votes hwf n el h
  have hsub : ∀ c ∈ el, c ∈ allCands votes := by
    intro c hc
    obtain ⟨i, hi, rfl⟩ := List.getElem_of_mem hc
    exact (hbest i hi).1
  have hnd : el.Nodup := by
    rw [List.nodup_iff_injective_getElem]
    intro ⟨i, hi⟩ ⟨j, hj⟩ hij
    simp only at hij
    by_contra hne
    have hne' : i ≠ j := fun e => hne (by subst e; rfl)
    rcases Nat.lt_or_gt_of_ne hne' with hlt | hgt
    · apply (hbest j hj).2.1
      rw [← hij]
      exact List.mem_take_iff_getElem.mpr ⟨i, by omega, rfl⟩
    · apply (hbest i hi).2.1
      rw [hij]
      exact List.mem_take_iff_getElem.mpr ⟨j, by omega, rfl⟩
  have hle : el.length ≤ n := by
    have := spavGo_length votes n [] el h
    simpa using this
  refine selShape_map_cand_pav ?_ hsub hnd
  rcases hfull with hfull | hfull
  · exact hfull
  · -- nobody is left standing: every candidate is elected
    have hall : ∀ c ∈ allCands votes, c ∈ el := by
      intro c hc
      by_contra hce
      have : c ∈ standing votes el := mem_standing.mpr ⟨hc, hce⟩
      rw [hfull] at this; cases this
    have := ((allCands_nodup votes).subperm hall).length_le
    omega

/-- **SPAV refusals**: the only exception is the declared `NotImplementedError` of a tied round. -/
theorem spav_refusals (votes : Profile) (hwf : WF votes) (n : Nat) (e : Err) (h : spav votes n = .error e) :
    e = .votingSystemError ∨ e = .notImplemented :=
  Or.inr (C12.spav_error_is_tie votes hwf n e h)

/-- non-vacuity -/
example : WF [([0, 1], 5), ([0, 2], 4), ([3], 3)] ∧ 3 ≤ (allCands [([0, 1], 5), ([0, 2], 4), ([3], 3)]).length ∧
    spav [([0, 1], 5), ([0, 2], 4), ([3], 3)] 3 = .ok [0, 3, 1] := by
  refine ⟨by decide +kernel, by decide +kernel, by decide +kernel⟩
example : WF [([0], 2), ([1], 2)] ∧ spav [([0], 2), ([1], 2)] 1 = .error .notImplemented := by
  refine ⟨by decide +kernel, by decide +kernel⟩

/-! ### PAV -/

/-- **PAV has the selection shape** (any valid coefficient cache, in particular a fresh instance): whenever
    `evaluate(votes, n)` returns, it returns exactly `n` distinct candidates approved by somebody, no ties. -/
theorem pavStep_shape (coefs : List Rat) (hc : CoefsOK coefs) (votes : Profile) (hwf : WF votes) (n : Nat)
    (r : List Slot) (h : (pavStep coefs votes n).1 = .ok r) : SelShape (allCands votes) n r := by
  obtain ⟨h1, h2, h3, h4⟩ := C12.pav_result_shape coefs hc votes hwf n r h
  rw [h1]
  exact selShape_map_cand_pav h2 h4 h3

theorem pav_shape (votes : Profile) (hwf : WF votes) (n : Nat) (r : List Slot) (h : pav votes n = .ok r) :
    SelShape (allCands votes) n r :=
  pavStep_shape freshCoefs freshCoefs_ok votes hwf n r h

/-- **PAV refusals**: the only exception is the declared `NotImplementedError` (no or several maximising committees;
    in particular more seats than candidates). -/
theorem pavStep_refusals (coefs : List Rat) (hc : CoefsOK coefs) (votes : Profile) (hwf : WF votes) (n : Nat)
    (e : Err) (h : (pavStep coefs votes n).1 = .error e) : e = .votingSystemError ∨ e = .notImplemented := by
  rw [C12.pav_eq_spec coefs hc votes hwf n] at h
  cases hs : pavSpec votes n with
  | some a => rw [hs] at h; cases h
  | none =>
    rw [hs] at h
    injection h with h
    exact Or.inr h.symm

theorem pav_refusals (votes : Profile) (hwf : WF votes) (n : Nat) (e : Err) (h : pav votes n = .error e) :
    e = .votingSystemError ∨ e = .notImplemented :=
  pavStep_refusals freshCoefs freshCoefs_ok votes hwf n e h

/-- non-vacuity -/
example : WF [([0, 1], 3), ([2], 2), ([0], 1)] ∧ pav [([0, 1], 3), ([2], 2), ([0], 1)] 2 = .ok [Slot.cand 0, Slot.cand 2] := by
  refine ⟨by decide +kernel, by decide +kernel⟩
example : WF [([0, 1], 3), ([2], 2)] ∧ pav [([0, 1], 3), ([2], 2)] 1 = .error .notImplemented := by
  refine ⟨by decide +kernel, by decide +kernel⟩

end VL.C08
