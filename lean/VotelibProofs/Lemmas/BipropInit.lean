/-
  C07: the initial state of tie-and-transfer is consistent — highest-averages invariant, initial party multipliers.
-/
import VotelibProofs.Lemmas.Biprop
namespace VL.Biprop

/-- a divisor function that is the signpost sequence `k ↦ k + 1 − q` up to a positive factor
    (D'Hondt: κ = 1, q = 0; Sainte-Laguë: κ = 2, q = 1/2) -/
structure SignpostDiv (div : Nat → Rat) (q : Rat) : Prop where
  q_nonneg : 0 ≤ q
  q_lt_one : q < 1
  factor : ∃ κ : Rat, 0 < κ ∧ ∀ s : Nat, div s = κ * ((s : Rat) + 1 - q)

theorem SignpostDiv.pos {div : Nat → Rat} {q : Rat} (h : SignpostDiv div q) (s : Nat) : 0 < div s := by
  obtain ⟨κ, hκ, hd⟩ := h.factor
  rw [hd]
  have : (0 : Rat) ≤ (s : Rat) := Nat.cast_nonneg _
  exact mul_pos hκ (by linarith [h.q_lt_one])

theorem SignpostDiv.mono {div : Nat → Rat} {q : Rat} (h : SignpostDiv div q) {a b : Nat} (hab : a ≤ b) :
    div a ≤ div b := by
  obtain ⟨κ, hκ, hd⟩ := h.factor
  rw [hd, hd]
  have : (a : Rat) ≤ (b : Rat) := by exact_mod_cast hab
  exact mul_le_mul_of_nonneg_left (by linarith) (le_of_lt hκ)

/-- invariant of the highest-averages loop: every quotient already served is at least every quotient still
    waiting -/
def HAInv (div : Nat → Rat) (v : Nat → Rat) (s : Nat → Nat) (L : Nat) : Prop :=
  ∀ i < L, ∀ k < L, 1 ≤ s i → v k / div (s k) ≤ v i / div (s i - 1)

theorem HAInv_add {div : Nat → Rat} {q : Rat} (hdiv : SignpostDiv div q) {v : Nat → Rat} {s : Nat → Nat} {L : Nat}
    (hv : ∀ k, 0 ≤ v k) (hinv : HAInv div v s L) (B : Nat → Bool)
    (hB : ∀ k, B k = true → ∀ k' < L, v k' / div (s k') ≤ v k / div (s k)) :
    HAInv div v (fun k => s k + if B k then 1 else 0) L := by
  intro i hi k hk hsi
  have hstep : v k / div (s k + if B k then 1 else 0) ≤ v k / div (s k) := by
    apply div_le_div_of_nonneg_left (hv k) (hdiv.pos _)
    exact hdiv.mono (Nat.le_add_right _ _)
  refine le_trans hstep ?_
  by_cases hBi : B i = true
  · simp only [hBi, if_true, Nat.add_sub_cancel]
    exact hB i hBi k hk
  · simp only [hBi] at hsi ⊢
    simp only [Bool.false_eq_true, if_false, Nat.add_zero] at hsi ⊢
    exact hinv i hi k hk hsi

theorem maxRat_ge : ∀ (l : List Rat) (mx : Rat), maxRat l = some mx → ∀ a ∈ l, a ≤ mx
  | [], _, h, _, _ => by simp [maxRat] at h
  | x :: xs, mx, h, a, ha => by
    simp only [maxRat] at h
    cases hm : maxRat xs with
    | none =>
      rw [hm] at h
      simp only [Option.some.injEq] at h
      have : xs = [] := by
        cases xs with
        | nil => rfl
        | cons y ys => simp only [maxRat] at hm; split at hm <;> simp at hm
      subst this
      simp only [List.mem_singleton] at ha
      rw [ha, h]
    | some y =>
      rw [hm] at h
      simp only [Option.some.injEq] at h
      rcases List.mem_cons.mp ha with rfl | ha
      · rw [← h]; split <;> linarith
      · have := maxRat_ge xs y hm a ha
        rw [← h]; split <;> linarith

theorem getD_zipWith {α β γ : Type} (f : α → β → γ) (l1 : List α) (l2 : List β) (k : Nat) (d1 : α) (d2 : β) (d3 : γ)
    (h1 : k < l1.length) (h2 : k < l2.length) :
    (List.zipWith f l1 l2).getD k d3 = f (l1.getD k d1) (l2.getD k d2) := by
  simp [List.getD_eq_getElem?_getD, List.getElem?_zipWith, List.getElem?_eq_getElem h1, List.getElem?_eq_getElem h2]

/-- the highest-averages loop keeps the invariant; a reported `Tie` consists of candidates whose quotient is
    maximal among the waiting ones -/
theorem haLoop_inv {div : Nat → Rat} {q : Rat} (hdiv : SignpostDiv div q) {votes : List Rat}
    (hv : ∀ k, 0 ≤ votes.getD k 0) :
    ∀ (fuel rem : Nat) (seats : List Nat), seats.length = votes.length →
      HAInv div (fun k => votes.getD k 0) (fun k => seats.getD k 0) votes.length →
      let r := haLoop div votes fuel rem seats
      r.seats.length = votes.length ∧
      HAInv div (fun k => votes.getD k 0) (fun k => r.seats.getD k 0) votes.length ∧
      ∀ b c, r.tie = some (b, c) → ∀ k ∈ b, k < votes.length ∧ ∀ k' < votes.length,
        votes.getD k' 0 / div (r.seats.getD k' 0) ≤ votes.getD k 0 / div (r.seats.getD k 0)
  | 0, _, seats, hlen, hinv => by
    simp only [haLoop]; exact ⟨hlen, hinv, fun b c h => by simp at h⟩
  | fuel+1, rem, seats, hlen, hinv => by
    simp only [haLoop]
    split
    · exact ⟨hlen, hinv, fun b c h => by simp at h⟩
    · cases hmx : maxRat (List.zipWith (fun v s => v / div s) votes seats) with
      | none => simp only; exact ⟨hlen, hinv, fun b c h => by simp at h⟩
      | some mx =>
        simp only
        have hql : (List.zipWith (fun v s => v / div s) votes seats).length = votes.length := by
          simp [List.length_zipWith, hlen]
        have hq : ∀ k < votes.length, (List.zipWith (fun v s => v / div s) votes seats).getD k 0
            = votes.getD k 0 / div (seats.getD k 0) := by
          intro k hk
          exact getD_zipWith _ _ _ _ 0 0 0 hk (by omega)
        have hle : ∀ k < votes.length, votes.getD k 0 / div (seats.getD k 0) ≤ mx := by
          intro k hk
          rw [← hq k hk]
          apply maxRat_ge _ _ hmx
          rw [List.getD_eq_getElem?_getD, List.getElem?_eq_getElem (by omega)]
          exact List.getElem_mem _
        split
        · -- tie: seats unchanged, batch = argmax
          refine ⟨hlen, hinv, ?_⟩
          intro b c h
          simp only [Option.some.injEq, Prod.mk.injEq] at h
          obtain ⟨rfl, _⟩ := h
          intro k hk
          rw [List.mem_filter, List.mem_range] at hk
          have hkl : k < votes.length := by omega
          refine ⟨hkl, fun k' hk' => ?_⟩
          have : votes.getD k 0 / div (seats.getD k 0) = mx := by
            rw [← hq k hkl]; simpa using hk.2
          rw [this]; exact hle k' hk'
        · -- every member of the batch gets a seat
          apply haLoop_inv hdiv hv fuel
          · simp [List.length_zipWith, hlen]
          · have hnew : ∀ k < votes.length,
                (List.zipWith (fun s qv => if qv == mx then s + 1 else s) seats
                  (List.zipWith (fun v s => v / div s) votes seats)).getD k 0
                = seats.getD k 0 + if (votes.getD k 0 / div (seats.getD k 0) == mx) then 1 else 0 := by
              intro k hk
              rw [getD_zipWith _ _ _ _ 0 0 0 (by omega) (by omega), hq k hk]
              split <;> simp
            have := HAInv_add hdiv (v := fun k => votes.getD k 0) (s := fun k => seats.getD k 0) hv hinv
              (fun k => votes.getD k 0 / div (seats.getD k 0) == mx)
              (fun k hk k' hk' => by
                have : votes.getD k 0 / div (seats.getD k 0) = mx := by simpa using hk
                rw [this]; exact hle k' hk')
            intro i hi k hk hsi
            simp only at hsi ⊢
            rw [hnew i hi] at hsi ⊢
            rw [hnew k hk]
            exact this i hi k hk hsi


theorem getD_map_const_zero {α : Type} (l : List α) (k : Nat) : (l.map (fun _ => (0 : Nat))).getD k 0 = 0 := by
  rw [List.getD_eq_getElem?_getD, List.getElem?_map]
  cases l[k]? <;> simp

/-- the result of `haEvaluate`, with a `Tie` spread over its first members, satisfies the invariant -/
theorem haEvaluate_spread_inv {div : Nat → Rat} {q : Rat} (hdiv : SignpostDiv div q) {votes : List Rat}
    (hv : ∀ k, 0 ≤ votes.getD k 0) {n : Nat} {r : HARes} (h : haEvaluate div votes n = .ok r) :
    let c := match r.tie with
      | none => r.seats
      | some (b, cnt) => tieSpread r.seats b cnt
    c.length = votes.length ∧ HAInv div (fun k => votes.getD k 0) (fun k => c.getD k 0) votes.length := by
  unfold haEvaluate at h
  split at h
  · simp at h
  · simp only [Except.ok.injEq] at h
    have h0 : HAInv div (fun k => votes.getD k 0) (fun k => (votes.map fun _ => (0 : Nat)).getD k 0) votes.length := by
      intro i _ k _ hs
      simp only [getD_map_const_zero] at hs
      omega
    obtain ⟨hlen, hinv, htie⟩ := haLoop_inv hdiv hv n n (votes.map fun _ => 0) (by simp) h0
    rw [h] at hlen hinv htie
    cases ht : r.tie with
    | none => exact ⟨hlen, hinv⟩
    | some bc =>
      obtain ⟨b, cnt⟩ := bc
      simp only
      unfold tieSpread
      refine ⟨by simp [hlen], ?_⟩
      have hadd := HAInv_add hdiv (v := fun k => votes.getD k 0) (s := fun k => r.seats.getD k 0) hv hinv
        (fun k => (b.take cnt).contains k)
        (fun k hk k' hk' => by
          have hmem : k ∈ b := List.mem_of_mem_take (by simpa using hk)
          exact (htie b cnt ht k hmem).2 k' hk')
      intro i hi k hk hsi
      simp only at hsi ⊢
      rw [getD_map_range _ _ _ _ (by omega)] at hsi ⊢
      rw [getD_map_range _ _ _ _ (by omega)]
      exact hadd i hi k hk hsi

theorem getD_colOf (V : Mat Rat) (j i : Nat) : (colOf V j).getD i 0 = vget V i j := by
  unfold colOf vget
  simp only [List.getD_eq_getElem?_getD, List.getElem?_map]
  cases V[i]? <;> simp

theorem length_colOf (V : Mat Rat) (j : Nat) : (colOf V j).length = V.length := by simp [colOf]

/-- one column of the initial solution satisfies the highest-averages invariant -/
theorem initialColumn_inv {div : Nat → Rat} {q : Rat} (hdiv : SignpostDiv div q) {V : Mat Rat}
    (hV : ∀ i j, 0 ≤ vget V i j) {j k : Nat} {c : List Nat} (h : initialColumn div V j k = .ok c) :
    c.length = V.length ∧ HAInv div (fun i => vget V i j) (fun i => c.getD i 0) V.length := by
  unfold initialColumn at h
  split at h
  · simp only [Except.ok.injEq] at h
    subst h
    refine ⟨by simp, ?_⟩
    intro i _ k' _ hs
    simp only [getD_map_const_zero] at hs; omega
  · cases hr : haEvaluate div (colOf V j) k with
    | error e => rw [hr] at h; simp at h
    | ok r =>
      rw [hr] at h
      simp only [Except.ok.injEq] at h
      have := haEvaluate_spread_inv hdiv (votes := colOf V j) (fun k => by rw [getD_colOf]; exact hV k j) hr
      simp only [length_colOf, getD_colOf] at this
      rw [← h]
      cases ht : r.tie with
      | none => rw [ht] at this; exact this
      | some bc => obtain ⟨b, cnt⟩ := bc; rw [ht] at this; exact this

/-- with at least one positive vote among the candidates, a candidate without votes holds no seat -/
theorem HAInv_zero_seats {div : Nat → Rat} {q : Rat} (hdiv : SignpostDiv div q) {v : Nat → Rat} {s : Nat → Nat}
    {L : Nat} (hinv : HAInv div v s L) (hpos : ∃ k < L, 0 < v k) {i : Nat} (hi : i < L) (hvi : v i = 0) :
    s i = 0 := by
  by_contra hne
  obtain ⟨k, hk, hvk⟩ := hpos
  have := hinv i hi k hk (Nat.one_le_iff_ne_zero.mpr hne)
  rw [hvi, zero_div] at this
  have : 0 < v k / div (s k) := div_pos hvk (hdiv.pos _)
  linarith

/-- the invariant in signpost form: lower bounds of all cells are below upper bounds of all cells -/
theorem HAInv_signposts {div : Nat → Rat} {q : Rat} (hdiv : SignpostDiv div q) {v : Nat → Rat} {s : Nat → Nat}
    {L : Nat} (hinv : HAInv div v s L) {i k : Nat} (hi : i < L) (hk : k < L) (hvi : 0 < v i) (hvk : 0 < v k) :
    ((s i : Rat) - q) / v i ≤ ((s k : Rat) + 1 - q) / v k := by
  have hq0 := hdiv.q_nonneg
  have hq1 := hdiv.q_lt_one
  have hsk : (0 : Rat) ≤ (s k : Rat) := Nat.cast_nonneg _
  by_cases hs : s i = 0
  · rw [hs]
    have h1 : ((0 : Nat) : Rat) - q ≤ 0 := by simp; exact hq0
    have : ((0 : Nat) : Rat) - q ≤ 0 := h1
    calc (((0 : Nat) : Rat) - q) / v i ≤ 0 := div_nonpos_of_nonpos_of_nonneg h1 (le_of_lt hvi)
      _ ≤ ((s k : Rat) + 1 - q) / v k := div_nonneg (by linarith) (le_of_lt hvk)
  · have h1 : 1 ≤ s i := Nat.one_le_iff_ne_zero.mpr hs
    have := hinv i hi k hk h1
    obtain ⟨κ, hκ, hd⟩ := hdiv.factor
    rw [hd, hd] at this
    have hcast : ((s i - 1 : Nat) : Rat) = (s i : Rat) - 1 := by rw [Nat.cast_sub h1]; simp
    rw [hcast] at this
    have hsi : (1 : Rat) ≤ (s i : Rat) := by exact_mod_cast h1
    have hA : 0 < κ * ((s k : Rat) + 1 - q) := mul_pos hκ (by linarith)
    have hB : 0 < κ * ((s i : Rat) - 1 + 1 - q) := mul_pos hκ (by linarith)
    rw [div_le_div_iff₀ hA hB] at this
    rw [div_le_div_iff₀ hvi hvk]
    have e : (s i : Rat) - 1 + 1 - q = (s i : Rat) - q := by ring
    rw [e] at this
    nlinarith


/-- the fold of `_initial_party_coefs` over one column, for an arbitrary start -/
def cbStep (q : Rat) (acc : Rat × Option Rat) (vx : Rat × Nat) : Rat × Option Rat :=
  if vx.1 = 0 then acc else
    let lo := ((vx.2 : Rat) - q) / vx.1
    let hi := ((vx.2 : Rat) + 1 - q) / vx.1
    (if lo > acc.1 then lo else acc.1,
     match acc.2 with
     | none => some hi
     | some h => some (if hi < h then hi else h))

theorem coefBounds_eq (q : Rat) (vcol : List Rat) (xcol : List Nat) :
    coefBounds q vcol xcol = (List.zip vcol xcol).foldl (cbStep q) (0, none) := rfl

theorem cb_lo (q : Rat) : ∀ (l : List (Rat × Nat)) (acc : Rat × Option Rat),
    acc.1 ≤ (l.foldl (cbStep q) acc).1 ∧
    (∀ vx ∈ l, vx.1 ≠ 0 → ((vx.2 : Rat) - q) / vx.1 ≤ (l.foldl (cbStep q) acc).1) ∧
    (∀ B, acc.1 ≤ B → (∀ vx ∈ l, vx.1 ≠ 0 → ((vx.2 : Rat) - q) / vx.1 ≤ B) → (l.foldl (cbStep q) acc).1 ≤ B)
  | [], acc => ⟨le_refl _, fun _ h => by simp at h, fun B h _ => h⟩
  | vx :: l, acc => by
    rw [List.foldl_cons]
    obtain ⟨h1, h2, h3⟩ := cb_lo q l (cbStep q acc vx)
    have hacc : acc.1 ≤ (cbStep q acc vx).1 := by
      unfold cbStep; split
      · exact le_refl _
      · simp only; split <;> linarith
    refine ⟨le_trans hacc h1, ?_, ?_⟩
    · intro vx' hmem hne
      rcases List.mem_cons.mp hmem with rfl | hmem
      · refine le_trans ?_ h1
        unfold cbStep; rw [if_neg hne]; simp only; split <;> linarith
      · exact h2 vx' hmem hne
    · intro B hB hall
      apply h3 B
      · unfold cbStep; split
        · exact hB
        · rename_i hne; simp only; split
          · exact hall vx List.mem_cons_self hne
          · exact hB
      · intro vx' hmem hne; exact hall vx' (List.mem_cons_of_mem _ hmem) hne

theorem cb_hi (q : Rat) : ∀ (l : List (Rat × Nat)) (acc : Rat × Option Rat),
    ((l.foldl (cbStep q) acc).2 = none → acc.2 = none ∧ ∀ vx ∈ l, vx.1 = 0) ∧
    (∀ h, (l.foldl (cbStep q) acc).2 = some h →
      (∀ h0, acc.2 = some h0 → h ≤ h0) ∧
      (∀ vx ∈ l, vx.1 ≠ 0 → h ≤ ((vx.2 : Rat) + 1 - q) / vx.1) ∧
      (acc.2 = some h ∨ ∃ vx ∈ l, vx.1 ≠ 0 ∧ h = ((vx.2 : Rat) + 1 - q) / vx.1))
  | [], acc => ⟨fun h => ⟨h, fun _ hm => by simp at hm⟩,
      fun h hh => ⟨fun h0 h0e => by simp only [List.foldl_nil] at hh; rw [hh] at h0e; simp at h0e; linarith,
        fun _ hm => by simp at hm, Or.inl hh⟩⟩
  | vx :: l, acc => by
    rw [List.foldl_cons]
    obtain ⟨h1, h2⟩ := cb_hi q l (cbStep q acc vx)
    by_cases hne : vx.1 = 0
    · have hstep : cbStep q acc vx = acc := by unfold cbStep; rw [if_pos hne]
      rw [hstep] at h1 h2 ⊢
      refine ⟨fun hn => ⟨(h1 hn).1, fun vx' hm => ?_⟩, fun h hh => ?_⟩
      · rcases List.mem_cons.mp hm with rfl | hm
        · exact hne
        · exact (h1 hn).2 vx' hm
      · obtain ⟨a, b, c⟩ := h2 h hh
        refine ⟨a, fun vx' hm hne' => ?_, ?_⟩
        · rcases List.mem_cons.mp hm with rfl | hm
          · exact absurd hne hne'
          · exact b vx' hm hne'
        · rcases c with c | ⟨vx', hm, c⟩
          · exact Or.inl c
          · exact Or.inr ⟨vx', List.mem_cons_of_mem _ hm, c⟩
    · have hstep2 : ∃ h', (cbStep q acc vx).2 = some h' ∧ h' ≤ ((vx.2 : Rat) + 1 - q) / vx.1 ∧
          (∀ h0, acc.2 = some h0 → h' ≤ h0) ∧
          (acc.2 = some h' ∨ h' = ((vx.2 : Rat) + 1 - q) / vx.1) := by
        unfold cbStep; rw [if_neg hne]; simp only
        cases hacc : acc.2 with
        | none => exact ⟨_, rfl, le_refl _, fun h0 h0e => by simp at h0e, Or.inr rfl⟩
        | some h0 =>
          simp only
          refine ⟨_, rfl, ?_, ?_, ?_⟩
          · split <;> linarith
          · intro h0' h0e; simp only [Option.some.injEq] at h0e; subst h0e; split <;> linarith
          · split
            · exact Or.inr rfl
            · exact Or.inl rfl
      obtain ⟨h', hs', hle', hacc', hor'⟩ := hstep2
      refine ⟨fun hn => ?_, fun h hh => ?_⟩
      · have := (h1 hn).1; rw [hs'] at this; simp at this
      · obtain ⟨a, b, c⟩ := h2 h hh
        have hh' : h ≤ h' := a h' hs'
        refine ⟨fun h0 h0e => le_trans hh' (hacc' h0 h0e), fun vx' hm hne' => ?_, ?_⟩
        · rcases List.mem_cons.mp hm with rfl | hm
          · exact le_trans hh' hle'
          · exact b vx' hm hne'
        · rcases c with c | ⟨vx', hm, c⟩
          · rw [hs'] at c
            simp only [Option.some.injEq] at c
            subst c
            rcases hor' with h | h
            · exact Or.inl h
            · exact Or.inr ⟨vx, List.mem_cons_self, hne, h⟩
          · exact Or.inr ⟨vx', List.mem_cons_of_mem _ hm, c⟩

/-- **The initial multiplier of a party is consistent with its column** whenever the column is a
    highest-averages allocation (lower signposts below upper signposts, no seat without votes). -/
theorem partyCoef_ok {q : Rat} (hq1 : q < 1) (vcol : List Rat) (xcol : List Nat)
    (hnn : ∀ vx ∈ List.zip vcol xcol, 0 ≤ vx.1)
    (hz : ∀ vx ∈ List.zip vcol xcol, vx.1 = 0 → vx.2 = 0)
    (hcons : ∀ vx ∈ List.zip vcol xcol, ∀ vx' ∈ List.zip vcol xcol, 0 < vx.1 → 0 < vx'.1 →
      ((vx.2 : Rat) - q) / vx.1 ≤ ((vx'.2 : Rat) + 1 - q) / vx'.1) :
    0 < initialPartyCoef q vcol xcol ∧
    ∀ vx ∈ List.zip vcol xcol, isRounding q (vx.1 * 1 * initialPartyCoef q vcol xcol) vx.2 := by
  unfold initialPartyCoef
  rw [coefBounds_eq]
  obtain ⟨l0, l1, l2⟩ := cb_lo q (List.zip vcol xcol) (0, none)
  obtain ⟨hn, hs⟩ := cb_hi q (List.zip vcol xcol) (0, none)
  generalize (List.zip vcol xcol).foldl (cbStep q) (0, none) = r at *
  obtain ⟨lo, hio⟩ := r
  cases hio with
  | none =>
    simp only
    refine ⟨by norm_num, fun vx hm => ?_⟩
    have hv0 := (hn rfl).2 vx hm
    rw [hv0, hz vx hm hv0]
    refine ⟨Or.inl rfl, ?_⟩
    simp; linarith
  | some hi =>
    simp only
    obtain ⟨_, hb, hc⟩ := hs hi rfl
    have hpos : ∀ vx ∈ List.zip vcol xcol, vx.1 ≠ 0 → 0 < vx.1 :=
      fun vx hm hne => lt_of_le_of_ne (hnn vx hm) (Ne.symm hne)
    have hipos : 0 < hi := by
      rcases hc with hc | ⟨vx, hm, hne, rfl⟩
      · simp at hc
      · have : (0 : Rat) ≤ (vx.2 : Rat) := Nat.cast_nonneg _
        exact div_pos (by linarith) (hpos vx hm hne)
    have hlohi : lo ≤ hi := by
      apply l2 hi (le_of_lt hipos)
      intro vx hm hne
      rcases hc with hc | ⟨vx', hm', hne', rfl⟩
      · simp at hc
      · exact hcons vx hm vx' hm' (hpos vx hm hne) (hpos vx' hm' hne')
    have hlo0 : (0 : Rat) ≤ lo := l0
    refine ⟨by linarith, fun vx hm => ?_⟩
    by_cases hne : vx.1 = 0
    · rw [hne, hz vx hm hne]
      refine ⟨Or.inl rfl, ?_⟩
      simp; linarith
    · have hv := hpos vx hm hne
      have h1 := l1 vx hm hne
      have h2 := hb vx hm hne
      rw [div_le_iff₀ hv] at h1
      rw [le_div_iff₀ hv] at h2
      refine ⟨Or.inr ?_, ?_⟩ <;> nlinarith


theorem mapM_except_ok {α β ε : Type} (f : α → Except ε β) :
    ∀ (l : List α) (out : List β), l.mapM f = .ok out →
      out.length = l.length ∧ ∀ k (h1 : k < l.length) (h2 : k < out.length), f (l[k]) = .ok (out[k])
  | [], out, h => by
    simp only [List.mapM_nil] at h
    cases h; exact ⟨rfl, fun k h1 _ => by simp at h1⟩
  | a :: l, out, h => by
    rw [List.mapM_cons] at h
    cases hfa : f a with
    | error e => rw [hfa] at h; cases h
    | ok b =>
      rw [hfa] at h
      cases hl : l.mapM f with
      | error e => rw [hl] at h; cases h
      | ok bs =>
        rw [hl] at h
        cases h
        obtain ⟨ih1, ih2⟩ := mapM_except_ok f l bs hl
        refine ⟨by simp [ih1], ?_⟩
        intro k h1 h2
        cases k with
        | zero => simpa using hfa
        | succ k => simpa using ih2 k (by simpa using h1) (by simpa using h2)

theorem sumRat_acc : ∀ (l : List Rat) (a : Rat), l.foldl (· + ·) a = a + sumRat l
  | [], a => by simp [sumRat]
  | x :: l, a => by
    unfold sumRat
    rw [List.foldl_cons, List.foldl_cons, sumRat_acc l (a + x), sumRat_acc l (0 + x)]
    ring

theorem sumRat_cons (x : Rat) (l : List Rat) : sumRat (x :: l) = x + sumRat l := by
  unfold sumRat; rw [List.foldl_cons, sumRat_acc]; unfold sumRat; ring

theorem sumRat_nonneg : ∀ (l : List Rat), (∀ a ∈ l, 0 ≤ a) → 0 ≤ sumRat l
  | [], _ => by simp [sumRat]
  | x :: l, h => by
    rw [sumRat_cons]
    have := sumRat_nonneg l (fun a ha => h a (List.mem_cons_of_mem _ ha))
    have := h x List.mem_cons_self
    linarith

theorem sumRat_zero : ∀ (l : List Rat), (∀ a ∈ l, a = 0) → sumRat l = 0
  | [], _ => by simp [sumRat]
  | x :: l, h => by
    rw [sumRat_cons, sumRat_zero l (fun a ha => h a (List.mem_cons_of_mem _ ha)), h x List.mem_cons_self]; simp

theorem sumRat_pos : ∀ (l : List Rat), (∀ a ∈ l, 0 ≤ a) → (∃ a ∈ l, 0 < a) → 0 < sumRat l
  | [], _, h => by obtain ⟨a, ha, _⟩ := h; simp at ha
  | x :: l, hnn, ⟨a, ha, hpos⟩ => by
    rw [sumRat_cons]
    have hl := sumRat_nonneg l (fun a ha => hnn a (List.mem_cons_of_mem _ ha))
    have hx := hnn x List.mem_cons_self
    rcases List.mem_cons.mp ha with rfl | ha
    · linarith
    · have := sumRat_pos l (fun a ha => hnn a (List.mem_cons_of_mem _ ha)) ⟨a, ha, hpos⟩
      linarith

theorem mem_colOf {V : Mat Rat} {j : Nat} {a : Rat} (h : a ∈ colOf V j) : ∃ i < V.length, a = vget V i j := by
  obtain ⟨i, hi, rfl⟩ := List.mem_iff_getElem.mp h
  have hi' : i < V.length := by simpa [colOf] using hi
  refine ⟨i, hi', ?_⟩
  rw [← getD_colOf, List.getD_eq_getElem?_getD, List.getElem?_eq_getElem hi]; rfl

theorem mem_zip_index {α β : Type} {l1 : List α} {l2 : List β} {p : α × β} (h : p ∈ List.zip l1 l2) :
    ∃ i, ∃ (h1 : i < l1.length) (h2 : i < l2.length), p = (l1[i], l2[i]) := by
  obtain ⟨i, hi, rfl⟩ := List.mem_iff_getElem.mp h
  have hi' : i < l1.length ∧ i < l2.length := by simpa [List.length_zip] using hi
  exact ⟨i, hi'.1, hi'.2, by simp [List.getElem_zip]⟩


theorem votes_nonneg_of_ok {V : Mat Rat} (h : votesOk V = true) : ∀ i j, 0 ≤ vget V i j := by
  intro i j
  simp only [votesOk, Bool.and_eq_true, List.all_eq_true, decide_eq_true_eq] at h
  unfold vget
  simp only [List.getD_eq_getElem?_getD]
  cases hi : V[i]? with
  | none => simp
  | some r =>
    have hr : r ∈ V := List.mem_of_getElem? hi
    simp only [Option.getD_some]
    cases hj : r[j]? with
    | none => simp
    | some v => simpa using h.2 r hr v (List.mem_of_getElem? hj)

theorem hasVotes_exists {V : Mat Rat} (hs : shapeOk V V.length (nCols V) = true) (h : hasVotes V = true) :
    ∃ i < V.length, ∃ j < nCols V, 0 < vget V i j := by
  simp only [hasVotes, List.any_eq_true, decide_eq_true_eq] at h
  obtain ⟨r, hr, v, hv, hpos⟩ := h
  obtain ⟨i, hi, rfl⟩ := List.mem_iff_getElem.mp hr
  obtain ⟨j, hj, rfl⟩ := List.mem_iff_getElem.mp hv
  have hlen : (V[i]).length = nCols V := ((shapeOk_iff V _ _).mp hs).2 _ hr
  refine ⟨i, hi, j, by omega, ?_⟩
  unfold vget
  simp only [List.getD_eq_getElem?_getD, List.getElem?_eq_getElem hi, Option.getD_some,
    List.getElem?_eq_getElem hj]
  exact hpos

/-- **The state before the loop is consistent.**  For a rectangular non-negative vote matrix with at least one
    vote and a divisor rule in signpost form, the initial party-proportional solution together with the initial
    multipliers satisfies the loop invariant. -/
theorem initState_ok {div : Nat → Rat} {q : Rat} (hdiv : SignpostDiv div q) {V : Mat Rat} {total : Nat} {s0 : State}
    (hV : votesOk V = true) (hpos : hasVotes V = true) (h : initState div q V total = .ok s0) :
    stateOk q V s0 = true := by
  have hshapeV : shapeOk V V.length (nCols V) = true := by
    simp only [votesOk, Bool.and_eq_true] at hV; exact hV.1
  have hnn := votes_nonneg_of_ok hV
  unfold initState at h
  cases hx0 : initialSolution div V total with
  | error e => rw [hx0] at h; simp at h
  | ok x0 =>
    rw [hx0] at h
    simp only [Except.ok.injEq] at h
    subst h
    unfold initialSolution at hx0
    cases hps : partySeats div V total with
    | error e => rw [hps] at hx0; simp at hx0
    | ok ps =>
      rw [hps] at hx0
      simp only at hx0
      cases hcols : (List.range (nCols V)).mapM (fun j => initialColumn div V j (ps.getD j 0)) with
      | error e => rw [hcols] at hx0; simp at hx0
      | ok cols =>
        rw [hcols] at hx0
        simp only [Except.ok.injEq] at hx0
        obtain ⟨hclen, hcel⟩ := mapM_except_ok _ _ _ hcols
        rw [List.length_range] at hclen
        have hcol : ∀ j < nCols V, initialColumn div V j (ps.getD j 0) = .ok (cols.getD j []) := by
          intro j hj
          have := hcel j (by simpa using hj) (by omega)
          simp only [List.getElem_range] at this
          rw [this, List.getD_eq_getElem?_getD, List.getElem?_eq_getElem (by omega)]; rfl
        -- cells of the initial solution
        have hmget : ∀ i < V.length, ∀ j, mget x0 i j = (cols.getD j []).getD i 0 := by
          intro i hi j
          rw [← hx0]
          unfold mget
          rw [getD_map_range _ _ _ _ hi]
          simp only [List.getD_eq_getElem?_getD, List.getElem?_map]
          cases cols[j]? <;> simp
        have hshape : shapeOk x0 V.length (nCols V) = true := by
          rw [shapeOk_iff, ← hx0]
          refine ⟨by simp, ?_⟩
          intro r hr
          obtain ⟨i, _, rfl⟩ := List.mem_map.mp hr
          simp [hclen]
        -- party level: a party without votes has no seat
        have hps0 : ∀ j < nCols V, (∀ i < V.length, vget V i j = 0) → ps.getD j 0 = 0 := by
          intro j hj hall
          unfold partySeats at hps
          cases hr : haEvaluate div (colTotals V) total with
          | error e => rw [hr] at hps; simp at hps
          | ok r =>
            rw [hr] at hps
            simp only at hps
            split at hps
            · simp at hps
            · rename_i hnt
              simp only [Except.ok.injEq] at hps
              have hctl : (colTotals V).length = nCols V := by simp [colTotals]
              have hct : ∀ j < nCols V, (colTotals V).getD j 0 = sumRat (colOf V j) := by
                intro j hj; unfold colTotals; rw [getD_map_range _ _ _ _ hj]
              have hctnn : ∀ k, 0 ≤ (colTotals V).getD k 0 := by
                intro k
                by_cases hk : k < nCols V
                · rw [hct k hk]
                  apply sumRat_nonneg
                  intro a ha
                  obtain ⟨i, _, rfl⟩ := mem_colOf ha
                  exact hnn i k
                · rw [List.getD_eq_getElem?_getD, List.getElem?_eq_none (by omega)]; simp
              have hinv := haEvaluate_spread_inv hdiv hctnn hr
              have htn : r.tie = none := by
                cases ht : r.tie with
                | none => rfl
                | some bc => rw [ht] at hnt; simp at hnt
              rw [htn] at hinv
              simp only [hctl] at hinv
              rw [hps] at hinv
              obtain ⟨i0, hi0, j0, hj0, hp0⟩ := hasVotes_exists hshapeV hpos
              apply HAInv_zero_seats hdiv hinv.2 ⟨j0, hj0, ?_⟩ hj
              · rw [hct j hj]
                apply sumRat_zero
                intro a ha
                obtain ⟨i, hi, rfl⟩ := mem_colOf ha
                exact hall i hi
              · rw [hct j0 hj0]
                apply sumRat_pos
                · intro a ha
                  obtain ⟨i, _, rfl⟩ := mem_colOf ha
                  exact hnn i j0
                · refine ⟨vget V i0 j0, ?_, hp0⟩
                  rw [← getD_colOf, List.getD_eq_getElem?_getD,
                    List.getElem?_eq_getElem (by rw [length_colOf]; exact hi0)]
                  exact List.getElem_mem _
        -- column level
        have hcolfacts : ∀ j < nCols V,
            0 < initialPartyCoef q (colOf V j) (x0.map (fun r => r.getD j 0)) ∧
            ∀ i < V.length, isRounding q (vget V i j * 1 *
              initialPartyCoef q (colOf V j) (x0.map (fun r => r.getD j 0))) (mget x0 i j) := by
          intro j hj
          obtain ⟨hlenc, hinv⟩ := initialColumn_inv hdiv hnn (hcol j hj)
          have hxcol : ∀ i (h : i < (x0.map (fun r => r.getD j 0)).length),
              (x0.map (fun r => r.getD j 0))[i] = mget x0 i j := by
            intro i h
            simp only [List.getElem_map]
            unfold mget
            have : i < x0.length := by simpa using h
            rw [List.getD_eq_getElem?_getD (l := x0), List.getElem?_eq_getElem this]; rfl
          have hx0len : x0.length = V.length := ((shapeOk_iff _ _ _).mp hshape).1
          have hmem : ∀ vx ∈ List.zip (colOf V j) (x0.map (fun r => r.getD j 0)),
              ∃ i < V.length, vx = (vget V i j, mget x0 i j) := by
            intro vx hvx
            obtain ⟨i, h1, h2, rfl⟩ := mem_zip_index hvx
            have hi : i < V.length := by rw [length_colOf] at h1; exact h1
            refine ⟨i, hi, ?_⟩
            rw [hxcol i h2]
            congr 1
            rw [← getD_colOf, List.getD_eq_getElem?_getD, List.getElem?_eq_getElem h1]; rfl
          have hzero : ∀ i < V.length, vget V i j = 0 → mget x0 i j = 0 := by
            intro i hi hv
            rw [hmget i hi]
            by_cases hex : ∃ k < V.length, 0 < vget V k j
            · exact HAInv_zero_seats hdiv hinv hex hi hv
            · have hall : ∀ k < V.length, vget V k j = 0 := by
                intro k hk
                by_contra hne
                exact hex ⟨k, hk, lt_of_le_of_ne (hnn k j) (Ne.symm hne)⟩
              have hk0 := hps0 j hj hall
              have := hcol j hj
              rw [hk0] at this
              simp only [initialColumn, if_true, Except.ok.injEq] at this
              rw [← this, getD_map_const_zero]
          obtain ⟨hc1, hc2⟩ := partyCoef_ok hdiv.q_lt_one (colOf V j) (x0.map (fun r => r.getD j 0))
            (fun vx hvx => by obtain ⟨i, _, rfl⟩ := hmem vx hvx; exact hnn i j)
            (fun vx hvx hv => by obtain ⟨i, hi, rfl⟩ := hmem vx hvx; exact hzero i hi hv)
            (fun vx hvx vx' hvx' hp hp' => by
              obtain ⟨i, hi, rfl⟩ := hmem vx hvx
              obtain ⟨k, hk, rfl⟩ := hmem vx' hvx'
              simp only at hp hp' ⊢
              rw [hmget i hi, hmget k hk]
              exact HAInv_signposts hdiv hinv hi hk hp hp')
          refine ⟨hc1, fun i hi => ?_⟩
          have hin : (vget V i j, mget x0 i j) ∈ List.zip (colOf V j) (x0.map (fun r => r.getD j 0)) := by
            rw [List.mem_iff_getElem]
            have hl : i < (List.zip (colOf V j) (x0.map (fun r => r.getD j 0))).length := by
              simp [List.length_zip, length_colOf, hx0len, hi]
            refine ⟨i, hl, ?_⟩
            rw [List.getElem_zip, hxcol]
            congr 1
            rw [← getD_colOf, List.getD_eq_getElem?_getD, List.getElem?_eq_getElem (by rw [length_colOf]; exact hi)]
            rfl
          exact hc2 _ hin
        -- assemble
        rw [stateOk]
        simp only [Bool.and_eq_true, allN_iff, decide_eq_true_eq]
        refine ⟨⟨⟨hshape, ?_⟩, ?_⟩, ?_⟩
        · intro i hi
          simp only [List.getD_eq_getElem?_getD, List.getElem?_map, List.getElem?_eq_getElem hi]
          simp
        · intro j hj
          simp only [initialPartyCoefs]
          rw [getD_map_range _ _ _ _ hj]
          exact (hcolfacts j hj).1
        · intro i hi j hj
          have := (hcolfacts j hj).2 i hi
          unfold quot
          simp only [initialPartyCoefs]
          rw [getD_map_range _ _ _ _ hj]
          have hdc : (V.map (fun _ => (1 : Rat))).getD i 0 = 1 := by
            simp only [List.getD_eq_getElem?_getD, List.getElem?_map, List.getElem?_eq_getElem hi]; simp
          rw [hdc]
          exact this

end VL.Biprop

namespace VL.Biprop
open Finset

/-- seats handed out by a highest-averages evaluation, a `Tie` key counting with its multiplicity -/
def HARes.allocated (r : HARes) : Nat :=
  r.seats.sum + (match r.tie with | none => 0 | some (_, c) => c)

theorem maxRat_none : ∀ (l : List Rat), maxRat l = none → l = []
  | [], _ => rfl
  | x :: xs, h => by simp only [maxRat] at h; split at h <;> simp at h

theorem maxRat_mem : ∀ (l : List Rat) (mx : Rat), maxRat l = some mx → mx ∈ l
  | [], _, h => by simp [maxRat] at h
  | x :: xs, mx, h => by
    simp only [maxRat] at h
    cases hm : maxRat xs with
    | none => rw [hm] at h; simp only [Option.some.injEq] at h; rw [← h]; exact List.mem_cons_self
    | some y =>
      rw [hm] at h
      simp only [Option.some.injEq] at h
      have := maxRat_mem xs y hm
      rw [← h]; split
      · exact List.mem_cons_of_mem _ this
      · exact List.mem_cons_self

theorem filter_range_length (p : Nat → Bool) : ∀ L : Nat,
    ((List.range L).filter p).length = sumN (fun k => if p k then 1 else 0) L
  | 0 => by simp [sumN]
  | L+1 => by
    rw [List.range_succ, List.filter_append, List.length_append, filter_range_length p L, sumN]
    by_cases h : p L = true <;> simp [h]

theorem sum_eq_sumN (l : List Nat) : l.sum = sumN (fun k => l.getD k 0) l.length := (sumN_getD l).symm

theorem haLoop_total {div : Nat → Rat} {votes : List Rat} (hne : votes ≠ []) :
    ∀ (fuel rem : Nat) (seats : List Nat), seats.length = votes.length → rem ≤ fuel →
      (haLoop div votes fuel rem seats).allocated = seats.sum + rem ∧
      ∀ b c, (haLoop div votes fuel rem seats).tie = some (b, c) →
        c ≤ b.length ∧ b.Nodup ∧ ∀ k ∈ b, k < votes.length
  | 0, rem, seats, _, hrem => by
    simp only [haLoop, HARes.allocated]
    exact ⟨by omega, fun b c h => by simp at h⟩
  | fuel+1, rem, seats, hlen, hrem => by
    simp only [haLoop]
    split
    · rename_i h0
      simp only [HARes.allocated]
      exact ⟨by omega, fun b c h => by simp at h⟩
    · rename_i h0
      have hql : (List.zipWith (fun v s => v / div s) votes seats).length = votes.length := by
        simp [List.length_zipWith, hlen]
      cases hmx : maxRat (List.zipWith (fun v s => v / div s) votes seats) with
      | none =>
        exfalso
        have := maxRat_none _ hmx
        have h2 : (List.zipWith (fun v s => v / div s) votes seats).length = 0 := by rw [this]; rfl
        rw [hql] at h2
        exact hne (List.length_eq_zero_iff.mp h2)
      | some mx =>
        simp only
        have hbl : ((List.range (List.zipWith (fun v s => v / div s) votes seats).length).filter
            (fun k => (List.zipWith (fun v s => v / div s) votes seats).getD k 0 == mx)).length
            = sumN (fun k => if ((List.zipWith (fun v s => v / div s) votes seats).getD k 0 == mx) then 1 else 0)
                votes.length := by
          rw [filter_range_length, hql]
        split
        · rename_i hgt
          simp only [HARes.allocated]
          refine ⟨trivial, ?_⟩
          intro b c h
          simp only [Option.some.injEq, Prod.mk.injEq] at h
          obtain ⟨rfl, rfl⟩ := h
          refine ⟨by omega, List.Nodup.filter _ List.nodup_range, ?_⟩
          intro k hk
          have := (List.mem_filter.mp hk).1
          rw [List.mem_range, hql] at this
          exact this
        · rename_i hle
          have hb1 : 1 ≤ ((List.range (List.zipWith (fun v s => v / div s) votes seats).length).filter
              (fun k => (List.zipWith (fun v s => v / div s) votes seats).getD k 0 == mx)).length := by
            obtain ⟨k, hk, hkeq⟩ := List.mem_iff_getElem.mp (maxRat_mem _ _ hmx)
            apply List.length_pos_of_mem (a := k)
            rw [List.mem_filter, List.mem_range]
            refine ⟨hk, ?_⟩
            rw [List.getD_eq_getElem?_getD, List.getElem?_eq_getElem hk]
            simpa using hkeq
          have hlen' : (List.zipWith (fun s qv => if qv == mx then s + 1 else s) seats
              (List.zipWith (fun v s => v / div s) votes seats)).length = votes.length := by
            simp [List.length_zipWith, hlen]
          obtain ⟨ih1, ih2⟩ := haLoop_total hne fuel
            (rem - ((List.range (List.zipWith (fun v s => v / div s) votes seats).length).filter
              (fun k => (List.zipWith (fun v s => v / div s) votes seats).getD k 0 == mx)).length)
            _ hlen' (by omega)
          refine ⟨?_, ih2⟩
          rw [ih1]
          have hsum : (List.zipWith (fun s qv => if qv == mx then s + 1 else s) seats
              (List.zipWith (fun v s => v / div s) votes seats)).sum
              = seats.sum + ((List.range (List.zipWith (fun v s => v / div s) votes seats).length).filter
              (fun k => (List.zipWith (fun v s => v / div s) votes seats).getD k 0 == mx)).length := by
            rw [hbl, sum_eq_sumN, hlen', sum_eq_sumN seats, hlen, ← sumN_add]
            apply sumN_congr
            intro k hk
            rw [getD_zipWith _ _ _ _ 0 0 0 (by omega) (by omega)]
            split <;> simp
          rw [hsum]
          omega

theorem haLoop_len (div : Nat → Rat) (votes : List Rat) : ∀ (fuel rem : Nat) (seats : List Nat),
    seats.length = votes.length → (haLoop div votes fuel rem seats).seats.length = votes.length
  | 0, _, _, h => by simpa [haLoop] using h
  | fuel+1, rem, seats, h => by
    simp only [haLoop]
    split
    · exact h
    · split
      · exact h
      · split
        · exact h
        · apply haLoop_len div votes fuel
          simp [List.length_zipWith, h]

theorem sumN_contains (t : List Nat) (L : Nat) (hnd : t.Nodup) (hlt : ∀ k ∈ t, k < L) :
    sumN (fun i => if t.contains i then 1 else 0) L = t.length := by
  induction t with
  | nil => simp [sumN_zero]
  | cons a t ih =>
    have hnd' := List.nodup_cons.mp hnd
    have : ∀ i, (if (a :: t).contains i then 1 else 0) = (if a = i then 1 else 0) + (if t.contains i then 1 else 0) := by
      intro i
      by_cases hai : a = i
      · subst hai
        simp [hnd'.1]
      · have : ¬ i = a := fun h => hai h.symm
        simp [this, hai]
    rw [sumN_congr (fun k _ => this k), sumN_add, sumN_single L a (hlt a List.mem_cons_self),
      ih hnd'.2 (fun k hk => hlt k (List.mem_cons_of_mem _ hk))]
    simp; omega

/-- a per-party allocation hands out exactly the party's seats -/
theorem initialColumn_sum {div : Nat → Rat} {V : Mat Rat} {j k : Nat} {c : List Nat}
    (h : initialColumn div V j k = .ok c) : c.sum = k := by
  unfold initialColumn at h
  split at h
  · rename_i hk
    simp only [Except.ok.injEq] at h
    rw [← h, hk]
    induction V with
    | nil => rfl
    | cons r V ih => simp
  · cases hr : haEvaluate div (colOf V j) k with
    | error e => rw [hr] at h; simp at h
    | ok r =>
      rw [hr] at h
      simp only [Except.ok.injEq] at h
      unfold haEvaluate at hr
      split at hr
      · simp at hr
      · rename_i hcond
        simp only [Except.ok.injEq] at hr
        have hne : colOf V j ≠ [] := by
          intro he; rw [he] at hcond; simp at hcond
        obtain ⟨htot, htie⟩ := haLoop_total (div := div) hne k k ((colOf V j).map fun _ => 0) (by simp) (le_refl _)
        rw [hr] at htot htie
        have hz : ((colOf V j).map fun _ => (0 : Nat)).sum = 0 := by
          generalize colOf V j = l
          induction l with
          | nil => rfl
          | cons a l ih => simp
        rw [hz] at htot
        cases ht : r.tie with
        | none =>
          rw [ht] at h
          simp only at h
          simp only [HARes.allocated, ht] at htot
          rw [← h]; omega
        | some bc =>
          obtain ⟨b, cnt⟩ := bc
          rw [ht] at h
          simp only at h
          simp only [HARes.allocated, ht] at htot
          obtain ⟨hc, hnd, hlt⟩ := htie b cnt ht
          rw [← h]
          unfold tieSpread
          have hseatlen : r.seats.length = (colOf V j).length := by
            have := (haLoop_len div (colOf V j) k k ((colOf V j).map fun _ => 0) (by simp))
            rw [hr] at this; exact this
          rw [sum_eq_sumN]
          simp only [List.length_map, List.length_range]
          rw [sumN_congr (fun i hi => getD_map_range _ _ i 0 hi), sumN_add, ← sum_eq_sumN,
            sumN_contains (b.take cnt) _ (List.Nodup.sublist (List.take_sublist _ _) hnd)
              (fun k hk => by rw [hseatlen]; exact hlt k (List.mem_of_mem_take hk))]
          rw [List.length_take]
          omega

end VL.Biprop

namespace VL.Biprop
open Finset

theorem haEvaluate_total {div : Nat → Rat} {votes : List Rat} {n : Nat} {r : HARes}
    (h : haEvaluate div votes n = .ok r) : r.allocated = n := by
  unfold haEvaluate at h
  split at h
  · simp at h
  · rename_i hcond
    simp only [Except.ok.injEq] at h
    have hne : votes ≠ [] := by intro he; rw [he] at hcond; simp at hcond
    have := (haLoop_total (div := div) hne n n (votes.map fun _ => 0) (by simp) (le_refl _)).1
    rw [h] at this
    have hz : (votes.map fun _ => (0 : Nat)).sum = 0 := by
      induction votes with
      | nil => rfl
      | cons a l ih => simp
    omega

/-- the upper apportionment hands out exactly `total` seats -/
theorem partySeats_total {div : Nat → Rat} {V : Mat Rat} {total : Nat} {ps : List Nat}
    (h : partySeats div V total = .ok ps) : ps.sum = total ∧ ps.length = nCols V := by
  unfold partySeats at h
  cases hr : haEvaluate div (colTotals V) total with
  | error e => rw [hr] at h; simp at h
  | ok r =>
    rw [hr] at h
    simp only at h
    split at h
    · simp at h
    · rename_i hnt
      simp only [Except.ok.injEq] at h
      have htot := haEvaluate_total hr
      have htn : r.tie = none := by
        cases ht : r.tie with
        | none => rfl
        | some bc => rw [ht] at hnt; simp at hnt
      simp only [HARes.allocated, htn] at htot
      refine ⟨by rw [← h]; omega, ?_⟩
      unfold haEvaluate at hr
      split at hr
      · simp at hr
      · simp only [Except.ok.injEq] at hr
        have := haLoop_len div (colTotals V) total total ((colTotals V).map fun _ => 0) (by simp)
        rw [hr, h] at this
        rw [this]; simp [colTotals]

theorem districtSeats_total {div : Nat → Rat} {V : Mat Rat} {total : Nat} {tgt : List Nat}
    (h : districtSeats div V total = .ok tgt) : tgt.sum = total ∧ tgt.length = V.length := by
  unfold districtSeats at h
  cases hr : haEvaluate div (rowTotals V) total with
  | error e => rw [hr] at h; simp at h
  | ok r =>
    rw [hr] at h
    simp only at h
    split at h
    · simp at h
    · rename_i hnt
      simp only [Except.ok.injEq] at h
      have htot := haEvaluate_total hr
      have htn : r.tie = none := by
        cases ht : r.tie with
        | none => rfl
        | some bc => rw [ht] at hnt; simp at hnt
      simp only [HARes.allocated, htn] at htot
      refine ⟨by rw [← h]; omega, ?_⟩
      unfold haEvaluate at hr
      split at hr
      · simp at hr
      · simp only [Except.ok.injEq] at hr
        have := haLoop_len div (rowTotals V) total total ((rowTotals V).map fun _ => 0) (by simp)
        rw [hr, h] at this
        rw [this]; simp [rowTotals]

/-- **Party totals of the initial solution are the upper apportionment.** -/
theorem initialSolution_cols {div : Nat → Rat} {V : Mat Rat} {total : Nat} {x0 : Mat Nat} {ps : List Nat}
    (hps : partySeats div V total = .ok ps) (h : initialSolution div V total = .ok x0) :
    ∀ j < nCols V, ∑ i ∈ range V.length, mget x0 i j = ps.getD j 0 := by
  unfold initialSolution at h
  rw [hps] at h
  simp only at h
  cases hcols : (List.range (nCols V)).mapM (fun j => initialColumn div V j (ps.getD j 0)) with
  | error e => rw [hcols] at h; simp at h
  | ok cols =>
    rw [hcols] at h
    simp only [Except.ok.injEq] at h
    obtain ⟨hclen, hcel⟩ := mapM_except_ok _ _ _ hcols
    rw [List.length_range] at hclen
    intro j hj
    have hcol : initialColumn div V j (ps.getD j 0) = .ok (cols.getD j []) := by
      have := hcel j (by simpa using hj) (by omega)
      simp only [List.getElem_range] at this
      rw [this, List.getD_eq_getElem?_getD, List.getElem?_eq_getElem (by omega)]; rfl
    have hsum := initialColumn_sum hcol
    have hlen : (cols.getD j []).length = V.length := by
      unfold initialColumn at hcol
      split at hcol
      · simp only [Except.ok.injEq] at hcol; rw [← hcol]; simp
      · cases hr : haEvaluate div (colOf V j) (ps.getD j 0) with
        | error e => rw [hr] at hcol; simp at hcol
        | ok r =>
          rw [hr] at hcol
          simp only [Except.ok.injEq] at hcol
          unfold haEvaluate at hr
          split at hr
          · simp at hr
          · simp only [Except.ok.injEq] at hr
            have hl := haLoop_len div (colOf V j) (ps.getD j 0) (ps.getD j 0) ((colOf V j).map fun _ => 0) (by simp)
            rw [hr, length_colOf] at hl
            rw [← hcol]
            cases r.tie with
            | none => exact hl
            | some bc => obtain ⟨b, c⟩ := bc; simp [tieSpread, hl]
    rw [← hsum, ← sumN_eq_sum, sum_eq_sumN, hlen]
    apply sumN_congr
    intro i hi
    rw [← h]
    unfold mget
    rw [getD_map_range _ _ _ _ hi]
    simp only [List.getD_eq_getElem?_getD, List.getElem?_map]
    cases cols[j]? <;> simp

end VL.Biprop

namespace VL.Biprop

/-- a tie-free highest-averages result is a divisor-method apportionment in the textbook sense: a common
    multiplier makes every seat count a signpost rounding of votes × multiplier -/
theorem haEvaluate_divisor_method {div : Nat → Rat} {q : Rat} (hdiv : SignpostDiv div q) {votes : List Rat}
    (hv : ∀ k, 0 ≤ votes.getD k 0) (hpos : ∃ k < votes.length, 0 < votes.getD k 0) {n : Nat} {r : HARes}
    (h : haEvaluate div votes n = .ok r) (ht : r.tie = none) :
    r.seats.sum = n ∧ ∃ c : Rat, 0 < c ∧
      ∀ k < votes.length, isRounding q (votes.getD k 0 * c) (r.seats.getD k 0) := by
  have htot := haEvaluate_total h
  simp only [HARes.allocated, ht] at htot
  refine ⟨by omega, ?_⟩
  have hinv := haEvaluate_spread_inv hdiv hv h
  rw [ht] at hinv
  simp only at hinv
  obtain ⟨hlen, hinv⟩ := hinv
  have hmem : ∀ vx ∈ List.zip votes r.seats, ∃ i < votes.length, vx = (votes.getD i 0, r.seats.getD i 0) := by
    intro vx hvx
    obtain ⟨i, h1, h2, rfl⟩ := mem_zip_index hvx
    refine ⟨i, h1, ?_⟩
    simp [List.getD_eq_getElem?_getD, List.getElem?_eq_getElem h1, List.getElem?_eq_getElem h2]
  obtain ⟨hc1, hc2⟩ := partyCoef_ok hdiv.q_lt_one votes r.seats
    (fun vx hvx => by obtain ⟨i, _, rfl⟩ := hmem vx hvx; exact hv i)
    (fun vx hvx hz => by
      obtain ⟨i, hi, rfl⟩ := hmem vx hvx
      exact HAInv_zero_seats hdiv hinv hpos hi hz)
    (fun vx hvx vx' hvx' hp hp' => by
      obtain ⟨i, hi, rfl⟩ := hmem vx hvx
      obtain ⟨k, hk, rfl⟩ := hmem vx' hvx'
      exact HAInv_signposts hdiv hinv hi hk hp hp')
  refine ⟨_, hc1, fun k hk => ?_⟩
  have hin : (votes.getD k 0, r.seats.getD k 0) ∈ List.zip votes r.seats := by
    rw [List.mem_iff_getElem]
    refine ⟨k, by simp [List.length_zip, hlen, hk], ?_⟩
    simp [List.getElem_zip, List.getD_eq_getElem?_getD, List.getElem?_eq_getElem hk,
      List.getElem?_eq_getElem (show k < r.seats.length by omega)]
  have := hc2 _ hin
  simpa using this

end VL.Biprop
