/-
  C07: the initial state of tie-and-transfer is consistent — highest-averages invariant, initial party multipliers.
-/
import VotelibProofs.Lemmas.Biprop
namespace VL.Biprop

/-- a divisor function that is the signpost sequence `k ↦ k + 1 − q` up to a positive factor
    (D'Hondt: κ = 1, q = 0; Sainte-Laguë: κ = 2, q = 1/2) -/
structure SignpostDiv (div : Nat → Rat) (q : Rat) : Prop where
  q_nonneg : 0 ≤ q
  q_lt_one : q < 1
  factor : ∃ κ : Rat, 0 < κ ∧ ∀ s : Nat, div s = κ * ((s : Rat) + 1 - q)

theorem SignpostDiv.pos {div : Nat → Rat} {q : Rat} (h : SignpostDiv div q) (s : Nat) : 0 < div s := by
  obtain ⟨κ, hκ, hd⟩ := h.factor
  rw [hd]
  have : (0 : Rat) ≤ (s : Rat) := Nat.cast_nonneg _
  exact mul_pos hκ (by linarith [h.q_lt_one])

theorem SignpostDiv.mono {div : Nat → Rat} {q : Rat} (h : SignpostDiv div q) {a b : Nat} (hab : a ≤ b) :
    div a ≤ div b := by
  obtain ⟨κ, hκ, hd⟩ := h.factor
  rw [hd, hd]
  have : (a : Rat) ≤ (b : Rat) := by exact_mod_cast hab
  exact mul_le_mul_of_nonneg_left (by linarith) (le_of_lt hκ)

/-- invariant of the highest-averages loop: every quotient already served is at least every quotient still
    waiting -/
def HAInv (div : Nat → Rat) (v : Nat → Rat) (s : Nat → Nat) (L : Nat) : Prop :=
  ∀ i < L, ∀ k < L, 1 ≤ s i → v k / div (s k) ≤ v i / div (s i - 1)

theorem HAInv_add {div : Nat → Rat} {q : Rat} (hdiv : SignpostDiv div q) {v : Nat → Rat} {s : Nat → Nat} {L : Nat}
    (hv : ∀ k, 0 ≤ v k) (hinv : HAInv div v s L) (B : Nat → Bool)
    (hB : ∀ k, B k = true → ∀ k' < L, v k' / div (s k') ≤ v k / div (s k)) :
    HAInv div v (fun k => s k + if B k then 1 else 0) L := by
  intro i hi k hk hsi
  have hstep : v k / div (s k + if B k then 1 else 0) ≤ v k / div (s k) := by
    apply div_le_div_of_nonneg_left (hv k) (hdiv.pos _)
    exact hdiv.mono (Nat.le_add_right _ _)
  refine le_trans hstep ?_
  by_cases hBi : B i = true
  · simp only [hBi, if_true, Nat.add_sub_cancel]
    exact hB i hBi k hk
  · simp only [hBi] at hsi ⊢
    simp only [Bool.false_eq_true, if_false, Nat.add_zero] at hsi ⊢
    exact hinv i hi k hk hsi

theorem maxRat_ge : ∀ (l : List Rat) (mx : Rat), maxRat l = some mx → ∀ a ∈ l, a ≤ mx
  | [], _, h, _, _ => by simp [maxRat] at h
  | x :: xs, mx, h, a, ha => by
    simp only [maxRat] at h
    cases hm : maxRat xs with
    | none =>
      rw [hm] at h
      simp only [Option.some.injEq] at h
      have : xs = [] := by
        cases xs with
        | nil => rfl
        | cons y ys => simp only [maxRat] at hm; split at hm <;> simp at hm
      subst this
      simp only [List.mem_singleton] at ha
      rw [ha, h]
    | some y =>
      rw [hm] at h
      simp only [Option.some.injEq] at h
      rcases List.mem_cons.mp ha with rfl | ha
      · rw [← h]; split <;> linarith
      · have := maxRat_ge xs y hm a ha
        rw [← h]; split <;> linarith

theorem getD_zipWith {α β γ : Type} (f : α → β → γ) (l1 : List α) (l2 : List β) (k : Nat) (d1 : α) (d2 : β) (d3 : γ)
    (h1 : k < l1.length) (h2 : k < l2.length) :
    (List.zipWith f l1 l2).getD k d3 = f (l1.getD k d1) (l2.getD k d2) := by
  simp [List.getD_eq_getElem?_getD, List.getElem?_zipWith, List.getElem?_eq_getElem h1, List.getElem?_eq_getElem h2]

/-- the highest-averages loop keeps the invariant; a reported `Tie` consists of candidates whose quotient is
    maximal among the waiting ones -/
theorem haLoop_inv {div : Nat → Rat} {q : Rat} (hdiv : SignpostDiv div q) {votes : List Rat}
    (hv : ∀ k, 0 ≤ votes.getD k 0) :
    ∀ (fuel rem : Nat) (seats : List Nat), seats.length = votes.length →
      HAInv div (fun k => votes.getD k 0) (fun k => seats.getD k 0) votes.length →
      let r := haLoop div votes fuel rem seats
      r.seats.length = votes.length ∧
      HAInv div (fun k => votes.getD k 0) (fun k => r.seats.getD k 0) votes.length ∧
      ∀ b c, r.tie = some (b, c) → ∀ k ∈ b, k < votes.length ∧ ∀ k' < votes.length,
        votes.getD k' 0 / div (r.seats.getD k' 0) ≤ votes.getD k 0 / div (r.seats.getD k 0)
  | 0, _, seats, hlen, hinv => by
    simp only [haLoop]; exact ⟨hlen, hinv, fun b c h => by simp at h⟩
  | fuel+1, rem, seats, hlen, hinv => by
    simp only [haLoop]
    split
    · exact ⟨hlen, hinv, fun b c h => by simp at h⟩
    · cases hmx : maxRat (List.zipWith (fun v s => v / div s) votes seats) with
      | none => simp only; exact ⟨hlen, hinv, fun b c h => by simp at h⟩
      | some mx =>
        simp only
        have hql : (List.zipWith (fun v s => v / div s) votes seats).length = votes.length := by
          simp [List.length_zipWith, hlen]
        have hq : ∀ k < votes.length, (List.zipWith (fun v s => v / div s) votes seats).getD k 0
            = votes.getD k 0 / div (seats.getD k 0) := by
          intro k hk
          exact getD_zipWith _ _ _ _ 0 0 0 hk (by omega)
        have hle : ∀ k < votes.length, votes.getD k 0 / div (seats.getD k 0) ≤ mx := by
          intro k hk
          rw [← hq k hk]
          apply maxRat_ge _ _ hmx
          rw [List.getD_eq_getElem?_getD, List.getElem?_eq_getElem (by omega)]
          exact List.getElem_mem _
        split
        · -- tie: seats unchanged, batch = argmax
          refine ⟨hlen, hinv, ?_⟩
          intro b c h
          simp only [Option.some.injEq, Prod.mk.injEq] at h
          obtain ⟨rfl, _⟩ := h
          intro k hk
          rw [List.mem_filter, List.mem_range] at hk
          have hkl : k < votes.length := by omega
          refine ⟨hkl, fun k' hk' => ?_⟩
          have : votes.getD k 0 / div (seats.getD k 0) = mx := by
            rw [← hq k hkl]; simpa using hk.2
          rw [this]; exact hle k' hk'
        · -- every member of the batch gets a seat
          apply haLoop_inv hdiv hv fuel
          · simp [List.length_zipWith, hlen]
          · have hnew : ∀ k < votes.length,
                (List.zipWith (fun s qv => if qv == mx then s + 1 else s) seats
                  (List.zipWith (fun v s => v / div s) votes seats)).getD k 0
                = seats.getD k 0 + if (votes.getD k 0 / div (seats.getD k 0) == mx) then 1 else 0 := by
              intro k hk
              rw [getD_zipWith _ _ _ _ 0 0 0 (by omega) (by omega), hq k hk]
              split <;> simp
            have := HAInv_add hdiv (v := fun k => votes.getD k 0) (s := fun k => seats.getD k 0) hv hinv
              (fun k => votes.getD k 0 / div (seats.getD k 0) == mx)
              (fun k hk k' hk' => by
                have : votes.getD k 0 / div (seats.getD k 0) = mx := by simpa using hk
                rw [this]; exact hle k' hk')
            intro i hi k hk hsi
            simp only at hsi ⊢
            rw [hnew i hi] at hsi ⊢
            rw [hnew k hk]
            exact this i hi k hk hsi


theorem getD_map_const_zero {α : Type} (l : List α) (k : Nat) : (l.map (fun _ => (0 : Nat))).getD k 0 = 0 := by
  rw [List.getD_eq_getElem?_getD, List.getElem?_map]
  cases l[k]? <;> simp

/-- the result of `haEvaluate`, with a `Tie` spread over its first members, satisfies the invariant -/
theorem haEvaluate_spread_inv {div : Nat → Rat} {q : Rat} (hdiv : SignpostDiv div q) {votes : List Rat}
    (hv : ∀ k, 0 ≤ votes.getD k 0) {n : Nat} {r : HARes} (h : haEvaluate div votes n = .ok r) :
    let c := match r.tie with
      | none => r.seats
      | some (b, cnt) => tieSpread r.seats b cnt
    c.length = votes.length ∧ HAInv div (fun k => votes.getD k 0) (fun k => c.getD k 0) votes.length := by
  unfold haEvaluate at h
  split at h
  · simp at h
  · simp only [Except.ok.injEq] at h
    have h0 : HAInv div (fun k => votes.getD k 0) (fun k => (votes.map fun _ => (0 : Nat)).getD k 0) votes.length := by
      intro i _ k _ hs
      simp only [getD_map_const_zero] at hs
      omega
    obtain ⟨hlen, hinv, htie⟩ := haLoop_inv hdiv hv n n (votes.map fun _ => 0) (by simp) h0
    rw [h] at hlen hinv htie
    cases ht : r.tie with
    | none => exact ⟨hlen, hinv⟩
    | some bc =>
      obtain ⟨b, cnt⟩ := bc
      simp only
      unfold tieSpread
      refine ⟨by simp [hlen], ?_⟩
      have hadd := HAInv_add hdiv (v := fun k => votes.getD k 0) (s := fun k => r.seats.getD k 0) hv hinv
        (fun k => (b.take cnt).contains k)
        (fun k hk k' hk' => by
          have hmem : k ∈ b := List.mem_of_mem_take (by simpa using hk)
          exact (htie b cnt ht k hmem).2 k' hk')
      intro i hi k hk hsi
      simp only at hsi ⊢
      rw [getD_map_range _ _ _ _ (by omega)] at hsi ⊢
      rw [getD_map_range _ _ _ _ (by omega)]
      exact hadd i hi k hk hsi

theorem getD_colOf (V : Mat Rat) (j i : Nat) : (colOf V j).getD i 0 = vget V i j := by
  unfold colOf vget
  simp only [List.getD_eq_getElem?_getD, List.getElem?_map]
  cases V[i]? <;> simp

theorem length_colOf (V : Mat Rat) (j : Nat) : (colOf V j).length = V.length := by simp [colOf]

/-- one column of the initial solution satisfies the highest-averages invariant -/
theorem initialColumn_inv {div : Nat → Rat} {q : Rat} (hdiv : SignpostDiv div q) {V : Mat Rat}
    (hV : ∀ i j, 0 ≤ vget V i j) {j k : Nat} {c : List Nat} (h : initialColumn div V j k = .ok c) :
    c.length = V.length ∧ HAInv div (fun i => vget V i j) (fun i => c.getD i 0) V.length := by
  unfold initialColumn at h
  split at h
  · simp only [Except.ok.injEq] at h
    subst h
    refine ⟨by simp, ?_⟩
    intro i _ k' _ hs
    simp only [getD_map_const_zero] at hs; omega
  · cases hr : haEvaluate div (colOf V j) k with
    | error e => rw [hr] at h; simp at h
    | ok r =>
      rw [hr] at h
      simp only [Except.ok.injEq] at h
      have := haEvaluate_spread_inv hdiv (votes := colOf V j) (fun k => by rw [getD_colOf]; exact hV k j) hr
      simp only [length_colOf, getD_colOf] at this
      rw [← h]
      cases ht : r.tie with
      | none => rw [ht] at this; exact this
      | some bc => obtain ⟨b, cnt⟩ := bc; rw [ht] at this; exact this

/-- with at least one positive vote among the candidates, a candidate without votes holds no seat -/
theorem HAInv_zero_seats {div : Nat → Rat} {q : Rat} (hdiv : SignpostDiv div q) {v : Nat → Rat} {s : Nat → Nat}
    {L : Nat} (hinv : HAInv div v s L) (hpos : ∃ k < L, 0 < v k) {i : Nat} (hi : i < L) (hvi : v i = 0) :
    s i = 0 := by
  by_contra hne
  obtain ⟨k, hk, hvk⟩ := hpos
  have := hinv i hi k hk (Nat.one_le_iff_ne_zero.mpr hne)
  rw [hvi, zero_div] at this
  have : 0 < v k / div (s k) := div_pos hvk (hdiv.pos _)
  linarith

/-- the invariant in signpost form: lower bounds of all cells are below upper bounds of all cells -/
theorem HAInv_signposts {div : Nat → Rat} {q : Rat} (hdiv : SignpostDiv div q) {v : Nat → Rat} {s : Nat → Nat}
    {L : Nat} (hinv : HAInv div v s L) {i k : Nat} (hi : i < L) (hk : k < L) (hvi : 0 < v i) (hvk : 0 < v k) :
    ((s i : Rat) - q) / v i ≤ ((s k : Rat) + 1 - q) / v k := by
  have hq0 := hdiv.q_nonneg
  have hq1 := hdiv.q_lt_one
  have hsk : (0 : Rat) ≤ (s k : Rat) := Nat.cast_nonneg _
  by_cases hs : s i = 0
  · rw [hs]
    have h1 : ((0 : Nat) : Rat) - q ≤ 0 := by simp; exact hq0
    have : ((0 : Nat) : Rat) - q ≤ 0 := h1
    calc (((0 : Nat) : Rat) - q) / v i ≤ 0 := div_nonpos_of_nonpos_of_nonneg h1 (le_of_lt hvi)
      _ ≤ ((s k : Rat) + 1 - q) / v k := div_nonneg (by linarith) (le_of_lt hvk)
  · have h1 : 1 ≤ s i := Nat.one_le_iff_ne_zero.mpr hs
    have := hinv i hi k hk h1
    obtain ⟨κ, hκ, hd⟩ := hdiv.factor
    rw [hd, hd] at this
    have hcast : ((s i - 1 : Nat) : Rat) = (s i : Rat) - 1 := by rw [Nat.cast_sub h1]; simp
    rw [hcast] at this
    have hsi : (1 : Rat) ≤ (s i : Rat) := by exact_mod_cast h1
    have hA : 0 < κ * ((s k : Rat) + 1 - q) := mul_pos hκ (by linarith)
    have hB : 0 < κ * ((s i : Rat) - 1 + 1 - q) := mul_pos hκ (by linarith)
    rw [div_le_div_iff₀ hA hB] at this
    rw [div_le_div_iff₀ hvi hvk]
    have e : (s i : Rat) - 1 + 1 - q = (s i : Rat) - q := by ring
    rw [e] at this
    nlinarith

end VL.Biprop
