/-
  Dictionaries as finitely supported functions: `toFun`, `addTo`, weighted sums over profiles,
  the merged normal form.  Helper lemmas for C13 (namespace VL.Convert).
-/
import VotelibModel.Convert
import Mathlib.Algebra.BigOperators.Group.List.Basic
import Mathlib.Data.List.Dedup
import Mathlib.Algebra.Order.Ring.Rat
import Mathlib.Tactic.Ring
import Mathlib.Tactic.Linarith
namespace VL.Convert
open VL

variable {κ β : Type} [DecidableEq κ]

/-- the dict read as a function: the sum of the entries stored under `k` (for a dict with distinct keys,
    `d.get(k, 0)`) -/
def toFun (d : Dict κ) (k : κ) : Rat := (d.map (fun e => if e.1 = k then e.2 else 0)).sum

/-- keys in insertion order -/
def dkeys {ν : Type} (d : List (κ × ν)) : List κ := d.map (·.1)

/-- `sum(d.values())` -/
def total (d : Dict κ) : Rat := (d.map (·.2)).sum

/-- `Σ_{(b, w) ∈ p} w * f b` -/
def wsum (p : Dict β) (f : β → Rat) : Rat := (p.map (fun bw => bw.2 * f bw.1)).sum

@[simp] theorem toFun_nil (k : κ) : toFun ([] : Dict κ) k = 0 := rfl
theorem toFun_cons (e : κ × Rat) (d : Dict κ) (k : κ) :
    toFun (e :: d) k = (if e.1 = k then e.2 else 0) + toFun d k := by
  simp [toFun]
theorem toFun_append (d₁ d₂ : Dict κ) (k : κ) : toFun (d₁ ++ d₂) k = toFun d₁ k + toFun d₂ k := by
  simp [toFun]
theorem toFun_perm {d₁ d₂ : Dict κ} (h : d₁.Perm d₂) (k : κ) : toFun d₁ k = toFun d₂ k :=
  (h.map _).sum_eq

@[simp] theorem wsum_nil (f : β → Rat) : wsum ([] : Dict β) f = 0 := rfl
theorem wsum_cons (bw : β × Rat) (p : Dict β) (f : β → Rat) : wsum (bw :: p) f = bw.2 * f bw.1 + wsum p f := by
  simp [wsum]
theorem wsum_append (p₁ p₂ : Dict β) (f : β → Rat) : wsum (p₁ ++ p₂) f = wsum p₁ f + wsum p₂ f := by
  simp [wsum]
theorem wsum_perm {p₁ p₂ : Dict β} (h : p₁.Perm p₂) (f : β → Rat) : wsum p₁ f = wsum p₂ f :=
  (h.map _).sum_eq
theorem wsum_congr {p : Dict β} {f g : β → Rat} (h : ∀ bw ∈ p, f bw.1 = g bw.1) : wsum p f = wsum p g := by
  induction p with
  | nil => rfl
  | cons a t ih =>
    rw [wsum_cons, wsum_cons, h a (by simp), ih (fun bw hbw => h bw (by simp [hbw]))]
theorem wsum_add (p : Dict β) (f g : β → Rat) : wsum p (fun b => f b + g b) = wsum p f + wsum p g := by
  induction p with
  | nil => simp
  | cons a t ih => rw [wsum_cons, wsum_cons, wsum_cons, ih]; ring
theorem wsum_mul_left (p : Dict β) (c : Rat) (f : β → Rat) : wsum p (fun b => c * f b) = c * wsum p f := by
  induction p with
  | nil => simp
  | cons a t ih => rw [wsum_cons, wsum_cons, ih]; ring
theorem wsum_zero (p : Dict β) : wsum p (fun _ => 0) = 0 := by
  induction p with
  | nil => simp
  | cons a t ih => rw [wsum_cons, ih]; ring
theorem wsum_le_wsum {p : Dict β} {f g : β → Rat} (hw : ∀ bw ∈ p, 0 ≤ bw.2)
    (h : ∀ bw ∈ p, f bw.1 ≤ g bw.1) : wsum p f ≤ wsum p g := by
  induction p with
  | nil => simp
  | cons a t ih =>
    rw [wsum_cons, wsum_cons]
    have h1 := mul_le_mul_of_nonneg_left (h a (by simp)) (hw a (by simp))
    have h2 := ih (fun bw hbw => hw bw (by simp [hbw])) (fun bw hbw => h bw (by simp [hbw]))
    linarith
/-- `wsum p 1` is the total weight of the profile -/
theorem wsum_one (p : Dict β) : wsum p (fun _ => 1) = total p := by
  induction p with
  | nil => rfl
  | cons a t ih => rw [wsum_cons, ih]; simp [total]

/-! ### addTo -/

theorem toFun_addTo (d : Dict κ) (k : κ) (v : Rat) (x : κ) :
    toFun (addTo d k v) x = toFun d x + (if k = x then v else 0) := by
  induction d with
  | nil => simp [addTo, toFun_cons]
  | cons e t ih =>
    obtain ⟨k', v'⟩ := e
    unfold addTo
    by_cases h : k' = k
    · subst h
      rw [if_pos rfl, toFun_cons, toFun_cons]
      by_cases hx : k' = x
      · simp [hx]; ring
      · simp [hx]
    · rw [if_neg h, toFun_cons, toFun_cons, ih]; ring

theorem total_addTo (d : Dict κ) (k : κ) (v : Rat) : total (addTo d k v) = total d + v := by
  induction d with
  | nil => simp [addTo, total]
  | cons e t ih =>
    obtain ⟨k', v'⟩ := e
    unfold addTo
    by_cases h : k' = k
    · rw [if_pos h]; simp [total]; ring
    · rw [if_neg h]
      have : total ((k', v') :: addTo t k v) = v' + total (addTo t k v) := by simp [total]
      rw [this, ih]; simp [total]; ring

theorem dkeys_addTo (d : Dict κ) (k : κ) (v : Rat) :
    dkeys (addTo d k v) = if k ∈ dkeys d then dkeys d else dkeys d ++ [k] := by
  induction d with
  | nil => simp [addTo, dkeys]
  | cons e t ih =>
    obtain ⟨k', v'⟩ := e
    unfold addTo
    by_cases h : k' = k
    · subst h; simp [dkeys]
    · rw [if_neg h]
      have h' : ¬ k = k' := fun e => h e.symm
      simp only [dkeys, List.map_cons, List.mem_cons, h', false_or] at ih ⊢
      rw [ih]; split <;> rename_i hh <;> simp [hh]

theorem mem_dkeys_addTo (d : Dict κ) (k : κ) (v : Rat) (x : κ) :
    x ∈ dkeys (addTo d k v) ↔ x ∈ dkeys d ∨ x = k := by
  rw [dkeys_addTo]
  split
  · constructor
    · exact Or.inl
    · rintro (h | h)
      · exact h
      · subst h; assumption
  · simp

theorem nodup_dkeys_addTo {d : Dict κ} (h : (dkeys d).Nodup) (k : κ) (v : Rat) : (dkeys (addTo d k v)).Nodup := by
  rw [dkeys_addTo]
  split
  · exact h
  · rename_i hk
    rw [List.nodup_append]
    exact ⟨h, by simp, by intro a ha b hb; simp at hb; subst hb; intro e; subst e; exact hk ha⟩

/-- for a genuine dict (distinct keys) `toFun` is the stored value -/
theorem toFun_eq_of_mem {d : Dict κ} (h : (dkeys d).Nodup) {k : κ} {v : Rat} (hm : (k, v) ∈ d) : toFun d k = v := by
  induction d with
  | nil => simp at hm
  | cons e t ih =>
    rw [toFun_cons]
    simp only [dkeys, List.map_cons, List.nodup_cons] at h
    rcases List.mem_cons.1 hm with he | ht
    · subst he
      have : toFun t k = 0 := by
        unfold toFun
        apply List.sum_eq_zero
        intro x hx
        simp only [List.mem_map] at hx
        obtain ⟨e, he, rfl⟩ := hx
        have : e.1 ≠ k := by
          intro e'; apply h.1; subst e'; exact List.mem_map.2 ⟨e, he, rfl⟩
        simp [this]
      simp [this]
    · have hne : e.1 ≠ k := by
        intro e'; apply h.1; subst e'; exact List.mem_map.2 ⟨(e.1, v), ht, rfl⟩
      simp only [hne, if_false, zero_add]
      exact ih h.2 ht

theorem toFun_eq_zero_of_not_mem {d : Dict κ} {k : κ} (h : k ∉ dkeys d) : toFun d k = 0 := by
  unfold toFun
  apply List.sum_eq_zero
  intro x hx
  simp only [List.mem_map] at hx
  obtain ⟨e, he, rfl⟩ := hx
  have : e.1 ≠ k := by
    intro e'; apply h; subst e'; exact List.mem_map.2 ⟨e, he, rfl⟩
  simp [this]

/-! ### accumulating folds -/

/-- adding a list of (key, amount) emissions one by one adds their sum -/
theorem toFun_foldl_addTo (es : Dict κ) (d : Dict κ) (x : κ) :
    toFun (es.foldl (fun acc e => addTo acc e.1 e.2) d) x = toFun d x + toFun es x := by
  induction es generalizing d with
  | nil => simp
  | cons e t ih => rw [List.foldl_cons, ih, toFun_addTo, toFun_cons]; ring

theorem total_foldl_addTo (es : Dict κ) (d : Dict κ) :
    total (es.foldl (fun acc e => addTo acc e.1 e.2) d) = total d + total es := by
  induction es generalizing d with
  | nil => simp [total]
  | cons e t ih => rw [List.foldl_cons, ih, total_addTo]; simp [total]; ring

theorem nodup_foldl_addTo (es : Dict κ) {d : Dict κ} (h : (dkeys d).Nodup) :
    (dkeys (es.foldl (fun acc e => addTo acc e.1 e.2) d)).Nodup := by
  induction es generalizing d with
  | nil => exact h
  | cons e t ih => exact ih (nodup_dkeys_addTo h _ _)

theorem mem_dkeys_foldl_addTo (es : Dict κ) (d : Dict κ) (x : κ) :
    x ∈ dkeys (es.foldl (fun acc e => addTo acc e.1 e.2) d) ↔ x ∈ dkeys d ∨ x ∈ dkeys es := by
  induction es generalizing d with
  | nil => simp [dkeys]
  | cons e t ih =>
    rw [List.foldl_cons, ih, mem_dkeys_addTo]
    simp only [dkeys, List.map_cons, List.mem_cons]
    tauto

/-- a profile-level fold whose step adds `w • img b` computes `acc + Σ w • img b` -/
theorem toFun_foldl_step (step : Dict κ → β × Rat → Dict κ) (img : β → κ → Rat)
    (h : ∀ acc bw k, toFun (step acc bw) k = toFun acc k + bw.2 * img bw.1 k)
    (p : Dict β) (acc : Dict κ) (k : κ) :
    toFun (p.foldl step acc) k = toFun acc k + wsum p (fun b => img b k) := by
  induction p generalizing acc with
  | nil => simp
  | cons bw t ih => rw [List.foldl_cons, ih, h, wsum_cons]; ring

omit [DecidableEq κ] in
theorem total_foldl_step (step : Dict κ → β × Rat → Dict κ) (size : β → Rat)
    (h : ∀ acc bw, total (step acc bw) = total acc + bw.2 * size bw.1)
    (p : Dict β) (acc : Dict κ) :
    total (p.foldl step acc) = total acc + wsum p size := by
  induction p generalizing acc with
  | nil => simp
  | cons bw t ih => rw [List.foldl_cons, ih, h, wsum_cons]; ring

omit [DecidableEq κ] in
theorem nodup_foldl_step (step : Dict κ → β × Rat → Dict κ)
    (h : ∀ acc bw, (dkeys acc).Nodup → (dkeys (step acc bw)).Nodup)
    (p : Dict β) {acc : Dict κ} (hacc : (dkeys acc).Nodup) : (dkeys (p.foldl step acc)).Nodup := by
  induction p generalizing acc with
  | nil => exact hacc
  | cons bw t ih => exact ih (h _ _ hacc)

/-! ### the merged normal form (a Python dict) -/

omit [DecidableEq κ] in
theorem mergeDict_eq [DecidableEq β] (p : Dict β) : mergeDict p = p.foldl (fun acc e => addTo acc e.1 e.2) [] := rfl

/-- merging equal ballots does not change any weighted sum -/
theorem wsum_addTo [DecidableEq β] (d : Dict β) (b : β) (v : Rat) (f : β → Rat) :
    wsum (addTo d b v) f = wsum d f + v * f b := by
  induction d with
  | nil => simp [addTo, wsum_cons]
  | cons e t ih =>
    obtain ⟨k', v'⟩ := e
    unfold addTo
    by_cases h : k' = b
    · subst h; rw [if_pos rfl, wsum_cons, wsum_cons]; ring
    · rw [if_neg h, wsum_cons, wsum_cons, ih]; ring

theorem wsum_mergeDict [DecidableEq β] (p : Dict β) (f : β → Rat) : wsum (mergeDict p) f = wsum p f := by
  have : ∀ (d : Dict β), wsum (p.foldl (fun acc e => addTo acc e.1 e.2) d) f = wsum d f + wsum p f := by
    induction p with
    | nil => intro d; simp
    | cons e t ih => intro d; rw [List.foldl_cons, ih, wsum_addTo, wsum_cons]; ring
  rw [mergeDict_eq, this]; simp

theorem nodup_mergeDict [DecidableEq β] (p : Dict β) : (dkeys (mergeDict p)).Nodup :=
  nodup_foldl_addTo p (by simp [dkeys])

theorem toFun_mergeDict [DecidableEq β] (p : Dict β) (b : β) : toFun (mergeDict p) b = toFun p b := by
  rw [mergeDict_eq, toFun_foldl_addTo]; simp

theorem mem_dkeys_mergeDict [DecidableEq β] (p : Dict β) (b : β) : b ∈ dkeys (mergeDict p) ↔ b ∈ dkeys p := by
  rw [mergeDict_eq, mem_dkeys_foldl_addTo]; simp [dkeys]

/-- a weighted sum only depends on the profile as a function, provided the keys are listed:
    `Σ_{(b,w) ∈ p} w f(b) = Σ_{b ∈ K} p(b) f(b)` for any duplicate-free `K ⊇ keys p` -/
theorem wsum_eq_sum_keys [DecidableEq β] (p : Dict β) (f : β → Rat) (K : List β) (hK : K.Nodup)
    (hsub : ∀ b ∈ dkeys p, b ∈ K) : wsum p f = (K.map (fun b => toFun p b * f b)).sum := by
  induction p with
  | nil => simp
  | cons e t ih =>
    rw [wsum_cons, ih (fun b hb => hsub b (by simp [dkeys] at hb ⊢; exact Or.inr hb))]
    have hmem : e.1 ∈ K := hsub e.1 (by simp [dkeys])
    have hsplit : (K.map (fun b => toFun (e :: t) b * f b)).sum
        = (K.map (fun b => (if e.1 = b then e.2 else 0) * f b)).sum + (K.map (fun b => toFun t b * f b)).sum := by
      rw [← List.sum_map_add]
      congr 1
      apply List.map_congr_left
      intro b _
      rw [toFun_cons]; ring
    rw [hsplit]
    congr 1
    -- the indicator sum picks exactly `e.1`
    clear ih hsplit hsub
    induction K with
    | nil => simp at hmem
    | cons a K ih =>
      simp only [List.map_cons, List.sum_cons]
      rw [List.nodup_cons] at hK
      rcases List.mem_cons.1 hmem with h | h
      · subst h
        have hz : (K.map (fun b => (if e.1 = b then e.2 else 0) * f b)).sum = 0 := by
          apply List.sum_eq_zero
          intro x hx
          simp only [List.mem_map] at hx
          obtain ⟨b, hb, rfl⟩ := hx
          have : e.1 ≠ b := fun h => hK.1 (h ▸ hb)
          simp [this]
        rw [hz]; simp
      · have : e.1 ≠ a := fun h' => hK.1 (h' ▸ h)
        rw [← ih hK.2 h]; simp [this]

/-- two profiles that are equal as functions have equal weighted sums -/
theorem wsum_congr_toFun [DecidableEq β] {p q : Dict β} (h : ∀ b, toFun p b = toFun q b) (f : β → Rat) :
    wsum p f = wsum q f := by
  let K := (dkeys p ++ dkeys q).dedup
  have hK : K.Nodup := List.nodup_dedup _
  rw [wsum_eq_sum_keys p f K hK (fun b hb => by simp [K, hb]),
    wsum_eq_sum_keys q f K hK (fun b hb => by simp [K, hb])]
  apply congrArg
  apply List.map_congr_left
  intro b _
  rw [h]

end VL.Convert
