/-
  Helper lemmas for C12 (majority judgment): where the slots of a selection come from.
-/
import VotelibProofs.Lemmas.C12Score
import VotelibProofs.Lemmas.NBest
import VotelibProofs.Props.C09
import VotelibProofs.Lemmas.C12Approval
namespace VL.Score
open VL VL.Appr

/-- every candidate named by the slot (individually or inside a tie object) is one of `ks` -/
def SlotIn (ks : List Cand) : Slot → Prop
  | Slot.cand c => c ∈ ks
  | Slot.tie T => ∀ c ∈ T, c ∈ ks

theorem SlotIn.mono {ks ks' : List Cand} (h : ∀ c ∈ ks, c ∈ ks') {s : Slot} (hs : SlotIn ks s) : SlotIn ks' s := by
  cases s with
  | cand c => exact h c hs
  | tie T => exact fun c hc => h c (hs c hc)

/-- `get_n_best` only names candidates of the table -/
theorem getNBest_slotIn (v : Votes) (n : Nat) : ∀ s ∈ getNBest v n, SlotIn (keys v) s := by
  intro s hs
  have hkeys : ∀ p ∈ sortDesc v, p.1 ∈ keys v := fun p hp => List.mem_map.mpr ⟨p, mem_sortDesc.mp hp, rfl⟩
  unfold getNBest at hs
  simp only at hs
  split at hs
  · split at hs
    · split at hs
      · rcases List.mem_append.mp hs with h | h
        · obtain ⟨p, hp, rfl⟩ := List.mem_map.mp h
          exact hkeys p (List.mem_of_mem_take hp)
        · have := (List.mem_replicate.mp h).2
          subst this
          intro c hc
          obtain ⟨p, hp, rfl⟩ := List.mem_map.mp hc
          exact hkeys p (List.mem_filter.mp hp).1
      · obtain ⟨p, hp, rfl⟩ := List.mem_map.mp hs
        exact hkeys p (List.mem_of_mem_take hp)
    · cases hs
  · obtain ⟨p, hp, rfl⟩ := List.mem_map.mp hs
    exact hkeys p hp

theorem aggregate_keys {fn : Agg} {t : ScoreTable} {agg : Votes} (h : aggregate fn t = .ok agg) :
    keys agg = t.map (·.1) := by
  unfold aggregate at h
  induction t generalizing agg with
  | nil => simp only [List.mapM_nil] at h; injection h with h; subst h; rfl
  | cons p ps ih =>
    rw [List.mapM_cons] at h
    cases hv : aggregateOne fn p.2 with
    | error e => rw [hv] at h; cases h
    | ok v =>
      rw [hv] at h
      cases hr : ps.mapM (fun p => do let v ← aggregateOne fn p.2; pure (p.1, v)) with
      | error e => rw [hr] at h; cases h
      | ok r =>
        rw [hr] at h
        injection h with h
        subst h
        simp only [keys, List.map_cons]
        congr 1
        exact ih hr

theorem slotCands_mem {l : List Slot} {c : Cand} : c ∈ slotCands l ↔ Slot.cand c ∈ l := by
  induction l with
  | nil => simp [slotCands]
  | cons s rest ih =>
    cases s with
    | cand d => simp [slotCands, ih]
    | tie T => simp [slotCands, ih]

/-- the default tie-break only names candidates it was given -/
theorem tiebreakDefault_slotIn : ∀ (fuel : Nat) (scores : ScoreTable) (n : Nat) (r : List Slot),
    tiebreakDefault fuel scores n = .ok r → ∀ s ∈ r, SlotIn (scores.map (·.1)) s := by
  intro fuel
  induction fuel with
  | zero => intro scores n r h; simp [tiebreakDefault] at h
  | succ fuel ih =>
    intro scores n r h
    unfold tiebreakDefault at h
    cases scores with
    | nil => simp at h
    | cons p0 ps =>
      simp only at h
      split at h
      · cases h
      · cases hm : aggregate .medianLow (p0 :: ps) with
        | error e => rw [hm] at h; cases h
        | ok medians =>
          rw [hm] at h
          have hk := aggregate_keys hm
          have hbest := getNBest_slotIn medians n
          rw [hk] at hbest
          simp only [bind, Except.bind] at h
          split at h
          · injection h with h; subst h; exact hbest
          · rename_i i hi
            cases hrec : tiebreakDefault fuel
                (List.filter (fun p => !(slotCands (List.take (i + 1) (getNBest medians n))).contains p.1) (p0 :: ps))
                (n - (i + 1)) with
            | error e => rw [hrec] at h; cases h
            | ok rest =>
              rw [hrec] at h
              injection h with h
              subst h
              intro s hs
              rcases List.mem_append.mp hs with hs | hs
              · exact hbest s (List.mem_of_mem_take hs)
              · have := ih _ _ _ hrec s hs
                refine SlotIn.mono ?_ this
                intro c hc
                obtain ⟨p, hp, rfl⟩ := List.mem_map.mp hc
                exact List.mem_map.mpr ⟨p, (List.mem_filter.mp hp).1, rfl⟩
          · have := ih _ _ _ h
            intro s hs
            refine SlotIn.mono ?_ (this s hs)
            intro c hc
            simpa [List.map_map, Function.comp_def] using hc

theorem tiebreakPlus_slotIn (scores : ScoreTable) (n : Nat) (r : List Slot)
    (h : tiebreakPlus scores n = .ok r) : ∀ s ∈ r, SlotIn (scores.map (·.1)) s := by
  unfold tiebreakPlus at h
  cases scores with
  | nil => cases h
  | cons p ps =>
    simp only at h
    cases hm : aggregateOne .medianLow p.2 with
    | error e => rw [hm] at h; cases h
    | ok m =>
      rw [hm] at h
      injection h with h
      subst h
      have := getNBest_slotIn ((p :: ps).map (fun q => (q.1, ((countGe q.2 m : Int) : Rat)))) n
      simpa [keys, List.map_map, Function.comp_def] using this

open VL.C09

theorem count_tie_map_cand (l : Votes) (T : List Cand) : (l.map (fun p => Slot.cand p.1)).count (Slot.tie T) = 0 := by
  rw [List.count_eq_zero]
  intro h
  obtain ⟨p, _, hp⟩ := List.mem_map.mp h
  cases hp

/-- structure of the first stage of majority judgment when the last place is a tie object -/
theorem mj_tie_structure (agg : Votes) (n : Nat) (h1 : 1 ≤ n) (T : List Cand)
    (hlast : (getNBest agg n).getLast? = some (Slot.tie T)) :
    ∃ τ, IsNth agg n τ ∧ n < agg.length ∧ T = level agg τ ∧
      (getNBest agg n).take ((getNBest agg n).length - (getNBest agg n).count (Slot.tie T))
        = (aboveSorted agg τ).map (fun p => Slot.cand p.1) := by
  have hmem : Slot.tie T ∈ getNBest agg n := List.mem_of_getLast? hlast
  have hlen : n < agg.length := by
    by_contra hge
    rw [getNBest_all agg n (by omega)] at hmem
    obtain ⟨p, _, hp⟩ := List.mem_map.mp hmem
    cases hp
  obtain ⟨τ, hτ⟩ := nth_exists agg n h1 (le_of_lt hlen)
  have hno : n < cntGe agg τ := by
    by_contra hfit
    rw [getNBest_fits agg n h1 hlen τ hτ (by omega)] at hmem
    rcases List.mem_append.mp hmem with h | h
    · obtain ⟨p, _, hp⟩ := List.mem_map.mp h; cases hp
    · obtain ⟨p, _, hp⟩ := List.mem_map.mp h; cases hp
  have hform := getNBest_tie agg n h1 hlen τ hτ hno
  have hT : T = level agg τ := by
    rw [hform] at hmem
    rcases List.mem_append.mp hmem with h | h
    · obtain ⟨p, _, hp⟩ := List.mem_map.mp h; cases hp
    · have := (List.mem_replicate.mp h).2
      injection this
  refine ⟨τ, hτ, hlen, hT, ?_⟩
  rw [hform, hT, List.count_append, count_tie_map_cand, List.count_replicate_self, List.length_append,
    List.length_replicate, Nat.zero_add, Nat.add_sub_cancel, List.take_left']
  rfl

end VL.Score
