/-
  Tie entries of a highest-averages result: a Tie is determined by its members (sorted representation).
-/
import VotelibProofs.Lemmas.OverhangContTie
import Mathlib.Data.List.Sort
namespace VL.OH
open VL HACfg

theorem insNat_perm (x : Nat) (l : List Nat) : (insNat x l).Perm (x :: l) := by
  induction l with
  | nil => exact List.Perm.refl _
  | cons y ys ih =>
    simp only [insNat]
    split
    · exact List.Perm.refl _
    · exact (List.Perm.cons y ih).trans (List.Perm.swap x y ys)

theorem sortNat_perm (l : List Nat) : (sortNat l).Perm l := by
  induction l with
  | nil => exact List.Perm.refl _
  | cons x xs ih => exact (insNat_perm x (sortNat xs)).trans (List.Perm.cons x ih)

theorem insNat_sorted (x : Nat) (l : List Nat) (h : l.Pairwise (· ≤ ·)) : (insNat x l).Pairwise (· ≤ ·) := by
  induction l with
  | nil => simp [insNat]
  | cons y ys ih =>
    simp only [insNat]
    rw [List.pairwise_cons] at h
    split
    · rename_i hxy
      rw [List.pairwise_cons]
      refine ⟨?_, List.pairwise_cons.mpr h⟩
      intro z hz
      rcases List.mem_cons.mp hz with rfl | hz'
      · exact hxy
      · exact Nat.le_trans hxy (h.1 z hz')
    · rename_i hxy
      rw [List.pairwise_cons]
      refine ⟨?_, ih h.2⟩
      intro z hz
      have := (insNat_perm x ys).mem_iff.mp hz
      rcases List.mem_cons.mp this with rfl | hz'
      · omega
      · exact h.1 z hz'

theorem sortNat_sorted (l : List Nat) : (sortNat l).Pairwise (· ≤ ·) := by
  induction l with
  | nil => simp [sortNat]
  | cons x xs ih => exact insNat_sorted x _ ih

/-- a `Tie` is determined by its members -/
theorem sortNat_eq_of_same_members (a b : List Nat) (ha : a.Nodup) (hb : b.Nodup) (h : ∀ c, c ∈ a ↔ c ∈ b) :
    sortNat a = sortNat b := by
  have hp : a.Perm b := (List.perm_ext_iff_of_nodup ha hb).mpr h
  exact List.Perm.eq_of_pairwise' (r := (· ≤ ·)) (sortNat_sorted a) (sortNat_sorted b)
    ((sortNat_perm a).trans (hp.trans (sortNat_perm b).symm))

theorem distGet_append (a b : Dist) (k : Key) :
    distGet (a ++ b) k = if k ∈ a.map (·.1) then distGet a k else distGet b k := by
  induction a with
  | nil => simp
  | cons x xs ih =>
    rw [List.cons_append, distGet_cons, distGet_cons, ih]
    by_cases hx : x.1 = k
    · simp [hx]
    · have : (k ∈ (x :: xs).map (·.1)) ↔ k ∈ xs.map (·.1) := by
        simp only [List.map_cons, List.mem_cons]
        constructor
        · rintro (h | h)
          · exact absurd h.symm hx
          · exact h
        · exact Or.inr
      simp only [hx, if_false, this]

/-- the `Tie` entries of a (canonicalised) highest-averages result -/
theorem distGet_haResult_tie (cfg : HACfg) (S : List Cand) :
    distGet (normDist (haResult cfg)) (.tie S) =
      match (haRun cfg).tie with
      | some (T, m) => if sortNat T = S then m else 0
      | none => 0 := by
  rw [haResult_split]
  unfold normDist
  rw [List.map_append, distGet_append]
  have hno : Key.tie S ∉ ((haCandPart cfg).map (fun p => (normKey p.1, p.2))).map (·.1) := by
    intro hm
    rw [List.map_map] at hm
    obtain ⟨e, he, hek⟩ := List.mem_map.mp hm
    have : e.1 ∈ (haCandPart cfg).map (·.1) := List.mem_map.mpr ⟨e, he, rfl⟩
    rw [haCandPart_keys] at this
    obtain ⟨c, _, hce⟩ := List.mem_map.mp this
    simp only [Function.comp] at hek
    rw [← hce] at hek
    simp [normKey] at hek
  rw [if_neg hno]
  unfold haTiePart
  cases (haRun cfg).tie with
  | none => rfl
  | some Tm =>
    obtain ⟨T, m⟩ := Tm
    simp only
    by_cases hm : m > 0
    · rw [if_pos hm]
      simp only [List.map_cons, List.map_nil, normKey, distGet_cons]
      by_cases hs : sortNat T = S
      · simp [hs]
      · have : ¬ Key.tie (sortNat T) = Key.tie S := fun e => hs (by injection e)
        simp [hs, this, distGet]
    · rw [if_neg hm]
      have : m = 0 := by omega
      subst this
      simp [distGet]

end VL.OH
