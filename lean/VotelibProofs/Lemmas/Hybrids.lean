/-
  Tideman alternative stays inside the Smith set of the profile: after the first Smith-set restriction
  every later candidate is a member of it, whatever the eliminations do.
-/
import VotelibProofs.Lemmas.LockPairs
namespace VL.Condorcet
open VL

theorem smithSchwartz_sub_candidates {v : Pairwise} {t : Bool} {c : Cand} (h : c ∈ smithSchwartz v t) :
    c ∈ candidates v := by
  unfold smithSchwartz at h
  simp only at h
  split at h
  · exact (ordering_perm v _).mem_iff.1 (List.mem_filter.1 h).1
  · exact (ordering_perm v _).mem_iff.1 (List.mem_filter.1 h).1

theorem mem_allRanked {p : Profile} {c : Cand} (h : c ∈ allRankedCandidates p) :
    ∃ b ∈ p, c ∈ b.1.flatMap itemCands := by
  unfold allRankedCandidates at h
  simp only [mem_uniq, List.mem_flatMap, List.mem_range] at h
  obtain ⟨i, _, b, hb, hc⟩ := h
  refine ⟨b, hb, ?_⟩
  cases hget : b.1[i]? with
  | none => rw [hget] at hc; simp at hc
  | some it =>
    rw [hget] at hc
    exact List.mem_flatMap.2 ⟨it, List.mem_of_getElem? hget, hc⟩

theorem mem_subsetBallot {T : List Cand} {b : Ballot} {c : Cand} (h : c ∈ (subsetBallot T b).flatMap itemCands) :
    c ∈ T ∧ c ∈ b.flatMap itemCands := by
  induction b with
  | nil => simp [subsetBallot] at h
  | cons it rest ih =>
    cases it with
    | one d =>
      unfold subsetBallot at h
      split at h
      · rename_i hd
        simp only [List.flatMap_cons, List.mem_append, itemCands, List.mem_singleton] at h ⊢
        rcases h with rfl | h
        · exact ⟨List.contains_iff_mem.1 hd, Or.inl rfl⟩
        · exact ⟨(ih h).1, Or.inr (ih h).2⟩
      · simp only [List.flatMap_cons, List.mem_append]
        exact ⟨(ih h).1, Or.inr (ih h).2⟩
    | shared cs =>
      unfold subsetBallot at h
      have hsub : ∀ x ∈ cs.filter (fun c => T.contains c), x ∈ T ∧ x ∈ cs := by
        intro x hx
        obtain ⟨h1, h2⟩ := List.mem_filter.1 hx
        exact ⟨List.contains_iff_mem.1 h2, h1⟩
      split at h
      · simp only [List.flatMap_cons, List.mem_append]
        exact ⟨(ih h).1, Or.inr (ih h).2⟩
      · rename_i x hx
        simp only [List.flatMap_cons, List.mem_append, itemCands, List.mem_singleton] at h ⊢
        rcases h with rfl | h
        · have := hsub c (by rw [hx]; simp)
          exact ⟨this.1, Or.inl this.2⟩
        · exact ⟨(ih h).1, Or.inr (ih h).2⟩
      · rename_i sub _ _
        simp only [List.flatMap_cons, List.mem_append, itemCands] at h ⊢
        rcases h with h | h
        · have := hsub c h
          exact ⟨this.1, Or.inl this.2⟩
        · exact ⟨(ih h).1, Or.inr (ih h).2⟩

theorem mem_badd {acc : Profile} {b : Ballot} {x : Rat} {e : Ballot × Rat} (h : e ∈ badd acc b x) :
    e.1 = b ∨ ∃ e' ∈ acc, e'.1 = e.1 := by
  induction acc with
  | nil => simp only [badd, List.mem_singleton] at h; left; rw [h]
  | cons a rest ih =>
    obtain ⟨q, y⟩ := a
    unfold badd at h
    split at h
    · rename_i hq
      rcases List.mem_cons.1 h with rfl | h'
      · exact Or.inl hq
      · exact Or.inr ⟨e, List.mem_cons_of_mem _ h', rfl⟩
    · rcases List.mem_cons.1 h with rfl | h'
      · exact Or.inr ⟨(q, y), by simp, rfl⟩
      · rcases ih h' with h1 | ⟨e', he', h1⟩
        · exact Or.inl h1
        · exact Or.inr ⟨e', List.mem_cons_of_mem _ he', h1⟩

theorem mem_subsetProfile {p : Profile} {T : List Cand} {e : Ballot × Rat} (h : e ∈ subsetProfile p T) :
    ∃ b ∈ p, e.1 = subsetBallot T b.1 := by
  unfold subsetProfile at h
  have key : ∀ (l : Profile) (acc : Profile), (∀ e ∈ l, e ∈ p) →
      ∀ e, e ∈ l.foldl (fun acc b => badd acc (subsetBallot T b.1) b.2) acc →
        (∃ e' ∈ acc, e'.1 = e.1) ∨ ∃ b ∈ p, e.1 = subsetBallot T b.1 := by
    intro l
    induction l with
    | nil => intro acc _ e he; exact Or.inl ⟨e, he, rfl⟩
    | cons b bs ih =>
      intro acc hl e he
      rw [List.foldl_cons] at he
      rcases ih _ (fun e' he' => hl e' (List.mem_cons_of_mem _ he')) e he with ⟨e', he', h1⟩ | h1
      · rcases mem_badd he' with h2 | ⟨e'', he'', h2⟩
        · exact Or.inr ⟨b, hl b (by simp), by rw [← h1, h2]⟩
        · exact Or.inl ⟨e'', he'', by rw [h2, h1]⟩
      · exact Or.inr h1
  rcases key p [] (fun _ h => h) e h with ⟨_, h1, _⟩ | h1
  · simp at h1
  · exact h1

/-- subsetting keeps only candidates of the subset, and only candidates ranked before -/
theorem allRanked_subsetProfile {p : Profile} {T : List Cand} {c : Cand}
    (h : c ∈ allRankedCandidates (subsetProfile p T)) : c ∈ T ∧ c ∈ allRankedCandidates p := by
  obtain ⟨e, he, hc⟩ := mem_allRanked h
  obtain ⟨b, hb, heq⟩ := mem_subsetProfile he
  rw [heq] at hc
  have := mem_subsetBallot hc
  exact ⟨this.1, item_mem_allRanked hb this.2⟩

theorem keys_firstPrefTotals (p : Profile) : keys (firstPrefTotals p) = allRankedCandidates p := by
  simp [firstPrefTotals, keys, List.map_map, Function.comp_def]

theorem eliminateOneRaw_members {p : Profile} {rem : List Slot} (h : eliminateOneRaw p = .ok rem) :
    ∀ s ∈ rem, ∀ c ∈ slotMembers s, c ∈ allRankedCandidates p := by
  unfold eliminateOneRaw at h
  simp only at h
  split at h
  · simp at h
  · simp only [Except.ok.injEq] at h; subst h; simp
  · simp only [Except.ok.injEq] at h
    subst h
    intro s hs c hc
    have := getNBest_members_keys _ _ s hs c hc
    rwa [keys_firstPrefTotals] at this

/-- what `eliminate_one` answers: the raw selection, without a tie unless it is the single place left -/
theorem eliminateOne_spec {p : Profile} {rem : List Slot} (h : eliminateOne p = .ok rem) :
    eliminateOneRaw p = .ok rem ∧ (rem.length ≤ 1 ∨ rem.any isTie = false) := by
  unfold eliminateOne at h
  split at h
  · simp at h
  · rename_i remaining hraw
    split at h
    · simp at h
    · rename_i hc
      simp only [Except.ok.injEq] at h
      subst h
      refine ⟨hraw, ?_⟩
      simp only [Bool.and_eq_true, decide_eq_true_eq, not_and, Bool.not_eq_true] at hc
      by_cases hl : remaining.length > 1
      · exact Or.inr (hc hl)
      · exact Or.inl (by omega)

theorem eliminateOne_members {p : Profile} {rem : List Slot} (h : eliminateOne p = .ok rem) :
    ∀ s ∈ rem, ∀ c ∈ slotMembers s, c ∈ allRankedCandidates p :=
  eliminateOneRaw_members (eliminateOne_spec h).1

theorem slotCands_sub {rem : List Slot} {c : Cand} (h : c ∈ slotCands rem) : ∃ s ∈ rem, c ∈ slotMembers s := by
  unfold slotCands at h
  obtain ⟨s, hs, hc⟩ := List.mem_filterMap.1 h
  cases s with
  | cand d => simp only [Option.some.injEq] at hc; subst hc; exact ⟨_, hs, by simp [slotMembers]⟩
  | tie _ => simp at hc

/-- every answer of a Tideman tier is a member of the Smith set of the original profile (which is not empty: there
    is some pairwise contest) -/
theorem tidemanTier_in_smith (votes : Profile) (hne : smithSchwartz (rankedToCondorcet votes) true ≠ []) :
    ∀ (f : Nat) (rv : Profile),
      (rv = votes ∨ ∀ c ∈ allRankedCandidates rv, c ∈ smithSet (rankedToCondorcet votes)) →
      ∀ c, tidemanTier true f rv = .ok (Slot.cand c) → c ∈ smithSet (rankedToCondorcet votes) := by
  intro f
  induction f with
  | zero => intro rv _ c h; simp [tidemanTier] at h
  | succ f ih =>
    intro rv hinv c h
    unfold tidemanTier at h
    split at h
    · simp at h
    · simp only at h
      generalize hs : (if (smithSchwartz (rankedToCondorcet rv) true).isEmpty = true then allRankedCandidates rv
        else smithSchwartz (rankedToCondorcet rv) true) = sset at h
      have hsset : ∀ x ∈ sset, x ∈ smithSet (rankedToCondorcet votes) := by
        intro x hx
        rw [← hs] at hx
        rcases hinv with rfl | hinv
        · have : (smithSchwartz (rankedToCondorcet rv) true).isEmpty = false := by
            cases hcase : smithSchwartz (rankedToCondorcet rv) true with
            | nil => exact absurd hcase hne
            | cons _ _ => rfl
          rw [this] at hx
          exact hx
        · split at hx
          · exact hinv x hx
          · exact hinv x (candidates_rankedToCondorcet_sub rv (smithSchwartz_sub_candidates hx))
      split at h
      · rename_i c' hc'
        simp only [Except.ok.injEq, Slot.cand.injEq] at h
        subst h
        exact hsset _ (by simp)
      · have hrv2 : ∀ x ∈ allRankedCandidates (subsetProfile rv sset),
            x ∈ smithSet (rankedToCondorcet votes) := fun x hx => hsset x (allRanked_subsetProfile hx).1
        split at h
        · simp at h
        · simp at h
        · rename_i s hel
          simp only [Except.ok.injEq] at h
          subst h
          exact hrv2 c (eliminateOne_members hel (Slot.cand c) (by simp) c (by simp [slotMembers]))
        · rename_i rem _ _ hel
          apply ih _ _ c h
          right
          intro x hx
          exact hrv2 x (allRanked_subsetProfile hx).2

/-- a profile whose pairwise counts have a Condorcet winner ranks at least two candidates -/
theorem not_lone_of_cw {p : Profile} (hwf : WF (rankedToCondorcet p)) {w : Cand} (hw : IsCW (rankedToCondorcet p) w)
    (c : Cand) : allRankedCandidates p ≠ [c] := by
  intro h
  obtain ⟨o, ho, hne⟩ := exists_other hwf hw.1
  have h1 := candidates_rankedToCondorcet_sub p hw.1
  have h2 := candidates_rankedToCondorcet_sub p ho
  rw [h] at h1 h2
  simp only [List.mem_singleton] at h1 h2
  exact hne (h2.trans h1.symm)

theorem benham_of_not_lone {p : Profile} (h : ∀ c, allRankedCandidates p ≠ [c]) : benham p = benhamCore p := by
  unfold benham
  split
  · rename_i c hc; exact absurd hc (h c)
  · rfl

theorem tidemanRunTier_of_not_lone {smith : Bool} {f : Nat} {p : Profile} (h : ∀ c, allRankedCandidates p ≠ [c]) :
    tidemanRunTier smith f p = tidemanTier smith f p := by
  unfold tidemanRunTier
  split
  · rename_i c hc; exact absurd hc (h c)
  · rfl

theorem tideman_of_not_lone {smith : Bool} {p : Profile} (h : ∀ c, allRankedCandidates p ≠ [c]) :
    tideman smith p = tidemanCore smith p := by
  unfold tideman tidemanCore
  rw [tidemanRunTier_of_not_lone h]

theorem benham_lone {p : Profile} {c : Cand} (h : allRankedCandidates p = [c]) : benham p = .ok [Slot.cand c] := by
  unfold benham; rw [h]

theorem tideman_lone {smith : Bool} {p : Profile} {c : Cand} (h : allRankedCandidates p = [c]) :
    tideman smith p = .ok [Slot.cand c] := by
  unfold tideman tidemanRunTier
  rw [h]
  simp

end VL.Condorcet
