/-
  "Rests with the highest-ranked continuing candidate" for arbitrary ballots (shared ranks anywhere): every
  paper rests with a continuing member of the highest rank of its ballot that still has a continuing member, and
  is exhausted only if no rank has one.  Holds for the `ranked_next` that considers the candidates sharing the
  rank of the removed candidate before lower ranks (commit 4eda093).
-/
import VotelibProofs.Lemmas.STVPrefix
namespace VL.STV
open VL

/-- the rank has a member in `cont` -/
def itemLive (cont : List Cand) (it : RankItem) : Bool := (itemCands it).any (fun c => decide (c ∈ cont))

/-- the highest rank of the ballot with a member in `cont` -/
def topItem (b : Ballot) (cont : List Cand) : Option RankItem := b.find? (itemLive cont)

/-- the members of that rank which are in `cont` -/
def topTargets (b : Ballot) (cont : List Cand) : List Cand :=
  match topItem b cont with
  | none => []
  | some it => (itemCands it).filter (fun c => decide (c ∈ cont))

theorem topItem_cons (it : RankItem) (rest : Ballot) (cont : List Cand) :
    topItem (it :: rest) cont = if itemLive cont it then some it else topItem rest cont := by
  simp only [topItem, List.find?_cons]
  cases itemLive cont it <;> simp

theorem topTargets_cons (it : RankItem) (rest : Ballot) (cont : List Cand) :
    topTargets (it :: rest) cont =
      if itemLive cont it then (itemCands it).filter (fun c => decide (c ∈ cont)) else topTargets rest cont := by
  unfold topTargets
  rw [topItem_cons]
  cases itemLive cont it <;> simp

theorem itemLive_one (cont : List Cand) (c : Cand) : itemLive cont (.one c) = decide (c ∈ cont) := by
  simp [itemLive, itemCands]

theorem itemLive_shared (cont : List Cand) (cs : List Cand) :
    itemLive cont (.shared cs) = true ↔ cs.filter (fun c => decide (c ∈ cont)) ≠ [] := by
  simp only [itemLive, itemCands, List.any_eq_true, decide_eq_true_eq, ne_eq, List.filter_eq_nil_iff, not_forall,
    Decidable.not_not]
  constructor
  · rintro ⟨x, h1, h2⟩; exact ⟨x, h1, h2⟩
  · rintro ⟨x, h1, h2⟩; exact ⟨x, h1, h2⟩

theorem itemLive_mono {c0 cont : List Cand} (hsub : ∀ x ∈ cont, x ∈ c0) {it : RankItem}
    (h : itemLive cont it = true) : itemLive c0 it = true := by
  simp only [itemLive, List.any_eq_true, decide_eq_true_eq] at h ⊢
  obtain ⟨x, h1, h2⟩ := h
  exact ⟨x, h1, hsub x h2⟩

/-- scanning with `take_next` set finds the continuing members of the top rank -/
theorem rankedNextGo_true_item (frm : Option Cand) (allowed : List Cand) (b : Ballot) :
    rankedNextGo frm allowed true b = topTargets b allowed := by
  induction b with
  | nil => rfl
  | cons it rest ih =>
    rw [topTargets_cons]
    cases it with
    | one c =>
      simp only [rankedNextGo, if_true, itemLive_one, itemCands]
      by_cases hc : c ∈ allowed
      · simp [hc]
      · simp [hc, ih]
    | shared cs =>
      simp only [rankedNextGo, Bool.true_or, if_true, itemCands]
      by_cases hl : itemLive allowed (.shared cs) = true
      · rw [if_pos ((itemLive_shared _ _).mp hl), if_pos hl]
      · have : ¬ cs.filter (fun c => decide (c ∈ allowed)) ≠ [] := fun h => hl ((itemLive_shared _ _).mpr h)
        rw [if_neg this, if_neg hl, ih]

/-- a paper resting with a member `c` of its top rank goes, when `c` is removed, to the continuing members of
    the new top rank: first the candidates sharing the rank with `c`, then lower ranks -/
theorem rankedNextGo_false_item {c : Cand} {c0 cont : List Cand} (b : Ballot) {it0 : RankItem}
    (htop : topItem b c0 = some it0) (hcit : c ∈ itemCands it0) (hc0 : c ∈ c0)
    (hsub : ∀ x ∈ cont, x ∈ c0) (hc : c ∉ cont) :
    rankedNextGo (some c) cont false b = topTargets b cont := by
  induction b with
  | nil => simp [topItem] at htop
  | cons it rest ih =>
    rw [topItem_cons] at htop
    rw [topTargets_cons]
    by_cases hl0 : itemLive c0 it = true
    · rw [if_pos hl0] at htop
      injection htop with htop
      subst htop
      cases it with
      | one x =>
        simp only [itemCands, List.mem_singleton] at hcit
        subst hcit
        have hnl : itemLive cont (.one c) = false := by rw [itemLive_one]; simpa using hc
        simp only [rankedNextGo, Bool.false_eq_true, if_false, if_true, hnl]
        exact rankedNextGo_true_item _ _ _
      | shared cs =>
        simp only [itemCands] at hcit
        simp only [rankedNextGo, Bool.false_or, hcit, decide_true, if_true, itemCands]
        by_cases hl : itemLive cont (.shared cs) = true
        · rw [if_pos ((itemLive_shared _ _).mp hl), if_pos hl]
        · have : ¬ cs.filter (fun c => decide (c ∈ cont)) ≠ [] := fun h => hl ((itemLive_shared _ _).mpr h)
          rw [if_neg this, if_neg hl]
          exact rankedNextGo_true_item _ _ _
    · rw [if_neg hl0] at htop
      have hnl : ¬ itemLive cont it = true := fun h => hl0 (itemLive_mono hsub h)
      rw [if_neg hnl]
      have hcn : c ∉ itemCands it := by
        intro hin
        apply hl0
        simp only [itemLive, List.any_eq_true, decide_eq_true_eq]
        exact ⟨c, hin, hc0⟩
      cases it with
      | one x =>
        simp only [itemCands, List.mem_singleton] at hcn
        simp only [rankedNextGo, Bool.false_eq_true, if_false]
        rw [if_neg (by intro e; injection e with e; exact hcn e)]
        exact ih htop
      | shared cs =>
        simp only [itemCands] at hcn
        simp only [rankedNextGo, Bool.false_or, hcn, decide_false, Bool.false_eq_true, if_false]
        exact ih htop

/-- a paper whose holder stays keeps its top rank -/
theorem topItem_stay {b : Ballot} {c0 cont : List Cand} (hsub : ∀ x ∈ cont, x ∈ c0) {it0 : RankItem}
    (htop : topItem b c0 = some it0) (hl : itemLive cont it0 = true) : topItem b cont = some it0 := by
  induction b with
  | nil => simp [topItem] at htop
  | cons it rest ih =>
    rw [topItem_cons] at htop ⊢
    by_cases hl0 : itemLive c0 it = true
    · rw [if_pos hl0] at htop
      injection htop with htop
      subst htop
      rw [if_pos hl]
    · rw [if_neg hl0] at htop
      rw [if_neg (fun h => hl0 (itemLive_mono hsub h))]
      exact ih htop

theorem topItem_none_mono {b : Ballot} {c0 cont : List Cand} (hsub : ∀ x ∈ cont, x ∈ c0)
    (htop : topItem b c0 = none) : topItem b cont = none := by
  unfold topItem at *
  rw [List.find?_eq_none] at htop ⊢
  intro x hx hl
  exact htop x hx (itemLive_mono hsub hl)

theorem topItem_congr (b : Ballot) {l l' : List Cand} (h : ∀ x, x ∈ l ↔ x ∈ l') : topItem b l = topItem b l' := by
  unfold topItem
  congr 1
  funext it
  simp only [itemLive]
  congr 1
  funext c
  simp [h c]

theorem mem_topTargets {b : Ballot} {cont : List Cand} {t : Cand} (h : t ∈ topTargets b cont) :
    ∃ it, topItem b cont = some it ∧ t ∈ itemCands it := by
  unfold topTargets at h
  cases hti : topItem b cont with
  | none => rw [hti] at h; cases h
  | some it => rw [hti] at h; exact ⟨it, rfl, (List.mem_filter.mp h).1⟩

theorem topTargets_nil {b : Ballot} {cont : List Cand} (h : topTargets b cont = []) : topItem b cont = none := by
  unfold topTargets at h
  cases hti : topItem b cont with
  | none => rfl
  | some it =>
    rw [hti] at h
    exfalso
    have hl : itemLive cont it = true := by
      have := List.find?_some hti
      exact this
    simp only [itemLive, List.any_eq_true, decide_eq_true_eq] at hl
    obtain ⟨x, h1, h2⟩ := hl
    have : x ∈ (itemCands it).filter (fun c => decide (c ∈ cont)) := List.mem_filter.mpr ⟨h1, by simpa using h2⟩
    simp only at h
    rw [h] at this
    cases this

/-- **every paper rests with a continuing member of the top rank of its ballot**, or is exhausted when no rank
    has a continuing member -/
def RestsItem (a : Alloc) : Prop :=
  ∀ hp ∈ a, ∀ x ∈ hp.2,
    match topItem x.1 (continuing a) with
    | none => hp.1 = none
    | some it => ∃ t, hp.1 = some t ∧ t ∈ itemCands it

theorem RestsItem.of_transfer {cont rs : List Cand} {a a' : Alloc} (hs : TransferSpec cont rs a a')
    (hcont : ∀ t, t ∈ cont ↔ t ∈ continuing a ∧ t ∉ rs) (hk' : ∀ hp ∈ a', ∀ t, hp.1 = some t → t ∈ cont)
    (hr : RestsItem a) : RestsItem a' := by
  intro hp hhp x hx
  have hc' : ∀ u, u ∈ continuing a' ↔ u ∈ cont := by
    intro u; rw [hs.cont_eq, hcont]; simp [List.mem_filter]
  rw [topItem_congr x.1 hc']
  have hsub : ∀ u ∈ cont, u ∈ continuing a := fun u hu => ((hcont u).mp hu).1
  obtain ⟨hp0, hm0, ⟨w, hw⟩, hrel⟩ := hs.entry hp hhp x hx
  have h0 := hr hp0 hm0 (x.1, w) hw
  simp only at h0
  rcases hrel with ⟨h1, h2⟩ | ⟨c, hc, h1, h2⟩
  · -- the paper stayed with its holder
    cases htop : topItem x.1 (continuing a) with
    | none =>
      rw [htop] at h0
      rw [topItem_none_mono hsub htop]
      simp only
      rw [← h1]; exact h0
    | some it0 =>
      rw [htop] at h0
      obtain ⟨t, ht, hti⟩ := h0
      have htc : t ∈ cont := hk' hp hhp t (by rw [← h1]; exact ht)
      have hl : itemLive cont it0 = true := by
        simp only [itemLive, List.any_eq_true, decide_eq_true_eq]; exact ⟨t, hti, htc⟩
      rw [topItem_stay hsub htop hl]
      exact ⟨t, by rw [← h1]; exact ht, hti⟩
  · -- the paper was re-allocated from the removed `c`
    have hcn : c ∉ cont := fun hin => ((hcont c).mp hin).2 hc
    have hc0 : c ∈ continuing a := mem_continuing.mpr (by rw [← h1]; exact List.mem_map_of_mem (f := (·.1)) hm0)
    cases htop : topItem x.1 (continuing a) with
    | none => rw [htop, h1] at h0; cases h0
    | some it0 =>
      rw [htop] at h0
      obtain ⟨t, ht, hti⟩ := h0
      have htc : t = c := by rw [h1] at ht; injection ht with ht; exact ht.symm
      subst htc
      have hrn : rankedNext x.1 (some t) cont = topTargets x.1 cont := by
        simp only [rankedNext, Option.isNone_some]
        exact rankedNextGo_false_item x.1 htop hti hc0 hsub hcn
      rcases h2 with ⟨h3, h4⟩ | ⟨u, h3, h4⟩
      · rw [hrn] at h4
        rw [topTargets_nil h4]
        exact h3
      · rw [hrn] at h4
        obtain ⟨it, hit, hu⟩ := mem_topTargets h4
        rw [hit]
        exact ⟨u, h3, hu⟩

theorem RestsItem.of_subtract {el : List (Cand × Rat)} {a a' : Alloc} (hs : SubSpec el a a') (hr : RestsItem a) :
    RestsItem a' := by
  intro hp hhp x hx
  obtain ⟨hp0, hm0, hk0, w, hw⟩ := hs.entry hp hhp x hx
  have hc : continuing a' = continuing a := by rw [continuing_eq, continuing_eq, hs.keys_eq]
  rw [hc, ← hk0]
  exact hr hp0 hm0 (x.1, w) hw

theorem RestsItem.of_transferIf {E : Engine} (hE : EngineOK E) {a a' : Alloc} {elim : List Cand} {ds ds' : List Draw}
    (h : transferIf E a elim ds = .ok (a', ds')) (hr : RestsItem a) : RestsItem a' := by
  rw [transferIf_eq] at h
  have hs := transfer_spec hE h
  apply RestsItem.of_transfer hs _ _ hr
  · intro t
    simp only [List.mem_filter, decide_eq_true_eq, decide_not, Bool.not_eq_eq_eq_not, Bool.not_true,
      decide_eq_false_iff_not]
    tauto
  · intro hp hhp t ht
    have : t ∈ continuing a' := mem_continuing.mpr (by rw [← ht]; exact List.mem_map_of_mem (f := (·.1)) hhp)
    rw [transfer_continuing hE h] at this
    exact this

theorem restsItem_init {E : Engine} (hE : EngineOK E) {votes : Profile} {ds ds' : List Draw} {a0 : Alloc}
    (h : initialAllocation E votes ds = .ok (a0, ds')) : RestsItem a0 := by
  unfold initialAllocation at h
  have hc : ∀ t ∈ allRanked votes, t ∈ continuing (firstPrefs votes) := by
    intro t ht; rw [continuing_firstPrefs]; exact ht
  have hs := movePile_spec hE hc h
  intro hp hhp x hx
  rw [hs.cont_eq, continuing_firstPrefs]
  rcases hs.entry hp hhp x hx with ⟨hp', hm', hk', hxx'⟩ | ⟨bw, hbw, h3, h4⟩
  · unfold firstPrefs at hm'
    obtain ⟨c, hcm, rfl⟩ := List.mem_map.mp hm'
    have hx2 := (List.mem_filter.mp hxx').2
    unfold firstIs at hx2
    split at hx2
    · rename_i c' more hb
      have hcc : c' = c := by simpa using hx2
      have hl : itemLive (allRanked votes) (.one c') = true := by rw [itemLive_one, hcc]; simpa using hcm
      rw [hb, topItem_cons, if_pos hl]
      exact ⟨c, hk'.symm, by simp [itemCands, hcc]⟩
    · cases hx2
  · -- from the FICTIONAL pile: the whole ballot is scanned with `take_next`
    have hrn : rankedNext bw.1 none (allRanked votes) = topTargets bw.1 (allRanked votes) := by
      simp only [rankedNext, Option.isNone_none]
      exact rankedNextGo_true_item _ _ _
    rw [h3]
    rcases h4 with ⟨h5, h6⟩ | ⟨u, h5, h6⟩
    · rw [hrn] at h6
      rw [topTargets_nil h6]
      exact h5
    · rw [hrn] at h6
      obtain ⟨it, hit, hu⟩ := mem_topTargets h6
      rw [hit]
      exact ⟨u, h5, hu⟩

theorem restsItem_step {E : Engine} (hE : EngineOK E) {cfg : Cfg} {inp : Input} {st st' : St}
    (hr : st.final = false → RestsItem st.alloc) (hfin : st.final = true → sumSeats st.seats = inp.nSeats)
    (h : countStep E cfg inp st = .ok (some st')) : st'.final = false → RestsItem st'.alloc := by
  obtain ⟨hne, out, ds', hnext, _, hadv⟩ := countStep_inv h
  have hf : st.final = false := by
    cases hf : st.final with
    | false => rfl
    | true => exact absurd (hfin hf) hne
  subst hadv
  intro hf'
  obtain ⟨_, hcase⟩ := nextCount_cases hnext
  cases hcase with
  | shortcut hs he =>
    have := (electAll_spec he).2.1
    simp only [advance] at hf'
    rw [this] at hf'; cases hf'
  | election qv hq hpos el hel hne' hout =>
    obtain ⟨a1, ds1, hsub, htr, _, _, _⟩ := afterElection_inv hout
    exact RestsItem.of_transferIf hE htr (RestsItem.of_subtract (subtract_spec hE hsub) (hr hf))
  | elimination _ hout =>
    obtain ⟨_, _, _, htr, _, _⟩ := afterElimination_inv hout
    exact RestsItem.of_transferIf hE htr (hr hf)

theorem reach_restsItem {E : Engine} (hE : EngineOK E) {cfg : Cfg} {inp : Input} {ds0 : List Draw} {st : St}
    (hr : Reach E cfg inp ds0 st) : st.final = false → RestsItem st.alloc := by
  induction hr with
  | init h =>
    intro _
    unfold initState at h
    split at h
    · cases h
    · rename_i a ds' hinit
      injection h with h; subst h
      exact restsItem_init hE hinit
  | step hr' h ih => exact restsItem_step hE ih (reach_inv hE hr').fin h

/-- on a ballot solid for `S` (shared ranks allowed), the top rank with a continuing member lies inside `S` as
    long as a member of `S` continues -/
theorem solid_top_item {b : Ballot} {S cont : List Cand} (hs : solidFor b S = true) {s : Cand} (hsS : s ∈ S)
    (hsc : s ∈ cont) : ∃ it, topItem b cont = some it ∧ ∀ t ∈ itemCands it, t ∈ S := by
  unfold solidFor at hs
  rw [List.any_eq_true] at hs
  obtain ⟨j, _, hsame⟩ := hs
  have hset := sameSet_iff.mp hsame
  unfold prefixCands at hset
  unfold topItem
  conv => enter [1, it, 1, 1]; rw [← List.take_append_drop j b]
  have hspre : s ∈ ballotCands (b.take j) := (hset s).mpr hsS
  simp only [ballotCands, List.mem_flatMap] at hspre
  obtain ⟨it1, hit1, hs1⟩ := hspre
  cases hf : (b.take j).find? (itemLive cont) with
  | none =>
    exfalso
    rw [List.find?_eq_none] at hf
    apply hf it1 hit1
    simp only [itemLive, List.any_eq_true, decide_eq_true_eq]
    exact ⟨s, hs1, hsc⟩
  | some it =>
    refine ⟨it, by rw [List.find?_append, hf]; rfl, ?_⟩
    intro t ht
    apply (hset t).mp
    simp only [ballotCands, List.mem_flatMap]
    exact ⟨it, List.mem_of_find?_eq_some hf, ht⟩

end VL.STV
