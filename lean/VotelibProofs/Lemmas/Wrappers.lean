/-
  Helper lemmas for C14: argument restriction, the `Agree` relation between the strict (Python) and the
  tolerant (by hand) semantics of a part, and one closure lemma per wrapper.
-/
import VotelibModel.WrapperLaws
namespace VL.C14
open VL

/-! ### decidable equality of nested values (for the concrete witnesses) -/

mutual
def V.beq : V → V → Bool
  | .num a, .num b => a == b
  | .cand a, .cand b => a == b
  | .tie a, .tie b => a == b
  | .none, .none => true
  | .list a, .list b => V.beqList a b
  | .dict a, .dict b => V.beqKvs a b
  | _, _ => false
def V.beqList : List V → List V → Bool
  | [], [] => true
  | x :: xs, y :: ys => V.beq x y && V.beqList xs ys
  | _, _ => false
def V.beqKvs : List (Key × V) → List (Key × V) → Bool
  | [], [] => true
  | (k, x) :: xs, (l, y) :: ys => k == l && V.beq x y && V.beqKvs xs ys
  | _, _ => false
end

mutual
theorem V.beq_eq : ∀ (a b : V), V.beq a b = true → a = b
  | .num a, .num b, h => by simp [V.beq] at h; simp [h]
  | .cand a, .cand b, h => by simp [V.beq] at h; simp [h]
  | .tie a, .tie b, h => by simp [V.beq] at h; simp [h]
  | .none, .none, _ => rfl
  | .list a, .list b, h => by simp [V.beq] at h; simp [V.beqList_eq a b h]
  | .dict a, .dict b, h => by simp [V.beq] at h; simp [V.beqKvs_eq a b h]
  | .num _, .cand _, h | .num _, .tie _, h | .num _, .none, h | .num _, .list _, h | .num _, .dict _, h => by simp [V.beq] at h
  | .cand _, .num _, h | .cand _, .tie _, h | .cand _, .none, h | .cand _, .list _, h | .cand _, .dict _, h => by simp [V.beq] at h
  | .tie _, .num _, h | .tie _, .cand _, h | .tie _, .none, h | .tie _, .list _, h | .tie _, .dict _, h => by simp [V.beq] at h
  | .none, .num _, h | .none, .cand _, h | .none, .tie _, h | .none, .list _, h | .none, .dict _, h => by simp [V.beq] at h
  | .list _, .num _, h | .list _, .cand _, h | .list _, .tie _, h | .list _, .none, h | .list _, .dict _, h => by simp [V.beq] at h
  | .dict _, .num _, h | .dict _, .cand _, h | .dict _, .tie _, h | .dict _, .none, h | .dict _, .list _, h => by simp [V.beq] at h
theorem V.beqList_eq : ∀ (a b : List V), V.beqList a b = true → a = b
  | [], [], _ => rfl
  | x :: xs, y :: ys, h => by
      simp [V.beqList] at h
      rw [V.beq_eq x y h.1, V.beqList_eq xs ys h.2]
  | [], _ :: _, h => by simp [V.beqList] at h
  | _ :: _, [], h => by simp [V.beqList] at h
theorem V.beqKvs_eq : ∀ (a b : List (Key × V)), V.beqKvs a b = true → a = b
  | [], [], _ => rfl
  | (k, x) :: xs, (l, y) :: ys, h => by
      simp [V.beqKvs] at h
      rw [h.1.1, V.beq_eq x y h.1.2, V.beqKvs_eq xs ys h.2]
  | [], _ :: _, h => by simp [V.beqKvs] at h
  | _ :: _, [], h => by simp [V.beqKvs] at h
end

mutual
theorem V.beq_refl : ∀ (a : V), V.beq a a = true
  | .num a => by simp [V.beq]
  | .cand a => by simp [V.beq]
  | .tie a => by simp [V.beq]
  | .none => by simp [V.beq]
  | .list a => by simp [V.beq, V.beqList_refl a]
  | .dict a => by simp [V.beq, V.beqKvs_refl a]
theorem V.beqList_refl : ∀ (a : List V), V.beqList a a = true
  | [] => by simp [V.beqList]
  | x :: xs => by simp [V.beqList, V.beq_refl x, V.beqList_refl xs]
theorem V.beqKvs_refl : ∀ (a : List (Key × V)), V.beqKvs a a = true
  | [] => by simp [V.beqKvs]
  | (k, x) :: xs => by simp [V.beqKvs, V.beq_refl x, V.beqKvs_refl xs]
end

instance : DecidableEq V := fun a b =>
  if h : V.beq a b = true then isTrue (V.beq_eq a b h)
  else isFalse (fun e => by subst e; exact h (V.beq_refl a))

instance instDecEqExcept {ε α : Type} [DecidableEq ε] [DecidableEq α] : DecidableEq (Except ε α) := fun a b =>
  match a, b with
  | .ok x, .ok y => if h : x = y then isTrue (by rw [h]) else isFalse (by intro e; cases e; exact h rfl)
  | .error x, .error y => if h : x = y then isTrue (by rw [h]) else isFalse (by intro e; cases e; exact h rfl)
  | .ok _, .error _ => isFalse (by intro e; cases e)
  | .error _, .ok _ => isFalse (by intro e; cases e)

/-- `P` is how core.py calls the part (strict binding), `P'` is the part called by hand; `s` is what it takes -/
def Agree (s : Sig) (P P' : Sem) : Prop := ∀ a : Args, P (a.restrict s) = P' a

namespace Args

theorem restrict_restrict (a : Args) (s : Sig) : (a.restrict s).restrict s = a.restrict s := by
  cases s with | mk seats prev max ext seatsNeeds =>
  cases seats <;> cases prev <;> cases max <;> cases ext <;> simp [restrict]

theorem fits_restrict (a : Args) (s : Sig) : (a.restrict s).fits s = true := by
  cases s with | mk seats prev max ext seatsNeeds =>
  cases seats <;> cases prev <;> cases max <;> cases ext <;> simp [restrict, fits]

theorem restrict_of_fits (a : Args) (s : Sig) (h : a.fits s = true) : a.restrict s = a := by
  cases a with | mk votes n prev max pl lv =>
  cases s with | mk seats sprev smax ext seatsNeeds =>
  cases seats <;> cases sprev <;> cases smax <;> cases ext <;>
    simp_all [restrict, fits, Option.isNone_iff_eq_none]

end Args

@[simp] theorem ok_bind {α β : Type} (x : α) (f : α → Except Err β) : (Except.ok x >>= f) = f x := rfl
@[simp] theorem error_bind {α β : Type} (e : Err) (f : α → Except Err β) : (Except.error e >>= f) = Except.error e := rfl

theorem filterMapM_ok_mem {α β : Type} {f : α → Except Err (Option β)} :
    ∀ {l : List α} {r : List β}, l.filterMapM f = .ok r → ∀ y ∈ r, ∃ x ∈ l, f x = .ok (some y)
  | [], r, h, y, hy => by
      simp only [List.filterMapM_nil] at h
      cases h; cases hy
  | x :: xs, r, h, y, hy => by
      simp only [List.filterMapM_cons] at h
      cases hx : f x with
      | error e => rw [hx] at h; cases h
      | ok o =>
        rw [hx] at h
        simp only [ok_bind] at h
        cases hr : xs.filterMapM f with
        | error e => cases o <;> (rw [hr] at h; cases h)
        | ok r' =>
          cases o with
          | none =>
            rw [hr] at h
            have : r = r' := by cases h; rfl
            subst this
            obtain ⟨z, hz, hfz⟩ := filterMapM_ok_mem hr y hy
            exact ⟨z, by simp [hz], hfz⟩
          | some b =>
            rw [hr] at h
            have : r = b :: r' := by cases h; rfl
            subst this
            simp only [List.mem_cons] at hy
            rcases hy with hy | hy
            · subst hy; exact ⟨x, by simp, hx⟩
            · obtain ⟨z, hz, hfz⟩ := filterMapM_ok_mem hr y hy
              exact ⟨z, by simp [hz], hfz⟩

theorem mapM_congr' {α β : Type} {f g : α → Except Err β} : ∀ {l : List α},
    (∀ x ∈ l, f x = g x) → l.mapM f = l.mapM g
  | [], _ => by simp
  | x :: xs, h => by
      simp only [List.mapM_cons]
      rw [h x (by simp), mapM_congr' (fun y hy => h y (by simp [hy]))]

/-- two lists related element by element -/
inductive Pointwise {α β : Type} (R : α → β → Prop) : List α → List β → Prop
  | nil : Pointwise R [] []
  | cons {x y xs ys} : R x y → Pointwise R xs ys → Pointwise R (x :: xs) (y :: ys)

theorem mapM_ok_forall₂ {α β : Type} {f : α → Except Err β} : ∀ {l : List α} {r : List β},
    l.mapM f = .ok r → Pointwise (fun x y => f x = .ok y) l r
  | [], r, h => by
      simp at h
      cases h
      exact .nil
  | x :: xs, r, h => by
      simp only [List.mapM_cons] at h
      cases hx : f x with
      | error e => rw [hx] at h; cases h
      | ok y =>
        rw [hx] at h
        simp only [ok_bind] at h
        cases hr : xs.mapM f with
        | error e => rw [hr] at h; cases h
        | ok ys =>
          rw [hr] at h
          have : r = y :: ys := by cases h; rfl
          subst this
          exact .cons hx (mapM_ok_forall₂ hr)

theorem D.get?_of_has (d : D) (k : Key) (h : d.has k = true) : ∃ v, d.get? k = some v := by
  unfold D.has at h
  unfold D.get?
  rw [List.any_eq_true] at h
  obtain ⟨p, hp, hk⟩ := h
  cases hf : d.find? (fun p => p.1 = k) with
  | some q => exact ⟨q.2, rfl⟩
  | none =>
    rw [List.find?_eq_none] at hf
    exact absurd hk (hf p hp)

theorem Agree.tolerant {s P P'} (h : Agree s P P') (a : Args) : P' (a.restrict s) = P' a := by
  rw [← h, ← h, Args.restrict_restrict]

theorem Agree.onFits {s P P'} (h : Agree s P P') (a : Args) (hf : a.fits s = true) : P a = P' a := by
  rw [← h, Args.restrict_of_fits a s hf]

theorem Agree.byHand {s P P'} (h : Agree s P P') (a : Args) : P' a = P (a.restrict s) := (h a).symm

theorem agree_leaf (sig : Sig) (f : Sem) : Agree sig (strict sig f) (tol sig f) := by
  intro a
  simp [strict, tol, Args.fits_restrict]

theorem agree_fixed {sP : Sig} {P P' : Sem} (n : V) (hP : Agree sP P P') (hs : sP.seats = true) :
    Agree { seats := false, prev := sP.prev, max := sP.max, ext := sP.ext }
      (fixedSeatCountImpl n P) (fixedSeatCountLaw n P') := by
  intro a
  simp only [fixedSeatCountImpl, fixedSeatCountLaw, hP.byHand]
  cases sP with | mk seats prev max ext seatsNeeds =>
  simp at hs; subst hs
  simp [Args.restrict]

theorem agree_preConverted {sP : Sig} {P P' : Sem} (c : V → Except Err V) (hP : Agree sP P P') :
    Agree sP (preConvertedImpl c P) (preConvertedLaw c P') := by
  intro a
  simp only [preConvertedImpl, preConvertedLaw, hP.byHand]
  cases sP with | mk seats prev max ext seatsNeeds =>
  cases seats <;> cases prev <;> cases max <;> cases ext <;> simp [Args.restrict]

theorem agree_postConverted {sP : Sig} {P P' : Sem} (c : V → Except Err V) (hP : Agree sP P P') :
    Agree sP (postConvertedImpl P c) (postConvertedLaw P' c) := by
  intro a
  simp only [postConvertedImpl, postConvertedLaw, hP.byHand]

/-- Conditioned with truthful dispatch flags (`elimPrev`, `evSeats`, `evOpt`, `evPrev`); `needs` says that the
    part's seat count is a required argument, `evOpt` is its negation wherever the part takes seats -/
theorem agree_conditioned {sE sP : Sig} {E E' P P' : Sem} (depth : Nat) (needs evOpt : Bool)
    (hE : Agree sE E E') (hP : Agree sP P P') (hopt : sP.seats = true → evOpt = !needs) :
    Agree { seats := true, prev := true, max := sP.max, ext := sP.ext }
      (conditionedImpl sE.prev sP.seats evOpt sP.prev E P depth) (conditionedLaw needs E' P' depth) := by
  intro a
  simp only [conditionedImpl, conditionedLaw, hP.byHand, hE.byHand]
  cases sP with | mk seats prev max ext pneeds =>
  cases sE with | mk eseats eprev emax eext eneeds =>
  cases seats
  · cases prev <;> cases max <;> cases ext <;> cases eprev <;> simp [Args.restrict]
  · have := hopt rfl
    subst this
    cases prev <;> cases max <;> cases ext <;> cases eprev <;> simp [Args.restrict]

/-! ### apportionment -/

inductive AgreeApp : App Sem → App Sem → Prop
  | none : AgreeApp .none .none
  | int (k : Rat) : AgreeApp (.int k) (.int k)
  | dict (d : D) : AgreeApp (.dict d) (.dict d)
  | ev {sA : Sig} {A A' : Sem} : Agree sA A A' → sA.seats = true → AgreeApp (.ev A) (.ev A')

theorem apportion_eq {app app' : App Sem} (h : AgreeApp app app') (votes n : V) :
    apportion app votes n = apportionLaw app' votes n := by
  cases h with
  | none => cases n <;> simp [apportion, apportionLaw]
  | int k => simp [apportion, apportionLaw]
  | dict d => simp [apportion, apportionLaw]
  | @ev sA A A' hA hs =>
    cases sA with | mk seats prev max ext seatsNeeds =>
    simp at hs; subst hs
    cases n <;> simp [apportion, apportionLaw, constituencyTotals, hA.byHand, Args.restrict]

/-! ### ByConstituency -/

theorem district_eq {sP : Sig} {P P' : Sem} (hP : Agree sP P P') (hs : sP.seats = true)
    (presel : Option V) (dv nd pv mx : V) :
    districtImpl sP.prev sP.max P presel dv nd pv mx = districtLaw P' presel dv nd pv mx := by
  cases sP with | mk seats prev max ext seatsNeeds =>
  simp at hs; subst hs
  simp only [districtImpl, districtLaw, hP.byHand]
  cases prev <;> cases max <;> simp [Args.restrict] <;> rfl

/-- the optional preselector together with the flags `accepts_seats(preselector)`, `seats_optional(preselector)`
    and the fact `needs` (its seat count is a required argument) -/
inductive AgreePre : Option Sem → Option Sem → Bool → Bool → Bool → Prop
  | none (b o n : Bool) : AgreePre Option.none Option.none b o n
  | some {sQ : Sig} {Q Q' : Sem} (o n : Bool) : Agree sQ Q Q' → (sQ.seats = true → o = !n) →
      AgreePre (some Q) (some Q') sQ.seats o n

theorem agree_byConstituency {sP : Sig} {P P' : Sem} {app app' : App Sem} {pre pre' : Option Sem}
    {preSeats preOpt preNeeds : Bool} (hP : Agree sP P P') (hs : sP.seats = true)
    (happ : AgreeApp app app') (hpre : AgreePre pre pre' preSeats preOpt preNeeds) :
    Agree allSig (byConstituencyImpl sP.prev sP.max preSeats preOpt P app pre)
      (byConstituencyLaw preNeeds P' app' pre') := by
  intro a
  simp only [byConstituencyImpl, byConstituencyLaw, allowedLaw, districtsLaw, assemble, districtResults,
    district_eq hP hs, apportion_eq happ]
  cases hpre with
  | none b o n => simp [Args.restrict, allSig, Args.noExt] <;> rfl
  | @some sQ Q Q' o n hQ hopt =>
    simp only [hQ.byHand]
    cases sQ with | mk seats prev max ext qneeds =>
    cases seats
    · simp [Args.restrict, allSig, Args.noExt] <;> rfl
    · have := hopt rfl
      subst this
      simp [Args.restrict, allSig, Args.noExt] <;> rfl

theorem agree_preApportioned {sP : Sig} {P P' : Sem} {app app' : App Sem}
    (hP : Agree sP P P') (hs : sP.seats = true) (hp : sP.prev = true) (hm : sP.max = true)
    (happ : AgreeApp app app') :
    Agree allSig (preApportionedImpl P app) (preApportionedLaw P' app') := by
  intro a
  cases sP with | mk seats prev max ext seatsNeeds =>
  simp at hs hp hm; subst hs; subst hp; subst hm
  simp [preApportionedImpl, preApportionedLaw, apportion_eq happ, hP.byHand, Args.restrict, allSig, Args.noExt]

theorem agree_removedApportionment {sP : Sig} {P P' : Sem}
    (hP : Agree sP P P') (hs : sP.seats = true) (hp : sP.prev = true) (hm : sP.max = true) :
    Agree allSig (removedApportionmentImpl P) (removedApportionmentLaw P') := by
  intro a
  cases sP with | mk seats prev max ext seatsNeeds =>
  simp at hs hp hm; subst hs; subst hp; subst hm
  simp [removedApportionmentImpl, removedApportionmentLaw, hP.byHand, Args.restrict, allSig, Args.noExt]

theorem agree_byParty {sO sA : Sig} {O O' A A' : Sem} (needs oOpt : Bool) (hO : Agree sO O O') (hA : Agree sA A A')
    (hopt : sO.seats = true → oOpt = !needs)
    (hsa : sA.seats = true) (hp : sA.prev = true) (hm : sA.max = true) :
    Agree allSig (byPartyImpl sO.seats oOpt sA.prev sA.max O A) (byPartyLaw needs O' A') := by
  intro a
  cases sO with | mk oseats oprev omax oext oneeds =>
  cases sA with | mk seats prev max ext aneeds =>
  simp at hsa hp hm; subst hsa; subst hp; subst hm
  simp only [byPartyImpl, byPartyLaw, partyAllocation, enterAllocation, fillEmpty, hO.byHand, hA.byHand]
  cases oseats
  · simp [Args.restrict, allSig, Args.noExt]
  · have := hopt rfl
    subst this
    simp [Args.restrict, allSig, Args.noExt]

/-- ByParty for an allocator that takes only part of (prev_gains, max_seats): wrapper = composition on every
    call whose `prev_gains` / `max_seats` have a column for every party (nested dicts: always) -/
theorem byParty_eq_of_columns {sO sA : Sig} {O O' A A' : Sem} (needs oOpt : Bool)
    (hO : Agree sO O O') (hA : Agree sA A A') (hopt : sO.seats = true → oOpt = !needs)
    (hsa : sA.seats = true) (a : Args)
    (hp : ∀ k, ∃ x, partyColumn (a.prev.getD (.dict [])) k = .ok x)
    (hm : ∀ k, ∃ x, partyColumn (a.max.getD (.dict [])) k = .ok x) :
    byPartyImpl sO.seats oOpt sA.prev sA.max O A (a.restrict allSig) = byPartyLaw needs O' A' a := by
  cases sO with | mk oseats oprev omax oext oneeds =>
  cases sA with | mk seats prev max ext aneeds =>
  simp at hsa; subst hsa
  obtain ⟨f, hf⟩ : ∃ f : Key → V, ∀ k, partyColumn (a.prev.getD (.dict [])) k = .ok (f k) :=
    ⟨fun k => Classical.choose (hp k), fun k => Classical.choose_spec (hp k)⟩
  obtain ⟨g, hg⟩ : ∃ g : Key → V, ∀ k, partyColumn (a.max.getD (.dict [])) k = .ok (g k) :=
    ⟨fun k => Classical.choose (hm k), fun k => Classical.choose_spec (hm k)⟩
  simp only [byPartyImpl, byPartyLaw, partyAllocation, enterAllocation, fillEmpty, hO.byHand, hA.byHand]
  cases oseats
  · cases prev <;> cases max <;> simp [Args.restrict, allSig, Args.noExt, hf, hg]
  · have := hopt rfl
    subst this
    cases prev <;> cases max <;> simp [Args.restrict, allSig, Args.noExt, hf, hg]

/-- a dict of dicts has a column for every party -/
theorem partyColumn_ok_of_nested (g : D) (h : ∀ p ∈ g, ∃ d, p.2 = V.dict d) (k : Key) :
    ∃ x, partyColumn (.dict g) k = .ok x := by
  have hitems : (V.dict g).items = .ok g := rfl
  simp only [partyColumn, hitems, ok_bind]
  suffices hs : ∃ r, g.filterMapM (columnEntry k) = .ok r by
    obtain ⟨r, hr⟩ := hs
    exact ⟨.dict r, by rw [hr]; rfl⟩
  induction g with
  | nil => exact ⟨[], by simp; rfl⟩
  | cons p ps ih =>
    obtain ⟨r, hr⟩ := ih (fun q hq => h q (by simp [hq])) rfl
    obtain ⟨d, hd⟩ := h p (by simp)
    have hp : columnEntry k p = .ok (if D.has d k then (D.get? d k).map (fun x => (p.1, x)) else Option.none) := by
      simp only [columnEntry, hd, keyIn, V.items, ok_bind]
      by_cases hk : D.has d k = true
      · obtain ⟨v, hv⟩ := D.get?_of_has d k hk
        simp [hk, hv]; rfl
      · simp only [Bool.not_eq_true] at hk
        simp [hk]; rfl
    simp only [List.filterMapM_cons, hp, hr, ok_bind]
    cases (if D.has d k then (D.get? d k).map (fun x => (p.1, x)) else Option.none) with
    | none => exact ⟨r, rfl⟩
    | some y => exact ⟨y :: r, rfl⟩

/-! ### multi-stage -/

/-- stage lists related pointwise; `gains` says whether the stages are handed prev_gains / max_seats -/
inductive AgreeStages (gains : Bool) : List Sem → List Sem → Prop
  | nil : AgreeStages gains [] []
  | cons {s : Sig} {P P' : Sem} {Ps Ps' : List Sem} :
      Agree s P P' → s.seats = true → (gains = true → s.prev = true ∧ s.max = true) →
      AgreeStages gains Ps Ps' → AgreeStages gains (P :: Ps) (P' :: Ps')

theorem AgreeStages.length_eq {g : Bool} {Ps Ps' : List Sem} (h : AgreeStages g Ps Ps') :
    Ps.length = Ps'.length := by
  induction h with
  | nil => rfl
  | cons _ _ _ _ ih => simp [ih]

theorem multistageLoop_eq {Ps Ps' : List Sem} (h : AgreeStages true Ps Ps') (depth : Nat) (n mx : V) :
    ∀ (vs : List V) (el : V),
      multistageLoop depth n mx (Ps.zip vs) el = chainStages depth n mx (Ps'.zip vs) el := by
  induction h with
  | nil => intro vs el; simp [multistageLoop, chainStages]
  | @cons s P P' Ps Ps' hP hs hg _ ih =>
    intro vs el
    cases vs with
    | nil => simp [multistageLoop, chainStages]
    | cons v vs =>
      obtain ⟨hp, hm⟩ := hg rfl
      cases s with | mk seats prev max ext seatsNeeds =>
      simp at hs hp hm; subst hs; subst hp; subst hm
      simp [multistageLoop, chainStages, hP.byHand, Args.restrict, ih]

theorem agree_multistage {Ps Ps' : List Sem} (h : AgreeStages true Ps Ps') (depth : Nat) :
    Agree allSig (multistageImpl Ps depth) (multistageLaw Ps' depth) := by
  intro a
  simp only [multistageImpl, multistageLaw, multistageLoop_eq h, h.length_eq]
  simp [Args.restrict, allSig, Args.noExt] <;> rfl

theorem zipQuotas_agree {Ps Ps' : List Sem} (h : AgreeStages false Ps Ps') (depth : Nat) :
    ∀ (qs : List (Option QuotaFn)) (votes n el : V),
      unusedLoop depth (zipQuotas Ps qs) votes n el = chainUnused depth (zipQuotas Ps' qs) votes n el := by
  induction h with
  | nil => intro qs votes n el; cases qs <;> simp [zipQuotas, unusedLoop, chainUnused]
  | @cons s P P' Ps Ps' hP hs _ _ ih =>
    intro qs votes n el
    cases qs with
    | nil => simp [zipQuotas, unusedLoop, chainUnused]
    | cons q qs =>
      cases s with | mk seats prev max ext seatsNeeds =>
      simp at hs; subst hs
      cases q <;> simp [zipQuotas, unusedLoop, chainUnused, hP.byHand, Args.restrict, ih]

theorem agree_unusedVotes {Ps Ps' : List Sem} (h : AgreeStages false Ps Ps') (quotas : List QuotaFn)
    (depth : Nat) : Agree allSig (unusedVotesImpl Ps quotas depth) (unusedVotesLaw Ps' quotas depth) := by
  intro a
  simp only [unusedVotesImpl, unusedVotesLaw, zipQuotas_agree h]
  simp [Args.restrict, allSig, Args.noExt] <;> rfl

/-! ### party lists, tie-breaking -/

theorem agree_partyList {sP : Sig} {P P' : Sem} (hP : Agree sP P P') (hs : sP.seats = true)
    (le : Option ListSem) (conv : Option (V → Except Err V)) :
    Agree { seats := true, prev := sP.prev, max := sP.max, ext := true }
      (partyListImpl P le conv) (partyListLaw P' le conv) := by
  intro a
  cases sP with | mk seats prev max ext seatsNeeds =>
  simp at hs; subst hs
  simp only [partyListImpl, partyListLaw, hP.byHand]
  cases prev <;> cases max <;> simp [Args.restrict] <;> rfl

theorem collectDist_noTie (d : D) (h : d.any (fun p => keyIsTie p.1) = false) : collectDist d = .ok [] := by
  induction d with
  | nil => rfl
  | cons p ps ih =>
    simp only [List.any_cons, Bool.or_eq_false_iff] at h
    obtain ⟨hp, hps⟩ := h
    have := ih hps
    obtain ⟨k, v⟩ := p
    cases k with
    | cand c => simp_all [collectDist, List.filterMapM_cons]
    | tie cs => simp [keyIsTie] at hp

theorem agree_tieBreaking {sM sT : Sig} {M M' T T' : Sem} (hM : Agree sM M M') (hT : Agree sT T T')
    (hs : sT.seats = true) : Agree sM (tieBreakingImpl M T) (tieBreakingLaw M' T') := by
  intro a
  cases sT with | mk seats prev max ext seatsNeeds =>
  simp at hs; subst hs
  simp only [tieBreakingImpl, tieBreakingLaw, ← hM a]
  cases hr : M (a.restrict sM) with
  | error e => rfl
  | ok r =>
    cases r with
    | list l => simp [tieChoice, hT.byHand, Args.restrict, bind_assoc]
    | dict d =>
      by_cases hany : d.any (fun p => keyIsTie p.1) = true
      · simp [hany, tieChoice, hT.byHand, Args.restrict, bind_assoc, replaceDist, addChosen]
        rfl
      · simp only [Bool.not_eq_true] at hany
        simp [hany, collectDist_noTie d hany]
    | num _ => rfl
    | cand _ => rfl
    | tie _ => rfl
    | none => rfl

/-! ### filling tie places in order -/

theorem fillTie_cons_other (t : List Cand) (x : V) (hx : notTie t x = true) (r cs : List V) :
    fillTie t (x :: r) cs = (fillTie t r cs).map (x :: ·) := by
  cases cs with
  | nil => simp [fillTie]
  | cons d ds =>
    cases x <;> simp_all [fillTie, notTie]

theorem replaceFirst_cons_other (t : List Cand) (x c : V) (hx : notTie t x = true) (xs : List V) :
    replaceFirst t c (x :: xs) = (replaceFirst t c xs).map (x :: ·) := by
  cases x <;> simp_all [replaceFirst, notTie]

theorem fillTie_step (t : List Cand) (c : V) (hc : notTie t c = true) (cs : List V) :
    ∀ res : List V, fillTie t res (c :: cs) = (replaceFirst t c res).bind (fun r => fillTie t r cs)
  | [] => by simp [fillTie, replaceFirst]
  | x :: xs => by
      by_cases hx : notTie t x = true
      · rw [fillTie_cons_other t x hx, replaceFirst_cons_other t x c hx, fillTie_step t c hc cs xs]
        cases replaceFirst t c xs with
        | none => rfl
        | some r => simp [fillTie_cons_other t x hx]
      · have hxt : x = .tie t := by
          cases x <;> simp_all [notTie]
        subst hxt
        simp [fillTie, replaceFirst, fillTie_cons_other t c hc]

theorem replaceSel_eq_fill (t : List Cand) : ∀ (chosen res : List V), (chosen.all (notTie t) = true) →
    replaceSel res t chosen = (match fillTie t res chosen with
      | some r => .ok r
      | Option.none => .error .valueError)
  | [], res, _ => by simp [replaceSel, fillTie]; rfl
  | c :: cs, res, h => by
      simp only [List.all_cons, Bool.and_eq_true] at h
      rw [fillTie_step t c h.1 cs res]
      simp only [replaceSel, List.foldlM_cons]
      cases hr : replaceFirst t c res with
      | none => rfl
      | some r =>
        simp only [ok_bind, Option.bind]
        exact replaceSel_eq_fill t cs r h.2

theorem foldlM_congr_mem {α β : Type} {f g : β → α → Except Err β} :
    ∀ {l : List α} (init : β), (∀ acc, ∀ x ∈ l, f acc x = g acc x) → l.foldlM f init = l.foldlM g init
  | [], _, _ => rfl
  | x :: xs, init, h => by
      simp only [List.foldlM_cons]
      rw [h init x (by simp)]
      cases g init x with
      | error e => rfl
      | ok b => exact foldlM_congr_mem b (fun acc y hy => h acc y (by simp [hy]))

/-! ### arbitrary nesting -/

/-! ### the dispatch flags tell the truth (after e582ee8: for EVERY tree) -/

theorem acceptsSeats_faithful : ∀ (e : Ev), acceptsSeats e = (takes e).seats
  | .leaf _ _ => by simp [acceptsSeats, takes]
  | .fixedSeatCount _ _ => by simp [acceptsSeats, takes]
  | .tieBreaking m _ => by simp [acceptsSeats, takes, acceptsSeats_faithful m]
  | .preConverted _ e => by simp [acceptsSeats, takes, acceptsSeats_faithful e]
  | .postConverted e _ => by simp [acceptsSeats, takes, acceptsSeats_faithful e]
  | .votingSystem e => by simp [acceptsSeats, takes, acceptsSeats_faithful e]
  | .conditioned _ _ _ => by simp [acceptsSeats, takes]
  | .byConstituency _ _ _ => by simp [acceptsSeats, takes, allSig]
  | .preApportioned _ _ => by simp [acceptsSeats, takes, allSig]
  | .removedApportionment _ => by simp [acceptsSeats, takes, allSig]
  | .byParty _ _ => by simp [acceptsSeats, takes, allSig]
  | .multistage _ _ => by simp [acceptsSeats, takes, allSig]
  | .unusedVotes _ _ _ => by simp [acceptsSeats, takes, allSig]
  | .partyList _ _ _ => by simp [acceptsSeats, takes]

theorem acceptsPrevGains_faithful : ∀ (e : Ev), acceptsPrevGains e = (takes e).prev
  | .leaf _ _ => by simp [acceptsPrevGains, takes]
  | .fixedSeatCount e _ => by simp [acceptsPrevGains, takes, acceptsPrevGains_faithful e]
  | .tieBreaking m _ => by simp [acceptsPrevGains, takes, acceptsPrevGains_faithful m]
  | .preConverted _ e => by simp [acceptsPrevGains, takes, acceptsPrevGains_faithful e]
  | .postConverted e _ => by simp [acceptsPrevGains, takes, acceptsPrevGains_faithful e]
  | .votingSystem e => by simp [acceptsPrevGains, takes, acceptsPrevGains_faithful e]
  | .partyList p _ _ => by simp [acceptsPrevGains, takes, acceptsPrevGains_faithful p]
  | .conditioned _ _ _ => by simp [acceptsPrevGains, takes]
  | .byConstituency _ _ _ => by simp [acceptsPrevGains, takes, allSig]
  | .preApportioned _ _ => by simp [acceptsPrevGains, takes, allSig]
  | .removedApportionment _ => by simp [acceptsPrevGains, takes, allSig]
  | .byParty _ _ => by simp [acceptsPrevGains, takes, allSig]
  | .multistage _ _ => by simp [acceptsPrevGains, takes, allSig]
  | .unusedVotes _ _ _ => by simp [acceptsPrevGains, takes, allSig]

theorem acceptsMaxSeats_faithful : ∀ (e : Ev), acceptsMaxSeats e = (takes e).max
  | .leaf _ _ => by simp [acceptsMaxSeats, takes]
  | .fixedSeatCount e _ => by simp [acceptsMaxSeats, takes, acceptsMaxSeats_faithful e]
  | .tieBreaking m _ => by simp [acceptsMaxSeats, takes, acceptsMaxSeats_faithful m]
  | .preConverted _ e => by simp [acceptsMaxSeats, takes, acceptsMaxSeats_faithful e]
  | .postConverted e _ => by simp [acceptsMaxSeats, takes, acceptsMaxSeats_faithful e]
  | .votingSystem e => by simp [acceptsMaxSeats, takes, acceptsMaxSeats_faithful e]
  | .conditioned _ e _ => by simp [acceptsMaxSeats, takes, acceptsMaxSeats_faithful e]
  | .partyList p _ _ => by simp [acceptsMaxSeats, takes, acceptsMaxSeats_faithful p]
  | .byConstituency _ _ _ => by simp [acceptsMaxSeats, takes, allSig]
  | .preApportioned _ _ => by simp [acceptsMaxSeats, takes, allSig]
  | .removedApportionment _ => by simp [acceptsMaxSeats, takes, allSig]
  | .byParty _ _ => by simp [acceptsMaxSeats, takes, allSig]
  | .multistage _ _ => by simp [acceptsMaxSeats, takes, allSig]
  | .unusedVotes _ _ _ => by simp [acceptsMaxSeats, takes, allSig]

/-- `seats_optional` is the truth wherever it is consulted (the tree takes a seat count): the seat count can
    be omitted exactly when it is not a required argument -/
theorem seatsOptional_faithful : ∀ (e : Ev), (takes e).seats = true → seatsOptional e = !needsSeats e
  | .leaf sig _, h => by simp only [takes] at h; simp [seatsOptional, needsSeats, h]
  | .fixedSeatCount _ _, h => by simp [takes] at h
  | .tieBreaking m _, h => by
      simp only [takes] at h; simp [seatsOptional, needsSeats, seatsOptional_faithful m h]
  | .preConverted _ e, h => by
      simp only [takes] at h; simp [seatsOptional, needsSeats, seatsOptional_faithful e h]
  | .postConverted e _, h => by
      simp only [takes] at h; simp [seatsOptional, needsSeats, seatsOptional_faithful e h]
  | .votingSystem e, h => by
      simp only [takes] at h; simp [seatsOptional, needsSeats, seatsOptional_faithful e h]
  | .conditioned _ _ _, _ => by simp [seatsOptional, needsSeats]
  | .byConstituency _ _ _, _ => by simp [seatsOptional, needsSeats]
  | .preApportioned _ _, _ => by simp [seatsOptional, needsSeats]
  | .removedApportionment _, _ => by simp [seatsOptional, needsSeats]
  | .byParty _ _, _ => by simp [seatsOptional, needsSeats]
  | .multistage _ _, _ => by simp [seatsOptional, needsSeats]
  | .unusedVotes _ _ _, _ => by simp [seatsOptional, needsSeats]
  | .partyList _ _ _, _ => by simp [seatsOptional, needsSeats]

def appMap (f : Ev → Sem) : App Ev → App Sem
  | .none => .none
  | .int k => .int k
  | .dict d => .dict d
  | .ev ap => .ev (f ap)

theorem eval_byConstituency (e : Ev) (app : App Ev) (pre : Option Ev) :
    eval (.byConstituency e app pre) =
      byConstituencyImpl (acceptsPrevGains e) (acceptsMaxSeats e)
        (match pre with | some p => acceptsSeats p | Option.none => false)
        (match pre with | some p => seatsOptional p | Option.none => true)
        (eval e) (appMap eval app) (pre.map eval) := by
  cases app <;> cases pre <;> simp [eval, appMap]

theorem denote_byConstituency (e : Ev) (app : App Ev) (pre : Option Ev) :
    denote (.byConstituency e app pre) =
      byConstituencyLaw (match pre with | some p => needsSeats p | Option.none => false)
        (denote e) (appMap denote app) (pre.map denote) := by
  cases app <;> cases pre <;> simp [denote, appMap]

theorem eval_preApportioned (e : Ev) (app : App Ev) :
    eval (.preApportioned e app) = preApportionedImpl (eval e) (appMap eval app) := by
  cases app <;> simp [eval, appMap]

theorem denote_preApportioned (e : Ev) (app : App Ev) :
    denote (.preApportioned e app) = preApportionedLaw (denote e) (appMap denote app) := by
  cases app <;> simp [denote, appMap]

mutual
theorem agree_tree : ∀ (t : Ev), WellFormed t = true → Agree (takes t) (eval t) (denote t)
  | .leaf sig f, _ => by
      simpa [eval, denote, takes] using agree_leaf sig f
  | .fixedSeatCount e n, h => by
      simp only [WellFormed, Bool.and_eq_true] at h
      simpa [eval, denote, takes] using agree_fixed n (agree_tree e h.1) h.2
  | .tieBreaking main tb, h => by
      simp only [WellFormed, Bool.and_eq_true] at h
      simpa [eval, denote, takes] using agree_tieBreaking (agree_tree main h.1.1) (agree_tree tb h.1.2) h.2
  | .conditioned elim e depth, h => by
      simp only [WellFormed, Bool.and_eq_true] at h
      simp only [eval, denote, takes, acceptsPrevGains_faithful, acceptsSeats_faithful]
      exact agree_conditioned depth (needsSeats e) (seatsOptional e) (agree_tree elim h.1) (agree_tree e h.2)
        (seatsOptional_faithful e)
  | .preConverted c e, h => by
      simp only [WellFormed] at h
      simpa [eval, denote, takes] using agree_preConverted c.run (agree_tree e h)
  | .postConverted e c, h => by
      simp only [WellFormed] at h
      simpa [eval, denote, takes] using agree_postConverted c.run (agree_tree e h)
  | .votingSystem e, h => by
      simp only [WellFormed] at h
      simpa [eval, denote, takes] using agree_tree e h
  | .byConstituency e app pre, h => by
      unfold WellFormed at h
      simp only [Bool.and_eq_true] at h
      obtain ⟨⟨⟨hw, hs⟩, happ⟩, hpre⟩ := h
      rw [eval_byConstituency, denote_byConstituency, acceptsPrevGains_faithful, acceptsMaxSeats_faithful]
      simp only [takes]
      refine agree_byConstituency (agree_tree e hw) hs ?_ ?_
      · cases app with
        | none => exact .none
        | int k => exact .int k
        | dict d => exact .dict d
        | ev ap =>
          simp at happ
          exact .ev (agree_tree ap happ.1) happ.2
      · cases pre with
        | none => exact .none _ _ _
        | some p =>
          simp at hpre
          simp only [acceptsSeats_faithful, Option.map]
          exact .some _ _ (agree_tree p hpre) (seatsOptional_faithful p)
  | .preApportioned e app, h => by
      unfold WellFormed at h
      simp only [takesAll, Bool.and_eq_true] at h
      obtain ⟨⟨hw, ⟨hs, hp⟩, hm⟩, happ⟩ := h
      rw [eval_preApportioned, denote_preApportioned]
      simp only [takes]
      refine agree_preApportioned (agree_tree e hw) hs hp hm ?_
      cases app with
      | none => exact .none
      | int k => exact .int k
      | dict d => exact .dict d
      | ev ap =>
        simp at happ
        exact .ev (agree_tree ap happ.1) happ.2
  | .removedApportionment e, h => by
      simp only [WellFormed, takesAll, Bool.and_eq_true] at h
      obtain ⟨hw, ⟨hs, hp⟩, hm⟩ := h
      simpa [eval, denote, takes] using agree_removedApportionment (agree_tree e hw) hs hp hm
  | .byParty overall alloc, h => by
      cases alloc with
      | some al =>
        simp only [WellFormed, takesAll, Bool.and_eq_true] at h
        obtain ⟨hwo, hwa, ⟨hsa, hpa⟩, hma⟩ := h
        simp only [eval, denote, takes, acceptsPrevGains_faithful, acceptsSeats_faithful, acceptsMaxSeats_faithful]
        exact agree_byParty (needsSeats overall) (seatsOptional overall) (agree_tree overall hwo) (agree_tree al hwa)
          (seatsOptional_faithful overall) hsa hpa hma
      | none =>
        simp only [WellFormed, takesAll, Bool.and_eq_true] at h
        obtain ⟨hwo, ⟨hso, hpo⟩, hmo⟩ := h
        simp only [eval, denote, takes, acceptsPrevGains_faithful, acceptsSeats_faithful, acceptsMaxSeats_faithful]
        exact agree_byParty (needsSeats overall) (seatsOptional overall) (agree_tree overall hwo)
          (agree_tree overall hwo) (seatsOptional_faithful overall) hso hpo hmo
  | .multistage rounds depth, h => by
      simp only [WellFormed] at h
      simpa [eval, denote, takes] using agree_multistage (agree_stages rounds true h) depth
  | .unusedVotes rounds quotas depth, h => by
      simp only [WellFormed] at h
      simpa [eval, denote, takes] using agree_unusedVotes (agree_stages rounds false h) quotas depth
  | .partyList party le conv, h => by
      simp only [WellFormed, Bool.and_eq_true] at h
      simpa [eval, denote, takes] using agree_partyList (agree_tree party h.1) h.2 le (conv.map Conv.run)
theorem agree_stages : ∀ (rs : List Ev) (g : Bool), WellFormedList rs g = true →
    AgreeStages g (evalList rs) (denoteList rs)
  | [], _, _ => by simpa [evalList, denoteList] using AgreeStages.nil
  | e :: es, g, h => by
      simp only [WellFormedList, Bool.and_eq_true] at h
      obtain ⟨⟨hw, hg⟩, hrest⟩ := h
      simp only [evalList, denoteList]
      refine AgreeStages.cons (agree_tree e hw) ?_ ?_ (agree_stages es g hrest)
      · cases g <;> simp_all [takesAll]
      · intro hg'
        subst hg'
        simp_all [takesAll]
end

end VL.C14
