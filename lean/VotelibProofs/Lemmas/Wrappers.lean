/-
  Helper lemmas for C14: argument restriction, the `Agree` relation between the strict (Python) and the
  tolerant (by hand) semantics of a part, and one closure lemma per wrapper.
-/
import VotelibModel.WrapperLaws
namespace VL.C14
open VL

/-- `P` is how core.py calls the part (strict binding), `P'` is the part called by hand; `s` is what it takes -/
def Agree (s : Sig) (P P' : Sem) : Prop := ∀ a : Args, P (a.restrict s) = P' a

namespace Args

theorem restrict_restrict (a : Args) (s : Sig) : (a.restrict s).restrict s = a.restrict s := by
  cases s with | mk seats prev max ext =>
  cases seats <;> cases prev <;> cases max <;> cases ext <;> simp [restrict]

theorem fits_restrict (a : Args) (s : Sig) : (a.restrict s).fits s = true := by
  cases s with | mk seats prev max ext =>
  cases seats <;> cases prev <;> cases max <;> cases ext <;> simp [restrict, fits]

theorem restrict_of_fits (a : Args) (s : Sig) (h : a.fits s = true) : a.restrict s = a := by
  cases a with | mk votes n prev max pl lv =>
  cases s with | mk seats sprev smax ext =>
  cases seats <;> cases sprev <;> cases smax <;> cases ext <;>
    simp_all [restrict, fits, Option.isNone_iff_eq_none]

end Args

@[simp] theorem ok_bind {α β : Type} (x : α) (f : α → Except Err β) : (Except.ok x >>= f) = f x := rfl
@[simp] theorem error_bind {α β : Type} (e : Err) (f : α → Except Err β) : (Except.error e >>= f) = Except.error e := rfl

theorem Agree.tolerant {s P P'} (h : Agree s P P') (a : Args) : P' (a.restrict s) = P' a := by
  rw [← h, ← h, Args.restrict_restrict]

theorem Agree.onFits {s P P'} (h : Agree s P P') (a : Args) (hf : a.fits s = true) : P a = P' a := by
  rw [← h, Args.restrict_of_fits a s hf]

theorem Agree.byHand {s P P'} (h : Agree s P P') (a : Args) : P' a = P (a.restrict s) := (h a).symm

theorem agree_leaf (sig : Sig) (f : Sem) : Agree sig (strict sig f) (tol sig f) := by
  intro a
  simp [strict, tol, Args.fits_restrict]

theorem agree_fixed {sP : Sig} {P P' : Sem} (n : V) (hP : Agree sP P P') (hs : sP.seats = true) :
    Agree { seats := false, prev := sP.prev, max := sP.max, ext := sP.ext }
      (fixedSeatCountImpl n P) (fixedSeatCountLaw n P') := by
  intro a
  simp only [fixedSeatCountImpl, fixedSeatCountLaw, hP.byHand]
  cases sP with | mk seats prev max ext =>
  simp at hs; subst hs
  simp [Args.restrict]

theorem agree_preConverted {sP : Sig} {P P' : Sem} (c : V → Except Err V) (hP : Agree sP P P') :
    Agree sP (preConvertedImpl c P) (preConvertedLaw c P') := by
  intro a
  simp only [preConvertedImpl, preConvertedLaw, hP.byHand]
  cases sP with | mk seats prev max ext =>
  cases seats <;> cases prev <;> cases max <;> cases ext <;> simp [Args.restrict]

theorem agree_postConverted {sP : Sig} {P P' : Sem} (c : V → Except Err V) (hP : Agree sP P P') :
    Agree sP (postConvertedImpl P c) (postConvertedLaw P' c) := by
  intro a
  simp only [postConvertedImpl, postConvertedLaw, hP.byHand, Args.restrict_restrict]

/-- Conditioned with truthful dispatch flags (`elimPrev`, `evSeats`, `evPrev`) -/
theorem agree_conditioned {sE sP : Sig} {E E' P P' : Sem} (depth : Nat)
    (hE : Agree sE E E') (hP : Agree sP P P') :
    Agree { seats := true, prev := true, max := sP.max, ext := sP.ext }
      (conditionedImpl sE.prev sP.seats sP.prev E P depth) (conditionedLaw E' P' depth) := by
  intro a
  simp only [conditionedImpl, conditionedLaw, hP.byHand, hE.byHand]
  cases sP with | mk seats prev max ext =>
  cases sE with | mk eseats eprev emax eext =>
  cases seats <;> cases prev <;> cases max <;> cases ext <;> cases eprev <;> simp [Args.restrict]

/-! ### apportionment -/

inductive AgreeApp : App Sem → App Sem → Prop
  | none : AgreeApp .none .none
  | int (k : Rat) : AgreeApp (.int k) (.int k)
  | dict (d : D) : AgreeApp (.dict d) (.dict d)
  | ev {sA : Sig} {A A' : Sem} : Agree sA A A' → sA.seats = true → AgreeApp (.ev A) (.ev A')

theorem apportion_eq {app app' : App Sem} (h : AgreeApp app app') (votes n : V) :
    apportion app votes n = apportionLaw app' votes n := by
  cases h with
  | none => cases n <;> simp [apportion, apportionLaw]
  | int k => simp [apportion, apportionLaw]
  | dict d => simp [apportion, apportionLaw]
  | @ev sA A A' hA hs =>
    cases sA with | mk seats prev max ext =>
    simp at hs; subst hs
    cases n <;> simp [apportion, apportionLaw, constituencyTotals, hA.byHand, Args.restrict]

/-! ### ByConstituency -/

theorem district_eq {sP : Sig} {P P' : Sem} (hP : Agree sP P P') (hs : sP.seats = true)
    (hpm : sP.prev = sP.max) (presel : Option V) (dv nd pv mx : V) :
    districtImpl sP.prev P presel dv nd pv mx = districtLaw P' presel dv nd pv mx := by
  cases sP with | mk seats prev max ext =>
  simp at hs hpm; subst hs; subst hpm
  simp only [districtImpl, districtLaw, hP.byHand]
  cases prev <;> simp [Args.restrict] <;> rfl

/-- the optional preselector together with the flag `accepts_seats(preselector)` -/
inductive AgreePre : Option Sem → Option Sem → Bool → Prop
  | none (b : Bool) : AgreePre Option.none Option.none b
  | some {sQ : Sig} {Q Q' : Sem} : Agree sQ Q Q' → AgreePre (some Q) (some Q') sQ.seats

theorem agree_byConstituency {sP : Sig} {P P' : Sem} {app app' : App Sem} {pre pre' : Option Sem}
    {preSeats : Bool} (hP : Agree sP P P') (hs : sP.seats = true) (hpm : sP.prev = sP.max)
    (happ : AgreeApp app app') (hpre : AgreePre pre pre' preSeats) :
    Agree allSig (byConstituencyImpl sP.prev preSeats P app pre) (byConstituencyLaw P' app' pre') := by
  intro a
  simp only [byConstituencyImpl, byConstituencyLaw, district_eq hP hs hpm, apportion_eq happ]
  cases hpre with
  | none b => simp [Args.restrict, allSig, Args.noExt] <;> rfl
  | @some sQ Q Q' hQ =>
    simp only [hQ.byHand]
    cases sQ with | mk seats prev max ext =>
    cases seats <;> simp [Args.restrict, allSig, Args.noExt] <;> rfl

theorem agree_preApportioned {sP : Sig} {P P' : Sem} {app app' : App Sem}
    (hP : Agree sP P P') (hs : sP.seats = true) (hp : sP.prev = true) (hm : sP.max = true)
    (happ : AgreeApp app app') :
    Agree allSig (preApportionedImpl P app) (preApportionedLaw P' app') := by
  intro a
  cases sP with | mk seats prev max ext =>
  simp at hs hp hm; subst hs; subst hp; subst hm
  simp [preApportionedImpl, preApportionedLaw, apportion_eq happ, hP.byHand, Args.restrict, allSig, Args.noExt]

theorem agree_removedApportionment {sP : Sig} {P P' : Sem}
    (hP : Agree sP P P') (hs : sP.seats = true) (hp : sP.prev = true) (hm : sP.max = true) :
    Agree allSig (removedApportionmentImpl P) (removedApportionmentLaw P') := by
  intro a
  cases sP with | mk seats prev max ext =>
  simp at hs hp hm; subst hs; subst hp; subst hm
  simp [removedApportionmentImpl, removedApportionmentLaw, hP.byHand, Args.restrict, allSig, Args.noExt]

theorem agree_byParty {sO sA : Sig} {O O' A A' : Sem} (hO : Agree sO O O') (hA : Agree sA A A')
    (hso : sO.seats = true) (hsa : sA.seats = true) (hp : sA.prev = true) (hm : sA.max = true) :
    Agree allSig (byPartyImpl sA.prev O A) (byPartyLaw O' A') := by
  intro a
  cases sO with | mk oseats oprev omax oext =>
  cases sA with | mk seats prev max ext =>
  simp at hso hsa hp hm; subst hso; subst hsa; subst hp; subst hm
  simp only [byPartyImpl, byPartyLaw, hO.byHand, hA.byHand]
  simp [Args.restrict, allSig, Args.noExt]

/-! ### multi-stage -/

/-- stage lists related pointwise; `gains` says whether the stages are handed prev_gains / max_seats -/
inductive AgreeStages (gains : Bool) : List Sem → List Sem → Prop
  | nil : AgreeStages gains [] []
  | cons {s : Sig} {P P' : Sem} {Ps Ps' : List Sem} :
      Agree s P P' → s.seats = true → (gains = true → s.prev = true ∧ s.max = true) →
      AgreeStages gains Ps Ps' → AgreeStages gains (P :: Ps) (P' :: Ps')

theorem AgreeStages.length_eq {g : Bool} {Ps Ps' : List Sem} (h : AgreeStages g Ps Ps') :
    Ps.length = Ps'.length := by
  induction h with
  | nil => rfl
  | cons _ _ _ _ ih => simp [ih]

theorem multistageLoop_eq {Ps Ps' : List Sem} (h : AgreeStages true Ps Ps') (depth : Nat) (n mx : V) :
    ∀ (vs : List V) (el : V),
      multistageLoop depth n mx (Ps.zip vs) el = chainStages depth n mx (Ps'.zip vs) el := by
  induction h with
  | nil => intro vs el; simp [multistageLoop, chainStages]
  | @cons s P P' Ps Ps' hP hs hg _ ih =>
    intro vs el
    cases vs with
    | nil => simp [multistageLoop, chainStages]
    | cons v vs =>
      obtain ⟨hp, hm⟩ := hg rfl
      cases s with | mk seats prev max ext =>
      simp at hs hp hm; subst hs; subst hp; subst hm
      simp [multistageLoop, chainStages, hP.byHand, Args.restrict, ih]

theorem agree_multistage {Ps Ps' : List Sem} (h : AgreeStages true Ps Ps') (depth : Nat) :
    Agree allSig (multistageImpl Ps depth) (multistageLaw Ps' depth) := by
  intro a
  simp only [multistageImpl, multistageLaw, multistageLoop_eq h, h.length_eq]
  simp [Args.restrict, allSig, Args.noExt] <;> rfl

theorem zipQuotas_agree {Ps Ps' : List Sem} (h : AgreeStages false Ps Ps') (depth : Nat) :
    ∀ (qs : List (Option QuotaFn)) (votes n el : V),
      unusedLoop depth (zipQuotas Ps qs) votes n el = chainUnused depth (zipQuotas Ps' qs) votes n el := by
  induction h with
  | nil => intro qs votes n el; cases qs <;> simp [zipQuotas, unusedLoop, chainUnused]
  | @cons s P P' Ps Ps' hP hs _ _ ih =>
    intro qs votes n el
    cases qs with
    | nil => simp [zipQuotas, unusedLoop, chainUnused]
    | cons q qs =>
      cases s with | mk seats prev max ext =>
      simp at hs; subst hs
      cases q <;> simp [zipQuotas, unusedLoop, chainUnused, hP.byHand, Args.restrict, ih]

theorem agree_unusedVotes {Ps Ps' : List Sem} (h : AgreeStages false Ps Ps') (quotas : List QuotaFn)
    (depth : Nat) : Agree allSig (unusedVotesImpl Ps quotas depth) (unusedVotesLaw Ps' quotas depth) := by
  intro a
  simp only [unusedVotesImpl, unusedVotesLaw, zipQuotas_agree h]
  simp [Args.restrict, allSig, Args.noExt] <;> rfl

/-! ### party lists, tie-breaking -/

theorem agree_partyList {sP : Sig} {P P' : Sem} (hP : Agree sP P P') (hs : sP.seats = true)
    (le : Option ListSem) (conv : Option (V → Except Err V)) :
    Agree { seats := true, prev := sP.prev, max := sP.max, ext := true }
      (partyListImpl P le conv) (partyListLaw P' le conv) := by
  intro a
  cases sP with | mk seats prev max ext =>
  simp at hs; subst hs
  simp only [partyListImpl, partyListLaw, hP.byHand]
  cases prev <;> cases max <;> simp [Args.restrict] <;> rfl

theorem collectDist_noTie (d : D) (h : d.any (fun p => keyIsTie p.1) = false) : collectDist d = .ok [] := by
  induction d with
  | nil => rfl
  | cons p ps ih =>
    simp only [List.any_cons, Bool.or_eq_false_iff] at h
    obtain ⟨hp, hps⟩ := h
    have := ih hps
    obtain ⟨k, v⟩ := p
    cases k with
    | cand c => simp_all [collectDist, List.filterMapM_cons]
    | tie cs => simp [keyIsTie] at hp

theorem agree_tieBreaking {sM sT : Sig} {M M' T T' : Sem} (hM : Agree sM M M') (hT : Agree sT T T')
    (hs : sT.seats = true) : Agree sM (tieBreakingImpl M T) (tieBreakingLaw M' T') := by
  intro a
  cases sT with | mk seats prev max ext =>
  simp at hs; subst hs
  simp only [tieBreakingImpl, tieBreakingLaw, ← hM a]
  cases hr : M (a.restrict sM) with
  | error e => rfl
  | ok r =>
    cases r with
    | list l => simp [tieChoice, hT.byHand, Args.restrict, bind_assoc]
    | dict d =>
      by_cases hany : d.any (fun p => keyIsTie p.1) = true
      · simp [hany, tieChoice, hT.byHand, Args.restrict, bind_assoc, replaceDist, addChosen]
      · simp only [Bool.not_eq_true] at hany
        simp [hany, collectDist_noTie d hany]
        rfl
    | num _ => rfl
    | cand _ => rfl
    | tie _ => rfl
    | none => rfl

end VL.C14
