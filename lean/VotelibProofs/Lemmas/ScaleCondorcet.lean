/-
  C11: the Condorcet evaluators on pairwise dictionaries are scale invariant — every comparison is between two vote
  quantities, scores either scale with the votes or are vote-free (win counts).
-/
import VotelibProofs.Lemmas.ScaleBasic
import VotelibProofs.Props.C09
import VotelibModel.CondorcetEval
import Mathlib.Tactic.Linarith
namespace VL.Scale
open VL VL.Condorcet

/-- a pairwise dictionary with every count multiplied by `k` -/
def scaleP (k : Rat) (v : Pairwise) : Pairwise := v.map (fun e => (e.1, k * e.2))

theorem getNBest_scaleC (k : Rat) (hk : 0 < k) (votes : Votes) (n : Nat) :
    getNBest (scaleVotes k votes) n = getNBest votes n :=
  VL.C09.getNBest_strictMono_map (fun x => k * x) (fun _ _ h => mul_lt_mul_of_pos_left h hk) votes n

theorem foldl_sim' {σ σ' β : Type} (g : σ → σ') (f : σ → β → σ) (f' : σ' → β → σ')
    (hstep : ∀ s b, f' (g s) b = g (f s b)) :
    ∀ (l : List β) (s : σ), l.foldl f' (g s) = g (l.foldl f s) := by
  intro l
  induction l with
  | nil => intro s; rfl
  | cons b bs ih => intro s; simp only [List.foldl_cons, hstep, ih]

theorem foldl_simMap {σ σ' β β' : Type} (g : σ → σ') (f : σ → β → σ) (f' : σ' → β' → σ') (h : β → β')
    (hstep : ∀ s b, f' (g s) (h b) = g (f s b)) :
    ∀ (l : List β) (s : σ), (l.map h).foldl f' (g s) = g (l.foldl f s) := by
  intro l
  induction l with
  | nil => intro s; rfl
  | cons b bs ih => intro s; simp only [List.map_cons, List.foldl_cons, hstep, ih]

theorem pget_scale (k : Rat) (v : Pairwise) (p : Pair) : pget (scaleP k v) p = k * pget v p := by
  unfold pget scaleP
  induction v with
  | nil => simp
  | cons e t ih =>
    simp only [List.map_cons, List.find?_cons]
    by_cases he : e.1 = p
    · simp [he]
    · simp only [he, decide_false]; exact ih

theorem flatCands_scale (k : Rat) (v : Pairwise) : flatCands (scaleP k v) = flatCands v := by
  unfold flatCands scaleP; rw [List.flatMap_map]

theorem candidates_scale (k : Rat) (v : Pairwise) : candidates (scaleP k v) = candidates v := by
  unfold candidates; rw [flatCands_scale]

theorem scaleP_keys (k : Rat) (v : Pairwise) : (scaleP k v).map (·.1) = v.map (·.1) := by
  unfold scaleP; simp [List.map_map, Function.comp_def]

theorem pairwiseWins_scale (k : Rat) (hk : 0 < k) (v : Pairwise) (t : Bool) :
    pairwiseWins (scaleP k v) t = pairwiseWins v t := by
  unfold pairwiseWins
  have hfun : (fun e : Pair × Rat => decide (pget (scaleP k v) (e.1.2, e.1.1) < e.2) ||
        (t && decide (pget (scaleP k v) (e.1.2, e.1.1) = e.2)))
      = (fun e : Pair × Rat => decide (k * pget v (e.1.2, e.1.1) < e.2) || (t && decide (k * pget v (e.1.2, e.1.1) = e.2))) := by
    funext e; rw [pget_scale]
  simp only [hfun]
  unfold scaleP
  rw [List.filter_map, List.map_map]
  congr 1
  apply List.filter_congr
  intro e _
  simp only [Function.comp, mul_lt_mul_iff_right₀ hk, mul_right_inj' (ne_of_gt hk)]

theorem beatCounts_scale (k : Rat) (hk : 0 < k) (v : Pairwise) : beatCounts (scaleP k v) = beatCounts v := by
  unfold beatCounts; rw [pairwiseWins_scale k hk]

/-- **CondorcetWinner** -/
theorem condorcetWinner_scale (k : Rat) (hk : 0 < k) (v : Pairwise) : condorcetWinner (scaleP k v) = condorcetWinner v := by
  unfold condorcetWinner; simp only [beatCounts_scale k hk, candidates_scale]

theorem seededScores_scale (k : Rat) (v : Pairwise) (raw : Votes) : seededScores (scaleP k v) raw = seededScores v raw := by
  unfold seededScores; rw [candidates_scale]

/-- **Smith and Schwartz sets** -/
theorem smithSchwartz_scale (k : Rat) (hk : 0 < k) (v : Pairwise) (ties : Bool) :
    smithSchwartz (scaleP k v) ties = smithSchwartz v ties := by
  unfold smithSchwartz; simp only [pairwiseWins_scale k hk, candidates_scale, seededScores_scale]

/-- **Copeland** (first and second order) -/
theorem copeland_scale (k : Rat) (hk : 0 < k) (so : Bool) (v : Pairwise) (n : Nat) :
    copeland so (scaleP k v) n = copeland so v n := by
  unfold copeland; simp only [pairwiseWins_scale k hk, seededScores_scale]

theorem copelandGroups_scale (k : Rat) (hk : 0 < k) (v : Pairwise) (n : Nat) :
    copelandGroups (scaleP k v) n = copelandGroups v n := by
  unfold copelandGroups; simp only [pairwiseWins_scale k hk, seededScores_scale]

/-! ### Schulze -/

theorem rmax_scale (k : Rat) (hk : 0 < k) (a b : Rat) : rmax (k * a) (k * b) = k * rmax a b := by
  unfold rmax; simp only [mul_lt_mul_iff_right₀ hk]; split <;> rfl

theorem rmin_scale (k : Rat) (hk : 0 < k) (a b : Rat) : rmin (k * a) (k * b) = k * rmin a b := by
  unfold rmin; simp only [mul_lt_mul_iff_right₀ hk]; split <;> rfl

theorem pset_scale (k : Rat) (v : Pairwise) (p : Pair) (x : Rat) : pset (scaleP k v) p (k * x) = scaleP k (pset v p x) := by
  unfold scaleP
  induction v with
  | nil => rfl
  | cons e t ih =>
    obtain ⟨q, y⟩ := e
    simp only [List.map_cons, pset]
    by_cases hq : q = p
    · simp only [hq, if_true, List.map_cons]
    · simp only [hq, if_false, List.map_cons, ih]

theorem widestPaths_scale (k : Rat) (hk : 0 < k) (v : Pairwise) : widestPaths (scaleP k v) = scaleP k (widestPaths v) := by
  unfold widestPaths
  simp only [candidates_scale]
  have hp0 : (scaleP k v).filter (fun e => decide (pget (scaleP k v) (e.1.2, e.1.1) < e.2))
      = scaleP k (v.filter (fun e => decide (pget v (e.1.2, e.1.1) < e.2))) := by
    have hfun : (fun e : Pair × Rat => decide (pget (scaleP k v) (e.1.2, e.1.1) < e.2))
        = (fun e : Pair × Rat => decide (k * pget v (e.1.2, e.1.1) < e.2)) := by
      funext e; rw [pget_scale]
    rw [hfun]
    unfold scaleP
    rw [List.filter_map]
    congr 1
    apply List.filter_congr
    intro e _
    simp only [Function.comp, mul_lt_mul_iff_right₀ hk]
  rw [hp0]
  apply foldl_sim' (scaleP k)
  intro p1 c1
  apply foldl_sim' (scaleP k)
  intro p2 c2
  by_cases h12 : (c1 != c2) = true
  · simp only [h12, if_true]
    apply foldl_sim' (scaleP k)
    intro p3 ca
    by_cases hca : (ca != c1 && ca != c2) = true
    · simp only [hca, if_true, pget_scale, rmin_scale k hk, rmax_scale k hk, pset_scale]
    · simp only [hca, if_false]; rfl
  · simp only [h12, if_false]; rfl

/-- **Schulze** -/
theorem schulze_scale (k : Rat) (hk : 0 < k) (v : Pairwise) (n : Nat) : schulze (scaleP k v) n = schulze v n := by
  unfold schulze
  simp only [widestPaths_scale k hk, pairwiseWins_scale k hk, candidates_scale]

/-! ### pairwise win scorers, ranked pairs -/

theorem winning_votes_value_scale (k : Rat) (hk : 0 < k) (c r : Rat) :
    Gen.PairwinScorer.winning_votes_value (k * c) (k * r) = k * Gen.PairwinScorer.winning_votes_value c r := by
  unfold Gen.PairwinScorer.winning_votes_value
  simp only [gt_iff_lt, mul_lt_mul_iff_right₀ hk, decide_eq_true_eq]
  split <;> simp

theorem margins_value_scale (k : Rat) (c r : Rat) :
    Gen.PairwinScorer.margins_value (k * c) (k * r) = k * Gen.PairwinScorer.margins_value c r := by
  unfold Gen.PairwinScorer.margins_value; rw [mul_sub]

theorem pairwise_opposition_value_scale (k : Rat) (c r : Rat) :
    Gen.PairwinScorer.pairwise_opposition_value (k * c) (k * r) = k * Gen.PairwinScorer.pairwise_opposition_value c r := rfl

theorem scorePairs_scale (k : Rat) (hk : 0 < k) (sc : Scorer) (v : Pairwise) :
    scorePairs sc (scaleP k v) = scaleP k (scorePairs sc v) := by
  have hpg : pget (scaleP k v) = fun p => k * pget v p := by funext p; exact pget_scale k v p
  cases sc <;>
  · simp only [scorePairs, hpg]
    unfold scaleP
    rw [List.map_map, List.map_map]
    apply List.map_congr_left
    intro e _
    simp only [Function.comp, winning_votes_value_scale k hk, margins_value_scale, pairwise_opposition_value_scale]

theorem insertDescBy_congr (key key' : Pair → Rat) (h : ∀ a b, key' a < key' b ↔ key a < key b) (x : Pair) (l : List Pair) :
    insertDescBy key' x l = insertDescBy key x l := by
  induction l with
  | nil => rfl
  | cons y ys ih => simp only [insertDescBy, h, ih]

theorem sortDescBy_congr (key key' : Pair → Rat) (h : ∀ a b, key' a < key' b ↔ key a < key b) (l : List Pair) :
    sortDescBy key' l = sortDescBy key l := by
  induction l with
  | nil => rfl
  | cons x xs ih => simp only [sortDescBy, ih, insertDescBy_congr key key' h]

theorem sortDescBy_pget_scale (k : Rat) (hk : 0 < k) (v : Pairwise) (l : List Pair) :
    sortDescBy (pget (scaleP k v)) l = sortDescBy (pget v) l :=
  sortDescBy_congr (pget v) (pget (scaleP k v)) (fun a b => by rw [pget_scale, pget_scale, mul_lt_mul_iff_right₀ hk]) l

/-- **Ranked pairs** (every scorer) -/
theorem rankedPairs_scale (k : Rat) (hk : 0 < k) (sc : Scorer) (v : Pairwise) (n : Nat) :
    rankedPairs sc (scaleP k v) n = rankedPairs sc v n := by
  unfold rankedPairs
  simp only [scorePairs_scale k hk, sortDescBy_pget_scale k hk, scaleP_keys]

/-! ### Kemeny-Young -/

theorem kyScore_scale (k : Rat) (v : Pairwise) (l : List Cand) : kyScore (scaleP k v) l = k * kyScore v l := by
  induction l with
  | nil => simp [kyScore]
  | cons x xs ih =>
    simp only [kyScore, ih]
    have h := foldl_sim' (fun a : Rat => k * a) (fun acc y => acc + pget v (x, y))
      (fun acc y => acc + pget (scaleP k v) (x, y)) (by intro s b; simp only [pget_scale, mul_add]) xs 0
    simp only [mul_zero] at h
    rw [h, mul_add]

/-- **Kemeny-Young** (including the refusal on a non-unique maximiser) -/
theorem kemenyYoung_scale (k : Rat) (hk : 0 < k) (v : Pairwise) (n : Nat) :
    kemenyYoung (scaleP k v) n = kemenyYoung v n := by
  unfold kemenyYoung
  simp only [candidates_scale]
  have h := foldl_sim' (fun st : List (List Cand) × Rat => (st.1, k * st.2))
    (fun (st : List (List Cand) × Rat) variant =>
      let score := kyScore v variant
      if st.2 ≤ score then
        if st.2 < score then ([variant], score) else (st.1 ++ [variant], st.2)
      else st)
    (fun (st : List (List Cand) × Rat) variant =>
      let score := kyScore (scaleP k v) variant
      if st.2 ≤ score then
        if st.2 < score then ([variant], score) else (st.1 ++ [variant], st.2)
      else st)
    (by
      intro st variant
      simp only [kyScore_scale, mul_le_mul_iff_right₀ hk, mul_lt_mul_iff_right₀ hk]
      split
      · split <;> rfl
      · rfl)
    (perms (candidates v)) ([], 0)
  simp only [mul_zero] at h
  rw [h]

/-! ### minimax -/

theorem allPairs_scale (k : Rat) (v : Pairwise) : allPairs (scaleP k v) = scaleP k (allPairs v) := by
  unfold allPairs
  simp only [candidates_scale, pget_scale]
  unfold scaleP
  have hcomm : ∀ L : Pairwise, List.map (fun e : Pair × Rat => (e.1, k * e.2)) (List.filter (fun e => e.1.1 != e.1.2) L)
      = List.filter (fun e => e.1.1 != e.1.2) (List.map (fun e : Pair × Rat => (e.1, k * e.2)) L) := by
    intro L; rw [List.filter_map]; rfl
  rw [hcomm]
  congr 1
  rw [List.map_flatMap]
  simp only [List.map_map, Function.comp_def]

/-- the table of worst counter-scores with every finite entry multiplied by `k` -/
def scaleT (k : Rat) (m : List (Cand × Option Rat)) : List (Cand × Option Rat) :=
  m.map (fun e => (e.1, e.2.map (fun s => k * s)))

theorem oget_scaleT (k : Rat) (m : List (Cand × Option Rat)) (c : Cand) :
    oget (scaleT k m) c = (oget m c).map (fun s => k * s) := by
  unfold oget scaleT
  induction m with
  | nil => rfl
  | cons e t ih =>
    simp only [List.map_cons, List.find?_cons]
    by_cases he : e.1 = c
    · simp [he]
    · simp only [he, decide_false]; exact ih

theorem oset_scaleT (k : Rat) (m : List (Cand × Option Rat)) (c : Cand) (x : Option Rat) :
    oset (scaleT k m) c (x.map (fun s => k * s)) = scaleT k (oset m c x) := by
  unfold scaleT
  induction m with
  | nil => rfl
  | cons e t ih =>
    obtain ⟨d, y⟩ := e
    simp only [List.map_cons, oset]
    by_cases hd : d = c
    · simp only [hd, if_true, List.map_cons]
    · simp only [hd, if_false, List.map_cons, ih]

theorem maxCounterscoreOn_scale (k : Rat) (hk : 0 < k) (cands : List Cand) (scored : Pairwise) :
    maxCounterscoreOn cands (scaleP k scored) = scaleT k (maxCounterscoreOn cands scored) := by
  unfold maxCounterscoreOn
  have hinit : cands.map (fun c => (c, (none : Option Rat))) = scaleT k (cands.map (fun c => (c, (none : Option Rat)))) := by
    unfold scaleT; simp [List.map_map, Function.comp_def]
  conv_lhs => rw [hinit]
  unfold scaleP
  apply foldl_simMap (scaleT k)
  intro m e
  simp only [oget_scaleT]
  rw [← oset_scaleT]
  cases oget m e.1.2 with
  | none => rfl
  | some a => simp only [Option.map, rmax_scale k hk]

theorem minimaxTable_scale (k : Rat) (hk : 0 < k) (sc : Scorer) (v : Pairwise) :
    minimaxTable sc (scaleP k v) = scaleT k (minimaxTable sc v) := by
  unfold minimaxTable
  rw [candidates_scale, allPairs_scale, scorePairs_scale k hk, maxCounterscoreOn_scale k hk]

/-- the fold inside `minimaxBig` -/
def bigFold (m : List (Cand × Option Rat)) (a : Rat) : Rat :=
  m.foldl (fun acc e => match e.2 with
    | some s => rmax acc (-s)
    | none => acc) a

theorem minimaxBig_eq (m : List (Cand × Option Rat)) : minimaxBig m = 1 + bigFold m 0 := rfl

theorem bigFold_scale (k : Rat) (hk : 0 < k) (m : List (Cand × Option Rat)) (a : Rat) :
    bigFold (scaleT k m) (k * a) = k * bigFold m a := by
  unfold bigFold scaleT
  apply foldl_simMap (fun a : Rat => k * a)
  intro s e
  cases e.2 with
  | none => rfl
  | some x => simp only [Option.map]; rw [← mul_neg, rmax_scale k hk]

theorem le_rmax_left (a b : Rat) : a ≤ rmax a b := by unfold rmax; split <;> [exact le_of_lt ‹_›; exact le_refl _]
theorem le_rmax_right (a b : Rat) : b ≤ rmax a b := by unfold rmax; split <;> [exact le_refl _; exact not_lt.mp ‹_›]

theorem bigFold_ge_init (m : List (Cand × Option Rat)) : ∀ a, a ≤ bigFold m a := by
  unfold bigFold
  induction m with
  | nil => intro a; exact le_refl _
  | cons e t ih =>
    intro a
    simp only [List.foldl_cons]
    cases e.2 with
    | none => exact ih a
    | some s => exact le_trans (le_rmax_left a (-s)) (ih _)

theorem bigFold_ge_mem (m : List (Cand × Option Rat)) : ∀ a, ∀ e ∈ m, ∀ s, e.2 = some s → -s ≤ bigFold m a := by
  induction m with
  | nil => intro a e he; cases he
  | cons x t ih =>
    intro a e he s hs
    rcases List.mem_cons.mp he with h | h
    · subst h
      have : bigFold (e :: t) a = bigFold t (rmax a (-s)) := by
        unfold bigFold; simp only [List.foldl_cons, hs]
      rw [this]
      exact le_trans (le_rmax_right a (-s)) (bigFold_ge_init t _)
    · have : bigFold (x :: t) a = bigFold t (match x.2 with | some s => rmax a (-s) | none => a) := by
        unfold bigFold; simp only [List.foldl_cons]
      rw [this]
      exact ih _ e h s hs

/-- the strictly increasing re-valuation that maps the unscaled minimax values to the scaled ones:
    `x ↦ k·x` up to `M`, slope 1 above (so that the stand-in for `+inf`, `1 + M`, goes to `1 + k·M`) -/
def bend (k M x : Rat) : Rat := if x ≤ M then k * x else k * M + (x - M)

theorem bend_strictMono (k : Rat) (hk : 0 < k) (M : Rat) : StrictMono (bend k M) := by
  intro x y hxy
  unfold bend
  by_cases hx : x ≤ M
  · by_cases hy : y ≤ M
    · rw [if_pos hx, if_pos hy]; exact mul_lt_mul_of_pos_left hxy hk
    · rw [if_pos hx, if_neg hy]
      have h1 : k * x ≤ k * M := mul_le_mul_of_nonneg_left hx (le_of_lt hk)
      have h2 : 0 < y - M := sub_pos.mpr (not_le.mp hy)
      linarith
  · have hy : ¬ y ≤ M := fun h => hx (le_trans (le_of_lt hxy) h)
    rw [if_neg hx, if_neg hy]; linarith

/-- the value `get_n_best` sees for a table entry -/
def negOrBig (big : Rat) : Option Rat → Rat
  | some s => -s
  | none => big

theorem minimax_eq (sc : Scorer) (v : Pairwise) (n : Nat) :
    minimax sc v n = getNBest ((minimaxTable sc v).map
      (fun e => (e.1, negOrBig (1 + bigFold (minimaxTable sc v) 0) e.2))) n := by
  unfold minimax
  simp only [minimaxBig_eq]
  congr 1

/-- **minimax** (all three scorers) -/
theorem minimax_scale (k : Rat) (hk : 0 < k) (sc : Scorer) (v : Pairwise) (n : Nat) :
    minimax sc (scaleP k v) n = minimax sc v n := by
  rw [minimax_eq, minimax_eq, minimaxTable_scale k hk]
  have hbig : bigFold (scaleT k (minimaxTable sc v)) 0 = k * bigFold (minimaxTable sc v) 0 := by
    have := bigFold_scale k hk (minimaxTable sc v) 0
    rwa [mul_zero] at this
  rw [hbig]
  generalize minimaxTable sc v = m
  generalize hM : bigFold m 0 = M
  have hlist : (scaleT k m).map (fun e => (e.1, negOrBig (1 + k * M) e.2))
      = (m.map (fun e => (e.1, negOrBig (1 + M) e.2))).map (fun p => (p.1, bend k M p.2)) := by
    unfold scaleT
    rw [List.map_map, List.map_map]
    apply List.map_congr_left
    intro e he
    simp only [Function.comp]
    cases hs : e.2 with
    | none =>
      simp only [Option.map, negOrBig, Prod.mk.injEq, true_and]
      unfold bend
      rw [if_neg (by linarith)]
      ring
    | some s =>
      simp only [Option.map, negOrBig, Prod.mk.injEq, true_and]
      unfold bend
      have hle : -s ≤ M := by rw [← hM]; exact bigFold_ge_mem m 0 e he s hs
      rw [if_pos hle]
      ring
  rw [hlist]
  exact VL.C09.getNBest_strictMono_map (bend k M) (bend_strictMono k hk M) _ n

end VL.Scale
