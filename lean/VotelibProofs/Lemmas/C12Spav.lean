/-
  Helper lemmas for C12 (SPAV): the `defaultdict` accumulation, the round table, `get_n_best(·, 1)`.
-/
import VotelibProofs.Lemmas.C12Approval
import VotelibProofs.Props.C09
namespace VL.Appr
open VL

/-! ### generic: unique strict maximum of a duplicate-free list -/

theorem argmax_singleton_iff {α : Type} [DecidableEq α] {l : List α} (hnd : l.Nodup) (f : α → Rat) {a : α} :
    l.filter (fun x => l.all (fun y => decide (f y ≤ f x))) = [a] ↔
      a ∈ l ∧ ∀ b ∈ l, b ≠ a → f b < f a := by
  constructor
  · intro h
    have ha : a ∈ l.filter (fun x => l.all (fun y => decide (f y ≤ f x))) := by rw [h]; simp
    have ha' := List.mem_filter.mp ha
    refine ⟨ha'.1, ?_⟩
    intro b hb hne
    have hle : f b ≤ f a := by
      have := List.all_eq_true.mp ha'.2 b hb
      simpa using this
    rcases lt_or_eq_of_le hle with hlt | heq
    · exact hlt
    · exfalso
      have hbm : b ∈ l.filter (fun x => l.all (fun y => decide (f y ≤ f x))) := by
        apply List.mem_filter.mpr
        refine ⟨hb, ?_⟩
        rw [List.all_eq_true]
        intro c hc'
        have := List.all_eq_true.mp ha'.2 c hc'
        simp only [decide_eq_true_eq] at this ⊢
        rw [heq]; exact this
      rw [h] at hbm
      exact hne (List.mem_singleton.mp hbm)
  · rintro ⟨ha, hlt⟩
    have hnd' : (l.filter (fun x => l.all (fun y => decide (f y ≤ f x)))).Nodup := hnd.filter _
    have hall : ∀ b ∈ l.filter (fun x => l.all (fun y => decide (f y ≤ f x))), b = a := by
      intro b hb
      by_contra hne
      have hb' := List.mem_filter.mp hb
      have h1 := hlt b hb'.1 hne
      have h2 := List.all_eq_true.mp hb'.2 a ha
      simp only [decide_eq_true_eq] at h2
      exact absurd h1 (not_lt.mpr h2)
    have hamem : a ∈ l.filter (fun x => l.all (fun y => decide (f y ≤ f x))) := by
      apply List.mem_filter.mpr
      refine ⟨ha, ?_⟩
      rw [List.all_eq_true]
      intro b hb
      simp only [decide_eq_true_eq]
      by_cases hba : b = a
      · rw [hba]
      · exact le_of_lt (hlt b hb hba)
    rcases hm : l.filter (fun x => l.all (fun y => decide (f y ≤ f x))) with _ | ⟨x, _ | ⟨y, t⟩⟩
    · rw [hm] at hamem; simp at hamem
    · rw [hm] at hall; rw [hall x (by simp)]
    · exfalso
      rw [hm] at hall hnd'
      have hx := hall x (by simp)
      have hy := hall y (by simp)
      rw [hx, hy] at hnd'
      simp at hnd'

/-! ### `defaultdict` accumulation -/

theorem lookup_addVote (d : Votes) (c : Cand) (x : Rat) (c' : Cand) :
    lookup (addVote d c x) c' = if c' = c then some (getD d c 0 + x) else lookup d c' := by
  induction d with
  | nil =>
    simp only [addVote, lookup, getD, List.find?]
    by_cases h : c' = c
    · subst h; simp
    · have : ¬ c = c' := fun h' => h h'.symm
      simp [h, this]
  | cons kv rest ih =>
    obtain ⟨k, v⟩ := kv
    unfold addVote
    by_cases hk : k = c
    · subst hk
      rw [if_pos rfl]
      by_cases h : c' = k
      · subst h; simp [lookup, getD]
      · have : ¬ k = c' := fun h' => h h'.symm
        simp [lookup, h, this]
    · rw [if_neg hk]
      by_cases hkc' : k = c'
      · subst hkc'
        have : ¬ k = c := hk
        simp [lookup, this]
      · have e1 : lookup ((k, v) :: addVote rest c x) c' = lookup (addVote rest c x) c' := by
          simp [lookup, hkc']
        have e2 : lookup ((k, v) :: rest) c' = lookup rest c' := by simp [lookup, hkc']
        have e3 : getD ((k, v) :: rest) c 0 = getD rest c 0 := by simp [getD, lookup, hk]
        rw [e1, e2, e3, ih]

theorem getD_addVote (d : Votes) (c : Cand) (x : Rat) (c' : Cand) :
    getD (addVote d c x) c' 0 = getD d c' 0 + (if c' = c then x else 0) := by
  unfold getD
  rw [lookup_addVote]
  by_cases h : c' = c
  · subst h; simp [getD]
  · simp [h]

theorem keys_addVote (d : Votes) (c : Cand) (x : Rat) :
    keys (addVote d c x) = if c ∈ keys d then keys d else keys d ++ [c] := by
  induction d with
  | nil => simp [addVote, keys]
  | cons kv rest ih =>
    obtain ⟨k, v⟩ := kv
    unfold addVote
    by_cases hk : k = c
    · subst hk; simp [keys]
    · rw [if_neg hk]
      have hck : ¬ c = k := fun h => hk h.symm
      simp only [keys, List.map_cons, List.mem_cons, hck, false_or] at ih ⊢
      rw [ih]
      split <;> rename_i h <;> simp [h]

theorem mem_keys_addVote {d : Votes} {c : Cand} {x : Rat} {c' : Cand} :
    c' ∈ keys (addVote d c x) ↔ c' ∈ keys d ∨ c' = c := by
  rw [keys_addVote]
  split
  · rename_i h
    constructor
    · exact Or.inl
    · rintro (h' | rfl)
      · exact h'
      · exact h
  · simp

theorem nodup_keys_addVote {d : Votes} (h : (keys d).Nodup) (c : Cand) (x : Rat) : (keys (addVote d c x)).Nodup := by
  rw [keys_addVote]
  split
  · exact h
  · rename_i hc
    rw [List.nodup_append]
    refine ⟨h, by simp, ?_⟩
    intro a ha b hb
    simp at hb; subst hb
    intro hab; subst hab; exact hc ha

/-- accumulate a list of (candidate, amount) pairs -/
def accum (d : Votes) (ps : List (Cand × Rat)) : Votes := ps.foldl (fun d p => addVote d p.1 p.2) d

theorem getD_accum (ps : List (Cand × Rat)) : ∀ (d : Votes) (c : Cand),
    getD (accum d ps) c 0 = getD d c 0 + ((ps.filter (fun p => p.1 = c)).map (·.2)).sum := by
  induction ps with
  | nil => intro d c; simp [accum]
  | cons p ps ih =>
    intro d c
    have : accum d (p :: ps) = accum (addVote d p.1 p.2) ps := rfl
    rw [this, ih, getD_addVote]
    by_cases h : c = p.1
    · have h' : p.1 = c := h.symm
      simp [List.filter_cons, h, add_assoc]
    · have h' : ¬ p.1 = c := fun h'' => h h''.symm
      simp [List.filter_cons, h, h']

theorem mem_keys_accum (ps : List (Cand × Rat)) : ∀ (d : Votes) (c : Cand),
    c ∈ keys (accum d ps) ↔ c ∈ keys d ∨ ∃ p ∈ ps, p.1 = c := by
  induction ps with
  | nil => intro d c; simp [accum]
  | cons p ps ih =>
    intro d c
    have : accum d (p :: ps) = accum (addVote d p.1 p.2) ps := rfl
    rw [this, ih, mem_keys_addVote]
    simp only [List.mem_cons, exists_eq_or_imp]
    constructor
    · rintro ((h | h) | h)
      · exact Or.inl h
      · exact Or.inr (Or.inl h.symm)
      · exact Or.inr (Or.inr h)
    · rintro (h | h | h)
      · exact Or.inl (Or.inl h)
      · exact Or.inl (Or.inr h.symm)
      · exact Or.inr h

theorem nodup_keys_accum (ps : List (Cand × Rat)) : ∀ (d : Votes), (keys d).Nodup → (keys (accum d ps)).Nodup := by
  induction ps with
  | nil => intro d h; exact h
  | cons p ps ih => intro d h; exact ih _ (nodup_keys_addVote h _ _)

/-- in a dict with distinct keys an entry is what lookup finds -/
theorem getD_of_mem {d : Votes} (hnd : (keys d).Nodup) {p : Cand × Rat} (hp : p ∈ d) : getD d p.1 0 = p.2 := by
  induction d with
  | nil => cases hp
  | cons q rest ih =>
    have hq := List.nodup_cons.mp hnd
    rcases List.mem_cons.mp hp with rfl | hp'
    · simp [getD, lookup]
    · have hne : ¬ q.1 = p.1 := by
        intro h
        apply hq.1
        exact List.mem_map.mpr ⟨p, hp', h.symm⟩
      have : getD (q :: rest) p.1 0 = getD rest p.1 0 := by simp [getD, lookup, hne]
      rw [this]
      exact ih hq.2 hp'

theorem mem_of_mem_keys {d : Votes} {c : Cand} (h : c ∈ keys d) : ∃ v, (c, v) ∈ d := by
  obtain ⟨p, hp, rfl⟩ := List.mem_map.mp h
  exact ⟨p.2, hp⟩

/-! ### the round table of SPAV -/

/-- the (candidate, amount) pairs the double loop L153-159 adds, in order -/
def roundPairs (votes : Profile) (elected : List Cand) : List (Cand × Rat) :=
  votes.flatMap (fun bw => bw.1.map (fun c => (c, bw.2 / (((interLen bw.1 elected + 1 : Nat)) : Rat))))

theorem roundVotes_eq_accum (votes : Profile) (elected : List Cand) :
    roundVotes votes elected = accum [] (roundPairs votes elected) := by
  unfold roundVotes accum roundPairs
  rw [List.foldl_flatMap]
  congr 1
  funext d bw
  rw [List.foldl_map]

theorem ballot_sum {b : List Cand} (hb : b.Nodup) (x : Rat) (c : Cand) :
    (((b.map (fun c' => (c', x))).filter (fun p => p.1 = c)).map (·.2)).sum = if b.contains c then x else 0 := by
  induction b with
  | nil => simp
  | cons y ys ih =>
    have hy := List.nodup_cons.mp hb
    by_cases h : y = c
    · subst h
      have hnot : ¬ ys.contains y = true := by simpa using hy.1
      have := ih hy.2
      rw [if_neg hnot] at this
      simp [List.filter_cons, this]
    · have h' : ¬ c = y := fun h'' => h h''.symm
      have := ih hy.2
      simp only [List.map_cons, List.filter_cons, h, decide_false, Bool.false_eq_true, if_false, this]
      simp [h']

theorem roundPairs_sum {votes : Profile} (hwf : WF votes) (elected : List Cand) (c : Cand) :
    (((roundPairs votes elected).filter (fun p => p.1 = c)).map (·.2)).sum = reweighted votes elected c := by
  unfold roundPairs reweighted
  induction votes with
  | nil => simp
  | cons bw rest ih =>
    have hwf' : WF rest := fun x hx => hwf x (List.mem_cons_of_mem _ hx)
    rw [List.flatMap_cons, List.filter_append, List.map_append, List.sum_append, ih hwf',
      ballot_sum (hwf bw List.mem_cons_self)]
    simp

theorem roundVotes_getD {votes : Profile} (hwf : WF votes) (elected : List Cand) (c : Cand) :
    getD (roundVotes votes elected) c 0 = reweighted votes elected c := by
  rw [roundVotes_eq_accum, getD_accum, roundPairs_sum hwf]
  simp [getD, lookup]

theorem roundVotes_mem_keys (votes : Profile) (elected : List Cand) (c : Cand) :
    c ∈ keys (roundVotes votes elected) ↔ c ∈ allCands votes := by
  rw [roundVotes_eq_accum, mem_keys_accum, mem_allCands]
  unfold roundPairs
  simp only [keys, List.map_nil, List.not_mem_nil, false_or, List.mem_flatMap, List.mem_map]
  constructor
  · rintro ⟨p, ⟨bw, hbw, c', hc', rfl⟩, rfl⟩
    exact ⟨bw, hbw, hc'⟩
  · rintro ⟨bw, hbw, hc⟩
    exact ⟨_, ⟨bw, hbw, c, hc, rfl⟩, rfl⟩

theorem roundVotes_nodup (votes : Profile) (elected : List Cand) : (keys (roundVotes votes elected)).Nodup := by
  rw [roundVotes_eq_accum]
  exact nodup_keys_accum _ _ (by simp [keys])

end VL.Appr

namespace VL.Appr
open VL VL.C09

/-- the entries of maximal value are those equal to the maximum -/
theorem filter_all_le_eq {l : Votes} {m : Rat} (hle : ∀ q ∈ l, q.2 ≤ m) (hex : ∃ q ∈ l, q.2 = m) :
    l.filter (fun p => l.all (fun q => decide (q.2 ≤ p.2))) = l.filter (fun p => decide (p.2 = m)) := by
  apply List.filter_congr
  intro p hp
  obtain ⟨q0, hq0, hq0m⟩ := hex
  by_cases hpm : p.2 = m
  · simp only [hpm, decide_true, List.all_eq_true, decide_eq_true_eq]
    exact hle
  · simp only [hpm, decide_false, Bool.eq_false_iff, ne_eq, List.all_eq_true, decide_eq_true_eq, not_forall]
    refine ⟨q0, hq0, ?_⟩
    rw [hq0m]
    exact not_le.mpr (lt_of_le_of_ne (hle p hp) hpm)

/-- **`get_n_best(d, 1)`**: nobody for an empty table; the entry of strictly greatest value when there is one;
    otherwise one tie object naming all entries of greatest value. -/
theorem getNBest_one (d : Votes) :
    getNBest d 1 =
      match d with
      | [] => []
      | _ =>
        match d.filter (fun p => d.all (fun q => decide (q.2 ≤ p.2))) with
        | [p] => [Slot.cand p.1]
        | mx => [Slot.tie (mx.map (·.1))] := by
  cases d with
  | nil => simp [getNBest, sortDesc]
  | cons x xs =>
    simp only
    set d := x :: xs with hd
    have hlen : 1 ≤ d.length := by simp [hd]
    obtain ⟨t, ht⟩ := nth_exists d 1 (le_refl 1) hlen
    have hgt0 : cntGt d t = 0 := by have := ht.2.1; omega
    have hle : ∀ p ∈ d, p.2 ≤ t := by
      intro p hp
      have : d.filter (fun p => decide (t < p.2)) = [] := List.eq_nil_of_length_eq_zero hgt0
      have := List.filter_eq_nil_iff.mp this p hp
      simpa using this
    have hmx := filter_all_le_eq hle ht.1
    rw [hmx]
    have hlevel : level d t = (d.filter (fun p => decide (p.2 = t))).map (·.1) := rfl
    have hge : cntGe d t = (d.filter (fun p => decide (p.2 = t))).length := by
      unfold cntGe
      congr 1
      apply List.filter_congr
      intro p hp
      have := hle p hp
      by_cases h : p.2 = t
      · simp [h]
      · have : ¬ t ≤ p.2 := fun h' => h (le_antisymm this h')
        simp [h, this]
    have habove : aboveSorted d t = [] := by
      unfold aboveSorted
      rw [List.filter_eq_nil_iff]
      intro p hp
      have := hle p (mem_sortDesc.mp hp)
      simpa using this
    rcases Nat.lt_or_ge 1 d.length with hlt | hle1
    · rcases Nat.lt_or_ge 1 (cntGe d t) with hno | hfit
      · rw [getNBest_tie d 1 (le_refl 1) hlt t ht hno, habove, hgt0, hlevel]
        rw [hge] at hno
        rcases hm : d.filter (fun p => decide (p.2 = t)) with _ | ⟨a, _ | ⟨b, r⟩⟩
        · rw [hm] at hno; simp at hno
        · rw [hm] at hno; simp at hno
        · rw [hm]; rfl
      · rw [getNBest_fits d 1 (le_refl 1) hlt t ht hfit, habove, hlevel]
        have h1 := ht.2.2
        rw [hge] at hfit h1
        rcases hm : d.filter (fun p => decide (p.2 = t)) with _ | ⟨a, _ | ⟨b, r⟩⟩
        · rw [hm] at h1; simp at h1
        · rw [hm]; rfl
        · rw [hm] at hfit; simp at hfit
    · have hxs : xs = [] := by
        have : (x :: xs).length ≤ 1 := hle1
        simp at this; exact this
      subst hxs
      rw [getNBest_all d 1 hle1]
      have hxt : x.2 = t := by
        obtain ⟨q, hq, hqt⟩ := ht.1
        simp [hd] at hq; subst hq; exact hqt
      simp [hd, sortDesc, insertDesc, hxt]

end VL.Appr

namespace VL.Appr
open VL

/-- the table one SPAV round ranks (`round_votes` after the `del`s) -/
def roundTable (votes : Profile) (elected : List Cand) : Votes :=
  (roundVotes votes elected).filter (fun p => !(elected.contains p.1))

/-- the candidates still standing -/
def standing (votes : Profile) (elected : List Cand) : List Cand :=
  (allCands votes).filter (fun c => !(elected.contains c))

theorem roundTable_nodup (votes : Profile) (elected : List Cand) : (keys (roundTable votes elected)).Nodup := by
  unfold roundTable keys
  exact ((List.filter_sublist).map _).nodup (roundVotes_nodup votes elected)

theorem roundTable_val {votes : Profile} (hwf : WF votes) (elected : List Cand) {p : Cand × Rat}
    (hp : p ∈ roundTable votes elected) : p.2 = reweighted votes elected p.1 := by
  have hp' : p ∈ roundVotes votes elected := (List.mem_filter.mp hp).1
  rw [← roundVotes_getD hwf, getD_of_mem (roundVotes_nodup votes elected) hp']

theorem roundTable_mem_keys (votes : Profile) (elected : List Cand) (c : Cand) :
    c ∈ keys (roundTable votes elected) ↔ c ∈ standing votes elected := by
  unfold roundTable standing keys
  rw [List.mem_map, List.mem_filter, ← roundVotes_mem_keys votes elected]
  constructor
  · rintro ⟨p, hp, rfl⟩
    have := List.mem_filter.mp hp
    exact ⟨List.mem_map.mpr ⟨p, this.1, rfl⟩, this.2⟩
  · rintro ⟨h1, h2⟩
    obtain ⟨p, hp, rfl⟩ := List.mem_map.mp h1
    exact ⟨p, List.mem_filter.mpr ⟨hp, h2⟩, rfl⟩

theorem standing_nodup (votes : Profile) (elected : List Cand) : (standing votes elected).Nodup :=
  (allCands_nodup votes).filter _

/-- what one SPAV round sees, in terms of the definition -/
theorem spav_round {votes : Profile} (hwf : WF votes) (elected : List Cand) :
    let rest := standing votes elected
    let ismax := fun c => rest.all (fun d => decide (reweighted votes elected d ≤ reweighted votes elected c))
    (rest = [] ∧ getNBest (roundTable votes elected) 1 = []) ∨
    (∃ c, rest ≠ [] ∧ rest.filter ismax = [c] ∧ getNBest (roundTable votes elected) 1 = [Slot.cand c]) ∨
    (rest ≠ [] ∧ (∀ c, rest.filter ismax ≠ [c]) ∧ ∃ T, getNBest (roundTable votes elected) 1 = [Slot.tie T]) := by
  intro rest ismax
  set rv := roundTable votes elected with hrv
  have hkeys := roundTable_mem_keys votes elected
  have hknd := roundTable_nodup votes elected
  have hrvnd : rv.Nodup := List.Nodup.of_map _ hknd
  have hrestnd := standing_nodup votes elected
  have hval : ∀ p ∈ rv, p.2 = reweighted votes elected p.1 := fun p hp => roundTable_val hwf elected hp
  rw [getNBest_one rv]
  by_cases hempty : rv = []
  · left
    refine ⟨?_, by rw [hempty]⟩
    apply List.eq_nil_iff_forall_not_mem.mpr
    intro c hc
    have := (hkeys c).mpr hc
    rw [← hrv, hempty] at this
    simp [keys] at this
  · right
    have hrest_ne : rest ≠ [] := by
      intro h
      obtain ⟨p, hp⟩ := List.exists_mem_of_ne_nil _ hempty
      have : p.1 ∈ rest := (hkeys p.1).mp (List.mem_map.mpr ⟨p, hp, rfl⟩)
      rw [h] at this; cases this
    have hmatch : (match rv with
        | [] => ([] : List Slot)
        | _ => match rv.filter (fun (p : Cand × Rat) => rv.all (fun q => decide (q.2 ≤ p.2))) with
          | [p] => [Slot.cand p.1]
          | mx => [Slot.tie (mx.map (fun (x : Cand × Rat) => x.1))]) =
        (match rv.filter (fun (p : Cand × Rat) => rv.all (fun q => decide (q.2 ≤ p.2))) with
          | [p] => [Slot.cand p.1]
          | mx => [Slot.tie (mx.map (fun (x : Cand × Rat) => x.1))]) := by
      cases hh : rv with
      | nil => exact absurd hh hempty
      | cons _ _ => rfl
    rw [hmatch]
    -- bridge between the two unique-strict-maximum statements
    have hA := fun (p : Cand × Rat) => argmax_singleton_iff hrvnd (fun q : Cand × Rat => q.2) (a := p)
    have hB := fun (c : Cand) => argmax_singleton_iff hrestnd (fun d => reweighted votes elected d) (a := c)
    have toSpec : ∀ p, rv.filter (fun p => rv.all (fun q => decide (q.2 ≤ p.2))) = [p] → rest.filter ismax = [p.1] := by
      intro p hp
      obtain ⟨hpm, hlt⟩ := (hA p).mp hp
      apply (hB p.1).mpr
      refine ⟨(hkeys p.1).mp (List.mem_map.mpr ⟨p, hpm, rfl⟩), ?_⟩
      intro d hd hne
      obtain ⟨v, hv⟩ := mem_of_mem_keys ((hkeys d).mpr hd)
      have hqne : (d, v) ≠ p := by
        intro h; apply hne; rw [← h]
      have := hlt (d, v) hv hqne
      rw [hval (d, v) hv, hval p hpm] at this
      exact this
    have toModel : ∀ c, rest.filter ismax = [c] →
        ∃ v, rv.filter (fun p => rv.all (fun q => decide (q.2 ≤ p.2))) = [(c, v)] := by
      intro c hc
      obtain ⟨hcm, hlt⟩ := (hB c).mp hc
      obtain ⟨v, hv⟩ := mem_of_mem_keys ((hkeys c).mpr hcm)
      refine ⟨v, (hA (c, v)).mpr ⟨hv, ?_⟩⟩
      intro q hq hne
      have hq1 : q.1 ≠ c := by
        intro h
        apply hne
        have h1 := getD_of_mem hknd hq
        have h2 := getD_of_mem hknd hv
        rw [h] at h1
        simp only at h2
        have : q.2 = v := by rw [← h1, ← h2]
        exact Prod.ext h this
      have := hlt q.1 ((hkeys q.1).mp (List.mem_map.mpr ⟨q, hq, rfl⟩)) hq1
      rw [hval q hq, hval (c, v) hv]
      exact this
    rcases hm : rv.filter (fun p => rv.all (fun q => decide (q.2 ≤ p.2))) with _ | ⟨a, _ | ⟨b, r⟩⟩
    · right
      refine ⟨hrest_ne, ?_, _, by rw [hm]⟩
      intro c hc
      obtain ⟨v, hv⟩ := toModel c hc
      rw [hm] at hv; cases hv
    · left
      exact ⟨a.1, hrest_ne, toSpec a hm, by rw [hm]⟩
    · right
      refine ⟨hrest_ne, ?_, _, by rw [hm]⟩
      intro c hc
      obtain ⟨v, hv⟩ := toModel c hc
      rw [hm] at hv; cases hv

/-- generic form of `spav_round`: `get_n_best(d, 1)` of a table with distinct keys `rest` and values `f` -/
theorem table_round {rv : Votes} (hknd : (keys rv).Nodup) {rest : List Cand} (hrestnd : rest.Nodup)
    (hkeys : ∀ c, c ∈ keys rv ↔ c ∈ rest) (f : Cand → Rat) (hval : ∀ p ∈ rv, p.2 = f p.1) :
    let ismax := fun c => rest.all (fun d => decide (f d ≤ f c))
    (rest = [] ∧ getNBest rv 1 = []) ∨
    (∃ c, rest ≠ [] ∧ rest.filter ismax = [c] ∧ getNBest rv 1 = [Slot.cand c]) ∨
    (rest ≠ [] ∧ (∀ c, rest.filter ismax ≠ [c]) ∧ ∃ T, getNBest rv 1 = [Slot.tie T]) := by
  intro ismax
  have hrvnd : rv.Nodup := List.Nodup.of_map _ hknd
  rw [getNBest_one rv]
  by_cases hempty : rv = []
  · left
    refine ⟨?_, by rw [hempty]⟩
    apply List.eq_nil_iff_forall_not_mem.mpr
    intro c hc
    have := (hkeys c).mpr hc
    rw [hempty] at this
    simp [keys] at this
  · right
    have hrest_ne : rest ≠ [] := by
      intro h
      obtain ⟨p, hp⟩ := List.exists_mem_of_ne_nil _ hempty
      have : p.1 ∈ rest := (hkeys p.1).mp (List.mem_map.mpr ⟨p, hp, rfl⟩)
      rw [h] at this; cases this
    have hmatch : (match rv with
        | [] => ([] : List Slot)
        | _ => match rv.filter (fun (p : Cand × Rat) => rv.all (fun q => decide (q.2 ≤ p.2))) with
          | [p] => [Slot.cand p.1]
          | mx => [Slot.tie (mx.map (fun (x : Cand × Rat) => x.1))]) =
        (match rv.filter (fun (p : Cand × Rat) => rv.all (fun q => decide (q.2 ≤ p.2))) with
          | [p] => [Slot.cand p.1]
          | mx => [Slot.tie (mx.map (fun (x : Cand × Rat) => x.1))]) := by
      cases hh : rv with
      | nil => exact absurd hh hempty
      | cons _ _ => rfl
    rw [hmatch]
    -- bridge between the two unique-strict-maximum statements
    have hA := fun (p : Cand × Rat) => argmax_singleton_iff hrvnd (fun q : Cand × Rat => q.2) (a := p)
    have hB := fun (c : Cand) => argmax_singleton_iff hrestnd (fun d => f d) (a := c)
    have toSpec : ∀ p, rv.filter (fun p => rv.all (fun q => decide (q.2 ≤ p.2))) = [p] → rest.filter ismax = [p.1] := by
      intro p hp
      obtain ⟨hpm, hlt⟩ := (hA p).mp hp
      apply (hB p.1).mpr
      refine ⟨(hkeys p.1).mp (List.mem_map.mpr ⟨p, hpm, rfl⟩), ?_⟩
      intro d hd hne
      obtain ⟨v, hv⟩ := mem_of_mem_keys ((hkeys d).mpr hd)
      have hqne : (d, v) ≠ p := by
        intro h; apply hne; rw [← h]
      have := hlt (d, v) hv hqne
      rw [hval (d, v) hv, hval p hpm] at this
      exact this
    have toModel : ∀ c, rest.filter ismax = [c] →
        ∃ v, rv.filter (fun p => rv.all (fun q => decide (q.2 ≤ p.2))) = [(c, v)] := by
      intro c hc
      obtain ⟨hcm, hlt⟩ := (hB c).mp hc
      obtain ⟨v, hv⟩ := mem_of_mem_keys ((hkeys c).mpr hcm)
      refine ⟨v, (hA (c, v)).mpr ⟨hv, ?_⟩⟩
      intro q hq hne
      have hq1 : q.1 ≠ c := by
        intro h
        apply hne
        have h1 := getD_of_mem hknd hq
        have h2 := getD_of_mem hknd hv
        rw [h] at h1
        simp only at h2
        have : q.2 = v := by rw [← h1, ← h2]
        exact Prod.ext h this
      have := hlt q.1 ((hkeys q.1).mp (List.mem_map.mpr ⟨q, hq, rfl⟩)) hq1
      rw [hval q hq, hval (c, v) hv]
      exact this
    rcases hm : rv.filter (fun p => rv.all (fun q => decide (q.2 ≤ p.2))) with _ | ⟨a, _ | ⟨b, r⟩⟩
    · right
      refine ⟨hrest_ne, ?_, _, by rw [hm]⟩
      intro c hc
      obtain ⟨v, hv⟩ := toModel c hc
      rw [hm] at hv; cases hv
    · left
      exact ⟨a.1, hrest_ne, toSpec a hm, by rw [hm]⟩
    · right
      refine ⟨hrest_ne, ?_, _, by rw [hm]⟩
      intro c hc
      obtain ⟨v, hv⟩ := toModel c hc
      rw [hm] at hv; cases hv


/-- the code-shaped loop equals the defining recursion, from any state -/
theorem spavGo_eq_spec {votes : Profile} (hwf : WF votes) :
    ∀ (k : Nat) (elected : List Cand), spavGo votes k elected = spavSpecGo votes k elected := by
  intro k
  induction k with
  | zero => intro elected; rfl
  | succ k ih =>
    intro elected
    have hround := spav_round hwf elected
    simp only at hround
    unfold spavGo spavSpecGo
    simp only
    change (match getNBest (roundTable votes elected) 1 with
      | [] => Except.ok elected
      | Slot.tie _ :: _ => Except.error Err.notImplemented
      | Slot.cand c :: _ => spavGo votes k (elected ++ [c])) =
      (match standing votes elected with
      | [] => Except.ok elected
      | _ => match (standing votes elected).filter (fun c => (standing votes elected).all
            (fun d => decide (reweighted votes elected d ≤ reweighted votes elected c))) with
        | [c] => spavSpecGo votes k (elected ++ [c])
        | _ => Except.error Err.notImplemented)
    rcases hround with ⟨h1, h2⟩ | ⟨c, h1, h2, h3⟩ | ⟨h1, h2, T, h3⟩
    · rw [h1, h2]
    · rw [h3, h2]
      simp only
      rw [ih]
    · rw [h3]
      cases hs : standing votes elected with
      | nil => exact absurd hs h1
      | cons x xs =>
        simp only
        rw [← hs]
        rcases hf : (standing votes elected).filter (fun c => (standing votes elected).all
            (fun d => decide (reweighted votes elected d ≤ reweighted votes elected c))) with _ | ⟨a, _ | ⟨b, r⟩⟩
        · rfl
        · exact absurd hf (h2 a)
        · rfl

end VL.Appr

namespace VL.Appr
open VL

/-- `c` has strictly greater reweighted approval than every other candidate still standing after `elected` -/
def StrictBest (votes : Profile) (elected : List Cand) (c : Cand) : Prop :=
  c ∈ allCands votes ∧ c ∉ elected ∧
  ∀ d ∈ allCands votes, d ∉ elected → d ≠ c → reweighted votes elected d < reweighted votes elected c

theorem mem_standing {votes : Profile} {elected : List Cand} {c : Cand} :
    c ∈ standing votes elected ↔ c ∈ allCands votes ∧ c ∉ elected := by
  unfold standing
  rw [List.mem_filter]
  simp

/-- what the defining recursion returns: a chain of strict round winners, as long as requested or until nobody stands -/
theorem spavSpecGo_sound (votes : Profile) :
    ∀ (k : Nat) (e0 el : List Cand), spavSpecGo votes k e0 = .ok el →
      ∃ suf, el = e0 ++ suf ∧
        (∀ i (h : i < suf.length), StrictBest votes (e0 ++ suf.take i) suf[i]) ∧
        (suf.length = k ∨ standing votes el = []) := by
  intro k
  induction k with
  | zero =>
    intro e0 el h
    simp only [spavSpecGo] at h
    injection h with h
    exact ⟨[], by simp [h], by simp, Or.inl rfl⟩
  | succ k ih =>
    intro e0 el h
    unfold spavSpecGo at h
    simp only at h
    change (match standing votes e0 with
      | [] => Except.ok e0
      | _ => match (standing votes e0).filter (fun c => (standing votes e0).all
            (fun d => decide (reweighted votes e0 d ≤ reweighted votes e0 c))) with
        | [c] => spavSpecGo votes k (e0 ++ [c])
        | _ => Except.error Err.notImplemented) = Except.ok el at h
    cases hs : standing votes e0 with
    | nil =>
      rw [hs] at h
      injection h with h
      subst h
      exact ⟨[], by simp, by simp, Or.inr hs⟩
    | cons x xs =>
      rw [hs] at h
      simp only at h
      rw [← hs] at h
      rcases hf : (standing votes e0).filter (fun c => (standing votes e0).all
            (fun d => decide (reweighted votes e0 d ≤ reweighted votes e0 c))) with _ | ⟨c, _ | ⟨b, r⟩⟩
      · rw [hf] at h; cases h
      · rw [hf] at h
        simp only at h
        obtain ⟨suf, hel, hchain, hlen⟩ := ih _ _ h
        obtain ⟨hc1, hc2⟩ := (argmax_singleton_iff (standing_nodup votes e0) (fun d => reweighted votes e0 d)).mp hf
        refine ⟨c :: suf, by rw [hel]; simp, ?_, ?_⟩
        · intro i hi
          cases i with
          | zero =>
            simp only [List.take_zero, List.append_nil, List.getElem_cons_zero]
            have := mem_standing.mp hc1
            refine ⟨this.1, this.2, ?_⟩
            intro d hd hde hne
            exact hc2 d (mem_standing.mpr ⟨hd, hde⟩) hne
          | succ i =>
            have := hchain i (by simpa using hi)
            simpa [List.take_succ_cons, List.append_assoc] using this
        · rcases hlen with hl | hl
          · left; simp [hl]
          · right; exact hl
      · rw [hf] at h; cases h

end VL.Appr
