/-
  Helper lemmas for C15 (model: VotelibModel/Overhang.lean): dictionary lookups, the overhang count,
  the invariant of the fuelled levelling loop — all for an arbitrary proportional evaluator.
-/
import VotelibModel.Overhang
import Mathlib.Data.List.Nodup
import Mathlib.Tactic.Linarith
namespace VL.OH
open VL

/-! ### lookups -/

theorem distGet_of_mem {d : Dist} (hnd : (d.map (·.1)).Nodup) {p : Key × Nat} (hp : p ∈ d) :
    distGet d p.1 = p.2 := by
  induction d with
  | nil => simp at hp
  | cons x xs ih =>
    rw [List.map_cons, List.nodup_cons] at hnd
    unfold distGet
    rcases List.mem_cons.mp hp with rfl | hp'
    · simp
    · have hne : x.1 ≠ p.1 := by
        intro he
        apply hnd.1
        rw [he]
        exact List.mem_map.mpr ⟨p, hp', rfl⟩
      rw [List.find?_cons_of_neg (by simpa using hne)]
      have := ih hnd.2 hp'
      unfold distGet at this
      exact this

theorem distGet_eq_zero_of_not_mem {d : Dist} {k : Key} (h : k ∉ d.map (·.1)) : distGet d k = 0 := by
  unfold distGet
  cases hf : d.find? (fun p => p.1 = k) with
  | none => rfl
  | some p =>
    exfalso
    apply h
    have hm := List.mem_of_find?_eq_some hf
    have hk := List.find?_some hf
    simp only [decide_eq_true_eq] at hk
    exact List.mem_map.mpr ⟨p, hm, hk⟩

theorem distGet_pos_mem {d : Dist} {k : Key} (h : 0 < distGet d k) : k ∈ d.map (·.1) := by
  by_contra hn
  rw [distGet_eq_zero_of_not_mem hn] at h
  exact Nat.lt_irrefl 0 h

theorem distHas_iff (d : Dist) (k : Key) : distHas d k = true ↔ k ∈ d.map (·.1) := by
  unfold distHas
  simp only [List.any_eq_true, decide_eq_true_eq, List.mem_map]

/-! ### the loop condition -/

/-- `r` gives every key of `floors` at least its floor -/
def MeetsFloors (r floors : Dist) : Prop := ∀ p ∈ floors, p.2 ≤ distGet r p.1

theorem belowMin_true_iff (prop pmins : Dist) :
    belowMin prop pmins = true ↔ ∃ p ∈ pmins, distGet prop p.1 < p.2 := by
  unfold belowMin
  simp only [List.any_eq_true, decide_eq_true_eq]

theorem belowMin_false_iff (prop pmins : Dist) : belowMin prop pmins = false ↔ MeetsFloors prop pmins := by
  rw [← Bool.not_eq_true, belowMin_true_iff]
  unfold MeetsFloors
  constructor
  · intro h p hp
    by_contra hlt
    exact h ⟨p, hp, Nat.lt_of_not_ge hlt⟩
  · rintro h ⟨p, hp, hlt⟩
    exact Nat.lt_irrefl _ (Nat.lt_of_lt_of_le hlt (h p hp))

/-! ### AllowOverhang: the loop is the sum of the positive differences -/

theorem allowAdj_foldl (prop : Dist) (prev : Seats) (a : Nat) :
    prev.foldl (fun adj p =>
      let propCand := distGet prop (.cand p.1)
      if propCand < p.2 then adj + (p.2 - propCand) else adj) a
    = a + (prev.map (fun p => p.2 - distGet prop (.cand p.1))).sum := by
  induction prev generalizing a with
  | nil => simp
  | cons x xs ih =>
    simp only [List.foldl_cons, List.map_cons, List.sum_cons]
    rw [ih]
    split <;> omega

theorem allowAdj_eq (prop : Dist) (prev : Seats) :
    allowAdj prop prev = (prev.map (fun p => p.2 - distGet prop (.cand p.1))).sum := by
  unfold allowAdj
  rw [allowAdj_foldl]
  omega

theorem nonpropDrop_foldl (lowest : Dist) (prev : Seats) (a : Nat) :
    prev.foldl (fun acc p => if distHas lowest (.cand p.1) then acc else acc + p.2) a
    = a + (prev.map (fun p => if distHas lowest (.cand p.1) then 0 else p.2)).sum := by
  induction prev generalizing a with
  | nil => simp
  | cons x xs ih =>
    simp only [List.foldl_cons, List.map_cons, List.sum_cons]
    rw [ih]
    split <;> omega

/-- `nonprop_drop` = Σ of the direct seats of the parties that are not a key of `lowest_allowed` -/
theorem nonpropDrop_eq (lowest : Dist) (prev : Seats) :
    nonpropDrop lowest prev = (prev.map (fun p => if distHas lowest (.cand p.1) then 0 else p.2)).sum := by
  unfold nonpropDrop
  rw [nonpropDrop_foldl]
  omega

/-! ### the levelling loop -/

/-- What the fuelled loop returns: it stops at the FIRST house size (counting up from `h`) whose distribution
    meets the floors.  `prop` is the distribution in hand for `h` itself. -/
theorem levelLoop_spec (evAt : Nat → Except Err Dist) (pmins : Dist) :
    ∀ (fuel h : Nat) (prop : Dist) (H : Nat), levelLoop evAt pmins fuel h prop = .ok H →
      h ≤ H ∧ H ≤ h + fuel ∧
      (H = h → belowMin prop pmins = false) ∧
      (h < H → belowMin prop pmins = true ∧ (∃ r, evAt H = .ok r ∧ belowMin r pmins = false) ∧
        ∀ k, h < k → k < H → ∃ r, evAt k = .ok r ∧ belowMin r pmins = true) := by
  intro fuel
  induction fuel with
  | zero =>
    intro h prop H hres
    unfold levelLoop at hres
    by_cases hb : belowMin prop pmins = true
    · simp [hb] at hres
    · simp only [hb] at hres
      simp only [Bool.false_eq_true, ↓reduceIte, Except.ok.injEq] at hres
      subst hres
      refine ⟨Nat.le_refl _, by omega, fun _ => by simpa using hb, fun hlt => absurd hlt (Nat.lt_irrefl _)⟩
  | succ fuel ih =>
    intro h prop H hres
    unfold levelLoop at hres
    by_cases hb : belowMin prop pmins = true
    · simp only [hb, ↓reduceIte] at hres
      cases hev : evAt (h + 1) with
      | error e => rw [hev] at hres; simp at hres
      | ok prop' =>
        rw [hev] at hres
        simp only at hres
        obtain ⟨h1, h2, h3, h4⟩ := ih (h + 1) prop' H hres
        refine ⟨by omega, by omega, fun he => by omega, fun _ => ⟨hb, ?_, ?_⟩⟩
        · rcases Nat.eq_or_lt_of_le h1 with heq | hlt
          · exact ⟨prop', by rw [← heq]; exact hev, h3 heq.symm⟩
          · exact (h4 hlt).2.1
        · intro k hk1 hk2
          rcases Nat.eq_or_lt_of_le (Nat.succ_le_of_lt hk1) with heq | hlt
          · have hk : k = h + 1 := heq.symm
            subst hk
            exact ⟨prop', hev, (h4 hk2).1⟩
          · exact (h4 (by omega)).2.2 k hlt hk2
    · simp only [hb] at hres
      simp only [Bool.false_eq_true, ↓reduceIte, Except.ok.injEq] at hres
      subst hres
      refine ⟨Nat.le_refl _, by omega, fun _ => by simpa using hb, fun hlt => absurd hlt (Nat.lt_irrefl _)⟩

/-- enough fuel: if some house size `H ≥ h` meets the floors and the evaluator answers at every size in
    between, the loop succeeds with `H - h` units of fuel (or more) -/
theorem levelLoop_terminates (evAt : Nat → Except Err Dist) (pmins : Dist) :
    ∀ (d h : Nat) (prop : Dist) (fuel : Nat), d ≤ fuel →
      (∀ k, h < k → k ≤ h + d → ∃ r, evAt k = .ok r) →
      (d = 0 → belowMin prop pmins = false) →
      (0 < d → ∃ r, evAt (h + d) = .ok r ∧ belowMin r pmins = false) →
      ∃ H, levelLoop evAt pmins fuel h prop = .ok H := by
  intro d
  induction d with
  | zero =>
    intro h prop fuel _ _ h0 _
    unfold levelLoop
    rw [h0 rfl]
    exact ⟨h, by simp⟩
  | succ d ih =>
    intro h prop fuel hf hall _ hend
    unfold levelLoop
    by_cases hb : belowMin prop pmins = true
    · rw [if_pos hb]
      cases fuel with
      | zero => omega
      | succ fuel' =>
        obtain ⟨prop', hev⟩ := hall (h + 1) (by omega) (by omega)
        simp only [hev]
        apply ih (h + 1) prop' fuel' (by omega)
        · intro k hk1 hk2; exact hall k (by omega) (by omega)
        · intro hd0
          subst hd0
          obtain ⟨r, hr, hrb⟩ := hend (by omega)
          have : r = prop' := by
            have h' : evAt (h + 1) = .ok r := by simpa using hr
            rw [hev] at h'
            exact (Except.ok.inj h').symm
          rw [← this]; exact hrb
        · intro hd
          obtain ⟨r, hr, hrb⟩ := hend (by omega)
          exact ⟨r, by rw [show h + 1 + d = h + (d + 1) by omega]; exact hr, hrb⟩
    · rw [if_neg hb]
      exact ⟨h, rfl⟩

end VL.OH
