/-
  Helper lemmas for C15 (model: VotelibModel/Overhang.lean): dictionary lookups, the overhang count,
  the invariant of the fuelled levelling loop — all for an arbitrary proportional evaluator.
-/
import VotelibModel.Overhang
import Mathlib.Data.List.Nodup
import Mathlib.Tactic.Linarith
import Mathlib.Algebra.Order.BigOperators.Group.List
namespace VL.OH
open VL

/-! ### lookups -/

theorem distGet_of_mem {d : Dist} (hnd : (d.map (·.1)).Nodup) {p : Key × Nat} (hp : p ∈ d) :
    distGet d p.1 = p.2 := by
  induction d with
  | nil => simp at hp
  | cons x xs ih =>
    rw [List.map_cons, List.nodup_cons] at hnd
    unfold distGet
    rcases List.mem_cons.mp hp with rfl | hp'
    · simp
    · have hne : x.1 ≠ p.1 := by
        intro he
        apply hnd.1
        rw [he]
        exact List.mem_map.mpr ⟨p, hp', rfl⟩
      rw [List.find?_cons_of_neg (by simpa using hne)]
      have := ih hnd.2 hp'
      unfold distGet at this
      exact this

theorem distGet_eq_zero_of_not_mem {d : Dist} {k : Key} (h : k ∉ d.map (·.1)) : distGet d k = 0 := by
  unfold distGet
  cases hf : d.find? (fun p => p.1 = k) with
  | none => rfl
  | some p =>
    exfalso
    apply h
    have hm := List.mem_of_find?_eq_some hf
    have hk := List.find?_some hf
    simp only [decide_eq_true_eq] at hk
    exact List.mem_map.mpr ⟨p, hm, hk⟩

theorem distGet_pos_mem {d : Dist} {k : Key} (h : 0 < distGet d k) : k ∈ d.map (·.1) := by
  by_contra hn
  rw [distGet_eq_zero_of_not_mem hn] at h
  exact Nat.lt_irrefl 0 h

theorem distHas_iff (d : Dist) (k : Key) : distHas d k = true ↔ k ∈ d.map (·.1) := by
  unfold distHas
  simp only [List.any_eq_true, decide_eq_true_eq, List.mem_map]

/-! ### the loop condition -/

/-- `r` gives every key of `floors` at least its floor -/
def MeetsFloors (r floors : Dist) : Prop := ∀ p ∈ floors, p.2 ≤ distGet r p.1

theorem belowMin_true_iff (prop pmins : Dist) :
    belowMin prop pmins = true ↔ ∃ p ∈ pmins, distGet prop p.1 < p.2 := by
  unfold belowMin
  simp only [List.any_eq_true, decide_eq_true_eq]

theorem belowMin_false_iff (prop pmins : Dist) : belowMin prop pmins = false ↔ MeetsFloors prop pmins := by
  rw [← Bool.not_eq_true, belowMin_true_iff]
  unfold MeetsFloors
  constructor
  · intro h p hp
    by_contra hlt
    exact h ⟨p, hp, Nat.lt_of_not_ge hlt⟩
  · rintro h ⟨p, hp, hlt⟩
    exact Nat.lt_irrefl _ (Nat.lt_of_lt_of_le hlt (h p hp))

/-! ### AllowOverhang: the loop is the sum of the positive differences -/

theorem allowAdj_foldl (prop : Dist) (prev : Seats) (a : Nat) :
    prev.foldl (fun adj p =>
      let propCand := distGet prop (.cand p.1)
      if propCand < p.2 then adj + (p.2 - propCand) else adj) a
    = a + (prev.map (fun p => p.2 - distGet prop (.cand p.1))).sum := by
  induction prev generalizing a with
  | nil => simp
  | cons x xs ih =>
    simp only [List.foldl_cons, List.map_cons, List.sum_cons]
    rw [ih]
    split <;> omega

theorem allowAdj_eq (prop : Dist) (prev : Seats) :
    allowAdj prop prev = (prev.map (fun p => p.2 - distGet prop (.cand p.1))).sum := by
  unfold allowAdj
  rw [allowAdj_foldl]
  omega

theorem nonpropDrop_foldl (lowest : Dist) (prev : Seats) (a : Nat) :
    prev.foldl (fun acc p => if distHas lowest (.cand p.1) then acc else acc + p.2) a
    = a + (prev.map (fun p => if distHas lowest (.cand p.1) then 0 else p.2)).sum := by
  induction prev generalizing a with
  | nil => simp
  | cons x xs ih =>
    simp only [List.foldl_cons, List.map_cons, List.sum_cons]
    rw [ih]
    split <;> omega

/-- `nonprop_drop` = Σ of the direct seats of the parties that are not a key of `lowest_allowed` -/
theorem nonpropDrop_eq (lowest : Dist) (prev : Seats) :
    nonpropDrop lowest prev = (prev.map (fun p => if distHas lowest (.cand p.1) then 0 else p.2)).sum := by
  unfold nonpropDrop
  rw [nonpropDrop_foldl]
  omega

/-! ### the levelling loop -/

/-- What the fuelled loop returns: it stops at the FIRST house size (counting up from `h`) whose distribution
    meets the floors.  `prop` is the distribution in hand for `h` itself. -/
theorem levelLoop_spec (evAt : Nat → Except Err Dist) (pmins : Dist) :
    ∀ (fuel h : Nat) (prop : Dist) (H : Nat), levelLoop evAt pmins fuel h prop = .ok H →
      h ≤ H ∧ H ≤ h + fuel ∧
      (H = h → belowMin prop pmins = false) ∧
      (h < H → belowMin prop pmins = true ∧ (∃ r, evAt H = .ok r ∧ belowMin r pmins = false) ∧
        ∀ k, h < k → k < H → ∃ r, evAt k = .ok r ∧ belowMin r pmins = true) := by
  intro fuel
  induction fuel with
  | zero =>
    intro h prop H hres
    unfold levelLoop at hres
    by_cases hb : belowMin prop pmins = true
    · simp [hb] at hres
    · simp only [hb] at hres
      simp only [Bool.false_eq_true, ↓reduceIte, Except.ok.injEq] at hres
      subst hres
      refine ⟨Nat.le_refl _, by omega, fun _ => by simpa using hb, fun hlt => absurd hlt (Nat.lt_irrefl _)⟩
  | succ fuel ih =>
    intro h prop H hres
    unfold levelLoop at hres
    by_cases hb : belowMin prop pmins = true
    · simp only [hb, ↓reduceIte] at hres
      cases hev : evAt (h + 1) with
      | error e => rw [hev] at hres; simp at hres
      | ok prop' =>
        rw [hev] at hres
        simp only at hres
        obtain ⟨h1, h2, h3, h4⟩ := ih (h + 1) prop' H hres
        refine ⟨by omega, by omega, fun he => by omega, fun _ => ⟨hb, ?_, ?_⟩⟩
        · rcases Nat.eq_or_lt_of_le h1 with heq | hlt
          · exact ⟨prop', by rw [← heq]; exact hev, h3 heq.symm⟩
          · exact (h4 hlt).2.1
        · intro k hk1 hk2
          rcases Nat.eq_or_lt_of_le (Nat.succ_le_of_lt hk1) with heq | hlt
          · have hk : k = h + 1 := heq.symm
            subst hk
            exact ⟨prop', hev, (h4 hk2).1⟩
          · exact (h4 (by omega)).2.2 k hlt hk2
    · simp only [hb] at hres
      simp only [Bool.false_eq_true, ↓reduceIte, Except.ok.injEq] at hres
      subst hres
      refine ⟨Nat.le_refl _, by omega, fun _ => by simpa using hb, fun hlt => absurd hlt (Nat.lt_irrefl _)⟩

/-- enough fuel: if some house size `H ≥ h` meets the floors and the evaluator answers at every size in
    between, the loop succeeds with `H - h` units of fuel (or more) -/
theorem levelLoop_terminates (evAt : Nat → Except Err Dist) (pmins : Dist) :
    ∀ (d h : Nat) (prop : Dist) (fuel : Nat), d ≤ fuel →
      (∀ k, h < k → k ≤ h + d → ∃ r, evAt k = .ok r) →
      (d = 0 → belowMin prop pmins = false) →
      (0 < d → ∃ r, evAt (h + d) = .ok r ∧ belowMin r pmins = false) →
      ∃ H, levelLoop evAt pmins fuel h prop = .ok H := by
  intro d
  induction d with
  | zero =>
    intro h prop fuel _ _ h0 _
    unfold levelLoop
    rw [h0 rfl]
    exact ⟨h, by simp⟩
  | succ d ih =>
    intro h prop fuel hf hall _ hend
    unfold levelLoop
    by_cases hb : belowMin prop pmins = true
    · rw [if_pos hb]
      cases fuel with
      | zero => omega
      | succ fuel' =>
        obtain ⟨prop', hev⟩ := hall (h + 1) (by omega) (by omega)
        simp only [hev]
        apply ih (h + 1) prop' fuel' (by omega)
        · intro k hk1 hk2; exact hall k (by omega) (by omega)
        · intro hd0
          subst hd0
          obtain ⟨r, hr, hrb⟩ := hend (by omega)
          have : r = prop' := by
            have h' : evAt (h + 1) = .ok r := by simpa using hr
            rw [hev] at h'
            exact (Except.ok.inj h').symm
          rw [← this]; exact hrb
        · intro hd
          obtain ⟨r, hr, hrb⟩ := hend (by omega)
          exact ⟨r, by rw [show h + 1 + d = h + (d + 1) by omega]; exact hr, hrb⟩
    · rw [if_neg hb]
      exact ⟨h, rfl⟩

/-! ### `add_dict_to_dict` and the multistage accumulation -/

theorem distGet_cons (x : Key × Nat) (xs : Dist) (k : Key) :
    distGet (x :: xs) k = if x.1 = k then x.2 else distGet xs k := by
  unfold distGet
  by_cases h : x.1 = k
  · simp [h]
  · simp [h]

theorem distGet_setK (d : Dist) (k : Key) (v : Nat) (k' : Key) :
    distGet (setK d k v) k' = if k = k' then v else distGet d k' := by
  induction d with
  | nil =>
    simp only [setK, distGet_cons]
  | cons x xs ih =>
    simp only [setK]
    by_cases hx : x.1 = k
    · rw [if_pos hx, distGet_cons, distGet_cons]
      simp only
      by_cases h : k = k'
      · simp [h]
      · have : ¬ x.1 = k' := by rw [hx]; exact h
        simp [h, this]
    · rw [if_neg hx, distGet_cons, distGet_cons, ih]
      by_cases hxk : x.1 = k'
      · have : ¬ k = k' := by rw [← hxk]; exact fun h => hx h.symm
        simp [hxk, this]
      · simp [hxk]

theorem sumDist_cons (x : Key × Nat) (xs : Dist) : sumDist (x :: xs) = x.2 + sumDist xs := by
  unfold sumDist; simp

theorem sumDist_setK (d : Dist) (k : Key) (v : Nat) :
    sumDist (setK d k v) + distGet d k = sumDist d + v := by
  induction d with
  | nil => simp [setK, sumDist, distGet]
  | cons x xs ih =>
    simp only [setK]
    by_cases hx : x.1 = k
    · rw [if_pos hx, distGet_cons, if_pos hx, sumDist_cons, sumDist_cons]
      simp only
      omega
    · rw [if_neg hx, distGet_cons, if_neg hx, sumDist_cons, sumDist_cons]
      omega

theorem addDist_cons (d1 : Dist) (x : Key × Nat) (xs : Dist) :
    addDist d1 (x :: xs) = addDist (setK d1 x.1 (distGet d1 x.1 + x.2)) xs := rfl

/-- adding a result never lowers an entry -/
theorem distGet_addDist_ge (d1 d2 : Dist) (k : Key) : distGet d1 k ≤ distGet (addDist d1 d2) k := by
  induction d2 generalizing d1 with
  | nil => exact Nat.le_refl _
  | cons x xs ih =>
    rw [addDist_cons]
    refine Nat.le_trans ?_ (ih _)
    rw [distGet_setK]
    split
    · rename_i h; rw [h]; omega
    · exact Nat.le_refl _

/-- every entry of the added dict is contained in the sum -/
theorem distGet_addDist_mem (d1 d2 : Dist) (p : Key × Nat) (hp : p ∈ d2) : p.2 ≤ distGet (addDist d1 d2) p.1 := by
  induction d2 generalizing d1 with
  | nil => simp at hp
  | cons x xs ih =>
    rw [addDist_cons]
    rcases List.mem_cons.mp hp with rfl | hp'
    · refine Nat.le_trans ?_ (distGet_addDist_ge _ _ _)
      rw [distGet_setK]; simp
    · exact ih _ hp'

theorem sumDist_addDist (d1 d2 : Dist) : sumDist (addDist d1 d2) = sumDist d1 + sumDist d2 := by
  induction d2 generalizing d1 with
  | nil => simp [addDist, sumDist]
  | cons x xs ih =>
    rw [addDist_cons, ih, sumDist_cons]
    have := sumDist_setK d1 x.1 (distGet d1 x.1 + x.2)
    omega

theorem multistage_cons_ok (stage : PropEval) (votes : Votes) (rest : List (PropEval × Votes)) (n : Nat)
    (elected out : Dist) (caps : Seats) (h : multistage ((stage, votes) :: rest) n elected caps = .ok out) :
    ∃ prev res, distToSeats elected = some prev ∧ stage votes n prev caps = .ok res ∧
      multistage rest n (addDist elected res) caps = .ok out := by
  simp only [multistage] at h
  cases hs : distToSeats elected with
  | none => rw [hs] at h; simp at h
  | some prev =>
    rw [hs] at h
    simp only at h
    cases hr : stage votes n prev caps with
    | error e => rw [hr] at h; simp at h
    | ok res =>
      rw [hr] at h
      exact ⟨prev, res, rfl, hr, h⟩

/-- seats accumulated by a `MultistageDistributor` never decrease from stage to stage -/
theorem multistage_mono (rounds : List (PropEval × Votes)) (n : Nat) (caps : Seats) :
    ∀ (elected out : Dist), multistage rounds n elected caps = .ok out → ∀ k, distGet elected k ≤ distGet out k := by
  induction rounds with
  | nil =>
    intro elected out h k
    simp only [multistage, Except.ok.injEq] at h
    rw [h]
  | cons r rs ih =>
    intro elected out h k
    obtain ⟨stage, votes⟩ := r
    simp only [multistage] at h
    cases hs : distToSeats elected with
    | none => rw [hs] at h; simp at h
    | some prev =>
      rw [hs] at h
      simp only at h
      cases hr : stage votes n prev caps with
      | error e => rw [hr] at h; simp at h
      | ok res =>
        rw [hr] at h
        simp only at h
        exact Nat.le_trans (distGet_addDist_ge _ _ _) (ih _ _ h k)

theorem sumDist_seatsToDist (s : Seats) : sumDist (seatsToDist s) = sumSeats s := by
  unfold sumDist seatsToDist sumSeats
  simp [List.map_map, Function.comp_def]

theorem distToSeats_sum : ∀ (d : Dist) (s : Seats), distToSeats d = some s → sumSeats s = sumDist d := by
  intro d
  induction d with
  | nil => intro s h; simp only [distToSeats, Option.some.injEq] at h; subst h; rfl
  | cons x xs ih =>
    intro s h
    obtain ⟨k, v⟩ := x
    cases k with
    | tie T => simp [distToSeats] at h
    | cand c =>
      simp only [distToSeats, Option.map_eq_some_iff] at h
      obtain ⟨r, hr, rfl⟩ := h
      rw [sumDist_cons]
      have := ih r hr
      unfold sumSeats at this ⊢
      simp only [List.map_cons, List.sum_cons]
      omega

/-! ### floors met ⇒ the floors sum to at most the distributed seats -/

/-- remove the first entry with key `k` -/
def delFirst : Dist → Key → Dist
  | [], _ => []
  | x :: xs, k => if x.1 = k then xs else x :: delFirst xs k

theorem sumDist_delFirst (r : Dist) (k : Key) : sumDist r = distGet r k + sumDist (delFirst r k) := by
  induction r with
  | nil => simp [sumDist, distGet, delFirst]
  | cons x xs ih =>
    rw [distGet_cons]
    simp only [delFirst]
    by_cases hx : x.1 = k
    · rw [if_pos hx, if_pos hx, sumDist_cons]
    · rw [if_neg hx, if_neg hx, sumDist_cons, sumDist_cons, ih]; omega

theorem distGet_delFirst_ne (r : Dist) (k k' : Key) (h : k' ≠ k) : distGet (delFirst r k) k' = distGet r k' := by
  induction r with
  | nil => rfl
  | cons x xs ih =>
    simp only [delFirst]
    by_cases hx : x.1 = k
    · rw [if_pos hx, distGet_cons, if_neg (by rw [hx]; exact fun e => h e.symm)]
    · rw [if_neg hx, distGet_cons, distGet_cons, ih]

/-- if `r` gives every key of `floors` (distinct keys) at least its floor, the floors sum to at most `Σ r` -/
theorem sum_floors_le (floors : Dist) (hnd : (floors.map (·.1)).Nodup) :
    ∀ r : Dist, MeetsFloors r floors → sumDist floors ≤ sumDist r := by
  induction floors with
  | nil => intro r _; simp [sumDist]
  | cons p ps ih =>
    intro r hm
    rw [List.map_cons, List.nodup_cons] at hnd
    have hp := hm p List.mem_cons_self
    have hrest : MeetsFloors (delFirst r p.1) ps := by
      intro q hq
      have hne : q.1 ≠ p.1 := fun e => hnd.1 (e ▸ List.mem_map.mpr ⟨q, hq, rfl⟩)
      rw [distGet_delFirst_ne r p.1 q.1 hne]
      exact hm q (List.mem_cons_of_mem _ hq)
    have := ih hnd.2 _ hrest
    rw [sumDist_cons, sumDist_delFirst r p.1]
    omega

theorem lowestAllowed_keys (prop : Dist) (prev : Seats) :
    (lowestAllowed prop prev).map (·.1) = prop.map (·.1) := by
  unfold lowestAllowed
  rw [List.map_map]
  rfl

theorem sumDist_lowestAllowed_ge (prop : Dist) (prev : Seats) : sumDist prop ≤ sumDist (lowestAllowed prop prev) := by
  unfold sumDist lowestAllowed
  rw [List.map_map]
  apply List.sum_le_sum
  intro p _
  simp only [Function.comp]
  omega

end VL.OH
