/-
  C08 — the score family on profiles WITH zero-weight ballots (open finding C08-score-candidate-without-grades): a candidate
  graded only on ballots of weight 0 has no grade to aggregate, and `mean` / `median_low` of nothing raises
  ZeroDivisionError / StatisticsError.  The refusal theorems of ShapeCardinal.lean assume positive ballot counts
  (`PosCounts`); here they are restated under the weaker, exact hypothesis "every candidate has a grade of positive weight"
  (`Graded`, a decidable predicate on the raw score table), for the settings without `unscored_value` and truncation
  (the C08 families `score_mean`, `score_median`, `majority_judgment`, `majority_judgment_plus`).
-/
import VotelibProofs.Lemmas.ShapeCardinal
namespace VL.C08
open VL VL.Score VL.Appr

/-- every candidate named on a ballot has at least one grade of positive weight (and no count is negative) -/
def Graded (votes : SProfile) : Prop := ∀ p ∈ rawScores votes, expand p.2 ≠ [] ∧ 0 ≤ totalCount p.2

instance (votes : SProfile) : Decidable (Graded votes) := by unfold Graded; infer_instance

theorem correctOne_graded {cfg : Cfg} (hT : cfg.trunc = .off) (hU : cfg.unscored = .none) {cs : CScores}
    (hne : expand cs ≠ []) (hnn : 0 ≤ totalCount cs) (nVotes : Int) :
    ∃ cs', correctOne cfg cs nVotes = .ok cs' ∧ expand cs' ≠ [] := by
  unfold correctOne
  simp only [bind, Except.bind, pure, Except.pure, hT, hU]
  split
  · rename_i hlt
    refine ⟨_, rfl, ?_⟩
    exact expand_ne_nil_of_pos (p := (cfg.bottom, cfg.minCount)) List.mem_cons_self (by simp only; omega)
  · exact ⟨cs, rfl, hne⟩

theorem correctedScores_total_graded (cfg : Cfg) (hT : cfg.trunc = .off) (hU : cfg.unscored = .none) (votes : SProfile)
    (hg : Graded votes) : ∃ t, correctedScores cfg votes = .ok t ∧ ∀ p ∈ t, expand p.2 ≠ [] := by
  unfold correctedScores
  simp only
  unfold Graded at hg
  generalize rawScores votes = raw at hg
  induction raw with
  | nil => exact ⟨[], rfl, by simp⟩
  | cons q rest ih =>
    obtain ⟨t', ht', hne'⟩ := ih (fun p hp => hg p (List.mem_cons_of_mem _ hp))
    obtain ⟨cs', hcs', hne''⟩ := correctOne_graded hT hU (hg q List.mem_cons_self).1 (hg q List.mem_cons_self).2
      (totalVotes votes)
    refine ⟨(q.1, cs') :: t', ?_, ?_⟩
    · rw [List.mapM_cons, hcs', ht']; rfl
    · intro p hp
      rcases List.mem_cons.mp hp with rfl | hp
      · exact hne''
      · exact hne' p hp

/-- **ScoreVoting answers whenever every candidate has a grade of positive weight** (no `unscored_value`, no truncation;
    any aggregation function and minimum count; zero-weight ballots allowed) -/
theorem score_total_graded (cfg : Cfg) (hT : cfg.trunc = .off) (hU : cfg.unscored = .none) (votes : SProfile)
    (hg : Graded votes) (n : Nat) : ∃ r, scoreVoting cfg votes n = .ok r := by
  obtain ⟨t, ht, hne'⟩ := correctedScores_total_graded cfg hT hU votes hg
  have hagg : ∃ agg, aggregate cfg.fn t = .ok agg := by
    unfold aggregate
    apply mapM_ok_of_forall
    intro p hp
    obtain ⟨v, hv⟩ := aggFn_ok_of_ne_nil cfg.fn (hne' p hp)
    refine ⟨(p.1, v), ?_⟩
    unfold aggregateOne
    rw [hv]; rfl
  obtain ⟨agg, hagg⟩ := hagg
  refine ⟨getNBest agg n, ?_⟩
  unfold scoreVoting convert
  rw [ht]
  change (aggregate cfg.fn t >>= fun agg => pure (getNBest agg n)) = _
  rw [hagg]; rfl

/-- the refusal clause for score voting under the exact hypothesis: an error outcome means that some candidate is graded
    only on zero-weight ballots -/
theorem score_refusals_graded (cfg : Cfg) (hT : cfg.trunc = .off) (hU : cfg.unscored = .none) (votes : SProfile)
    (hg : Graded votes) (n : Nat) (e : Err) (h : scoreVoting cfg votes n = .error e) :
    e = .votingSystemError ∨ e = .notImplemented := by
  obtain ⟨r, hr⟩ := score_total_graded cfg hT hU votes hg n
  rw [hr] at h; cases h

/-- **Majority judgment, `tie_breaking='plus'`, answers whenever every candidate has a grade of positive weight** -/
theorem mjPlus_total_graded (cfg : Cfg) (hT : cfg.trunc = .off) (hU : cfg.unscored = .none) (votes : SProfile)
    (hg : Graded votes) (n : Nat) (h1 : 1 ≤ n) (hlen : n ≤ (scoreCands votes).length) :
    ∃ r, majorityJudgment .plus cfg votes n = .ok r := by
  cases h : majorityJudgment .plus cfg votes n with
  | ok r => exact ⟨r, rfl⟩
  | error e =>
    exfalso
    obtain ⟨t, ht, hne⟩ := correctedScores_total_graded { cfg with fn := .medianLow } hT hU votes hg
    rcases mj_error_cases .plus cfg votes n h1 hlen e h with ⟨_, _, p, hp, hpe⟩ | ⟨_, t', ht', p, hp, hpe⟩ | ⟨hc, _⟩
    · exact (hg p hp).1 hpe
    · rw [ht] at ht'
      injection ht' with ht'
      subst ht'
      exact hne p hp hpe
    · cases hc

theorem mjPlus_refusals_graded (cfg : Cfg) (hT : cfg.trunc = .off) (hU : cfg.unscored = .none) (votes : SProfile)
    (hg : Graded votes) (n : Nat) (h1 : 1 ≤ n) (hlen : n ≤ (scoreCands votes).length) (e : Err)
    (h : majorityJudgment .plus cfg votes n = .error e) : e = .votingSystemError ∨ e = .notImplemented := by
  obtain ⟨r, hr⟩ := mjPlus_total_graded cfg hT hU votes hg n h1 hlen
  rw [hr] at h; cases h

/-- default tie-break under the same hypothesis (partial: the tie-break's own StatisticsError is the other open finding
    C08-mj-statistics-error; "Fuel" is the model's bound, excluded for positive counts by `mjDefault_refusals_partial`) -/
theorem mjDefault_refusals_graded_partial (cfg : Cfg) (hT : cfg.trunc = .off) (hU : cfg.unscored = .none)
    (votes : SProfile) (hg : Graded votes) (n : Nat) (h1 : 1 ≤ n) (hlen : n ≤ (scoreCands votes).length) (e : Err)
    (h : majorityJudgment .default cfg votes n = .error e) :
    e = .votingSystemError ∨ e = .other "StatisticsError" ∨ e = .other "Fuel" := by
  obtain ⟨t, ht, hne⟩ := correctedScores_total_graded { cfg with fn := .medianLow } hT hU votes hg
  rcases mj_error_cases .default cfg votes n h1 hlen e h with ⟨_, _, p, hp, hpe⟩ | ⟨_, t', ht', p, hp, hpe⟩ | ⟨_, hc, _⟩
  · exact absurd hpe (hg p hp).1
  · rw [ht] at ht'
    injection ht' with ht'
    subst ht'
    exact absurd hpe (hne p hp)
  · exact hc

/-- **open finding C08-score-candidate-without-grades**: candidate 4 is graded only on a ballot of weight 0 (the profile has
    positive total weight, one seat, four candidates): `mean` divides by zero, `median_low` and both majority-judgment
    variants raise StatisticsError — not declared refusals.  `sum`, STAR and allocated score answer. -/
theorem score_candidate_without_grades_witness :
    ¬ Graded [([(4, 1)], 0), ([(0, 1), (3, 3)], 2)] ∧
    scoreVoting (C12.plainCfg .mean) [([(4, 1)], 0), ([(0, 1), (3, 3)], 2)] 1 = .error (.other "ZeroDivisionError") ∧
    scoreVoting (C12.plainCfg .medianLow) [([(4, 1)], 0), ([(0, 1), (3, 3)], 2)] 1 = .error (.other "StatisticsError") ∧
    majorityJudgment .plus (C12.plainCfg .medianLow) [([(4, 1)], 0), ([(0, 1), (3, 3)], 2)] 1
      = .error (.other "StatisticsError") ∧
    majorityJudgment .default (C12.plainCfg .medianLow) [([(4, 1)], 0), ([(0, 1), (3, 3)], 2)] 1
      = .error (.other "StatisticsError") ∧
    scoreVoting (C12.plainCfg .sum) [([(4, 1)], 0), ([(0, 1), (3, 3)], 2)] 1 = .ok [Slot.cand 3] := by
  refine ⟨by decide +kernel, by decide +kernel, by decide +kernel, by decide +kernel, by decide +kernel, by decide +kernel⟩

/-- non-vacuity: a zero-weight ballot that names only candidates graded elsewhere is harmless -/
example : Graded [([(0, 1)], 0), ([(0, 1), (3, 3)], 2)] ∧
    scoreVoting (C12.plainCfg .mean) [([(0, 1)], 0), ([(0, 1), (3, 3)], 2)] 1 = .ok [Slot.cand 3] := by
  refine ⟨by decide +kernel, by decide +kernel⟩

end VL.C08
