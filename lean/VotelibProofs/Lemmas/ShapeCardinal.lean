/-
  C08 instances for the score (cardinal) family — models VL.Score of C12 (VotelibModel/Score.lean):
  ScoreVoting, MajorityJudgment (both tie-breakings), STAR, AllocatedScoreSelector.

  Candidates "appearing in the votes" of a score profile: `scoreCands votes`, the keys of the raw score table
  `rawScores votes` (convert.py L188-191) in insertion order = the candidates graded on some ballot
  (`mem_scoreCands`).
-/
import VotelibProofs.Lemmas.ShapeDefs
import VotelibProofs.Props.C12
namespace VL.C08
open VL VL.Score

/-! ### the candidates of a score profile -/

/-- the candidates graded on some ballot, in order of first appearance: the keys of the raw score table -/
def scoreCands (votes : SProfile) : List Cand := (rawScores votes).map (·.1)

/-- real score profiles: every ballot has a positive count (Python `int`) -/
def PosCounts (votes : SProfile) : Prop := ∀ bn ∈ votes, 0 < bn.2

instance (votes : SProfile) : Decidable (PosCounts votes) := by unfold PosCounts; infer_instance

theorem tkeys_addScore (t : ScoreTable) (c : Cand) (s : Rat) (n : Int) :
    (addScore t c s n).map (·.1) = if c ∈ t.map (·.1) then t.map (·.1) else t.map (·.1) ++ [c] := by
  induction t with
  | nil => simp [addScore]
  | cons p rest ih =>
    obtain ⟨k, cs⟩ := p
    unfold addScore
    by_cases h : k = c
    · subst h; simp
    · rw [if_neg h, List.map_cons, ih]
      have h' : ¬ c = k := fun e => h e.symm
      by_cases hm : c ∈ rest.map (·.1)
      · simp [hm]
      · simp [hm, h']

theorem tkeys_addScore_nodup {t : ScoreTable} (h : (t.map (·.1)).Nodup) (c : Cand) (s : Rat) (n : Int) :
    ((addScore t c s n).map (·.1)).Nodup := by
  rw [tkeys_addScore]
  split
  · exact h
  · rename_i hc
    exact List.nodup_append.mpr ⟨h, List.nodup_singleton c, by
      intro a ha b hb
      rw [List.mem_singleton] at hb
      subst hb
      exact fun e => hc (e ▸ ha)⟩

theorem mem_tkeys_addScore {t : ScoreTable} {c : Cand} {s : Rat} {n : Int} {x : Cand} :
    x ∈ (addScore t c s n).map (·.1) ↔ x ∈ t.map (·.1) ∨ x = c := by
  rw [tkeys_addScore]
  split
  · rename_i h
    constructor
    · exact Or.inl
    · rintro (h' | rfl)
      · exact h'
      · exact h
  · simp

/-- the raw table after the ballots `votes`, starting from `t` -/
def rawFrom (t : ScoreTable) (votes : SProfile) : ScoreTable :=
  votes.foldl (fun t bn => bn.1.foldl (fun t cs => addScore t cs.1 cs.2 bn.2) t) t

theorem rawScores_eq (votes : SProfile) : rawScores votes = rawFrom [] votes := rfl

theorem ballot_fold_keys (b : SBallot) (n : Int) : ∀ (t : ScoreTable),
    ((t.map (·.1)).Nodup → ((b.foldl (fun t cs => addScore t cs.1 cs.2 n) t).map (·.1)).Nodup) ∧
    ∀ x, x ∈ (b.foldl (fun t cs => addScore t cs.1 cs.2 n) t).map (·.1) ↔ x ∈ t.map (·.1) ∨ ∃ cs ∈ b, cs.1 = x := by
  induction b with
  | nil => intro t; simp
  | cons cs rest ih =>
    intro t
    simp only [List.foldl_cons]
    obtain ⟨h1, h2⟩ := ih (addScore t cs.1 cs.2 n)
    refine ⟨fun h => h1 (tkeys_addScore_nodup h _ _ _), ?_⟩
    intro x
    rw [h2, mem_tkeys_addScore]
    simp only [List.mem_cons, exists_eq_or_imp]
    constructor
    · rintro ((h | h) | h)
      · exact Or.inl h
      · exact Or.inr (Or.inl h.symm)
      · exact Or.inr (Or.inr h)
    · rintro (h | h | h)
      · exact Or.inl (Or.inl h)
      · exact Or.inl (Or.inr h.symm)
      · exact Or.inr h

theorem rawFrom_keys (votes : SProfile) : ∀ (t : ScoreTable),
    ((t.map (·.1)).Nodup → ((rawFrom t votes).map (·.1)).Nodup) ∧
    ∀ x, x ∈ (rawFrom t votes).map (·.1) ↔ x ∈ t.map (·.1) ∨ ∃ bn ∈ votes, ∃ cs ∈ bn.1, cs.1 = x := by
  induction votes with
  | nil => intro t; simp [rawFrom]
  | cons bn rest ih =>
    intro t
    unfold rawFrom
    simp only [List.foldl_cons]
    obtain ⟨h1, h2⟩ := ih (bn.1.foldl (fun t cs => addScore t cs.1 cs.2 bn.2) t)
    obtain ⟨k1, k2⟩ := ballot_fold_keys bn.1 bn.2 t
    refine ⟨fun h => h1 (k1 h), ?_⟩
    intro x
    have := h2 x
    unfold rawFrom at this
    rw [this, k2]
    simp only [List.mem_cons, exists_eq_or_imp]
    exact or_assoc

theorem scoreCands_nodup (votes : SProfile) : (scoreCands votes).Nodup :=
  (rawFrom_keys votes []).1 (by simp)

/-- **the candidates of a score profile are exactly those graded on some ballot** -/
theorem mem_scoreCands {votes : SProfile} {c : Cand} :
    c ∈ scoreCands votes ↔ ∃ bn ∈ votes, ∃ cs ∈ bn.1, cs.1 = c := by
  unfold scoreCands
  rw [rawScores_eq, (rawFrom_keys votes []).2]
  simp

/-! ### keys survive correction and aggregation -/

theorem mapM_keys {β γ : Type} {f : Cand × β → Except Err γ} :
    ∀ {l : List (Cand × β)} {r : List (Cand × γ)},
      l.mapM (fun p => do let v ← f p; pure (p.1, v)) = .ok r → r.map (·.1) = l.map (·.1) := by
  intro l
  induction l with
  | nil => intro r h; simp only [List.mapM_nil] at h; injection h with h; subst h; rfl
  | cons p ps ih =>
    intro r h
    rw [List.mapM_cons] at h
    cases hv : f p with
    | error e => rw [hv] at h; cases h
    | ok v =>
      rw [hv] at h
      cases hr : ps.mapM (fun p => do let v ← f p; pure (p.1, v)) with
      | error e => rw [hr] at h; cases h
      | ok r' =>
        rw [hr] at h
        injection h with h
        subst h
        simp only [List.map_cons]
        congr 1
        exact ih hr

theorem correctedScores_keys {cfg : Cfg} {votes : SProfile} {t : ScoreTable}
    (h : correctedScores cfg votes = .ok t) : t.map (·.1) = scoreCands votes := by
  unfold correctedScores at h
  exact mapM_keys (f := fun p => correctOne cfg p.2 (totalVotes votes)) h

theorem convert_keys {cfg : Cfg} {votes : SProfile} {agg : Votes} (h : convert cfg votes = .ok agg) :
    keys agg = scoreCands votes := by
  unfold convert at h
  cases ht : correctedScores cfg votes with
  | error e => rw [ht] at h; cases h
  | ok t =>
    rw [ht] at h
    rw [aggregate_keys (fn := cfg.fn) (t := t) h, correctedScores_keys ht]

/-! ### ScoreVoting: shape -/

/-- **ScoreVoting has the selection shape** (any settings, any profile): whenever `evaluate(votes, n)` returns, with
    `1 ≤ n ≤ #candidates graded`, the result has exactly `n` places filled with distinct graded candidates or ties of
    them. -/
theorem score_shape (cfg : Cfg) (votes : SProfile) (n : Nat) (h1 : 1 ≤ n) (hlen : n ≤ (scoreCands votes).length)
    (r : List Slot) (h : scoreVoting cfg votes n = .ok r) : SelShape (scoreCands votes) n r := by
  unfold scoreVoting at h
  cases hc : convert cfg votes with
  | error e => rw [hc] at h; cases h
  | ok agg =>
    rw [hc] at h
    injection h with h
    subst h
    exact getNBest_shape_of_keys agg _ (convert_keys hc) (scoreCands_nodup votes) n h1 hlen

/-! ### ScoreVoting: refusals -/

theorem mapM_error_mem {α β : Type} {f : α → Except Err β} {e : Err} : ∀ {l : List α},
    l.mapM f = .error e → ∃ x ∈ l, f x = .error e := by
  intro l
  induction l with
  | nil => intro h; simp only [List.mapM_nil] at h; cases h
  | cons a as ih =>
    intro h
    rw [List.mapM_cons] at h
    cases ha : f a with
    | error e' =>
      rw [ha] at h
      injection h with h
      subst h
      exact ⟨a, List.mem_cons_self, ha⟩
    | ok y =>
      rw [ha] at h
      cases hr : as.mapM f with
      | error e' =>
        rw [hr] at h
        injection h with h
        subst h
        obtain ⟨x, hx, hfx⟩ := ih hr
        exact ⟨x, List.mem_cons_of_mem _ hx, hfx⟩
      | ok r => rw [hr] at h; cases h

theorem mapM_ok_of_forall {α β : Type} {f : α → Except Err β} : ∀ {l : List α},
    (∀ x ∈ l, ∃ y, f x = .ok y) → ∃ r, l.mapM f = .ok r := by
  intro l h
  cases hm : l.mapM f with
  | ok r => exact ⟨r, rfl⟩
  | error e =>
    obtain ⟨x, hx, hfx⟩ := mapM_error_mem hm
    obtain ⟨y, hy⟩ := h x hx
    rw [hy] at hfx; cases hfx

/-- `statistics.median_low` fails only on empty data (the model's `IndexError` branch is dead) -/
theorem medianLow_error {l : List Rat} {e : Err} (h : medianLow l = .error e) :
    l = [] ∧ e = .other "StatisticsError" := by
  by_cases hl : l = []
  · subst hl
    rw [medianLow_nil] at h
    injection h with h
    exact ⟨rfl, h.symm⟩
  · obtain ⟨v, hv, _⟩ := medianLow_spec l hl
    rw [hv] at h; cases h

/-- an aggregation function fails only on an empty grade list, with its own exception -/
theorem aggFn_error {fn : Agg} {l : List Rat} {e : Err} (h : aggFn fn l = .error e) :
    l = [] ∧ ((fn = .mean ∧ e = .other "ZeroDivisionError") ∨ (fn = .medianLow ∧ e = .other "StatisticsError")) := by
  cases fn with
  | mean =>
    simp only [aggFn, exactMean] at h
    split at h
    · rename_i h0
      injection h with h
      exact ⟨List.eq_nil_of_length_eq_zero h0, Or.inl ⟨rfl, h.symm⟩⟩
    · cases h
  | sum => simp only [aggFn] at h; cases h
  | medianLow =>
    simp only [aggFn] at h
    obtain ⟨h1, h2⟩ := medianLow_error h
    exact ⟨h1, Or.inr ⟨rfl, h2⟩⟩

theorem aggFn_ok_of_ne_nil (fn : Agg) {l : List Rat} (hl : l ≠ []) : ∃ v, aggFn fn l = .ok v := by
  cases h : aggFn fn l with
  | ok v => exact ⟨v, rfl⟩
  | error e => exact absurd (aggFn_error h).1 hl

theorem listMin_error {l : List Rat} {e : Err} (h : listMin l = .error e) : l = [] ∧ e = .valueError := by
  cases l with
  | nil => simp only [listMin] at h; injection h with h; exact ⟨rfl, h.symm⟩
  | cons x xs => simp only [listMin] at h; cases h

/-- `_correct_candidate_scores` raises only when `unscored_value='min'` meets an empty grade list -/
theorem correctOne_error {cfg : Cfg} {scores : CScores} {nVotes : Int} {e : Err}
    (h : correctOne cfg scores nVotes = .error e) :
    e = .valueError ∧ cfg.unscored = .min ∧ expand scores = [] := by
  unfold correctOne at h
  simp only [bind, Except.bind, pure, Except.pure] at h
  split at h
  · cases h
  · cases hu : cfg.unscored with
    | none => rw [hu] at h; simp only at h; split at h <;> cases h
    | value u => rw [hu] at h; simp only at h; split at h <;> cases h
    | min =>
      rw [hu] at h
      simp only at h
      cases hm : listMin (expand scores) with
      | error e' =>
        rw [hm] at h
        simp only at h
        injection h with h
        subst h
        obtain ⟨h1, h2⟩ := listMin_error hm
        exact ⟨h2, rfl, h1⟩
      | ok u => rw [hm] at h; simp only at h; split at h <;> cases h

/-- where an error of `ScoreToSimpleVotes.convert` comes from -/
theorem convert_error {cfg : Cfg} {votes : SProfile} {e : Err} (h : convert cfg votes = .error e) :
    (e = .valueError ∧ cfg.unscored = .min ∧ ∃ p ∈ rawScores votes, expand p.2 = []) ∨
    (∃ t, correctedScores cfg votes = .ok t ∧ ∃ p ∈ t, expand p.2 = [] ∧
      ((cfg.fn = .mean ∧ e = .other "ZeroDivisionError") ∨ (cfg.fn = .medianLow ∧ e = .other "StatisticsError"))) := by
  unfold convert at h
  cases ht : correctedScores cfg votes with
  | error e' =>
    rw [ht] at h
    injection h with h
    subst h
    left
    unfold correctedScores at ht
    obtain ⟨p, hp, hfp⟩ := mapM_error_mem ht
    cases hc : correctOne cfg p.2 (totalVotes votes) with
    | ok cs => rw [hc] at hfp; cases hfp
    | error e'' =>
      rw [hc] at hfp
      injection hfp with hfp
      subst hfp
      obtain ⟨h1, h2, h3⟩ := correctOne_error hc
      exact ⟨h1, h2, p, hp, h3⟩
  | ok t =>
    rw [ht] at h
    right
    refine ⟨t, rfl, ?_⟩
    change aggregate cfg.fn t = .error e at h
    unfold aggregate at h
    obtain ⟨p, hp, hfp⟩ := mapM_error_mem h
    cases ha : aggregateOne cfg.fn p.2 with
    | ok v => rw [ha] at hfp; cases hfp
    | error e' =>
      rw [ha] at hfp
      injection hfp with hfp
      subst hfp
      unfold aggregateOne at ha
      obtain ⟨h1, h2⟩ := aggFn_error ha
      exact ⟨p, hp, h1, h2⟩

/-- **ScoreVoting refusals, unconditional part.**  `evaluate` never raises one of the declared refusals; the only
    exceptions it can raise at all (any settings, any profile) are
      * `ValueError` (`min()` of nothing) with `unscored_value='min'` when a candidate has no grade of positive count,
      * `ZeroDivisionError` with `function='mean'`, `StatisticsError` with `function='median_low'` when the corrected
        grade list of some candidate is empty (non-positive counts, `min_count ≤ 0` over them, or a truncation that
        removes every grade: `score_refusals_witness`).
    Full statement (FALSE, see the witness): `∀ e, scoreVoting cfg votes n = .error e → e = .votingSystemError ∨ e = .notImplemented`. -/
theorem score_refusals_partial (cfg : Cfg) (votes : SProfile) (n : Nat) (e : Err)
    (h : scoreVoting cfg votes n = .error e) :
    (e = .valueError ∧ cfg.unscored = .min) ∨
    (e = .other "ZeroDivisionError" ∧ cfg.fn = .mean) ∨
    (e = .other "StatisticsError" ∧ cfg.fn = .medianLow) := by
  unfold scoreVoting at h
  cases hc : convert cfg votes with
  | ok agg => rw [hc] at h; cases h
  | error e' =>
    rw [hc] at h
    injection h with h
    subst h
    rcases convert_error hc with ⟨h1, h2, _⟩ | ⟨t, _, p, _, _, (⟨h1, h2⟩ | ⟨h1, h2⟩)⟩
    · exact Or.inl ⟨h1, h2⟩
    · exact Or.inr (Or.inl ⟨h2, h1⟩)
    · exact Or.inr (Or.inr ⟨h2, h1⟩)

/-- truncation that removes every grade of a candidate (one voter, drop one grade from each end; or 10 voters, a
    candidate graded by 2 of them, drop a quarter of the *voters* from each end): undeclared exceptions -/
theorem score_refusals_witness :
    scoreVoting { fn := .mean, unscored := .none, minCount := 0, trunc := .count 1, bottom := 0 } [([(0, 3)], 1)] 1
      = .error (.other "ZeroDivisionError") ∧
    scoreVoting { fn := .medianLow, unscored := .none, minCount := 0, trunc := .frac (1/4), bottom := 0 }
      [([(0, 3), (1, 2)], 2), ([(0, 1)], 8)] 1 = .error (.other "StatisticsError") := by
  constructor <;> decide +kernel

/-! ### ScoreVoting on real profiles (positive counts), no truncation: total -/

/-- a grade dict as `corrected_scores` builds it from positive ballot counts: distinct grades, positive counts,
    at least one grade -/
def GoodCS (cs : CScores) : Prop := (ckeys cs).Nodup ∧ (∀ p ∈ cs, 0 < p.2) ∧ cs ≠ []

theorem mem_setCount {d : CScores} {s : Rat} {n : Int} {p : Rat × Int} (h : p ∈ setCount d s n) :
    p = (s, n) ∨ p ∈ d := by
  induction d with
  | nil => simp only [setCount, List.mem_singleton] at h; exact Or.inl h
  | cons q rest ih =>
    obtain ⟨k, v⟩ := q
    unfold setCount at h
    by_cases hk : k = s
    · rw [if_pos hk] at h
      rcases List.mem_cons.mp h with h | h
      · left; rw [h, hk]
      · right; exact List.mem_cons_of_mem _ h
    · rw [if_neg hk] at h
      rcases List.mem_cons.mp h with h | h
      · right; exact h ▸ List.mem_cons_self
      · rcases ih h with h | h
        · exact Or.inl h
        · exact Or.inr (List.mem_cons_of_mem _ h)

theorem self_mem_setCount (d : CScores) (s : Rat) (n : Int) : (s, n) ∈ setCount d s n := by
  induction d with
  | nil => simp [setCount]
  | cons q rest ih =>
    obtain ⟨k, v⟩ := q
    unfold setCount
    by_cases hk : k = s
    · rw [if_pos hk, hk]; exact List.mem_cons_self
    · rw [if_neg hk]; exact List.mem_cons_of_mem _ ih

theorem mem_setCount_of_ne {d : CScores} {s : Rat} {n : Int} {p : Rat × Int} (hp : p ∈ d) (hne : p.1 ≠ s) :
    p ∈ setCount d s n := by
  induction d with
  | nil => cases hp
  | cons q rest ih =>
    obtain ⟨k, v⟩ := q
    unfold setCount
    by_cases hk : k = s
    · rw [if_pos hk]
      rcases List.mem_cons.mp hp with h | h
      · exact absurd (by rw [h]; exact hk) hne
      · exact List.mem_cons_of_mem _ h
    · rw [if_neg hk]
      rcases List.mem_cons.mp hp with h | h
      · exact h ▸ List.mem_cons_self
      · exact List.mem_cons_of_mem _ (ih h)

theorem getCount_nonneg {d : CScores} (h : ∀ p ∈ d, 0 < p.2) (s : Rat) : 0 ≤ getCount d s := by
  unfold getCount
  cases hf : d.find? (fun p => decide (p.1 = s)) with
  | none => exact le_refl _
  | some p => exact le_of_lt (h p (List.mem_of_find?_eq_some hf))

theorem goodCS_addCount {cs : CScores} (h : cs = [] ∨ GoodCS cs) (s : Rat) {n : Int} (hn : 0 < n) :
    GoodCS (addCount cs s n) := by
  unfold addCount
  rcases h with rfl | ⟨h1, h2, _⟩
  · refine ⟨by simp [setCount, ckeys], ?_, by simp [setCount]⟩
    intro p hp
    simp only [setCount, List.mem_singleton] at hp
    rw [hp]; simp only [getCount_nil]; omega
  · refine ⟨ckeys_setCount_nodup h1 _ _, ?_, ?_⟩
    · intro p hp
      rcases mem_setCount hp with rfl | hp
      · have := getCount_nonneg h2 s
        simp only; omega
      · exact h2 p hp
    · intro he
      have := self_mem_setCount cs s (getCount cs s + n)
      rw [he] at this; cases this

/-- all grade dicts of a raw table are good -/
def GoodT (t : ScoreTable) : Prop := ∀ p ∈ t, GoodCS p.2

theorem goodT_addScore {t : ScoreTable} (h : GoodT t) (c : Cand) (s : Rat) {n : Int} (hn : 0 < n) :
    GoodT (addScore t c s n) := by
  induction t with
  | nil =>
    intro p hp
    simp only [addScore, List.mem_singleton] at hp
    rw [hp]
    exact goodCS_addCount (Or.inl rfl) s hn
  | cons q rest ih =>
    obtain ⟨k, cs⟩ := q
    have hq : GoodCS cs := h (k, cs) List.mem_cons_self
    have hrest : GoodT rest := fun p hp => h p (List.mem_cons_of_mem _ hp)
    unfold addScore
    by_cases hk : k = c
    · rw [if_pos hk]
      intro p hp
      rcases List.mem_cons.mp hp with rfl | hp
      · exact goodCS_addCount (Or.inr hq) s hn
      · exact hrest p hp
    · rw [if_neg hk]
      intro p hp
      rcases List.mem_cons.mp hp with rfl | hp
      · exact hq
      · exact ih hrest p hp

theorem goodT_rawFrom {votes : SProfile} (hpos : PosCounts votes) : ∀ (t : ScoreTable), GoodT t → GoodT (rawFrom t votes) := by
  induction votes with
  | nil => intro t h; exact h
  | cons bn rest ih =>
    intro t h
    unfold rawFrom
    simp only [List.foldl_cons]
    have hn : 0 < bn.2 := hpos bn List.mem_cons_self
    apply ih (fun x hx => hpos x (List.mem_cons_of_mem _ hx))
    generalize bn.1 = b
    induction b generalizing t with
    | nil => exact h
    | cons cs b' ihb =>
      simp only [List.foldl_cons]
      exact ihb _ (goodT_addScore h _ _ hn)

theorem goodT_rawScores {votes : SProfile} (hpos : PosCounts votes) : GoodT (rawScores votes) :=
  goodT_rawFrom hpos [] (fun _ h => by cases h)

theorem expand_ne_nil_of_pos {cs : CScores} {p : Rat × Int} (hp : p ∈ cs) (h : 0 < p.2) : expand cs ≠ [] := by
  intro he
  have : p.1 ∈ expand cs := mem_expand.mpr ⟨p, hp, rfl, h⟩
  rw [he] at this; cases this

theorem totalVotes_pos {votes : SProfile} (hpos : PosCounts votes) (hne : votes ≠ []) : 0 < totalVotes votes := by
  unfold totalVotes
  induction votes with
  | nil => exact absurd rfl hne
  | cons bn rest ih =>
    simp only [List.map_cons, List.sum_cons]
    have h1 : 0 < bn.2 := hpos bn List.mem_cons_self
    by_cases hr : rest = []
    · subst hr; simp; exact h1
    · have := ih (fun x hx => hpos x (List.mem_cons_of_mem _ hx)) hr
      omega

theorem totalCount_pos {cs : CScores} (h : GoodCS cs) : 0 < totalCount cs := by
  obtain ⟨_, h2, h3⟩ := h
  unfold totalCount
  induction cs with
  | nil => exact absurd rfl h3
  | cons p rest ih =>
    simp only [List.map_cons, List.sum_cons]
    have h1 : 0 < p.2 := h2 p List.mem_cons_self
    have : 0 ≤ (rest.map (·.2)).sum := List.sum_nonneg (by
      intro x hx
      obtain ⟨q, hq, rfl⟩ := List.mem_map.mp hx
      exact le_of_lt (h2 q (List.mem_cons_of_mem _ hq)))
    omega

/-- giving the unscored value `u` to the voters who did not grade the candidate leaves at least one grade -/
theorem expand_unscored_ne_nil {cs : CScores} (h : GoodCS cs) (u : Rat) {nVotes : Int} (hV : 0 < nVotes) :
    expand (setCount cs u (nVotes - totalCount cs + getCount cs u)) ≠ [] := by
  by_cases hex : ∃ p ∈ cs, p.1 ≠ u
  · obtain ⟨p, hp, hne⟩ := hex
    exact expand_ne_nil_of_pos (mem_setCount_of_ne hp hne) (h.2.1 p hp)
  · have hall : ∀ p ∈ cs, p.1 = u := by
      intro p hp
      by_contra hne
      exact hex ⟨p, hp, hne⟩
    obtain ⟨h1, h2, h3⟩ := h
    -- distinct keys, all equal to `u`: a single entry
    cases cs with
    | nil => exact absurd rfl h3
    | cons p rest =>
      have hrest : rest = [] := by
        cases rest with
        | nil => rfl
        | cons q rest' =>
          exfalso
          have hp := hall p List.mem_cons_self
          have hq := hall q (List.mem_cons_of_mem _ List.mem_cons_self)
          have hnd := List.nodup_cons.mp h1
          exact hnd.1 (by simp [hp, hq])
      subst hrest
      obtain ⟨k, v⟩ := p
      have hk : k = u := hall (k, v) List.mem_cons_self
      subst hk
      have hc : nVotes - totalCount [(k, v)] + getCount [(k, v)] k = nVotes := by
        simp [totalCount, getCount]
      rw [hc]
      exact expand_ne_nil_of_pos (self_mem_setCount _ _ _) hV

/-- without truncation, the corrected grade dict of a candidate of a real profile is never empty -/
theorem correctOne_ok_of_good {cfg : Cfg} (hT : cfg.trunc = .off) {cs : CScores} (h : GoodCS cs) {nVotes : Int}
    (hV : 0 < nVotes) : ∃ cs', correctOne cfg cs nVotes = .ok cs' ∧ expand cs' ≠ [] := by
  unfold correctOne
  simp only [bind, Except.bind, pure, Except.pure, hT]
  have htc := totalCount_pos h
  have hne : expand cs ≠ [] := by
    obtain ⟨_, h2, h3⟩ := h
    cases cs with
    | nil => exact absurd rfl h3
    | cons p rest => exact expand_ne_nil_of_pos List.mem_cons_self (h2 p List.mem_cons_self)
  split
  · rename_i hlt
    refine ⟨_, rfl, ?_⟩
    exact expand_ne_nil_of_pos (p := (cfg.bottom, cfg.minCount)) List.mem_cons_self (by simp only; omega)
  · cases hu : cfg.unscored with
    | none => exact ⟨cs, rfl, hne⟩
    | value u => exact ⟨_, rfl, expand_unscored_ne_nil h u hV⟩
    | min =>
      simp only
      cases hm : listMin (expand cs) with
      | error e => exact absurd (listMin_error hm).1 hne
      | ok u => exact ⟨_, rfl, expand_unscored_ne_nil h u hV⟩

/-- **`ScoreToSimpleVotes.convert` is total on real profiles without truncation** -/
theorem convert_total (cfg : Cfg) (hT : cfg.trunc = .off) (votes : SProfile) (hpos : PosCounts votes) :
    ∃ agg, convert cfg votes = .ok agg := by
  by_cases hne : votes = []
  · subst hne
    exact ⟨[], rfl⟩
  have hV := totalVotes_pos hpos hne
  have hgood := goodT_rawScores hpos
  unfold convert
  -- corrected scores
  have hcorr : ∃ t, correctedScores cfg votes = .ok t ∧ ∀ p ∈ t, expand p.2 ≠ [] := by
    unfold correctedScores
    simp only
    generalize rawScores votes = raw at hgood
    induction raw with
    | nil => exact ⟨[], rfl, by simp⟩
    | cons q rest ih =>
      obtain ⟨t', ht', hne'⟩ := ih (fun p hp => hgood p (List.mem_cons_of_mem _ hp))
      obtain ⟨cs', hcs', hne''⟩ := correctOne_ok_of_good hT (hgood q List.mem_cons_self) hV
      refine ⟨(q.1, cs') :: t', ?_, ?_⟩
      · rw [List.mapM_cons, hcs', ht']; rfl
      · intro p hp
        rcases List.mem_cons.mp hp with rfl | hp
        · exact hne''
        · exact hne' p hp
  obtain ⟨t, ht, hne'⟩ := hcorr
  rw [ht]
  change ∃ agg, aggregate cfg.fn t = .ok agg
  unfold aggregate
  apply mapM_ok_of_forall
  intro p hp
  obtain ⟨v, hv⟩ := aggFn_ok_of_ne_nil cfg.fn (hne' p hp)
  refine ⟨(p.1, v), ?_⟩
  unfold aggregateOne
  rw [hv]; rfl

/-- **ScoreVoting never raises on a real profile** (positive ballot counts, no truncation; any aggregation function,
    unscored value, minimum count): `evaluate` returns a result. -/
theorem score_total (cfg : Cfg) (hT : cfg.trunc = .off) (votes : SProfile) (hpos : PosCounts votes) (n : Nat) :
    ∃ r, scoreVoting cfg votes n = .ok r := by
  obtain ⟨agg, h⟩ := convert_total cfg hT votes hpos
  exact ⟨getNBest agg n, by unfold scoreVoting; rw [h]; rfl⟩

/-- **ScoreVoting refusals** on real profiles without truncation: the declared refusals are the only ones (in fact
    there is none at all: `score_total`).  With truncation the statement is false: `score_refusals_witness`. -/
theorem score_refusals (cfg : Cfg) (hT : cfg.trunc = .off) (votes : SProfile) (hpos : PosCounts votes) (n : Nat)
    (e : Err) (h : scoreVoting cfg votes n = .error e) : e = .votingSystemError ∨ e = .notImplemented := by
  obtain ⟨r, hr⟩ := score_total cfg hT votes hpos n
  rw [hr] at h; cases h

/-- non-vacuity: a profile with partial ballots, a tie for the second place -/
example : PosCounts [([(0, 5), (1, 2)], 2), ([(1, 2), (2, 2)], 1), ([(2, 2)], 1)] ∧
    scoreCands [([(0, 5), (1, 2)], 2), ([(1, 2), (2, 2)], 1), ([(2, 2)], 1)] = [0, 1, 2] ∧
    scoreVoting (C12.plainCfg .mean) [([(0, 5), (1, 2)], 2), ([(1, 2), (2, 2)], 1), ([(2, 2)], 1)] 2
      = .ok [Slot.cand 0, Slot.tie [1, 2]] := by
  refine ⟨by decide +kernel, by decide +kernel, by decide +kernel⟩

end VL.C08
