/-
  C08 instances for the score (cardinal) family — models VL.Score of C12 (VotelibModel/Score.lean):
  ScoreVoting, MajorityJudgment (both tie-breakings), STAR, AllocatedScoreSelector.

  Candidates "appearing in the votes" of a score profile: `scoreCands votes`, the keys of the raw score table
  `rawScores votes` (convert.py L188-191) in insertion order = the candidates graded on some ballot
  (`mem_scoreCands`).
-/
import VotelibProofs.Lemmas.ShapeDefs
import VotelibProofs.Props.C12
namespace VL.C08
open VL VL.Score VL.Appr

/-! ### the candidates of a score profile -/

/-- the candidates graded on some ballot, in order of first appearance: the keys of the raw score table -/
def scoreCands (votes : SProfile) : List Cand := (rawScores votes).map (·.1)

/-- real score profiles: every ballot has a positive count (Python `int`) -/
def PosCounts (votes : SProfile) : Prop := ∀ bn ∈ votes, 0 < bn.2

instance (votes : SProfile) : Decidable (PosCounts votes) := by unfold PosCounts; infer_instance

theorem tkeys_addScore (t : ScoreTable) (c : Cand) (s : Rat) (n : Int) :
    (addScore t c s n).map (·.1) = if c ∈ t.map (·.1) then t.map (·.1) else t.map (·.1) ++ [c] := by
  induction t with
  | nil => simp [addScore]
  | cons p rest ih =>
    obtain ⟨k, cs⟩ := p
    unfold addScore
    by_cases h : k = c
    · subst h; simp
    · rw [if_neg h, List.map_cons, ih]
      have h' : ¬ c = k := fun e => h e.symm
      by_cases hm : c ∈ rest.map (·.1)
      · simp [hm]
      · simp [hm, h']

theorem tkeys_addScore_nodup {t : ScoreTable} (h : (t.map (·.1)).Nodup) (c : Cand) (s : Rat) (n : Int) :
    ((addScore t c s n).map (·.1)).Nodup := by
  rw [tkeys_addScore]
  split
  · exact h
  · rename_i hc
    exact List.nodup_append.mpr ⟨h, List.nodup_singleton c, by
      intro a ha b hb
      rw [List.mem_singleton] at hb
      subst hb
      exact fun e => hc (e ▸ ha)⟩

theorem mem_tkeys_addScore {t : ScoreTable} {c : Cand} {s : Rat} {n : Int} {x : Cand} :
    x ∈ (addScore t c s n).map (·.1) ↔ x ∈ t.map (·.1) ∨ x = c := by
  rw [tkeys_addScore]
  split
  · rename_i h
    constructor
    · exact Or.inl
    · rintro (h' | rfl)
      · exact h'
      · exact h
  · simp

/-- the raw table after the ballots `votes`, starting from `t` -/
def rawFrom (t : ScoreTable) (votes : SProfile) : ScoreTable :=
  votes.foldl (fun t bn => bn.1.foldl (fun t cs => addScore t cs.1 cs.2 bn.2) t) t

theorem rawScores_eq (votes : SProfile) : rawScores votes = rawFrom [] votes := rfl

theorem ballot_fold_keys (b : SBallot) (n : Int) : ∀ (t : ScoreTable),
    ((t.map (·.1)).Nodup → ((b.foldl (fun t cs => addScore t cs.1 cs.2 n) t).map (·.1)).Nodup) ∧
    ∀ x, x ∈ (b.foldl (fun t cs => addScore t cs.1 cs.2 n) t).map (·.1) ↔ x ∈ t.map (·.1) ∨ ∃ cs ∈ b, cs.1 = x := by
  induction b with
  | nil => intro t; simp
  | cons cs rest ih =>
    intro t
    simp only [List.foldl_cons]
    obtain ⟨h1, h2⟩ := ih (addScore t cs.1 cs.2 n)
    refine ⟨fun h => h1 (tkeys_addScore_nodup h _ _ _), ?_⟩
    intro x
    rw [h2, mem_tkeys_addScore]
    simp only [List.mem_cons, exists_eq_or_imp]
    constructor
    · rintro ((h | h) | h)
      · exact Or.inl h
      · exact Or.inr (Or.inl h.symm)
      · exact Or.inr (Or.inr h)
    · rintro (h | h | h)
      · exact Or.inl (Or.inl h)
      · exact Or.inl (Or.inr h.symm)
      · exact Or.inr h

theorem rawFrom_keys (votes : SProfile) : ∀ (t : ScoreTable),
    ((t.map (·.1)).Nodup → ((rawFrom t votes).map (·.1)).Nodup) ∧
    ∀ x, x ∈ (rawFrom t votes).map (·.1) ↔ x ∈ t.map (·.1) ∨ ∃ bn ∈ votes, ∃ cs ∈ bn.1, cs.1 = x := by
  induction votes with
  | nil => intro t; simp [rawFrom]
  | cons bn rest ih =>
    intro t
    unfold rawFrom
    simp only [List.foldl_cons]
    obtain ⟨h1, h2⟩ := ih (bn.1.foldl (fun t cs => addScore t cs.1 cs.2 bn.2) t)
    obtain ⟨k1, k2⟩ := ballot_fold_keys bn.1 bn.2 t
    refine ⟨fun h => h1 (k1 h), ?_⟩
    intro x
    have := h2 x
    unfold rawFrom at this
    rw [this, k2]
    simp only [List.mem_cons, exists_eq_or_imp]
    exact or_assoc

theorem scoreCands_nodup (votes : SProfile) : (scoreCands votes).Nodup :=
  (rawFrom_keys votes []).1 (by simp)

/-- **the candidates of a score profile are exactly those graded on some ballot** -/
theorem mem_scoreCands {votes : SProfile} {c : Cand} :
    c ∈ scoreCands votes ↔ ∃ bn ∈ votes, ∃ cs ∈ bn.1, cs.1 = c := by
  unfold scoreCands
  rw [rawScores_eq, (rawFrom_keys votes []).2]
  simp

/-! ### keys survive correction and aggregation -/

theorem mapM_keys {β γ : Type} {f : Cand × β → Except Err γ} :
    ∀ {l : List (Cand × β)} {r : List (Cand × γ)},
      l.mapM (fun p => do let v ← f p; pure (p.1, v)) = .ok r → r.map (·.1) = l.map (·.1) := by
  intro l
  induction l with
  | nil => intro r h; simp only [List.mapM_nil] at h; injection h with h; subst h; rfl
  | cons p ps ih =>
    intro r h
    rw [List.mapM_cons] at h
    cases hv : f p with
    | error e => rw [hv] at h; cases h
    | ok v =>
      rw [hv] at h
      cases hr : ps.mapM (fun p => do let v ← f p; pure (p.1, v)) with
      | error e => rw [hr] at h; cases h
      | ok r' =>
        rw [hr] at h
        injection h with h
        subst h
        simp only [List.map_cons]
        congr 1
        exact ih hr

theorem correctedScores_keys {cfg : Cfg} {votes : SProfile} {t : ScoreTable}
    (h : correctedScores cfg votes = .ok t) : t.map (·.1) = scoreCands votes := by
  unfold correctedScores at h
  exact mapM_keys (f := fun p => correctOne cfg p.2 (totalVotes votes)) h

theorem convert_keys {cfg : Cfg} {votes : SProfile} {agg : Votes} (h : convert cfg votes = .ok agg) :
    keys agg = scoreCands votes := by
  unfold convert at h
  cases ht : correctedScores cfg votes with
  | error e => rw [ht] at h; cases h
  | ok t =>
    rw [ht] at h
    rw [aggregate_keys (fn := cfg.fn) (t := t) h, correctedScores_keys ht]

/-! ### ScoreVoting: shape -/

/-- **ScoreVoting has the selection shape** (any settings, any profile): whenever `evaluate(votes, n)` returns, with
    `1 ≤ n ≤ #candidates graded`, the result has exactly `n` places filled with distinct graded candidates or ties of
    them. -/
theorem score_shape (cfg : Cfg) (votes : SProfile) (n : Nat) (h1 : 1 ≤ n) (hlen : n ≤ (scoreCands votes).length)
    (r : List Slot) (h : scoreVoting cfg votes n = .ok r) : SelShape (scoreCands votes) n r := by
  unfold scoreVoting at h
  cases hc : convert cfg votes with
  | error e => rw [hc] at h; cases h
  | ok agg =>
    rw [hc] at h
    injection h with h
    subst h
    exact getNBest_shape_of_keys agg _ (convert_keys hc) (scoreCands_nodup votes) n h1 hlen

/-! ### ScoreVoting: refusals -/

theorem mapM_error_mem {α β : Type} {f : α → Except Err β} {e : Err} : ∀ {l : List α},
    l.mapM f = .error e → ∃ x ∈ l, f x = .error e := by
  intro l
  induction l with
  | nil => intro h; simp only [List.mapM_nil] at h; cases h
  | cons a as ih =>
    intro h
    rw [List.mapM_cons] at h
    cases ha : f a with
    | error e' =>
      rw [ha] at h
      injection h with h
      subst h
      exact ⟨a, List.mem_cons_self, ha⟩
    | ok y =>
      rw [ha] at h
      cases hr : as.mapM f with
      | error e' =>
        rw [hr] at h
        injection h with h
        subst h
        obtain ⟨x, hx, hfx⟩ := ih hr
        exact ⟨x, List.mem_cons_of_mem _ hx, hfx⟩
      | ok r => rw [hr] at h; cases h

theorem mapM_ok_of_forall {α β : Type} {f : α → Except Err β} : ∀ {l : List α},
    (∀ x ∈ l, ∃ y, f x = .ok y) → ∃ r, l.mapM f = .ok r := by
  intro l h
  cases hm : l.mapM f with
  | ok r => exact ⟨r, rfl⟩
  | error e =>
    obtain ⟨x, hx, hfx⟩ := mapM_error_mem hm
    obtain ⟨y, hy⟩ := h x hx
    rw [hy] at hfx; cases hfx

/-- `statistics.median_low` fails only on empty data (the model's `IndexError` branch is dead) -/
theorem medianLow_error {l : List Rat} {e : Err} (h : medianLow l = .error e) :
    l = [] ∧ e = .other "StatisticsError" := by
  by_cases hl : l = []
  · subst hl
    rw [medianLow_nil] at h
    injection h with h
    exact ⟨rfl, h.symm⟩
  · obtain ⟨v, hv, _⟩ := medianLow_spec l hl
    rw [hv] at h; cases h

/-- an aggregation function fails only on an empty grade list, with its own exception -/
theorem aggFn_error {fn : Agg} {l : List Rat} {e : Err} (h : aggFn fn l = .error e) :
    l = [] ∧ ((fn = .mean ∧ e = .other "ZeroDivisionError") ∨ (fn = .medianLow ∧ e = .other "StatisticsError")) := by
  cases fn with
  | mean =>
    simp only [aggFn, exactMean] at h
    split at h
    · rename_i h0
      injection h with h
      exact ⟨List.eq_nil_of_length_eq_zero h0, Or.inl ⟨rfl, h.symm⟩⟩
    · cases h
  | sum => simp only [aggFn] at h; cases h
  | medianLow =>
    simp only [aggFn] at h
    obtain ⟨h1, h2⟩ := medianLow_error h
    exact ⟨h1, Or.inr ⟨rfl, h2⟩⟩

theorem aggFn_ok_of_ne_nil (fn : Agg) {l : List Rat} (hl : l ≠ []) : ∃ v, aggFn fn l = .ok v := by
  cases h : aggFn fn l with
  | ok v => exact ⟨v, rfl⟩
  | error e => exact absurd (aggFn_error h).1 hl

theorem listMin_error {l : List Rat} {e : Err} (h : listMin l = .error e) : l = [] ∧ e = .valueError := by
  cases l with
  | nil => simp only [listMin] at h; injection h with h; exact ⟨rfl, h.symm⟩
  | cons x xs => simp only [listMin] at h; cases h

/-- `_correct_candidate_scores` raises only when `unscored_value='min'` meets an empty grade list -/
theorem correctOne_error {cfg : Cfg} {scores : CScores} {nVotes : Int} {e : Err}
    (h : correctOne cfg scores nVotes = .error e) :
    e = .valueError ∧ cfg.unscored = .min ∧ expand scores = [] := by
  unfold correctOne at h
  simp only [bind, Except.bind, pure, Except.pure] at h
  split at h
  · cases h
  · cases hu : cfg.unscored with
    | none => rw [hu] at h; simp only at h; split at h <;> cases h
    | value u => rw [hu] at h; simp only at h; split at h <;> cases h
    | min =>
      rw [hu] at h
      simp only at h
      cases hm : listMin (expand scores) with
      | error e' =>
        rw [hm] at h
        simp only at h
        injection h with h
        subst h
        obtain ⟨h1, h2⟩ := listMin_error hm
        exact ⟨h2, rfl, h1⟩
      | ok u => rw [hm] at h; simp only at h; split at h <;> cases h

/-- where an error of `ScoreToSimpleVotes.convert` comes from -/
theorem convert_error {cfg : Cfg} {votes : SProfile} {e : Err} (h : convert cfg votes = .error e) :
    (e = .valueError ∧ cfg.unscored = .min ∧ ∃ p ∈ rawScores votes, expand p.2 = []) ∨
    (∃ t, correctedScores cfg votes = .ok t ∧ ∃ p ∈ t, expand p.2 = [] ∧
      ((cfg.fn = .mean ∧ e = .other "ZeroDivisionError") ∨ (cfg.fn = .medianLow ∧ e = .other "StatisticsError"))) := by
  unfold convert at h
  cases ht : correctedScores cfg votes with
  | error e' =>
    rw [ht] at h
    injection h with h
    subst h
    left
    unfold correctedScores at ht
    obtain ⟨p, hp, hfp⟩ := mapM_error_mem ht
    cases hc : correctOne cfg p.2 (totalVotes votes) with
    | ok cs => rw [hc] at hfp; cases hfp
    | error e'' =>
      rw [hc] at hfp
      injection hfp with hfp
      subst hfp
      obtain ⟨h1, h2, h3⟩ := correctOne_error hc
      exact ⟨h1, h2, p, hp, h3⟩
  | ok t =>
    rw [ht] at h
    right
    refine ⟨t, rfl, ?_⟩
    change aggregate cfg.fn t = .error e at h
    unfold aggregate at h
    obtain ⟨p, hp, hfp⟩ := mapM_error_mem h
    cases ha : aggregateOne cfg.fn p.2 with
    | ok v => rw [ha] at hfp; cases hfp
    | error e' =>
      rw [ha] at hfp
      injection hfp with hfp
      subst hfp
      unfold aggregateOne at ha
      obtain ⟨h1, h2⟩ := aggFn_error ha
      exact ⟨p, hp, h1, h2⟩

/-- **ScoreVoting refusals, unconditional part.**  `evaluate` never raises one of the declared refusals; the only
    exceptions it can raise at all (any settings, any profile) are
      * `ValueError` (`min()` of nothing) with `unscored_value='min'` when a candidate has no grade of positive count,
      * `ZeroDivisionError` with `function='mean'`, `StatisticsError` with `function='median_low'` when the corrected
        grade list of some candidate is empty (non-positive counts, `min_count ≤ 0` over them, or a truncation that
        removes every grade: `score_refusals_witness`).
    Full statement (FALSE, see the witness): `∀ e, scoreVoting cfg votes n = .error e → e = .votingSystemError ∨ e = .notImplemented`. -/
theorem score_refusals_partial (cfg : Cfg) (votes : SProfile) (n : Nat) (e : Err)
    (h : scoreVoting cfg votes n = .error e) :
    (e = .valueError ∧ cfg.unscored = .min) ∨
    (e = .other "ZeroDivisionError" ∧ cfg.fn = .mean) ∨
    (e = .other "StatisticsError" ∧ cfg.fn = .medianLow) := by
  unfold scoreVoting at h
  cases hc : convert cfg votes with
  | ok agg => rw [hc] at h; cases h
  | error e' =>
    rw [hc] at h
    injection h with h
    subst h
    rcases convert_error hc with ⟨h1, h2, _⟩ | ⟨t, _, p, _, _, (⟨h1, h2⟩ | ⟨h1, h2⟩)⟩
    · exact Or.inl ⟨h1, h2⟩
    · exact Or.inr (Or.inl ⟨h2, h1⟩)
    · exact Or.inr (Or.inr ⟨h2, h1⟩)

/-- truncation that removes every grade of a candidate (one voter, drop one grade from each end; or 10 voters, a
    candidate graded by 2 of them, drop a quarter of the *voters* from each end): undeclared exceptions -/
theorem score_refusals_witness :
    scoreVoting { fn := .mean, unscored := .none, minCount := 0, trunc := .count 1, bottom := 0 } [([(0, 3)], 1)] 1
      = .error (.other "ZeroDivisionError") ∧
    scoreVoting { fn := .medianLow, unscored := .none, minCount := 0, trunc := .frac (1/4), bottom := 0 }
      [([(0, 3), (1, 2)], 2), ([(0, 1)], 8)] 1 = .error (.other "StatisticsError") := by
  constructor <;> decide +kernel

/-! ### ScoreVoting on real profiles (positive counts), no truncation: total -/

/-- a grade dict as `corrected_scores` builds it from positive ballot counts: distinct grades, positive counts,
    at least one grade -/
def GoodCS (cs : CScores) : Prop := (ckeys cs).Nodup ∧ (∀ p ∈ cs, 0 < p.2) ∧ cs ≠ []

theorem mem_setCount {d : CScores} {s : Rat} {n : Int} {p : Rat × Int} (h : p ∈ setCount d s n) :
    p = (s, n) ∨ p ∈ d := by
  induction d with
  | nil => simp only [setCount, List.mem_singleton] at h; exact Or.inl h
  | cons q rest ih =>
    obtain ⟨k, v⟩ := q
    unfold setCount at h
    by_cases hk : k = s
    · rw [if_pos hk] at h
      rcases List.mem_cons.mp h with h | h
      · left; rw [h, hk]
      · right; exact List.mem_cons_of_mem _ h
    · rw [if_neg hk] at h
      rcases List.mem_cons.mp h with h | h
      · right; exact h ▸ List.mem_cons_self
      · rcases ih h with h | h
        · exact Or.inl h
        · exact Or.inr (List.mem_cons_of_mem _ h)

theorem self_mem_setCount (d : CScores) (s : Rat) (n : Int) : (s, n) ∈ setCount d s n := by
  induction d with
  | nil => simp [setCount]
  | cons q rest ih =>
    obtain ⟨k, v⟩ := q
    unfold setCount
    by_cases hk : k = s
    · rw [if_pos hk, hk]; exact List.mem_cons_self
    · rw [if_neg hk]; exact List.mem_cons_of_mem _ ih

theorem mem_setCount_of_ne {d : CScores} {s : Rat} {n : Int} {p : Rat × Int} (hp : p ∈ d) (hne : p.1 ≠ s) :
    p ∈ setCount d s n := by
  induction d with
  | nil => cases hp
  | cons q rest ih =>
    obtain ⟨k, v⟩ := q
    unfold setCount
    by_cases hk : k = s
    · rw [if_pos hk]
      rcases List.mem_cons.mp hp with h | h
      · exact absurd (by rw [h]; exact hk) hne
      · exact List.mem_cons_of_mem _ h
    · rw [if_neg hk]
      rcases List.mem_cons.mp hp with h | h
      · exact h ▸ List.mem_cons_self
      · exact List.mem_cons_of_mem _ (ih h)

theorem getCount_nonneg {d : CScores} (h : ∀ p ∈ d, 0 < p.2) (s : Rat) : 0 ≤ getCount d s := by
  unfold getCount
  cases hf : d.find? (fun p => decide (p.1 = s)) with
  | none => exact le_refl _
  | some p => exact le_of_lt (h p (List.mem_of_find?_eq_some hf))

theorem goodCS_addCount {cs : CScores} (h : cs = [] ∨ GoodCS cs) (s : Rat) {n : Int} (hn : 0 < n) :
    GoodCS (addCount cs s n) := by
  unfold addCount
  rcases h with rfl | ⟨h1, h2, _⟩
  · refine ⟨by simp [setCount, ckeys], ?_, by simp [setCount]⟩
    intro p hp
    simp only [setCount, List.mem_singleton] at hp
    rw [hp]; simp only [getCount_nil]; omega
  · refine ⟨ckeys_setCount_nodup h1 _ _, ?_, ?_⟩
    · intro p hp
      rcases mem_setCount hp with rfl | hp
      · have := getCount_nonneg h2 s
        simp only; omega
      · exact h2 p hp
    · intro he
      have := self_mem_setCount cs s (getCount cs s + n)
      rw [he] at this; cases this

/-- all grade dicts of a raw table are good -/
def GoodT (t : ScoreTable) : Prop := ∀ p ∈ t, GoodCS p.2

theorem goodT_addScore {t : ScoreTable} (h : GoodT t) (c : Cand) (s : Rat) {n : Int} (hn : 0 < n) :
    GoodT (addScore t c s n) := by
  induction t with
  | nil =>
    intro p hp
    simp only [addScore, List.mem_singleton] at hp
    rw [hp]
    exact goodCS_addCount (Or.inl rfl) s hn
  | cons q rest ih =>
    obtain ⟨k, cs⟩ := q
    have hq : GoodCS cs := h (k, cs) List.mem_cons_self
    have hrest : GoodT rest := fun p hp => h p (List.mem_cons_of_mem _ hp)
    unfold addScore
    by_cases hk : k = c
    · rw [if_pos hk]
      intro p hp
      rcases List.mem_cons.mp hp with rfl | hp
      · exact goodCS_addCount (Or.inr hq) s hn
      · exact hrest p hp
    · rw [if_neg hk]
      intro p hp
      rcases List.mem_cons.mp hp with rfl | hp
      · exact hq
      · exact ih hrest p hp

theorem goodT_rawFrom {votes : SProfile} (hpos : PosCounts votes) : ∀ (t : ScoreTable), GoodT t → GoodT (rawFrom t votes) := by
  induction votes with
  | nil => intro t h; exact h
  | cons bn rest ih =>
    intro t h
    unfold rawFrom
    simp only [List.foldl_cons]
    have hn : 0 < bn.2 := hpos bn List.mem_cons_self
    apply ih (fun x hx => hpos x (List.mem_cons_of_mem _ hx))
    generalize bn.1 = b
    induction b generalizing t with
    | nil => exact h
    | cons cs b' ihb =>
      simp only [List.foldl_cons]
      exact ihb _ (goodT_addScore h _ _ hn)

theorem goodT_rawScores {votes : SProfile} (hpos : PosCounts votes) : GoodT (rawScores votes) :=
  goodT_rawFrom hpos [] (fun _ h => by cases h)

theorem expand_ne_nil_of_pos {cs : CScores} {p : Rat × Int} (hp : p ∈ cs) (h : 0 < p.2) : expand cs ≠ [] := by
  intro he
  have : p.1 ∈ expand cs := mem_expand.mpr ⟨p, hp, rfl, h⟩
  rw [he] at this; cases this

theorem totalVotes_pos {votes : SProfile} (hpos : PosCounts votes) (hne : votes ≠ []) : 0 < totalVotes votes := by
  unfold totalVotes
  induction votes with
  | nil => exact absurd rfl hne
  | cons bn rest ih =>
    simp only [List.map_cons, List.sum_cons]
    have h1 : 0 < bn.2 := hpos bn List.mem_cons_self
    by_cases hr : rest = []
    · subst hr; simp; exact h1
    · have := ih (fun x hx => hpos x (List.mem_cons_of_mem _ hx)) hr
      omega

theorem totalCount_pos {cs : CScores} (h : GoodCS cs) : 0 < totalCount cs := by
  obtain ⟨_, h2, h3⟩ := h
  unfold totalCount
  induction cs with
  | nil => exact absurd rfl h3
  | cons p rest ih =>
    simp only [List.map_cons, List.sum_cons]
    have h1 : 0 < p.2 := h2 p List.mem_cons_self
    have : 0 ≤ (rest.map (·.2)).sum := List.sum_nonneg (by
      intro x hx
      obtain ⟨q, hq, rfl⟩ := List.mem_map.mp hx
      exact le_of_lt (h2 q (List.mem_cons_of_mem _ hq)))
    omega

/-- giving the unscored value `u` to the voters who did not grade the candidate leaves at least one grade -/
theorem expand_unscored_ne_nil {cs : CScores} (h : GoodCS cs) (u : Rat) {nVotes : Int} (hV : 0 < nVotes) :
    expand (setCount cs u (nVotes - totalCount cs + getCount cs u)) ≠ [] := by
  by_cases hex : ∃ p ∈ cs, p.1 ≠ u
  · obtain ⟨p, hp, hne⟩ := hex
    exact expand_ne_nil_of_pos (mem_setCount_of_ne hp hne) (h.2.1 p hp)
  · have hall : ∀ p ∈ cs, p.1 = u := by
      intro p hp
      by_contra hne
      exact hex ⟨p, hp, hne⟩
    obtain ⟨h1, h2, h3⟩ := h
    -- distinct keys, all equal to `u`: a single entry
    cases cs with
    | nil => exact absurd rfl h3
    | cons p rest =>
      have hrest : rest = [] := by
        cases rest with
        | nil => rfl
        | cons q rest' =>
          exfalso
          have hp := hall p List.mem_cons_self
          have hq := hall q (List.mem_cons_of_mem _ List.mem_cons_self)
          have hnd := List.nodup_cons.mp h1
          exact hnd.1 (by simp [hp, hq])
      subst hrest
      obtain ⟨k, v⟩ := p
      have hk : k = u := hall (k, v) List.mem_cons_self
      subst hk
      have hc : nVotes - totalCount [(k, v)] + getCount [(k, v)] k = nVotes := by
        simp [totalCount, getCount]
      rw [hc]
      exact expand_ne_nil_of_pos (self_mem_setCount _ _ _) hV

/-- without truncation, the corrected grade dict of a candidate of a real profile is never empty -/
theorem correctOne_ok_of_good {cfg : Cfg} (hT : cfg.trunc = .off) {cs : CScores} (h : GoodCS cs) {nVotes : Int}
    (hV : 0 < nVotes) : ∃ cs', correctOne cfg cs nVotes = .ok cs' ∧ expand cs' ≠ [] := by
  unfold correctOne
  simp only [bind, Except.bind, pure, Except.pure, hT]
  have htc := totalCount_pos h
  have hne : expand cs ≠ [] := by
    obtain ⟨_, h2, h3⟩ := h
    cases cs with
    | nil => exact absurd rfl h3
    | cons p rest => exact expand_ne_nil_of_pos List.mem_cons_self (h2 p List.mem_cons_self)
  split
  · rename_i hlt
    refine ⟨_, rfl, ?_⟩
    exact expand_ne_nil_of_pos (p := (cfg.bottom, cfg.minCount)) List.mem_cons_self (by simp only; omega)
  · cases hu : cfg.unscored with
    | none => exact ⟨cs, rfl, hne⟩
    | value u => exact ⟨_, rfl, expand_unscored_ne_nil h u hV⟩
    | min =>
      simp only
      cases hm : listMin (expand cs) with
      | error e => exact absurd (listMin_error hm).1 hne
      | ok u => exact ⟨_, rfl, expand_unscored_ne_nil h u hV⟩

/-- **`ScoreToSimpleVotes.convert` is total on real profiles without truncation** -/
theorem convert_total (cfg : Cfg) (hT : cfg.trunc = .off) (votes : SProfile) (hpos : PosCounts votes) :
    ∃ agg, convert cfg votes = .ok agg := by
  by_cases hne : votes = []
  · subst hne
    exact ⟨[], rfl⟩
  have hV := totalVotes_pos hpos hne
  have hgood := goodT_rawScores hpos
  unfold convert
  -- corrected scores
  have hcorr : ∃ t, correctedScores cfg votes = .ok t ∧ ∀ p ∈ t, expand p.2 ≠ [] := by
    unfold correctedScores
    simp only
    generalize rawScores votes = raw at hgood
    induction raw with
    | nil => exact ⟨[], rfl, by simp⟩
    | cons q rest ih =>
      obtain ⟨t', ht', hne'⟩ := ih (fun p hp => hgood p (List.mem_cons_of_mem _ hp))
      obtain ⟨cs', hcs', hne''⟩ := correctOne_ok_of_good hT (hgood q List.mem_cons_self) hV
      refine ⟨(q.1, cs') :: t', ?_, ?_⟩
      · rw [List.mapM_cons, hcs', ht']; rfl
      · intro p hp
        rcases List.mem_cons.mp hp with rfl | hp
        · exact hne''
        · exact hne' p hp
  obtain ⟨t, ht, hne'⟩ := hcorr
  rw [ht]
  change ∃ agg, aggregate cfg.fn t = .ok agg
  unfold aggregate
  apply mapM_ok_of_forall
  intro p hp
  obtain ⟨v, hv⟩ := aggFn_ok_of_ne_nil cfg.fn (hne' p hp)
  refine ⟨(p.1, v), ?_⟩
  unfold aggregateOne
  rw [hv]; rfl

/-- **ScoreVoting never raises on a real profile** (positive ballot counts, no truncation; any aggregation function,
    unscored value, minimum count): `evaluate` returns a result. -/
theorem score_total (cfg : Cfg) (hT : cfg.trunc = .off) (votes : SProfile) (hpos : PosCounts votes) (n : Nat) :
    ∃ r, scoreVoting cfg votes n = .ok r := by
  obtain ⟨agg, h⟩ := convert_total cfg hT votes hpos
  exact ⟨getNBest agg n, by unfold scoreVoting; rw [h]; rfl⟩

/-- **ScoreVoting refusals** on real profiles without truncation: the declared refusals are the only ones (in fact
    there is none at all: `score_total`).  With truncation the statement is false: `score_refusals_witness`. -/
theorem score_refusals (cfg : Cfg) (hT : cfg.trunc = .off) (votes : SProfile) (hpos : PosCounts votes) (n : Nat)
    (e : Err) (h : scoreVoting cfg votes n = .error e) : e = .votingSystemError ∨ e = .notImplemented := by
  obtain ⟨r, hr⟩ := score_total cfg hT votes hpos n
  rw [hr] at h; cases h

/-- non-vacuity: a profile with partial ballots, a tie for the second place -/
example : PosCounts [([(0, 5), (1, 2)], 2), ([(1, 2), (2, 2)], 1), ([(2, 2)], 1)] ∧
    scoreCands [([(0, 5), (1, 2)], 2), ([(1, 2), (2, 2)], 1), ([(2, 2)], 1)] = [0, 1, 2] ∧
    scoreVoting (C12.plainCfg .mean) [([(0, 5), (1, 2)], 2), ([(1, 2), (2, 2)], 1), ([(2, 2)], 1)] 2
      = .ok [Slot.cand 0, Slot.tie [1, 2]] := by
  refine ⟨by decide +kernel, by decide +kernel, by decide +kernel⟩

/-! ### ScoreVoting with truncation that leaves every candidate a grade -/

theorem wTotal_cons (q : Rat × Int) (cs : CScores) : wTotal (q :: cs) = q.2.toNat + wTotal cs := by
  simp [wTotal]

theorem wTotal_eq_totalCount {cs : CScores} (h : ∀ q ∈ cs, 0 ≤ q.2) : ((wTotal cs : Nat) : Int) = totalCount cs := by
  induction cs with
  | nil => simp [wTotal, totalCount]
  | cons q rest ih =>
    have h0 := h q List.mem_cons_self
    have := ih (fun x hx => h x (List.mem_cons_of_mem _ hx))
    rw [wTotal_cons]
    unfold totalCount at this ⊢
    simp only [List.map_cons, List.sum_cons]
    omega



theorem convert_ok_of {cfg : Cfg} {votes : SProfile}
    (h : ∀ p ∈ rawScores votes, ∃ cs', correctOne cfg p.2 (totalVotes votes) = .ok cs' ∧ expand cs' ≠ []) :
    ∃ agg, convert cfg votes = .ok agg := by
  unfold convert
  have hcorr : ∃ t, correctedScores cfg votes = .ok t ∧ ∀ p ∈ t, expand p.2 ≠ [] := by
    unfold correctedScores
    simp only
    generalize rawScores votes = raw at h
    induction raw with
    | nil => exact ⟨[], rfl, by simp⟩
    | cons q rest ih =>
      obtain ⟨t', ht', hne'⟩ := ih (fun p hp => h p (List.mem_cons_of_mem _ hp))
      obtain ⟨cs', hcs', hne''⟩ := h q List.mem_cons_self
      refine ⟨(q.1, cs') :: t', ?_, ?_⟩
      · rw [List.mapM_cons, hcs', ht']; rfl
      · intro p hp
        rcases List.mem_cons.mp hp with rfl | hp
        · exact hne''
        · exact hne' p hp
  obtain ⟨t, ht, hne'⟩ := hcorr
  rw [ht]
  change ∃ agg, aggregate cfg.fn t = .ok agg
  unfold aggregate
  apply mapM_ok_of_forall
  intro p hp
  obtain ⟨v, hv⟩ := aggFn_ok_of_ne_nil cfg.fn (hne' p hp)
  refine ⟨(p.1, v), ?_⟩
  unfold aggregateOne
  rw [hv]; rfl

theorem trimmed_length (l : List Rat) (c : Nat) : (C12.trimmed l c).length = l.length - c - c := by
  unfold C12.trimmed
  simp [List.length_drop]

/-- **ScoreVoting with truncation never raises on a real profile when every candidate keeps a grade**: no unscored
    value, cutoff `c` (the configured count, or `int(n_votes · fraction)`), and every candidate with at least
    `min_count` grades has more than `2c` of them. -/
theorem score_total_trunc (cfg : Cfg) (hU : cfg.unscored = .none) (votes : SProfile) (hpos : PosCounts votes) (c : Nat)
    (hc : match cfg.trunc with
      | .off => False
      | .frac r => Py.pyInt (((totalVotes votes : Int) : Rat) * r) = (c : Int)
      | .count k => k = c)
    (hleave : ∀ p ∈ rawScores votes, ¬ totalCount p.2 < cfg.minCount → 2 * (c : Int) < totalCount p.2) (n : Nat) :
    ∃ r, scoreVoting cfg votes n = .ok r := by
  have hconv : ∃ agg, convert cfg votes = .ok agg := by
    apply convert_ok_of
    intro p hp
    have hgood := goodT_rawScores hpos p hp
    have hne : votes ≠ [] := by
      intro h0
      rw [h0] at hp
      cases hp
    have hV := totalVotes_pos hpos hne
    have htc := totalCount_pos hgood
    by_cases hmin : totalCount p.2 < cfg.minCount
    · refine ⟨_, C12.score_min_count_eq_spec cfg p.2 _ hmin, ?_⟩
      exact expand_ne_nil_of_pos (p := (cfg.bottom, cfg.minCount)) List.mem_cons_self (by simp only; omega)
    · have hnn : ∀ q ∈ p.2, 0 ≤ q.2 := fun q hq => le_of_lt (hgood.2.1 q hq)
      obtain ⟨cs', h1, h2, _⟩ := C12.score_truncation_eq_spec cfg hU p.2 (totalVotes votes) hmin hgood.1 hnn c (by
        have hV' : totalVotes votes ≠ 0 := by omega
        cases ht : cfg.trunc with
        | off => rw [ht] at hc; exact hc
        | frac r =>
          rw [ht] at hc
          simp only at hc ⊢
          rw [if_pos hV']
          exact hc
        | count k => rw [ht] at hc; exact hc)
      refine ⟨cs', h1, ?_⟩
      intro he
      have hl := congrArg List.length h2
      rw [sortR_length, he, trimmed_length, sortR_length, expand_length] at hl
      have hw := wTotal_eq_totalCount hnn
      have := hleave p hp hmin
      simp at hl
      omega
  obtain ⟨agg, h⟩ := hconv
  exact ⟨getNBest agg n, by unfold scoreVoting; rw [h]; rfl⟩

/-- non-vacuity: drop the lowest and the highest grade of every candidate -/
example : PosCounts [([(0, 5), (1, 2)], 2), ([(0, 1), (1, 4)], 1)] ∧
    (∀ p ∈ rawScores [([(0, 5), (1, 2)], 2), ([(0, 1), (1, 4)], 1)], ¬ totalCount p.2 < 0 →
      2 * ((1 : Nat) : Int) < totalCount p.2) ∧
    scoreVoting { fn := .mean, unscored := .none, minCount := 0, trunc := .count 1, bottom := 0 }
      [([(0, 5), (1, 2)], 2), ([(0, 1), (1, 4)], 1)] 1 = .ok [Slot.cand 0] := by
  refine ⟨by decide +kernel, by decide +kernel, by decide +kernel⟩

/-! ### gluing selections -/

theorem foldl_inv {α β : Type} (P : β → Prop) (f : β → α → β) : ∀ (l : List α) (b : β), P b →
    (∀ b x, x ∈ l → P b → P (f b x)) → P (l.foldl f b) := by
  intro l
  induction l with
  | nil => intro b hb _; exact hb
  | cons x xs ih =>
    intro b hb hstep
    simp only [List.foldl_cons]
    exact ih _ (hstep b x List.mem_cons_self hb) (fun b y hy hP => hstep b y (List.mem_cons_of_mem _ hy) hP)

theorem electedOf_eq_slotCands (l : List Slot) : electedOf l = slotCands l := by
  induction l with
  | nil => rfl
  | cons s rest ih => cases s <;> simp [electedOf, slotCands, ih]

theorem mem_electedOf {l : List Slot} {c : Cand} : c ∈ electedOf l ↔ Slot.cand c ∈ l := by
  rw [electedOf_eq_slotCands]; exact slotCands_mem

theorem count_tie_map_cand' (w : List Cand) (T : List Cand) : (w.map Slot.cand).count (Slot.tie T) = 0 := by
  rw [List.count_eq_zero]
  intro h
  obtain ⟨c, _, hc⟩ := List.mem_map.mp h
  cases hc

/-- individually elected candidates `w` followed by a selection among other candidates -/
theorem SelShape.prependCands {cands cands' : List Cand} {m : Nat} {B : List Slot} {w : List Cand}
    (hB : SelShape cands' m B) (hsub : ∀ c ∈ cands', c ∈ cands) (hw : ∀ c ∈ w, c ∈ cands) (hnd : w.Nodup)
    (hdisj : ∀ c ∈ cands', c ∉ w) : SelShape cands (w.length + m) (w.map Slot.cand ++ B) := by
  have htie : ∀ T, Slot.tie T ∈ w.map Slot.cand ++ B → Slot.tie T ∈ B := by
    intro T hT
    rcases List.mem_append.mp hT with h | h
    · obtain ⟨c, _, hc⟩ := List.mem_map.mp h; cases hc
    · exact h
  refine ⟨by rw [List.length_append, List.length_map, hB.length], ?_, ?_, ?_, ?_, ?_⟩
  · intro c hc
    rcases List.mem_append.mp hc with h | h
    · obtain ⟨d, hd, he⟩ := List.mem_map.mp h
      injection he with he
      exact hw c (he ▸ hd)
    · exact hsub c (hB.cand_ok c h)
  · intro T hT c hc
    exact hsub c (hB.tie_ok T (htie T hT) c hc)
  · rw [electedOf_append, electedOf_map_cand]
    refine List.nodup_append.mpr ⟨hnd, hB.nodup, ?_⟩
    intro a ha b hb hab
    subst hab
    exact hdisj a (hB.cand_ok a (mem_electedOf.mp hb)) ha
  · intro T hT
    rw [List.count_append, count_tie_map_cand', Nat.zero_add]
    exact hB.tie_big T (htie T hT)
  · intro T hT c hc hcand
    have hT' := htie T hT
    rcases List.mem_append.mp hcand with h | h
    · obtain ⟨d, hd, he⟩ := List.mem_map.mp h
      injection he with he
      exact hdisj c (hB.tie_ok T hT' c hc) (he ▸ hd)
    · exact hB.disjoint T hT' c hc h

/-! ### Majority judgment: the tie-breakers have the selection shape -/

theorem tiebreakPlus_shape (scores : ScoreTable) (k : Nat) (h1 : 1 ≤ k) (hlen : k ≤ scores.length)
    (hnd : (scores.map (·.1)).Nodup) (r : List Slot) (h : tiebreakPlus scores k = .ok r) :
    SelShape (scores.map (·.1)) k r := by
  unfold tiebreakPlus at h
  cases scores with
  | nil => cases h
  | cons p ps =>
    simp only at h
    cases hm : aggregateOne .medianLow p.2 with
    | error e => rw [hm] at h; cases h
    | ok m =>
      rw [hm] at h
      injection h with h
      subst h
      refine getNBest_shape_of_keys _ _ ?_ hnd k h1 (by simpa using hlen)
      simp [keys, List.map_map, Function.comp_def]

/-- the places before the first tie object are individual candidates -/
theorem firstTie_take {l : List Slot} {j : Nat} (h : firstTie l = some j) :
    j < l.length ∧ l.take j = (slotCands (l.take j)).map Slot.cand ∧ (slotCands (l.take j)).length = j := by
  induction l generalizing j with
  | nil => simp [firstTie] at h
  | cons s rest ih =>
    cases s with
    | tie T =>
      simp only [firstTie] at h
      injection h with h
      subst h
      simp [slotCands]
    | cand c =>
      simp only [firstTie] at h
      cases hf : firstTie rest with
      | none => rw [hf] at h; cases h
      | some j' =>
        rw [hf] at h
        simp only [Option.map_some] at h
        injection h with h
        subst h
        obtain ⟨h1, h2, h3⟩ := ih hf
        refine ⟨by simp; omega, ?_, ?_⟩
        · simp only [List.take_succ_cons, slotCands, List.map_cons]
          rw [← h2]
        · simp only [List.take_succ_cons, slotCands, List.length_cons, h3]

theorem filter_keys_length {K w : List Cand} (hK : K.Nodup) :
    K.length ≤ (K.filter (fun c => !(w.contains c))).length + w.length := by
  have h := List.length_eq_length_filter_add (l := K) (fun c => w.contains c)
  have h2 : (K.filter (fun c => w.contains c)).length ≤ w.length := by
    apply List.Subperm.length_le
    apply List.Nodup.subperm (hK.filter _)
    intro x hx
    have := (List.mem_filter.mp hx).2
    simpa using this
  have h3 : (K.filter (fun c => !(w.contains c))).length = (K.filter (fun x => !(fun c => w.contains c) x)).length := rfl
  omega

/-- **the default tie-break has the selection shape whenever it returns** -/
theorem tiebreakDefault_shape : ∀ (fuel : Nat) (scores : ScoreTable) (n : Nat) (r : List Slot),
    tiebreakDefault fuel scores n = .ok r → 1 ≤ n → n ≤ scores.length → (scores.map (·.1)).Nodup →
      SelShape (scores.map (·.1)) n r := by
  intro fuel
  induction fuel with
  | zero => intro scores n r h; simp [tiebreakDefault] at h
  | succ fuel ih =>
    intro scores n r h h1 hlen hnd
    unfold tiebreakDefault at h
    cases scores with
    | nil => simp at h
    | cons p0 ps =>
      simp only at h
      split at h
      · cases h
      · cases hm : aggregate .medianLow (p0 :: ps) with
        | error e => rw [hm] at h; cases h
        | ok medians =>
          rw [hm] at h
          have hk := aggregate_keys hm
          have hbest := getNBest_shape_of_keys medians _ hk hnd n h1 (by simpa using hlen)
          simp only [bind, Except.bind] at h
          split at h
          · injection h with h; subst h; exact hbest
          · rename_i i hi
            obtain ⟨hj, htake, hwl⟩ := firstTie_take hi
            rw [hbest.length] at hj
            cases hrec : tiebreakDefault fuel
                (List.filter (fun p => !(slotCands (List.take (i + 1) (getNBest medians n))).contains p.1) (p0 :: ps))
                (n - (i + 1)) with
            | error e => rw [hrec] at h; cases h
            | ok rest =>
              rw [hrec] at h
              injection h with h
              subst h
              set wc := slotCands (List.take (i + 1) (getNBest medians n)) with hwc
              have hwc_mem : ∀ c ∈ wc, Slot.cand c ∈ getNBest medians n := by
                intro c hc
                have : Slot.cand c ∈ List.take (i + 1) (getNBest medians n) := by
                  rw [htake]; exact List.mem_map.mpr ⟨c, hc, rfl⟩
                exact List.mem_of_mem_take this
              have hwc_nd : wc.Nodup := by
                have hn := hbest.nodup
                rw [← List.take_append_drop (i + 1) (getNBest medians n), electedOf_append, electedOf_eq_slotCands] at hn
                exact (List.nodup_append.mp hn).1
              have hkeys : (List.filter (fun p => !(wc.contains p.1)) (p0 :: ps)).map (·.1)
                  = ((p0 :: ps).map (·.1)).filter (fun c => !(wc.contains c)) := by
                rw [List.filter_map]; rfl
              have hlen' := filter_keys_length (K := (p0 :: ps).map (·.1)) (w := wc) hnd
              have hshape := ih _ _ _ hrec (by omega) (by
                have : (List.filter (fun p => !(wc.contains p.1)) (p0 :: ps)).length
                    = ((List.filter (fun p => !(wc.contains p.1)) (p0 :: ps)).map (·.1)).length := by simp
                rw [this, hkeys]
                simp only [List.length_map] at hlen' hlen ⊢
                omega) (by rw [hkeys]; exact hnd.filter _)
              rw [hkeys] at hshape
              rw [htake]
              have := SelShape.prependCands (cands := (p0 :: ps).map (·.1)) (w := wc) hshape
                (fun c hc => (List.mem_filter.mp hc).1)
                (fun c hc => hbest.cand_ok c (hwc_mem c hc)) hwc_nd
                (fun c hc hcw => by
                  have := (List.mem_filter.mp hc).2
                  simp only [Bool.not_eq_true', List.contains_eq_mem, decide_eq_false_iff_not] at this
                  exact this hcw)
              rw [hwl] at this
              have e : i + 1 + (n - (i + 1)) = n := by omega
              rw [e] at this
              exact this
          · have := ih _ _ _ h h1 (by simpa using hlen) (by
              simpa [List.map_map, Function.comp_def] using hnd)
            simpa [List.map_map, Function.comp_def] using this

/-! ### Majority judgment: shape -/

theorem sortDedup_length_of_nodup {l : List Nat} (h : l.Nodup) : (sortDedup l).length = l.length :=
  ((List.perm_ext_iff_of_nodup (sortDedup_nodup l) h).mpr (fun _ => mem_sortDedup)).length_eq

theorem tableGet_isSome {t : ScoreTable} {c : Cand} (h : c ∈ t.map (·.1)) : ∃ cs, tableGet t c = some cs := by
  unfold tableGet
  cases hf : t.find? (fun p => decide (p.1 = c)) with
  | some p => exact ⟨p.2, rfl⟩
  | none =>
    exfalso
    obtain ⟨p, hp, hpc⟩ := List.mem_map.mp h
    have := List.find?_eq_none.mp hf p hp
    simp [hpc] at this

/-- the table handed to the tie-breaker: exactly the tied candidates, in iteration order -/
theorem tied_keys {t : ScoreTable} {T : List Cand} (h : ∀ c ∈ T, c ∈ t.map (·.1)) :
    ((sortDedup T).filterMap (fun c => (tableGet t c).map (fun cs => (c, cs)))).map (·.1) = sortDedup T := by
  have h' : ∀ c ∈ sortDedup T, c ∈ t.map (·.1) := fun c hc => h c (mem_sortDedup.mp hc)
  generalize sortDedup T = l at h'
  induction l with
  | nil => rfl
  | cons c rest ih =>
    obtain ⟨cs, hcs⟩ := tableGet_isSome (h' c List.mem_cons_self)
    rw [List.filterMap_cons, hcs]
    simp only [Option.map_some, List.map_cons]
    rw [ih (fun x hx => h' x (List.mem_cons_of_mem _ hx))]

/-- **Majority judgment has the selection shape** (both tie-breaking rules, any settings, any profile): whenever
    `evaluate(votes, n)` returns, with `1 ≤ n ≤ #candidates graded`, the result has exactly `n` places filled with
    distinct graded candidates or ties of them. -/
theorem mj_shape (tb : TieBreaking) (cfg : Cfg) (votes : SProfile) (n : Nat) (h1 : 1 ≤ n)
    (hlen : n ≤ (scoreCands votes).length) (r : List Slot) (hok : majorityJudgment tb cfg votes n = .ok r) :
    SelShape (scoreCands votes) n r := by
  unfold majorityJudgment at hok
  cases ht : correctedScores { cfg with fn := .medianLow } votes with
  | error e => rw [ht] at hok; cases hok
  | ok t =>
    rw [ht] at hok
    simp only [bind, Except.bind] at hok
    cases ha : aggregate .medianLow t with
    | error e => rw [ha] at hok; cases hok
    | ok agg =>
      rw [ha] at hok
      simp only at hok
      have htk : t.map (·.1) = scoreCands votes := correctedScores_keys ht
      have hk : keys agg = scoreCands votes := by rw [aggregate_keys ha, htk]
      have hnd : (keys agg).Nodup := hk ▸ scoreCands_nodup votes
      have hlen' : n ≤ agg.length := by
        have : agg.length = (keys agg).length := by simp [keys]
        rw [this, hk]; exact hlen
      have horder := getNBest_shape_of_keys agg _ hk (scoreCands_nodup votes) n h1 hlen
      split at hok
      · cases hok
      · injection hok with hok; subst hok; exact horder
      · rename_i T hlast
        obtain ⟨τ, hτ, hlt, hT, htake⟩ := mj_tie_structure agg n h1 T hlast
        have hmem : Slot.tie T ∈ getNBest agg n := List.mem_of_getLast? hlast
        set k := (getNBest agg n).count (Slot.tie T) with hkdef
        have hk1 : 1 ≤ k := List.count_pos_iff.mpr hmem
        have hkT : k < T.length := horder.tie_big T hmem
        have hkn : k ≤ n := by
          have := List.count_le_length (a := Slot.tie T) (l := getNBest agg n)
          rw [horder.length] at this
          exact this
        have hgk := ge_keys_nodup agg hnd τ
        rw [← hT] at hgk
        have hTnd : T.Nodup := (List.nodup_append.mp hgk).2.1
        have hTsub : ∀ c ∈ T, c ∈ t.map (·.1) := by
          intro c hc
          rw [htk, ← hk]
          exact horder.tie_ok T hmem c hc |> fun h => hk ▸ h
        set tied : ScoreTable := (sortDedup T).filterMap (fun c => (tableGet t c).map (fun cs => (c, cs))) with htied
        have htkeys : tied.map (·.1) = sortDedup T := tied_keys hTsub
        have htlen : tied.length = T.length := by
          have : tied.length = (tied.map (·.1)).length := by simp
          rw [this, htkeys, sortDedup_length_of_nodup hTnd]
        have hbroken : ∀ broken : List Slot, SelShape (tied.map (·.1)) k broken →
            SelShape (scoreCands votes) n
              ((getNBest agg n).take ((getNBest agg n).length - k) ++ broken) := by
          intro broken hb
          rw [htkeys] at hb
          rw [htake]
          have hmap : (aboveSorted agg τ).map (fun p => Slot.cand p.1) = ((aboveSorted agg τ).map (·.1)).map Slot.cand := by
            rw [List.map_map]; rfl
          rw [hmap]
          have hal : ((aboveSorted agg τ).map (·.1)).length + k = n := by
            have := congrArg List.length htake
            rw [List.length_take, horder.length, List.length_map] at this
            rw [List.length_map]
            omega
          have := SelShape.prependCands (cands := scoreCands votes) (w := (aboveSorted agg τ).map (·.1)) hb
            (fun c hc => by rw [← htk]; exact hTsub c (mem_sortDedup.mp hc))
            (fun c hc => by
              obtain ⟨p, hp, rfl⟩ := List.mem_map.mp hc
              rw [← hk]
              exact List.mem_map.mpr ⟨p, (C09.mem_aboveSorted.mp hp).1, rfl⟩)
            (List.nodup_append.mp hgk).1
            (fun c hc hcw => (List.nodup_append.mp hgk).2.2 c hcw c (mem_sortDedup.mp hc) rfl)
          rw [hal] at this
          exact this
        cases tb with
        | default =>
          simp only at hok
          cases hb : tiebreakDefault (tableFuel tied) tied k with
          | error e => rw [hb] at hok; cases hok
          | ok broken =>
            rw [hb] at hok
            injection hok with hok; subst hok
            exact hbroken broken (tiebreakDefault_shape _ _ _ _ hb hk1 (by omega)
              (by rw [htkeys]; exact sortDedup_nodup T))
        | plus =>
          simp only at hok
          cases hb : tiebreakPlus tied k with
          | error e => rw [hb] at hok; cases hok
          | ok broken =>
            rw [hb] at hok
            injection hok with hok; subst hok
            exact hbroken broken (tiebreakPlus_shape _ _ hk1 (by omega)
              (by rw [htkeys]; exact sortDedup_nodup T) _ hb)

/-! ### Majority judgment: refusals -/

theorem aggregate_error {fn : Agg} {t : ScoreTable} {e : Err} (h : aggregate fn t = .error e) :
    ∃ p ∈ t, expand p.2 = [] ∧
      ((fn = .mean ∧ e = .other "ZeroDivisionError") ∨ (fn = .medianLow ∧ e = .other "StatisticsError")) := by
  unfold aggregate at h
  obtain ⟨p, hp, hfp⟩ := mapM_error_mem h
  cases ha : aggregateOne fn p.2 with
  | ok v => rw [ha] at hfp; cases hfp
  | error e' =>
    rw [ha] at hfp
    injection hfp with hfp
    subst hfp
    unfold aggregateOne at ha
    obtain ⟨h1, h2⟩ := aggFn_error ha
    exact ⟨p, hp, h1, h2⟩

theorem correctedScores_error {cfg : Cfg} {votes : SProfile} {e : Err} (h : correctedScores cfg votes = .error e) :
    e = .valueError ∧ cfg.unscored = .min ∧ ∃ p ∈ rawScores votes, expand p.2 = [] := by
  unfold correctedScores at h
  obtain ⟨p, hp, hfp⟩ := mapM_error_mem h
  cases hc : correctOne cfg p.2 (totalVotes votes) with
  | ok cs => rw [hc] at hfp; cases hfp
  | error e'' =>
    rw [hc] at hfp
    injection hfp with hfp
    subst hfp
    obtain ⟨h1, h2, h3⟩ := correctOne_error hc
    exact ⟨h1, h2, p, hp, h3⟩

/-- the exceptions of the default tie-break: the declared `VotingSystemError` (nothing left to compare),
    `StatisticsError` (a tied candidate ran out of grades: the open finding), or the model's fuel bound -/
theorem tiebreakDefault_error : ∀ (fuel : Nat) (scores : ScoreTable) (n : Nat) (e : Err),
    tiebreakDefault fuel scores n = .error e → 1 ≤ n → n ≤ scores.length → (scores.map (·.1)).Nodup →
      e = .votingSystemError ∨ e = .other "StatisticsError" ∨ e = .other "Fuel" := by
  intro fuel
  induction fuel with
  | zero =>
    intro scores n e h
    simp only [tiebreakDefault] at h
    injection h with h
    intro _ _ _
    exact Or.inr (Or.inr h.symm)
  | succ fuel ih =>
    intro scores n e h h1 hlen hnd
    unfold tiebreakDefault at h
    cases scores with
    | nil => simp at hlen; omega
    | cons p0 ps =>
      simp only at h
      split at h
      · injection h with h; exact Or.inl h.symm
      · cases hm : aggregate .medianLow (p0 :: ps) with
        | error e' =>
          rw [hm] at h
          injection h with h
          subst h
          obtain ⟨_, _, _, (⟨hc, _⟩ | ⟨_, he⟩)⟩ := aggregate_error hm
          · cases hc
          · exact Or.inr (Or.inl he)
        | ok medians =>
          rw [hm] at h
          have hk := aggregate_keys hm
          have hbest := getNBest_shape_of_keys medians _ hk hnd n h1 (by simpa using hlen)
          simp only [bind, Except.bind] at h
          split at h
          · cases h
          · rename_i i hi
            obtain ⟨hj, htake, hwl⟩ := firstTie_take hi
            rw [hbest.length] at hj
            cases hrec : tiebreakDefault fuel
                (List.filter (fun p => !(slotCands (List.take (i + 1) (getNBest medians n))).contains p.1) (p0 :: ps))
                (n - (i + 1)) with
            | ok rest => rw [hrec] at h; cases h
            | error e' =>
              rw [hrec] at h
              injection h with h
              subst h
              set wc := slotCands (List.take (i + 1) (getNBest medians n)) with hwc
              have hwc_nd : wc.Nodup := by
                have hn := hbest.nodup
                rw [← List.take_append_drop (i + 1) (getNBest medians n), electedOf_append, electedOf_eq_slotCands] at hn
                exact (List.nodup_append.mp hn).1
              have hkeys : (List.filter (fun p => !(wc.contains p.1)) (p0 :: ps)).map (·.1)
                  = ((p0 :: ps).map (·.1)).filter (fun c => !(wc.contains c)) := by
                rw [List.filter_map]; rfl
              have hlen' := filter_keys_length (K := (p0 :: ps).map (·.1)) (w := wc) hnd
              exact ih _ _ _ hrec (by omega) (by
                have : (List.filter (fun p => !(wc.contains p.1)) (p0 :: ps)).length
                    = ((List.filter (fun p => !(wc.contains p.1)) (p0 :: ps)).map (·.1)).length := by simp
                rw [this, hkeys]
                simp only [List.length_map] at hlen' hlen ⊢
                omega) (by rw [hkeys]; exact hnd.filter _)
          · exact ih _ _ _ h h1 (by simpa using hlen) (by
              simpa [List.map_map, Function.comp_def] using hnd)

theorem mem_of_tableGet {t : ScoreTable} {c : Cand} {cs : CScores} (h : tableGet t c = some cs) : (c, cs) ∈ t := by
  unfold tableGet at h
  cases hf : t.find? (fun p => decide (p.1 = c)) with
  | none => rw [hf] at h; cases h
  | some p =>
    rw [hf] at h
    injection h with h
    have hm := List.mem_of_find?_eq_some hf
    have hp := List.find?_some hf
    simp only [decide_eq_true_eq] at hp
    rw [← hp, ← h]
    exact hm

/-- where an exception of `MajorityJudgment.evaluate` comes from -/
theorem mj_error_cases (tb : TieBreaking) (cfg : Cfg) (votes : SProfile) (n : Nat) (h1 : 1 ≤ n)
    (hlen : n ≤ (scoreCands votes).length) (e : Err) (h : majorityJudgment tb cfg votes n = .error e) :
    (e = .valueError ∧ cfg.unscored = .min ∧ ∃ p ∈ rawScores votes, expand p.2 = []) ∨
    (e = .other "StatisticsError" ∧ ∃ t, correctedScores { cfg with fn := .medianLow } votes = .ok t ∧
      ∃ p ∈ t, expand p.2 = []) ∨
    (tb = .default ∧ (e = .votingSystemError ∨ e = .other "StatisticsError" ∨ e = .other "Fuel") ∧
      ∃ t tied k, correctedScores { cfg with fn := .medianLow } votes = .ok t ∧ (∀ p ∈ tied, p ∈ t) ∧
        (tied.map (·.1)).Nodup ∧ 1 ≤ k ∧ k ≤ tied.length ∧ tiebreakDefault (tableFuel tied) tied k = .error e) := by
  unfold majorityJudgment at h
  cases ht : correctedScores { cfg with fn := .medianLow } votes with
  | error e' =>
    rw [ht] at h
    injection h with h
    subst h
    exact Or.inl (correctedScores_error ht)
  | ok t =>
    rw [ht] at h
    simp only [bind, Except.bind] at h
    cases ha : aggregate .medianLow t with
    | error e' =>
      rw [ha] at h
      injection h with h
      subst h
      obtain ⟨p, hp, hpe, (⟨hc, _⟩ | ⟨_, he⟩)⟩ := aggregate_error ha
      · cases hc
      · exact Or.inr (Or.inl ⟨he, t, rfl, p, hp, hpe⟩)
    | ok agg =>
      rw [ha] at h
      simp only at h
      have htk : t.map (·.1) = scoreCands votes := correctedScores_keys ht
      have hk : keys agg = scoreCands votes := by rw [aggregate_keys ha, htk]
      have hnd : (keys agg).Nodup := hk ▸ scoreCands_nodup votes
      have horder := getNBest_shape_of_keys agg _ hk (scoreCands_nodup votes) n h1 hlen
      split at h
      · rename_i hnone
        exfalso
        have : (getNBest agg n) = [] := List.getLast?_eq_none_iff.mp hnone
        have hl := horder.length
        rw [this] at hl
        simp at hl
        omega
      · cases h
      · rename_i T hlast
        obtain ⟨τ, hτ, hlt, hT, htake⟩ := mj_tie_structure agg n h1 T hlast
        have hmem : Slot.tie T ∈ getNBest agg n := List.mem_of_getLast? hlast
        set k := (getNBest agg n).count (Slot.tie T) with hkdef
        have hk1 : 1 ≤ k := List.count_pos_iff.mpr hmem
        have hkT : k < T.length := horder.tie_big T hmem
        have hgk := ge_keys_nodup agg hnd τ
        rw [← hT] at hgk
        have hTnd : T.Nodup := (List.nodup_append.mp hgk).2.1
        have hTsub : ∀ c ∈ T, c ∈ t.map (·.1) := by
          intro c hc
          rw [htk]
          exact horder.tie_ok T hmem c hc
        set tied : ScoreTable := (sortDedup T).filterMap (fun c => (tableGet t c).map (fun cs => (c, cs))) with htied
        have htkeys : tied.map (·.1) = sortDedup T := tied_keys hTsub
        have htlen : tied.length = T.length := by
          have : tied.length = (tied.map (·.1)).length := by simp
          rw [this, htkeys, sortDedup_length_of_nodup hTnd]
        have htmem : ∀ p ∈ tied, p ∈ t := by
          intro p hpm
          obtain ⟨c, _, hc⟩ := List.mem_filterMap.mp hpm
          cases hg : tableGet t c with
          | none => rw [hg] at hc; cases hc
          | some cs =>
            rw [hg] at hc
            simp only [Option.map_some, Option.some.injEq] at hc
            rw [← hc]
            exact mem_of_tableGet hg
        cases tb with
        | default =>
          simp only at h
          cases hb : tiebreakDefault (tableFuel tied) tied k with
          | ok broken => rw [hb] at h; cases h
          | error e' =>
            rw [hb] at h
            injection h with h
            subst h
            have hknd : (tied.map (·.1)).Nodup := by rw [htkeys]; exact sortDedup_nodup T
            exact Or.inr (Or.inr ⟨rfl, tiebreakDefault_error _ _ _ _ hb hk1 (by omega) hknd,
              t, tied, k, rfl, htmem, hknd, hk1, by omega, hb⟩)
        | plus =>
          simp only at h
          cases hb : tiebreakPlus tied k with
          | ok broken => rw [hb] at h; cases h
          | error e' =>
            rw [hb] at h
            injection h with h
            subst h
            unfold tiebreakPlus at hb
            cases htd : tied with
            | nil => rw [htd] at htlen; simp at htlen; omega
            | cons p ps =>
              rw [htd] at hb
              simp only at hb
              cases hm : aggregateOne .medianLow p.2 with
              | ok m => rw [hm] at hb; cases hb
              | error e'' =>
                rw [hm] at hb
                injection hb with hb
                subst hb
                unfold aggregateOne at hm
                obtain ⟨hpe, (⟨hc, _⟩ | ⟨_, he⟩)⟩ := aggFn_error hm
                · cases hc
                · exact Or.inr (Or.inl ⟨he, t, rfl, p, htmem p (by rw [htd]; exact List.mem_cons_self), hpe⟩)

/-- **Majority judgment refusals, unconditional part** (`1 ≤ n ≤ #candidates graded`, any settings, any profile): besides
    the declared `VotingSystemError` of the default tie-break, `evaluate` can only raise
      * `ValueError` with `unscored_value='min'` (a candidate without a grade of positive count),
      * `StatisticsError`: an empty corrected grade list (as for ScoreVoting) or — default tie-break only, on ordinary
        profiles — a tied candidate running out of grades (open finding; `mj_refusals_witness`),
      * (model only) the fuel bound of the default tie-break loop.
    Full statement (FALSE, see the witness): `… → e = .votingSystemError ∨ e = .notImplemented`. -/
theorem mj_refusals_partial (tb : TieBreaking) (cfg : Cfg) (votes : SProfile) (n : Nat) (h1 : 1 ≤ n)
    (hlen : n ≤ (scoreCands votes).length) (e : Err) (h : majorityJudgment tb cfg votes n = .error e) :
    e = .votingSystemError ∨ (e = .valueError ∧ cfg.unscored = .min) ∨ e = .other "StatisticsError" ∨
      (tb = .default ∧ e = .other "Fuel") := by
  rcases mj_error_cases tb cfg votes n h1 hlen e h with ⟨h1, h2, _⟩ | ⟨h1, _⟩ | ⟨h1, (h2 | h2 | h2), _⟩
  · exact Or.inr (Or.inl ⟨h1, h2⟩)
  · exact Or.inr (Or.inr (Or.inl h1))
  · exact Or.inl h2
  · exact Or.inr (Or.inr (Or.inl h2))
  · exact Or.inr (Or.inr (Or.inr ⟨h1, h2⟩))

/-- the open finding (C12 `mj_default_tiebreak_witness`): an ordinary profile on which the default tie-break raises
    `StatisticsError` -/
theorem mj_refusals_witness :
    PosCounts [([(1, 1), (2, 2), (3, 1)], 2), ([(3, 2)], 1)] ∧
    2 ≤ (scoreCands [([(1, 1), (2, 2), (3, 1)], 2), ([(3, 2)], 1)]).length ∧
    majorityJudgment .default (C12.plainCfg .medianLow) [([(1, 1), (2, 2), (3, 1)], 2), ([(3, 2)], 1)] 2
      = .error (.other "StatisticsError") :=
  ⟨by decide +kernel, by decide +kernel, C12.mj_default_tiebreak_witness⟩

/-- on a real profile without truncation every candidate keeps at least one grade after correction -/
theorem correctedScores_total (cfg : Cfg) (hT : cfg.trunc = .off) (votes : SProfile) (hpos : PosCounts votes) :
    ∃ t, correctedScores cfg votes = .ok t ∧ ∀ p ∈ t, expand p.2 ≠ [] := by
  by_cases hne : votes = []
  · subst hne; exact ⟨[], rfl, by simp⟩
  have hV := totalVotes_pos hpos hne
  have hgood := goodT_rawScores hpos
  unfold correctedScores
  simp only
  generalize rawScores votes = raw at hgood
  induction raw with
  | nil => exact ⟨[], rfl, by simp⟩
  | cons q rest ih =>
    obtain ⟨t', ht', hne'⟩ := ih (fun p hp => hgood p (List.mem_cons_of_mem _ hp))
    obtain ⟨cs', hcs', hne''⟩ := correctOne_ok_of_good hT (hgood q List.mem_cons_self) hV
    refine ⟨(q.1, cs') :: t', ?_, ?_⟩
    · rw [List.mapM_cons, hcs', ht']; rfl
    · intro p hp
      rcases List.mem_cons.mp hp with rfl | hp
      · exact hne''
      · exact hne' p hp

theorem rawScores_expand_ne_nil {votes : SProfile} (hpos : PosCounts votes) : ∀ p ∈ rawScores votes, expand p.2 ≠ [] := by
  intro p hp
  obtain ⟨_, h2, h3⟩ := goodT_rawScores hpos p hp
  cases hcs : p.2 with
  | nil => exact absurd hcs h3
  | cons q rest =>
    rw [hcs] at h2
    exact expand_ne_nil_of_pos List.mem_cons_self (h2 q List.mem_cons_self)

/-- **Majority judgment with `tie_breaking='plus'` never raises on a real profile** (positive counts, no truncation,
    `1 ≤ n ≤ #candidates graded`) -/
theorem mjPlus_total (cfg : Cfg) (hT : cfg.trunc = .off) (votes : SProfile) (hpos : PosCounts votes) (n : Nat)
    (h1 : 1 ≤ n) (hlen : n ≤ (scoreCands votes).length) : ∃ r, majorityJudgment .plus cfg votes n = .ok r := by
  cases h : majorityJudgment .plus cfg votes n with
  | ok r => exact ⟨r, rfl⟩
  | error e =>
    exfalso
    obtain ⟨t, ht, hne⟩ := correctedScores_total { cfg with fn := .medianLow } hT votes hpos
    rcases mj_error_cases .plus cfg votes n h1 hlen e h with ⟨_, _, p, hp, hpe⟩ | ⟨_, t', ht', p, hp, hpe⟩ | ⟨hc, _⟩
    · exact rawScores_expand_ne_nil hpos p hp hpe
    · rw [ht] at ht'
      injection ht' with ht'
      subst ht'
      exact hne p hp hpe
    · cases hc

/-- **Majority judgment refusals on real profiles** (positive counts, no truncation, `1 ≤ n ≤ #candidates graded`),
    `tie_breaking='plus'`: only declared refusals (in fact none: `mjPlus_total`). -/
theorem mjPlus_refusals (cfg : Cfg) (hT : cfg.trunc = .off) (votes : SProfile) (hpos : PosCounts votes) (n : Nat)
    (h1 : 1 ≤ n) (hlen : n ≤ (scoreCands votes).length) (e : Err) (h : majorityJudgment .plus cfg votes n = .error e) :
    e = .votingSystemError ∨ e = .notImplemented := by
  obtain ⟨r, hr⟩ := mjPlus_total cfg hT votes hpos n h1 hlen
  rw [hr] at h; cases h

/-- … default tie-break, any `unscored_value` / `min_count`: the declared `VotingSystemError`, or the open finding
    `StatisticsError` (`mj_refusals_witness`), or the model's fuel bound (excluded for `unscored_value=None` by
    `mjDefault_refusals_partial` below).
    Full statement (FALSE): `… → e = .votingSystemError ∨ e = .notImplemented`. -/
theorem mjDefault_refusals_partial' (cfg : Cfg) (hT : cfg.trunc = .off) (votes : SProfile) (hpos : PosCounts votes)
    (n : Nat) (h1 : 1 ≤ n) (hlen : n ≤ (scoreCands votes).length) (e : Err)
    (h : majorityJudgment .default cfg votes n = .error e) :
    e = .votingSystemError ∨ e = .other "StatisticsError" ∨ e = .other "Fuel" := by
  obtain ⟨t, ht, hne⟩ := correctedScores_total { cfg with fn := .medianLow } hT votes hpos
  rcases mj_error_cases .default cfg votes n h1 hlen e h with ⟨_, _, p, hp, hpe⟩ | ⟨_, t', ht', p, hp, hpe⟩ | ⟨_, hc, _⟩
  · exact absurd hpe (rawScores_expand_ne_nil hpos p hp)
  · rw [ht] at ht'
    injection ht' with ht'
    subst ht'
    exact absurd hpe (hne p hp)
  · exact hc

/-- non-vacuity: a tie for the second seat broken by the 'plus' rule and by the default rule -/
example : PosCounts [([(1, 1), (2, 2), (3, 1)], 6), ([(3, 2)], 3)] ∧
    2 ≤ (scoreCands [([(1, 1), (2, 2), (3, 1)], 6), ([(3, 2)], 3)]).length ∧
    majorityJudgment .default (C12.plainCfg .medianLow) [([(1, 1), (2, 2), (3, 1)], 6), ([(3, 2)], 3)] 2
      = .ok [Slot.cand 2, Slot.cand 3] ∧
    majorityJudgment .plus (C12.plainCfg .medianLow) [([(1, 1), (2, 2), (3, 1)], 6), ([(3, 2)], 3)] 2
      = .ok [Slot.cand 2, Slot.cand 3] := by
  refine ⟨by decide +kernel, by decide +kernel, by decide +kernel, by decide +kernel⟩

/-! ### Majority judgment, default tie-break: the model's fuel bound is never hit -/

/-- the aggregate table read back by candidate -/
theorem aggregate_getD {fn : Agg} {t : ScoreTable} {agg : Votes} (h : aggregate fn t = .ok agg)
    (hnd : (t.map (·.1)).Nodup) : ∀ p ∈ t, ∃ v, aggregateOne fn p.2 = .ok v ∧ getD agg p.1 0 = v := by
  intro p hp
  have hk := aggregate_keys h
  unfold aggregate at h
  obtain ⟨y, hy, hfy⟩ := mapM_ok_mem h p hp
  cases hv : aggregateOne fn p.2 with
  | error e => rw [hv] at hfy; cases hfy
  | ok v =>
    rw [hv] at hfy
    simp only [bind, Except.bind, pure, Except.pure] at hfy
    injection hfy with hfy
    refine ⟨v, rfl, ?_⟩
    have := getD_of_mem (d := agg) (by rw [hk]; exact hnd) hy
    rw [← hfy] at this
    exact this

/-- removing `cc ≥ 1` copies of a grade that is present lowers the number of grades -/
theorem wTotal_setCount_lt {cs : CScores} (hnd : (ckeys cs).Nodup) {m : Rat} (hm : ∃ q ∈ cs, q.1 = m ∧ 0 < q.2)
    {cc : Int} (hcc : 1 ≤ cc) : wTotal (setCount cs m (getCount cs m - cc)) + 1 ≤ wTotal cs := by
  induction cs with
  | nil => obtain ⟨q, hq, _⟩ := hm; cases hq
  | cons x rest ih =>
    obtain ⟨k, v⟩ := x
    have hnd' := List.nodup_cons.mp hnd
    rw [getCount_cons]
    unfold setCount
    by_cases hk : k = m
    · simp only [hk, if_true]
      rw [wTotal_cons, wTotal_cons]
      simp only
      have hv : 0 < v := by
        obtain ⟨q, hq, hq1, hq2⟩ := hm
        rcases List.mem_cons.mp hq with rfl | hq
        · exact hq2
        · exfalso
          apply hnd'.1
          rw [hk, ← hq1]
          exact List.mem_map.mpr ⟨q, hq, rfl⟩
      omega
    · simp only [hk, if_false]
      rw [wTotal_cons, wTotal_cons]
      have hm' : ∃ q ∈ rest, q.1 = m ∧ 0 < q.2 := by
        obtain ⟨q, hq, hq1, hq2⟩ := hm
        rcases List.mem_cons.mp hq with rfl | hq
        · exact absurd hq1 hk
        · exact ⟨q, hq, hq1, hq2⟩
      have := ih hnd'.2 hm'
      omega

theorem ceilAbs_nonneg (x : Rat) : 0 ≤ ceilAbs x := by
  unfold ceilAbs Py.pyCeil
  have hx : (0 : Rat) ≤ (if x < 0 then -x else x) := by
    split
    · linarith
    · linarith
  have : (-1 : Int) < (if x < 0 then -x else x).ceil := Rat.lt_ceil_iff.mpr (by push_cast; linarith)
  omega

/-- the step of `_closest_median_change` never goes below 0 and, over at least one candidate, is a number -/
theorem closestChange_some {scores : ScoreTable} (hne : scores ≠ []) (medians : Votes) :
    ∃ c, closestChange scores medians = some c ∧ 0 ≤ c := by
  unfold closestChange
  cases scores with
  | nil => exact absurd rfl hne
  | cons p ps =>
    simp only [List.foldl_cons]
    apply foldl_inv (fun acc : Option Int => ∃ c, acc = some c ∧ 0 ≤ c)
    · refine ⟨_, rfl, ?_⟩
      split
      · exact ceilAbs_nonneg _
      · exact ceilAbs_nonneg _
    · intro acc q _ hacc
      obtain ⟨c, rfl, hc⟩ := hacc
      simp only
      split <;> split <;> first | exact ⟨_, rfl, ceilAbs_nonneg _⟩ | exact ⟨c, rfl, hc⟩

theorem sum_succ_le {α : Type} (f g : α → Nat) : ∀ (l : List α), (∀ x ∈ l, f x + 1 ≤ g x) →
    (l.map f).sum + l.length ≤ (l.map g).sum := by
  intro l
  induction l with
  | nil => intro _; simp
  | cons x xs ih =>
    intro h
    have h1 := h x List.mem_cons_self
    have h2 := ih (fun y hy => h y (List.mem_cons_of_mem _ hy))
    simp only [List.map_cons, List.sum_cons, List.length_cons]
    omega

theorem sum_filter_le {α : Type} (f : α → Nat) (P : α → Bool) : ∀ (l : List α),
    ((l.filter P).map f).sum ≤ (l.map f).sum := by
  intro l
  induction l with
  | nil => simp
  | cons x xs ih =>
    by_cases hx : P x = true
    · simp only [List.filter_cons, hx, if_true, List.map_cons, List.sum_cons]; omega
    · simp only [List.filter_cons, hx, List.map_cons, List.sum_cons]
      simp only [Bool.false_eq_true, if_false]
      omega

/-- the termination measure of the default tie-break: grades held plus candidates -/
def tbMeasure (scores : ScoreTable) : Nat := (scores.map (fun p => wTotal p.2)).sum + scores.length

theorem tbMeasure_map_lt (scores : ScoreTable) (g : Cand × CScores → CScores)
    (h : ∀ p ∈ scores, wTotal (g p) + 1 ≤ wTotal p.2) (hne : scores ≠ []) :
    tbMeasure (scores.map (fun p => (p.1, g p))) < tbMeasure scores := by
  unfold tbMeasure
  rw [List.map_map, List.length_map]
  have := sum_succ_le (fun p : Cand × CScores => wTotal (g p)) (fun p : Cand × CScores => wTotal p.2) scores h
  have hl : 0 < scores.length := List.length_pos_iff.mpr hne
  simp only [Function.comp_def]
  omega

/-- **the default tie-break never runs out of fuel** when given more than `tbMeasure` -/
theorem tiebreakDefault_no_fuel : ∀ (fuel : Nat) (scores : ScoreTable) (n : Nat),
    tbMeasure scores < fuel → 1 ≤ n → n ≤ scores.length → (scores.map (·.1)).Nodup →
    (∀ p ∈ scores, (ckeys p.2).Nodup) → tiebreakDefault fuel scores n ≠ .error (.other "Fuel") := by
  intro fuel
  induction fuel with
  | zero => intro scores n hμ; omega
  | succ fuel ih =>
    intro scores n hμ h1 hlen hnd hck h
    unfold tiebreakDefault at h
    cases scores with
    | nil => simp at hlen; omega
    | cons p0 ps =>
      simp only at h
      split at h
      · cases h
      · cases hm : aggregate .medianLow (p0 :: ps) with
        | error e' =>
          rw [hm] at h
          injection h with h
          subst h
          obtain ⟨_, _, _, (⟨hc, _⟩ | ⟨_, he⟩)⟩ := aggregate_error hm
          · cases hc
          · injection he with he
            exact absurd he (by decide)
        | ok medians =>
          rw [hm] at h
          have hk := aggregate_keys hm
          have hbest := getNBest_shape_of_keys medians _ hk hnd n h1 (by simpa using hlen)
          simp only [bind, Except.bind] at h
          split at h
          · cases h
          · rename_i i hi
            obtain ⟨hj, htake, hwl⟩ := firstTie_take hi
            rw [hbest.length] at hj
            cases hrec : tiebreakDefault fuel
                (List.filter (fun p => !(slotCands (List.take (i + 1) (getNBest medians n))).contains p.1) (p0 :: ps))
                (n - (i + 1)) with
            | ok rest => rw [hrec] at h; cases h
            | error e' =>
              rw [hrec] at h
              injection h with h
              subst h
              set wc := slotCands (List.take (i + 1) (getNBest medians n)) with hwc
              have hwc_nd : wc.Nodup := by
                have hn := hbest.nodup
                rw [← List.take_append_drop (i + 1) (getNBest medians n), electedOf_append, electedOf_eq_slotCands] at hn
                exact (List.nodup_append.mp hn).1
              have hkeys : (List.filter (fun p => !(wc.contains p.1)) (p0 :: ps)).map (·.1)
                  = ((p0 :: ps).map (·.1)).filter (fun c => !(wc.contains c)) := by
                rw [List.filter_map]; rfl
              have hlen' := filter_keys_length (K := (p0 :: ps).map (·.1)) (w := wc) hnd
              -- a winner leaves the table
              have hdrop : (List.filter (fun p => !(wc.contains p.1)) (p0 :: ps)).length < (p0 :: ps).length := by
                apply List.length_filter_lt_length_iff_exists.mpr
                have hpos : 0 < wc.length := by rw [hwl]; omega
                obtain ⟨c, hc⟩ := List.exists_mem_of_length_pos hpos
                have hcm : Slot.cand c ∈ getNBest medians n := by
                  have : Slot.cand c ∈ List.take (i + 1) (getNBest medians n) := by
                    rw [htake]; exact List.mem_map.mpr ⟨c, hc, rfl⟩
                  exact List.mem_of_mem_take this
                obtain ⟨p, hp, hpc⟩ := List.mem_map.mp (hbest.cand_ok c hcm)
                refine ⟨p, hp, ?_⟩
                simp only [Bool.not_eq_true, Bool.not_eq_false', List.contains_eq_mem, decide_eq_true_eq]
                rw [hpc]; exact hc
              have hsum := sum_filter_le (fun p : Cand × CScores => wTotal p.2) (fun p => !(wc.contains p.1)) (p0 :: ps)
              refine ih _ _ ?_ (by omega) (by
                have : (List.filter (fun p => !(wc.contains p.1)) (p0 :: ps)).length
                    = ((List.filter (fun p => !(wc.contains p.1)) (p0 :: ps)).map (·.1)).length := by simp
                rw [this, hkeys]
                simp only [List.length_map] at hlen' hlen ⊢
                omega) (by rw [hkeys]; exact hnd.filter _)
                (fun p hp => hck p (List.mem_filter.mp hp).1) hrec
              unfold tbMeasure at hμ ⊢
              omega
          · -- the whole selection is one tie: remove `cc ≥ 1` median grades from everybody
            obtain ⟨c, hcc, hc0⟩ := closestChange_some (scores := p0 :: ps) (by simp) medians
            rw [hcc] at h
            have hgd := aggregate_getD hm hnd
            refine ih _ _ ?_ h1 (by simpa using hlen) (by simpa [List.map_map, Function.comp_def] using hnd) ?_ h
            · have := tbMeasure_map_lt (p0 :: ps)
                (fun p : Cand × CScores => setCount p.2 (getD medians p.1 0)
                  (getCount p.2 (getD medians p.1 0) - (match (some c : Option Int) with
                    | some 0 => 1
                    | some c => c
                    | none => 0))) (by
                  intro p hp
                  obtain ⟨v, hv, hgv⟩ := hgd p hp
                  rw [hgv]
                  apply wTotal_setCount_lt (hck p hp) ((C12.mj_median_is_lower_median p.2 v).mp hv).1
                  split
                  · omega
                  · rename_i c' hc' heq
                    injection heq with heq
                    subst heq
                    have : c ≠ 0 := fun e => hc' (by rw [e])
                    omega
                  · rename_i heq; cases heq) (by simp)
              exact lt_of_lt_of_le this (by omega)
            · intro p hp
              obtain ⟨q, _, rfl⟩ := List.mem_map.mp hp
              exact ckeys_setCount_nodup (hck q ‹_›) _ _

theorem mapM_ok_mem_rev {α β : Type} {f : α → Except Err β} : ∀ {l : List α} {r : List β}, l.mapM f = .ok r →
    ∀ y ∈ r, ∃ x ∈ l, f x = .ok y := by
  intro l
  induction l with
  | nil => intro r h y hy; simp only [List.mapM_nil] at h; injection h with h; subst h; cases hy
  | cons a as ih =>
    intro r h y hy
    rw [List.mapM_cons] at h
    cases ha : f a with
    | error e => rw [ha] at h; cases h
    | ok b =>
      rw [ha] at h
      cases hr : as.mapM f with
      | error e => rw [hr] at h; cases h
      | ok bs =>
        rw [hr] at h
        injection h with h
        subst h
        rcases List.mem_cons.mp hy with rfl | hy
        · exact ⟨a, List.mem_cons_self, ha⟩
        · obtain ⟨x, hx, hfx⟩ := ih hr y hy
          exact ⟨x, List.mem_cons_of_mem _ hx, hfx⟩

/-- without unscored value and truncation, a corrected grade dict of a real profile has distinct grades and no negative
    count -/
theorem correctOne_plain_good {cfg : Cfg} (hT : cfg.trunc = .off) (hU : cfg.unscored = .none) {cs : CScores}
    (h : GoodCS cs) {nVotes : Int} {cs' : CScores} (hc : correctOne cfg cs nVotes = .ok cs') :
    (ckeys cs').Nodup ∧ ∀ q ∈ cs', 0 ≤ q.2 := by
  unfold correctOne at hc
  simp only [bind, Except.bind, pure, Except.pure, hT, hU] at hc
  have htc := totalCount_pos h
  split at hc
  · rename_i hlt
    injection hc with hc
    subst hc
    refine ⟨by simp [ckeys], ?_⟩
    intro q hq
    simp only [List.mem_singleton] at hq
    rw [hq]
    simp only
    omega
  · injection hc with hc
    subst hc
    exact ⟨h.1, fun q hq => le_of_lt (h.2.1 q hq)⟩

/-- **Majority judgment refusals (partial), default tie-break** on real profiles (positive counts, no truncation, no
    unscored value — the default settings; `1 ≤ n ≤ #candidates graded`): the declared `VotingSystemError`, or the open
    finding `StatisticsError` (`mj_refusals_witness`) — nothing else.
    Full statement (FALSE): `… → e = .votingSystemError ∨ e = .notImplemented`. -/
theorem mjDefault_refusals_partial (cfg : Cfg) (hT : cfg.trunc = .off) (hU : cfg.unscored = .none) (votes : SProfile)
    (hpos : PosCounts votes) (n : Nat) (h1 : 1 ≤ n) (hlen : n ≤ (scoreCands votes).length) (e : Err)
    (h : majorityJudgment .default cfg votes n = .error e) :
    e = .votingSystemError ∨ e = .other "StatisticsError" := by
  obtain ⟨t0, ht0, hne⟩ := correctedScores_total { cfg with fn := .medianLow } hT votes hpos
  rcases mj_error_cases .default cfg votes n h1 hlen e h with ⟨_, _, p, hp, hpe⟩ | ⟨_, t', ht', p, hp, hpe⟩ |
      ⟨_, hc, t, tied, k, ht, htmem, hknd, hk1, hkl, hb⟩
  · exact absurd hpe (rawScores_expand_ne_nil hpos p hp)
  · rw [ht0] at ht'
    injection ht' with ht'
    subst ht'
    exact absurd hpe (hne p hp)
  · rcases hc with hc | hc | hc
    · exact Or.inl hc
    · exact Or.inr hc
    · exfalso
      subst hc
      -- every corrected dict is a plain one
      have hgoodt : ∀ p ∈ t, (ckeys p.2).Nodup ∧ ∀ q ∈ p.2, 0 ≤ q.2 := by
        intro p hp
        unfold correctedScores at ht
        obtain ⟨x, hx, hfx⟩ := mapM_ok_mem_rev ht p hp
        cases hcx : correctOne { cfg with fn := .medianLow } x.2 (totalVotes votes) with
        | error e' => rw [hcx] at hfx; cases hfx
        | ok cs' =>
          rw [hcx] at hfx
          simp only [bind, Except.bind, pure, Except.pure] at hfx
          injection hfx with hfx
          rw [← hfx]
          exact correctOne_plain_good (cfg := { cfg with fn := .medianLow }) hT hU (goodT_rawScores hpos x hx) hcx
      refine tiebreakDefault_no_fuel (tableFuel tied) tied k ?_ hk1 hkl hknd
        (fun p hp => (hgoodt p (htmem p hp)).1) hb
      unfold tbMeasure tableFuel
      have : tied.map (fun p => wTotal p.2) = tied.map (fun p => (totalCount p.2).toNat) := by
        apply List.map_congr_left
        intro p hp
        have := wTotal_eq_totalCount (hgoodt p (htmem p hp)).2
        omega
      rw [this]
      omega

/-! ### STAR -/

theorem length_le_of_nodup_subset {l M : List Cand} (hl : l.Nodup) (h : ∀ x ∈ l, x ∈ M) : l.length ≤ M.length :=
  (hl.subperm h).length_le

/-- the run-off has at least as many members as places were asked from `get_n_best` (boundary ties enter whole) -/
theorem starMembers_length_ge (agg : Votes) (hnd : (keys agg).Nodup) (m n : Nat) (h1 : 1 ≤ n) (hnm : n ≤ m)
    (hlen : n ≤ agg.length) : n ≤ (starMembers (getNBest agg m)).length := by
  have hM := (starMembers_spec (getNBest agg m)).1
  have hcand : ∀ x, Slot.cand x ∈ getNBest agg m → x ∈ starMembers (getNBest agg m) :=
    fun x hx => (hM x).mpr ⟨_, hx, by simp [slotNames]⟩
  rcases Nat.lt_or_ge m agg.length with hlt | hge
  · have hm1 : 1 ≤ m := by omega
    obtain ⟨τ, hτ⟩ := nth_exists agg m hm1 (le_of_lt hlt)
    have hl := ge_keys_nodup agg hnd τ
    have hrlen := C09.getNBest_length agg m hm1 (le_of_lt hlt)
    rcases Nat.lt_or_ge m (cntGe agg τ) with hno | hfit
    · have hres := C09.getNBest_tie agg m hm1 hlt τ hτ hno
      have hpos : 1 ≤ m - cntGt agg τ := by have := hτ.2.1; omega
      have htie : Slot.tie (level agg τ) ∈ getNBest agg m := by
        rw [hres]
        apply List.mem_append_right
        exact List.mem_replicate.mpr ⟨by omega, rfl⟩
      have hbig := (getNBest_shape agg hnd m hm1 (le_of_lt hlt)).tie_big _ htie
      have hcount : (getNBest agg m).count (Slot.tie (level agg τ)) = m - cntGt agg τ := by
        rw [hres, List.count_append, List.count_replicate_self]
        have hz : List.count (Slot.tie (level agg τ)) ((aboveSorted agg τ).map (fun p => Slot.cand p.1)) = 0 := by
          rw [List.count_eq_zero]
          intro hmem
          obtain ⟨p, _, he⟩ := List.mem_map.mp hmem; cases he
        rw [hz, Nat.zero_add]
      have hal : (aboveSorted agg τ).length + (m - cntGt agg τ) = m := by
        have := hrlen
        rw [hres, List.length_append, List.length_map, List.length_replicate] at this
        exact this
      have hsub : ∀ x ∈ (aboveSorted agg τ).map (·.1) ++ level agg τ, x ∈ starMembers (getNBest agg m) := by
        intro x hx
        rcases List.mem_append.mp hx with hx | hx
        · obtain ⟨p, hp, rfl⟩ := List.mem_map.mp hx
          apply hcand
          rw [hres]
          exact List.mem_append_left _ (List.mem_map.mpr ⟨p, hp, rfl⟩)
        · exact (hM x).mpr ⟨_, htie, by simpa [slotNames] using hx⟩
      have := length_le_of_nodup_subset hl hsub
      rw [List.length_append, List.length_map] at this
      omega
    · have hres := C09.getNBest_fits agg m hm1 hlt τ hτ hfit
      have hsub : ∀ x ∈ (aboveSorted agg τ).map (·.1) ++ level agg τ, x ∈ starMembers (getNBest agg m) := by
        intro x hx
        apply hcand
        rw [hres]
        rcases List.mem_append.mp hx with hx | hx
        · obtain ⟨p, hp, rfl⟩ := List.mem_map.mp hx
          exact List.mem_append_left _ (List.mem_map.mpr ⟨p, hp, rfl⟩)
        · exact List.mem_append_right _ (List.mem_map.mpr ⟨x, hx, rfl⟩)
      have := length_le_of_nodup_subset hl hsub
      have hl2 := hrlen
      rw [hres, List.length_append, List.length_map, List.length_map] at hl2
      rw [List.length_append, List.length_map] at this
      omega
  · have hres := getNBest_all agg m hge
    have hs : ((sortDesc agg).map (·.1)).Nodup := ((sortDesc_perm agg).map _).nodup_iff.mpr hnd
    have hsub : ∀ x ∈ (sortDesc agg).map (·.1), x ∈ starMembers (getNBest agg m) := by
      intro x hx
      obtain ⟨p, hp, rfl⟩ := List.mem_map.mp hx
      apply hcand
      rw [hres]
      exact List.mem_map.mpr ⟨p, hp, rfl⟩
    have := length_le_of_nodup_subset hs hsub
    rw [List.length_map, sortDesc_length] at this
    omega

theorem starMembers_sub (agg : Votes) (m : Nat) : ∀ x ∈ starMembers (getNBest agg m), x ∈ keys agg := by
  intro x hx
  obtain ⟨s, hs, hxs⟩ := ((starMembers_spec (getNBest agg m)).1 x).mp hx
  have := getNBest_slotIn agg m s hs
  cases s with
  | cand c => simp only [slotNames, List.mem_singleton] at hxs; subst hxs; exact this
  | tie T => exact this x hxs

/-! #### the Schulze score table names exactly the candidates of the pairwise table -/

/-- every pair of the table is among the candidates `A` -/
def PairsIn (A : List Cand) (d : PairCounts) : Prop := ∀ q ∈ d, q.1.1 ∈ A ∧ q.1.2 ∈ A

theorem mem_setPair {d : PairCounts} {a b : Cand} {n : Int} {q : (Cand × Cand) × Int} (h : q ∈ setPair d a b n) :
    q.1 = (a, b) ∨ q ∈ d := by
  induction d with
  | nil => simp only [setPair, List.mem_singleton] at h; left; rw [h]
  | cons x rest ih =>
    obtain ⟨k, v⟩ := x
    unfold setPair at h
    by_cases hk : k = (a, b)
    · rw [if_pos hk] at h
      rcases List.mem_cons.mp h with h | h
      · left; rw [h]; exact hk
      · right; exact List.mem_cons_of_mem _ h
    · rw [if_neg hk] at h
      rcases List.mem_cons.mp h with h | h
      · right; rw [h]; exact List.mem_cons_self
      · rcases ih h with h | h
        · exact Or.inl h
        · exact Or.inr (List.mem_cons_of_mem _ h)

theorem pairsIn_setPair {A : List Cand} {d : PairCounts} (h : PairsIn A d) {a b : Cand} (ha : a ∈ A) (hb : b ∈ A)
    (n : Int) : PairsIn A (setPair d a b n) := by
  intro q hq
  rcases mem_setPair hq with hq | hq
  · rw [hq]; exact ⟨ha, hb⟩
  · exact h q hq

/-- the candidates occurring in a pairwise table -/
def pairCands (counts : PairCounts) : List Cand := counts.flatMap (fun p => [p.1.1, p.1.2])

theorem mem_pairCands {counts : PairCounts} {c : Cand} :
    c ∈ pairCands counts ↔ ∃ p ∈ counts, c = p.1.1 ∨ c = p.1.2 := by
  unfold pairCands
  simp [List.mem_flatMap]

theorem widestPaths_pairsIn (counts : PairCounts) : PairsIn (pairCands counts) (widestPaths counts).1 := by
  unfold widestPaths
  simp only
  have hA : ∀ c, c ∈ sortDedup (pairCands counts) → c ∈ pairCands counts := fun c hc => mem_sortDedup.mp hc
  have h0 : PairsIn (pairCands counts) (counts.foldl (fun d p =>
      if getPair counts p.1.2 p.1.1 < p.2 then setPair d p.1.1 p.1.2 p.2 else d) []) := by
    apply foldl_inv (PairsIn (pairCands counts))
    · intro q hq; cases hq
    · intro d p hp hd
      split
      · exact pairsIn_setPair hd (mem_pairCands.mpr ⟨p, hp, Or.inl rfl⟩) (mem_pairCands.mpr ⟨p, hp, Or.inr rfl⟩) _
      · exact hd
  apply foldl_inv (PairsIn (pairCands counts)) _ _ _ h0
  intro d c1 _ hd
  apply foldl_inv (PairsIn (pairCands counts)) _ _ _ hd
  intro d c2 hc2 hd
  split
  · apply foldl_inv (PairsIn (pairCands counts)) _ _ _ hd
    intro d ca hca hd
    split
    · exact pairsIn_setPair hd (hA _ hc2) (hA _ hca) _
    · exact hd
  · exact hd

theorem foldl_keys_mono {α : Type} (f : Votes → α → Votes) (hf : ∀ d x c, c ∈ keys d → c ∈ keys (f d x)) :
    ∀ (l : List α) (d : Votes) (c : Cand), c ∈ keys d → c ∈ keys (l.foldl f d) := by
  intro l
  induction l with
  | nil => intro d c h; exact h
  | cons x xs ih => intro d c h; simp only [List.foldl_cons]; exact ih _ c (hf d x c h)

theorem foldl_keys_hit {α : Type} (f : Votes → α → Votes) (hf : ∀ d x c, c ∈ keys d → c ∈ keys (f d x))
    (g : α → Cand) (hg : ∀ d x, g x ∈ keys (f d x)) :
    ∀ (l : List α) (d : Votes) (x : α), x ∈ l → g x ∈ keys (l.foldl f d) := by
  intro l
  induction l with
  | nil => intro d x h; cases h
  | cons y ys ih =>
    intro d x h
    simp only [List.foldl_cons]
    rcases List.mem_cons.mp h with rfl | h
    · exact foldl_keys_mono f hf ys _ _ (hg d x)
    · exact ih _ x h

/-- keys of a score table under construction: distinct, and among `A` -/
def KInv (A : List Cand) (d : Votes) : Prop := (keys d).Nodup ∧ ∀ c ∈ keys d, c ∈ A

theorem kInv_addVote {A : List Cand} {d : Votes} (h : KInv A d) {c : Cand} (hc : c ∈ A) (x : Rat) :
    KInv A (addVote d c x) := by
  refine ⟨nodup_keys_addVote h.1 c x, ?_⟩
  intro c' hc'
  rcases mem_keys_addVote.mp hc' with h' | rfl
  · exact h.2 c' h'
  · exact hc

theorem schulzeScores_eq (counts : PairCounts) :
    schulzeScores counts =
      (widestPaths counts).1.foldl (fun d p =>
        if getPair (widestPaths counts).1 p.1.2 p.1.1 < p.2 then addVote (addVote d p.1.1 1) p.1.2 0 else d)
        (counts.foldl (fun d p => addVote (addVote d p.1.1 0) p.1.2 0) []) := rfl

/-- **the Schulze score table has one entry per candidate of the pairwise table** -/
theorem schulzeScores_keys (counts : PairCounts) :
    (keys (schulzeScores counts)).Nodup ∧ ∀ c, c ∈ keys (schulzeScores counts) ↔ c ∈ pairCands counts := by
  rw [schulzeScores_eq]
  have hpaths := widestPaths_pairsIn counts
  set paths := (widestPaths counts).1 with hp
  have h0 : KInv (pairCands counts) (counts.foldl (fun d p => addVote (addVote d p.1.1 0) p.1.2 0) []) := by
    apply foldl_inv (KInv (pairCands counts))
    · exact ⟨by simp [keys], by intro c hc; simp [keys] at hc⟩
    · intro d p hp hd
      exact kInv_addVote (kInv_addVote hd (mem_pairCands.mpr ⟨p, hp, Or.inl rfl⟩) _)
        (mem_pairCands.mpr ⟨p, hp, Or.inr rfl⟩) _
  have h1 : KInv (pairCands counts) (paths.foldl (fun d p =>
        if getPair paths p.1.2 p.1.1 < p.2 then addVote (addVote d p.1.1 1) p.1.2 0 else d)
        (counts.foldl (fun d p => addVote (addVote d p.1.1 0) p.1.2 0) [])) := by
    apply foldl_inv (KInv (pairCands counts)) _ _ _ h0
    intro d p hp hd
    split
    · exact kInv_addVote (kInv_addVote hd (hpaths p hp).1 _) (hpaths p hp).2 _
    · exact hd
  refine ⟨h1.1, fun c => ⟨h1.2 c, ?_⟩⟩
  intro hc
  obtain ⟨p, hp, hcp⟩ := mem_pairCands.mp hc
  apply foldl_keys_mono
  · intro d x c' hc'
    split
    · exact mem_keys_addVote.mpr (Or.inl (mem_keys_addVote.mpr (Or.inl hc')))
    · exact hc'
  · have hmono : ∀ (d : Votes) (x : (Cand × Cand) × Int) (c' : Cand), c' ∈ keys d →
        c' ∈ keys (addVote (addVote d x.1.1 0) x.1.2 0) :=
      fun d x c' hc' => mem_keys_addVote.mpr (Or.inl (mem_keys_addVote.mpr (Or.inl hc')))
    rcases hcp with rfl | rfl
    · exact foldl_keys_hit (fun d (p : (Cand × Cand) × Int) => addVote (addVote d p.1.1 0) p.1.2 0) hmono
        (fun p => p.1.1) (fun d x => mem_keys_addVote.mpr (Or.inl (mem_keys_addVote.mpr (Or.inr rfl)))) counts [] p hp
    · exact foldl_keys_hit (fun d (p : (Cand × Cand) × Int) => addVote (addVote d p.1.1 0) p.1.2 0) hmono
        (fun p => p.1.2) (fun d x => mem_keys_addVote.mpr (Or.inr rfl)) counts [] p hp

/-- the member matrix of at least two members names exactly the members -/
theorem pairCands_memberPairs (all : PairCounts) {ms : List Cand} (hnd : ms.Nodup) (h2 : 2 ≤ ms.length) :
    ∀ c, c ∈ pairCands (memberPairs all ms) ↔ c ∈ ms := by
  intro c
  rw [mem_pairCands]
  constructor
  · rintro ⟨p, hp, (rfl | rfl)⟩
    · exact (mem_memberPairs.mp hp).1
    · exact (mem_memberPairs.mp hp).2.1
  · intro hc
    -- another member
    obtain ⟨d, hd, hdc⟩ : ∃ d ∈ ms, d ≠ c := by
      by_contra hno
      have hall : ∀ d ∈ ms, d = c := by
        intro d hd
        by_contra hne
        exact hno ⟨d, hd, hne⟩
      have : ms.length ≤ [c].length := length_le_of_nodup_subset hnd (fun x hx => by rw [hall x hx]; simp)
      simp at this
      omega
    exact ⟨((c, d), getPair all c d), mem_memberPairs.mpr ⟨hc, hd, fun e => hdc e.symm, rfl⟩, Or.inl rfl⟩

theorem starSize_ge (ac : Nat) (af : Rat) (haf : 0 ≤ af) (n : Nat) : n ≤ starSize ac af n := by
  unfold starSize Py.pyCeil
  have hx : (0 : Rat) ≤ af * ((n : Nat) : Rat) := mul_nonneg haf (by positivity)
  have : (-1 : Int) < (af * ((n : Nat) : Rat)).ceil := Rat.lt_ceil_iff.mpr (by push_cast; linarith)
  omega

/-- **STAR has the selection shape** (any settings with a non-negative added run-off fraction, any profile): whenever
    `evaluate(votes, n)` returns, with `1 ≤ n ≤ #candidates graded`, the result has exactly `n` places filled with
    distinct graded candidates or ties of them. -/
theorem star_shape (ac : Nat) (af : Rat) (haf : 0 ≤ af) (cfg : Cfg) (votes : SProfile) (n : Nat) (h1 : 1 ≤ n)
    (hlen : n ≤ (scoreCands votes).length) (r : List Slot) (h : Score.star ac af cfg votes n = .ok r) :
    SelShape (scoreCands votes) n r := by
  rw [C12.star_eq_schulze_of_runoff] at h
  cases hc : convert { cfg with fn := .sum } votes with
  | error e => rw [hc] at h; cases h
  | ok agg =>
    rw [hc] at h
    simp only [Except.map] at h
    injection h with h
    have hk : keys agg = scoreCands votes := convert_keys hc
    have hnd : (keys agg).Nodup := hk ▸ scoreCands_nodup votes
    have hlen' : n ≤ agg.length := by
      have : agg.length = (keys agg).length := by simp [keys]
      rw [this, hk]; exact hlen
    set members := starMembers (getNBest agg (starSize ac af n)) with hmem
    have hmnd : members.Nodup := (starMembers_spec _).2
    have hmsub : ∀ x ∈ members, x ∈ scoreCands votes := fun x hx => hk ▸ starMembers_sub agg _ x hx
    have hmlen : n ≤ members.length := starMembers_length_ge agg hnd _ n h1 (starSize_ge ac af haf n) hlen'
    split at h
    · rename_i hle
      subst h
      have hn : n = members.length := by omega
      rw [hn, List.take_length]
      have := SelShape.prependCands (cands := scoreCands votes) (cands' := []) (m := 0) (B := []) (w := members)
        ⟨rfl, by simp, by simp, by simp [electedOf], by simp, by simp⟩ (by simp) hmsub hmnd (by simp)
      simpa using this
    · rename_i hgt
      subst h
      unfold schulze
      obtain ⟨hknd, hkmem⟩ := schulzeScores_keys (memberPairs (pairCounts (starUnscored cfg) votes) members)
      have hpc := pairCands_memberPairs (pairCounts (starUnscored cfg) votes) hmnd (by omega)
      have hkm : ∀ c, c ∈ keys (schulzeScores (memberPairs (pairCounts (starUnscored cfg) votes) members)) ↔ c ∈ members :=
        fun c => (hkmem c).trans (hpc c)
      have hklen : members.length ≤
          (keys (schulzeScores (memberPairs (pairCounts (starUnscored cfg) votes) members))).length :=
        length_le_of_nodup_subset hmnd (fun x hx => (hkm x).mpr hx)
      have := getNBest_shape_of_keys (schulzeScores (memberPairs (pairCounts (starUnscored cfg) votes) members)) _ rfl
        hknd n h1 (by omega)
      exact this.mono (fun c hc => hmsub c ((hkm c).mp hc))

/-- **STAR refusals, unconditional part**: the only exception `evaluate` can raise is `ValueError` (`min()` of nothing)
    with `unscored_value='min'` on a candidate without a grade of positive count — never on a real profile
    (`star_total`).  -/
theorem star_refusals_partial (ac : Nat) (af : Rat) (cfg : Cfg) (votes : SProfile) (n : Nat) (e : Err)
    (h : Score.star ac af cfg votes n = .error e) :
    e = .valueError ∧ cfg.unscored = .min ∧ ∃ p ∈ rawScores votes, expand p.2 = [] := by
  rw [C12.star_eq_schulze_of_runoff] at h
  cases hc : convert { cfg with fn := .sum } votes with
  | ok agg => rw [hc] at h; cases h
  | error e' =>
    rw [hc] at h
    simp only [Except.map] at h
    injection h with h
    subst h
    rcases convert_error hc with h | ⟨_, _, _, _, _, (⟨hfn, _⟩ | ⟨hfn, _⟩)⟩
    · exact h
    · cases hfn
    · cases hfn

/-- **STAR never raises** unless `unscored_value='min'` meets non-positive ballot counts -/
theorem star_total (ac : Nat) (af : Rat) (cfg : Cfg) (votes : SProfile)
    (hok : cfg.unscored ≠ .min ∨ PosCounts votes) (n : Nat) : ∃ r, Score.star ac af cfg votes n = .ok r := by
  cases h : Score.star ac af cfg votes n with
  | ok r => exact ⟨r, rfl⟩
  | error e =>
    exfalso
    obtain ⟨_, hmin, p, hp, hpe⟩ := star_refusals_partial ac af cfg votes n e h
    rcases hok with hne | hpos
    · exact hne hmin
    · exact rawScores_expand_ne_nil hpos p hp hpe

/-- **STAR refusals** (real profiles, or any profile when `unscored_value` is not `'min'`): only declared refusals — in
    fact none at all (`star_total`). -/
theorem star_refusals (ac : Nat) (af : Rat) (cfg : Cfg) (votes : SProfile)
    (hok : cfg.unscored ≠ .min ∨ PosCounts votes) (n : Nat) (e : Err) (h : Score.star ac af cfg votes n = .error e) :
    e = .votingSystemError ∨ e = .notImplemented := by
  obtain ⟨r, hr⟩ := star_total ac af cfg votes hok n
  rw [hr] at h; cases h

/-- non-vacuity: the score leader loses the run-off; two finalists nobody separates are reported as tied -/
example : 1 ≤ (scoreCands [([(0, 5), (1, 0), (2, 0)], 2), ([(0, 1), (1, 2), (2, 0)], 3)]).length ∧
    Score.star 1 0 (C12.plainCfg .sum) [([(0, 5), (1, 0), (2, 0)], 2), ([(0, 1), (1, 2), (2, 0)], 3)] 1
      = .ok [Slot.cand 1] ∧
    Score.star 1 0 (C12.plainCfg .sum) [([(0, 5), (1, 5), (2, 0)], 2), ([(0, 4), (1, 4), (2, 1)], 1)] 1
      = .ok [Slot.tie [0, 1]] := by
  refine ⟨by decide +kernel, by decide +kernel, by decide +kernel⟩

/-! ### Allocated score: refusals -/

/-- since fix 6a39988 `_find_best_votes` scans with an optional best score and never raises -/
theorem findBestVotes_error {cv : WProfile} {cand : Cand} {e : Err} (h : findBestVotes cv cand = .error e) : False := by
  obtain ⟨best, hb⟩ := C12.allocated_spending_never_raises cv cand
  rw [hb] at h; cases h

theorem fractionOut_error : ∀ (fuel : Nat) (cv : WProfile) (c : Cand) (q : Rat) (e : Err),
    fractionOut fuel cv c q = .error e → cv.length < fuel → False := by
  intro fuel
  induction fuel with
  | zero => intro cv c q e _ hl; omega
  | succ fuel ih =>
    intro cv c q e h hl
    unfold fractionOut at h
    split at h
    · cases hb : findBestVotes cv c with
      | error e' =>
        rw [hb] at h
        injection h with h
        exact findBestVotes_error hb
      | ok best =>
        rw [hb] at h
        simp only [bind, Except.bind, pure, Except.pure] at h
        split at h
        · cases h
        · rename_i hcur
          split at h
          · cases h
          · apply ih _ c _ e h
            -- the recursion drops at least one ballot
            rcases findBestVotes_spec hb with ⟨hnil, _⟩ | ⟨m, hbest, hne, _⟩
            · rw [hnil] at hcur; simp at hcur
            · obtain ⟨b, hbm⟩ := List.exists_mem_of_ne_nil _ hne
              have hbm' := hbm
              rw [hbest] at hbm'
              unfold gradeGroup at hbm'
              obtain ⟨bw, hbw, hbe⟩ := List.mem_map.mp hbm'
              have hbw' := (List.mem_filter.mp hbw).1
              have : (cv.filter (fun bw => !(best.contains bw.1))).length < cv.length := by
                apply List.length_filter_lt_length_iff_exists.mpr
                refine ⟨bw, hbw', ?_⟩
                simp only [Bool.not_eq_true, Bool.not_eq_false', List.contains_eq_mem, decide_eq_true_eq, hbe]
                exact hbm
              omega
    · cases h

theorem subtractVotes_error {cv : WProfile} {c : Cand} {g : Nat} {q : Rat} {e : Err}
    (h : subtractVotes cv c g q = .error e) : False := by
  unfold subtractVotes at h
  cases hf : fractionOut (cv.length + 1) cv c q with
  | error e' =>
    rw [hf] at h
    injection h with h
    subst h
    exact fractionOut_error _ _ _ _ _ hf (by omega)
  | ok cv1 =>
    rw [hf] at h
    simp only [bind, Except.bind, pure, Except.pure] at h
    split at h <;> cases h

/-! ### Allocated score: what the loop maintains -/

/-- the score table of a round names only candidates graded on a remaining ballot, each once -/
theorem sumScores_keys (cv : WProfile) :
    (keys (sumScores cv)).Nodup ∧ ∀ c ∈ keys (sumScores cv), ∃ bw ∈ cv, ∃ p ∈ bw.1, p.1 = c := by
  unfold sumScores
  apply foldl_inv (fun d : Votes => (keys d).Nodup ∧ ∀ c ∈ keys d, ∃ bw ∈ cv, ∃ p ∈ bw.1, p.1 = c)
  · exact ⟨by simp [keys], by intro c hc; simp [keys] at hc⟩
  · intro d bw hbw hd
    apply foldl_inv (fun d : Votes => (keys d).Nodup ∧ ∀ c ∈ keys d, ∃ bw ∈ cv, ∃ p ∈ bw.1, p.1 = c) _ _ _ hd
    intro d p hp hd
    refine ⟨nodup_keys_addVote hd.1 _ _, ?_⟩
    intro c hc
    rcases mem_keys_addVote.mp hc with h | rfl
    · exact hd.2 c h
    · exact ⟨bw, hbw, p, hp, rfl⟩

theorem fractionOut_ballots : ∀ (fuel : Nat) (cv : WProfile) (c : Cand) (q : Rat) (cv' : WProfile),
    fractionOut fuel cv c q = .ok cv' → ∀ bw' ∈ cv', ∃ bw ∈ cv, bw'.1 = bw.1 := by
  intro fuel
  induction fuel with
  | zero => intro cv c q cv' h; simp [fractionOut] at h
  | succ fuel ih =>
    intro cv c q cv' h
    unfold fractionOut at h
    split at h
    · cases hb : findBestVotes cv c with
      | error e => rw [hb] at h; cases h
      | ok best =>
        rw [hb] at h
        simp only [bind, Except.bind, pure, Except.pure] at h
        split at h
        · injection h with h; subst h; exact fun bw hbw => ⟨bw, hbw, rfl⟩
        · split at h
          · injection h with h
            subst h
            intro bw' hbw'
            obtain ⟨bw, hbw, rfl⟩ := List.mem_map.mp hbw'
            refine ⟨bw, hbw, ?_⟩
            split <;> rfl
          · intro bw' hbw'
            obtain ⟨bw, hbw, he⟩ := ih _ _ _ _ h bw' hbw'
            exact ⟨bw, (List.mem_filter.mp hbw).1, he⟩
    · injection h with h; subst h; exact fun bw hbw => ⟨bw, hbw, rfl⟩

theorem mem_addWeight {d : WProfile} {b : SBallot} {w : Rat} {x : SBallot × Rat} (h : x ∈ addWeight d b w) :
    x.1 = b ∨ x ∈ d := by
  induction d with
  | nil => simp only [addWeight, List.mem_singleton] at h; left; rw [h]
  | cons y rest ih =>
    obtain ⟨k, v⟩ := y
    unfold addWeight at h
    by_cases hk : k = b
    · rw [if_pos hk] at h
      rcases List.mem_cons.mp h with h | h
      · left; rw [h]; exact hk
      · right; exact List.mem_cons_of_mem _ h
    · rw [if_neg hk] at h
      rcases List.mem_cons.mp h with h | h
      · right; rw [h]; exact List.mem_cons_self
      · rcases ih h with h | h
        · exact Or.inl h
        · exact Or.inr (List.mem_cons_of_mem _ h)

/-- after `_subtract_votes` every grade on a remaining ballot was on a ballot before, and the candidate who has just
    reached its cap (`gained = 1`) is graded nowhere any more -/
theorem subtractVotes_ballots {cv : WProfile} {c : Cand} {g : Nat} {q : Rat} {cv' : WProfile}
    (h : subtractVotes cv c g q = .ok cv') :
    ∀ bw' ∈ cv', ∀ p ∈ bw'.1, (∃ bw ∈ cv, p ∈ bw.1) ∧ (g = 1 → p.1 ≠ c) := by
  unfold subtractVotes at h
  cases hf : fractionOut (cv.length + 1) cv c q with
  | error e => rw [hf] at h; cases h
  | ok cv1 =>
    rw [hf] at h
    simp only [bind, Except.bind, pure, Except.pure] at h
    have hsub := fractionOut_ballots _ _ _ _ _ hf
    split at h
    · rename_i hg
      injection h with h
      subst h
      have key : ∀ x ∈ cv1.foldl (fun d bw => addWeight d (bw.1.filter (fun p => p.1 ≠ c)) bw.2) [],
          ∃ bw ∈ cv1, x.1 = bw.1.filter (fun p => p.1 ≠ c) := by
        apply foldl_inv (fun d : WProfile => ∀ x ∈ d, ∃ bw ∈ cv1, x.1 = bw.1.filter (fun p => p.1 ≠ c))
        · intro x hx; cases hx
        · intro d bw hbw hd x hx
          rcases mem_addWeight hx with hx | hx
          · exact ⟨bw, hbw, hx⟩
          · exact hd x hx
      intro bw' hbw' p hp
      obtain ⟨bw1, hbw1, he⟩ := key bw' hbw'
      rw [he] at hp
      obtain ⟨hp1, hp2⟩ := List.mem_filter.mp hp
      obtain ⟨bw, hbw, he'⟩ := hsub bw1 hbw1
      refine ⟨⟨bw, hbw, he' ▸ hp1⟩, fun _ => by simpa using hp2⟩
    · rename_i hg
      injection h with h
      subst h
      intro bw' hbw' p hp
      obtain ⟨bw, hbw, he'⟩ := hsub bw' hbw'
      exact ⟨⟨bw, hbw, he' ▸ hp⟩, fun h1 => absurd h1 hg⟩

theorem bump_absent {el : Elected} {k : Key} (h : k ∉ el.map (·.1)) (n : Nat) : bump el k n = el ++ [(k, 0 + n)] := by
  induction el with
  | nil => rfl
  | cons x rest ih =>
    obtain ⟨k', v⟩ := x
    have hk : ¬ k' = k := fun e => h (by simp [e])
    unfold bump
    rw [if_neg hk, ih (fun hm => h (List.mem_cons_of_mem _ hm))]
    rfl

theorem electedOf_append_absent {el : Elected} {c : Cand} (h : Key.cand c ∉ el.map (·.1)) (m : Nat) :
    Score.electedOf (el ++ [(Key.cand c, m)]) c = m := by
  unfold Score.electedOf
  induction el with
  | nil => simp
  | cons x rest ih =>
    obtain ⟨k', v⟩ := x
    have hk : ¬ k' = Key.cand c := fun e => h (by simp [e])
    simp only [List.cons_append, List.find?_cons, hk, decide_false]
    exact ih (fun hm => h (List.mem_cons_of_mem _ hm))

/-- invariant of the allocation loop (selector: everybody capped at one seat) -/
structure AInv (S : List Cand) (n : Nat) (cv : WProfile) (el : Elected) (rem : Nat) : Prop where
  nodup : (el.map (·.1)).Nodup
  cands : ∀ km ∈ el, ∃ c, km = (Key.cand c, 1) ∧ c ∈ S
  total : el.length + rem = n
  ballots : ∀ bw ∈ cv, ∀ p ∈ bw.1, p.1 ∈ S ∧ Key.cand p.1 ∉ el.map (·.1)

theorem elect_step {S : List Cand} {n : Nat} {cv : WProfile} {el : Elected} {rem : Nat} (h : AInv S n cv el rem)
    (hrem : 1 ≤ rem) {c : Cand} (hcS : c ∈ S) (hce : Key.cand c ∉ el.map (·.1)) {q : Rat} {cv1 : WProfile}
    (hs : subtractVotes cv c (Score.electedOf (bump el (Key.cand c) 1) c) q = .ok cv1) :
    AInv S n cv1 (bump el (Key.cand c) 1) (rem - 1) ∧ bump el (Key.cand c) 1 = el ++ [(Key.cand c, 1)] := by
  have hb : bump el (Key.cand c) 1 = el ++ [(Key.cand c, 1)] := bump_absent hce 1
  rw [hb] at hs ⊢
  rw [electedOf_append_absent hce] at hs
  have hsub := subtractVotes_ballots hs
  refine ⟨⟨?_, ?_, ?_, ?_⟩, rfl⟩
  · rw [List.map_append]
    refine List.nodup_append.mpr ⟨h.nodup, by simp, ?_⟩
    intro a ha b hb' hab
    simp only [List.map_cons, List.map_nil, List.mem_singleton] at hb'
    subst hab; subst hb'
    exact hce ha
  · intro km hkm
    rcases List.mem_append.mp hkm with hkm | hkm
    · exact h.cands km hkm
    · simp only [List.mem_singleton] at hkm
      exact ⟨c, hkm, hcS⟩
  · rw [List.length_append, List.length_singleton]
    have := h.total
    omega
  · intro bw' hbw' p hp
    obtain ⟨⟨bw, hbw, hpb⟩, hne⟩ := hsub bw' hbw' p hp
    obtain ⟨h1, h2⟩ := h.ballots bw hbw p hpb
    refine ⟨h1, ?_⟩
    rw [List.map_append]
    intro hm
    rcases List.mem_append.mp hm with hm | hm
    · exact h2 hm
    · simp only [List.map_cons, List.map_nil, List.mem_singleton] at hm
      injection hm with hm
      exact hne rfl hm

/-- electing all members of a leading tie one after the other -/
theorem elect_members {S : List Cand} {n : Nat} {q : Rat} : ∀ (ms : List Cand) (cv : WProfile) (el : Elected) (rem : Nat),
    AInv S n cv el rem → ms.length ≤ rem → ms.Nodup → (∀ c ∈ ms, c ∈ S ∧ Key.cand c ∉ el.map (·.1)) →
    ∀ r, ms.foldlM (fun (st : WProfile × Elected) c => do
            let e1 := bump st.2 (Key.cand c) 1
            let cv1 ← subtractVotes st.1 c (Score.electedOf e1 c) q
            pure (cv1, e1)) (cv, el) = Except.ok r →
      AInv S n r.1 r.2 (rem - ms.length) := by
  intro ms
  induction ms with
  | nil =>
    intro cv el rem h _ _ _ r hr
    simp only [List.foldlM_nil, pure, Except.pure] at hr
    injection hr with hr
    subst hr
    simpa using h
  | cons c rest ih =>
    intro cv el rem h hlen hnd hms r hr
    rw [List.foldlM_cons] at hr
    simp only [bind, Except.bind] at hr
    cases hs : subtractVotes cv c (Score.electedOf (bump el (Key.cand c) 1) c) q with
    | error e => rw [hs] at hr; cases hr
    | ok cv1 =>
      rw [hs] at hr
      simp only [pure, Except.pure] at hr
      simp only [List.length_cons] at hlen
      obtain ⟨hc1, hc2⟩ := hms c List.mem_cons_self
      obtain ⟨hinv, hb⟩ := elect_step h (by omega) hc1 hc2 hs
      have hnd' := List.nodup_cons.mp hnd
      have := ih cv1 (bump el (Key.cand c) 1) (rem - 1) hinv (by omega) hnd'.2 (by
        intro d hd
        obtain ⟨hd1, hd2⟩ := hms d (List.mem_cons_of_mem _ hd)
        refine ⟨hd1, ?_⟩
        rw [hb, List.map_append]
        intro hm
        rcases List.mem_append.mp hm with hm | hm
        · exact hd2 hm
        · simp only [List.map_cons, List.map_nil, List.mem_singleton] at hm
          injection hm with hm
          exact hnd'.1 (hm ▸ hd)) r hr
      have e : rem - 1 - rest.length = rem - (rest.length + 1) := by omega
      rw [List.length_cons, ← e]
      exact this

/-- what the allocation loop returns: everybody elected once, or — when a tie of more members than seats remain leads a
    round — the elected so far followed by that tie holding all remaining seats -/
def AllocOut (S : List Cand) (n : Nat) (e : Elected) : Prop :=
  ((e.map (·.1)).Nodup ∧ (∀ km ∈ e, ∃ c, km = (Key.cand c, 1) ∧ c ∈ S) ∧ e.length = n) ∨
  (∃ el T rem, e = el ++ [(Key.tie T, rem)] ∧ (el.map (·.1)).Nodup ∧ (∀ km ∈ el, ∃ c, km = (Key.cand c, 1) ∧ c ∈ S) ∧
    el.length + rem = n ∧ 1 ≤ rem ∧ rem < T.length ∧ ∀ c ∈ T, c ∈ S ∧ Key.cand c ∉ el.map (·.1))

theorem allocLoop_out {S : List Cand} {n : Nat} (q : Rat) : ∀ (fuel : Nat) (cv : WProfile) (el : Elected) (rem : Nat)
    (e : Elected), allocLoop q fuel cv el rem = .ok e → AInv S n cv el rem → AllocOut S n e := by
  intro fuel
  induction fuel with
  | zero =>
    intro cv el rem e h hinv
    simp only [allocLoop] at h
    split at h
    · rename_i h0
      injection h with h
      subst h
      exact Or.inl ⟨hinv.nodup, hinv.cands, by have := hinv.total; omega⟩
    · cases h
  | succ fuel ih =>
    intro cv el rem e h hinv
    unfold allocLoop at h
    split at h
    · rename_i h0
      injection h with h
      subst h
      exact Or.inl ⟨hinv.nodup, hinv.cands, by have := hinv.total; omega⟩
    · rename_i hrem
      obtain ⟨_, hkeys⟩ := sumScores_keys cv
      have hnames := getNBest_slotIn (sumScores cv) 1
      have hin : ∀ c ∈ keys (sumScores cv), c ∈ S ∧ Key.cand c ∉ el.map (·.1) := by
        intro c hc
        obtain ⟨bw, hbw, p, hp, rfl⟩ := hkeys c hc
        exact hinv.ballots bw hbw p hp
      split at h
      · cases h
      · rename_i best rest hg
        have hbest : best ∈ keys (sumScores cv) := hnames (Slot.cand best) (by rw [hg]; exact List.mem_cons_self)
        simp only [bind, Except.bind] at h
        cases hs : subtractVotes cv best (Score.electedOf (bump el (Key.cand best) 1) best) q with
        | error e' => rw [hs] at h; cases h
        | ok cv1 =>
          rw [hs] at h
          obtain ⟨h1, h2⟩ := hin best hbest
          exact ih _ _ _ _ h (elect_step hinv (by omega) h1 h2 hs).1
      · rename_i T rest hg
        have hT : ∀ c ∈ T, c ∈ keys (sumScores cv) := hnames (Slot.tie T) (by rw [hg]; exact List.mem_cons_self)
        simp only at h
        split at h
        · rename_i hge
          cases hf : (sortDedup T).foldlM (fun (st : WProfile × Elected) c => do
              let e1 := bump st.2 (Key.cand c) 1
              let cv1 ← subtractVotes st.1 c (Score.electedOf e1 c) q
              pure (cv1, e1)) (cv, el) with
          | error e' => rw [hf] at h; cases h
          | ok r =>
            rw [hf] at h
            simp only [bind, Except.bind] at h
            exact ih _ _ _ _ h (elect_members (sortDedup T) cv el rem hinv hge (sortDedup_nodup T)
              (fun c hc => hin c (hT c (mem_sortDedup.mp hc))) r hf)
        · rename_i hlt
          injection h with h
          subst h
          right
          have habs : Key.tie (sortDedup T) ∉ el.map (·.1) := by
            intro hm
            obtain ⟨km, hkm, hk⟩ := List.mem_map.mp hm
            obtain ⟨c, hc, _⟩ := hinv.cands km hkm
            rw [hc] at hk
            cases hk
          refine ⟨el, sortDedup T, rem, ?_, hinv.nodup, hinv.cands, hinv.total, by omega, by omega, ?_⟩
          · rw [bump_absent habs, Nat.zero_add]
          · intro c hc
            exact hin c (hT c (mem_sortDedup.mp hc))

theorem foldlM_error {α β : Type} {f : β → α → Except Err β} {P : Err → Prop}
    (hf : ∀ b x e, f b x = .error e → P e) : ∀ (l : List α) (b : β) (e : Err), l.foldlM f b = .error e → P e := by
  intro l
  induction l with
  | nil => intro b e h; simp only [List.foldlM_nil, pure, Except.pure] at h; cases h
  | cons x xs ih =>
    intro b e h
    rw [List.foldlM_cons] at h
    cases hx : f b x with
    | error e' =>
      rw [hx] at h
      simp only [bind, Except.bind] at h
      injection h with h
      subst h
      exact hf b x _ hx
    | ok b' =>
      rw [hx] at h
      simp only [bind, Except.bind] at h
      exact ih b' e h

theorem getNBest_nil (n : Nat) : getNBest [] n = [] := by
  rw [getNBest_all [] n (by simp)]; rfl

/-- the only error of the allocation loop (since fix 6a39988): the declared `VotingSystemError` of exhausted ballots (an
    empty score table while seats remain); the spending never raises and the model's fuel bound is never hit -/
theorem allocLoop_error (q : Rat) : ∀ (fuel : Nat) (cv : WProfile) (el : Elected) (rem : Nat) (e : Err),
    allocLoop q fuel cv el rem = .error e → rem ≤ fuel → e = .votingSystemError := by
  intro fuel
  induction fuel with
  | zero =>
    intro cv el rem e h hle
    simp only [allocLoop] at h
    split at h
    · cases h
    · omega
  | succ fuel ih =>
    intro cv el rem e h hle
    unfold allocLoop at h
    split at h
    · cases h
    · rename_i hrem
      split at h
      · injection h with h; exact h.symm
      · rename_i best rest hg
        simp only [bind, Except.bind] at h
        cases hs : subtractVotes cv best (Score.electedOf (bump el (Key.cand best) 1) best) q with
        | error e' =>
          rw [hs] at h
          exact (subtractVotes_error hs).elim
        | ok cv1 =>
          rw [hs] at h
          exact ih _ _ _ _ h (by omega)
      · rename_i T rest hg
        simp only at h
        split at h
        · rename_i hge
          cases hf : (sortDedup T).foldlM (fun (st : WProfile × Elected) c => do
              let e1 := bump st.2 (Key.cand c) 1
              let cv1 ← subtractVotes st.1 c (Score.electedOf e1 c) q
              pure (cv1, e1)) (cv, el) with
          | error e' =>
            rw [hf] at h
            simp only [bind, Except.bind] at h
            refine (foldlM_error (P := fun _ => False) ?_ _ _ _ hf).elim
            intro b x e hb
            simp only [bind, Except.bind] at hb
            cases hs : subtractVotes b.1 x (Score.electedOf (bump b.2 (Key.cand x) 1) x) q with
            | error e'' =>
              rw [hs] at hb
              exact subtractVotes_error hs
            | ok cv1 => rw [hs] at hb; cases hb
          | ok r =>
            rw [hf] at h
            simp only [bind, Except.bind] at h
            apply ih _ _ _ _ h
            -- a tie object has members
            have hne : sumScores cv ≠ [] := by
              intro h0
              rw [h0, getNBest_nil] at hg
              cases hg
            have hshape := getNBest_shape (sumScores cv) (sumScores_keys cv).1 1 (le_refl 1)
              (List.length_pos_iff.mpr hne)
            have hmem : Slot.tie T ∈ getNBest (sumScores cv) 1 := by rw [hg]; exact List.mem_cons_self
            have hbig := hshape.tie_big T hmem
            have hpos : 0 < T.length := by omega
            obtain ⟨c, hc⟩ := List.exists_mem_of_length_pos hpos
            have : 0 < (sortDedup T).length := List.length_pos_of_mem (mem_sortDedup.mpr hc)
            omega
        · cases h

/-- **Allocated score refusals (FULL since fix 6a39988)**: for any quota function and any profile the only error outcome
    of `AllocatedScoreSelector.evaluate` is the declared `VotingSystemError` raised when the ballots are exhausted before
    all seats are filled.  (Before the repair: `ValueError` from `min()` of nothing and `IndexError` from
    `get_n_best({}, 1)[0]` — fixed findings C08-allocated-score-valueerror / -indexerror.) -/
theorem allocated_refusals (quota : Rat → Nat → Rat) (votes : SProfile) (n : Nat) (e : Err)
    (h : allocatedSelector quota votes n = .error e) : e = .votingSystemError ∨ e = .notImplemented := by
  unfold allocatedSelector at h
  simp only [bind, Except.bind] at h
  split at h
  · rename_i e' he
    injection h with h
    subst h
    exact Or.inl (allocLoop_error _ _ _ _ _ _ he (le_refl n))
  · cases h

/-- the two fixed findings, on real profiles with `1 ≤ n ≤ #candidates graded`: a ballot grading only an elected candidate
    no longer crashes the spending (both seats are filled); exhausted ballots are refused -/
theorem allocated_refusals_fixed :
    (PosCounts [([(0, 5)], 2), ([(1, 3)], 1)] ∧ 2 ≤ (scoreCands [([(0, 5)], 2), ([(1, 3)], 1)]).length ∧
      allocatedSelector Gen.Quota.hare [([(0, 5)], 2), ([(1, 3)], 1)] 2 = .ok [Key.cand 0, Key.cand 1]) ∧
    (PosCounts [([(1, 2)], 2), ([(0, 4), (1, 3)], 1)] ∧ 2 ≤ (scoreCands [([(1, 2)], 2), ([(0, 4), (1, 3)], 1)]).length ∧
      allocatedSelector Gen.Quota.droop [([(1, 2)], 2), ([(0, 4), (1, 3)], 1)] 2 = .error .votingSystemError) :=
  ⟨⟨by decide +kernel, by decide +kernel, C12.allocated_empty_ballot_fixed⟩,
   ⟨by decide +kernel, by decide +kernel, C12.allocated_ballots_exhausted_refused⟩⟩

/-! ### Allocated score: shape -/

/-- a key of the distributor's result as a place of a selection -/
def keySlot : Key → Slot
  | .cand c => Slot.cand c
  | .tie T => Slot.tie T

theorem elected_cands {S : List Cand} : ∀ (el : Elected), (∀ km ∈ el, ∃ c, km = (Key.cand c, 1) ∧ c ∈ S) →
    ∃ cs : List Cand, el.map (·.1) = cs.map Key.cand ∧ (∀ c ∈ cs, c ∈ S) ∧ cs.length = el.length := by
  intro el
  induction el with
  | nil => intro _; exact ⟨[], rfl, by simp, rfl⟩
  | cons km rest ih =>
    intro h
    obtain ⟨cs, h1, h2, h3⟩ := ih (fun x hx => h x (List.mem_cons_of_mem _ hx))
    obtain ⟨c, hc, hcS⟩ := h km List.mem_cons_self
    refine ⟨c :: cs, by simp [hc, h1], ?_, by simp [h3]⟩
    intro d hd
    rcases List.mem_cons.mp hd with rfl | hd
    · exact hcS
    · exact h2 d hd

theorem selShape_nil (cands : List Cand) : SelShape cands 0 [] :=
  ⟨rfl, by simp, by simp, by simp [electedOf], by simp, by simp⟩

theorem flatMap_replicate_ones (e : Elected) (h : ∀ km ∈ e, km.2 = 1) :
    e.flatMap (fun p => List.replicate p.2 p.1) = e.map (·.1) := by
  induction e with
  | nil => rfl
  | cons km rest ih =>
    rw [List.flatMap_cons, List.map_cons, ih (fun x hx => h x (List.mem_cons_of_mem _ hx)), h km List.mem_cons_self]
    rfl

/-- **Allocated score shape (full since fix 4ae6629).**  Whenever `AllocatedScoreSelector.evaluate(votes, n)` returns, the
    list has the selection shape for `n` seats: distinct graded candidates, possibly followed by ONE tie of graded
    candidates not elected, repeated once per seat it contests and larger than those seats.  (Before the repair the
    selector returned the keys of the distributor's dict, so a tie for several seats was listed once:
    `prefix_allocated_shape_witness`.) -/
theorem allocated_shape (quota : Rat → Nat → Rat) (votes : SProfile) (n : Nat) (ks : List Key)
    (h : allocatedSelector quota votes n = .ok ks) : SelShape (scoreCands votes) n (ks.map keySlot) := by
  unfold allocatedSelector at h
  simp only [bind, Except.bind] at h
  split at h
  · cases h
  · rename_i e he
    simp only [pure, Except.pure] at h
    injection h with h
    subst h
    have hinit : AInv (scoreCands votes) n (votes.map (fun bn => (bn.1, ((bn.2 : Int) : Rat)))) [] n := by
      refine ⟨by simp, by simp, by simp, ?_⟩
      intro bw hbw p hp
      obtain ⟨bn, hbn, rfl⟩ := List.mem_map.mp hbw
      exact ⟨mem_scoreCands.mpr ⟨bn, hbn, p, hp, rfl⟩, by simp⟩
    have hones : ∀ (el : Elected), (∀ km ∈ el, ∃ c, km = (Key.cand c, 1) ∧ c ∈ scoreCands votes) → ∀ km ∈ el, km.2 = 1 := by
      intro el hel km hkm
      obtain ⟨c, hc, _⟩ := hel km hkm
      rw [hc]
    rcases allocLoop_out _ _ _ _ _ _ he hinit with ⟨hnd, hc, hl⟩ | ⟨el, T, rem, he', hnd, hc, htot, hr1, hrT, hT⟩
    · obtain ⟨cs, h1, h2, h3⟩ := elected_cands e hc
      rw [flatMap_replicate_ones e (hones e hc), h1, List.map_map]
      have hcsnd : cs.Nodup := by
        rw [h1] at hnd
        exact List.Nodup.of_map _ hnd
      have := SelShape.prependCands (cands := scoreCands votes) (w := cs) (selShape_nil []) (by simp) h2 hcsnd (by simp)
      rw [List.append_nil, Nat.add_zero, h3, hl] at this
      exact this
    · obtain ⟨cs, h1, h2, h3⟩ := elected_cands el hc
      have hcsnd : cs.Nodup := by
        rw [h1] at hnd
        exact List.Nodup.of_map _ hnd
      have hB : SelShape T rem (List.replicate rem (Slot.tie T)) := by
        refine ⟨by simp, ?_, ?_, ?_, ?_, ?_⟩
        · intro c hc'; have := (List.mem_replicate.mp hc').2; cases this
        · intro T' hT' c hc'
          have := (List.mem_replicate.mp hT').2
          injection this with this
          subst this
          exact hc'
        · have : electedOf (List.replicate rem (Slot.tie T)) = [] := electedOf_replicate_tie rem T
          rw [this]; exact List.nodup_nil
        · intro T' hT'
          have := (List.mem_replicate.mp hT').2
          injection this with this
          subst this
          rw [List.count_replicate_self]
          exact hrT
        · intro T' _ c _ hc'; have := (List.mem_replicate.mp hc').2; cases this
      have hslots : (e.flatMap (fun p => List.replicate p.2 p.1)).map keySlot =
          cs.map Slot.cand ++ List.replicate rem (Slot.tie T) := by
        rw [he', List.flatMap_append, flatMap_replicate_ones el (hones el hc), h1, List.map_append, List.map_map]
        simp [keySlot, Function.comp_def]
      rw [hslots]
      have := SelShape.prependCands (cands := scoreCands votes) (w := cs) hB (fun c hc' => (hT c hc').1) h2 hcsnd
          (fun c hc' hcw => (hT c hc').2 (by rw [h1]; exact List.mem_map.mpr ⟨c, hcw, rfl⟩))
      have hn : cs.length + rem = n := by omega
      rw [hn] at this
      exact this

/-- (fixed by 4ae6629) three candidates tied for two seats: the tie now fills both places; a leader followed by a three-way
    tie for two seats: three entries for three seats.  (The pre-repair selector answered `[Tie{0,1,2}]` resp.
    `[0, Tie{1,2,3}]` — the keys of the dict; recorded as the fixed finding C08-allocated-score-tie-listed-once.) -/
theorem allocated_shape_tie_fixed :
    allocatedSelector Gen.Quota.hare [([(0, 5), (1, 5), (2, 5)], 3)] 2 = .ok [Key.tie [0, 1, 2], Key.tie [0, 1, 2]] ∧
    allocatedSelector Gen.Quota.hare [([(0, 5), (1, 3), (2, 3), (3, 3)], 3)] 3 =
      .ok [Key.cand 0, Key.tie [1, 2, 3], Key.tie [1, 2, 3]] := by
  constructor <;> decide +kernel

/-- non-vacuity: a full run -/
example : allocatedSelector Gen.Quota.hare [([(0, 5), (1, 2), (2, 1)], 2), ([(0, 1), (1, 3), (2, 0)], 2)] 3
    = .ok [Key.cand 0, Key.cand 1, Key.cand 2] := by decide +kernel

end VL.C08
