/-
  C10, Condorcet / instant-runoff hybrids (model VotelibModel/CondorcetRanked.lean): Benham and Tideman alternative commute
  with every injective renaming of the candidates.  A shared rank is a frozenset which the model keeps as an ascending
  list, so the renamed shared rank is re-canonicalised (`canonSet`); the renamed run is therefore the renamed original
  run only up to insertion order of every dictionary involved, and the simulation relation is
  "current profile of the renamed run is a permutation of the renamed current profile".
  Hypothesis (decidable, the harness convention): every shared rank is strictly ascending (`CanonP`).
-/
import VotelibProofs.Lemmas.PermTideman
import VotelibProofs.Lemmas.RenameCondorcetConvert
import VotelibProofs.Lemmas.PermTrans
namespace VL.Perm.Hyb
open VL VL.Condorcet VL.C10

/-- the renamed rank; a shared rank is re-canonicalised (ascending ids) -/
def renItemH (σ : Cand → Cand) : RankItem → RankItem
  | .one c => .one (σ c)
  | .shared cs => .shared (Convert.canonSet (cs.map σ))
def renBallotH (σ : Cand → Cand) (b : Ballot) : Ballot := b.map (renItemH σ)
/-- the renamed profile (model types of VotelibModel/CondorcetRanked.lean) -/
def renProfileH (σ : Cand → Cand) (p : Profile) : Profile := p.map (fun bw => (renBallotH σ bw.1, bw.2))

/-- every shared rank lists its members in strictly ascending order (the canonical form of a frozenset) -/
def CanonI : RankItem → Prop
  | .one _ => True
  | .shared cs => cs.Pairwise (· < ·)
def CanonB (b : Ballot) : Prop := ∀ it ∈ b, CanonI it
def CanonP (p : Profile) : Prop := ∀ bw ∈ p, CanonB bw.1

instance (it : RankItem) : Decidable (CanonI it) := by cases it <;> unfold CanonI <;> infer_instance
instance (b : Ballot) : Decidable (CanonB b) := by unfold CanonB; infer_instance
instance (p : Profile) : Decidable (CanonP p) := by unfold CanonP; infer_instance

theorem CanonI.nodup {it : RankItem} (h : CanonI it) : (itemCands it).Nodup := by
  cases it with
  | one c => simp [itemCands]
  | shared cs => exact h.imp (fun hab => Nat.ne_of_lt hab)

theorem count_map_inj {α : Type} [BEq α] [LawfulBEq α] (f : α → α) (hf : Function.Injective f) (l : List α) (a : α) :
    (l.map f).count (f a) = l.count a := by
  induction l with
  | nil => rfl
  | cons x xs ih =>
    rw [List.map_cons, List.count_cons, List.count_cons, ih]
    by_cases h : x = a
    · subst h; simp
    · have : f x ≠ f a := fun e => h (hf e)
      simp [h, this]

section
variable (σ : Cand → Cand) (hσ : Function.Injective σ)
include hσ

omit hσ in
theorem mem_itemCands_ren (it : RankItem) (x : Cand) :
    x ∈ itemCands (renItemH σ it) ↔ ∃ c ∈ itemCands it, σ c = x := by
  cases it with
  | one c => simp [renItemH, itemCands, eq_comm]
  | shared cs => simp only [renItemH, itemCands, Convert.mem_canonSet, List.mem_map]

theorem itemCands_ren_perm {it : RankItem} (h : CanonI it) :
    (itemCands (renItemH σ it)).Perm ((itemCands it).map σ) := by
  cases it with
  | one c => exact List.Perm.refl _
  | shared cs =>
    refine (List.perm_ext_iff_of_nodup (Convert.nodup_canonSet _) ((CanonI.nodup h).map hσ)).mpr (fun x => ?_)
    exact Convert.mem_canonSet x _

theorem ballotCands_ren_perm {b : Ballot} (h : CanonB b) :
    ((renBallotH σ b).flatMap itemCands).Perm ((b.flatMap itemCands).map σ) := by
  induction b with
  | nil => exact List.Perm.refl _
  | cons it rest ih =>
    simp only [renBallotH, List.map_cons, List.flatMap_cons, List.map_append]
    exact (itemCands_ren_perm σ hσ (h it (by simp))).append (ih (fun i hi => h i (List.mem_cons_of_mem _ hi)))

theorem mem_ballotCands_ren {b : Ballot} (h : CanonB b) (c : Cand) :
    σ c ∈ (renBallotH σ b).flatMap itemCands ↔ c ∈ b.flatMap itemCands := by
  rw [(ballotCands_ren_perm σ hσ h).mem_iff, List.mem_map_of_injective hσ]

/-! ### `all_ranked_candidates` -/

theorem allRanked_ren_perm {p : Profile} (hp : CanonP p) :
    (allRankedCandidates (renProfileH σ p)).Perm ((allRankedCandidates p).map σ) := by
  refine (List.perm_ext_iff_of_nodup (nodup_allRanked _) ((nodup_allRanked p).map hσ)).mpr (fun x => ?_)
  rw [mem_allRanked_iff, List.mem_map]
  constructor
  · rintro ⟨bw', hbw', hx⟩
    obtain ⟨bw, hbw, rfl⟩ := List.mem_map.1 hbw'
    obtain ⟨c, hc, rfl⟩ := List.mem_map.1 ((ballotCands_ren_perm σ hσ (hp bw hbw)).mem_iff.mp hx)
    exact ⟨c, (mem_allRanked_iff p c).2 ⟨bw, hbw, hc⟩, rfl⟩
  · rintro ⟨c, hc, rfl⟩
    obtain ⟨bw, hbw, hcb⟩ := (mem_allRanked_iff p c).1 hc
    exact ⟨(renBallotH σ bw.1, bw.2), List.mem_map.2 ⟨bw, hbw, rfl⟩, (mem_ballotCands_ren σ hσ (hp bw hbw) c).2 hcb⟩

/-! ### the pairwise dictionary -/

theorem ballotPairs_ren_perm (a a' : List Cand) {b : Ballot} (h : CanonB b) {U U' : List Cand}
    (hU : U'.Perm (U.map σ)) :
    (ballotPairs a' (renBallotH σ b) U').Perm ((ballotPairs a b U).map (renPair σ)) := by
  induction b with
  | nil => simp [ballotPairs, renBallotH]
  | cons it rest ih =>
    have hrest : CanonB rest := fun i hi => h i (List.mem_cons_of_mem _ hi)
    have hR := ballotCands_ren_perm σ hσ hrest
    simp only [renBallotH, List.map_cons, ballotPairs, List.map_append]
    refine List.Perm.append ?_ (ih hrest)
    refine ((itemCands_ren_perm σ hσ (h it (by simp))).flatMap_right _).trans ?_
    rw [List.flatMap_map, List.map_flatMap]
    apply List.Perm.flatMap_left
    intro u _
    rw [List.map_append, List.map_map, List.map_map]
    refine List.Perm.append ?_ ?_
    · have := hR.map (fun l => (σ u, l))
      rw [List.map_map] at this
      exact this
    · have := hU.map (fun l => (σ u, l))
      rw [List.map_map] at this
      exact this

theorem emits_ren_perm {A A' : List Cand} (hA : A'.Perm (A.map σ)) {b : Ballot} (h : CanonB b) :
    (emits A' (renBallotH σ b)).Perm ((emits A b).map (renPair σ)) := by
  unfold emits
  apply ballotPairs_ren_perm σ hσ A A' h
  refine (hA.filter _).trans ?_
  rw [List.filter_map]
  apply List.Perm.of_eq
  congr 1
  apply List.filter_congr
  intro c _
  simp only [Function.comp]
  congr 1
  rw [Bool.eq_iff_iff, List.contains_iff_mem, List.contains_iff_mem]
  exact mem_ballotCands_ren σ hσ h c

theorem r2c_ren_perm {p : Profile} (hp : CanonP p) :
    (rankedToCondorcet (renProfileH σ p)).Perm (renPairwise σ (rankedToCondorcet p)) := by
  rw [r2c_eq, r2c_eq]
  have hA := allRanked_ren_perm σ hσ hp
  have hem : ∀ bw ∈ p, (emits (allRankedCandidates (renProfileH σ p)) (renBallotH σ bw.1)).Perm
      ((emits (allRankedCandidates p) bw.1).map (renPair σ)) := fun bw hbw => emits_ren_perm σ hσ hA (hp bw hbw)
  refine dict_perm_renKeys (renPair σ) (renPair_inj σ hσ) (nodup_keys_r2cWith _ _) (nodup_keys_r2cWith _ _)
    (fun k' => ?_) (fun k => ?_)
  · rw [mem_keys_r2cWith]
    constructor
    · rintro ⟨bw', hbw', hk⟩
      obtain ⟨bw, hbw, rfl⟩ := List.mem_map.1 hbw'
      obtain ⟨k, hk2, rfl⟩ := List.mem_map.1 ((hem bw hbw).mem_iff.mp hk)
      exact ⟨k, (mem_keys_r2cWith _ p k).2 ⟨bw, hbw, hk2⟩, rfl⟩
    · rintro ⟨k, hk, rfl⟩
      obtain ⟨bw, hbw, hk2⟩ := (mem_keys_r2cWith _ p k).1 hk
      exact ⟨(renBallotH σ bw.1, bw.2), List.mem_map.2 ⟨bw, hbw, rfl⟩,
        (hem bw hbw).mem_iff.mpr (List.mem_map.2 ⟨k, hk2, rfl⟩)⟩
  · rw [toFun_r2cWith, toFun_r2cWith]
    refine (wsum_map (renBallotH σ) p
      (fun b => Convert.cnt (emits (allRankedCandidates (renProfileH σ p)) b) (renPair σ k))).trans ?_
    apply Convert.wsum_congr
    intro bw hbw
    rw [Convert.cnt_perm (hem bw hbw)]
    unfold Convert.cnt
    exact congrArg _ (@count_map_inj Pair instBEqOfDecidableEq inferInstance (renPair σ) (renPair_inj σ hσ) _ k)

/-! ### first preferences -/

theorem length_canon_ren {cs : List Cand} (h : cs.Pairwise (· < ·)) : (Convert.canonSet (cs.map σ)).length = cs.length := by
  have := (itemCands_ren_perm σ hσ (it := .shared cs) h).length_eq
  simpa [renItemH, itemCands] using this

theorem fpc_ren {b : Ballot} (h : CanonB b) (c : Cand) (w : Rat) : fpc (σ c) (renBallotH σ b, w) = fpc c (b, w) := by
  cases b with
  | nil => rfl
  | cons it rest =>
    cases it with
    | one d =>
      simp only [renBallotH, List.map_cons, renItemH, fpc]
      by_cases hd : d = c
      · subst hd; simp
      · have : σ d ≠ σ c := fun e => hd (hσ e)
        simp [hd, this]
    | shared cs =>
      have hcs : cs.Pairwise (· < ·) := h (.shared cs) (by simp)
      have hmem : (Convert.canonSet (cs.map σ)).contains (σ c) = cs.contains c := by
        rw [Bool.eq_iff_iff, List.contains_iff_mem, List.contains_iff_mem, Convert.mem_canonSet,
          List.mem_map_of_injective hσ]
      simp only [renBallotH, List.map_cons, renItemH, fpc, hmem, length_canon_ren σ hσ hcs]

theorem fpFold_ren {p : Profile} (hp : CanonP p) (c : Cand) : ∀ acc : Rat,
    (renProfileH σ p).foldl (fun acc bw => acc + fpc (σ c) bw) acc = p.foldl (fun acc bw => acc + fpc c bw) acc := by
  induction p with
  | nil => intro acc; rfl
  | cons bw rest ih =>
    intro acc
    simp only [renProfileH, List.map_cons, List.foldl_cons]
    rw [fpc_ren σ hσ (hp bw (by simp))]
    exact ih (fun b hb => hp b (List.mem_cons_of_mem _ hb)) _

theorem firstPrefTotals_ren_perm {p : Profile} (hp : CanonP p) :
    (firstPrefTotals (renProfileH σ p)).Perm (renVotes σ (firstPrefTotals p)) := by
  rw [firstPrefTotals_eq, firstPrefTotals_eq]
  refine ((allRanked_ren_perm σ hσ hp).map _).trans (List.Perm.of_eq ?_)
  unfold renVotes
  rw [List.map_map, List.map_map]
  apply List.map_congr_left
  intro c _
  simp only [Function.comp]
  rw [fpFold_ren σ hσ hp]

/-! ### the subsetted profile -/

omit hσ in
theorem canonB_subsetBallot (S : List Cand) {b : Ballot} (h : CanonB b) : CanonB (subsetBallot S b) := by
  induction b with
  | nil => intro it hit; simp [subsetBallot] at hit
  | cons it rest ih =>
    have hrest := ih (fun i hi => h i (List.mem_cons_of_mem _ hi))
    cases it with
    | one c =>
      unfold subsetBallot
      split
      · intro i hi
        rcases List.mem_cons.1 hi with rfl | hi
        · trivial
        · exact hrest i hi
      · exact hrest
    | shared cs =>
      have hcs : cs.Pairwise (· < ·) := h (.shared cs) (by simp)
      unfold subsetBallot
      split
      · exact hrest
      · intro i hi
        rcases List.mem_cons.1 hi with rfl | hi
        · trivial
        · exact hrest i hi
      · rename_i sub _ _
        intro i hi
        rcases List.mem_cons.1 hi with rfl | hi
        · exact hcs.sublist List.filter_sublist
        · exact hrest i hi

omit hσ in
theorem filter_canon_ren {S S' : List Cand} (hS : ∀ c, σ c ∈ S' ↔ c ∈ S) (cs : List Cand) :
    (Convert.canonSet (cs.map σ)).filter (fun c => S'.contains c) =
      Convert.canonSet ((cs.filter (fun c => S.contains c)).map σ) := by
  have hs : ((Convert.canonSet (cs.map σ)).filter (fun c => S'.contains c)).Pairwise (· < ·) :=
    (Convert.sorted_canonSet _).sublist List.filter_sublist
  apply hs.eq_of_mem_iff (Convert.sorted_canonSet _)
  intro x
  simp only [List.mem_filter, Convert.mem_canonSet, List.mem_map, List.contains_iff_mem]
  constructor
  · rintro ⟨⟨c, hc, rfl⟩, hx⟩; exact ⟨c, ⟨hc, (hS c).1 hx⟩, rfl⟩
  · rintro ⟨c, ⟨hc, hcS⟩, rfl⟩; exact ⟨⟨c, hc, rfl⟩, (hS c).2 hcS⟩

theorem subsetBallot_ren {S S' : List Cand} (hS : ∀ c, σ c ∈ S' ↔ c ∈ S) {b : Ballot} (h : CanonB b) :
    subsetBallot S' (renBallotH σ b) = renBallotH σ (subsetBallot S b) := by
  have hc : ∀ c, S'.contains (σ c) = S.contains c := by
    intro c; rw [Bool.eq_iff_iff, List.contains_iff_mem, List.contains_iff_mem, hS]
  induction b with
  | nil => rfl
  | cons it rest ih =>
    have hrest := ih (fun i hi => h i (List.mem_cons_of_mem _ hi))
    cases it with
    | one c =>
      simp only [renBallotH, List.map_cons, renItemH, subsetBallot, hc]
      split
      · simp only [List.map_cons, renItemH]; rw [← renBallotH, ← renBallotH, hrest]
      · rw [← renBallotH, ← renBallotH, hrest]
    | shared cs =>
      have hcs : cs.Pairwise (· < ·) := h (.shared cs) (by simp)
      have hF : (cs.filter (fun c => S.contains c)).Pairwise (· < ·) := hcs.sublist List.filter_sublist
      simp only [renBallotH, List.map_cons, renItemH, subsetBallot, filter_canon_ren σ hS]
      rw [← renBallotH, hrest]
      generalize hFe : cs.filter (fun c => S.contains c) = F at hF
      match F, hF with
      | [], _ => rfl
      | [c], _ =>
        have : Convert.canonSet ([c].map σ) = [σ c] := Convert.canonSet_of_sorted (by simp)
        rw [this]; rfl
      | a :: b :: t, hF =>
        have hl := length_canon_ren σ hσ hF
        generalize hG : Convert.canonSet ((a :: b :: t).map σ) = G at hl
        match G, hl with
        | [], hl => simp at hl
        | [_], hl => simp at hl
        | x :: y :: t', _ =>
          simp only [List.map_cons, renItemH]
          rw [← hG]; rfl

theorem renItemH_inj {i₁ i₂ : RankItem} (h1 : CanonI i₁) (h2 : CanonI i₂) (he : renItemH σ i₁ = renItemH σ i₂) :
    i₁ = i₂ := by
  cases i₁ with
  | one c =>
    cases i₂ with
    | one d => simp only [renItemH, RankItem.one.injEq] at he; rw [hσ he]
    | shared ds => simp [renItemH] at he
  | shared cs =>
    cases i₂ with
    | one d => simp [renItemH] at he
    | shared ds =>
      simp only [renItemH, RankItem.shared.injEq] at he
      have hm := (Convert.canonSet_eq_iff _ _).1 he
      congr 1
      apply List.Pairwise.eq_of_mem_iff h1 h2
      intro c
      have := hm (σ c)
      rwa [List.mem_map_of_injective hσ, List.mem_map_of_injective hσ] at this

theorem renBallotH_inj : ∀ {b₁ b₂ : Ballot}, CanonB b₁ → CanonB b₂ → renBallotH σ b₁ = renBallotH σ b₂ → b₁ = b₂
  | [], [], _, _, _ => rfl
  | [], _ :: _, _, _, he => by simp [renBallotH] at he
  | _ :: _, [], _, _, he => by simp [renBallotH] at he
  | i₁ :: r₁, i₂ :: r₂, h1, h2, he => by
    simp only [renBallotH, List.map_cons, List.cons.injEq] at he
    rw [renItemH_inj σ hσ (h1 i₁ (by simp)) (h2 i₂ (by simp)) he.1,
      renBallotH_inj (fun i hi => h1 i (List.mem_cons_of_mem _ hi)) (fun i hi => h2 i (List.mem_cons_of_mem _ hi)) he.2]

theorem addTo_ren {acc : Profile} (hacc : CanonP acc) {k : Ballot} (hk : CanonB k) (x : Rat) :
    Convert.addTo (renProfileH σ acc) (renBallotH σ k) x = renProfileH σ (Convert.addTo acc k x) := by
  induction acc with
  | nil => rfl
  | cons e es ih =>
    obtain ⟨q, y⟩ := e
    have hq : CanonB q := hacc (q, y) (by simp)
    have ih' := ih (fun b hb => hacc b (List.mem_cons_of_mem _ hb))
    simp only [renProfileH, List.map_cons, Convert.addTo]
    by_cases h : q = k
    · subst h; simp
    · have : renBallotH σ q ≠ renBallotH σ k := fun e => h (renBallotH_inj σ hσ hq hk e)
      simp only [h, this, if_false, List.map_cons]
      rw [← renProfileH, ih']; rfl

omit hσ in
theorem canonP_addTo {acc : Profile} (hacc : CanonP acc) {k : Ballot} (hk : CanonB k) (x : Rat) :
    CanonP (Convert.addTo acc k x) := by
  induction acc with
  | nil => intro bw hbw; simp only [Convert.addTo, List.mem_singleton] at hbw; subst hbw; exact hk
  | cons e es ih =>
    obtain ⟨q, y⟩ := e
    have ih' := ih (fun b hb => hacc b (List.mem_cons_of_mem _ hb))
    unfold Convert.addTo
    split
    · intro bw hbw
      rcases List.mem_cons.1 hbw with rfl | hbw
      · exact hacc (q, y) (by simp)
      · exact hacc bw (List.mem_cons_of_mem _ hbw)
    · intro bw hbw
      rcases List.mem_cons.1 hbw with rfl | hbw
      · exact hacc (q, y) (by simp)
      · exact ih' bw hbw

theorem subsetFold_ren {S S' : List Cand} (hS : ∀ c, σ c ∈ S' ↔ c ∈ S) : ∀ (l acc : Profile), CanonP l → CanonP acc →
    (renProfileH σ l).foldl (fun a bw => Convert.addTo a (subsetBallot S' bw.1) bw.2) (renProfileH σ acc) =
      renProfileH σ (l.foldl (fun a bw => Convert.addTo a (subsetBallot S bw.1) bw.2) acc) ∧
    CanonP (l.foldl (fun a bw => Convert.addTo a (subsetBallot S bw.1) bw.2) acc) := by
  intro l
  induction l with
  | nil => intro acc _ hacc; exact ⟨rfl, hacc⟩
  | cons bw rest ih =>
    intro acc hl hacc
    have hb : CanonB bw.1 := hl bw (by simp)
    have hsb := canonB_subsetBallot S hb
    simp only [renProfileH, List.map_cons, List.foldl_cons]
    rw [subsetBallot_ren σ hσ hS hb, ← renProfileH, addTo_ren σ hσ hacc hsb]
    exact ih _ (fun b hb' => hl b (List.mem_cons_of_mem _ hb')) (canonP_addTo hacc hsb _)

theorem subsetProfile_ren {S S' : List Cand} (hS : ∀ c, σ c ∈ S' ↔ c ∈ S) {p : Profile} (hp : CanonP p) :
    subsetProfile (renProfileH σ p) S' = renProfileH σ (subsetProfile p S) ∧ CanonP (subsetProfile p S) := by
  rw [subsetProfile_eq, subsetProfile_eq]
  exact subsetFold_ren σ hσ hS p [] hp (fun _ h => by simp at h)

/-- the simulation step: subsetting related profiles by related candidate sets -/
theorem subsetProfile_sim {q q' : Profile} (hq : CanonP q) (hqq : q'.Perm (renProfileH σ q)) {S S' : List Cand}
    (hS : S'.Perm (S.map σ)) :
    (subsetProfile q' S').Perm (renProfileH σ (subsetProfile q S)) ∧ CanonP (subsetProfile q S) := by
  have hS' : ∀ c, σ c ∈ S' ↔ c ∈ S := fun c => by rw [hS.mem_iff, List.mem_map_of_injective hσ]
  obtain ⟨h1, h2⟩ := subsetProfile_ren σ hσ hS' hq
  refine ⟨?_, h2⟩
  rw [← h1]
  exact subsetProfile_perm hqq (fun _ => Iff.rfl)

/-! ### Condorcet winner, Smith/Schwartz set, elimination -/

theorem r2c_sim {q q' : Profile} (hq : CanonP q) (hqq : q'.Perm (renProfileH σ q)) :
    (rankedToCondorcet q').Perm (renPairwise σ (rankedToCondorcet q)) :=
  (r2c_perm hqq).trans (r2c_ren_perm σ hσ hq)

theorem benhamCW_sim {q q' : Profile} (hq : CanonP q) (hqq : q'.Perm (renProfileH σ q)) :
    benhamCW q' = (benhamCW q).map σ := by
  unfold benhamCW
  rw [condorcetWinner_perm (r2c_sim σ hσ hq hqq) (nodup_keys_r2c q'), condorcetWinner_ren σ hσ]
  cases condorcetWinner (rankedToCondorcet q) <;> rfl

theorem smithSchwartz_sim {q q' : Profile} (hq : CanonP q) (hqq : q'.Perm (renProfileH σ q)) (ties : Bool) :
    (smithSchwartz (rankedToCondorcet q') ties).Perm ((smithSchwartz (rankedToCondorcet q) ties).map σ) := by
  have := smithSchwartz_perm (r2c_sim σ hσ hq hqq) (nodup_keys_r2c q') ties
  rwa [smithSchwartz_ren σ hσ] at this

theorem eliminateOneRaw_sim {q q' : Profile} (hq : CanonP q) (hqq : q'.Perm (renProfileH σ q)) :
    ExceptEquiv SlotsEquiv (eliminateOneRaw q') ((eliminateOneRaw q).map (List.map (renSlot σ))) := by
  have ht : (firstPrefTotals q').Perm (renVotes σ (firstPrefTotals q)) :=
    (firstPrefTotals_perm hqq).trans (firstPrefTotals_ren_perm σ hσ hq)
  have hl : (firstPrefTotals q').length = (firstPrefTotals q).length := by
    rw [ht.length_eq]; unfold renVotes; rw [List.length_map]
  unfold eliminateOneRaw
  simp only
  rw [hl]
  match (firstPrefTotals q).length with
  | 0 => exact rfl
  | 1 => exact ⟨[], [], [], [], 0, rfl, rfl, List.Perm.refl _, List.Perm.refl _⟩
  | m + 2 =>
    have := getNBest_perm _ _ ht (m + 1)
    rw [getNBest_rename] at this
    exact this

omit hσ in
theorem anyTie_map_ren (r : List Slot) : (r.map (renSlot σ)).any isTie = r.any isTie := by
  rw [List.any_map]
  congr 1
  funext s
  cases s <;> rfl

/-- `eliminate_one` with its refusal of a tied elimination (fix 30bd79e) -/
theorem eliminateOne_sim {q q' : Profile} (hq : CanonP q) (hqq : q'.Perm (renProfileH σ q)) :
    ExceptEquiv SlotsEquiv (eliminateOne q') ((eliminateOne q).map (List.map (renSlot σ))) := by
  have hr := eliminateOneRaw_sim σ hσ hq hqq
  unfold eliminateOne
  cases h1 : eliminateOneRaw q' <;> cases h2 : eliminateOneRaw q <;> rw [h1, h2] at hr
  · exact hr
  · exact hr.elim
  · exact hr.elim
  · rename_i r' r
    have hr' : SlotsEquiv r' (r.map (renSlot σ)) := hr
    simp only
    rw [length_equiv hr', anyTie_equiv hr', anyTie_map_ren, List.length_map]
    split
    · exact rfl
    · exact hr'

omit hσ in
theorem slotCands_map_ren (r : List Slot) : slotCands (r.map (renSlot σ)) = (slotCands r).map σ := by
  induction r with
  | nil => rfl
  | cons s rest ih =>
    cases s with
    | cand c => simp only [List.map_cons, renSlot, slotCands_cons_cand, ih]
    | tie T => simp only [List.map_cons, renSlot, slotCands_cons_tie, ih]

/-! ### Benham -/

theorem benhamLoop_sim {v v' : Profile} (hv : CanonP v) (hvv : v'.Perm (renProfileH σ v)) :
    ∀ (f : Nat) (cur cur' : Profile), CanonP cur → cur'.Perm (renProfileH σ cur) →
      ExceptEquiv SlotsEquiv (benhamLoop v' f cur') ((benhamLoop v f cur).map (List.map (renSlot σ))) := by
  intro f
  induction f with
  | zero => intro _ _ _ _; exact rfl
  | succ f ih =>
    intro cur cur' hc hcc
    unfold benhamLoop
    rw [benhamCW_sim σ hσ hc hcc]
    cases benhamCW cur with
    | some c => exact slotsEquiv_cands [σ c]
    | none =>
      have he := eliminateOne_sim σ hσ hc hcc
      simp only [Option.map]
      cases h1 : eliminateOne cur' with
      | error e₁ =>
        cases h2 : eliminateOne cur with
        | error e₂ => rw [h1, h2] at he; exact he
        | ok r₂ => rw [h1, h2] at he; exact he.elim
      | ok r' =>
        cases h2 : eliminateOne cur with
        | error e₂ => rw [h1, h2] at he; exact he.elim
        | ok r =>
          rw [h1, h2] at he
          have he' : SlotsEquiv r' (r.map (renSlot σ)) := he
          have hl : r'.length = r.length := by rw [length_equiv he', List.length_map]
          simp only
          rw [hl]
          by_cases h1' : r.length = 1
          · rw [if_pos h1', if_pos h1']; exact he'
          · rw [if_neg h1', if_neg h1']
            have hS : (slotCands r').Perm ((slotCands r).map σ) := by
              rw [← slotCands_map_ren]; exact slotCands_equiv he'
            obtain ⟨hp, hcan⟩ := subsetProfile_sim σ hσ hv hvv hS
            exact ih _ _ hcan hp

/-! ### Tideman alternative -/

theorem tierCont_sim (smith : Bool) (f : Nat)
    (ih : ∀ rv rv' : Profile, CanonP rv → rv'.Perm (renProfileH σ rv) →
      ExceptEquiv (fun s₁ s₂ => SlotsEquiv [s₁] [s₂]) (tidemanTier smith f rv') ((tidemanTier smith f rv).map (renSlot σ)))
    {rv rv' : Profile} (hc : CanonP rv) (hr : rv'.Perm (renProfileH σ rv)) {S S' : List Cand} (hS : S'.Perm (S.map σ)) :
    ExceptEquiv (fun s₁ s₂ => SlotsEquiv [s₁] [s₂]) (tierCont smith f rv' S') ((tierCont smith f rv S).map (renSlot σ)) := by
  unfold tierCont
  obtain ⟨h2, hc2⟩ := subsetProfile_sim σ hσ hc hr hS
  have he := eliminateOne_sim σ hσ hc2 h2
  cases h1 : eliminateOne (subsetProfile rv' S') with
  | error e₁ =>
    cases h2' : eliminateOne (subsetProfile rv S) with
    | error e₂ => rw [h1, h2'] at he; exact he
    | ok r₂ => rw [h1, h2'] at he; exact he.elim
  | ok r' =>
    cases h2' : eliminateOne (subsetProfile rv S) with
    | error e₂ => rw [h1, h2'] at he; exact he.elim
    | ok r =>
      rw [h1, h2'] at he
      have he' : SlotsEquiv r' (r.map (renSlot σ)) := he
      have hl : r'.length = r.length := by rw [length_equiv he', List.length_map]
      have hrec : ExceptEquiv (fun s₁ s₂ => SlotsEquiv [s₁] [s₂])
            (tidemanTier smith f (subsetProfile (subsetProfile rv' S') (slotCands r')))
            ((tidemanTier smith f (subsetProfile (subsetProfile rv S) (slotCands r))).map (renSlot σ)) := by
        have hS2 : (slotCands r').Perm ((slotCands r).map σ) := by
          rw [← slotCands_map_ren]; exact slotCands_equiv he'
        obtain ⟨hp, hcan⟩ := subsetProfile_sim σ hσ hc2 h2 hS2
        exact ih _ _ hcan hp
      match r', r, he', hl, hrec with
      | [], [], _, _, hrec => exact hrec
      | [s₁], [s₂], he', _, _ =>
        have he'' : SlotsEquiv [s₁] [renSlot σ s₂] := he'
        cases s₂ with
        | cand c =>
          rcases slotsEquiv_singleton he'' with ⟨c', rfl, _⟩ | ⟨T₁, T₂, _, hT, _⟩
          · exact he'
          · simp [renSlot] at hT
        | tie T =>
          rcases slotsEquiv_singleton he'' with ⟨c', _, hc'⟩ | ⟨T₁, T₂, rfl, _, _⟩
          · simp [renSlot] at hc'
          · exact rfl
      | a :: b :: t, c :: d :: t', _, _, hrec => cases a <;> cases c <;> exact hrec
      | [], _ :: _, _, hl, _ => simp at hl
      | [_], [], _, hl, _ => simp at hl
      | [_], _ :: _ :: _, _, hl, _ => simp at hl
      | _ :: _ :: _, [], _, hl, _ => simp at hl
      | _ :: _ :: _, [_], _, hl, _ => simp at hl

theorem tierSel_sim (smith : Bool) (f : Nat)
    (ih : ∀ rv rv' : Profile, CanonP rv → rv'.Perm (renProfileH σ rv) →
      ExceptEquiv (fun s₁ s₂ => SlotsEquiv [s₁] [s₂]) (tidemanTier smith f rv') ((tidemanTier smith f rv).map (renSlot σ)))
    {rv rv' : Profile} (hc : CanonP rv) (hr : rv'.Perm (renProfileH σ rv)) {S S' : List Cand} (hS : S'.Perm (S.map σ)) :
    ExceptEquiv (fun s₁ s₂ => SlotsEquiv [s₁] [s₂]) (tierSel smith f rv' S') ((tierSel smith f rv S).map (renSlot σ)) := by
  have hcont := tierCont_sim σ hσ smith f ih hc hr hS
  have hl : S'.length = S.length := by rw [hS.length_eq, List.length_map]
  match S', S, hS, hl, hcont with
  | [], [], _, _, hcont => exact hcont
  | [c'], [c], hS, _, _ =>
    have : [c'] = [σ c] := List.perm_singleton.mp hS
    injection this with hcd _
    subst hcd
    exact slotsEquiv_cands [σ c]
  | a :: b :: t, c :: d :: t', _, _, hcont => exact hcont
  | [], _ :: _, _, hl, _ => simp at hl
  | [_], [], _, hl, _ => simp at hl
  | [_], _ :: _ :: _, _, hl, _ => simp at hl
  | _ :: _ :: _, [], _, hl, _ => simp at hl
  | _ :: _ :: _, [_], _, hl, _ => simp at hl

theorem tidemanTier_sim (smith : Bool) : ∀ (f : Nat) (rv rv' : Profile), CanonP rv → rv'.Perm (renProfileH σ rv) →
    ExceptEquiv (fun s₁ s₂ => SlotsEquiv [s₁] [s₂]) (tidemanTier smith f rv') ((tidemanTier smith f rv).map (renSlot σ)) := by
  intro f
  induction f with
  | zero => intro _ _ _ _; exact rfl
  | succ f ih =>
    intro rv rv' hc hr
    rw [tier_unfold, tier_unfold]
    have hemp : rv'.isEmpty = rv.isEmpty := by
      cases rv with
      | nil => have := hr.eq_nil; subst this; rfl
      | cons a l =>
        cases rv' with
        | nil => exact absurd hr.nil_eq.symm (by simp [renProfileH])
        | cons b l' => rfl
    rw [hemp]
    by_cases hE : rv.isEmpty = true
    · rw [if_pos hE, if_pos hE]; exact rfl
    · rw [if_neg hE, if_neg hE]
      have hS := smithSchwartz_sim σ hσ hc hr smith
      have hSe : (smithSchwartz (rankedToCondorcet rv') smith).isEmpty = (smithSchwartz (rankedToCondorcet rv) smith).isEmpty := by
        cases h3 : smithSchwartz (rankedToCondorcet rv) smith with
        | nil => rw [h3] at hS; rw [hS.eq_nil]
        | cons a l =>
          cases h4 : smithSchwartz (rankedToCondorcet rv') smith with
          | nil => rw [h3, h4] at hS; exact absurd hS.nil_eq.symm (by simp)
          | cons b l' => rfl
      have hset : (tierSet smith rv').Perm ((tierSet smith rv).map σ) := by
        unfold tierSet
        rw [hSe]
        split
        · exact (allRanked_perm hr).trans (allRanked_ren_perm σ hσ hc)
        · exact hS
      exact tierSel_sim σ hσ smith f ih hc hr hset

/-- the lone-candidate test of the repaired evaluators commutes with the renaming -/
theorem lone_ren {rv rv' : Profile} (hc : CanonP rv) (hr : rv'.Perm (renProfileH σ rv)) :
    (∀ c, allRankedCandidates rv = [c] → allRankedCandidates rv' = [σ c]) ∧
    ((∀ c, allRankedCandidates rv ≠ [c]) → ∀ c', allRankedCandidates rv' ≠ [c']) := by
  have hA : (allRankedCandidates rv').Perm ((allRankedCandidates rv).map σ) :=
    (allRanked_perm hr).trans (allRanked_ren_perm σ hσ hc)
  constructor
  · intro c h
    rw [h] at hA
    exact List.perm_singleton.mp hA
  · intro hn c' h
    rw [h] at hA
    have hm := List.perm_singleton.mp hA.symm
    cases hal : allRankedCandidates rv with
    | nil => rw [hal] at hm; simp at hm
    | cons a l =>
      rw [hal] at hm
      cases l with
      | nil => exact hn a hal
      | cons b l' => simp at hm

theorem tidemanRunTier_sim (smith : Bool) (f : Nat) (rv rv' : Profile) (hc : CanonP rv) (hr : rv'.Perm (renProfileH σ rv)) :
    ExceptEquiv (fun s₁ s₂ => SlotsEquiv [s₁] [s₂]) (tidemanRunTier smith f rv') ((tidemanRunTier smith f rv).map (renSlot σ)) := by
  obtain ⟨hl1, hl2⟩ := lone_ren σ hσ hc hr
  by_cases hl : ∃ c, allRankedCandidates rv = [c]
  · obtain ⟨c, hcc⟩ := hl
    unfold tidemanRunTier
    rw [hcc, hl1 c hcc]
    exact slotsEquiv_single_cand (σ c)
  · have h1 : ∀ c, allRankedCandidates rv ≠ [c] := fun c e => hl ⟨c, e⟩
    rw [tidemanRunTier_of_not_lone h1, tidemanRunTier_of_not_lone (hl2 h1)]
    exact tidemanTier_sim σ hσ smith f rv rv' hc hr

end

end VL.Perm.Hyb

namespace VL.Perm
open VL VL.Condorcet VL.C10

/-- **Benham: renaming equivariance** (shared ranks in canonical ascending form): the same exception, or the renamed
    selection up to `SlotsEquiv` -/
theorem benham_ren (σ : Cand → Cand) (hσ : Function.Injective σ) {p : Profile} (hp : Hyb.CanonP p) :
    ExceptEquiv SlotsEquiv (benham (Hyb.renProfileH σ p)) ((benham p).map (List.map (renSlot σ))) := by
  obtain ⟨hl1, hl2⟩ := Hyb.lone_ren σ hσ hp (List.Perm.refl _)
  by_cases hl : ∃ c, allRankedCandidates p = [c]
  · obtain ⟨c, hc⟩ := hl
    rw [benham_lone hc, benham_lone (hl1 c hc)]
    exact slotsEquiv_single_cand (σ c)
  · have h1 : ∀ c, allRankedCandidates p ≠ [c] := fun c e => hl ⟨c, e⟩
    rw [benham_of_not_lone h1, benham_of_not_lone (hl2 h1)]
    unfold benhamCore
    rw [(Hyb.allRanked_ren_perm σ hσ hp).length_eq, List.length_map]
    exact Hyb.benhamLoop_sim σ hσ hp (List.Perm.refl _) _ _ _ hp (List.Perm.refl _)

/-- **Tideman alternative (Smith or Schwartz): renaming equivariance** (shared ranks in canonical ascending form):
    literally the renamed result, or the same exception -/
theorem tideman_ren (σ : Cand → Cand) (hσ : Function.Injective σ) (smith : Bool) {p : Profile} (hp : Hyb.CanonP p) :
    tideman smith (Hyb.renProfileH σ p) = (tideman smith p).map (List.map (renSlot σ)) := by
  unfold tideman
  rw [(Hyb.allRanked_ren_perm σ hσ hp).length_eq, List.length_map]
  have ht := Hyb.tidemanRunTier_sim σ hσ smith ((allRankedCandidates p).length + 3) p _ hp (List.Perm.refl _)
  have hcont : ∀ c, (allRankedCandidates (Hyb.renProfileH σ p)).contains (σ c) = (allRankedCandidates p).contains c := by
    intro c
    rw [Bool.eq_iff_iff, List.contains_iff_mem, List.contains_iff_mem, (Hyb.allRanked_ren_perm σ hσ hp).mem_iff,
      List.mem_map_of_injective hσ]
  cases h1 : tidemanRunTier smith ((allRankedCandidates p).length + 3) (Hyb.renProfileH σ p) with
  | error e₁ =>
    cases h2 : tidemanRunTier smith ((allRankedCandidates p).length + 3) p with
    | error e₂ =>
      rw [h1, h2] at ht
      have : e₁ = e₂ := ht
      rw [this]; rfl
    | ok s₂ => rw [h1, h2] at ht; exact ht.elim
  | ok s₁ =>
    cases h2 : tidemanRunTier smith ((allRankedCandidates p).length + 3) p with
    | error e₂ => rw [h1, h2] at ht; exact ht.elim
    | ok s₂ =>
      rw [h1, h2] at ht
      have ht' : SlotsEquiv [s₁] [renSlot σ s₂] := ht
      cases s₂ with
      | cand c =>
        rcases Hyb.slotsEquiv_singleton ht' with ⟨c', rfl, hc'⟩ | ⟨T₁, T₂, _, hT, _⟩
        · simp only [renSlot, Slot.cand.injEq] at hc'
          subst hc'
          simp only [hcont]
          split <;> rfl
        · simp [renSlot] at hT
      | tie T =>
        rcases Hyb.slotsEquiv_singleton ht' with ⟨c', _, hc'⟩ | ⟨T₁, T₂, rfl, _, _⟩
        · simp [renSlot] at hc'
        · rfl

/-- the same statement in the shared vocabulary of C10 -/
theorem tideman_ren_equiv (σ : Cand → Cand) (hσ : Function.Injective σ) (smith : Bool) {p : Profile} (hp : Hyb.CanonP p) :
    ExceptEquiv SlotsEquiv (tideman smith (Hyb.renProfileH σ p)) ((tideman smith p).map (List.map (renSlot σ))) := by
  apply exceptEquiv_of_eq_cands (tideman_ren σ hσ smith hp)
  intro r hr
  unfold tideman at hr
  split at hr
  · cases hr
  · split at hr
    · injection hr with hr; subst hr; rename_i c _ _; exact ⟨[c], rfl⟩
    · cases hr
  · cases hr

example : Hyb.CanonP [([RankItem.shared [0, 2], .one 1], (2 : Rat)), ([.one 1, .shared [0, 2]], 1), ([.one 2, .one 0], 2)] := by
  decide +kernel

example : Function.Injective (fun c : Cand => c + 5) := fun _ _ h => Nat.add_right_cancel h

end VL.Perm
