/-
  C10: `PureProportionality` commutes with every injective renaming of the parties (votes, previous gains and caps renamed):
  the renamed dict in the same insertion order.  The adapter `_PureConstrained` (VotelibModel/PureConstrained.lean) chooses its
  cap and its floor from the vote values only, hence it is order independent and renaming equivariant as well.
-/
import VotelibProofs.Lemmas.PermPure
import VotelibProofs.Lemmas.ScaleCondorcet
namespace VL.Perm.PureL
open VL VL.Pure VL.C10 VL.Perm

section
variable (σ : Cand → Cand) (hσ : Function.Injective σ)
include hσ

theorem pgetI_ren (m : IMap) (c : Cand) (d : Int) : Pure.getI (renI σ m) (σ c) d = Pure.getI m c d := by
  unfold Pure.getI renI
  induction m with
  | nil => rfl
  | cons x xs ih =>
    simp only [List.map_cons, List.find?_cons]
    by_cases hx : x.1 = c
    · simp [hx]
    · have : σ x.1 ≠ σ c := fun h => hx (hσ h)
      simp only [hx, this, decide_false]
      exact ih

theorem pgetCap_ren (m : IMap) (c : Cand) : Pure.getCap (renI σ m) (σ c) = Pure.getCap m c := by
  unfold Pure.getCap renI
  induction m with
  | nil => rfl
  | cons x xs ih =>
    simp only [List.map_cons, List.find?_cons]
    by_cases hx : x.1 = c
    · simp [hx]
    · have : σ x.1 ≠ σ c := fun h => hx (hσ h)
      simp only [hx, this, decide_false]
      exact ih

theorem setR_ren (r : Votes) (c : Cand) (x : Rat) : setR (renVotes σ r) (σ c) x = renVotes σ (setR r c x) := by
  induction r with
  | nil => rfl
  | cons e rest ih =>
    have e1 : renVotes σ (e :: rest) = (σ e.1, e.2) :: renVotes σ rest := rfl
    rw [e1]
    unfold setR
    by_cases h : e.1 = c
    · rw [if_pos h, if_pos (by rw [h])]; rfl
    · rw [if_neg h, if_neg (fun hh => h (hσ hh)), ih]; rfl

/-- the renamed loop state -/
def renSt (st : St) : St := (st.1.map σ, renVotes σ st.2)

omit hσ in
theorem renVotes_append (a b : Votes) : renVotes σ (a ++ b) = renVotes σ a ++ renVotes σ b := by
  unfold renVotes; rw [List.map_append]

theorem passStep_ren (spv : Rat) (prev maxS : IMap) (st : St) (p : Cand × Rat) :
    passStep spv (renI σ prev) (renI σ maxS) (renSt σ st) (σ p.1, p.2) = renSt σ (passStep spv prev maxS st p) := by
  unfold passStep renSt
  simp only [pgetI_ren σ hσ, pgetCap_ren σ hσ, setR_ren σ hσ]
  split
  · cases Pure.getCap maxS p.1 with
    | none => rfl
    | some m =>
      simp only
      split
      · simp [List.map_append]
      · rfl
  · simp [List.map_append]

theorem filter_mem_ren (r : Votes) (fixed : List Cand) :
    (renVotes σ r).filter (fun e => decide (e.1 ∈ fixed.map σ)) = renVotes σ (r.filter (fun e => decide (e.1 ∈ fixed))) := by
  unfold renVotes
  rw [List.filter_map]
  congr 1
  apply List.filter_congr
  intro e _
  simp only [Function.comp, List.mem_map_of_injective hσ]

theorem filter_notMem_ren (r : Votes) (fixed : List Cand) :
    (renVotes σ r).filter (fun e => decide (e.1 ∉ fixed.map σ)) = renVotes σ (r.filter (fun e => decide (e.1 ∉ fixed))) := by
  unfold renVotes
  rw [List.filter_map]
  congr 1
  apply List.filter_congr
  intro e _
  simp only [Function.comp, List.mem_map_of_injective hσ]

theorem pureLoop_ren (votes : Votes) (n : Nat) (prev maxS : IMap) : ∀ (f : Nat) (fixed : List Cand) (result : Votes) (prevLen : Int),
    pureLoop (renVotes σ votes) n (renI σ prev) (renI σ maxS) f (fixed.map σ) (renVotes σ result) prevLen =
      (pureLoop votes n prev maxS f fixed result prevLen).map (renVotes σ) := by
  intro f
  induction f with
  | zero => intro _ _ _; rfl
  | succ f ih =>
    intro fixed result prevLen
    simp only [pureLoop]
    rw [List.length_map, filter_mem_ren σ hσ, filter_notMem_ren σ hσ, sumVals_ren, sumVals_ren]
    split
    · rfl
    · split
      · rfl
      · have hfold := VL.Scale.foldl_simMap (renSt σ)
          (passStep (((n : Rat) - sumVals (result.filter (fun e => decide (e.1 ∈ fixed)))) /
            sumVals (votes.filter (fun p => decide (p.1 ∉ fixed)))) prev maxS)
          (passStep (((n : Rat) - sumVals (result.filter (fun e => decide (e.1 ∈ fixed)))) /
            sumVals (votes.filter (fun p => decide (p.1 ∉ fixed)))) (renI σ prev) (renI σ maxS))
          (fun p : Cand × Rat => (σ p.1, p.2)) (fun s p => passStep_ren σ hσ _ prev maxS s p)
          (votes.filter (fun p => decide (p.1 ∉ fixed))) (fixed, result.filter (fun e => decide (e.1 ∈ fixed)))
        have hst : renSt σ (fixed, result.filter (fun e => decide (e.1 ∈ fixed))) =
            (fixed.map σ, renVotes σ (result.filter (fun e => decide (e.1 ∈ fixed)))) := rfl
        rw [hst] at hfold
        have hmap : (votes.filter (fun p => decide (p.1 ∉ fixed))).map (fun p : Cand × Rat => (σ p.1, p.2)) =
            renVotes σ (votes.filter (fun p => decide (p.1 ∉ fixed))) := rfl
        rw [hmap] at hfold
        rw [hfold]
        exact ih _ _ _

end

end VL.Perm.PureL

namespace VL.Perm
open VL VL.Pure VL.C10 VL.Perm.PureL VL.PureC

/-- **PureProportionality: renaming equivariance** for every injective renaming -/
theorem pureProportionality_ren (σ : Cand → Cand) (hσ : Function.Injective σ) (votes : Votes) (n : Nat) (prev maxS : IMap) :
    pureProportionality (renVotes σ votes) n (renI σ prev) (renI σ maxS) =
      (pureProportionality votes n prev maxS).map (renVotes σ) := by
  unfold pureProportionality
  have hl : (renVotes σ votes).length = votes.length := by unfold renVotes; simp
  have h := pureLoop_ren σ hσ votes n prev maxS (votes.length + 2) [] [] (-1)
  rw [hl]
  have e0 : ([] : List Cand).map σ = [] := rfl
  have e1 : renVotes σ [] = [] := rfl
  rw [e0, e1] at h
  rw [h]
  cases pureLoop votes n prev maxS (votes.length + 2) [] [] (-1) with
  | error e => rfl
  | ok r =>
    simp only [Except.map]
    congr 1
    unfold renVotes
    rw [List.map_map, List.map_map]
    apply List.map_congr_left
    intro e _
    simp only [Function.comp, pgetI_ren σ hσ]

/-! ### the adapter `_PureConstrained` -/

theorem countWith_perm {v₁ v₂ : Votes} (h : v₁.Perm v₂) (x : Rat) : countWith v₁ x = countWith v₂ x := (h.filter _).length_eq

theorem firstWith_perm {v₁ v₂ : Votes} (h : v₁.Perm v₂) (x : Rat) (hu : countWith v₁ x = 1) : firstWith v₁ x = firstWith v₂ x := by
  unfold firstWith
  rw [find?_perm_of_unique h (P := fun p => decide (p.2 = x))]
  intro a ha b hb pa pb
  unfold countWith at hu
  obtain ⟨y, hy⟩ := List.length_eq_one_iff.mp hu
  have ma : a ∈ v₁.filter (fun p => decide (p.2 = x)) := List.mem_filter.mpr ⟨ha, pa⟩
  have mb : b ∈ v₁.filter (fun p => decide (p.2 = x)) := List.mem_filter.mpr ⟨hb, pb⟩
  rw [hy] at ma mb
  rw [List.mem_singleton.mp ma, List.mem_singleton.mp mb]

theorem minQ_perm {v₁ v₂ : Votes} (h : v₁.Perm v₂) : minQ v₁ = minQ v₂ := by
  unfold minQ; rw [maxQ_perm (h.map _)]

theorem capsOf_perm {v₁ v₂ : Votes} (h : v₁.Perm v₂) (n : Nat) : capsOf v₁ n = capsOf v₂ n := by
  unfold capsOf
  simp only
  rw [sumVals_perm h, h.length_eq, maxQ_perm h]
  split
  · cases maxQ v₂ with
    | none => rfl
    | some mx =>
      simp only
      rw [countWith_perm h]
      split
      · rename_i hc
        rw [firstWith_perm h mx (by rw [countWith_perm h]; exact hc)]
      · rfl
  · rfl

theorem prevOf_perm {v₁ v₂ : Votes} (h : v₁.Perm v₂) (n : Nat) : prevOf v₁ n = prevOf v₂ n := by
  unfold prevOf
  simp only
  rw [sumVals_perm h, h.length_eq, minQ_perm h]
  split
  · cases minQ v₂ with
    | none => rfl
    | some mn =>
      simp only
      rw [countWith_perm h]
      split
      · rename_i hc
        rw [firstWith_perm h mn (by rw [countWith_perm h]; exact hc)]
      · rfl
  · rfl

/-- **PureProportionality with a value-derived cap and floor: ballot-order independence** -/
theorem pureConstrained_perm {v₁ v₂ : Votes} (hv : v₁.Perm v₂) (hnd : (v₁.map (·.1)).Nodup) (n : Nat) :
    ExceptEquiv List.Perm (pureConstrained v₁ n) (pureConstrained v₂ n) := by
  unfold pureConstrained
  rw [capsOf_perm hv, prevOf_perm hv]
  exact pureProportionality_perm hv hnd n _ _

theorem countWith_ren (σ : Cand → Cand) (v : Votes) (x : Rat) : countWith (renVotes σ v) x = countWith v x := by
  unfold countWith renVotes
  rw [List.filter_map, List.length_map]
  rfl

theorem firstWith_ren (σ : Cand → Cand) (v : Votes) (x : Rat) : firstWith (renVotes σ v) x = (firstWith v x).map σ := by
  unfold firstWith renVotes
  rw [List.find?_map]
  have : ((fun p : Cand × Rat => decide (p.2 = x)) ∘ fun p : Cand × Rat => (σ p.1, p.2)) = fun p => decide (p.2 = x) := rfl
  rw [this]
  cases v.find? (fun p => decide (p.2 = x)) <;> rfl

theorem minQ_ren (σ : Cand → Cand) (v : Votes) : minQ (renVotes σ v) = minQ v := by
  unfold minQ
  have : (renVotes σ v).map (fun p => (p.1, -p.2)) = (v.map (fun p => (p.1, -p.2))).map (fun p => (σ p.1, p.2)) := by
    unfold renVotes; rw [List.map_map, List.map_map]; rfl
  rw [this, maxQ_ren]

theorem capsOf_ren (σ : Cand → Cand) (v : Votes) (n : Nat) : capsOf (renVotes σ v) n = renI σ (capsOf v n) := by
  unfold capsOf
  simp only
  have hl : (renVotes σ v).length = v.length := by unfold renVotes; simp
  have hm : maxQ (renVotes σ v) = maxQ v := maxQ_ren σ v
  rw [sumVals_ren, hl, hm]
  split
  · cases maxQ v with
    | none => rfl
    | some mx =>
      simp only
      rw [countWith_ren, firstWith_ren]
      split
      · cases firstWith v mx <;> rfl
      · rfl
  · rfl

theorem prevOf_ren (σ : Cand → Cand) (v : Votes) (n : Nat) : prevOf (renVotes σ v) n = renI σ (prevOf v n) := by
  unfold prevOf
  simp only
  have hl : (renVotes σ v).length = v.length := by unfold renVotes; simp
  rw [sumVals_ren, hl, minQ_ren]
  split
  · cases minQ v with
    | none => rfl
    | some mn =>
      simp only
      rw [countWith_ren, firstWith_ren]
      split
      · cases firstWith v mn <;> rfl
      · rfl
  · rfl

/-- **PureProportionality with a value-derived cap and floor: renaming equivariance** -/
theorem pureConstrained_ren (σ : Cand → Cand) (hσ : Function.Injective σ) (v : Votes) (n : Nat) :
    pureConstrained (renVotes σ v) n = (pureConstrained v n).map (renVotes σ) := by
  unfold pureConstrained
  rw [capsOf_ren, prevOf_ren]
  exact pureProportionality_ren σ hσ v n _ _

end VL.Perm
