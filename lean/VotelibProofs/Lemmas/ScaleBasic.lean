/-
  Basic facts about scaling a dict of votes by a positive rational: the sorts commute with the scaling, sums scale.
  (used by the C11 scale-invariance theorems of the threshold / quota families)
-/
import VotelibProofs.Lemmas.HAScale
import VotelibProofs.Lemmas.Sort
import Mathlib.Algebra.Order.Field.Basic
import Mathlib.Algebra.Order.Ring.Rat
import Mathlib.Tactic.Ring
namespace VL.Scale
open VL

theorem insertDesc_scale (k : Rat) (hk : 0 < k) (x : Cand × Rat) (l : Votes) :
    insertDesc (x.1, k * x.2) (scaleVotes k l) = scaleVotes k (insertDesc x l) := by
  unfold scaleVotes
  induction l with
  | nil => simp [insertDesc]
  | cons y ys ih =>
    simp only [List.map_cons, insertDesc]
    by_cases hlt : x.2 < y.2
    · rw [if_pos (mul_lt_mul_of_pos_left hlt hk), if_pos hlt, ih]; rfl
    · rw [if_neg (fun h => hlt (lt_of_mul_lt_mul_left h (le_of_lt hk))), if_neg hlt]; rfl

theorem sortDesc_scale (k : Rat) (hk : 0 < k) (l : Votes) :
    sortDesc (scaleVotes k l) = scaleVotes k (sortDesc l) := by
  induction l with
  | nil => rfl
  | cons x xs ih =>
    show insertDesc (x.1, k * x.2) (sortDesc (scaleVotes k xs)) = _
    rw [ih, insertDesc_scale k hk]; rfl

theorem insertAsc_scale (k : Rat) (hk : 0 < k) (x : Cand × Rat) (l : Votes) :
    insertAsc (x.1, k * x.2) (scaleVotes k l) = scaleVotes k (insertAsc x l) := by
  unfold scaleVotes
  induction l with
  | nil => simp [insertAsc]
  | cons y ys ih =>
    simp only [List.map_cons, insertAsc]
    by_cases hlt : y.2 < x.2
    · rw [if_pos (mul_lt_mul_of_pos_left hlt hk), if_pos hlt, ih]; rfl
    · rw [if_neg (fun h => hlt (lt_of_mul_lt_mul_left h (le_of_lt hk))), if_neg hlt]; rfl

theorem sortAsc_scale (k : Rat) (hk : 0 < k) (l : Votes) :
    sortAsc (scaleVotes k l) = scaleVotes k (sortAsc l) := by
  induction l with
  | nil => rfl
  | cons x xs ih =>
    show insertAsc (x.1, k * x.2) (sortAsc (scaleVotes k xs)) = _
    rw [ih, insertAsc_scale k hk]; rfl

theorem sumVals_scale (k : Rat) (votes : Votes) : sumVals (scaleVotes k votes) = k * sumVals votes := by
  unfold sumVals scaleVotes
  have : ∀ (l : Votes) (a : Rat), List.foldl (fun acc p => acc + p.2) (k * a) (l.map (fun p => (p.1, k * p.2)))
      = k * List.foldl (fun acc p => acc + p.2) a l := by
    intro l
    induction l with
    | nil => intro a; rfl
    | cons x xs ih => intro a; simp only [List.map_cons, List.foldl_cons]; rw [← mul_add, ih]
  have h0 := this votes 0
  rw [mul_zero] at h0
  exact h0

theorem keys_scale (k : Rat) (votes : Votes) : keys (scaleVotes k votes) = keys votes := by
  unfold keys scaleVotes; simp [List.map_map, Function.comp_def]

theorem scaleVotes_length (k : Rat) (votes : Votes) : (scaleVotes k votes).length = votes.length := by
  unfold scaleVotes; simp

theorem scaleVotes_isEmpty (k : Rat) (votes : Votes) : (scaleVotes k votes).isEmpty = votes.isEmpty := by
  cases votes <;> rfl

theorem getD_scale (k : Rat) (votes : Votes) (c : Cand) : getD (scaleVotes k votes) c 0 = k * getD votes c 0 := by
  unfold getD; rw [lookup_scale]; cases lookup votes c <;> simp

/-- a filter whose condition is invariant commutes with the scaling, and the keys are unchanged -/
theorem filter_scale_keys (k : Rat) (P Q : Cand × Rat → Bool) (l : Votes)
    (h : ∀ p ∈ l, P (p.1, k * p.2) = Q p) :
    ((scaleVotes k l).filter P).map (·.1) = (l.filter Q).map (·.1) := by
  unfold scaleVotes
  induction l with
  | nil => rfl
  | cons x xs ih =>
    have hx := h x (List.mem_cons_self)
    have ih' := ih (fun p hp => h p (List.mem_cons_of_mem _ hp))
    simp only [List.map_cons, List.filter_cons, hx]
    cases Q x <;> simp [ih']

theorem filter_scale (k : Rat) (P Q : Cand × Rat → Bool) (l : Votes)
    (h : ∀ p ∈ l, P (p.1, k * p.2) = Q p) :
    (scaleVotes k l).filter P = scaleVotes k (l.filter Q) := by
  unfold scaleVotes
  induction l with
  | nil => rfl
  | cons x xs ih =>
    have hx := h x (List.mem_cons_self)
    have ih' := ih (fun p hp => h p (List.mem_cons_of_mem _ hp))
    simp only [List.map_cons, List.filter_cons, hx]
    cases Q x <;> simp [ih']

end VL.Scale
