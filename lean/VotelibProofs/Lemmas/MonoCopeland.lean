/-
  C17 helper lemmas: pairwise matrices in which only the entries of `w` improve (`Raised`), and Copeland scores.
-/
import VotelibProofs.Lemmas.CondorcetWinner
import VotelibProofs.Lemmas.MonoNBest
import VotelibModel.CondorcetEval
namespace VL.Mono
open VL VL.Condorcet VL.Convert

/-- the pairwise counts of `v'` differ from those of `v` only in that entries `d(w, ·)` do not fall and entries
    `d(·, w)` do not rise -/
structure Raised (v v' : Pairwise) (w : Cand) : Prop where
  up : ∀ y, pget v (w, y) ≤ pget v' (w, y)
  down : ∀ y, pget v' (y, w) ≤ pget v (y, w)
  same : ∀ x y, x ≠ w → y ≠ w → pget v' (x, y) = pget v (x, y)

theorem Raised.beats_w {v v' : Pairwise} {w : Cand} (h : Raised v v' w) {y : Cand} (hb : Beats v w y) : Beats v' w y := by
  unfold Beats at *
  have := h.up y; have := h.down y; linarith

theorem Raised.beats_to_w {v v' : Pairwise} {w : Cand} (h : Raised v v' w) {y : Cand} (hb : Beats v' y w) : Beats v y w := by
  unfold Beats at *
  have := h.up y; have := h.down y; linarith

theorem Raised.beats_same {v v' : Pairwise} {w : Cand} (h : Raised v v' w) {x y : Cand} (hx : x ≠ w) (hy : y ≠ w) :
    Beats v' x y ↔ Beats v x y := by
  unfold Beats; rw [h.same x y hx hy, h.same y x hy hx]

/-! ### Copeland scores as counts -/

theorem getD_incr (d : Votes) (a : Cand) (k : Rat) (c : Cand) :
    getD (incr d a k) c 0 = getD d c 0 + (if c = a then k else 0) := by
  unfold getD
  rw [lookup_incr]
  by_cases h : c = a
  · subst h; simp
  · simp [h]

theorem getD_copelandFold (wins : List Pair) (d : Votes) (c : Cand) :
    getD (wins.foldl (fun d w => incr (incr d w.1 1) w.2 (-1)) d) c 0
      = getD d c 0 + (winsBy wins c : Rat) - (lossesOf wins c : Rat) := by
  induction wins generalizing d with
  | nil => simp [winsBy, lossesOf]
  | cons w ws ih =>
    rw [List.foldl_cons, ih, getD_incr, getD_incr, winsBy_cons, lossesOf_cons]
    push_cast
    by_cases h1 : c = w.1 <;> by_cases h2 : c = w.2 <;>
      simp [h1, h2, eq_comm] <;> ring_nf
    all_goals (first | rfl | (simp_all [eq_comm]; try ring))

/-- Copeland score of `c`: pairwise wins minus pairwise losses -/
def cscore (v : Pairwise) (c : Cand) : Rat :=
  (winsBy (pairwiseWins v false) c : Rat) - (lossesOf (pairwiseWins v false) c : Rat)

theorem getD_copelandRaw (v : Pairwise) (c : Cand) : getD (copelandScoresRaw (pairwiseWins v false)) c 0 = cscore v c := by
  unfold copelandScoresRaw cscore
  rw [getD_copelandFold]
  simp [getD, lookup]

theorem toFun_map_fn (l : List Cand) (hl : l.Nodup) (f : Cand → Rat) (k : Cand) (hk : k ∈ l) :
    toFun (l.map (fun c => (c, f c))) k = f k := by
  induction l with
  | nil => simp at hk
  | cons a t ih =>
    rw [List.map_cons, toFun_cons]
    simp only
    rw [List.nodup_cons] at hl
    rcases List.mem_cons.mp hk with rfl | hk'
    · rw [if_pos rfl]
      have : toFun (t.map (fun c => (c, f c))) k = 0 := by
        apply toFun_eq_zero_of_not_mem
        simp only [dkeys, List.map_map, Function.comp_def, List.map_id']
        exact hl.1
      rw [this]; ring
    · rw [if_neg (by rintro rfl; exact hl.1 hk'), ih hl.2 hk']; ring

theorem keys_seeded (v : Pairwise) (raw : Votes) : keys (seededScores v raw) = candidates v := by
  simp [seededScores, keys, List.map_map, Function.comp_def]

theorem toFun_seeded (v : Pairwise) (c : Cand) (hc : c ∈ candidates v) :
    toFun (seededScores v (copelandScoresRaw (pairwiseWins v false))) c = cscore v c := by
  unfold seededScores
  rw [toFun_map_fn _ (nodup_candidates v) _ c hc, getD_copelandRaw]

/-! ### counting under `Raised` -/

theorem length_le_of_subset {α : Type} [DecidableEq α] {A B : List α} (hA : A.Nodup) (h : ∀ x ∈ A, x ∈ B) :
    A.length ≤ B.length := (List.subperm_of_subset hA h).length_le

theorem winsBy_le {v v' : Pairwise} (hwf : WF v) (hwf' : WF v') {w : Cand} (h : Raised v v' w) :
    (∀ y, y ≠ w → winsBy (pairwiseWins v' false) y ≤ winsBy (pairwiseWins v false) y) ∧
    (∀ y, y ≠ w → lossesOf (pairwiseWins v false) y ≤ lossesOf (pairwiseWins v' false) y) ∧
    winsBy (pairwiseWins v false) w ≤ winsBy (pairwiseWins v' false) w ∧
    lossesOf (pairwiseWins v' false) w ≤ lossesOf (pairwiseWins v false) w := by
  have hn := nodup_pairwiseWins hwf false
  have hn' := nodup_pairwiseWins hwf' false
  refine ⟨fun y hy => ?_, fun y hy => ?_, ?_, ?_⟩
  · unfold winsBy
    apply length_le_of_subset (hn'.filter _)
    rintro ⟨a, b⟩ hab
    simp only [List.mem_filter, decide_eq_true_eq] at hab ⊢
    obtain ⟨hm, rfl⟩ := hab
    refine ⟨?_, rfl⟩
    rw [mem_pairwiseWins hwf'] at hm
    rw [mem_pairwiseWins hwf]
    by_cases hb : b = w
    · subst hb; exact h.beats_to_w hm
    · exact (h.beats_same hy hb).mp hm
  · unfold lossesOf
    apply length_le_of_subset (hn.filter _)
    rintro ⟨a, b⟩ hab
    simp only [List.mem_filter, decide_eq_true_eq] at hab ⊢
    obtain ⟨hm, rfl⟩ := hab
    refine ⟨?_, rfl⟩
    rw [mem_pairwiseWins hwf] at hm
    rw [mem_pairwiseWins hwf']
    by_cases ha : a = w
    · subst ha; exact h.beats_w hm
    · exact (h.beats_same ha hy).mpr hm
  · unfold winsBy
    apply length_le_of_subset (hn.filter _)
    rintro ⟨a, b⟩ hab
    simp only [List.mem_filter, decide_eq_true_eq] at hab ⊢
    obtain ⟨hm, rfl⟩ := hab
    refine ⟨?_, rfl⟩
    rw [mem_pairwiseWins hwf] at hm
    rw [mem_pairwiseWins hwf']
    exact h.beats_w hm
  · unfold lossesOf
    apply length_le_of_subset (hn'.filter _)
    rintro ⟨a, b⟩ hab
    simp only [List.mem_filter, decide_eq_true_eq] at hab ⊢
    obtain ⟨hm, rfl⟩ := hab
    refine ⟨?_, rfl⟩
    rw [mem_pairwiseWins hwf'] at hm
    rw [mem_pairwiseWins hwf]
    exact h.beats_to_w hm

theorem cscore_mono {v v' : Pairwise} (hwf : WF v) (hwf' : WF v') {w : Cand} (h : Raised v v' w) :
    (∀ y, y ≠ w → cscore v' y ≤ cscore v y) ∧ cscore v w ≤ cscore v' w := by
  obtain ⟨h1, h2, h3, h4⟩ := winsBy_le hwf hwf' h
  unfold cscore
  refine ⟨fun y hy => ?_, ?_⟩
  · have a : (winsBy (pairwiseWins v' false) y : Rat) ≤ winsBy (pairwiseWins v false) y := by exact_mod_cast h1 y hy
    have b : (lossesOf (pairwiseWins v false) y : Rat) ≤ lossesOf (pairwiseWins v' false) y := by exact_mod_cast h2 y hy
    linarith
  · have a : (winsBy (pairwiseWins v false) w : Rat) ≤ winsBy (pairwiseWins v' false) w := by exact_mod_cast h3
    have b : (lossesOf (pairwiseWins v' false) w : Rat) ≤ lossesOf (pairwiseWins v false) w := by exact_mod_cast h4
    linarith

theorem copeland_no_tie {v : Pairwise} {w : Cand} {so : Bool}
    (h : getNBest (seededScores v (copelandScoresRaw (pairwiseWins v false))) 1 = [Slot.cand w]) :
    copeland so v 1 = [Slot.cand w] := by
  unfold copeland
  simp only [h]
  simp [isTie]

end VL.Mono
