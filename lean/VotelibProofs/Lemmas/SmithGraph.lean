/-
  Pure graph theory, independent of the code: for an asymmetric "beats" relation `B` on a finite list of
  candidates, the reachability characterisations are the textbook sets —
  * Smith: the candidates that reach everybody through "is not beaten by" steps are the least non-empty
    dominating set (every member beats every outsider);
  * Schwartz: the candidates that reach back everybody reaching them through "beats" steps are the union
    of the minimal non-empty undominated sets (no outsider beats a member).
-/
import VotelibModel.Core
import Mathlib.Logic.Relation
import Mathlib.Tactic.ByContra
namespace VL.Graph
open VL Relation

variable (cands : List Cand) (B : Cand → Cand → Prop)

/-- `a` is not beaten by `b` (two distinct candidates) -/
def NB (a b : Cand) : Prop := a ∈ cands ∧ b ∈ cands ∧ a ≠ b ∧ ¬ B b a
/-- `a` beats `b` (two distinct candidates) -/
def BB (a b : Cand) : Prop := a ∈ cands ∧ b ∈ cands ∧ a ≠ b ∧ B a b

/-- Smith set by reachability -/
def SmithReach (c : Cand) : Prop := c ∈ cands ∧ ∀ o ∈ cands, o ≠ c → TransGen (NB cands B) c o
/-- Schwartz set by reachability -/
def SchwartzReach (c : Cand) : Prop :=
  c ∈ cands ∧ ∀ o ∈ cands, o ≠ c → TransGen (BB cands B) o c → TransGen (BB cands B) c o

/-- a set of candidates each of whose members beats every outsider -/
def Dominating (S : Cand → Prop) : Prop :=
  (∀ s, S s → s ∈ cands) ∧ ∀ s o, S s → o ∈ cands → ¬ S o → B s o
/-- a set of candidates no member of which is beaten by an outsider -/
def Undominated (S : Cand → Prop) : Prop :=
  (∀ s, S s → s ∈ cands) ∧ ∀ s o, S s → o ∈ cands → ¬ S o → ¬ B o s
/-- ⊆-minimal among the non-empty undominated sets -/
def MinimalUndominated (S : Cand → Prop) : Prop :=
  Undominated cands B S ∧ (∃ s, S s) ∧
    ∀ T : Cand → Prop, Undominated cands B T → (∃ t, T t) → (∀ x, T x → S x) → ∀ x, S x → T x

variable {cands B}

theorem smithReach_dominating : Dominating cands B (SmithReach cands B) := by
  refine ⟨fun s hs => hs.1, ?_⟩
  intro s o hs ho hno
  by_contra hb
  apply hno
  have hso : o ≠ s := by rintro rfl; exact hno hs
  have h1 : NB cands B o s := ⟨ho, hs.1, hso, hb⟩
  refine ⟨ho, fun x hx hxo => ?_⟩
  by_cases hxs : x = s
  · subst hxs; exact TransGen.single h1
  · exact TransGen.trans (TransGen.single h1) (hs.2 x hx hxs)

theorem smithReach_nonempty_aux (hasym : ∀ a b, B a b → ¬ B b a) (l : List Cand) (hl : ∀ x ∈ l, x ∈ cands)
    (hne : l ≠ []) : ∃ c ∈ l, ∀ o ∈ l, o ≠ c → TransGen (NB cands B) c o := by
  induction l with
  | nil => exact absurd rfl hne
  | cons x xs ih =>
    by_cases hxs : xs = []
    · subst hxs
      exact ⟨x, by simp, by simp⟩
    · obtain ⟨c, hc, hreach⟩ := ih (fun y hy => hl y (List.mem_cons_of_mem _ hy)) hxs
      by_cases hcx : c = x ∨ TransGen (NB cands B) c x
      · refine ⟨c, List.mem_cons_of_mem _ hc, fun o ho hoc => ?_⟩
        rcases List.mem_cons.1 ho with rfl | ho'
        · rcases hcx with h | h
          · exact absurd h.symm hoc
          · exact h
        · exact hreach o ho' hoc
      · have hne' : c ≠ x := fun h => hcx (Or.inl h)
        have hnb : ¬ NB cands B c x := fun h => hcx (Or.inr (TransGen.single h))
        have hbxc : B x c := by
          by_contra hb
          exact hnb ⟨hl c (List.mem_cons_of_mem _ hc), hl x (by simp), hne', hb⟩
        have hxc : NB cands B x c :=
          ⟨hl x (by simp), hl c (List.mem_cons_of_mem _ hc), fun h => hne' h.symm, hasym _ _ hbxc⟩
        refine ⟨x, by simp, fun o ho hox => ?_⟩
        rcases List.mem_cons.1 ho with rfl | ho'
        · exact absurd rfl hox
        · by_cases hoc : o = c
          · subst hoc; exact TransGen.single hxc
          · exact TransGen.trans (TransGen.single hxc) (hreach o ho' hoc)

theorem smithReach_nonempty (hasym : ∀ a b, B a b → ¬ B b a) (hne : cands ≠ []) :
    ∃ c, SmithReach cands B c := by
  obtain ⟨c, hc, h⟩ := smithReach_nonempty_aux hasym cands (fun _ h => h) hne
  exact ⟨c, hc, h⟩

/-- a dominating set is closed under "not beaten by" predecessors -/
theorem dominating_back {S : Cand → Prop} (hS : Dominating cands B S) {a b : Cand}
    (h : TransGen (NB cands B) a b) (hb : S b) : S a := by
  induction h with
  | single h =>
    by_contra ha
    exact h.2.2.2 (hS.2 _ _ hb h.1 ha)
  | tail _ h ih =>
    apply ih
    by_contra ha
    exact h.2.2.2 (hS.2 _ _ hb h.1 ha)

theorem smithReach_least {S : Cand → Prop} (hS : Dominating cands B S) (hne : ∃ s, S s) {c : Cand}
    (hc : SmithReach cands B c) : S c := by
  obtain ⟨s, hs⟩ := hne
  by_cases hcs : s = c
  · subst hcs; exact hs
  · exact dominating_back hS (hc.2 s (hS.1 s hs) hcs) hs

theorem transGen_BB_right {a b : Cand} (h : TransGen (BB cands B) a b) : b ∈ cands := by
  cases h with
  | single h => exact h.2.1
  | tail _ h => exact h.2.1

theorem transGen_BB_left {a b : Cand} (h : TransGen (BB cands B) a b) : a ∈ cands := by
  induction h with
  | single h => exact h.1
  | tail _ _ ih => exact ih

/-- an undominated set is closed under "beats" predecessors -/
theorem undominated_back {S : Cand → Prop} (hS : Undominated cands B S) {a b : Cand}
    (h : TransGen (BB cands B) a b) (hb : S b) : S a := by
  induction h with
  | single h =>
    by_contra ha
    exact hS.2 _ _ hb h.1 ha h.2.2.2
  | tail _ h ih =>
    apply ih
    by_contra ha
    exact hS.2 _ _ hb h.1 ha h.2.2.2

/-- **Schwartz set = union of the minimal non-empty undominated sets.** -/
theorem schwartzReach_iff (hirr : ∀ a, ¬ B a a) (c : Cand) :
    SchwartzReach cands B c ↔ ∃ S, MinimalUndominated cands B S ∧ S c := by
  constructor
  · intro hc
    refine ⟨fun x => x = c ∨ (TransGen (BB cands B) c x ∧ TransGen (BB cands B) x c), ⟨⟨?_, ?_⟩, ⟨c, Or.inl rfl⟩, ?_⟩,
      Or.inl rfl⟩
    · rintro s (rfl | ⟨h, _⟩)
      · exact hc.1
      · exact transGen_BB_right h
    · intro s o hs ho hno hb
      have hos : o ≠ s := by rintro rfl; exact hirr _ hb
      have hsc : s ∈ cands := by
        rcases hs with rfl | ⟨h, _⟩
        · exact hc.1
        · exact transGen_BB_right h
      have h1 : BB cands B o s := ⟨ho, hsc, hos, hb⟩
      have hoc : TransGen (BB cands B) o c := by
        rcases hs with rfl | ⟨_, h⟩
        · exact TransGen.single h1
        · exact TransGen.trans (TransGen.single h1) h
      have hne : o ≠ c := fun h => hno (Or.inl h)
      exact hno (Or.inr ⟨hc.2 o ho hne hoc, hoc⟩)
    · intro T hT ⟨t, ht⟩ hTS x hx
      by_cases hxt : x = t
      · subst hxt; exact ht
      · have hts := hTS t ht
        have hreach : TransGen (BB cands B) x t := by
          rcases hx with rfl | ⟨hcx, hxc⟩
          · rcases hts with rfl | ⟨h, _⟩
            · exact absurd rfl hxt
            · exact h
          · rcases hts with rfl | ⟨h, _⟩
            · exact hxc
            · exact TransGen.trans hxc h
        exact undominated_back hT hreach ht
  · rintro ⟨S, ⟨hS, _, hmin⟩, hc⟩
    refine ⟨hS.1 c hc, fun o ho hoc hreach => ?_⟩
    have hSo : S o := undominated_back hS hreach hc
    have hT : Undominated cands B (fun x => x = o ∨ TransGen (BB cands B) x o) := by
      refine ⟨?_, ?_⟩
      · rintro s (rfl | h)
        · exact ho
        · exact transGen_BB_left h
      · intro t a ht ha hna hb
        have hat : a ≠ t := by rintro rfl; exact hirr _ hb
        have htc : t ∈ cands := by
          rcases ht with rfl | h
          · exact ho
          · exact transGen_BB_left h
        have h1 : BB cands B a t := ⟨ha, htc, hat, hb⟩
        apply hna
        rcases ht with rfl | h
        · exact Or.inr (TransGen.single h1)
        · exact Or.inr (TransGen.trans (TransGen.single h1) h)
    have hsub : ∀ x, (x = o ∨ TransGen (BB cands B) x o) → S x := by
      rintro x (rfl | h)
      · exact hSo
      · exact undominated_back hS h hSo
    rcases hmin _ hT ⟨o, Or.inl rfl⟩ hsub c hc with h | h
    · exact absurd h.symm hoc
    · exact h

/-- the Schwartz set lies inside every non-empty dominating set (in particular inside the Smith set) -/
theorem schwartzReach_sub_dominating (hasym : ∀ a b, B a b → ¬ B b a) {S : Cand → Prop}
    (hS : Dominating cands B S) (hne : ∃ s, S s) {c : Cand} (hc : SchwartzReach cands B c) : S c := by
  by_contra hnc
  obtain ⟨s, hs⟩ := hne
  have hsc : s ≠ c := by rintro rfl; exact hnc hs
  have hb : B s c := hS.2 s c hs hc.1 hnc
  have h1 : TransGen (BB cands B) s c := TransGen.single ⟨hS.1 s hs, hc.1, hsc, hb⟩
  have h2 := hc.2 s (hS.1 s hs) hsc h1
  -- a chain of "beats" steps from outside S into S is impossible
  have key : ∀ a b, TransGen (BB cands B) a b → S b → S a := by
    intro a b hab
    induction hab with
    | single h =>
      intro hb'
      by_contra ha
      exact hasym _ _ (hS.2 _ _ hb' h.1 ha) h.2.2.2
    | tail _ h ih =>
      intro hb'
      apply ih
      by_contra ha
      exact hasym _ _ (hS.2 _ _ hb' h.1 ha) h.2.2.2
  exact hnc (key c s h2 hs)

end VL.Graph
