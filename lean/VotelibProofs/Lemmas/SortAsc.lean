/-
  Lemmas about the stable ascending insertion sort `sortAsc` (model of `util.sorted_votes(descending=False)`),
  mirroring Lemmas/Sort.lean.
-/
import VotelibProofs.Lemmas.Sort
namespace VL

theorem insertAsc_perm (x : Cand × Rat) (l : Votes) : (insertAsc x l).Perm (x :: l) := by
  induction l with
  | nil => simp [insertAsc]
  | cons y ys ih =>
    unfold insertAsc
    split
    · exact (List.Perm.cons y ih).trans (List.Perm.swap x y ys)
    · exact List.Perm.refl _

theorem sortAsc_perm (l : Votes) : (sortAsc l).Perm l := by
  induction l with
  | nil => simp [sortAsc]
  | cons x xs ih =>
    simp only [sortAsc]
    exact (insertAsc_perm x _).trans (List.Perm.cons x ih)

/-- non-decreasing in the value -/
def Asc (l : Votes) : Prop := l.Pairwise (fun a b => a.2 ≤ b.2)

theorem insertAsc_asc (x : Cand × Rat) (l : Votes) (h : Asc l) : Asc (insertAsc x l) := by
  induction l with
  | nil => simp [insertAsc, Asc]
  | cons y ys ih =>
    unfold insertAsc
    have hy := List.pairwise_cons.mp h
    split
    · rename_i hlt
      refine List.pairwise_cons.mpr ⟨?_, ih hy.2⟩
      intro z hz
      have := (insertAsc_perm x ys).mem_iff.mp hz
      rcases List.mem_cons.mp this with rfl | hz'
      · exact le_of_lt hlt
      · exact hy.1 z hz'
    · rename_i hnlt
      have hxy : x.2 ≤ y.2 := not_lt.mp hnlt
      refine List.pairwise_cons.mpr ⟨?_, h⟩
      intro z hz
      rcases List.mem_cons.mp hz with rfl | hz'
      · exact hxy
      · exact le_trans hxy (hy.1 z hz')

theorem sortAsc_asc (l : Votes) : Asc (sortAsc l) := by
  induction l with
  | nil => simp [sortAsc, Asc]
  | cons x xs ih => exact insertAsc_asc x _ ih

/-- stability: entries with one and the same value keep their insertion order -/
theorem insertAsc_filter_eq (x : Cand × Rat) (l : Votes) (t : Rat) :
    (insertAsc x l).filter (fun p => p.2 = t) = (x :: l).filter (fun p => p.2 = t) := by
  induction l with
  | nil => simp [insertAsc]
  | cons y ys ih =>
    unfold insertAsc
    split
    · rename_i hlt
      rw [List.filter_cons, ih]
      by_cases hy : y.2 = t <;> by_cases hx : x.2 = t
      · exfalso; rw [hy, hx] at hlt; exact lt_irrefl _ hlt
      · simp [List.filter_cons, hy, hx]
      · simp [List.filter_cons, hy, hx]
      · simp [List.filter_cons, hy, hx]
    · rfl

theorem sortAsc_filter_eq (l : Votes) (t : Rat) :
    (sortAsc l).filter (fun p => p.2 = t) = l.filter (fun p => p.2 = t) := by
  induction l with
  | nil => simp [sortAsc]
  | cons x xs ih =>
    simp only [sortAsc]
    rw [insertAsc_filter_eq]
    simp only [List.filter_cons, ih]

end VL
