/-
  C08 — `TieBreaking(main, InputOrderSelector())` (model VotelibModel/ShapeTieBreak.lean): breaking the one tie of a
  `get_n_best` result by input order leaves exactly `n` distinct candidates of the votes and no `Tie`.
-/
import VotelibProofs.Lemmas.ShapeCondorcet
import VotelibProofs.Lemmas.ShapeSimple
import VotelibModel.ShapeTieBreak
import VotelibProofs.Lemmas.QuotaDist
namespace VL.C08
open VL VL.ShapeTB

theorem replaceFirst_step (X : List Cand) (L : List Cand) (j : Nat) (c : Cand) :
    replaceFirst (X.map Slot.cand ++ List.replicate (j + 1) (Slot.tie L)) L c =
      .ok ((X ++ [c]).map Slot.cand ++ List.replicate j (Slot.tie L)) := by
  induction X with
  | nil => simp [replaceFirst, List.replicate_succ]
  | cons x xs ih =>
    simp only [List.map_cons, List.cons_append, replaceFirst]
    rw [if_neg (by intro h; cases h), ih]

theorem replaceAll (L : List Cand) : ∀ (B X : List Cand) (j : Nat),
    B.foldlM (fun r c => replaceFirst r L c) (X.map Slot.cand ++ List.replicate (B.length + j) (Slot.tie L)) =
      .ok ((X ++ B).map Slot.cand ++ List.replicate j (Slot.tie L))
  | [], X, j => by simp; rfl
  | b :: bs, X, j => by
    rw [List.foldlM_cons]
    have : (b :: bs).length + j = (bs.length + j) + 1 := by simp; omega
    rw [this, replaceFirst_step]
    simp only [bind, Except.bind]
    rw [replaceAll L bs (X ++ [b]) j]
    simp

theorem filterMap_tieOf_struct (A L : List Cand) (k : Nat) :
    (A.map Slot.cand ++ List.replicate k (Slot.tie L)).filterMap tieOf = List.replicate k L := by
  rw [List.filterMap_append]
  have h1 : (A.map Slot.cand).filterMap tieOf = [] := by
    induction A with
    | nil => rfl
    | cons a as ih => simp [tieOf, ih]
  have h2 : (List.replicate k (Slot.tie L)).filterMap tieOf = List.replicate k L := by
    induction k with
    | zero => rfl
    | succ j ih => simp [List.replicate_succ, tieOf, ih]
  rw [h1, h2, List.nil_append]

theorem count_tie_struct (A L : List Cand) (k : Nat) :
    (A.map Slot.cand ++ List.replicate k (Slot.tie L)).count (Slot.tie L) = k := by
  rw [List.count_append, List.count_replicate_self]
  have : (A.map Slot.cand).count (Slot.tie L) = 0 := by
    rw [List.count_eq_zero]; intro h; obtain ⟨_, _, he⟩ := List.mem_map.mp h; cases he
  omega

/-- **TieBreaking(Plurality, InputOrderSelector)**: always answers for `1 ≤ n ≤ #candidates`, with exactly `n` distinct
    candidates of the votes and no `Tie` left -/
theorem tb_plurality_shape (votes : Votes) (hwf : C09.WF votes) (n : Nat) (h1 : 1 ≤ n) (hlen : n ≤ votes.length) :
    ∃ r : List Cand, tbPlurality votes n = .ok (r.map Slot.cand) ∧ SelShape (keys votes) n (r.map Slot.cand) := by
  obtain ⟨A, L, k, hform, hnd, hmem, hk, hsum⟩ := getNBest_struct votes hwf n h1 hlen
  have hAnd := (List.nodup_append.mp hnd).1
  have hLnd := (List.nodup_append.mp hnd).2.1
  unfold tbPlurality tieBreakSel plurality
  rw [hform, filterMap_tieOf_struct]
  rcases Nat.eq_zero_or_pos k with hk0 | hk0
  · subst hk0
    refine ⟨A, by simp [List.eraseDups]; rfl, ?_⟩
    exact SelShape.of_cands (by omega) hAnd (fun c hc => hmem c (List.mem_append_left _ hc))
  · have hkL : k < L.length := by rcases hk with h | h; omega; exact h
    obtain ⟨j, rfl⟩ : ∃ j, k = j + 1 := ⟨k - 1, by omega⟩
    have hed : (List.replicate (j + 1) L).eraseDups = [L] := by
      rw [List.replicate_succ, List.eraseDups_cons]
      have : (List.replicate j L).filter (fun b => !b == L) = [] := by
        apply List.filter_eq_nil_iff.mpr
        intro x hx; rw [(List.mem_replicate.mp hx).2]; simp
      rw [this]; rfl
    rw [hed]
    simp only [List.foldlM_cons, List.foldlM_nil, bind_pure, count_tie_struct]
    -- the winners of the tie-break
    have hfil_nd : ((keys votes).filter (fun c => L.contains c)).Nodup := hwf.sublist List.filter_sublist
    have hfil_len : L.length ≤ ((keys votes).filter (fun c => L.contains c)).length := by
      apply List.Subperm.length_le
      apply List.subperm_of_subset hLnd
      intro c hc
      exact List.mem_filter.mpr ⟨hmem c (List.mem_append_right _ hc), by simpa using hc⟩
    have hBlen : (brokenByInputOrder votes L (j + 1)).length = j + 1 := by
      unfold brokenByInputOrder; rw [List.length_take]; omega
    have hBsub : ∀ c ∈ brokenByInputOrder votes L (j + 1), c ∈ L := by
      intro c hc
      have := (List.mem_filter.mp (List.mem_of_mem_take hc)).2
      simpa using this
    have hBnd : (brokenByInputOrder votes L (j + 1)).Nodup := hfil_nd.sublist (List.take_sublist _ _)
    have hrep := replaceAll L (brokenByInputOrder votes L (j + 1)) A 0
    rw [hBlen, Nat.add_zero] at hrep
    simp only [List.replicate_zero, List.append_nil] at hrep
    refine ⟨A ++ brokenByInputOrder votes L (j + 1), hrep, SelShape.of_cands ?_ ?_ ?_⟩
    · rw [List.length_append, hBlen]; omega
    · refine List.nodup_append.mpr ⟨hAnd, hBnd, ?_⟩
      intro a ha b hb hab
      subst hab
      exact (List.nodup_append.mp hnd).2.2 a ha a (hBsub a hb) rfl
    · intro c hc
      rcases List.mem_append.mp hc with hc | hc
      · exact hmem c (List.mem_append_left _ hc)
      · exact hmem c (List.mem_append_right _ (hBsub c hc))

example : tbPlurality [(0, 3), (1, 5), (2, 3), (3, 3)] 3 = .ok [Slot.cand 1, Slot.cand 0, Slot.cand 2] := by decide +kernel

end VL.C08

namespace VL.C08
open VL VL.ShapeTB VL.QD

/-- **replacing a Tie key of a distribution keeps the seat total** when the tie-breaker returns exactly as many winners as
    the tie holds seats: the result loses the tie's seats and gains one per winner; it stays a dict -/
theorem replaceDist_sum (res : QD.Sel) (hnd : KNodup res) (T : List Cand) (repl : List Cand) :
    sumK (replaceDist res T repl) = sumK res - getK res (.tie T) 0 + repl.length ∧ KNodup (replaceDist res T repl) := by
  unfold replaceDist
  have key : ∀ (l : List Cand) (r : QD.Sel), KNodup r →
      sumK (l.foldl (fun r c => setK r (.cand c) (getK r (.cand c) 0 + 1)) r) = sumK r + l.length ∧
      KNodup (l.foldl (fun r c => setK r (.cand c) (getK r (.cand c) 0 + 1)) r) := by
    intro l
    induction l with
    | nil => intro r hr; exact ⟨by simp, hr⟩
    | cons c cs ih =>
      intro r hr
      simp only [List.foldl_cons]
      obtain ⟨h1, h2⟩ := ih _ (KNodup_setK hr (.cand c) _)
      refine ⟨?_, h2⟩
      rw [h1, sumK_setK]
      simp only [List.length_cons]; push_cast; ring
  obtain ⟨h1, h2⟩ := key repl _ (KNodup_delK hnd (.tie T))
  exact ⟨by rw [h1, sumK_delK hnd], h2⟩

end VL.C08
