/-
  Order independence of the highest-averages loop: permuting the waiting pool (hence the insertion order of the
  votes dictionary) changes nothing but the order of the pool and of the members listed in a tie.
-/
import VotelibProofs.Lemmas.HAStep
namespace VL
open HACfg

theorem maxQ_perm {l₁ l₂ : List (Cand × Rat)} (hp : l₁.Perm l₂) : maxQ l₁ = maxQ l₂ := by
  -- characterise maxQ as the unique upper bound that is attained
  cases h1 : maxQ l₁ with
  | none =>
    have := maxQ_eq_none.mp h1
    subst this
    have : l₂ = [] := hp.symm.eq_nil
    subst this; rfl
  | some m₁ =>
    cases h2 : maxQ l₂ with
    | none =>
      have := maxQ_eq_none.mp h2
      subst this
      have : l₁ = [] := hp.eq_nil
      subst this; simp [maxQ] at h1
    | some m₂ =>
      obtain ⟨p₁, hp₁, e₁⟩ := maxQ_mem l₁ m₁ h1
      obtain ⟨p₂, hp₂, e₂⟩ := maxQ_mem l₂ m₂ h2
      have a := maxQ_ge l₂ m₂ h2 p₁ (hp.mem_iff.mp hp₁)
      have b := maxQ_ge l₁ m₁ h1 p₂ (hp.mem_iff.mpr hp₂)
      rw [e₁] at a; rw [e₂] at b
      exact congrArg some (le_antisymm a b)

theorem bumpAll_perm (tot : Cand → Nat) {b₁ b₂ : List Cand} (hp : b₁.Perm b₂) : bumpAll tot b₁ = bumpAll tot b₂ := by
  funext c
  unfold bumpAll
  by_cases hc : c ∈ b₁
  · rw [if_pos hc, if_pos (hp.mem_iff.mp hc)]
  · rw [if_neg hc, if_neg (fun h => hc (hp.mem_iff.mpr h))]

/-- two states that differ only by the order of the pool and of the tie members -/
structure PermState (s₁ s₂ : HAState) : Prop where
  tot  : s₁.tot = s₂.tot
  pool : s₁.pool.Perm s₂.pool
  rem  : s₁.rem = s₂.rem
  tie  : (s₁.tie = none ∧ s₂.tie = none) ∨
         ∃ T₁ T₂ m, s₁.tie = some (T₁, m) ∧ s₂.tie = some (T₂, m) ∧ T₁.Perm T₂

theorem haStep_perm (cfg : HACfg) (s₁ s₂ : HAState) (hps : PermState s₁ s₂) :
    PermState (haStep cfg s₁) (haStep cfg s₂) := by
  unfold haStep
  rw [← maxQ_perm hps.pool]
  cases hm : maxQ s₁.pool with
  | none => simpa using hps
  | some m =>
    simp only
    have hb : ((s₁.pool.filter (fun p => p.2 = m)).map (·.1)).Perm ((s₂.pool.filter (fun p => p.2 = m)).map (·.1)) :=
      (hps.pool.filter _).map _
    have hr : (s₁.pool.filter (fun p => p.2 ≠ m)).Perm (s₂.pool.filter (fun p => p.2 ≠ m)) := hps.pool.filter _
    rw [← hps.rem, ← hb.length_eq]
    split
    · exact ⟨hps.tot, hps.pool, rfl, Or.inr ⟨_, _, _, rfl, rfl, hb⟩⟩
    · refine ⟨?_, ?_, ?_, Or.inl ⟨rfl, rfl⟩⟩
      · simp only; rw [hps.tot, bumpAll_perm _ hb]
      · simp only
        rw [hps.tot, bumpAll_perm _ hb]
        exact hr.append (hb.filterMap _)
      · simp only [hb.length_eq]

theorem haLoop_perm (cfg : HACfg) : ∀ (fuel : Nat) (s₁ s₂ : HAState), PermState s₁ s₂ →
    PermState (haLoop cfg fuel s₁) (haLoop cfg fuel s₂) := by
  intro fuel
  induction fuel with
  | zero => intro s₁ s₂ h; exact h
  | succ f ih =>
    intro s₁ s₂ h
    unfold haLoop
    have hc : (s₁.rem = 0 ∨ s₁.pool = []) ↔ (s₂.rem = 0 ∨ s₂.pool = []) := by
      rw [h.rem]
      constructor
      · rintro (h0 | h0)
        · exact Or.inl h0
        · right; have := h.pool; rw [h0] at this; exact this.symm.eq_nil
      · rintro (h0 | h0)
        · exact Or.inl h0
        · right; have := h.pool; rw [h0] at this; exact this.eq_nil
    by_cases hcond : s₁.rem = 0 ∨ s₁.pool = []
    · rw [if_pos hcond, if_pos (hc.mp hcond)]; exact h
    · rw [if_neg hcond, if_neg (fun hh => hcond (hc.mpr hh))]
      exact ih _ _ (haStep_perm cfg _ _ h)

/-- the same election with the votes dictionary in another insertion order -/
def HACfg.reorder (cfg : HACfg) (votes' : Votes) : HACfg := { cfg with votes := votes' }

theorem lookup_perm {v₁ v₂ : Votes} (hp : v₁.Perm v₂) (hn : (keys v₁).Nodup) (c : Cand) : lookup v₁ c = lookup v₂ c := by
  have hn2 : (keys v₂).Nodup := (hp.map _).nodup_iff.mp hn
  unfold lookup
  cases h1 : v₁.find? (fun p => p.1 = c) with
  | none =>
    cases h2 : v₂.find? (fun p => p.1 = c) with
    | none => rfl
    | some q =>
      have hq := List.mem_of_find?_eq_some h2
      have hqc := List.find?_some h2
      have := List.find?_eq_none.mp h1 q (hp.mem_iff.mpr hq)
      exact absurd hqc this
  | some p =>
    have hp1 := List.mem_of_find?_eq_some h1
    have hpc : p.1 = c := by simpa using List.find?_some h1
    have := find_of_mem_nodup v₂ p hn2 (hp.mem_iff.mp hp1)
    rw [hpc] at this
    rw [this]

theorem haRun_perm (cfg : HACfg) (votes' : Votes) (hp : cfg.votes.Perm votes') (hn : (keys cfg.votes).Nodup) :
    PermState (haRun cfg) (haRun (cfg.reorder votes')) := by
  have hvote : (cfg.reorder votes').vote = cfg.vote := by
    funext c; unfold HACfg.vote getD HACfg.reorder; rw [lookup_perm hp hn]
  have hquot : (cfg.reorder votes').quot = cfg.quot := by
    funext c k; unfold HACfg.quot; rw [hvote]; rfl
  have hinit : PermState (haInit cfg) (haInit (cfg.reorder votes')) := by
    refine ⟨rfl, ?_, rfl, Or.inl ⟨rfl, rfl⟩⟩
    exact hp.filterMap _
  -- the loop of the reordered configuration is the loop of the original one (it only reads quot and capOf)
  have hstep : ∀ s, haStep (cfg.reorder votes') s = haStep cfg s := by
    intro s; unfold haStep; rw [hquot]; rfl
  have hloop : ∀ fuel s, haLoop (cfg.reorder votes') fuel s = haLoop cfg fuel s := by
    intro fuel
    induction fuel with
    | zero => intro s; rfl
    | succ f ih => intro s; unfold haLoop; rw [hstep, ih]
  unfold haRun
  rw [hloop]
  have hrem : (haInit (cfg.reorder votes')).rem = (haInit cfg).rem := rfl
  rw [hrem]
  exact haLoop_perm cfg _ _ _ hinit

/-- **Order independence.**  Every party's individually awarded seats, and the seats and member set of a reported
    tie, do not depend on the insertion order of the votes dictionary. -/
theorem haSeats_perm (cfg : HACfg) (votes' : Votes) (hp : cfg.votes.Perm votes') (hn : (keys cfg.votes).Nodup) (c : Cand) :
    haSeats (cfg.reorder votes') c = haSeats cfg c := by
  unfold haSeats
  rw [← (haRun_perm cfg votes' hp hn).tot]
  rfl

theorem haTie_perm (cfg : HACfg) (votes' : Votes) (hp : cfg.votes.Perm votes') (hn : (keys cfg.votes).Nodup) :
    ((haRun cfg).tie = none ∧ (haRun (cfg.reorder votes')).tie = none) ∨
    ∃ T₁ T₂ m, (haRun cfg).tie = some (T₁, m) ∧ (haRun (cfg.reorder votes')).tie = some (T₂, m) ∧ T₁.Perm T₂ :=
  (haRun_perm cfg votes' hp hn).tie

end VL
