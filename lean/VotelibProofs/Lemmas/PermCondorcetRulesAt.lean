/-
  C10: the Condorcet family on ranked profiles for BOTH modes of the converter,
  `PreConverted(RankedToCondorcetVotes(unranked_at_bottom = ab), evaluator)` (`PreConv.condorcetRuleAt ab`,
  `PreConv.condorcetSeatlessAt ab`): ballot-order independence, renaming equivariance and the symmetric-candidates corollary.
  With `ab = false` the pairwise dictionaries are incomplete (pairs of candidates that never share a ballot have no entry); the
  dictionary-level theorems hold for arbitrary dictionaries with distinct keys, and the converter's invariance theorems
  (`rankedToCondorcet_perm`, `rankedToCondorcet_ren`) are stated for both modes, so the proofs are those of the `true` mode
  (PermCondorcetRules.lean, PermCondorcetRules2.lean, PermTrans.lean, PermSymmetric2.lean) with `true` replaced by `ab`.
-/
import VotelibProofs.Lemmas.PermSymmetric2
namespace VL.Perm
open VL VL.Convert VL.C10 VL.PreConv

/-- **Copeland (first and second order): ballot-order independence** -/
theorem copelandRule_permAt (ab : Bool) (so : Bool) {p₁ p₂ : RProfile} (h : p₁.Perm p₂) (n : Nat) :
    SlotsEquiv (condorcetRuleAt ab (Condorcet.copeland so) p₁ n) (condorcetRuleAt ab (Condorcet.copeland so) p₂ n) :=
  copeland_perm (rankedToCondorcet_perm ab h) (condorcetDict_nodup ab p₁) so n

/-- **Minimax (winning votes, margins, pairwise opposition): ballot-order independence** -/
theorem minimaxRule_permAt (ab : Bool) (sc : Condorcet.Scorer) {p₁ p₂ : RProfile} (h : p₁.Perm p₂) (n : Nat) :
    SlotsEquiv (condorcetRuleAt ab (Condorcet.minimax sc) p₁ n) (condorcetRuleAt ab (Condorcet.minimax sc) p₂ n) :=
  minimax_perm (rankedToCondorcet_perm ab h) (condorcetDict_nodup ab p₁) sc n

/-- **Schulze: ballot-order independence** (duplicate-free ballots, non-negative weights) -/
theorem schulzeRule_permAt (ab : Bool) {p₁ p₂ : RProfile} (h : p₁.Perm p₂) (hb : ∀ bw ∈ p₁, (ballotCands bw.1).Nodup)
    (hw : ∀ bw ∈ p₁, 0 ≤ bw.2) (n : Nat) :
    SlotsEquiv (condorcetRuleAt ab Condorcet.schulze p₁ n) (condorcetRuleAt ab Condorcet.schulze p₂ n) :=
  schulze_perm (rankedToCondorcet_perm ab h) (condorcetDict_wf ab p₁ hb hw) n

/-- **Condorcet winner: ballot-order independence** — the very same answer -/
theorem condorcetWinnerRule_permAt (ab : Bool) {p₁ p₂ : RProfile} (h : p₁.Perm p₂) :
    condorcetSeatlessAt ab Condorcet.condorcetWinner p₁ = condorcetSeatlessAt ab Condorcet.condorcetWinner p₂ :=
  condorcetWinner_perm (rankedToCondorcet_perm ab h) (condorcetDict_nodup ab p₁)

/-- **Smith set: ballot-order independence** — the same set -/
theorem smithRule_permAt (ab : Bool) {p₁ p₂ : RProfile} (h : p₁.Perm p₂) :
    (condorcetSeatlessAt ab Condorcet.smithSet p₁).Perm (condorcetSeatlessAt ab Condorcet.smithSet p₂) :=
  smithSet_perm (rankedToCondorcet_perm ab h) (condorcetDict_nodup ab p₁)

/-- **Schwartz set: ballot-order independence** — the same set -/
theorem schwartzRule_permAt (ab : Bool) {p₁ p₂ : RProfile} (h : p₁.Perm p₂) :
    (condorcetSeatlessAt ab Condorcet.schwartzSet p₁).Perm (condorcetSeatlessAt ab Condorcet.schwartzSet p₂) :=
  schwartzSet_perm (rankedToCondorcet_perm ab h) (condorcetDict_nodup ab p₁)

/-- **Kemeny-Young on a ranked profile: ballot-order independence** — the very same answer -/
theorem kemenyRule_permAt (ab : Bool) {p₁ p₂ : RProfile} (h : p₁.Perm p₂) (n : Nat) :
    condorcetRuleAt ab Condorcet.kemenyYoung p₁ n = condorcetRuleAt ab Condorcet.kemenyYoung p₂ n :=
  kemenyYoung_perm (rankedToCondorcet_perm ab h) (condorcetDict_nodup ab p₁) n

/-- **Ranked pairs on a ranked profile: ballot-order independence** on profiles whose pairs are separated by their
    (score, count) sort keys — the property's own restriction to pairwise distinct strengths -/
theorem rankedPairsRule_permAt (ab : Bool) (sc : Condorcet.Scorer) {p₁ p₂ : RProfile} (h : p₁.Perm p₂)
    (hd : RPDistinct sc (rankedToCondorcet ab p₁)) (n : Nat) :
    condorcetRuleAt ab (Condorcet.rankedPairs sc) p₁ n = condorcetRuleAt ab (Condorcet.rankedPairs sc) p₂ n :=
  rankedPairs_perm (rankedToCondorcet_perm ab h) sc hd n

section
variable (σ : Cand → Cand) (hσ : Function.Injective σ)
include hσ

/-- **Minimax on a ranked profile: renaming equivariance** -/
theorem minimaxRule_renAt (ab : Bool) (sc : Condorcet.Scorer) (p : RProfile) (hb : ∀ bw ∈ p, (ballotCands bw.1).Nodup) (n : Nat) :
    SlotsEquiv (condorcetRuleAt ab (Condorcet.minimax sc) (renRProfile σ p) n)
      ((condorcetRuleAt ab (Condorcet.minimax sc) p n).map (renSlot σ)) := by
  unfold condorcetRuleAt
  rw [← minimax_ren σ hσ]
  exact minimax_perm (rankedToCondorcet_ren σ hσ ab p hb) (condorcetDict_nodup ab _) sc n

/-- **Schulze on a ranked profile: renaming equivariance** (duplicate-free ballots, non-negative weights) -/
theorem schulzeRule_renAt (ab : Bool) (p : RProfile) (hb : ∀ bw ∈ p, (ballotCands bw.1).Nodup) (hw : ∀ bw ∈ p, 0 ≤ bw.2) (n : Nat) :
    SlotsEquiv (condorcetRuleAt ab Condorcet.schulze (renRProfile σ p) n)
      ((condorcetRuleAt ab Condorcet.schulze p n).map (renSlot σ)) := by
  unfold condorcetRuleAt
  rw [← schulze_ren σ hσ]
  refine schulze_perm (rankedToCondorcet_ren σ hσ ab p hb) (condorcetDict_wf ab _ ?_ ?_) n
  · intro bw' hbw'
    obtain ⟨bw, hbw, rfl⟩ := List.mem_map.1 hbw'
    exact nodup_ballotCands_ren σ hσ (hb bw hbw)
  · intro bw' hbw'
    obtain ⟨bw, hbw, rfl⟩ := List.mem_map.1 hbw'
    exact hw bw hbw

/-- **Condorcet winner of a ranked profile: renaming equivariance** — the renamed answer -/
theorem condorcetWinnerRule_renAt (ab : Bool) (p : RProfile) (hb : ∀ bw ∈ p, (ballotCands bw.1).Nodup) :
    condorcetSeatlessAt ab Condorcet.condorcetWinner (renRProfile σ p) = (condorcetSeatlessAt ab Condorcet.condorcetWinner p).map σ := by
  unfold condorcetSeatlessAt
  rw [← condorcetWinner_ren σ hσ]
  exact condorcetWinner_perm (rankedToCondorcet_ren σ hσ ab p hb) (condorcetDict_nodup ab _)

/-- **Smith set of a ranked profile: renaming equivariance** — the renamed set -/
theorem smithRule_renAt (ab : Bool) (p : RProfile) (hb : ∀ bw ∈ p, (ballotCands bw.1).Nodup) :
    (condorcetSeatlessAt ab Condorcet.smithSet (renRProfile σ p)).Perm ((condorcetSeatlessAt ab Condorcet.smithSet p).map σ) := by
  unfold condorcetSeatlessAt
  rw [← smithSet_ren σ hσ]
  exact smithSet_perm (rankedToCondorcet_ren σ hσ ab p hb) (condorcetDict_nodup ab _)

/-- **Schwartz set of a ranked profile: renaming equivariance** — the renamed set -/
theorem schwartzRule_renAt (ab : Bool) (p : RProfile) (hb : ∀ bw ∈ p, (ballotCands bw.1).Nodup) :
    (condorcetSeatlessAt ab Condorcet.schwartzSet (renRProfile σ p)).Perm ((condorcetSeatlessAt ab Condorcet.schwartzSet p).map σ) := by
  unfold condorcetSeatlessAt
  rw [← schwartzSet_ren σ hσ]
  exact schwartzSet_perm (rankedToCondorcet_ren σ hσ ab p hb) (condorcetDict_nodup ab _)

/-- **Kemeny-Young on a ranked profile: renaming equivariance** — the renamed answer -/
theorem kemenyRule_renAt (ab : Bool) (p : RProfile) (hb : ∀ bw ∈ p, (ballotCands bw.1).Nodup) (n : Nat) :
    condorcetRuleAt ab Condorcet.kemenyYoung (renRProfile σ p) n =
      (condorcetRuleAt ab Condorcet.kemenyYoung p n).map (fun r => r.map (renSlot σ)) := by
  unfold condorcetRuleAt
  rw [← kemenyYoung_ren σ hσ]
  exact kemenyYoung_perm (rankedToCondorcet_ren σ hσ ab p hb) (condorcetDict_nodup ab _) n

end

/-- **Copeland (first and second order) on a ranked profile: renaming equivariance** -/
theorem copelandRule_ren_soAt (ab : Bool) (σ : Cand → Cand) (hσ : Function.Injective σ) (so : Bool) (p : RProfile)
    (hb : ∀ bw ∈ p, (ballotCands bw.1).Nodup) (n : Nat) :
    SlotsEquiv (condorcetRuleAt ab (Condorcet.copeland so) (renRProfile σ p) n)
      ((condorcetRuleAt ab (Condorcet.copeland so) p n).map (renSlot σ)) := by
  unfold condorcetRuleAt
  exact slotsEquiv_trans
    (copeland_perm (rankedToCondorcet_ren σ hσ ab p hb) (condorcetDict_nodup ab _) so n)
    (copeland_ren σ hσ so _ n)

/-- **Symmetric candidates under Copeland (both orders)** -/
theorem copelandRule_symmetricAt (ab : Bool) (σ : Cand → Cand) (hσ : Function.Injective σ) (so : Bool) (p : RProfile)
    (hb : ∀ bw ∈ p, (ballotCands bw.1).Nodup) (hsym : (renRProfile σ p).Perm p) (n : Nat) (c : Cand) :
    (Elected (σ c) (condorcetRuleAt ab (Condorcet.copeland so) p n) ↔ Elected c (condorcetRuleAt ab (Condorcet.copeland so) p n)) ∧
    (InTie (σ c) (condorcetRuleAt ab (Condorcet.copeland so) p n) ↔ InTie c (condorcetRuleAt ab (Condorcet.copeland so) p n)) :=
  symmetric_of_chain σ hσ (copelandRule_permAt ab so hsym n) (copelandRule_ren_soAt ab σ hσ so p hb n) c

/-- **Symmetric candidates under minimax** -/
theorem minimaxRule_symmetricAt (ab : Bool) (σ : Cand → Cand) (hσ : Function.Injective σ) (sc : Condorcet.Scorer) (p : RProfile)
    (hb : ∀ bw ∈ p, (ballotCands bw.1).Nodup) (hsym : (renRProfile σ p).Perm p) (n : Nat) (c : Cand) :
    (Elected (σ c) (condorcetRuleAt ab (Condorcet.minimax sc) p n) ↔ Elected c (condorcetRuleAt ab (Condorcet.minimax sc) p n)) ∧
    (InTie (σ c) (condorcetRuleAt ab (Condorcet.minimax sc) p n) ↔ InTie c (condorcetRuleAt ab (Condorcet.minimax sc) p n)) :=
  symmetric_of_chain σ hσ (minimaxRule_permAt ab sc hsym n) (minimaxRule_renAt σ hσ ab sc p hb n) c

/-- **Symmetric candidates under Schulze** -/
theorem schulzeRule_symmetricAt (ab : Bool) (σ : Cand → Cand) (hσ : Function.Injective σ) (p : RProfile)
    (hb : ∀ bw ∈ p, (ballotCands bw.1).Nodup) (hw : ∀ bw ∈ p, 0 ≤ bw.2) (hsym : (renRProfile σ p).Perm p) (n : Nat) (c : Cand) :
    (Elected (σ c) (condorcetRuleAt ab Condorcet.schulze p n) ↔ Elected c (condorcetRuleAt ab Condorcet.schulze p n)) ∧
    (InTie (σ c) (condorcetRuleAt ab Condorcet.schulze p n) ↔ InTie c (condorcetRuleAt ab Condorcet.schulze p n)) := by
  refine symmetric_of_chain σ hσ (schulzeRule_permAt ab hsym ?_ ?_ n) (schulzeRule_renAt σ hσ ab p hb hw n) c
  · intro bw' hbw'
    obtain ⟨bw, hbw, rfl⟩ := List.mem_map.1 hbw'
    exact nodup_ballotCands_ren σ hσ (hb bw hbw)
  · intro bw' hbw'
    obtain ⟨bw, hbw, rfl⟩ := List.mem_map.1 hbw'
    exact hw bw hbw

/-- **Symmetric candidates and the Condorcet winner / Smith set / Schwartz set**: `σ c` is in iff `c` is -/
theorem condorcetWinnerRule_symmetricAt (ab : Bool) (σ : Cand → Cand) (hσ : Function.Injective σ) (p : RProfile)
    (hb : ∀ bw ∈ p, (ballotCands bw.1).Nodup) (hsym : (renRProfile σ p).Perm p) (c : Cand) :
    σ c ∈ condorcetSeatlessAt ab Condorcet.condorcetWinner p ↔ c ∈ condorcetSeatlessAt ab Condorcet.condorcetWinner p := by
  apply mem_of_perm_map σ hσ
  rw [← condorcetWinnerRule_renAt σ hσ ab p hb, condorcetWinnerRule_permAt ab hsym]

theorem smithRule_symmetricAt (ab : Bool) (σ : Cand → Cand) (hσ : Function.Injective σ) (p : RProfile)
    (hb : ∀ bw ∈ p, (ballotCands bw.1).Nodup) (hsym : (renRProfile σ p).Perm p) (c : Cand) :
    σ c ∈ condorcetSeatlessAt ab Condorcet.smithSet p ↔ c ∈ condorcetSeatlessAt ab Condorcet.smithSet p :=
  mem_of_perm_map σ hσ ((smithRule_renAt σ hσ ab p hb).symm.trans (smithRule_permAt ab hsym)) c

theorem schwartzRule_symmetricAt (ab : Bool) (σ : Cand → Cand) (hσ : Function.Injective σ) (p : RProfile)
    (hb : ∀ bw ∈ p, (ballotCands bw.1).Nodup) (hsym : (renRProfile σ p).Perm p) (c : Cand) :
    σ c ∈ condorcetSeatlessAt ab Condorcet.schwartzSet p ↔ c ∈ condorcetSeatlessAt ab Condorcet.schwartzSet p :=
  mem_of_perm_map σ hσ ((schwartzRule_renAt σ hσ ab p hb).symm.trans (schwartzRule_permAt ab hsym)) c

end VL.Perm
