/-
  C12, allocated score: rounds with tied leaders (the report-tie and elect-all branches).
-/
import VotelibProofs.Lemmas.C12AllocSpec
namespace VL.Score
open VL VL.Appr

set_option linter.unusedSimpArgs false

/-- `_fraction_out_elected` never fails with the fuel `_subtract_votes` passes: every further pass deletes a ballot -/
theorem fractionOut_ok : ∀ (fuel : Nat) (cv : WProfile) (c : Cand) (q : Rat), cv.length < fuel →
    ∃ cv', fractionOut fuel cv c q = .ok cv' := by
  intro fuel
  induction fuel with
  | zero => intro cv c q h; omega
  | succ fuel ih =>
    intro cv c q hlen
    unfold fractionOut
    by_cases hq : q > 0
    · rw [if_pos hq]
      obtain ⟨best, hb⟩ := findBestVotes_ok cv c
      rw [hb]
      simp only [bind, Except.bind]
      by_cases hcur : (best.map (weightOf cv)).sum = 0
      · rw [if_pos hcur]; exact ⟨cv, rfl⟩
      · rw [if_neg hcur]
        by_cases hgt : (best.map (weightOf cv)).sum > q
        · rw [if_pos hgt]; exact ⟨_, rfl⟩
        · rw [if_neg hgt]
          apply ih
          rcases findBestVotes_spec hb with ⟨hnil, _⟩ | ⟨m, hbest, hne, _⟩
          · subst hnil; simp at hcur
          · have : (cv.filter (fun bw => !(best.contains bw.1))).length < cv.length := by
              apply List.length_filter_lt_length_iff_exists.mpr
              have hne' : cv.filter (fun bw => ballotScore bw.1 c = some m) ≠ [] := by
                intro hnil
                apply hne
                rw [hbest]; unfold gradeGroup; rw [hnil]; rfl
              obtain ⟨bw, hbw⟩ := List.exists_mem_of_ne_nil _ hne'
              have hm := List.mem_filter.mp hbw
              refine ⟨bw, hm.1, ?_⟩
              rw [hbest, mem_gradeGroup hm.1]
              simpa using hm.2
            omega
    · rw [if_neg hq]; exact ⟨cv, rfl⟩

theorem subtractVotes_ok (cv : WProfile) (c : Cand) (g : Nat) (q : Rat) : ∃ cv', subtractVotes cv c g q = .ok cv' := by
  unfold subtractVotes
  obtain ⟨cv1, h⟩ := fractionOut_ok (cv.length + 1) cv c q (by omega)
  rw [h]
  simp only [bind, Except.bind]
  split <;> exact ⟨_, rfl⟩

/-- electing a list of (new, distinct) candidates one after the other: whatever happens to the ballots, each of them gets
    exactly one seat, in the order of the list -/
theorem elect_all (q : Rat) : ∀ (ms : List Cand) (cv : WProfile) (el : Elected), ms.Nodup →
    (∀ c ∈ ms, Key.cand c ∉ el.map (·.1)) →
    ∃ cv', ms.foldlM (fun (st : WProfile × Elected) c => do
        let e1 := bump st.2 (Key.cand c) 1
        let cv1 ← subtractVotes st.1 c (electedOf e1 c) q
        pure (cv1, e1)) (cv, el) = Except.ok (cv', el ++ ms.map (fun c => (Key.cand c, 1))) := by
  intro ms
  induction ms with
  | nil => intro cv el _ _; exact ⟨cv, by simp [List.foldlM, pure, Except.pure]⟩
  | cons c cs ih =>
    intro cv el hnd hnew
    have hc := List.nodup_cons.mp hnd
    have hcnew := hnew c List.mem_cons_self
    rw [List.foldlM_cons]
    rw [bump_new hcnew 1]
    obtain ⟨cv1, h1⟩ := subtractVotes_ok cv c (electedOf (el ++ [(Key.cand c, 0 + 1)]) c) q
    simp only [bind, Except.bind, h1, pure, Except.pure]
    have hnew' : ∀ d ∈ cs, Key.cand d ∉ (el ++ [(Key.cand c, 0 + 1)]).map (fun (x : Key × Nat) => x.1) := by
      intro d hd hmem
      rw [List.map_append, List.mem_append] at hmem
      rcases hmem with h | h
      · exact hnew d (List.mem_cons_of_mem _ hd) h
      · simp at h; subst h; exact hc.1 hd
    obtain ⟨cv', h'⟩ := ih cv1 (el ++ [(Key.cand c, 0 + 1)]) hc.2 hnew'
    refine ⟨cv', ?_⟩
    simp only [bind, Except.bind, pure, Except.pure] at h'
    rw [h']
    simp

/-- **Tied leaders, fewer seats than leaders: the tie is reported** for the remaining seats (order-independent). -/
theorem alloc_report_tie (q : Rat) (fuel : Nat) (cv : WProfile) (el : Elected) (rem : Nat) (T : List Cand) (rest : List Slot)
    (hrem : rem ≠ 0) (hbest : getNBest (sumScores cv) 1 = Slot.tie T :: rest) (hlt : rem < (sortDedup T).length) :
    allocLoop q (fuel + 1) cv el rem = .ok (bump el (Key.tie (sortDedup T)) rem) := by
  unfold allocLoop
  rw [if_neg hrem, hbest]
  simp only
  rw [if_neg (by omega)]

/-- **Tied leaders, enough seats: all of them are elected**, one seat each; the only thing that depends on the order in
    which their quotas are spent is the ballot state `cv'` the loop continues with. -/
theorem alloc_elect_all (q : Rat) (fuel : Nat) (cv : WProfile) (el : Elected) (rem : Nat) (T : List Cand) (rest : List Slot)
    (hrem : rem ≠ 0) (hbest : getNBest (sumScores cv) 1 = Slot.tie T :: rest) (hge : (sortDedup T).length ≤ rem)
    (hnew : ∀ c ∈ sortDedup T, Key.cand c ∉ el.map (·.1)) :
    ∃ cv', allocLoop q (fuel + 1) cv el rem =
      allocLoop q fuel cv' (el ++ (sortDedup T).map (fun c => (Key.cand c, 1))) (rem - (sortDedup T).length) := by
  obtain ⟨cv', h⟩ := elect_all q (sortDedup T) cv el (sortDedup_nodup T) hnew
  refine ⟨cv', ?_⟩
  conv_lhs => unfold allocLoop
  rw [if_neg hrem, hbest]
  simp only
  rw [if_pos hge]
  simp only [bind, Except.bind] at h ⊢
  rw [h]

/-- who the tied leaders are: exactly the graded candidates whose weighted score sum nobody exceeds -/
theorem alloc_tie_members {cv : WProfile} (hwf : BallotsWF cv) {T : List Cand} {rest : List Slot}
    (hbest : getNBest (sumScores cv) 1 = Slot.tie T :: rest) :
    ∀ c, c ∈ sortDedup T ↔ c ∈ gradedCands cv ∧ ∀ d ∈ gradedCands cv, scoreSum cv d ≤ scoreSum cv c := by
  intro c
  rw [mem_sortDedup]
  have hnd := sumScores_nodup cv
  have hval : ∀ p ∈ sumScores cv, p.2 = scoreSum cv p.1 := by
    intro p hp
    rw [← sumScores_getD hwf, getD_of_mem hnd hp]
  rw [getNBest_one (sumScores cv)] at hbest
  cases hd : sumScores cv with
  | nil => rw [hd] at hbest; cases hbest
  | cons x xs =>
    rw [hd] at hbest
    simp only at hbest
    rw [← hd] at hbest
    have hT : T = ((sumScores cv).filter (fun p => (sumScores cv).all (fun q => decide (q.2 ≤ p.2)))).map (·.1) := by
      rcases hm : (sumScores cv).filter (fun p => (sumScores cv).all (fun q => decide (q.2 ≤ p.2))) with _ | ⟨a, _ | ⟨b, r⟩⟩
      · have hb := hbest; rw [hm] at hb; simp at hb; rw [hb.1, hm]; rfl
      · rw [hm] at hbest; simp at hbest
      · have hb := hbest; rw [hm] at hb; simp at hb; rw [← hb.1, hm]; rfl
    rw [hT, List.mem_map]
    constructor
    · rintro ⟨p, hp, rfl⟩
      have hp' := List.mem_filter.mp hp
      refine ⟨(sumScores_mem_keys cv p.1).mp (List.mem_map.mpr ⟨p, hp'.1, rfl⟩), ?_⟩
      intro d hdg
      obtain ⟨v, hv⟩ := mem_of_mem_keys ((sumScores_mem_keys cv d).mpr hdg)
      have := List.all_eq_true.mp hp'.2 (d, v) hv
      simp only [decide_eq_true_eq] at this
      have e1 := hval (d, v) hv
      have e2 := hval p hp'.1
      simp only at e1
      rw [← e1, ← e2]
      exact this
    · rintro ⟨hcg, hmax⟩
      obtain ⟨v, hv⟩ := mem_of_mem_keys ((sumScores_mem_keys cv c).mpr hcg)
      refine ⟨(c, v), List.mem_filter.mpr ⟨hv, ?_⟩, rfl⟩
      rw [List.all_eq_true]
      intro p hp
      simp only [decide_eq_true_eq]
      have e1 := hval (c, v) hv
      simp only at e1
      rw [hval p hp, e1]
      exact hmax p.1 ((sumScores_mem_keys cv p.1).mp (List.mem_map.mpr ⟨p, hp, rfl⟩))

end VL.Score
