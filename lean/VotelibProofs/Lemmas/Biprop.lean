/-
  Helper lemmas for C07: bounded sums / quantifiers of the checkers, matrix access after `List.modify`.
-/
import VotelibModel.Biprop
import Mathlib.Algebra.BigOperators.Group.Finset.Basic
import Mathlib.Algebra.BigOperators.Group.Finset.Sigma
import Mathlib.Algebra.BigOperators.Group.Finset.Piecewise
import Mathlib.Algebra.Order.BigOperators.Group.Finset
import Mathlib.Algebra.Order.Ring.Rat
import Mathlib.Algebra.Order.Field.Basic
import Mathlib.Tactic.Linarith
import Mathlib.Tactic.Ring
import Mathlib.Tactic.FieldSimp
import Mathlib.Data.List.Nodup
import Mathlib.Data.List.Count
namespace VL.Biprop
open Finset

variable {ord : List Nat}

theorem sumN_eq_sum (f : Nat → Nat) (n : Nat) : sumN f n = ∑ k ∈ range n, f k := by
  induction n with
  | zero => simp [sumN]
  | succ k ih => rw [sumN, ih, Finset.sum_range_succ]

theorem allN_iff (p : Nat → Bool) (n : Nat) : allN p n = true ↔ ∀ k < n, p k = true := by
  induction n with
  | zero => simp [allN]
  | succ k ih =>
    rw [allN, Bool.and_eq_true, ih]
    constructor
    · rintro ⟨h1, h2⟩ j hj
      rcases Nat.lt_succ_iff_lt_or_eq.mp hj with h | h
      · exact h1 j h
      · subst h; exact h2
    · intro h
      exact ⟨fun j hj => h j (Nat.lt_succ_of_lt hj), h k (Nat.lt_succ_self k)⟩

theorem sumN_getD (l : List Nat) : sumN (fun j => l.getD j 0) l.length = l.sum := by
  induction l using List.reverseRecOn with
  | nil => simp [sumN]
  | append_singleton l a ih =>
    rw [List.length_append, List.length_singleton, sumN, List.sum_append]
    have h1 : sumN (fun j => (l ++ [a]).getD j 0) l.length = sumN (fun j => l.getD j 0) l.length := by
      rw [sumN_eq_sum, sumN_eq_sum]
      apply Finset.sum_congr rfl
      intro j hj
      have hj' : j < l.length := Finset.mem_range.mp hj
      simp [List.getD_eq_getElem?_getD, List.getElem?_append_left hj']
    rw [h1, ih]
    simp [List.getD_eq_getElem?_getD]

theorem sumN_col (x : Mat Nat) (j : Nat) :
    sumN (fun i => mget x i j) x.length = (x.map (fun r => r.getD j 0)).sum := by
  have := sumN_getD (x.map (fun r => r.getD j 0))
  rw [List.length_map] at this
  rw [← this, sumN_eq_sum, sumN_eq_sum]
  apply Finset.sum_congr rfl
  intro i hi
  have hi' : i < x.length := Finset.mem_range.mp hi
  simp [mget, List.getD_eq_getElem?_getD, List.getElem?_map, List.getElem?_eq_getElem hi']

theorem shapeOk_iff {α : Type} (M : Mat α) (m n : Nat) :
    shapeOk M m n = true ↔ M.length = m ∧ ∀ r ∈ M, r.length = n := by
  simp [shapeOk, List.all_eq_true]

theorem shapeOk_row {α : Type} {M : Mat α} {m n : Nat} (h : shapeOk M m n = true) {i : Nat} (hi : i < m) :
    (M.getD i []).length = n := by
  obtain ⟨h1, h2⟩ := (shapeOk_iff M m n).mp h
  have hi' : i < M.length := by omega
  rw [List.getD_eq_getElem?_getD, List.getElem?_eq_getElem hi']
  exact h2 _ (List.getElem_mem hi')

end VL.Biprop

namespace VL.Biprop
open Finset

def inb (x : Mat Nat) (i j : Nat) : Prop := i < x.length ∧ j < (x.getD i []).length
instance (x : Mat Nat) (i j : Nat) : Decidable (inb x i j) := by unfold inb; exact inferInstance

theorem mget_modify (x : Mat Nat) (f : Nat → Nat) (i j i' j' : Nat) :
    mget (x.modify i (fun r => r.modify j f)) i' j' =
      if i = i' ∧ j = j' ∧ inb x i j then f (mget x i' j') else mget x i' j' := by
  unfold mget inb
  simp only [List.getD_eq_getElem?_getD, List.getElem?_modify]
  cases hx : x[i']? with
  | none =>
    have : x.length ≤ i' := by simpa using hx
    simp
    intro h1 h2 h3; omega
  | some r =>
    have hi' : i' < x.length := by
      by_contra hc; simp at hc; simp [List.getElem?_eq_none hc] at hx
    by_cases hii : i = i'
    · subst hii
      simp only [Option.map_eq_map, Option.map_some, if_true, Option.getD_some, List.getElem?_modify, hx, true_and]
      cases hr : r[j']? with
      | none =>
        have : r.length ≤ j' := by simpa using hr
        simp
        intro h1 h2 h3; omega
      | some a =>
        have hj' : j' < r.length := by
          by_contra hc; simp at hc; simp [List.getElem?_eq_none hc] at hr
        by_cases hjj : j = j'
        · subst hjj; simp [hi', hj']
        · simp [hjj]
    · simp [hii]

end VL.Biprop

namespace VL.Biprop
open Finset

theorem inb_of_shape {x : Mat Nat} {m n i j : Nat} (h : shapeOk x m n = true) (hi : i < m) (hj : j < n) :
    inb x i j := by
  refine ⟨?_, ?_⟩
  · have := ((shapeOk_iff x m n).mp h).1; omega
  · rw [shapeOk_row h hi]; exact hj

theorem shapeOk_modify {x : Mat Nat} {m n : Nat} (h : shapeOk x m n = true) (i j : Nat) (f : Nat → Nat) :
    shapeOk (x.modify i (fun r => r.modify j f)) m n = true := by
  rw [shapeOk_iff] at h ⊢
  refine ⟨by simpa using h.1, ?_⟩
  intro r hr
  obtain ⟨k, hk, rfl⟩ := List.mem_iff_getElem.mp hr
  rw [List.getElem_modify]
  have hk' : k < x.length := by simpa using hk
  split
  · rw [List.length_modify]; exact h.2 _ (List.getElem_mem hk')
  · exact h.2 _ (List.getElem_mem hk')

theorem mget_madd1 {x : Mat Nat} {m n : Nat} (h : shapeOk x m n = true) {i j : Nat} (hi : i < m) (hj : j < n)
    (i' j' : Nat) : mget (madd1 x i j) i' j' = mget x i' j' + (if i = i' ∧ j = j' then 1 else 0) := by
  unfold madd1
  rw [mget_modify]
  have := inb_of_shape h hi hj
  by_cases hc : i = i' ∧ j = j'
  · obtain ⟨rfl, rfl⟩ := hc; simp [this]
  · have : ¬ (i = i' ∧ j = j' ∧ inb x i j) := fun hh => hc ⟨hh.1, hh.2.1⟩
    simp [hc, this]

theorem mget_msub1 {x : Mat Nat} {m n : Nat} (h : shapeOk x m n = true) {i j : Nat} (hi : i < m) (hj : j < n)
    (i' j' : Nat) : mget (msub1 x i j) i' j' = mget x i' j' - (if i = i' ∧ j = j' then 1 else 0) := by
  unfold msub1
  rw [mget_modify]
  have := inb_of_shape h hi hj
  by_cases hc : i = i' ∧ j = j'
  · obtain ⟨rfl, rfl⟩ := hc; simp [this]
  · have : ¬ (i = i' ∧ j = j' ∧ inb x i j) := fun hh => hc ⟨hh.1, hh.2.1⟩
    simp [hc, this]

theorem sumN_congr {f g : Nat → Nat} {n : Nat} (h : ∀ k < n, f k = g k) : sumN f n = sumN g n := by
  rw [sumN_eq_sum, sumN_eq_sum]
  exact Finset.sum_congr rfl (fun k hk => h k (Finset.mem_range.mp hk))

theorem sumN_single (n i : Nat) (hi : i < n) : sumN (fun k => if i = k then 1 else 0) n = 1 := by
  rw [sumN_eq_sum, Finset.sum_ite_eq]; simp [hi]

theorem sumN_add (f g : Nat → Nat) (n : Nat) : sumN (fun k => f k + g k) n = sumN f n + sumN g n := by
  rw [sumN_eq_sum, sumN_eq_sum, sumN_eq_sum, Finset.sum_add_distrib]

theorem sumN_zero (n : Nat) : sumN (fun _ => 0) n = 0 := by
  rw [sumN_eq_sum]; simp

/-- column sums after one more seat in an in-range cell -/
theorem col_madd1 {x : Mat Nat} {m n : Nat} (h : shapeOk x m n = true) {i j : Nat} (hi : i < m) (hj : j < n)
    (j' : Nat) : sumN (fun k => mget (madd1 x i j) k j') m
      = sumN (fun k => mget x k j') m + (if j = j' then 1 else 0) := by
  rw [sumN_congr (fun k _ => mget_madd1 h hi hj k j'), sumN_add]
  by_cases hjj : j = j'
  · subst hjj
    simp only [and_true, if_true]
    rw [sumN_single m i hi]
  · simp [hjj, sumN_zero]

theorem col_msub1 {x : Mat Nat} {m n : Nat} (h : shapeOk x m n = true) {i j : Nat} (hi : i < m) (hj : j < n)
    (hpos : mget x i j ≠ 0) (j' : Nat) :
    sumN (fun k => mget (msub1 x i j) k j') m + (if j = j' then 1 else 0)
      = sumN (fun k => mget x k j') m := by
  by_cases hjj : j = j'
  · subst hjj
    simp only [if_true]
    rw [← sumN_single m i hi, ← sumN_add]
    apply sumN_congr
    intro k hk
    rw [mget_msub1 h hi hj]
    by_cases hik : i = k
    · subst hik; simp; omega
    · simp [hik]
  · simp only [hjj, if_false, Nat.add_zero]
    apply sumN_congr
    intro k hk
    rw [mget_msub1 h hi hj]
    simp [hjj]

/-- the triples of a path stay inside the matrix -/
def PathIn (m n : Nat) (path : List (Nat × Nat × Nat)) : Prop :=
  ∀ c ∈ path, c.1 < m ∧ c.2.1 < n ∧ c.2.2 < m

theorem applyPath_cols {m n : Nat} : ∀ (path : List (Nat × Nat × Nat)) (x x' : Mat Nat),
    shapeOk x m n = true → PathIn m n path → applyPath path x = .ok x' →
    shapeOk x' m n = true ∧ ∀ j, sumN (fun i => mget x' i j) m = sumN (fun i => mget x i j) m
  | [], x, x', hs, _, h => by
    simp only [applyPath, Except.ok.injEq] at h; subst h; exact ⟨hs, fun _ => rfl⟩
  | (d, p, d') :: rest, x, x', hs, hin, h => by
    obtain ⟨hd, hp, hd'⟩ : d < m ∧ p < n ∧ d' < m := hin (d, p, d') (List.mem_cons_self)
    simp only [applyPath] at h
    split at h
    · exact absurd h (by simp)
    · rename_i hne
      have hs1 : shapeOk (madd1 x d p) m n = true := shapeOk_modify hs d p _
      have hs2 : shapeOk (msub1 (madd1 x d p) d' p) m n = true := shapeOk_modify hs1 d' p _
      obtain ⟨hs', hcols⟩ := applyPath_cols rest _ x' hs2
        (fun c hc => hin c (List.mem_cons_of_mem _ hc)) h
      refine ⟨hs', fun j => ?_⟩
      rw [hcols j]
      have h1 := col_madd1 hs hd hp j
      have h2 := col_msub1 hs1 hd' hp hne j
      omega

end VL.Biprop

namespace VL.Biprop

theorem foldl_inv {α β : Type} (P : β → Prop) (f : β → α → β) :
    ∀ (l : List α) (init : β), P init → (∀ b a, a ∈ l → P b → P (f b a)) → P (l.foldl f init)
  | [], init, h0, _ => h0
  | a :: l, init, h0, hstep => by
    rw [List.foldl_cons]
    exact foldl_inv P f l (f init a) (hstep init a List.mem_cons_self h0)
      (fun b a' ha' hb => hstep b a' (List.mem_cons_of_mem _ ha') hb)

theorem lookupKey_mem {α : Type} {l : List (Nat × α)} {k : Nat} {v : α} (h : lookupKey l k = some v) :
    (k, v) ∈ l := by
  unfold lookupKey at h
  split at h
  · rename_i e he
    have h1 := List.find?_some he
    have h2 := List.mem_of_find?_eq_some he
    simp only [Option.some.injEq] at h
    have : e.1 = k := by simpa using h1
    rw [← this, ← h]; exact h2
  · exact absurd h (by simp)

/-- what the labels mean: a labelled district (other than a start district) was reached from its party through
    an upgradable cell, a labelled party from its district through a downgradable cell; all inside the matrix -/
def LabDOk (q : Rat) (qt : Nat → Nat → Rat) (x : Mat Nat) (m n : Nat) (labD : LabD) : Prop :=
  ∀ e ∈ labD, e.1 < m ∧ ∀ p, e.2 = some p → p < n ∧ isUp q (qt e.1 p) (mget x e.1 p) = true
def LabPOk (q : Rat) (qt : Nat → Nat → Rat) (x : Mat Nat) (m n : Nat) (labP : LabP) : Prop :=
  ∀ e ∈ labP, e.1 < n ∧ e.2 < m ∧ isDown q (qt e.2 e.1) (mget x e.2 e.1) = true

theorem phase1_ok {q : Rat} {qt : Nat → Nat → Rat} {x : Mat Nat} {m n : Nat} {labD : LabD} {labP : LabP}
    (hD : LabDOk q qt x m n labD) (hP : LabPOk q qt x m n labP) :
    LabPOk q qt x m n (phase1 q qt x n ord labD labP) := by
  unfold phase1
  apply foldl_inv (LabPOk q qt x m n) _ labD labP hP
  intro lp e he hlp
  apply foldl_inv (LabPOk q qt x m n) _ (ord.filter (fun p => decide (p < n))) lp hlp
  intro lp' p hp hlp'
  split
  · rename_i hc
    intro e' he'
    rcases List.mem_append.mp he' with h | h
    · exact hlp' e' h
    · simp only [List.mem_singleton] at h
      subst h
      simp only [Bool.and_eq_true] at hc
      exact ⟨of_decide_eq_true (List.mem_filter.mp hp).2, (hD e he).1, hc.2⟩
  · exact hlp'

theorem phase2_ok {q : Rat} {qt : Nat → Nat → Rat} {x : Mat Nat} {m n : Nat} {labD : LabD} {labP : LabP}
    (hD : LabDOk q qt x m n labD) (hP : LabPOk q qt x m n labP) :
    LabDOk q qt x m n (phase2 q qt x m labD labP) := by
  unfold phase2
  apply foldl_inv (LabDOk q qt x m n) _ labP labD hD
  intro ld e he hld
  apply foldl_inv (LabDOk q qt x m n) _ (List.range m) ld hld
  intro ld' d hd hld'
  split
  · rename_i hc
    intro e' he'
    rcases List.mem_append.mp he' with h | h
    · exact hld' e' h
    · simp only [List.mem_singleton] at h
      subst h
      simp only [Bool.and_eq_true] at hc
      refine ⟨List.mem_range.mp hd, ?_⟩
      intro p hp
      simp only [Option.some.injEq] at hp
      subst hp
      exact ⟨(hP e he).1, hc.2⟩
  · exact hld'

theorem labelLoop_ok {q : Rat} {qt : Nat → Nat → Rat} {x : Mat Nat} {m n : Nat} {under : List Nat} :
    ∀ (f : Nat) (labD : LabD) (labP : LabP), LabDOk q qt x m n labD → LabPOk q qt x m n labP →
      LabDOk q qt x m n (labelLoop q qt x m n ord under f labD labP).1 ∧
      LabPOk q qt x m n (labelLoop q qt x m n ord under f labD labP).2
  | 0, _, _, hD, hP => ⟨hD, hP⟩
  | f+1, labD, labP, hD, hP => by
    have hP' := phase1_ok (ord := ord) hD hP
    have hD' := phase2_ok hD hP'
    simp only [labelLoop]
    split
    · exact ⟨hD', hP'⟩
    · split
      · exact ⟨hD', hP'⟩
      · exact labelLoop_ok f _ _ hD' hP'

theorem labeled_ok {q : Rat} {qt : Nat → Nat → Rat} {x : Mat Nat} {m n : Nat} {under over : List Nat}
    (hover : ∀ d ∈ over, d < m) :
    LabDOk q qt x m n (labeled q qt x m n ord under over).1 ∧ LabPOk q qt x m n (labeled q qt x m n ord under over).2 := by
  unfold labeled
  apply labelLoop_ok
  · intro e he
    obtain ⟨d, hd, rfl⟩ := List.mem_map.mp he
    exact ⟨hover d hd, fun p hp => by simp at hp⟩
  · intro e he; simp at he

/-- the cells of a transfer path: every `+1` cell is upgradable, every `−1` cell downgradable (w.r.t. the seat
    matrix the labels were computed from), all inside the matrix -/
def PathCells (q : Rat) (qt : Nat → Nat → Rat) (x : Mat Nat) (m n : Nat) (path : List (Nat × Nat × Nat)) : Prop :=
  ∀ c ∈ path, c.1 < m ∧ c.2.1 < n ∧ c.2.2 < m ∧
    isUp q (qt c.1 c.2.1) (mget x c.1 c.2.1) = true ∧ isDown q (qt c.2.2 c.2.1) (mget x c.2.2 c.2.1) = true

theorem augPath_cells {q : Rat} {qt : Nat → Nat → Rat} {x : Mat Nat} {m n : Nat} {labD : LabD} {labP : LabP}
    {over : List Nat} (hD : LabDOk q qt x m n labD) (hP : LabPOk q qt x m n labP) :
    ∀ (f d : Nat) (path : List (Nat × Nat × Nat)), augPath labD labP over f d = .ok path →
      PathCells q qt x m n path
  | 0, _, _, h => by simp [augPath] at h
  | f+1, d, path, h => by
    simp only [augPath] at h
    split at h
    · simp only [Except.ok.injEq] at h; subst h; intro c hc; simp at hc
    · split at h
      · rename_i p hl
        split at h
        · rename_i d' hl'
          split at h
          · rename_i rest hrest
            simp only [Except.ok.injEq] at h; subst h
            have hmD := hD _ (lookupKey_mem hl)
            have hmP := hP _ (lookupKey_mem hl')
            have ih := augPath_cells hD hP f d' rest hrest
            intro c hc
            rcases List.mem_cons.mp hc with rfl | hc
            · exact ⟨hmD.1, (hmD.2 p rfl).1, hmP.2.1, (hmD.2 p rfl).2, hmP.2.2⟩
            · exact ih c hc
          · exact absurd h (by simp)
        · exact absurd h (by simp)
      · exact absurd h (by simp)

theorem PathCells.pathIn {q : Rat} {qt : Nat → Nat → Rat} {x : Mat Nat} {m n : Nat} {path : List (Nat × Nat × Nat)}
    (h : PathCells q qt x m n path) : PathIn m n path :=
  fun c hc => ⟨(h c hc).1, (h c hc).2.1, (h c hc).2.2.1⟩

end VL.Biprop

namespace VL.Biprop

theorem filter_range_nil {m : Nat} {p : Nat → Bool} (h : ((List.range m).filter p).isEmpty = true) :
    ∀ i < m, p i = false := by
  intro i hi
  rw [List.isEmpty_iff] at h
  have := List.filter_eq_nil_iff.mp h i (List.mem_range.mpr hi)
  simpa using this

theorem step_done {q : Rat} {V : Mat Rat} {tgt : List Nat} {s : State} (h : step q ord V tgt s = .ok .done) :
    ∀ i < V.length, rowSum s.x i = tgt.getD i 0 := by
  unfold step at h
  simp only at h
  split at h
  · rename_i hc
    simp only [Bool.and_eq_true] at hc
    intro i hi
    have h1 := filter_range_nil hc.1 i hi
    have h2 := filter_range_nil hc.2 i hi
    simp only [decide_eq_false_iff_not] at h1 h2
    omega
  · exfalso
    generalize labeled q (quot V s) s.x V.length (nCols V) ord _ _ = L at h
    obtain ⟨labD, labP⟩ := L
    simp only at h
    split at h
    · split at h <;> simp at h
    · split at h
      · simp at h
      · split at h <;> simp at h

theorem step_transfer {q : Rat} {V : Mat Rat} {tgt : List Nat} {s s' : State}
    (h : step q ord V tgt s = .ok (.transfer s')) :
    s'.dc = s.dc ∧ s'.pc = s.pc ∧ ∃ path, PathCells q (quot V s) s.x V.length (nCols V) path ∧
      applyPath path s.x = .ok s'.x ∧
      ∃ labD labP over f start, augPath labD labP over f start = .ok path := by
  unfold step at h
  simp only at h
  split at h
  · simp at h
  · have hover : ∀ d ∈ (List.range V.length).filter (fun i => decide (rowSum s.x i > tgt.getD i 0)), d < V.length :=
      fun d hd => List.mem_range.mp (List.mem_filter.mp hd).1
    have hlab := labeled_ok (ord := ord) (q := q) (qt := quot V s) (x := s.x) (n := nCols V)
      (under := (List.range V.length).filter (fun i => decide (rowSum s.x i < tgt.getD i 0))) hover
    revert hlab
    generalize labeled q (quot V s) s.x V.length (nCols V) ord _ _ = L at h
    obtain ⟨labD, labP⟩ := L
    intro hlab
    simp only at h hlab
    split at h
    · rename_i start _ _
      cases haug : augment s.x labD labP start
          ((List.range V.length).filter (fun i => decide (rowSum s.x i > tgt.getD i 0))) (V.length + nCols V + 2) with
      | error e => rw [haug] at h; simp at h
      | ok x' =>
        rw [haug] at h
        simp only [Except.ok.injEq, Step.transfer.injEq] at h
        subst h
        unfold augment at haug
        cases hpath : augPath labD labP
            ((List.range V.length).filter (fun i => decide (rowSum s.x i > tgt.getD i 0))) (V.length + nCols V + 2) start with
        | error e => rw [hpath] at haug; simp at haug
        | ok path =>
          rw [hpath] at haug
          exact ⟨rfl, rfl, path, augPath_cells hlab.1 hlab.2 _ _ _ hpath, haug, _, _, _, _, _, hpath⟩
    · split at h
      · simp at h
      · split at h <;> simp at h

end VL.Biprop

namespace VL.Biprop

theorem maxFold_ge_init : ∀ (l : List Rat) (init : Rat), init ≤ maxFold init l
  | [], init => le_refl _
  | b :: l, init => by
    unfold maxFold; rw [List.foldl_cons]
    have := maxFold_ge_init l (if b > init then b else init)
    unfold maxFold at this
    refine le_trans ?_ this
    split <;> linarith

theorem maxFold_ge_mem : ∀ (l : List Rat) (init : Rat) (a : Rat), a ∈ l → a ≤ maxFold init l
  | b :: l, init, a, ha => by
    unfold maxFold; rw [List.foldl_cons]
    rcases List.mem_cons.mp ha with rfl | ha
    · have := maxFold_ge_init l (if a > init then a else init)
      unfold maxFold at this
      refine le_trans ?_ this
      split <;> linarith
    · have := maxFold_ge_mem l (if b > init then b else init) a ha
      unfold maxFold at this; exact this

theorem minFold_le_mem {l : List Rat} {b : Rat} (h : minFold l = some b) : ∀ a ∈ l, b ≤ a := by
  cases l with
  | nil => simp [minFold] at h
  | cons c rest =>
    simp only [minFold, Option.some.injEq] at h
    subst h
    have key : ∀ (l : List Rat) (init : Rat),
        (l.foldl (fun a c => if c < a then c else a) init ≤ init) ∧
        ∀ a ∈ l, l.foldl (fun a c => if c < a then c else a) init ≤ a := by
      intro l
      induction l with
      | nil => intro init; exact ⟨le_refl _, fun a ha => by simp at ha⟩
      | cons d l ih =>
        intro init
        rw [List.foldl_cons]
        obtain ⟨h1, h2⟩ := ih (if d < init then d else init)
        refine ⟨le_trans h1 (by split <;> linarith), ?_⟩
        intro a ha
        rcases List.mem_cons.mp ha with rfl | ha
        · refine le_trans h1 ?_; split <;> linarith
        · exact h2 a ha
    intro a ha
    rcases List.mem_cons.mp ha with rfl | ha
    · exact (key rest a).1
    · exact (key rest c).2 a ha

theorem minFold_mem {l : List Rat} {b : Rat} (h : minFold l = some b) : b ∈ l := by
  cases l with
  | nil => simp [minFold] at h
  | cons c rest =>
    simp only [minFold, Option.some.injEq] at h
    subst h
    have key : ∀ (l : List Rat) (init : Rat),
        l.foldl (fun a c => if c < a then c else a) init = init ∨
        l.foldl (fun a c => if c < a then c else a) init ∈ l := by
      intro l
      induction l with
      | nil => intro init; exact Or.inl rfl
      | cons d l ih =>
        intro init
        rw [List.foldl_cons]
        rcases ih (if d < init then d else init) with h | h
        · rw [h]; split
          · exact Or.inr List.mem_cons_self
          · exact Or.inl rfl
        · exact Or.inr (List.mem_cons_of_mem _ h)
    rcases key rest c with h | h
    · rw [h]; exact List.mem_cons_self
    · exact List.mem_cons_of_mem _ h

theorem mem_cells {m n i j : Nat} : (i, j) ∈ cells m n ↔ i < m ∧ j < n := by
  unfold cells
  simp only [List.mem_flatMap, List.mem_range, List.mem_map, Prod.mk.injEq]
  constructor
  · rintro ⟨a, ha, b, hb, rfl, rfl⟩; exact ⟨ha, hb⟩
  · rintro ⟨hi, hj⟩; exact ⟨i, hi, j, hj, rfl, rfl⟩

/-- what `_adj_coef` guarantees about its result -/
theorem adjCoef_bounds {q : Rat} {qt : Nat → Nat → Rat} {x : Mat Nat} {m n : Nat} {labD : LabD} {labP : LabP}
    {c : Rat} (hq : q < 1) (h : adjCoef q qt x m n labD labP = .ok c) :
    0 ≤ c ∧
    (∀ i < m, ∀ j < n, hasKey labD i = true → hasKey labP j = false → (mget x i j : Rat) - q > 0 →
      qt i j ≠ 0 ∧ ((mget x i j : Rat) - q) / qt i j ≤ c) ∧
    (∀ i < m, ∀ j < n, hasKey labD i = false → hasKey labP j = true → qt i j > 0 →
      1 / (((mget x i j : Rat) - q + 1) / qt i j) ≤ c) := by
  unfold adjCoef at h
  simp only at h
  split at h
  · simp at h
  · rename_i hz
    have halpha : ∀ i < m, ∀ j < n, hasKey labD i = true → hasKey labP j = false → (mget x i j : Rat) - q > 0 →
        qt i j ≠ 0 ∧ ((mget x i j : Rat) - q) / qt i j ≤
          maxFold 0 ((alphaCells q qt x m n labD labP).map (fun c => c.1 / c.2)) := by
      intro i hi j hj hd hp hs
      have hmem : ((mget x i j : Rat) - q, qt i j) ∈ alphaCells q qt x m n labD labP := by
        unfold alphaCells
        rw [List.mem_filterMap]
        exact ⟨(i, j), mem_cells.mpr ⟨hi, hj⟩, by simp [hd, hp, hs]⟩
      constructor
      · intro h0
        apply hz
        rw [List.any_eq_true]
        exact ⟨_, hmem, by simp [h0]⟩
      · apply maxFold_ge_mem
        rw [List.mem_map]
        exact ⟨_, hmem, rfl⟩
    have h0 : (0 : Rat) ≤ maxFold 0 ((alphaCells q qt x m n labD labP).map (fun c => c.1 / c.2)) :=
      maxFold_ge_init _ _
    split at h
    · simp only [Except.ok.injEq] at h; subst h
      refine ⟨h0, halpha, ?_⟩
      rename_i hnone
      intro i hi j hj hd hp hpos
      exfalso
      have hmem : ((mget x i j : Rat) - q + 1, qt i j) ∈ betaCells q qt x m n labD labP := by
        unfold betaCells
        rw [List.mem_filterMap]
        exact ⟨(i, j), mem_cells.mpr ⟨hi, hj⟩, by simp [hd, hp, hpos]⟩
      cases hb : (betaCells q qt x m n labD labP).map (fun c => c.1 / c.2) with
      | nil => simp at hb; rw [hb] at hmem; simp at hmem
      | cons a l => rw [hb] at hnone; simp [minFold] at hnone
    · rename_i beta hbeta
      simp only [Except.ok.injEq] at h
      have hbeta' : ∀ i < m, ∀ j < n, hasKey labD i = false → hasKey labP j = true → qt i j > 0 →
          beta ≤ ((mget x i j : Rat) - q + 1) / qt i j := by
        intro i hi j hj hd hp hpos
        apply minFold_le_mem hbeta
        rw [List.mem_map]
        refine ⟨((mget x i j : Rat) - q + 1, qt i j), ?_, rfl⟩
        unfold betaCells
        rw [List.mem_filterMap]
        exact ⟨(i, j), mem_cells.mpr ⟨hi, hj⟩, by simp [hd, hp, hpos]⟩
      have hbmem := minFold_mem hbeta
      rw [List.mem_map] at hbmem
      obtain ⟨bc, hbc, hbceq⟩ := hbmem
      have hbpos : 0 < beta := by
        unfold betaCells at hbc
        rw [List.mem_filterMap] at hbc
        obtain ⟨cell, _, hcell⟩ := hbc
        split at hcell
        · rename_i hcond
          simp only [Bool.and_eq_true, decide_eq_true_eq] at hcond
          simp only [Option.some.injEq] at hcell
          rw [← hbceq, ← hcell]
          apply div_pos _ hcond.2
          have : (0 : Rat) ≤ (mget x cell.1 cell.2 : Rat) := Nat.cast_nonneg _
          linarith
        · simp at hcell
      have hc : maxFold 0 ((alphaCells q qt x m n labD labP).map (fun c => c.1 / c.2)) ≤ c ∧ 1 / beta ≤ c := by
        rw [← h]; split
        · rename_i hge; exact ⟨le_refl _, hge⟩
        · rename_i hlt; exact ⟨le_of_lt (not_le.mp hlt), le_refl _⟩
      refine ⟨le_trans h0 hc.1, ?_, ?_⟩
      · intro i hi j hj hd hp hs
        obtain ⟨h1, h2⟩ := halpha i hi j hj hd hp hs
        exact ⟨h1, le_trans h2 hc.1⟩
      · intro i hi j hj hd hp hpos
        refine le_trans ?_ hc.2
        exact one_div_le_one_div_of_le hbpos (hbeta' i hi j hj hd hp hpos)

end VL.Biprop

namespace VL.Biprop
open Finset

theorem getD_map_range {α : Type} (f : Nat → α) (m i : Nat) (d : α) (hi : i < m) :
    ((List.range m).map f).getD i d = f i := by
  simp [List.getD_eq_getElem?_getD, hi]

theorem step_update {q : Rat} {V : Mat Rat} {tgt : List Nat} {s s' : State} {c : Rat}
    (h : step q ord V tgt s = .ok (.update s' c)) :
    s'.x = s.x ∧ c ≠ 0 ∧ c < 1 ∧ ∃ labD labP, adjCoef q (quot V s) s.x V.length (nCols V) labD labP = .ok c ∧
      s'.dc = (List.range V.length).map (fun i => if hasKey labD i then s.dc.getD i 0 * c else s.dc.getD i 0) ∧
      s'.pc = (List.range (nCols V)).map (fun j => if hasKey labP j then s.pc.getD j 0 / c else s.pc.getD j 0) := by
  unfold step at h
  simp only at h
  split at h
  · simp at h
  · generalize labeled q (quot V s) s.x V.length (nCols V) ord _ _ = L at h
    obtain ⟨labD, labP⟩ := L
    simp only at h
    split at h
    · split at h <;> simp at h
    · cases hadj : adjCoef q (quot V s) s.x V.length (nCols V) labD labP with
      | error e => rw [hadj] at h; simp at h
      | ok c' =>
        rw [hadj] at h
        simp only at h
        split at h
        · simp at h
        · rename_i hc
          simp only [Except.ok.injEq, Step.update.injEq] at h
          obtain ⟨hs, hcc⟩ := h
          subst hcc; subst hs
          simp only [Bool.or_eq_true, decide_eq_true_eq, not_or, not_le] at hc
          exact ⟨rfl, hc.1, hc.2, labD, labP, hadj, rfl, rfl⟩

/-- the loop invariant of tie-and-transfer: multipliers positive and every cell between its signposts under the
    current multipliers -/
def LoopInv (q : Rat) (V : Mat Rat) (m n : Nat) (s : State) : Prop :=
  (∀ i < m, 0 < s.dc.getD i 0) ∧ (∀ j < n, 0 < s.pc.getD j 0) ∧
  ∀ i < m, ∀ j < n, isRounding q (quot V s i j) (mget s.x i j)

theorem update_inv {q : Rat} {V : Mat Rat} {tgt : List Nat} {s s' : State} {c : Rat}
    (hq1 : q < 1) (hV : ∀ i j, 0 ≤ vget V i j)
    (hinv : LoopInv q V V.length (nCols V) s) (h : step q ord V tgt s = .ok (.update s' c)) :
    LoopInv q V V.length (nCols V) s' := by
  obtain ⟨hx, hc0, hc1, labD, labP, hadj, hdc, hpc⟩ := step_update h
  obtain ⟨hcnn, halpha, hbeta⟩ := adjCoef_bounds hq1 hadj
  have hcpos : 0 < c := lt_of_le_of_ne hcnn (Ne.symm hc0)
  obtain ⟨hd, hp, hcell⟩ := hinv
  have hdc' : ∀ i < V.length, s'.dc.getD i 0 = if hasKey labD i then s.dc.getD i 0 * c else s.dc.getD i 0 := by
    intro i hi; rw [hdc, getD_map_range _ _ _ _ hi]
  have hpc' : ∀ j < nCols V, s'.pc.getD j 0 = if hasKey labP j then s.pc.getD j 0 / c else s.pc.getD j 0 := by
    intro j hj; rw [hpc, getD_map_range _ _ _ _ hj]
  refine ⟨?_, ?_, ?_⟩
  · intro i hi; rw [hdc' i hi]; split
    · exact mul_pos (hd i hi) hcpos
    · exact hd i hi
  · intro j hj; rw [hpc' j hj]; split
    · exact div_pos (hp j hj) hcpos
    · exact hp j hj
  · intro i hi j hj
    have hr := hcell i hi j hj
    have hqt0 : 0 ≤ quot V s i j := by
      unfold quot
      exact mul_nonneg (mul_nonneg (hV i j) (le_of_lt (hd i hi))) (le_of_lt (hp j hj))
    have hxnn : (0 : Rat) ≤ (mget s.x i j : Rat) := Nat.cast_nonneg _
    rw [hx]
    unfold quot at hr hqt0 ⊢
    rw [hdc' i hi, hpc' j hj]
    by_cases hdl : hasKey labD i = true
    · by_cases hpl : hasKey labP j = true
      · simp only [hdl, hpl, if_true]
        have : vget V i j * (s.dc.getD i 0 * c) * (s.pc.getD j 0 / c) = vget V i j * s.dc.getD i 0 * s.pc.getD j 0 := by
          field_simp
        rw [this]; exact hr
      · simp only [hdl, hpl, if_true]
        have hpl' : hasKey labP j = false := by simpa using hpl
        have e : vget V i j * (s.dc.getD i 0 * c) * s.pc.getD j 0 = vget V i j * s.dc.getD i 0 * s.pc.getD j 0 * c := by ring
        rw [if_neg (by simp), e]
        refine ⟨?_, ?_⟩
        · rcases hr.1 with h0 | h0
          · exact Or.inl h0
          · right
            by_cases hs : (mget s.x i j : Rat) - q > 0
            · obtain ⟨hne, hle⟩ := halpha i hi j hj hdl hpl' hs
              have hqtpos : 0 < quot V s i j := lt_of_le_of_ne hqt0 (Ne.symm hne)
              unfold quot at hne hle hqtpos
              rw [div_le_iff₀ hqtpos] at hle
              linarith
            · have : 0 ≤ vget V i j * s.dc.getD i 0 * s.pc.getD j 0 * c := mul_nonneg hqt0 hcnn
              linarith
        · have : vget V i j * s.dc.getD i 0 * s.pc.getD j 0 * c ≤ vget V i j * s.dc.getD i 0 * s.pc.getD j 0 := by
            nlinarith
          linarith [hr.2]
    · have hdl' : hasKey labD i = false := by simpa using hdl
      by_cases hpl : hasKey labP j = true
      · simp only [hdl', hpl, if_true]
        rw [if_neg (by simp)]
        have e : vget V i j * s.dc.getD i 0 * (s.pc.getD j 0 / c) = vget V i j * s.dc.getD i 0 * s.pc.getD j 0 / c := by ring
        rw [e]
        have hge : vget V i j * s.dc.getD i 0 * s.pc.getD j 0 ≤ vget V i j * s.dc.getD i 0 * s.pc.getD j 0 / c := by
          rw [le_div_iff₀ hcpos]; nlinarith
        refine ⟨?_, ?_⟩
        · rcases hr.1 with h0 | h0
          · exact Or.inl h0
          · right; linarith
        · by_cases hpos : quot V s i j > 0
          · have hb := hbeta i hi j hj hdl' hpl hpos
            unfold quot at hb hpos
            rw [one_div_div] at hb
            have hden : (0 : Rat) < (mget s.x i j : Rat) - q + 1 := by linarith
            rw [div_le_iff₀ hden] at hb
            rw [div_le_iff₀ hcpos]
            linarith
          · have h0 : vget V i j * s.dc.getD i 0 * s.pc.getD j 0 = 0 := by
              unfold quot at hpos; linarith
            rw [h0]; simp; linarith
      · simp only [hdl', hpl]
        simpa using hr

end VL.Biprop

namespace VL.Biprop
open Finset

/-- fuel does not influence a successful path construction -/
theorem augPath_det {labD : LabD} {labP : LabP} {over : List Nat} :
    ∀ (f f' d : Nat) (p1 p2 : List (Nat × Nat × Nat)),
      augPath labD labP over f d = .ok p1 → augPath labD labP over f' d = .ok p2 → p1 = p2
  | 0, _, _, _, _, h, _ => by simp [augPath] at h
  | _+1, 0, _, _, _, _, h => by simp [augPath] at h
  | f+1, f'+1, d, p1, p2, h1, h2 => by
    simp only [augPath] at h1 h2
    split at h1
    · rename_i hc; rw [if_pos hc] at h2
      simp only [Except.ok.injEq] at h1 h2; rw [← h1, ← h2]
    · rename_i hc; rw [if_neg hc] at h2
      split at h1
      · rename_i p hl
        split at h1
        · rename_i d' hl'
          simp only [hl, hl'] at h2
          cases hr1 : augPath labD labP over f d' with
          | error e => rw [hr1] at h1; simp at h1
          | ok r1 =>
            cases hr2 : augPath labD labP over f' d' with
            | error e => rw [hr2] at h2; simp at h2
            | ok r2 =>
              rw [hr1] at h1; rw [hr2] at h2
              simp only [Except.ok.injEq] at h1 h2
              rw [← h1, ← h2, augPath_det f f' d' r1 r2 hr1 hr2]
        · simp at h1
      · simp at h1

/-- shape of a successful path: it starts at `d`, consecutive triples are linked, every source district is
    outside `over`, the last target is in `over` -/
def chainFrom (over : List Nat) : Nat → List (Nat × Nat × Nat) → Prop
  | d, [] => d ∈ over
  | d, (a, _, b) :: rest => a = d ∧ d ∉ over ∧ chainFrom over b rest

theorem augPath_chain {labD : LabD} {labP : LabP} {over : List Nat} :
    ∀ (f d : Nat) (path : List (Nat × Nat × Nat)), augPath labD labP over f d = .ok path → chainFrom over d path
  | 0, _, _, h => by simp [augPath] at h
  | f+1, d, path, h => by
    simp only [augPath] at h
    split at h
    · rename_i hc
      simp only [Except.ok.injEq] at h; subst h
      simpa [chainFrom] using hc
    · rename_i hc
      split at h
      · split at h
        · rename_i d' _
          cases hr : augPath labD labP over f d' with
          | error e => rw [hr] at h; simp at h
          | ok r =>
            rw [hr] at h
            simp only [Except.ok.injEq] at h; subst h
            exact ⟨rfl, by simpa using hc, augPath_chain f d' r hr⟩
        · simp at h
      · simp at h

/-- every source district on a successful path is itself the start of a successful (shorter) path -/
theorem augPath_suffix {labD : LabD} {labP : LabP} {over : List Nat} :
    ∀ (f d : Nat) (path : List (Nat × Nat × Nat)), augPath labD labP over f d = .ok path →
      ∀ a ∈ path.map (·.1), ∃ f' sfx, augPath labD labP over f' a = .ok sfx ∧ sfx.length ≤ path.length
  | 0, _, _, h => by simp [augPath] at h
  | f+1, d, path, h => by
    intro a ha
    have h0 := h
    simp only [augPath] at h
    split at h
    · simp only [Except.ok.injEq] at h; subst h; simp at ha
    · split at h
      · split at h
        · rename_i d' _
          cases hr : augPath labD labP over f d' with
          | error e => rw [hr] at h; simp at h
          | ok r =>
            rw [hr] at h
            simp only [Except.ok.injEq] at h; subst h
            simp only [List.map_cons, List.mem_cons] at ha
            rcases ha with rfl | ha
            · exact ⟨f+1, _, h0, le_refl _⟩
            · obtain ⟨f', sfx, h1, h2⟩ := augPath_suffix f d' r hr a ha
              exact ⟨f', sfx, h1, by simp; omega⟩
        · simp at h
      · simp at h

theorem augPath_nodup {labD : LabD} {labP : LabP} {over : List Nat} :
    ∀ (f d : Nat) (path : List (Nat × Nat × Nat)), augPath labD labP over f d = .ok path →
      (path.map (·.1)).Nodup
  | 0, _, _, h => by simp [augPath] at h
  | f+1, d, path, h => by
    have h0 := h
    simp only [augPath] at h
    split at h
    · simp only [Except.ok.injEq] at h; subst h; simp
    · split at h
      · split at h
        · rename_i p _ d' _
          cases hr : augPath labD labP over f d' with
          | error e => rw [hr] at h; simp at h
          | ok r =>
            rw [hr] at h
            simp only [Except.ok.injEq] at h; subst h
            simp only [List.map_cons, List.nodup_cons]
            refine ⟨?_, augPath_nodup f d' r hr⟩
            intro hmem
            obtain ⟨f', sfx, h1, h2⟩ := augPath_suffix f d' r hr d hmem
            have := augPath_det _ _ _ _ _ h1 h0
            rw [this] at h2
            simp at h2
        · simp at h
      · simp at h

theorem chain_firsts_not_over {over : List Nat} : ∀ (d : Nat) (path : List (Nat × Nat × Nat)),
    chainFrom over d path → ∀ a ∈ path.map (·.1), a ∉ over
  | _, [], _, a, ha => by simp at ha
  | d, (a', p, b) :: rest, h, a, ha => by
    obtain ⟨h1, h2, h3⟩ := h
    simp only [List.map_cons, List.mem_cons] at ha
    rcases ha with rfl | ha
    · rw [h1]; exact h2
    · exact chain_firsts_not_over b rest h3 a ha

/-- target districts of a chain: the later sources, or the final district in `over` -/
theorem chain_thirds {over : List Nat} : ∀ (d : Nat) (path : List (Nat × Nat × Nat)),
    chainFrom over d path → ∀ t ∈ path.map (·.2.2), t ∈ (path.map (·.1)).tail ∨ t ∈ over
  | _, [], _, t, ht => by simp at ht
  | d, (a, p, b) :: rest, h, t, ht => by
    obtain ⟨_, _, h3⟩ := h
    simp only [List.map_cons, List.mem_cons] at ht
    simp only [List.map_cons, List.tail_cons]
    rcases ht with rfl | ht
    · cases rest with
      | nil => right; simpa [chainFrom] using h3
      | cons c rest' =>
        obtain ⟨a', p', b'⟩ := c
        left; simp [chainFrom] at h3; simp [h3.1]
    · rcases chain_thirds b rest h3 t ht with h | h
      · left; exact List.mem_of_mem_tail h
      · right; exact h

theorem chain_thirds_nodup {over : List Nat} : ∀ (d : Nat) (path : List (Nat × Nat × Nat)),
    chainFrom over d path → (path.map (·.1)).Nodup → (path.map (·.2.2)).Nodup
  | _, [], _, _ => by simp
  | d, (a, p, b) :: rest, h, hn => by
    obtain ⟨h1, h2, h3⟩ := h
    simp only [List.map_cons, List.nodup_cons] at hn ⊢
    refine ⟨?_, chain_thirds_nodup b rest h3 hn.2⟩
    intro hb
    rcases chain_thirds b rest h3 b hb with h | h
    · -- b is the first source of `rest`, so it cannot be a later source
      cases rest with
      | nil => simp at hb
      | cons c rest' =>
        obtain ⟨a', p', b'⟩ := c
        simp only [chainFrom] at h3
        simp only [List.map_cons, List.tail_cons] at h
        have := hn.2
        simp only [List.map_cons, List.nodup_cons] at this
        exact this.1 (h3.1 ▸ h)
    · cases rest with
      | nil => simp at hb
      | cons c rest' =>
        obtain ⟨a', p', b'⟩ := c
        simp only [chainFrom] at h3
        exact h3.2.1 h

end VL.Biprop

namespace VL.Biprop
open Finset

/-- how often cell `(i, j)` receives a seat / loses a seat along a path -/
def ups (path : List (Nat × Nat × Nat)) (i j : Nat) : Nat := path.countP (fun t => t.1 == i && t.2.1 == j)
def downs (path : List (Nat × Nat × Nat)) (i j : Nat) : Nat := path.countP (fun t => t.2.2 == i && t.2.1 == j)

/-- exact bookkeeping of `applyPath` (no distinctness needed: the `KeyError` check makes every subtraction exact) -/
theorem applyPath_count {m n : Nat} : ∀ (path : List (Nat × Nat × Nat)) (x x' : Mat Nat),
    shapeOk x m n = true → PathIn m n path → applyPath path x = .ok x' →
    ∀ i j, mget x' i j + downs path i j = mget x i j + ups path i j
  | [], x, x', _, _, h => by
    simp only [applyPath, Except.ok.injEq] at h; subst h; intro i j; simp [ups, downs]
  | (d, p, d') :: rest, x, x', hs, hin, h => by
    obtain ⟨hd, hp, hd'⟩ : d < m ∧ p < n ∧ d' < m := hin (d, p, d') (List.mem_cons_self)
    simp only [applyPath] at h
    split at h
    · exact absurd h (by simp)
    · rename_i hne
      have hs1 : shapeOk (madd1 x d p) m n = true := shapeOk_modify hs d p _
      have hs2 : shapeOk (msub1 (madd1 x d p) d' p) m n = true := shapeOk_modify hs1 d' p _
      have ih := applyPath_count rest _ x' hs2 (fun c hc => hin c (List.mem_cons_of_mem _ hc)) h
      intro i j
      have := ih i j
      rw [mget_msub1 hs1 hd' hp, mget_madd1 hs hd hp] at this
      rw [mget_madd1 hs hd hp] at hne
      unfold ups downs at this ⊢
      simp only [List.countP_cons]
      by_cases h1 : d = i ∧ p = j
      · by_cases h2 : d' = i ∧ p = j
        · obtain ⟨rfl, rfl⟩ := h1
          simp only [h2.1] at *
          simp at this hne ⊢; omega
        · have h2' : ¬ (d' = i ∧ p = j) := h2
          obtain ⟨rfl, rfl⟩ := h1
          have hd'i : d' ≠ d := fun hh => h2 ⟨hh, rfl⟩
          simp [hd'i] at this ⊢; omega
      · by_cases h2 : d' = i ∧ p = j
        · obtain ⟨rfl, rfl⟩ := h2
          have hdd : d ≠ d' := fun hh => h1 ⟨hh, rfl⟩
          simp [hdd] at this hne ⊢; omega
        · have e1 : ((d == i) && (p == j)) = false := by
            simp only [Bool.and_eq_false_iff, beq_eq_false_iff_ne]; by_contra hh; push Not at hh; exact h1 hh
          have e2 : ((d' == i) && (p == j)) = false := by
            simp only [Bool.and_eq_false_iff, beq_eq_false_iff_ne]; by_contra hh; push Not at hh; exact h2 hh
          simp [e1, e2, h1, h2] at this ⊢; omega

theorem countP_le_one_of_nodup_map {α : Type} (f : α → Nat) (l : List α) (h : (l.map f).Nodup) (a : Nat)
    (p : α → Bool) (hp : ∀ t, p t = true → f t = a) : l.countP p ≤ 1 := by
  have h1 : l.countP p ≤ l.countP (fun t => f t == a) := by
    apply List.countP_mono_left
    intro t _ ht; simpa using hp t ht
  have h2 : l.countP (fun t => f t == a) = (l.map f).count a := by
    rw [List.count, List.countP_map]; rfl
  have h3 := List.nodup_iff_count_le_one.mp h a
  omega

theorem isUp_isDown_false {q qt : Rat} {s : Nat} (h1 : isUp q qt s = true) (h2 : isDown q qt s = true) : False := by
  simp only [isUp, isDown, Bool.and_eq_true, beq_iff_eq, decide_eq_true_eq] at h1 h2
  linarith [h1.2, h2.1.2]

theorem isRounding_up {q qt : Rat} {s : Nat} (h : isUp q qt s = true) : isRounding q qt (s + 1) := by
  simp only [isUp, Bool.and_eq_true, beq_iff_eq] at h
  refine ⟨Or.inr ?_, ?_⟩ <;> push_cast <;> linarith [h.2]

theorem isRounding_down {q qt : Rat} {s : Nat} (h : isDown q qt s = true) : isRounding q qt (s - 1) := by
  simp only [isDown, Bool.and_eq_true, beq_iff_eq, decide_eq_true_eq] at h
  obtain ⟨⟨_, h2⟩, h3⟩ := h
  have : ((s - 1 : Nat) : Rat) = (s : Rat) - 1 := by
    rw [Nat.cast_sub h3]; simp
  refine ⟨Or.inr ?_, ?_⟩ <;> rw [this] <;> linarith

end VL.Biprop
