/-
  Helper lemmas for C07: bounded sums / quantifiers of the checkers, matrix access after `List.modify`.
-/
import VotelibModel.Biprop
import Mathlib.Algebra.BigOperators.Group.Finset.Basic
import Mathlib.Algebra.BigOperators.Group.Finset.Sigma
import Mathlib.Algebra.Order.BigOperators.Group.Finset
import Mathlib.Algebra.Order.Ring.Rat
import Mathlib.Algebra.Order.Field.Basic
import Mathlib.Tactic.Linarith
import Mathlib.Tactic.Ring
namespace VL.Biprop
open Finset

theorem sumN_eq_sum (f : Nat → Nat) (n : Nat) : sumN f n = ∑ k ∈ range n, f k := by
  induction n with
  | zero => simp [sumN]
  | succ k ih => rw [sumN, ih, Finset.sum_range_succ]

theorem allN_iff (p : Nat → Bool) (n : Nat) : allN p n = true ↔ ∀ k < n, p k = true := by
  induction n with
  | zero => simp [allN]
  | succ k ih =>
    rw [allN, Bool.and_eq_true, ih]
    constructor
    · rintro ⟨h1, h2⟩ j hj
      rcases Nat.lt_succ_iff_lt_or_eq.mp hj with h | h
      · exact h1 j h
      · subst h; exact h2
    · intro h
      exact ⟨fun j hj => h j (Nat.lt_succ_of_lt hj), h k (Nat.lt_succ_self k)⟩

theorem sumN_getD (l : List Nat) : sumN (fun j => l.getD j 0) l.length = l.sum := by
  induction l using List.reverseRecOn with
  | nil => simp [sumN]
  | append_singleton l a ih =>
    rw [List.length_append, List.length_singleton, sumN, List.sum_append]
    have h1 : sumN (fun j => (l ++ [a]).getD j 0) l.length = sumN (fun j => l.getD j 0) l.length := by
      rw [sumN_eq_sum, sumN_eq_sum]
      apply Finset.sum_congr rfl
      intro j hj
      have hj' : j < l.length := Finset.mem_range.mp hj
      simp [List.getD_eq_getElem?_getD, List.getElem?_append_left hj']
    rw [h1, ih]
    simp [List.getD_eq_getElem?_getD]

theorem sumN_col (x : Mat Nat) (j : Nat) :
    sumN (fun i => mget x i j) x.length = (x.map (fun r => r.getD j 0)).sum := by
  have := sumN_getD (x.map (fun r => r.getD j 0))
  rw [List.length_map] at this
  rw [← this, sumN_eq_sum, sumN_eq_sum]
  apply Finset.sum_congr rfl
  intro i hi
  have hi' : i < x.length := Finset.mem_range.mp hi
  simp [mget, List.getD_eq_getElem?_getD, List.getElem?_map, List.getElem?_eq_getElem hi']

theorem shapeOk_iff {α : Type} (M : Mat α) (m n : Nat) :
    shapeOk M m n = true ↔ M.length = m ∧ ∀ r ∈ M, r.length = n := by
  simp [shapeOk, List.all_eq_true]

theorem shapeOk_row {α : Type} {M : Mat α} {m n : Nat} (h : shapeOk M m n = true) {i : Nat} (hi : i < m) :
    (M.getD i []).length = n := by
  obtain ⟨h1, h2⟩ := (shapeOk_iff M m n).mp h
  have hi' : i < M.length := by omega
  rw [List.getD_eq_getElem?_getD, List.getElem?_eq_getElem hi']
  exact h2 _ (List.getElem_mem hi')

end VL.Biprop
