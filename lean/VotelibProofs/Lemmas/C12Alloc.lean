/-
  Helper lemmas for C12 (allocated score): `_find_best_votes` and `_fraction_out_elected` spend one quota of the
  strongest supporters.
-/
import VotelibModel.Score
import Mathlib.Algebra.Order.Field.Basic
import Mathlib.Algebra.Order.Ring.Rat
import Mathlib.Algebra.BigOperators.Group.List.Basic
import Mathlib.Algebra.Order.BigOperators.Group.List
import Mathlib.Algebra.Order.Group.MinMax
import Mathlib.Tactic.Linarith
import Mathlib.Tactic.FieldSimp
import Mathlib.Tactic.Ring
namespace VL.Score
open VL

set_option linter.unusedSimpArgs false

/-- the scan step of `_find_best_votes` -/
def fbStep (cand : Cand) (acc : List SBallot × Option Rat) (bw : SBallot × Rat) : List SBallot × Option Rat :=
  match ballotScore bw.1 cand with
  | none => acc
  | some s =>
    match acc.2 with
    | none => ([bw.1], some s)
    | some b => if s > b then ([bw.1], some s) else if s = b then (acc.1 ++ [bw.1], some b) else acc

/-- the ballots of `cv` that grade `cand` exactly `m` -/
def gradeGroup (cv : WProfile) (cand : Cand) (m : Rat) : List SBallot :=
  (cv.filter (fun bw => ballotScore bw.1 cand = some m)).map (·.1)

def FbInv (cand : Cand) (pre : WProfile) (acc : List SBallot × Option Rat) : Prop :=
  match acc.2 with
  | none => acc.1 = [] ∧ ∀ bw ∈ pre, ballotScore bw.1 cand = none
  | some m =>
    (∀ bw ∈ pre, ∀ s, ballotScore bw.1 cand = some s → s ≤ m) ∧
    acc.1 = gradeGroup pre cand m ∧ ∃ bw ∈ pre, ballotScore bw.1 cand = some m

theorem fbInv_step {cand : Cand} {pre : WProfile} {acc : List SBallot × Option Rat}
    (h : FbInv cand pre acc) (bw : SBallot × Rat) : FbInv cand (pre ++ [bw]) (fbStep cand acc bw) := by
  obtain ⟨l, o⟩ := acc
  unfold fbStep
  cases hs : ballotScore bw.1 cand with
  | none =>
    simp only
    cases o with
    | none =>
      obtain ⟨h1, h2⟩ := h
      refine ⟨h1, ?_⟩
      intro b hb
      rcases List.mem_append.mp hb with hb | hb
      · exact h2 b hb
      · simp at hb; subst hb; exact hs
    | some m =>
      obtain ⟨h1, h2, b0, hb0, hb0s⟩ := h
      refine ⟨?_, ?_, b0, List.mem_append_left _ hb0, hb0s⟩
      · intro b hb s hbs
        rcases List.mem_append.mp hb with hb | hb
        · exact h1 b hb s hbs
        · simp at hb; subst hb; rw [hs] at hbs; cases hbs
      · simp only at h2 ⊢
        rw [h2]; unfold gradeGroup
        simp [List.filter_append, List.filter_cons, hs]
  | some s =>
    simp only
    cases o with
    | none =>
      obtain ⟨_, h2⟩ := h
      refine ⟨?_, ?_, bw, by simp, hs⟩
      · intro b hb s' hbs
        rcases List.mem_append.mp hb with hb | hb
        · rw [h2 b hb] at hbs; cases hbs
        · simp at hb; subst hb; rw [hs] at hbs; injection hbs with hbs; rw [hbs]
      · unfold gradeGroup
        have : pre.filter (fun b => ballotScore b.1 cand = some s) = [] := by
          rw [List.filter_eq_nil_iff]
          intro b hb
          simp [h2 b hb]
        simp [List.filter_append, this, List.filter_cons, hs]
    | some m =>
      obtain ⟨h1, h2, b0, hb0, hb0s⟩ := h
      simp only at h2
      show FbInv cand (pre ++ [bw])
        (if s > m then ([bw.1], some s) else if s = m then (l ++ [bw.1], some m) else (l, some m))
      by_cases hgt : s > m
      · rw [if_pos hgt]
        refine ⟨?_, ?_, bw, by simp, hs⟩
        · intro b hb s' hbs
          rcases List.mem_append.mp hb with hb | hb
          · exact le_of_lt (lt_of_le_of_lt (h1 b hb s' hbs) hgt)
          · simp at hb; subst hb; rw [hs] at hbs; injection hbs with hbs; rw [hbs]
        · unfold gradeGroup
          have : pre.filter (fun b => ballotScore b.1 cand = some s) = [] := by
            rw [List.filter_eq_nil_iff]
            intro b hb
            simp only [decide_eq_true_eq]
            intro hbs
            exact absurd (h1 b hb s hbs) (not_le.mpr hgt)
          simp [List.filter_append, this, List.filter_cons, hs]
      · rw [if_neg hgt]
        by_cases heq : s = m
        · rw [if_pos heq]
          refine ⟨?_, ?_, b0, List.mem_append_left _ hb0, hb0s⟩
          · intro b hb s' hbs
            rcases List.mem_append.mp hb with hb | hb
            · exact h1 b hb s' hbs
            · simp at hb; subst hb; rw [hs] at hbs; injection hbs with hbs; rw [← hbs, heq]
          · simp only
            rw [h2]; unfold gradeGroup
            simp [List.filter_append, List.filter_cons, hs, heq]
        · rw [if_neg heq]
          refine ⟨?_, ?_, b0, List.mem_append_left _ hb0, hb0s⟩
          · intro b hb s' hbs
            rcases List.mem_append.mp hb with hb | hb
            · exact h1 b hb s' hbs
            · simp at hb; subst hb; rw [hs] at hbs; injection hbs with hbs
              rw [← hbs]; exact not_lt.mp hgt
          · simp only
            rw [h2]; unfold gradeGroup
            have : ¬ (some s = some m) := fun h => heq (by injection h)
            simp [List.filter_append, List.filter_cons, hs, this]

theorem fbInv_foldl {cand : Cand} (suf : WProfile) :
    ∀ (pre : WProfile) (acc : List SBallot × Option Rat), FbInv cand pre acc →
      FbInv cand (pre ++ suf) (suf.foldl (fbStep cand) acc) := by
  induction suf with
  | nil => intro pre acc h; simpa using h
  | cons x xs ih =>
    intro pre acc h
    have := ih (pre ++ [x]) (fbStep cand acc x) (fbInv_step h x)
    simpa using this

theorem mapM_ok_mem {α β : Type} {f : α → Except Err β} : ∀ {l : List α} {r : List β}, l.mapM f = .ok r →
    ∀ x ∈ l, ∃ y ∈ r, f x = .ok y := by
  intro l
  induction l with
  | nil => intro r _ x hx; cases hx
  | cons a as ih =>
    intro r h x hx
    rw [List.mapM_cons] at h
    cases ha : f a with
    | error e => rw [ha] at h; cases h
    | ok b =>
      rw [ha] at h
      cases hr : as.mapM f with
      | error e => rw [hr] at h; cases h
      | ok bs =>
        rw [hr] at h
        injection h with h
        subst h
        rcases List.mem_cons.mp hx with rfl | hx
        · exact ⟨b, by simp, ha⟩
        · obtain ⟨y, hy, hfy⟩ := ih hr x hx
          exact ⟨y, List.mem_cons_of_mem _ hy, hfy⟩

/-- `_find_best_votes` never raises -/
theorem findBestVotes_ok (cv : WProfile) (c : Cand) : ∃ best, findBestVotes cv c = .ok best := ⟨_, rfl⟩

/-- **`_find_best_votes`** returns exactly the ballots grading `cand` highest (all ballots giving the greatest grade `m`
    that any ballot gives `cand`), and nothing iff nobody grades `cand` -/
theorem findBestVotes_spec {cv : WProfile} {cand : Cand} {best : List SBallot} (h : findBestVotes cv cand = .ok best) :
    (best = [] ∧ ∀ bw ∈ cv, ballotScore bw.1 cand = none) ∨
    (∃ m, best = gradeGroup cv cand m ∧ best ≠ [] ∧ ∀ bw ∈ cv, ∀ s, ballotScore bw.1 cand = some s → s ≤ m) := by
  unfold findBestVotes at h
  simp only [pure, Except.pure] at h
  injection h with h
  replace h : (cv.foldl (fbStep cand) ([], none)).1 = best := h
  have hinv := fbInv_foldl (cand := cand) cv [] ([], none) ⟨rfl, by simp⟩
  simp only [List.nil_append] at hinv
  set acc := cv.foldl (fbStep cand) ([], none) with hacc
  unfold FbInv at hinv
  cases ho : acc.2 with
  | none =>
    rw [ho] at hinv
    left
    exact ⟨by rw [← h]; exact hinv.1, hinv.2⟩
  | some m =>
    rw [ho] at hinv
    obtain ⟨i1, i2, bw, hbw, hbs⟩ := hinv
    right
    refine ⟨m, by rw [← h, i2], ?_, i1⟩
    rw [← h, i2]
    intro hnil
    unfold gradeGroup at hnil
    rw [List.map_eq_nil_iff, List.filter_eq_nil_iff] at hnil
    have := hnil bw hbw
    simp [hbs] at this

theorem ballotScore_mem {b : SBallot} {c : Cand} {s : Rat} (h : ballotScore b c = some s) : (c, s) ∈ b := by
  unfold ballotScore at h
  cases hf : b.find? (fun p => decide (p.1 = c)) with
  | none => rw [hf] at h; cases h
  | some p =>
    rw [hf] at h
    injection h with h
    have hm := List.mem_of_find?_eq_some hf
    have hp := List.find?_some hf
    simp only [decide_eq_true_eq] at hp
    have : p = (c, s) := Prod.ext hp h
    rw [← this]; exact hm

end VL.Score

namespace VL.Score
open VL

set_option linter.unusedSimpArgs false

/-- total remaining ballot weight -/
def totalW (cv : WProfile) : Rat := (cv.map (·.2)).sum
/-- weight of the ballots that grade `c` -/
def supportW (cv : WProfile) (c : Cand) : Rat :=
  ((cv.filter (fun bw => (ballotScore bw.1 c).isSome)).map (·.2)).sum
/-- weight of the ballots that grade `c` exactly `m` -/
def groupW (cv : WProfile) (c : Cand) (m : Rat) : Rat :=
  ((cv.filter (fun bw => ballotScore bw.1 c = some m)).map (·.2)).sum

/-- a `current_votes` dict: distinct ballots, positive weights -/
def WFW (cv : WProfile) : Prop := (cv.map (·.1)).Nodup ∧ ∀ bw ∈ cv, 0 < bw.2

theorem sum_filter_split {α : Type} (l : List α) (P : α → Bool) (f : α → Rat) :
    (l.map f).sum = ((l.filter P).map f).sum + ((l.filter (fun x => !P x)).map f).sum := by
  induction l with
  | nil => simp
  | cons x xs ih =>
    by_cases h : P x = true
    · simp [List.filter_cons, h, ih]; ring
    · have h' : P x = false := by simpa using h
      simp [List.filter_cons, h', ih]; ring

theorem weightOf_mem {cv : WProfile} (hnd : (cv.map (·.1)).Nodup) {bw : SBallot × Rat} (h : bw ∈ cv) :
    weightOf cv bw.1 = bw.2 := by
  induction cv with
  | nil => cases h
  | cons q rest ih =>
    have hq := List.nodup_cons.mp hnd
    unfold weightOf
    rcases List.mem_cons.mp h with rfl | h'
    · simp [List.find?_cons]
    · have hne : ¬ q.1 = bw.1 := by
        intro he
        apply hq.1
        exact List.mem_map.mpr ⟨bw, h', he.symm⟩
      simp only [List.find?_cons, hne, decide_false]
      exact ih hq.2 h'

theorem group_cur {cv : WProfile} (hnd : (cv.map (·.1)).Nodup) (c : Cand) (m : Rat) :
    ((gradeGroup cv c m).map (weightOf cv)).sum = groupW cv c m := by
  unfold gradeGroup groupW
  rw [List.map_map]
  apply congrArg
  apply List.map_congr_left
  intro bw hbw
  exact weightOf_mem hnd (List.mem_filter.mp hbw).1

theorem mem_gradeGroup {cv : WProfile} {c : Cand} {m : Rat} {bw : SBallot × Rat} (h : bw ∈ cv) :
    (gradeGroup cv c m).contains bw.1 = decide (ballotScore bw.1 c = some m) := by
  unfold gradeGroup
  by_cases hs : ballotScore bw.1 c = some m
  · have : bw.1 ∈ (cv.filter (fun b => ballotScore b.1 c = some m)).map (·.1) :=
      List.mem_map.mpr ⟨bw, List.mem_filter.mpr ⟨h, by simpa using hs⟩, rfl⟩
    simp [hs, this]
  · have : bw.1 ∉ (cv.filter (fun b => ballotScore b.1 c = some m)).map (·.1) := by
      intro hm
      obtain ⟨b', hb', he⟩ := List.mem_map.mp hm
      have := (List.mem_filter.mp hb').2
      simp only [decide_eq_true_eq] at this
      rw [he] at this
      exact hs this
    simp [hs, this]

theorem groupW_le_supportW {cv : WProfile} (hpos : ∀ bw ∈ cv, 0 < bw.2) (c : Cand) (m : Rat) :
    groupW cv c m ≤ supportW cv c := by
  unfold groupW supportW
  induction cv with
  | nil => simp
  | cons bw rest ih =>
    have ih' := ih (fun b hb => hpos b (List.mem_cons_of_mem _ hb))
    have hw := hpos bw List.mem_cons_self
    cases hs : ballotScore bw.1 c with
    | none => simpa [List.filter_cons, hs] using ih'
    | some s =>
      by_cases hsm : s = m
      · simp [List.filter_cons, hs, hsm]; linarith
      · have : ¬ (some s = some m) := fun h => hsm (by injection h)
        simp [List.filter_cons, hs, this]; linarith

theorem supportW_nonneg {cv : WProfile} (hpos : ∀ bw ∈ cv, 0 < bw.2) (c : Cand) : 0 ≤ supportW cv c := by
  unfold supportW
  apply List.sum_nonneg
  intro x hx
  obtain ⟨bw, hbw, rfl⟩ := List.mem_map.mp hx
  exact le_of_lt (hpos bw (List.mem_filter.mp hbw).1)

theorem supportW_zero {cv : WProfile} {c : Cand} (h : ∀ bw ∈ cv, ballotScore bw.1 c = none) : supportW cv c = 0 := by
  unfold supportW
  have : cv.filter (fun bw => (ballotScore bw.1 c).isSome) = [] := by
    rw [List.filter_eq_nil_iff]
    intro bw hbw
    simp [h bw hbw]
  rw [this]; simp

theorem groupW_pos {cv : WProfile} (hpos : ∀ bw ∈ cv, 0 < bw.2) {c : Cand} {m : Rat} (hne : gradeGroup cv c m ≠ []) :
    0 < groupW cv c m := by
  unfold groupW
  unfold gradeGroup at hne
  have hne' : cv.filter (fun bw => ballotScore bw.1 c = some m) ≠ [] := fun h => hne (by rw [h]; rfl)
  obtain ⟨bw, hbw⟩ := List.exists_mem_of_ne_nil _ hne'
  have hall : ∀ x ∈ (cv.filter (fun bw => ballotScore bw.1 c = some m)).map (·.2), 0 < x := by
    intro x hx
    obtain ⟨b, hb, rfl⟩ := List.mem_map.mp hx
    exact hpos b (List.mem_filter.mp hb).1
  generalize (cv.filter (fun bw => ballotScore bw.1 c = some m)) = l at hne' hall
  cases l with
  | nil => exact absurd rfl hne'
  | cons a as =>
    simp only [List.map_cons, List.sum_cons]
    have h1 := hall a.2 (by simp)
    have h2 : 0 ≤ (as.map (·.2)).sum := by
      apply List.sum_nonneg
      intro x hx
      exact le_of_lt (hall x (by simp only [List.map_cons, List.mem_cons]; exact Or.inr hx))
    linarith

end VL.Score

namespace VL.Score
open VL

set_option linter.unusedSimpArgs false

theorem sum_scale (cv : WProfile) (P : SBallot × Rat → Bool) (f : Rat) :
    (cv.map (fun bw => if P bw then bw.2 * f else bw.2)).sum =
      (cv.map (·.2)).sum - (1 - f) * ((cv.filter P).map (·.2)).sum := by
  induction cv with
  | nil => simp
  | cons x xs ih =>
    by_cases h : P x = true
    · simp only [List.map_cons, List.sum_cons, h, if_true, List.filter_cons, ih]; ring
    · have h' : P x = false := by simpa using h
      simp only [List.map_cons, List.sum_cons, h', Bool.false_eq_true, if_false, List.filter_cons, ih]; ring

theorem support_split (cv : WProfile) (c : Cand) (m : Rat) :
    supportW cv c = groupW cv c m + supportW (cv.filter (fun bw => !decide (ballotScore bw.1 c = some m))) c := by
  unfold supportW groupW
  induction cv with
  | nil => simp
  | cons bw rest ih =>
    cases hs : ballotScore bw.1 c with
    | none =>
      simp only [List.filter_cons, hs, Option.isSome_none, Bool.false_eq_true, if_false, reduceCtorEq, decide_false,
        Bool.not_false, if_true]
      exact ih
    | some s =>
      by_cases hsm : s = m
      · subst hsm
        simp only [List.filter_cons, hs, Option.isSome_some, if_true, decide_true, Bool.not_true, Bool.false_eq_true,
          if_false, List.map_cons, List.sum_cons, ih]
        ring
      · have : ¬ (some s = some m) := fun h => hsm (by injection h)
        simp only [List.filter_cons, hs, Option.isSome_some, if_true, this, decide_false, Bool.not_false,
          Bool.false_eq_true, if_false, List.map_cons, List.sum_cons, ih]
        ring

/-- **`_fraction_out_elected` spends one quota of the strongest supporters.**  On a `current_votes` dict with distinct
    ballots and positive weights, with `q ≥ 0`: if the call returns, the total ballot weight has dropped by exactly
    `min q (weight of the ballots grading c)`, ballots not grading `c` are untouched, and the result is again such a dict. -/
theorem fractionOut_spends : ∀ (fuel : Nat) (cv : WProfile) (c : Cand) (q : Rat) (cv' : WProfile),
    fractionOut fuel cv c q = .ok cv' → cv.length < fuel → 0 ≤ q → WFW cv →
      totalW cv' = totalW cv - min q (supportW cv c) ∧ WFW cv' ∧
      (∀ bw ∈ cv, ballotScore bw.1 c = none → bw ∈ cv') := by
  intro fuel
  induction fuel with
  | zero => intro cv c q cv' _ hlen; omega
  | succ fuel ih =>
    intro cv c q cv' h hlen hq hwf
    have hSnn := supportW_nonneg hwf.2 c
    unfold fractionOut at h
    by_cases hq0 : q > 0
    · rw [if_pos hq0] at h
      cases hb : findBestVotes cv c with
      | error e => rw [hb] at h; cases h
      | ok best =>
        rw [hb] at h
        simp only [bind, Except.bind] at h
        rcases findBestVotes_spec hb with ⟨hnil, hnone⟩ | ⟨m, hbest, hne, hmax⟩
        · subst hnil
          simp only [List.map_nil, List.sum_nil, if_true, pure, Except.pure] at h
          injection h with h; subst h
          rw [supportW_zero hnone, min_eq_right hq]
          exact ⟨by ring, hwf, fun bw hbw _ => hbw⟩
        · have hcur : (best.map (weightOf cv)).sum = groupW cv c m := by rw [hbest]; exact group_cur hwf.1 c m
          have hgpos : 0 < groupW cv c m := groupW_pos hwf.2 (hbest ▸ hne)
          have hgle := groupW_le_supportW hwf.2 c m
          rw [hcur] at h
          rw [if_neg (ne_of_gt hgpos)] at h
          have hcont : ∀ bw ∈ cv, best.contains bw.1 = decide (ballotScore bw.1 c = some m) := by
            intro bw hbw; rw [hbest]; exact mem_gradeGroup hbw
          by_cases hgt : groupW cv c m > q
          · rw [if_pos hgt] at h
            simp only [pure, Except.pure] at h
            injection h with h; subst h
            have hf : 0 < (groupW cv c m - q) / groupW cv c m := div_pos (by linarith) hgpos
            refine ⟨?_, ⟨?_, ?_⟩, ?_⟩
            · unfold totalW
              rw [List.map_map]
              have : (cv.map ((fun x => x.2) ∘ fun bw =>
                    if best.contains bw.1 = true then (bw.1, bw.2 * ((groupW cv c m - q) / groupW cv c m)) else bw)) =
                  cv.map (fun bw => if decide (ballotScore bw.1 c = some m) then
                    bw.2 * ((groupW cv c m - q) / groupW cv c m) else bw.2) := by
                apply List.map_congr_left
                intro bw hbw
                simp only [Function.comp, hcont bw hbw]
                split <;> rfl
              rw [this, sum_scale cv (fun bw => decide (ballotScore bw.1 c = some m))]
              have hmin : min q (supportW cv c) = q := min_eq_left (by linarith)
              rw [hmin]
              show _ - (1 - (groupW cv c m - q) / groupW cv c m) * groupW cv c m = _
              field_simp
              ring
            · rw [List.map_map]
              have : (cv.map ((fun x => x.1) ∘ fun bw =>
                    if best.contains bw.1 = true then (bw.1, bw.2 * ((groupW cv c m - q) / groupW cv c m)) else bw)) =
                  cv.map (·.1) := by
                apply List.map_congr_left
                intro bw _
                simp only [Function.comp]
                split <;> rfl
              rw [this]; exact hwf.1
            · intro x hx
              obtain ⟨bw, hbw, rfl⟩ := List.mem_map.mp hx
              have hw := hwf.2 bw hbw
              split
              · exact mul_pos hw hf
              · exact hw
            · intro bw hbw hnone
              apply List.mem_map.mpr
              refine ⟨bw, hbw, ?_⟩
              rw [hcont bw hbw, hnone]
              simp
          · rw [if_neg hgt] at h
            have hle : groupW cv c m ≤ q := not_lt.mp hgt
            have hfilt : cv.filter (fun bw => !(best.contains bw.1)) =
                cv.filter (fun bw => !decide (ballotScore bw.1 c = some m)) := by
              apply List.filter_congr
              intro bw hbw
              rw [hcont bw hbw]
            rw [hfilt] at h
            set cv1 := cv.filter (fun bw => !decide (ballotScore bw.1 c = some m)) with hcv1
            have hwf1 : WFW cv1 :=
              ⟨((List.filter_sublist).map _).nodup hwf.1, fun bw hbw => hwf.2 bw (List.mem_filter.mp hbw).1⟩
            have hlen1 : cv1.length < fuel := by
              have : cv1.length < cv.length := by
                apply List.length_filter_lt_length_iff_exists.mpr
                have hne' : cv.filter (fun bw => ballotScore bw.1 c = some m) ≠ [] := by
                  intro hnil
                  apply hne
                  rw [hbest]; unfold gradeGroup; rw [hnil]; rfl
                obtain ⟨bw, hbw⟩ := List.exists_mem_of_ne_nil _ hne'
                have := List.mem_filter.mp hbw
                exact ⟨bw, this.1, by simpa using this.2⟩
              omega
            obtain ⟨r1, r2, r3⟩ := ih cv1 c (q - groupW cv c m) cv' h hlen1 (by linarith) hwf1
            have htot : totalW cv1 = totalW cv - groupW cv c m := by
              unfold totalW groupW
              rw [sum_filter_split cv (fun bw => decide (ballotScore bw.1 c = some m)) (·.2)]
              ring
            have hsup : supportW cv1 c = supportW cv c - groupW cv c m := by
              rw [support_split cv c m]; ring
            refine ⟨?_, r2, ?_⟩
            · rw [r1, htot, hsup, min_sub_sub_right]; ring
            · intro bw hbw hnone
              apply r3 bw _ hnone
              apply List.mem_filter.mpr
              refine ⟨hbw, ?_⟩
              rw [hnone]; simp
    · rw [if_neg hq0] at h
      simp only [pure, Except.pure] at h
      injection h with h; subst h
      have : q = 0 := le_antisymm (not_lt.mp hq0) hq
      subst this
      rw [min_eq_left hSnn]
      exact ⟨by ring, hwf, fun bw hbw _ => hbw⟩

end VL.Score

namespace VL.Score
open VL

theorem totalW_addWeight (d : WProfile) (b : SBallot) (w : Rat) : totalW (addWeight d b w) = totalW d + w := by
  unfold totalW
  induction d with
  | nil => simp [addWeight]
  | cons p rest ih =>
    obtain ⟨k, v⟩ := p
    unfold addWeight
    by_cases hk : k = b
    · rw [if_pos hk]; simp only [List.map_cons, List.sum_cons]; ring
    · rw [if_neg hk]; simp only [List.map_cons, List.sum_cons, ih]; ring

theorem totalW_merge (cv : WProfile) (g : SBallot → SBallot) : ∀ (d : WProfile),
    totalW (cv.foldl (fun d bw => addWeight d (g bw.1) bw.2) d) = totalW d + totalW cv := by
  induction cv with
  | nil => intro d; simp [totalW]
  | cons p rest ih =>
    intro d
    simp only [List.foldl_cons]
    rw [ih, totalW_addWeight]
    unfold totalW
    simp only [List.map_cons, List.sum_cons]; ring

end VL.Score
