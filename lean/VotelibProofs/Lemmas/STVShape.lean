/-
  Shape of the outcome of the selector form (`max_seats = 1` for every candidate, no previous gains):
  every seat goes to a different candidate, and an elected candidate stops continuing.
-/
import VotelibProofs.Lemmas.STVMajority
namespace VL.STV
open VL

theorem seatsGet_of_not_mem {s : Seats} {c : Cand} (h : c ∉ s.map (·.1)) : seatsGet s c = 0 := by
  unfold seatsGet
  have : s.find? (fun p => decide (p.1 = c)) = none := by
    rw [List.find?_eq_none]
    intro p hp hpc
    exact h (List.mem_map.mpr ⟨p, hp, by simpa using hpc⟩)
  rw [this]

theorem seatsGet_cons (x : Cand × Nat) (xs : Seats) (c : Cand) :
    seatsGet (x :: xs) c = if x.1 = c then x.2 else seatsGet xs c := by
  by_cases h : x.1 = c <;> simp [seatsGet, h]

theorem seatsGet_append_of_mem {s t : Seats} {c : Cand} {k : Nat} (hnd : (s.map (·.1)).Nodup) (h : (c, k) ∈ s) :
    seatsGet (s ++ t) c = k := by
  induction s with
  | nil => cases h
  | cons x xs ih =>
    have hx := List.nodup_cons.mp hnd
    rw [List.cons_append, seatsGet_cons]
    rcases List.mem_cons.mp h with he | he
    · rw [← he]; simp
    · have hne : x.1 ≠ c := fun e => hx.1 (List.mem_map.mpr ⟨(c, k), he, e.symm⟩)
      rw [if_neg hne]; exact ih hx.2 he

theorem seatsAdd1_of_not_mem {s : Seats} {c : Cand} (k : Nat) (h : c ∉ s.map (·.1)) :
    seatsAdd1 s c k = s ++ [(c, k)] := by
  induction s with
  | nil => simp [seatsAdd1]
  | cons x xs ih =>
    obtain ⟨c', k'⟩ := x
    simp only [List.map_cons, List.mem_cons, not_or] at h
    simp only [seatsAdd1]
    rw [if_neg (fun e => h.1 e.symm), ih h.2]
    rfl

theorem seatsAdd_of_disjoint {s add : Seats} (hnd : (add.map (·.1)).Nodup) (hd : ∀ p ∈ add, p.1 ∉ s.map (·.1)) :
    seatsAdd s add = s ++ add := by
  unfold seatsAdd
  induction add generalizing s with
  | nil => simp
  | cons x xs ih =>
    have hx := List.nodup_cons.mp hnd
    rw [List.foldl_cons, seatsAdd1_of_not_mem _ (hd x List.mem_cons_self)]
    rw [ih hx.2]
    · simp
    · intro p hp
      simp only [List.map_append, List.map_cons, List.map_nil, List.mem_append, List.mem_singleton, not_or]
      refine ⟨hd p (List.mem_cons_of_mem _ hp), ?_⟩
      intro e
      exact hx.1 (List.mem_map.mpr ⟨p, hp, e⟩)

/-- invariant of the selector form: one seat per elected candidate, elected candidates no longer continue -/
structure ShapeInv (votes : Profile) (st : St) : Prop where
  ones : ∀ p ∈ st.seats, p.2 = 1
  nd : (st.seats.map (·.1)).Nodup
  disj : ∀ p ∈ st.seats, p.1 ∉ continuing st.alloc
  sub : ∀ p ∈ st.seats, p.1 ∈ allRanked votes

theorem shape_step {E : Engine} (hE : EngineOK E) {cfg : Cfg} {votes : Profile} {n : Nat} {st st' : St}
    (hi : StInv cfg (selectorInput votes n) st) (hj : ShapeInv votes st)
    (h : countStep E cfg (selectorInput votes n) st = .ok (some st')) : ShapeInv votes st' := by
  obtain ⟨hne, out, ds', hnext, _, hadv⟩ := countStep_inv h
  have hfin : st.final = false := by
    cases hf : st.final with
    | false => rfl
    | true => exact absurd (hi.fin hf) hne
  subst hadv
  have hk := hi.keys hfin
  have hsub := hi.cont_sub
  have hcnd : (continuing st.alloc).Nodup := continuing_nodup hk
  have hdisj' : ∀ c ∈ continuing st.alloc, c ∉ st.seats.map (·.1) := by
    intro c hc hm
    obtain ⟨p, hp, rfl⟩ := List.mem_map.mp hm
    exact hj.disj p hp hc
  obtain ⟨hle, hcase⟩ := nextCount_cases hnext
  simp only [selectorInput] at hnext hcase hle hsub
  cases hcase with
  | shortcut hs he =>
    obtain ⟨hal, _, _, _, hel, _⟩ := electAll_spec he
    have hkeysperm : ((sortDesc (totalsInPlay st.alloc)).map (·.1)).Perm (continuing st.alloc) := by
      rw [← keys_totalsInPlay]; exact (sortDesc_perm _).map _
    have havail : out.elected = ((sortDesc (totalsInPlay st.alloc)).map (·.1)).map (fun x => (x, 1)) := by
      rw [hel]
      simp only [availSeats, List.map_map]
      apply List.map_congr_left
      intro x hx
      have hxc : x.1 ∈ continuing st.alloc := by
        rw [← keys_totalsInPlay]
        exact List.mem_map.mpr ⟨x, mem_sortDesc.mp hx, rfl⟩
      simp [Function.comp_def, maxGet_selector (hsub _ hxc), seatsGet_of_not_mem (hdisj' _ hxc)]
    have hekeys : out.elected.map (·.1) = (sortDesc (totalsInPlay st.alloc)).map (·.1) := by
      rw [havail]; simp [List.map_map, Function.comp_def]
    have hadd : seatsAdd st.seats out.elected = st.seats ++ out.elected := by
      apply seatsAdd_of_disjoint
      · rw [hekeys]; exact hkeysperm.nodup_iff.mpr hcnd
      · intro p hp
        have : p.1 ∈ out.elected.map (·.1) := List.mem_map.mpr ⟨p, hp, rfl⟩
        rw [hekeys] at this
        exact hdisj' _ (hkeysperm.mem_iff.mp this)
    refine ⟨?_, ?_, ?_, ?_⟩
    · intro p hp
      simp only [advance, hadd, List.mem_append] at hp
      rcases hp with hp | hp
      · exact hj.ones p hp
      · rw [havail] at hp; obtain ⟨x, _, rfl⟩ := List.mem_map.mp hp; rfl
    · simp only [advance, hadd, List.map_append]
      refine List.nodup_append.mpr ⟨hj.nd, by rw [hekeys]; exact hkeysperm.nodup_iff.mpr hcnd, ?_⟩
      intro a ha b hb hab
      rw [hekeys] at hb
      exact hdisj' b (hkeysperm.mem_iff.mp hb) (hab ▸ ha)
    · intro p _
      simp only [advance, hal, continuing, List.filterMap_nil, List.not_mem_nil, not_false_eq_true]
    · intro p hp
      simp only [advance, hadd, List.mem_append] at hp
      rcases hp with hp | hp
      · exact hj.sub p hp
      · have : p.1 ∈ out.elected.map (·.1) := List.mem_map.mpr ⟨p, hp, rfl⟩
        rw [hekeys] at this
        exact hsub _ (hkeysperm.mem_iff.mp this)
  | election qv hqv hpos el hel hnel hout =>
    obtain ⟨a1, ds1, hsubt, htr, he1, he2, _⟩ := afterElection_inv hout
    obtain ⟨hnd, hfacts⟩ := election_facts hk hpos hel
    have hone : ∀ ck ∈ el, ck.2 = 1 := by
      intro ck hck
      obtain ⟨hcont, h1, _, hmax⟩ := hfacts ck hck
      have := hmax 1 (maxGet_selector (hsub _ hcont))
      omega
    have hadd : seatsAdd st.seats el = st.seats ++ el :=
      seatsAdd_of_disjoint hnd (fun p hp => hdisj' _ (hfacts p hp).1)
    have hfull : ∀ ck ∈ el, ck.1 ∈ fullyElected el st.seats ((allRanked votes).map (fun c => (c, 1))) := by
      intro ck hck
      unfold fullyElected
      refine List.mem_map.mpr ⟨ck, List.mem_filter.mpr ⟨hck, ?_⟩, rfl⟩
      rw [maxGet_selector (hsub _ (hfacts ck hck).1)]
      have hadd2 : seatsAdd el st.seats = el ++ st.seats := by
        apply seatsAdd_of_disjoint hj.nd
        intro p hp hm
        obtain ⟨ck', hck', he⟩ := List.mem_map.mp hm
        exact hj.disj p hp (he ▸ (hfacts ck' hck').1)
      have hck1 : (ck.1, 1) ∈ el := by
        have : ck = (ck.1, 1) := Prod.ext rfl (hone ck hck)
        rw [← this]; exact hck
      rw [hadd2, seatsGet_append_of_mem hnd hck1]
      simp
    have hs := subtract_spec hE hsubt
    have hk1 : KeysNodup a1 := by unfold KeysNodup; rw [hs.keys_eq]; exact hk
    have hm := transferIf_moved hE htr
    have hc1 : continuing a1 = continuing st.alloc := by rw [continuing_eq, continuing_eq, hs.keys_eq]
    refine ⟨?_, ?_, ?_, ?_⟩
    · intro p hp
      simp only [advance, he1, hadd, List.mem_append] at hp
      rcases hp with hp | hp
      · exact hj.ones p hp
      · exact hone p hp
    · simp only [advance, he1, hadd, List.map_append]
      refine List.nodup_append.mpr ⟨hj.nd, hnd, ?_⟩
      intro a ha b hb hab
      obtain ⟨ck, hck, rfl⟩ := List.mem_map.mp hb
      exact hdisj' _ (hfacts ck hck).1 (hab ▸ ha)
    · intro p hp
      simp only [advance, he1, hadd, List.mem_append] at hp
      simp only [advance]
      rw [hm.cont_eq, hc1]
      intro hmem
      obtain ⟨h1, h2⟩ := List.mem_filter.mp hmem
      rcases hp with hp | hp
      · exact hj.disj p hp h1
      · have := hfull p hp
        simp at h2
        exact h2 this
    · intro p hp
      simp only [advance, he1, hadd, List.mem_append] at hp
      rcases hp with hp | hp
      · exact hj.sub p hp
      · exact hsub _ (hfacts p hp).1
  | elimination _ hout =>
    obtain ⟨retained, _, _, htr, he1, _⟩ := afterElimination_inv hout
    have hm := transferIf_moved hE htr
    have hseats : seatsAdd st.seats out.elected = st.seats := by rw [he1]; rfl
    refine ⟨?_, ?_, ?_, ?_⟩
    · intro p hp; simp only [advance, hseats] at hp; exact hj.ones p hp
    · simp only [advance, hseats]; exact hj.nd
    · intro p hp
      simp only [advance, hseats] at hp
      simp only [advance]
      rw [hm.cont_eq]
      intro hmem
      exact hj.disj p hp (List.mem_filter.mp hmem).1
    · intro p hp; simp only [advance, hseats] at hp; exact hj.sub p hp

theorem shape_reach {E : Engine} (hE : EngineOK E) {cfg : Cfg} {votes : Profile} {n : Nat} {ds : List Draw} {st : St}
    (hr : Reach E cfg (selectorInput votes n) ds st) : ShapeInv votes st := by
  induction hr with
  | init h =>
    obtain ⟨_, _, hs, _⟩ := initState_inv (cfg := cfg) hE h
    simp only [selectorInput] at hs
    exact ⟨(by rw [hs]; intro p hp; cases hp), (by rw [hs]; simp), (by rw [hs]; intro p hp; cases hp),
      (by rw [hs]; intro p hp; cases hp)⟩
  | step hr' h ih => exact shape_step hE (reach_inv hE hr') ih h

theorem sumSeats_of_ones {s : Seats} (h : ∀ p ∈ s, p.2 = 1) : sumSeats s = s.length := by
  induction s with
  | nil => rfl
  | cons x xs ih =>
    rw [sumSeats_cons, h x List.mem_cons_self, ih (fun p hp => h p (List.mem_cons_of_mem _ hp)), List.length_cons]
    omega

theorem distributionToSelection_perm (s : Seats) : (distributionToSelection s).Perm (s.map (·.1)) := by
  unfold distributionToSelection
  have := (sortDesc_perm (s.map (fun p => (p.1, (p.2 : Rat))))).map (·.1)
  simpa [List.map_map, Function.comp_def] using this


/-- an `.ok` outcome of `TransferableVoteSelector.evaluate` comes from a reached state with all seats filled -/
theorem selectorEvaluate_ok {E : Engine} {cfg : Cfg} {votes : Profile} {n : Nat} {ds : List Draw} {l : List Cand}
    (h : selectorEvaluate E cfg votes n ds = .ok l) :
    ∃ st, Reach E cfg (selectorInput votes n) ds st ∧ sumSeats st.seats = n ∧ l = distributionToSelection st.seats := by
  unfold selectorEvaluate at h
  cases hd : distributorEvaluate E cfg (selectorInput votes n) ds with
  | error e => rw [hd] at h; simp [bind, Except.bind] at h
  | ok seats =>
    rw [hd] at h
    simp only [bind, Except.bind, pure, Except.pure] at h
    injection h with h
    subst h
    unfold distributorEvaluate at hd
    cases h0 : initState E (selectorInput votes n) ds with
    | error e => rw [h0] at hd; simp [bind, Except.bind] at hd
    | ok st0 =>
      rw [h0] at hd
      simp only [bind, Except.bind] at hd
      cases hk : runCounts E cfg (selectorInput votes n) (evalFuel (selectorInput votes n)) st0 with
      | error e => rw [hk] at hd; simp at hd
      | ok st =>
        rw [hk] at hd
        simp only at hd
        split at hd
        · rename_i hfin
          simp only [pure, Except.pure] at hd
          injection hd with hd
          subst hd
          refine ⟨st, (Reach.init h0).runCounts hk, ?_, rfl⟩
          unfold finished at hfin
          exact of_decide_eq_true hfin
        · cases hd

end VL.STV
