/-
  C11: the ranked-vote plumbing of the Condorcet family (C05 model): RankedToCondorcetVotes is linear, subsetting is
  linear, first-preference totals scale, hence Benham and Tideman's alternative method are scale invariant.
-/
import VotelibProofs.Lemmas.ScaleCondorcet
import VotelibModel.CondorcetRanked
namespace VL.Scale
open VL VL.Condorcet

/-- a ranked profile with every ballot weight multiplied by `k` -/
def scaleR (k : Rat) (p : Profile) : Profile := p.map (fun b => (b.1, k * b.2))

theorem scaleR_isEmpty (k : Rat) (p : Profile) : (scaleR k p).isEmpty = p.isEmpty := by cases p <;> rfl

theorem allRankedCandidatesR_scale (k : Rat) (p : Profile) :
    Condorcet.allRankedCandidates (scaleR k p) = Condorcet.allRankedCandidates p := by
  unfold Condorcet.allRankedCandidates scaleR
  simp only [List.foldl_map, List.flatMap_map]

theorem padd_scale (k : Rat) (v : Pairwise) (p : Pair) (x : Rat) : padd (scaleP k v) p (k * x) = scaleP k (padd v p x) := by
  unfold scaleP
  induction v with
  | nil => rfl
  | cons e t ih =>
    obtain ⟨q, y⟩ := e
    simp only [List.map_cons, padd]
    by_cases hq : q = p
    · simp only [hq, if_true, List.map_cons, mul_add]
    · simp only [hq, if_false, List.map_cons, ih]

/-- **RankedToCondorcetVotes is linear** (C05 model, `unranked_at_bottom=True`) -/
theorem rankedToCondorcetR_scale (k : Rat) (p : Profile) :
    Condorcet.rankedToCondorcet (scaleR k p) = scaleP k (Condorcet.rankedToCondorcet p) := by
  unfold Condorcet.rankedToCondorcet
  simp only [allRankedCandidatesR_scale]
  unfold scaleR
  refine foldl_simMap (scaleP k) _ _ _ ?_ p []
  intro counts b
  apply foldl_sim' (scaleP k)
  intro cs pr
  exact padd_scale k cs pr b.2

/-- **RankedToCondorcetVotes(unranked_at_bottom=False) is linear** -/
theorem rankedToCondorcetNoBottomR_scale (k : Rat) (p : Profile) :
    Condorcet.rankedToCondorcetNoBottom (scaleR k p) = scaleP k (Condorcet.rankedToCondorcetNoBottom p) := by
  unfold Condorcet.rankedToCondorcetNoBottom
  unfold scaleR
  refine foldl_simMap (scaleP k) _ _ _ ?_ p []
  intro counts b
  apply foldl_sim' (scaleP k)
  intro cs pr
  exact padd_scale k cs pr b.2

theorem badd_scale (k : Rat) (p : Profile) (b : Ballot) (x : Rat) : badd (scaleR k p) b (k * x) = scaleR k (badd p b x) := by
  unfold scaleR
  induction p with
  | nil => rfl
  | cons e t ih =>
    obtain ⟨q, y⟩ := e
    simp only [List.map_cons, badd]
    by_cases hq : q = b
    · simp only [hq, if_true, List.map_cons, mul_add]
    · simp only [hq, if_false, List.map_cons, ih]

theorem subsetProfile_scale (k : Rat) (p : Profile) (subset : List Cand) :
    subsetProfile (scaleR k p) subset = scaleR k (subsetProfile p subset) := by
  unfold subsetProfile
  have h := foldl_simMap (scaleR k) (fun acc (b : Ballot × Rat) => badd acc (subsetBallot subset b.1) b.2)
    (fun acc (b : Ballot × Rat) => badd acc (subsetBallot subset b.1) b.2) (fun b => (b.1, k * b.2))
    (fun s b => badd_scale k s _ b.2) p []
  exact h

theorem firstPrefTotals_scale (k : Rat) (p : Profile) :
    firstPrefTotals (scaleR k p) = scaleVotes k (firstPrefTotals p) := by
  unfold firstPrefTotals
  rw [allRankedCandidatesR_scale]
  unfold scaleVotes
  rw [List.map_map]
  apply List.map_congr_left
  intro c _
  simp only [Function.comp, Prod.mk.injEq, true_and]
  have h := foldl_simMap (fun a : Rat => k * a)
    (fun acc (b : Ballot × Rat) => match b.1 with
      | [] => acc
      | .one d :: _ => if d = c then acc + b.2 else acc
      | .shared cs :: _ => if cs.contains c then acc + b.2 / (cs.length : Rat) else acc)
    (fun acc (b : Ballot × Rat) => match b.1 with
      | [] => acc
      | .one d :: _ => if d = c then acc + b.2 else acc
      | .shared cs :: _ => if cs.contains c then acc + b.2 / (cs.length : Rat) else acc)
    (fun b => (b.1, k * b.2))
    (by
      intro s b
      obtain ⟨bl, w⟩ := b
      cases bl with
      | nil => rfl
      | cons it rest =>
        cases it with
        | one d => simp only; split <;> simp [mul_add]
        | shared cs => simp only; split <;> simp [mul_add, mul_div_assoc])
    p 0
  rw [mul_zero] at h
  exact h

theorem eliminateOneRaw_scale (k : Rat) (hk : 0 < k) (p : Profile) : eliminateOneRaw (scaleR k p) = eliminateOneRaw p := by
  unfold eliminateOneRaw
  simp only [firstPrefTotals_scale, scaleVotes_length]
  split
  · rfl
  · rfl
  · rw [getNBest_scaleC k hk]

/-- `eliminate_one` with the refusal of a tied elimination (fix 30bd79e): the raw answer is the same, so is the refusal -/
theorem eliminateOne_scale (k : Rat) (hk : 0 < k) (p : Profile) : eliminateOne (scaleR k p) = eliminateOne p := by
  unfold eliminateOne
  rw [eliminateOneRaw_scale k hk]

theorem benhamCW_scale (k : Rat) (hk : 0 < k) (p : Profile) : benhamCW (scaleR k p) = benhamCW p := by
  unfold benhamCW; rw [rankedToCondorcetR_scale, condorcetWinner_scale k hk]

theorem benhamLoop_scale (k : Rat) (hk : 0 < k) (votes : Profile) : ∀ (f : Nat) (cur : Profile),
    benhamLoop (scaleR k votes) f (scaleR k cur) = benhamLoop votes f cur := by
  intro f
  induction f with
  | zero => intro cur; rfl
  | succ f ih =>
    intro cur
    simp only [benhamLoop, benhamCW_scale k hk, eliminateOne_scale k hk]
    cases benhamCW cur with
    | some c => rfl
    | none =>
      simp only
      cases eliminateOne cur with
      | error e => rfl
      | ok remains =>
        simp only
        split
        · rfl
        · rw [subsetProfile_scale, ih]

theorem benhamCore_scale (k : Rat) (hk : 0 < k) (votes : Profile) : benhamCore (scaleR k votes) = benhamCore votes := by
  unfold benhamCore
  rw [allRankedCandidatesR_scale, benhamLoop_scale k hk]

/-- **Benham** (with the lone-candidate shortcut of fix 1230cf6: the test reads no weight) -/
theorem benham_scale (k : Rat) (hk : 0 < k) (votes : Profile) : benham (scaleR k votes) = benham votes := by
  simp only [benham, allRankedCandidatesR_scale, benhamCore_scale k hk]

theorem tidemanTier_scale (k : Rat) (hk : 0 < k) (smith : Bool) : ∀ (f : Nat) (rv : Profile),
    tidemanTier smith f (scaleR k rv) = tidemanTier smith f rv := by
  intro f
  induction f with
  | zero => intro rv; rfl
  | succ f ih =>
    intro rv
    simp only [tidemanTier, scaleR_isEmpty, rankedToCondorcetR_scale, smithSchwartz_scale k hk, subsetProfile_scale,
      eliminateOne_scale k hk, allRankedCandidatesR_scale, ih]

theorem tidemanRunTier_scale (k : Rat) (hk : 0 < k) (smith : Bool) (f : Nat) (rv : Profile) :
    tidemanRunTier smith f (scaleR k rv) = tidemanRunTier smith f rv := by
  simp only [tidemanRunTier, allRankedCandidatesR_scale, tidemanTier_scale k hk]

theorem tidemanCore_scale (k : Rat) (hk : 0 < k) (smith : Bool) (votes : Profile) :
    tidemanCore smith (scaleR k votes) = tidemanCore smith votes := by
  unfold tidemanCore
  rw [allRankedCandidatesR_scale, tidemanTier_scale k hk]

/-- **Tideman's alternative method**, one seat (Smith and Schwartz variants; lone-candidate shortcut of fix bddde61) -/
theorem tideman_scale (k : Rat) (hk : 0 < k) (smith : Bool) (votes : Profile) :
    tideman smith (scaleR k votes) = tideman smith votes := by
  unfold tideman
  rw [allRankedCandidatesR_scale, tidemanRunTier_scale k hk]

theorem tidemanLoop_scale (k : Rat) (hk : 0 < k) (smith : Bool) (tf : Nat) :
    ∀ (f : Nat) (tier : Profile) (eligible : List Cand) (acc : List Slot) (n : Nat),
      tidemanLoop smith tf f (scaleR k tier) eligible acc n = tidemanLoop smith tf f tier eligible acc n := by
  intro f
  induction f with
  | zero => intro tier eligible acc n; rfl
  | succ f ih =>
    intro tier eligible acc n
    simp only [tidemanLoop, tidemanRunTier_scale k hk, subsetProfile_scale, ih]

/-- **Tideman's alternative method, any number of seats** (one tier per seat, earlier winners removed from the ballots) -/
theorem tidemanN_scale (k : Rat) (hk : 0 < k) (smith : Bool) (votes : Profile) (n : Nat) :
    tidemanN smith (scaleR k votes) n = tidemanN smith votes n := by
  unfold tidemanN
  simp only [allRankedCandidatesR_scale, tidemanLoop_scale k hk]

end VL.Scale
