/-
  C10: the symmetric-candidates corollary for the Condorcet rules, STV, PAV / SPAV and score voting (see PermSymmetric.lean).
-/
import VotelibProofs.Lemmas.PermSymmetric
import VotelibProofs.Lemmas.PermTrans
import VotelibProofs.Lemmas.PermSTV8
import VotelibProofs.Lemmas.RenameApproval
import VotelibProofs.Lemmas.RenameScore
namespace VL.Perm
open VL VL.Convert VL.C10 VL.PreConv

/-- an outcome equivalent to its own σ-image treats `c` and `σ c` alike -/
theorem symmetric_of_equiv (σ : Cand → Cand) (hσ : Function.Injective σ) {r : List Slot}
    (h : SlotsEquiv r (r.map (renSlot σ))) (c : Cand) :
    (Elected (σ c) r ↔ Elected c r) ∧ (InTie (σ c) r ↔ InTie c r) :=
  ⟨by rw [elected_equiv h, elected_ren σ hσ], by rw [inTie_equiv h, inTie_ren σ hσ]⟩

/-- the same for a plain list of winners -/
theorem mem_of_perm_map (σ : Cand → Cand) (hσ : Function.Injective σ) {r : List Cand} (h : (r.map σ).Perm r) (c : Cand) :
    σ c ∈ r ↔ c ∈ r := by
  rw [← h.mem_iff, List.mem_map]
  constructor
  · rintro ⟨c', hc', e⟩; rw [← hσ e]; exact hc'
  · intro hc; exact ⟨c, hc, rfl⟩

/-- **Symmetric candidates under Copeland (both orders)** -/
theorem copelandRule_symmetric (σ : Cand → Cand) (hσ : Function.Injective σ) (so : Bool) (p : RProfile)
    (hb : ∀ bw ∈ p, (ballotCands bw.1).Nodup) (hsym : (renRProfile σ p).Perm p) (n : Nat) (c : Cand) :
    (Elected (σ c) (condorcetRule (Condorcet.copeland so) p n) ↔ Elected c (condorcetRule (Condorcet.copeland so) p n)) ∧
    (InTie (σ c) (condorcetRule (Condorcet.copeland so) p n) ↔ InTie c (condorcetRule (Condorcet.copeland so) p n)) :=
  symmetric_of_chain σ hσ (copelandRule_perm so hsym n) (copelandRule_ren_so σ hσ so p hb n) c

/-- **Symmetric candidates under minimax** -/
theorem minimaxRule_symmetric (σ : Cand → Cand) (hσ : Function.Injective σ) (sc : Condorcet.Scorer) (p : RProfile)
    (hb : ∀ bw ∈ p, (ballotCands bw.1).Nodup) (hsym : (renRProfile σ p).Perm p) (n : Nat) (c : Cand) :
    (Elected (σ c) (condorcetRule (Condorcet.minimax sc) p n) ↔ Elected c (condorcetRule (Condorcet.minimax sc) p n)) ∧
    (InTie (σ c) (condorcetRule (Condorcet.minimax sc) p n) ↔ InTie c (condorcetRule (Condorcet.minimax sc) p n)) :=
  symmetric_of_chain σ hσ (minimaxRule_perm sc hsym n) (minimaxRule_ren σ hσ sc p hb n) c

/-- **Symmetric candidates under Schulze** -/
theorem schulzeRule_symmetric (σ : Cand → Cand) (hσ : Function.Injective σ) (p : RProfile)
    (hb : ∀ bw ∈ p, (ballotCands bw.1).Nodup) (hw : ∀ bw ∈ p, 0 ≤ bw.2) (hsym : (renRProfile σ p).Perm p) (n : Nat) (c : Cand) :
    (Elected (σ c) (condorcetRule Condorcet.schulze p n) ↔ Elected c (condorcetRule Condorcet.schulze p n)) ∧
    (InTie (σ c) (condorcetRule Condorcet.schulze p n) ↔ InTie c (condorcetRule Condorcet.schulze p n)) := by
  refine symmetric_of_chain σ hσ (schulzeRule_perm hsym ?_ ?_ n) (schulzeRule_ren σ hσ p hb hw n) c
  · intro bw' hbw'
    obtain ⟨bw, hbw, rfl⟩ := List.mem_map.1 hbw'
    exact nodup_ballotCands_ren σ hσ (hb bw hbw)
  · intro bw' hbw'
    obtain ⟨bw, hbw, rfl⟩ := List.mem_map.1 hbw'
    exact hw bw hbw

/-- **Symmetric candidates and the Condorcet winner / Smith set / Schwartz set**: `σ c` is in iff `c` is -/
theorem condorcetWinnerRule_symmetric (σ : Cand → Cand) (hσ : Function.Injective σ) (p : RProfile)
    (hb : ∀ bw ∈ p, (ballotCands bw.1).Nodup) (hsym : (renRProfile σ p).Perm p) (c : Cand) :
    σ c ∈ condorcetSeatless Condorcet.condorcetWinner p ↔ c ∈ condorcetSeatless Condorcet.condorcetWinner p := by
  apply mem_of_perm_map σ hσ
  rw [← condorcetWinnerRule_ren σ hσ p hb, condorcetWinnerRule_perm hsym]

theorem smithRule_symmetric (σ : Cand → Cand) (hσ : Function.Injective σ) (p : RProfile)
    (hb : ∀ bw ∈ p, (ballotCands bw.1).Nodup) (hsym : (renRProfile σ p).Perm p) (c : Cand) :
    σ c ∈ condorcetSeatless Condorcet.smithSet p ↔ c ∈ condorcetSeatless Condorcet.smithSet p :=
  mem_of_perm_map σ hσ ((smithRule_ren σ hσ p hb).symm.trans (smithRule_perm hsym)) c

theorem schwartzRule_symmetric (σ : Cand → Cand) (hσ : Function.Injective σ) (p : RProfile)
    (hb : ∀ bw ∈ p, (ballotCands bw.1).Nodup) (hsym : (renRProfile σ p).Perm p) (c : Cand) :
    σ c ∈ condorcetSeatless Condorcet.schwartzSet p ↔ c ∈ condorcetSeatless Condorcet.schwartzSet p :=
  mem_of_perm_map σ hσ ((schwartzRule_ren σ hσ p hb).symm.trans (schwartzRule_perm hsym)) c

/-- **Symmetric candidates under STV (Gregory)**: both elected or both not -/
theorem stv_symmetric (σ : Cand → Cand) (hσ : Function.Injective σ) (cfg : STV.Cfg) (p : STV.Profile)
    (hn : (p.map (·.1)).Nodup) (hsym : p.Perm (Stv.renPile σ p)) (n : Nat) (ds : List STV.Draw) (r : List Cand)
    (hr : STV.selectorEvaluate STV.gregory cfg p n ds = .ok r) (c : Cand) : σ c ∈ r ↔ c ∈ r := by
  have h := stv_perm cfg hsym hn n ds
  rw [stv_rename hσ, hr] at h
  exact mem_of_perm_map σ hσ (List.Perm.symm h) c

/-- **Symmetric candidates under score voting** (every aggregation) -/
theorem scoreVoting_symmetric (σ : Cand → Cand) (hσ : Function.Injective σ) (cfg : Score.Cfg) (p : Score.SProfile)
    (hsym : SameBallots p (renScore σ p)) (n : Nat) (r : List Slot) (hr : Score.scoreVoting cfg p n = .ok r) (c : Cand) :
    (Elected (σ c) r ↔ Elected c r) ∧ (InTie (σ c) r ↔ InTie c r) := by
  have h := scoreVoting_rename_same hσ cfg p p hsym n
  rw [hr] at h
  exact symmetric_of_equiv σ hσ h c

/-- **Symmetric candidates under PAV** -/
theorem pav_symmetric (σ : Cand → Cand) (hσ : Function.Injective σ) (p : Appr.Profile) (hwf : Appr.WF p)
    (hsym : ApprSame p (renAppr σ p)) (n : Nat) (r : List Slot) (hr : Appr.pav p n = .ok r) (c : Cand) :
    (Elected (σ c) r ↔ Elected c r) ∧ (InTie (σ c) r ↔ InTie c r) := by
  have h := pav_rename_same hσ p p hwf hwf hsym n
  rw [hr] at h
  exact symmetric_of_equiv σ hσ h c

/-- **Symmetric candidates under SPAV**: the elected list is its own σ-image -/
theorem spav_symmetric (σ : Cand → Cand) (hσ : Function.Injective σ) (p : Appr.Profile) (hwf : Appr.WF p)
    (hsym : ApprSame p (renAppr σ p)) (n : Nat) (r : List Cand) (hr : Appr.spav p n = .ok r) (c : Cand) :
    σ c ∈ r ↔ c ∈ r := by
  have h := spav_rename_same hσ p p hwf hwf hsym n
  rw [hr] at h
  simp only [Except.map] at h
  injection h with h
  exact mem_of_perm_map σ hσ (by rw [← h]) c

end VL.Perm
