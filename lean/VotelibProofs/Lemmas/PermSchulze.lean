/-
  C10, Condorcet family: Schulze does not depend on the insertion order of the pairwise dictionary.
  Uses the owners' characterisation of `widest_paths` (Lemmas/WidestPaths.lean: the table entry of two distinct
  candidates is the maximum over all chains of the minimum win weight) — a statement about the map `winWeight` and the
  candidate SET, hence order independent.  That characterisation needs non-negative counts (`WF`).
-/
import VotelibProofs.Lemmas.PermCondorcet
import VotelibProofs.Lemmas.WidestPaths
namespace VL.Perm
open VL VL.Condorcet VL.C10

theorem wf_of_perm {v₁ v₂ : Pairwise} (h : v₁.Perm v₂) (hwf : WF v₁) : WF v₂ :=
  ⟨nodup_keys_of_perm h hwf.1, fun e he => hwf.2.1 e (h.mem_iff.mpr he), fun e he => hwf.2.2 e (h.mem_iff.mpr he)⟩

theorem winWeight_perm {v₁ v₂ : Pairwise} (h : v₁.Perm v₂) (hn : (v₁.map (·.1)).Nodup) :
    winWeight v₁ = winWeight v₂ := by
  funext q
  unfold winWeight
  rw [pget_perm_fun h hn]
  apply pget_perm (h.filter _)
  exact hn.sublist (List.Sublist.map _ List.filter_sublist)

theorem widestPaths_nodup {v : Pairwise} (hn : (v.map (·.1)).Nodup) : (pkeys (widestPaths v)).Nodup := by
  apply widestPaths_preserves v (fun p => (pkeys p).Nodup)
  · exact hn.sublist (List.Sublist.map _ List.filter_sublist)
  · intro p c1 c2 ca _ _ _ _ _ hp
    exact nodup_pkeys_pset hp _ _

theorem widestPaths_nonneg {v : Pairwise} (hwf : WF v) : ∀ q, 0 ≤ pget (widestPaths v) q := by
  apply widestPaths_preserves v (fun p => ∀ q, 0 ≤ pget p q)
  · intro q
    rcases pget_mem_or_zero (v.filter (fun e => decide (pget v (e.1.2, e.1.1) < e.2))) q with h | ⟨_, h⟩
    · exact hwf.2.2 _ (List.mem_filter.1 h).1
    · rw [h]
  · intro p c1 c2 ca _ _ _ _ _ hp q
    rw [pget_pset]
    split
    · exact le_trans (hp _) (rmax_ge_left _ _)
    · exact hp q

theorem widestPaths_no_diag {v : Pairwise} (hwf : WF v) : ∀ k ∈ pkeys (widestPaths v), k.1 ≠ k.2 := by
  apply widestPaths_preserves v (fun p => ∀ k ∈ pkeys p, k.1 ≠ k.2)
  · intro k hk
    obtain ⟨e, he, rfl⟩ := List.mem_map.1 hk
    exact hwf.2.1 e (List.mem_filter.1 he).1
  · intro p c1 c2 ca _ _ _ _ h2 hp k hk
    rcases mem_pkeys_pset hk with h | rfl
    · exact hp k h
    · exact fun e => h2 e.symm

/-- the strength table of `widest_paths`, as a map, does not depend on the insertion order -/
theorem pget_widestPaths_perm {v₁ v₂ : Pairwise} (h : v₁.Perm v₂) (hwf : WF v₁) :
    pget (widestPaths v₁) = pget (widestPaths v₂) := by
  have hwf2 := wf_of_perm h hwf
  funext ⟨a, b⟩
  by_cases hab : a = b
  · subst hab
    rw [pget_of_not_mem, pget_of_not_mem]
    · exact fun hk => widestPaths_no_diag hwf2 _ hk rfl
    · exact fun hk => widestPaths_no_diag hwf _ hk rfl
  · by_cases hb : b ∈ candidates v₁
    · have hb2 := (mem_candidates_perm h b).mp hb
      obtain ⟨p1, m1⟩ := widestPaths_maxmin hwf hb hab
      obtain ⟨p2, m2⟩ := widestPaths_maxmin hwf2 hb2 hab
      rw [winWeight_perm h hwf.1] at p1 m1
      exact le_antisymm (m2 _ p1) (m1 _ p2)
    · have hb2 : b ∉ candidates v₂ := fun hh => hb ((mem_candidates_perm h b).mpr hh)
      rw [pget_of_not_mem, pget_of_not_mem]
      · exact fun hk => hb2 (widestPaths_keys_in v₂ _ hk).2
      · exact fun hk => hb (widestPaths_keys_in v₁ _ hk).2

theorem mem_wins_widestPaths {v : Pairwise} (hwf : WF v) (a b : Cand) :
    (a, b) ∈ pairwiseWins (widestPaths v) false ↔ pget (widestPaths v) (b, a) < pget (widestPaths v) (a, b) := by
  rw [mem_pairwiseWins_of_nodup (widestPaths_nodup hwf.1)]
  constructor
  · exact fun hh => hh.2
  · intro hlt
    have hpos : 0 < pget (widestPaths v) (a, b) := lt_of_le_of_lt (widestPaths_nonneg hwf _) hlt
    exact ⟨List.mem_map.2 ⟨_, pget_pos_mem hpos, rfl⟩, hlt⟩

theorem wins_widestPaths_perm {v₁ v₂ : Pairwise} (h : v₁.Perm v₂) (hwf : WF v₁) :
    (pairwiseWins (widestPaths v₁) false).Perm (pairwiseWins (widestPaths v₂) false) := by
  have hwf2 := wf_of_perm h hwf
  rw [List.perm_ext_iff_of_nodup (nodup_pairwiseWins_of_nodup (widestPaths_nodup hwf.1) false)
    (nodup_pairwiseWins_of_nodup (widestPaths_nodup hwf2.1) false)]
  rintro ⟨a, b⟩
  rw [mem_wins_widestPaths hwf, mem_wins_widestPaths hwf2, pget_widestPaths_perm h hwf]

/-- **Schulze: ballot-order independence** (non-negative counts, no self-pairs, distinct keys) -/
theorem schulze_perm {v₁ v₂ : Pairwise} (h : v₁.Perm v₂) (hwf : WF v₁) (n : Nat) :
    SlotsEquiv (schulze v₁ n) (schulze v₂ n) := by
  unfold schulze
  simp only
  apply getNBest_perm
  apply votes_perm_of_getD
  · rw [keys_schulzeScores]; exact nodup_candidates _
  · rw [keys_schulzeScores]; exact nodup_candidates _
  · rw [keys_schulzeScores, keys_schulzeScores]; exact candidates_perm h
  · intro c
    rw [getD_schulzeFold, getD_schulzeFold, getD_zeroDict, getD_zeroDict, winsBy_perm (wins_widestPaths_perm h hwf)]

example : ([((0, 1), (3 : Rat)), ((1, 0), 2), ((1, 2), 4), ((2, 1), 1)] : Pairwise).Perm
      [((1, 2), (4 : Rat)), ((0, 1), 3), ((2, 1), 1), ((1, 0), 2)] ∧
    WF ([((0, 1), (3 : Rat)), ((1, 0), 2), ((1, 2), 4), ((2, 1), 1)] : Pairwise) := by
  decide +kernel

end VL.Perm
