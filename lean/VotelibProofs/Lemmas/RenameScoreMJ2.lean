/-
  C10, score family, majority judgment: candidate names do not matter — for EVERY injective renaming.

  The only place where the candidate ids enter `MajorityJudgment.evaluate` is the table of the tied candidates, built in
  the iteration order of the `Tie` set (ascending ids): under a renaming that is not monotone the same rows come in another
  order.  So the missing piece (after `majorityJudgment_rename_mono`) is that the tie-breakers do not depend on the ORDER
  OF THE ROWS of their table:
    * `_tiebreak_default`: every step is order-free (max of the counts, the median dict up to insertion order, a fold of
      `min`, a row-wise update, membership filters) — `tiebreakDefault_permRows`;
    * `_tiebreak_plus` reads the median of the FIRST row (`next(iter(scores.values()))`): it is order-free exactly because all
      tied candidates share their median — `tiebreakPlus_permRows` under that hypothesis, which is then derived inside
      `majorityJudgment` (the tied candidates are the members of a tie object of `get_n_best` of the medians).
  Helper lemmas in `VL.Perm.MJ`; headline theorems in `VL.Perm`.
-/
import VotelibProofs.Lemmas.RenameScoreMJ
import VotelibProofs.Lemmas.C12MJ
import VotelibProofs.Lemmas.PermTrans
namespace VL.Perm.MJ
open VL VL.Score VL.C10 VL.Appr

/-! ### order-free ingredients -/

theorem foldl_max_spec (xs : List Int) : ∀ m0 : Int,
    (xs.foldl (fun m x => if m < x then x else m) m0 = m0 ∨ xs.foldl (fun m x => if m < x then x else m) m0 ∈ xs) ∧
    m0 ≤ xs.foldl (fun m x => if m < x then x else m) m0 ∧
    ∀ y ∈ xs, y ≤ xs.foldl (fun m x => if m < x then x else m) m0 := by
  induction xs with
  | nil => intro m0; simp
  | cons x xs ih =>
    intro m0
    rw [List.foldl_cons]
    obtain ⟨h1, h2, h3⟩ := ih (if m0 < x then x else m0)
    have hle : m0 ≤ (if m0 < x then x else m0) ∧ x ≤ (if m0 < x then x else m0) := by
      split <;> omega
    refine ⟨?_, le_trans hle.1 h2, ?_⟩
    · rcases h1 with h1 | h1
      · rw [h1]
        split
        · right; exact List.mem_cons_self
        · left; rfl
      · right; exact List.mem_cons_of_mem _ h1
    · intro y hy
      rcases List.mem_cons.mp hy with rfl | hy'
      · exact le_trans hle.2 h2
      · exact h3 y hy'

/-- `max(...)` started at a member is the maximum: it does not depend on the order nor on the member chosen -/
theorem maxFold_perm {l₁ l₂ : List Int} (h : l₁.Perm l₂) {a b : Int} (ha : a ∈ l₁) (hb : b ∈ l₂) :
    l₁.foldl (fun m x => if m < x then x else m) a = l₂.foldl (fun m x => if m < x then x else m) b := by
  obtain ⟨a1, a2, a3⟩ := foldl_max_spec l₁ a
  obtain ⟨b1, b2, b3⟩ := foldl_max_spec l₂ b
  have m1 : l₁.foldl (fun m x => if m < x then x else m) a ∈ l₁ := by
    rcases a1 with e | e
    · rw [e]; exact ha
    · exact e
  have m2 : l₂.foldl (fun m x => if m < x then x else m) b ∈ l₂ := by
    rcases b1 with e | e
    · rw [e]; exact hb
    · exact e
  exact le_antisymm (b3 _ (h.mem_iff.mp m1)) (a3 _ (h.mem_iff.mpr m2))

theorem getD_perm_fun {d₁ d₂ : Votes} (h : d₁.Perm d₂) (hnd : (keys d₁).Nodup) : (fun c => getD d₁ c 0) = (fun c => getD d₂ c 0) := by
  funext c
  unfold getD lookup
  rw [find?_perm_of_nodup_keys (fun p : Cand × Rat => p.1) h hnd c]

/-- one step of the `min` scan of `_closest_median_change` -/
def ccStep (G : Cand → Rat) (acc : Option Int) (p : Cand × CScores) : Option Int :=
  let half : Rat := ((totalCount p.2 : Int) : Rat) / 2
  let cur := G p.1
  let lower : Rat := ((countGe p.2 cur : Int) : Rat)
  let upper : Rat := ((countGt p.2 cur : Int) : Rat)
  let a := ceilAbs (lower - half)
  let b := ceilAbs (upper - half)
  let candClosest := if b < a then b else a
  match acc with
  | none => some candClosest
  | some c => if candClosest < c then some candClosest else some c

theorem closestChange_eq (t : ScoreTable) (medians : Votes) :
    closestChange t medians = t.foldl (ccStep (fun c => getD medians c 0)) none := rfl

theorem minStep_comm (z : Option Int) (x y : Int) :
    (match (match z with | none => some x | some c => if x < c then some x else some c) with
      | none => some y | some c => if y < c then some y else some c) =
    (match (match z with | none => some y | some c => if y < c then some y else some c) with
      | none => some x | some c => if x < c then some x else some c) := by
  cases z with
  | none =>
    simp only
    split <;> split <;> first | rfl | (congr 1; omega)
  | some c =>
    simp only
    by_cases hx : x < c <;> by_cases hy : y < c <;> simp only [hx, hy, if_true, if_false] <;>
      split_ifs <;> first | rfl | (congr 1; omega)

theorem ccStep_comm (G : Cand → Rat) (z : Option Int) (p q : Cand × CScores) :
    ccStep G (ccStep G z p) q = ccStep G (ccStep G z q) p := by
  unfold ccStep
  exact minStep_comm z _ _

theorem closestChange_perm {t₁ t₂ : ScoreTable} (h : t₁.Perm t₂) {m₁ m₂ : Votes} (hm : m₁.Perm m₂)
    (hnd : (keys m₁).Nodup) : closestChange t₁ m₁ = closestChange t₂ m₂ := by
  rw [closestChange_eq, closestChange_eq, getD_perm_fun hm hnd]
  exact h.foldl_eq' (fun x _ y _ z => ccStep_comm _ z x y) _

theorem aggregate_permRows (fn : Agg) {t₁ t₂ : ScoreTable} (h : t₁.Perm t₂) :
    ExceptEquiv List.Perm (aggregate fn t₁) (aggregate fn t₂) := by
  have e : ∀ t, aggregate fn t = t.mapM (aggEntry fn) := fun _ => rfl
  rw [e, e]
  exact score_mapM_perm (aggEntry fn) (aggErr fn) h (fun x _ e he => aggEntry_error he)

theorem firstTie_shaped (e T : List Cand) (m : Nat) :
    firstTie (e.map Slot.cand ++ List.replicate m (Slot.tie T)) = if m = 0 then none else some e.length := by
  induction e with
  | nil =>
    cases m with
    | zero => rfl
    | succ m => rfl
  | cons x xs ih =>
    simp only [List.map_cons, List.cons_append, firstTie, ih]
    split <;> rfl

theorem slotsEquiv_prepend₂ {l₁ l₂ : List Cand} (hl : l₁.Perm l₂) {b₁ b₂ : List Slot} (hb : SlotsEquiv b₁ b₂) :
    SlotsEquiv (l₁.map Slot.cand ++ b₁) (l₂.map Slot.cand ++ b₂) := by
  obtain ⟨e₁, e₂, T₁, T₂, m, h1, h2, he, hT⟩ := hb
  refine ⟨l₁ ++ e₁, l₂ ++ e₂, T₁, T₂, m, ?_, ?_, hl.append he, hT⟩
  · rw [h1, List.map_append, List.append_assoc]
  · rw [h2, List.map_append, List.append_assoc]

theorem slotCands_cands (e : List Cand) : slotCands (e.map Slot.cand) = e := by
  induction e with
  | nil => rfl
  | cons x xs ih => simp only [List.map_cons, slotCands, ih]

theorem take_shaped (e T : List Cand) (m : Nat) :
    (e.map Slot.cand ++ List.replicate m (Slot.tie T)).take e.length = e.map Slot.cand := by
  have : e.length = (e.map Slot.cand).length := by rw [List.length_map]
  rw [this, List.take_left']
  rfl

theorem tableFuel_perm {t₁ t₂ : ScoreTable} (h : t₁.Perm t₂) : tableFuel t₁ = tableFuel t₂ := by
  unfold tableFuel
  rw [(h.map _).sum_eq, h.length_eq]

/-! ### `_tiebreak_default` does not depend on the order of the rows -/

theorem tiebreakDefault_permRows : ∀ (fuel : Nat) {t₁ t₂ : ScoreTable}, t₁.Perm t₂ → (scoreTKeys t₁).Nodup → ∀ n : Nat,
    ExceptEquiv SlotsEquiv (tiebreakDefault fuel t₁ n) (tiebreakDefault fuel t₂ n) := by
  intro fuel
  induction fuel with
  | zero => intro t₁ t₂ _ _ n; exact rfl
  | succ fuel ih =>
    intro t₁ t₂ h hnd n
    cases t₁ with
    | nil =>
      have : t₂ = [] := h.nil_eq.symm
      subst this
      exact rfl
    | cons a l₁ =>
      cases t₂ with
      | nil => exact absurd h.eq_nil (by simp)
      | cons b l₂ =>
        have hmx : ((a :: l₁).map (fun p => totalCount p.2)).foldl (fun m x => if m < x then x else m) (totalCount a.2) =
            ((b :: l₂).map (fun p => totalCount p.2)).foldl (fun m x => if m < x then x else m) (totalCount b.2) :=
          maxFold_perm (h.map _) (List.mem_map.mpr ⟨a, List.mem_cons_self, rfl⟩)
            (List.mem_map.mpr ⟨b, List.mem_cons_self, rfl⟩)
        unfold tiebreakDefault
        simp only
        rw [hmx]
        split
        · exact rfl
        · have hagg := aggregate_permRows .medianLow h
          cases h1 : aggregate .medianLow (a :: l₁) with
          | error e1 =>
            cases h2 : aggregate .medianLow (b :: l₂) with
            | error e2 => rw [h1, h2] at hagg; exact hagg
            | ok y => rw [h1, h2] at hagg; exact hagg.elim
          | ok med₁ =>
            cases h2 : aggregate .medianLow (b :: l₂) with
            | error e2 => rw [h1, h2] at hagg; exact hagg.elim
            | ok med₂ =>
              rw [h1, h2] at hagg
              have hmed : med₁.Perm med₂ := hagg
              have hkm : (keys med₁).Nodup := by rw [aggregate_keys h1]; exact hnd
              simp only [bind, Except.bind, pure, Except.pure]
              obtain ⟨e₁, e₂, T₁, T₂, m, hb1, hb2, he, hT⟩ := getNBest_perm med₁ med₂ hmed n
              rw [hb1, hb2, firstTie_shaped, firstTie_shaped]
              cases m with
              | zero =>
                simp only [if_true]
                exact ⟨e₁, e₂, T₁, T₂, 0, rfl, rfl, he, hT⟩
              | succ m =>
                rw [if_neg (Nat.succ_ne_zero m), if_neg (Nat.succ_ne_zero m), ← he.length_eq]
                cases hlen : e₁.length with
                | zero =>
                  simp only
                  rw [closestChange_perm h hmed hkm]
                  have hG := getD_perm_fun hmed hkm
                  have hmap : ∀ cc : Int,
                      ((a :: l₁).map (fun p => (p.1, setCount p.2 (getD med₁ p.1 0) (getCount p.2 (getD med₁ p.1 0) - cc)))).Perm
                        ((b :: l₂).map (fun p => (p.1, setCount p.2 (getD med₂ p.1 0) (getCount p.2 (getD med₂ p.1 0) - cc)))) := by
                    intro cc
                    have : (fun p : Cand × CScores => (p.1, setCount p.2 (getD med₁ p.1 0) (getCount p.2 (getD med₁ p.1 0) - cc))) =
                        (fun p => (p.1, setCount p.2 (getD med₂ p.1 0) (getCount p.2 (getD med₂ p.1 0) - cc))) := by
                      funext p
                      have : getD med₁ p.1 0 = getD med₂ p.1 0 := congrFun hG p.1
                      rw [this]
                    rw [this]
                    exact h.map _
                  apply ih (hmap _)
                  unfold scoreTKeys
                  rw [List.map_map]
                  exact hnd
                | succ i =>
                  simp only
                  have hl2 : e₂.length = i + 1 := by rw [← he.length_eq]; exact hlen
                  have tk1 : (e₁.map Slot.cand ++ List.replicate (m + 1) (Slot.tie T₁)).take (i + 1) = e₁.map Slot.cand := by
                    rw [← hlen]; exact take_shaped e₁ T₁ (m + 1)
                  have tk2 : (e₂.map Slot.cand ++ List.replicate (m + 1) (Slot.tie T₂)).take (i + 1) = e₂.map Slot.cand := by
                    rw [← hl2]; exact take_shaped e₂ T₂ (m + 1)
                  rw [tk1, tk2, slotCands_cands, slotCands_cands]
                  have hfilt : ((a :: l₁).filter (fun p => !(e₁.contains p.1))).Perm
                      ((b :: l₂).filter (fun p => !(e₂.contains p.1))) := by
                    have : (fun p : Cand × CScores => !(e₁.contains p.1)) = (fun p => !(e₂.contains p.1)) := by
                      funext p
                      rw [List.contains_eq_mem, List.contains_eq_mem, decide_eq_decide.mpr he.mem_iff]
                    rw [this]
                    exact h.filter _
                  have hndf : (scoreTKeys ((a :: l₁).filter (fun p => !(e₁.contains p.1)))).Nodup :=
                    hnd.sublist (List.Sublist.map _ List.filter_sublist)
                  have hrec := ih hfilt hndf (n - (i + 1))
                  cases r1 : tiebreakDefault fuel ((a :: l₁).filter (fun p => !(e₁.contains p.1))) (n - (i + 1)) with
                  | error x1 =>
                    cases r2 : tiebreakDefault fuel ((b :: l₂).filter (fun p => !(e₂.contains p.1))) (n - (i + 1)) with
                    | error x2 => rw [r1, r2] at hrec; exact hrec
                    | ok y2 => rw [r1, r2] at hrec; exact hrec.elim
                  | ok y1 =>
                    cases r2 : tiebreakDefault fuel ((b :: l₂).filter (fun p => !(e₂.contains p.1))) (n - (i + 1)) with
                    | error x2 => rw [r1, r2] at hrec; exact hrec.elim
                    | ok y2 =>
                      rw [r1, r2] at hrec
                      exact slotsEquiv_prepend₂ he hrec

/-! ### `_tiebreak_plus` -/

/-- `_tiebreak_plus` reads the median of the first row: on rows sharing their median it does not depend on their order -/
theorem tiebreakPlus_permRows {t₁ t₂ : ScoreTable} (h : t₁.Perm t₂) (μ : Except Err Rat)
    (hμ : ∀ q ∈ t₁, aggregateOne .medianLow q.2 = μ) (n : Nat) :
    ExceptEquiv SlotsEquiv (tiebreakPlus t₁ n) (tiebreakPlus t₂ n) := by
  cases t₁ with
  | nil =>
    have : t₂ = [] := h.nil_eq.symm
    subst this
    exact rfl
  | cons a l₁ =>
    cases t₂ with
    | nil => exact absurd h.eq_nil (by simp)
    | cons b l₂ =>
      unfold tiebreakPlus
      simp only
      rw [hμ a List.mem_cons_self, hμ b (h.mem_iff.mpr List.mem_cons_self)]
      cases μ with
      | error e => exact rfl
      | ok m =>
        simp only [bind, Except.bind, pure, Except.pure]
        exact getNBest_perm _ _ (h.map _) n

/-- without a shared median the first row decides: the function itself is not order-free (inside `majorityJudgment` it
    is only ever called on rows sharing their median) -/
example : tiebreakPlus [(0, [(1, 1)]), (1, [(2, 1)])] 1 = .ok [Slot.tie [0, 1]] ∧
    tiebreakPlus [(1, [(2, 1)]), (0, [(1, 1)])] 1 = .ok [Slot.cand 1] := by decide +kernel

theorem mjBreak_permRows (tb : TieBreaking) {t₁ t₂ : ScoreTable} (h : t₁.Perm t₂) (hnd : (scoreTKeys t₁).Nodup)
    (μ : Except Err Rat) (hμ : ∀ q ∈ t₁, aggregateOne .medianLow q.2 = μ) (k : Nat) :
    ExceptEquiv SlotsEquiv (mjBreak tb t₁ k) (mjBreak tb t₂ k) := by
  unfold mjBreak
  cases tb with
  | default => simp only; rw [tableFuel_perm h]; exact tiebreakDefault_permRows _ h hnd k
  | plus => exact tiebreakPlus_permRows h μ hμ k

/-! ### the table of the tied candidates -/

theorem mem_tiedOf {c : ScoreTable} {T : List Cand} {q : Cand × CScores} :
    q ∈ tiedOf c T ↔ q.1 ∈ T ∧ tableGet c q.1 = some q.2 := by
  unfold tiedOf
  rw [List.mem_filterMap]
  constructor
  · rintro ⟨x, hx, hq⟩
    cases hg : tableGet c x with
    | none => rw [hg] at hq; cases hq
    | some cs =>
      rw [hg] at hq
      simp only [Option.map_some, Option.some.injEq] at hq
      subst hq
      exact ⟨mem_sortDedup.mp hx, hg⟩
  · rintro ⟨h1, h2⟩
    exact ⟨q.1, mem_sortDedup.mpr h1, by rw [h2]; rfl⟩

theorem keys_filterMap_sublist (c : ScoreTable) (L : List Cand) :
    ((L.filterMap (fun x => (tableGet c x).map (fun cs => (x, cs)))).map (·.1)).Sublist L := by
  induction L with
  | nil => exact List.Sublist.refl _
  | cons x xs ih =>
    rw [List.filterMap_cons]
    cases tableGet c x with
    | none => exact ih.cons _
    | some cs => exact ih.cons_cons _

theorem tiedOf_keys_nodup (c : ScoreTable) (T : List Cand) : (scoreTKeys (tiedOf c T)).Nodup :=
  (keys_filterMap_sublist c (sortDedup T)).nodup (sortDedup_nodup T)

/-- under any injective renaming the tied table of the renamed election holds the renamed rows, in some order -/
theorem tiedOf_ren_perm {σ : Cand → Cand} (hσ : Function.Injective σ) (c : ScoreTable) (T : List Cand) :
    (tiedOf (renScoreTable σ c) (T.map σ)).Perm (renScoreTable σ (tiedOf c T)) := by
  have hk : (renScoreTable σ (tiedOf c T)).map (·.1) = (scoreTKeys (tiedOf c T)).map σ := by
    unfold renScoreTable scoreTKeys; rw [List.map_map, List.map_map]; rfl
  apply (List.perm_ext_iff_of_nodup (List.Nodup.of_map _ (tiedOf_keys_nodup _ _))
    (List.Nodup.of_map (·.1) (by rw [hk]; exact (tiedOf_keys_nodup c T).map hσ))).mpr
  rintro ⟨x', cs⟩
  rw [mem_tiedOf]
  constructor
  · rintro ⟨h1, h2⟩
    obtain ⟨x, hx, hxe⟩ := List.mem_map.mp h1
    simp only at hxe h2
    subst hxe
    rw [mjr_tableGet hσ] at h2
    exact List.mem_map.mpr ⟨(x, cs), mem_tiedOf.mpr ⟨hx, h2⟩, rfl⟩
  · intro hm
    obtain ⟨q, hq, he⟩ := List.mem_map.mp (show (x', cs) ∈ (tiedOf c T).map (fun q => (σ q.1, q.2)) from hm)
    obtain ⟨h1, h2⟩ := mem_tiedOf.mp hq
    simp only [Prod.mk.injEq] at he
    obtain ⟨rfl, rfl⟩ := he
    exact ⟨List.mem_map.mpr ⟨q.1, h1, rfl⟩, by simp only; rw [mjr_tableGet hσ]; exact h2⟩

/-! ### the tied candidates share their median -/

theorem aggregate_mem {fn : Agg} : ∀ {t : ScoreTable} {agg : Votes}, aggregate fn t = .ok agg →
    ∀ q ∈ t, ∃ v, aggregateOne fn q.2 = .ok v ∧ (q.1, v) ∈ agg := by
  intro t
  induction t with
  | nil => intro agg _ q hq; cases hq
  | cons p ps ih =>
    intro agg h q hq
    have e : aggregate fn (p :: ps) = (p :: ps).mapM (aggEntry fn) := rfl
    rw [e, score_mapM_cons_ok] at h
    cases hp : aggEntry fn p with
    | error e' => rw [hp] at h; cases h
    | ok y =>
      rw [hp] at h
      simp only at h
      cases hr : ps.mapM (aggEntry fn) with
      | error e' => rw [hr] at h; cases h
      | ok r =>
        rw [hr] at h
        injection h with h
        subst h
        rcases List.mem_cons.mp hq with rfl | hq'
        · unfold aggEntry at hp
          cases hv : aggregateOne fn q.2 with
          | error e' => rw [hv] at hp; cases hp
          | ok v =>
            rw [hv] at hp
            injection hp with hp
            subst hp
            exact ⟨v, rfl, List.mem_cons_self⟩
        · obtain ⟨w, hw1, hw2⟩ := ih (agg := r) hr q hq'
          exact ⟨w, hw1, List.mem_cons_of_mem _ hw2⟩

/-- in `MajorityJudgment.evaluate` every row handed to the tie-breakers has the same median -/
theorem tied_share_median {c : ScoreTable} {agg : Votes} (hagg : aggregate .medianLow c = .ok agg)
    (hnd : (scoreTKeys c).Nodup) {n : Nat} {T : List Cand} (hlast : (getNBest agg n).getLast? = some (Slot.tie T)) :
    ∃ τ : Rat, ∀ q ∈ tiedOf c T, aggregateOne .medianLow q.2 = .ok τ := by
  have h1 : 1 ≤ n := by
    rcases Nat.eq_zero_or_pos n with h0 | h0
    · subst h0; rw [getNBest_zero] at hlast; cases hlast
    · exact h0
  obtain ⟨τ, _, _, hT, _⟩ := mj_tie_structure agg n h1 T hlast
  refine ⟨τ, ?_⟩
  intro q hq
  obtain ⟨hqT, hget⟩ := mem_tiedOf.mp hq
  have hqc : q ∈ c := by
    rw [tableGet_eq_score_dget] at hget
    exact (score_dget_eq_some_iff hnd).mp hget
  obtain ⟨v, hv, hmem⟩ := aggregate_mem hagg q hqc
  rw [hv]
  congr 1
  -- the entry of `q.1` in `agg` is unique and has value `τ`
  rw [hT] at hqT
  unfold level at hqT
  obtain ⟨p, hp, hpk⟩ := List.mem_map.mp hqT
  obtain ⟨hpa, hpt⟩ := List.mem_filter.mp hp
  simp only [decide_eq_true_eq] at hpt
  have hkn : (agg.map (·.1)).Nodup := by
    have := aggregate_keys hagg
    unfold keys at this
    rw [this]; exact hnd
  have : p = (q.1, v) := List.inj_on_of_nodup_map hkn hpa hmem hpk
  rw [this] at hpt
  exact hpt

/-! ### assembling -/

theorem mjBreak_ren {σ : Cand → Cand} (hσ : Function.Injective σ) (tb : TieBreaking) (t : ScoreTable) (k : Nat) :
    mjBreak tb (renScoreTable σ t) k = (mjBreak tb t k).map (List.map (renSlot σ)) := by
  unfold mjBreak
  cases tb with
  | default => simp only; rw [mjr_tableFuel, mjr_tiebreakDefault hσ]
  | plus => exact mjr_tiebreakPlus _ _

theorem mjTail_nil (tb : TieBreaking) (c : ScoreTable) : mjTail tb c [] = .error (.other "IndexError") := rfl

theorem mjTail_ren {σ : Cand → Cand} (hσ : Function.Injective σ) (tb : TieBreaking) {c : ScoreTable} {agg : Votes}
    (hagg : aggregate .medianLow c = .ok agg) (hnd : (scoreTKeys c).Nodup) (n : Nat) :
    ExceptEquiv (fun r' r => SlotsEquiv r' (r.map (renSlot σ)))
      (mjTail tb (renScoreTable σ c) ((getNBest agg n).map (renSlot σ))) (mjTail tb c (getNBest agg n)) := by
  obtain ⟨e, T, m, ho⟩ := getNBest_shaped agg n
  have homap : (getNBest agg n).map (renSlot σ) =
      (e.map σ).map Slot.cand ++ List.replicate m (Slot.tie (T.map σ)) := by
    rw [ho]
    simp only [List.map_append, List.map_map, List.map_replicate, renSlot, Function.comp_def]
  cases m with
  | zero =>
    simp only [List.replicate_zero, List.append_nil] at ho homap
    rw [homap, ho]
    by_cases he : e = []
    · subst he
      exact rfl
    · have he' : e.map σ ≠ [] := by simpa using he
      rw [mjTail_cands tb _ _ he', mjTail_cands tb _ _ he]
      show SlotsEquiv _ ((e.map Slot.cand).map (renSlot σ))
      have : (e.map Slot.cand).map (renSlot σ) = (e.map σ).map Slot.cand := by
        simp only [List.map_map, renSlot, Function.comp_def]
      rw [this]
      exact slotsEquiv_refl _ ⟨e.map σ, [], 0, by simp⟩
  | succ m =>
    have hlast : (getNBest agg n).getLast? = some (Slot.tie T) := by
      rw [ho, List.getLast?_append, List.getLast?_replicate]; simp
    obtain ⟨τ, hτ⟩ := tied_share_median hagg hnd hlast
    have hperm := tiedOf_ren_perm hσ c T
    have hμ : ∀ q ∈ tiedOf (renScoreTable σ c) (T.map σ), aggregateOne .medianLow q.2 = .ok τ := by
      intro q hq
      have hq' := hperm.mem_iff.mp hq
      obtain ⟨q0, hq0, rfl⟩ := List.mem_map.mp (show q ∈ (tiedOf c T).map (fun q => (σ q.1, q.2)) from hq')
      exact hτ q0 hq0
    have hb := mjBreak_permRows tb hperm (tiedOf_keys_nodup _ _) (.ok τ) hμ (m + 1)
    rw [mjBreak_ren hσ] at hb
    rw [homap, ho, mjTail_tie, mjTail_tie]
    cases h1 : mjBreak tb (tiedOf (renScoreTable σ c) (T.map σ)) (m + 1) with
    | error x1 =>
      cases h2 : mjBreak tb (tiedOf c T) (m + 1) with
      | error x2 => rw [h1, h2] at hb; exact hb
      | ok y2 => rw [h1, h2] at hb; exact hb.elim
    | ok y1 =>
      cases h2 : mjBreak tb (tiedOf c T) (m + 1) with
      | error x2 => rw [h1, h2] at hb; exact hb.elim
      | ok y2 =>
        rw [h1, h2] at hb
        have hb' : SlotsEquiv y1 (y2.map (renSlot σ)) := hb
        show SlotsEquiv _ ((e.map Slot.cand ++ y2).map (renSlot σ))
        have : (e.map Slot.cand ++ y2).map (renSlot σ) = (e.map σ).map Slot.cand ++ y2.map (renSlot σ) := by
          simp only [List.map_append, List.map_map, renSlot, Function.comp_def]
        rw [this]
        exact slotsEquiv_prepend₂ (List.Perm.refl _) hb'

end VL.Perm.MJ

namespace VL.Perm
open VL VL.Score VL.C10

/-- **`_tiebreak_default` does not depend on the order of the rows of its table** (distinct candidates) -/
theorem mj_tiebreakDefault_permRows (fuel : Nat) {t₁ t₂ : ScoreTable} (h : t₁.Perm t₂) (hnd : (t₁.map (·.1)).Nodup)
    (n : Nat) : ExceptEquiv SlotsEquiv (tiebreakDefault fuel t₁ n) (tiebreakDefault fuel t₂ n) :=
  MJ.tiebreakDefault_permRows fuel h hnd n

/-- **`_tiebreak_plus` does not depend on the order of rows that share their median** -/
theorem mj_tiebreakPlus_permRows {t₁ t₂ : ScoreTable} (h : t₁.Perm t₂) (μ : Except Err Rat)
    (hμ : ∀ q ∈ t₁, aggregateOne .medianLow q.2 = μ) (n : Nat) :
    ExceptEquiv SlotsEquiv (tiebreakPlus t₁ n) (tiebreakPlus t₂ n) :=
  MJ.tiebreakPlus_permRows h μ hμ n

/-- **`MajorityJudgment.evaluate`: candidate names do not matter**, for EVERY injective renaming (monotone or not), both
    tie-breaking rules, every setting, no hypothesis on the profile: the same exception, or the renamed selection up to
    `SlotsEquiv`.  (`renScore σ p` lists the renamed candidates of each ballot in the old order; combine with
    `majorityJudgment_same` for re-listed / re-ordered ballots.) -/
theorem majorityJudgment_rename {σ : Cand → Cand} (hσ : Function.Injective σ) (tb : TieBreaking) (cfg : Cfg)
    (p : SProfile) (n : Nat) :
    ExceptEquiv (fun r' r => SlotsEquiv r' (r.map (renSlot σ)))
      (majorityJudgment tb cfg (renScore σ p) n) (majorityJudgment tb cfg p n) := by
  rw [majorityJudgment_eq, majorityJudgment_eq, correctedScores_ren hσ]
  cases hc : correctedScores { cfg with fn := .medianLow } p with
  | error e => exact rfl
  | ok t =>
    show ExceptEquiv _
      (aggregate .medianLow (renScoreTable σ t) >>= fun agg => mjTail tb (renScoreTable σ t) (getNBest agg n))
      (aggregate .medianLow t >>= fun agg => mjTail tb t (getNBest agg n))
    rw [aggregate_ren]
    cases ha : aggregate .medianLow t with
    | error e => exact rfl
    | ok agg =>
      show ExceptEquiv _ (mjTail tb (renScoreTable σ t) (getNBest (renVotes σ agg) n)) (mjTail tb t (getNBest agg n))
      rw [getNBest_rename]
      exact MJ.mjTail_ren hσ tb ha (correctedScores_keys_nodup hc) n

/-- the same with the renamed ballots presented in any order and each re-listed in any order -/
theorem majorityJudgment_rename_same {σ : Cand → Cand} (hσ : Function.Injective σ) (tb : TieBreaking) (cfg : Cfg)
    (p p' : SProfile) (h : SameBallots p' (renScore σ p)) (n : Nat) :
    ExceptEquiv (fun r' r => SlotsEquiv r' (r.map (renSlot σ)))
      (majorityJudgment tb cfg p' n) (majorityJudgment tb cfg p n) := by
  have h1 := majorityJudgment_same tb cfg h n
  have h2 := majorityJudgment_rename hσ tb cfg p n
  cases hx : majorityJudgment tb cfg p' n with
  | error e1 =>
    cases hy : majorityJudgment tb cfg (renScore σ p) n with
    | error e2 =>
      cases hz : majorityJudgment tb cfg p n with
      | error e3 => rw [hx, hy] at h1; rw [hy, hz] at h2; exact Eq.trans h1 h2
      | ok c => rw [hy, hz] at h2; exact h2.elim
    | ok b => rw [hx, hy] at h1; exact h1.elim
  | ok a =>
    cases hy : majorityJudgment tb cfg (renScore σ p) n with
    | error e2 => rw [hx, hy] at h1; exact h1.elim
    | ok b =>
      cases hz : majorityJudgment tb cfg p n with
      | error e3 => rw [hy, hz] at h2; exact h2.elim
      | ok c => rw [hx, hy] at h1; rw [hy, hz] at h2; exact slotsEquiv_trans h1 h2

example : Function.Injective (fun c : Nat => if c = 1 then 9 else if c = 2 then 4 else if c = 3 then 6 else c + 20) := by
  intro a b h
  simp only at h
  split_ifs at h <;> omega

/-- non-vacuity: a renaming that is not monotone (1 ↦ 9, 2 ↦ 4, 3 ↦ 6), a boundary tie between 1 and 3 broken by either
    rule; the tied table of the renamed election lists the rows in the other order (6 before 9) -/
example : majorityJudgment .default { fn := .medianLow, unscored := .none, minCount := 0, trunc := .off, bottom := 0 }
    (renScore (fun c => if c = 1 then 9 else if c = 2 then 4 else if c = 3 then 6 else c + 20)
      [([(1, 1), (2, 2), (3, 1)], 6), ([(3, 2)], 3)]) 2 = .ok [Slot.cand 4, Slot.cand 6] := by decide +kernel
example : majorityJudgment .plus { fn := .medianLow, unscored := .none, minCount := 0, trunc := .off, bottom := 0 }
    (renScore (fun c => if c = 1 then 9 else if c = 2 then 4 else if c = 3 then 6 else c + 20)
      [([(1, 1), (2, 2), (3, 1)], 6), ([(3, 2)], 3)]) 2 = .ok [Slot.cand 4, Slot.cand 6] := by decide +kernel

end VL.Perm
