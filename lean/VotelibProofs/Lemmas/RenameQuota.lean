/-
  C10, family 2 (renaming): `QuotaDistributor` and `LargestRemainder` commute with every injective renaming of the parties.
  The renamed result is the result with every key renamed (`renSel`); a `Tie` key is re-canonicalised (`renKey`), because the
  model keeps the members of a Tie sorted by id.
-/
import VotelibProofs.Lemmas.PermQuota
namespace VL.Perm
open VL VL.QD VL.C10

def renI (σ : Cand → Cand) (m : IMap) : IMap := m.map (fun p => (σ p.1, p.2))

def renKey (σ : Cand → Cand) : Key → Key
  | .cand c => .cand (σ c)
  | .tie cs => mkTie (cs.map σ)

def renSel (σ : Cand → Cand) (s : Sel) : Sel := s.map (fun p => (renKey σ p.1, p.2))

section
variable (σ : Cand → Cand) (hσ : Function.Injective σ)
include hσ

theorem getI_ren (m : IMap) (c : Cand) (d : Int) : getI (renI σ m) (σ c) d = getI m c d := by
  unfold getI renI
  induction m with
  | nil => rfl
  | cons x xs ih =>
    simp only [List.map_cons, List.find?_cons]
    by_cases hx : x.1 = c
    · simp [hx]
    · have : σ x.1 ≠ σ c := fun h => hx (hσ h)
      simp only [hx, this, decide_false]
      exact ih

theorem getCap_ren (m : IMap) (c : Cand) : getCap (renI σ m) (σ c) = getCap m c := by
  unfold getCap renI
  induction m with
  | nil => rfl
  | cons x xs ih =>
    simp only [List.map_cons, List.find?_cons]
    by_cases hx : x.1 = c
    · simp [hx]
    · have : σ x.1 ≠ σ c := fun h => hx (hσ h)
      simp only [hx, this, decide_false]
      exact ih

omit hσ in
theorem sumI_ren (m : IMap) : sumI (renI σ m) = sumI m := by
  rw [sumI_eq, sumI_eq]; unfold renI; rw [List.map_map]; rfl

omit hσ in
theorem sumK_renSel (s : Sel) : sumK (renSel σ s) = sumK s := by
  rw [sumK_eq, sumK_eq]; unfold renSel; rw [List.map_map]; rfl

theorem awardOf_ren (q : Rat) (ae : Bool) (prev maxS : IMap) (p : Cand × Rat) :
    awardOf q ae (renI σ prev) (renI σ maxS) (σ p.1, p.2) =
      (awardOf q ae prev maxS p).map (fun e => (renKey σ e.1, e.2)) := by
  have hcap : ∀ w, capMin (renI σ maxS) (σ p.1) w = capMin maxS p.1 w := by
    intro w; unfold capMin; rw [getCap_ren σ hσ]
  unfold awardOf
  simp only [getI_ren σ hσ, hcap]
  split <;> rfl

theorem keys_nodup_ren (v : Votes) (hnd : (v.map (·.1)).Nodup) : ((renVotes σ v).map (·.1)).Nodup := by
  unfold renVotes
  rw [List.map_map]
  have : ((fun p : Cand × Rat => p.1) ∘ fun p : Cand × Rat => (σ p.1, p.2)) = σ ∘ (·.1) := rfl
  rw [this, ← List.map_map]
  exact hnd.map hσ

theorem qdSel_ren (cfg : Cfg) (v : Votes) (n : Nat) (prev maxS : IMap) :
    qdSel cfg (renVotes σ v) n (renI σ prev) (renI σ maxS) = renSel σ (qdSel cfg v n prev maxS) := by
  unfold qdSel
  rw [sumVals_ren]
  split
  · rfl
  · unfold renVotes renSel
    rw [List.filterMap_map, List.map_filterMap]
    apply List.filterMap_congr
    intro p _
    simp only [Function.comp]
    rw [awardOf_ren σ hσ]

omit hσ in
theorem qdRefused_ren (cfg : Cfg) (v : Votes) (n : Nat) : qdRefused cfg (renVotes σ v) n = qdRefused cfg v n := by
  unfold qdRefused
  rw [sumVals_ren]

/-- **QuotaDistributor: renaming equivariance** (policies `error` and `ignore`) -/
theorem quotaDistribute_ren (cfg : Cfg) (hpol : cfg.onOver ≠ .subtract) (v : Votes) (hnd : (v.map (·.1)).Nodup)
    (n : Nat) (prev maxS : IMap) :
    quotaDistribute cfg (renVotes σ v) n (renI σ prev) (renI σ maxS) =
      (quotaDistribute cfg v n prev maxS).map (renSel σ) := by
  rw [quotaDistribute_form cfg _ n _ _ (keys_nodup_ren σ hσ v hnd), quotaDistribute_form cfg v n prev maxS hnd,
    qdRefused_ren, qdSel_ren σ hσ]
  split
  · rfl
  · unfold applyPolicy
    simp only [sumK_renSel, sumI_ren]
    split
    · cases hp : cfg.onOver with
      | ignore => rfl
      | error => rfl
      | subtract => exact absurd hp hpol
    · rfl

/-! ### the seat counter under a renaming that is injective on the keys in play -/

omit hσ in
theorem look_renSel (s : Sel) (k : Key) (hinj : ∀ k' ∈ s.map (·.1), renKey σ k' = renKey σ k → k' = k) :
    look (renSel σ s) (renKey σ k) = look s k := by
  induction s with
  | nil => rfl
  | cons p ps ih =>
    have : renSel σ (p :: ps) = (renKey σ p.1, p.2) :: renSel σ ps := rfl
    rw [this, look_cons, look_cons]
    by_cases h : p.1 = k
    · rw [if_pos h, if_pos (by rw [h])]
    · have h' : ¬ renKey σ p.1 = renKey σ k := fun e => h (hinj p.1 (by simp) e)
      rw [if_neg h, if_neg h']
      exact ih (fun k' hk' => hinj k' (by simp only [List.map_cons, List.mem_cons]; exact Or.inr hk'))

omit hσ in
theorem setK_renSel (s : Sel) (k : Key) (v : Int) (hinj : ∀ k' ∈ s.map (·.1), renKey σ k' = renKey σ k → k' = k) :
    setK (renSel σ s) (renKey σ k) v = renSel σ (setK s k v) := by
  induction s with
  | nil => rfl
  | cons p ps ih =>
    have e1 : renSel σ (p :: ps) = (renKey σ p.1, p.2) :: renSel σ ps := rfl
    rw [e1]
    unfold setK
    by_cases h : p.1 = k
    · rw [if_pos h, if_pos (by simp only; rw [h])]; rfl
    · have h' : ¬ renKey σ p.1 = renKey σ k := fun e => h (hinj p.1 (by simp) e)
      rw [if_neg h, if_neg (by simpa using h')]
      rw [ih (fun k' hk' => hinj k' (by simp only [List.map_cons, List.mem_cons]; exact Or.inr hk'))]
      rfl

omit hσ in
theorem incK_renSel (s : Sel) (k : Key) (hinj : ∀ k' ∈ s.map (·.1), renKey σ k' = renKey σ k → k' = k) :
    incK (renSel σ s) (renKey σ k) = renSel σ (incK s k) := by
  unfold incK
  rw [hasK_eq_look, hasK_eq_look, getK_eq_look, getK_eq_look, look_renSel σ s k hinj]
  split
  · exact setK_renSel σ s k _ hinj
  · exact setK_renSel σ s k _ hinj

omit hσ in
theorem keys_incK_subset (s : Sel) (k : Key) : ∀ x ∈ (incK s k).map (·.1), x = k ∨ x ∈ s.map (·.1) := by
  intro x hx
  have key : ∀ v : Int, x ∈ (setK s k v).map (·.1) → x = k ∨ x ∈ s.map (·.1) := by
    intro v hx
    rw [keys_setK] at hx
    by_cases hh : hasK s k = true
    · rw [if_pos hh] at hx; exact Or.inr hx
    · rw [if_neg hh] at hx
      rcases List.mem_append.mp hx with h | h
      · exact Or.inr h
      · exact Or.inl (by simpa using h)
  unfold incK at hx
  split at hx
  · exact key _ hx
  · exact key _ hx

omit hσ in
theorem foldl_incK_renSel (ks : List Key) : ∀ (s : Sel),
    (∀ a ∈ s.map (·.1) ++ ks, ∀ b ∈ s.map (·.1) ++ ks, renKey σ a = renKey σ b → a = b) →
    (ks.map (renKey σ)).foldl incK (renSel σ s) = renSel σ (ks.foldl incK s) := by
  induction ks with
  | nil => intro s _; rfl
  | cons k ks ih =>
    intro s hinj
    simp only [List.map_cons, List.foldl_cons]
    rw [incK_renSel σ s k (fun k' hk' e => hinj k' (by simp [hk']) k (by simp) e)]
    apply ih
    intro a ha b hb e
    have lift : ∀ x ∈ (incK s k).map (·.1) ++ ks, x ∈ s.map (·.1) ++ k :: ks := by
      intro x hx
      rcases List.mem_append.mp hx with h | h
      · rcases keys_incK_subset s k x h with rfl | h'
        · simp
        · exact List.mem_append.mpr (Or.inl h')
      · exact List.mem_append.mpr (Or.inr (List.mem_cons_of_mem _ h))
    exact hinj a (lift a ha) b (lift b hb) e

theorem renKey_cand_inj (a b : Cand) (h : renKey σ (.cand a) = renKey σ (.cand b)) : a = b := by
  simp only [renKey] at h
  injection h with h
  exact hσ h

omit hσ in
theorem slotKey_renSlot (s : Slot) : slotKey (renSlot σ s) = renKey σ (slotKey s) := by
  cases s with
  | cand c => rfl
  | tie T =>
    simp only [renSlot, slotKey, renKey, mkTie]
    rw [sortNat_eq_of_perm ((sortNat_perm_self T).map σ).symm]

omit hσ in
theorem lrRemainders_ren (hσ : Function.Injective σ) (v : Votes) (q : Rat) (g g' : Sel) (maxS : IMap)
    (hk : ∀ c, getK g' (.cand (σ c)) 0 = getK g (.cand c) 0) :
    lrRemainders (renVotes σ v) q g' (renI σ maxS) = renVotes σ (lrRemainders v q g maxS) := by
  unfold lrRemainders renVotes
  rw [List.filterMap_map, List.map_filterMap]
  apply List.filterMap_congr
  intro p _
  simp only [Function.comp]
  rw [hk, getCap_ren σ hσ]
  split
  · split <;> rfl
  · rfl

/-- a list of keys with candidates and at most one distinct Tie: every renaming by an injective map is injective on it -/
def OneTie (T : List Cand) (L : List Key) : Prop := ∀ k ∈ L, (∃ c, k = .cand c) ∨ k = mkTie T

theorem injOn_of_oneTie (T : List Cand) (L : List Key) (h : OneTie T L) :
    ∀ a ∈ L, ∀ b ∈ L, renKey σ a = renKey σ b → a = b := by
  intro a ha b hb e
  rcases h a ha with ⟨ca, rfl⟩ | rfl <;> rcases h b hb with ⟨cb, rfl⟩ | rfl
  · rw [renKey_cand_inj σ hσ ca cb e]
  · simp [renKey, mkTie] at e
  · simp [renKey, mkTie] at e
  · rfl

omit hσ in
theorem keys_qdSel_cand (cfg : Cfg) (v : Votes) (n : Nat) (prev maxS : IMap) :
    ∀ k ∈ (qdSel cfg v n prev maxS).map (·.1), ∃ c, k = .cand c := by
  intro k hk
  unfold qdSel at hk
  split at hk
  · simp at hk
  · have := (keys_filterMap_awardOf _ _ _ _ _).subset hk
    obtain ⟨p, _, rfl⟩ := List.mem_map.mp this
    exact ⟨p.1, rfl⟩

/-- **LargestRemainder: renaming equivariance** (policies `error` and `ignore`): the result for the renamed parties is
    the renamed result — the same dict, every key renamed, in the same insertion order -/
theorem largestRemainder_ren (cfg : Cfg) (hpol : cfg.onOver ≠ .subtract) (v : Votes) (hnd : (v.map (·.1)).Nodup)
    (n : Nat) (prev maxS : IMap) (hprev : (prev.map (·.1)).Nodup) :
    largestRemainder cfg (renVotes σ v) n (renI σ prev) (renI σ maxS) =
      (largestRemainder cfg v n prev maxS).map (renSel σ) := by
  unfold largestRemainder
  rw [quotaDistribute_ren σ hσ cfg hpol v hnd n prev maxS]
  cases h1 : quotaDistribute cfg v n prev maxS with
  | error e => rfl
  | ok qe =>
    have hqe := quotaDistribute_ok cfg hpol v hnd n prev maxS qe h1
    simp only [Except.map, sumVals_ren]
    have hprev' : ((renI σ prev).map (·.1)).Nodup := by
      unfold renI
      rw [List.map_map]
      have : ((fun p : Cand × Int => p.1) ∘ fun p : Cand × Int => (σ p.1, p.2)) = σ ∘ (·.1) := rfl
      rw [this, ← List.map_map]
      exact hprev.map hσ
    have hqcand : ∀ k ∈ qe.map (·.1), ∃ c, k = Key.cand c := by rw [hqe]; exact keys_qdSel_cand cfg v n prev maxS
    have hk : ∀ c, getK (addDict (renSel σ qe) (prevAsSel (renI σ prev))) (.cand (σ c)) 0 =
        getK (addDict qe (prevAsSel prev)) (.cand c) 0 := by
      intro c
      rw [getK_addDict_prev _ hprev', getK_addDict_prev _ hprev, getI_ren σ hσ, getK_eq_look, getK_eq_look]
      have := look_renSel σ qe (.cand c) (fun k' hk' e => by
        obtain ⟨c', rfl⟩ := hqcand k' hk'
        rw [renKey_cand_inj σ hσ c' c e])
      simp only [renKey] at this
      rw [this]
    rw [lrRemainders_ren σ hσ v _ _ _ maxS hk]
    have hsum : sumK (addDict (renSel σ qe) (prevAsSel (renI σ prev))) = sumK (addDict qe (prevAsSel prev)) := by
      rw [sumK_addDict, sumK_addDict, sumK_renSel, sumK_prevAsSel, sumK_prevAsSel, sumI_ren]
    rw [hsum]
    have hnil : ∀ l : Votes, (renVotes σ l ≠ []) ↔ (l ≠ []) := by
      intro l; unfold renVotes; simp
    by_cases hz : cfg.quota (sumVals v) n = 0 ∧ lrRemainders v (cfg.quota (sumVals v) n) (addDict qe (prevAsSel prev)) maxS ≠ []
    · rw [if_pos hz, if_pos ⟨hz.1, (hnil _).mpr hz.2⟩]
    · rw [if_neg hz, if_neg (fun hh => hz ⟨hh.1, (hnil _).mp hh.2⟩)]
      rw [getNBest_rename]
      have hfold : ∀ (l : List Slot) (s : Sel),
          l.foldl (fun acc x => incK acc (slotKey x)) s = (l.map slotKey).foldl incK s := by
        intro l s; rw [List.foldl_map]
      rw [hfold, hfold, List.map_map]
      have hkeys : (slotKey ∘ renSlot σ) = (renKey σ ∘ slotKey) := by
        funext s; exact slotKey_renSlot σ s
      rw [hkeys, ← List.map_map]
      congr 1
      obtain ⟨k, j, T, hshape⟩ := getNBest_shape (lrRemainders v (cfg.quota (sumVals v) n) (addDict qe (prevAsSel prev)) maxS)
        ((n : Int) - sumK (addDict qe (prevAsSel prev))).toNat
      apply foldl_incK_renSel σ
      apply injOn_of_oneTie σ hσ T
      intro key hkey
      rcases List.mem_append.mp hkey with h | h
      · exact Or.inl (hqcand key h)
      · rw [hshape] at h
        simp only [List.map_append, List.map_map, List.map_replicate, List.mem_append, List.mem_map, List.mem_replicate] at h
        rcases h with ⟨p, _, rfl⟩ | ⟨_, rfl⟩
        · exact Or.inl ⟨p.1, rfl⟩
        · exact Or.inr rfl

end

end VL.Perm
