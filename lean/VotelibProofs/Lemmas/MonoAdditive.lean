/-
  C17 helper lemmas: score dictionaries accumulated ballot by ballot (`for ballot, n in votes.items(): for cand
  …: agg[cand] += …`) and the generic additive monotonicity theorem on the profile level.
-/
import VotelibProofs.Lemmas.MonoProfile
namespace VL.Mono
open VL VL.Convert

variable {β : Type}

/-- the accumulation loop shared by `ApprovalToSimpleVotes`, the `sum` score aggregation and a Bucklin round:
    every ballot contributes a list of (candidate, amount) items -/
def accum (items : β × Rat → List (Cand × Rat)) (p : Dict β) (acc : Votes) : Votes :=
  p.foldl (fun agg bw => (items bw).foldl (fun agg e => addTo agg e.1 e.2) agg) acc

theorem toFun_accum (items : β × Rat → List (Cand × Rat)) (p : Dict β) (acc : Votes) (k : Cand) :
    toFun (accum items p acc) k = toFun acc k + (p.map (fun bw => toFun (items bw) k)).sum := by
  unfold accum
  induction p generalizing acc with
  | nil => simp
  | cons bw t ih =>
    rw [List.foldl_cons, ih, toFun_foldl_addTo, List.map_cons, List.sum_cons]; ring

theorem nodup_accum (items : β × Rat → List (Cand × Rat)) (p : Dict β) {acc : Votes} (h : (dkeys acc).Nodup) :
    (dkeys (accum items p acc)).Nodup := by
  unfold accum
  induction p generalizing acc with
  | nil => exact h
  | cons bw t ih => rw [List.foldl_cons]; exact ih (nodup_foldl_addTo _ h)

theorem mem_dkeys_accum (items : β × Rat → List (Cand × Rat)) (p : Dict β) (acc : Votes) (x : Cand) :
    x ∈ dkeys (accum items p acc) ↔ x ∈ dkeys acc ∨ ∃ bw ∈ p, x ∈ dkeys (items bw) := by
  unfold accum
  induction p generalizing acc with
  | nil => simp
  | cons bw t ih =>
    rw [List.foldl_cons, ih, mem_dkeys_foldl_addTo]
    simp only [List.mem_cons, exists_eq_or_imp]
    tauto

/-- an accumulation whose per-ballot items are `weight × image` over a support that does not depend on the weight -/
structure Additive (items : β × Rat → List (Cand × Rat)) (img : β → Cand → Rat) (supp : β → List Cand) : Prop where
  val : ∀ bw k, toFun (items bw) k = bw.2 * img bw.1 k
  ks : ∀ bw k, k ∈ dkeys (items bw) ↔ k ∈ supp bw.1

theorem Additive.toFun_eq {items : β × Rat → List (Cand × Rat)} {img : β → Cand → Rat} {supp : β → List Cand}
    (h : Additive items img supp) (p : Dict β) (k : Cand) :
    toFun (accum items p []) k = wsum p (fun b => img b k) := by
  rw [toFun_accum]
  simp only [toFun_nil, zero_add, wsum]
  congr 1
  apply List.map_congr_left
  intro bw _
  exact h.val bw k

theorem Additive.mem_keys {items : β × Rat → List (Cand × Rat)} {img : β → Cand → Rat} {supp : β → List Cand}
    (h : Additive items img supp) (p : Dict β) (k : Cand) :
    k ∈ VL.keys (accum items p []) ↔ ∃ b ∈ dkeys p, k ∈ supp b := by
  show k ∈ dkeys (accum items p []) ↔ _
  rw [mem_dkeys_accum]
  simp only [dkeys, List.map_nil, List.not_mem_nil, false_or, List.mem_map]
  constructor
  · rintro ⟨bw, hbw, hk⟩
    exact ⟨bw.1, ⟨bw, hbw, rfl⟩, (h.ks bw k).mp (by simpa [dkeys] using hk)⟩
  · rintro ⟨b, ⟨bw, hbw, rfl⟩, hk⟩
    exact ⟨bw, hbw, by simpa [dkeys] using (h.ks bw k).mpr hk⟩

theorem Additive.nodup {items : β × Rat → List (Cand × Rat)} (p : Dict β) : (VL.keys (accum items p [])).Nodup :=
  nodup_accum items p (by simp [dkeys])

/-- **Generic additive monotonicity, one unit of one ballot changed.**  Scores are sums over ballots of
    `weight × image`; ballot `b'` has the candidates of `b` (and `w`), and compared with `b` it changes nobody's
    image by more than `w`'s.  Then a strict sole winner `w` stays the strict sole winner when one unit of `b`
    becomes `b'`. -/
theorem additive_replace [DecidableEq β] {items : β × Rat → List (Cand × Rat)} {img : β → Cand → Rat}
    {supp : β → List Cand} (h : Additive items img supp) (p : Dict β) (b b' : β) (w : Cand)
    (hb : b ∈ dkeys p) (hs : ∀ k, k ∈ supp b' ↔ k = w ∨ k ∈ supp b)
    (hδ : ∀ y, y ≠ w → img b' y - img b y ≤ img b' w - img b w)
    (hsole : getNBest (accum items p []) 1 = [Slot.cand w]) :
    getNBest (accum items (replaceUnit p b b') []) 1 = [Slot.cand w] := by
  have hn := Additive.nodup (items := items) p
  have hwd : w ∈ keys (accum items p []) := by
    rw [sole_iff _ hn, soleMax_iff _ hn] at hsole; exact hsole.1
  apply additive_sole _ _ hn (Additive.nodup _) w ?_ ?_ ?_ hsole
  · intro c hc
    rw [h.mem_keys] at hc ⊢
    obtain ⟨x, hx, hcx⟩ := hc
    rcases mem_dkeys_replaceUnit hx with hx | rfl
    · exact ⟨x, hx, hcx⟩
    · rcases (hs c).mp hcx with rfl | hcb
      · exact (h.mem_keys p c).mp hwd
      · exact ⟨b, hb, hcb⟩
  · rw [h.mem_keys]
    exact ⟨b', new_mem_dkeys_replaceUnit p b b', (hs w).mpr (Or.inl rfl)⟩
  · intro c _ hcw
    rw [h.toFun_eq, h.toFun_eq, h.toFun_eq, h.toFun_eq, wsum_replaceUnit _ _ _ _ hb, wsum_replaceUnit _ _ _ _ hb]
    have := hδ c hcw
    linarith

/-- **Generic additive monotonicity, a new ballot.**  The new ballot names candidates of the election only and
    gives nobody more than it gives `w`. -/
theorem additive_new [DecidableEq β] {items : β × Rat → List (Cand × Rat)} {img : β → Cand → Rat}
    {supp : β → List Cand} (h : Additive items img supp) (p : Dict β) (nb : β) (w : Cand)
    (hsub : ∀ k ∈ supp nb, k ∈ keys (accum items p []))
    (hδ : ∀ y, img nb y ≤ img nb w)
    (hsole : getNBest (accum items p []) 1 = [Slot.cand w]) :
    getNBest (accum items (addTo p nb 1) []) 1 = [Slot.cand w] := by
  have hn := Additive.nodup (items := items) p
  have hwd : w ∈ keys (accum items p []) := by
    rw [sole_iff _ hn, soleMax_iff _ hn] at hsole; exact hsole.1
  apply additive_sole _ _ hn (Additive.nodup _) w ?_ ?_ ?_ hsole
  · intro c hc
    rw [h.mem_keys] at hc
    obtain ⟨x, hx, hcx⟩ := hc
    rcases (mem_dkeys_addTo p nb 1 x).mp hx with hx | rfl
    · exact (h.mem_keys p c).mpr ⟨x, hx, hcx⟩
    · exact hsub c hcx
  · rw [h.mem_keys] at hwd ⊢
    obtain ⟨x, hx, hwx⟩ := hwd
    exact ⟨x, (mem_dkeys_addTo p nb 1 x).mpr (Or.inl hx), hwx⟩
  · intro c _ _
    rw [h.toFun_eq, h.toFun_eq, h.toFun_eq, h.toFun_eq, wsum_addTo, wsum_addTo]
    have := hδ c
    linarith

/-! ### the simple-vote moves of plurality -/

/-- re-valuing a dict entry by entry so that nobody gains more than `w` keeps a strict sole winner -/
theorem sole_map (d : Votes) (hn : (keys d).Nodup) (w : Cand) (g : Cand × Rat → Rat)
    (hg : ∀ e ∈ d, ∀ e' ∈ d, e.1 = w → e'.1 ≠ w → g e' - e'.2 ≤ g e - e.2)
    (h : getNBest d 1 = [Slot.cand w]) : getNBest (d.map (fun e => (e.1, g e))) 1 = [Slot.cand w] := by
  have hk : keys (d.map (fun e => (e.1, g e))) = keys d := by simp [keys, List.map_map, Function.comp_def]
  rw [sole_iff d hn] at h
  rw [sole_iff _ (by rw [hk]; exact hn)]
  obtain ⟨x, hwx, hlt⟩ := h
  refine ⟨g (w, x), List.mem_map.mpr ⟨(w, x), hwx, rfl⟩, ?_⟩
  intro e' he' hne
  obtain ⟨e, he, rfl⟩ := List.mem_map.mp he'
  simp only at hne ⊢
  have h1 := hlt e he hne
  have h2 := hg (w, x) hwx e he rfl hne
  simp only at h2
  linarith

end VL.Mono
