/-
  C17 helper lemmas: `PreferenceAddition` with a coefficient function (the Bucklin family).  The running totals after
  round `j` are the place-based scores with `coef x` on the places `x ≤ j`; a lift cannot lower `w` nor raise anybody
  else when the coefficients are non-negative and never increase.
-/
import VotelibProofs.Lemmas.MonoBucklin
namespace VL.Mono
open VL VL.Convert

def roundItemsC (c : Rat) (i : Nat) (bw : Ballot × Rat) : List (Cand × Rat) :=
  (placeCands bw.1 i).map (fun x => (x, bw.2 * c))

theorem bucklinRoundC_eq (c : Rat) (p : RProfile) (i : Nat) (tot : Votes) :
    bucklinRoundC c p i tot = accum (roundItemsC c i) p tot := by
  unfold bucklinRoundC accum
  congr 1
  funext t bw
  unfold roundItemsC placeCands
  cases bw.1[i]? with
  | none => simp
  | some it => simp [List.foldl_map]

/-- running totals after round `j` -/
def cumC (coef : Nat → Rat) (p : RProfile) : Nat → Votes
  | 0 => bucklinRoundC (coef 0) p 0 []
  | j + 1 => bucklinRoundC (coef (j + 1)) p (j + 1) (cumC coef p j)

/-- worth `coef x` for the places `x ≤ j` -/
def coefLe (coef : Nat → Rat) (j : Nat) (x : Nat) : Rat := if x ≤ j then coef x else 0

theorem rankScore_add_weight (f g : Nat → Rat) (i : Nat) (c : Rat) (hg : ∀ x, g x = f x + (if x = i then c else 0))
    (r : Nat) (b : Ballot) (k : Cand) :
    rankScore g r b k = rankScore f r b k + (if r ≤ i then c * cnt (placeCands b (i - r)) k else 0) := by
  induction b generalizing r with
  | nil => simp [rankScore, placeCands]
  | cons it rest ih =>
    simp only [rankScore, ih (r + 1), hg r]
    by_cases h1 : r = i
    · subst h1
      simp [placeCands]; ring
    · by_cases h2 : r < i
      · have e : i - r = (i - (r + 1)) + 1 := by omega
        rw [if_neg h1, if_pos (by omega : r + 1 ≤ i), if_pos (by omega : r ≤ i)]
        have : placeCands (it :: rest) (i - r) = placeCands rest (i - (r + 1)) := by
          unfold placeCands; rw [e]; simp
        rw [this]; ring
      · rw [if_neg h1, if_neg (by omega), if_neg (by omega)]; ring

theorem toFun_cumC (coef : Nat → Rat) (p : RProfile) (j : Nat) (k : Cand) :
    toFun (cumC coef p j) k = wsum p (fun b => rankScore (coefLe coef j) 0 b k) := by
  induction j with
  | zero =>
    simp only [cumC, bucklinRoundC_eq, toFun_accum, toFun_nil, zero_add, wsum]
    congr 1
    apply List.map_congr_left
    intro bw _
    rw [rankScore_add_weight (fun _ => 0) (coefLe coef 0) 0 (coef 0) (by
      intro x; unfold coefLe
      by_cases h : x = 0
      · subst h; simp
      · rw [if_neg (by omega), if_neg h]; ring) 0 bw.1 k, rankScore_zero_fn]
    simp [roundItemsC, toFun_map_const]; ring
  | succ j ih =>
    simp only [cumC, bucklinRoundC_eq, toFun_accum, ih, wsum]
    rw [← List.sum_map_add]
    congr 1
    apply List.map_congr_left
    intro bw _
    rw [rankScore_add_weight (coefLe coef j) (coefLe coef (j + 1)) (j + 1) (coef (j + 1)) (by
      intro x; unfold coefLe
      by_cases h1 : x = j + 1
      · subst h1; simp
      · by_cases h2 : x ≤ j
        · rw [if_pos h2, if_pos (by omega), if_neg h1]; ring
        · rw [if_neg h2, if_neg (by omega), if_neg h1]; ring) 0 bw.1 k]
    simp [roundItemsC, toFun_map_const]; ring

theorem nodup_cumC (coef : Nat → Rat) (p : RProfile) (j : Nat) : (keys (cumC coef p j)).Nodup := by
  induction j with
  | zero => simp only [cumC, bucklinRoundC_eq]; exact nodup_accum _ p (by simp [dkeys])
  | succ j ih => simp only [cumC, bucklinRoundC_eq]; exact nodup_accum _ p ih

theorem bucklinLoopC_succ (coef : Nat → Rat) (p : RProfile) (q : Rat) (f i : Nat) (tot : Votes) :
    bucklinLoopC coef p q (f + 1) i tot =
      if (getNBest (majOf (bucklinRoundC (coef i) p i tot) q) 1).length = 1
      then getNBest (majOf (bucklinRoundC (coef i) p i tot) q) 1
      else bucklinLoopC coef p q f (i + 1) (bucklinRoundC (coef i) p i tot) := rfl

theorem bucklinLoopC_eq (coef : Nat → Rat) (p : RProfile) (q : Rat) (f i : Nat) :
    bucklinLoopC coef p q f (i + 1) (cumC coef p i) = loopA (cumC coef p) q f (i + 1) ∧
    bucklinLoopC coef p q f 0 [] = loopA (cumC coef p) q f 0 := by
  induction f generalizing i with
  | zero => exact ⟨rfl, rfl⟩
  | succ f ih =>
    constructor
    · rw [bucklinLoopC_succ, loopA_succ]
      show (if (getNBest (majOf (cumC coef p (i + 1)) q) 1).length = 1 then getNBest (majOf (cumC coef p (i + 1)) q) 1
        else bucklinLoopC coef p q f (i + 1 + 1) (cumC coef p (i + 1))) = _
      rw [(ih (i + 1)).1]
    · rw [bucklinLoopC_succ, loopA_succ]
      show (if (getNBest (majOf (cumC coef p 0) q) 1).length = 1 then getNBest (majOf (cumC coef p 0) q) 1
        else bucklinLoopC coef p q f (0 + 1) (cumC coef p 0)) = _
      rw [(ih 0).1]

theorem evalPA_eq (coef : Nat → Rat) (p : RProfile) (hp : p ≠ []) :
    evalPA coef p = .ok (loopA (cumC coef p) (sumValues p / 2) (maxLen p) 0) := by
  unfold evalPA
  have : p.isEmpty = false := by cases p <;> simp_all
  rw [this]
  simp only [Bool.false_eq_true, ↓reduceIte, Except.ok.injEq]
  exact (bucklinLoopC_eq coef p _ _ 0).2

/-- coefficients that are never negative and never increase (Bucklin `[1]`, Oklahoma `1, 1/2, 1/3, …`, every
    non-increasing list with the fallback to its last entry) -/
def CoefOK (coef : Nat → Rat) : Prop := (∀ x, 0 ≤ coef x) ∧ ∀ x, coef (x + 1) ≤ coef x

theorem coefLe_nonneg {coef : Nat → Rat} (h : CoefOK coef) (j x : Nat) : 0 ≤ coefLe coef j x := by
  unfold coefLe; split <;> [exact h.1 x; exact le_refl _]

theorem coefLe_step {coef : Nat → Rat} (h : CoefOK coef) (j x : Nat) : coefLe coef j (x + 1) ≤ coefLe coef j x := by
  simp only [coefLe]
  by_cases h1 : x + 1 ≤ j
  · rw [if_pos h1, if_pos (by omega)]; exact h.2 x
  · rw [if_neg h1]; split <;> [exact h.1 x; exact le_refl _]

theorem coefLe_le {coef : Nat → Rat} (h : CoefOK coef) (j : Nat) {i r : Nat} (hir : i ≤ r) : coefLe coef j r ≤ coefLe coef j i := by
  induction r with
  | zero => have : i = 0 := by omega
            subst this; exact le_refl _
  | succ r ih =>
    rcases Nat.eq_or_lt_of_le hir with rfl | hlt
    · exact le_refl _
    · exact le_trans (coefLe_step h j r) (ih (by omega))

/-- per-ballot effect of a lift on the running totals: nobody else rises, `w` does not fall -/
theorem lift_cumC {coef : Nat → Rat} (hc : CoefOK coef) (j : Nat) (w : Cand) (i : Nat) (b : Ballot)
    (hnd : (ballotCands b).Nodup) (hok : liftOK w i b = true) (y : Cand) (hy : y ≠ w) :
    rankScore (coefLe coef j) 0 (lift w i b) y ≤ rankScore (coefLe coef j) 0 b y ∧
    rankScore (coefLe coef j) 0 b w ≤ rankScore (coefLe coef j) 0 (lift w i b) w := by
  obtain ⟨c', _, hc', h1, h2⟩ := lift_delta_gen (S := fun _ => coefLe coef j) (fun _ x _ => coefLe_step hc j x) w i b hnd hok 0
    (le_refl _)
    (fun _ => ⟨fun x _ => by simp, fun x _ => coefLe_step hc j x,
      fun i r hir _ => by simpa using coefLe_le hc j hir, fun i _ => coefLe_nonneg hc j i⟩) y hy
  have hc0 : c' = 0 := by rcases hc' with h | h <;> exact h
  subst hc0
  unfold bscore at h1 h2
  constructor <;> linarith

/-! ### coefficient lists -/

theorem coefOfList_ok (l : List Rat) (h : l.Pairwise (fun a b => b ≤ a)) (hnn : ∀ x ∈ l, 0 ≤ x) : CoefOK (coefOfList l) := by
  have hlast : 0 ≤ l.getLastD 0 := by
    cases hl : l.getLast? with
    | none => rw [List.getLastD_eq_getLast?, hl]; simp
    | some x => rw [List.getLastD_eq_getLast?, hl]; exact hnn x (List.mem_of_getLast? hl)
  constructor
  · intro x
    unfold coefOfList
    rw [List.getD_eq_getElem?_getD]
    cases hx : l[x]? with
    | none => simpa using hlast
    | some v => simpa using hnn v (List.mem_of_getElem? hx)
  · intro x
    unfold coefOfList
    by_cases h1 : x + 1 < l.length
    · rw [List.getD_eq_getElem?_getD, List.getD_eq_getElem?_getD, List.getElem?_eq_getElem h1,
        List.getElem?_eq_getElem (by omega : x < l.length)]
      simp only [Option.getD_some]
      exact List.pairwise_iff_getElem.mp h x (x + 1) (by omega) h1 (by omega)
    · have e1 : l.getD (x + 1) (l.getLastD 0) = l.getLastD 0 := by
        rw [List.getD_eq_getElem?_getD, List.getElem?_eq_none (by omega)]; rfl
      rw [e1]
      by_cases h2 : x < l.length
      · -- x is the last index
        have hx : x = l.length - 1 := by omega
        rw [List.getD_eq_getElem?_getD, List.getElem?_eq_getElem h2]
        simp only [Option.getD_some]
        have hne : l ≠ [] := by intro h0; rw [h0] at h2; simp at h2
        rw [List.getLastD_eq_getLast?, List.getLast?_eq_some_getLast hne, Option.getD_some, List.getLast_eq_getElem]
        exact le_of_eq (by congr 1; omega)
      · rw [List.getD_eq_getElem?_getD, List.getElem?_eq_none (by omega)]; exact le_refl _

end VL.Mono
