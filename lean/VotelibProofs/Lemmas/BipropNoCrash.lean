/-
  C07: crash-freedom of the ported tie-and-transfer loop.  The labels form a well-founded pointer structure
  (every label points to an earlier one), so the path construction of `_augment_result` never pops an empty set;
  along the path every cell that loses a seat holds one; `_adj_coef` never divides by zero in a consistent state.
-/
import VotelibProofs.Lemmas.BipropRefusal
namespace VL.Biprop
open Finset

variable {ord : List Nat}

/-- well-formed labels: a start label belongs to `over`; the district that labelled a party is labelled; the party
    that labelled a district was itself labelled by a district standing EARLIER in the list of labelled districts -/
def LabWF (over : List Nat) (labD : LabD) (labP : LabP) : Prop :=
  (∀ e ∈ labD, e.2 = none → e.1 ∈ over) ∧
  (∀ e ∈ labP, hasKey labD e.2 = true) ∧
  (∀ k (h : k < labD.length) p, (labD[k]).2 = some p → ∃ d', (p, d') ∈ labP ∧ hasKey (labD.take k) d' = true)

theorem hasKey_append_left {α : Type} {l l' : List (Nat × α)} {k : Nat} (h : hasKey l k = true) :
    hasKey (l ++ l') k = true := by
  unfold hasKey at h ⊢; rw [List.any_append]; simp [h]

theorem hasKey_of_mem {α : Type} {l : List (Nat × α)} {e : Nat × α} (h : e ∈ l) : hasKey l e.1 = true := by
  unfold hasKey; rw [List.any_eq_true]; exact ⟨e, h, by simp⟩

theorem phase1_wf {q : Rat} {qt : Nat → Nat → Rat} {x : Mat Nat} {n : Nat} {over : List Nat} {labD : LabD} {labP : LabP}
    (h : LabWF over labD labP) : LabWF over labD (phase1 q qt x n ord labD labP) := by
  rw [phase1_eq]
  apply foldl_inv (fun lp => LabWF over labD lp) _ labD labP h
  intro lp e he hlp
  apply foldl_inv (fun lp => LabWF over labD lp) _ (ord.filter (fun p => decide (p < n))) lp hlp
  intro lp' p _ hlp'
  simp only [p1step]
  split
  · obtain ⟨w1, w2, w3⟩ := hlp'
    refine ⟨w1, ?_, ?_⟩
    · intro e' he'
      rcases List.mem_append.mp he' with h' | h'
      · exact w2 e' h'
      · simp only [List.mem_singleton] at h'; subst h'; exact hasKey_of_mem he
    · intro k hk p' hp'
      obtain ⟨d', hd', hkd'⟩ := w3 k hk p' hp'
      exact ⟨d', List.mem_append_left _ hd', hkd'⟩
  · exact hlp'

theorem phase2_wf {q : Rat} {qt : Nat → Nat → Rat} {x : Mat Nat} {m : Nat} {over : List Nat} {labD : LabD} {labP : LabP}
    (h : LabWF over labD labP) : LabWF over (phase2 q qt x m labD labP) labP := by
  rw [phase2_eq]
  apply foldl_inv (fun ld => LabWF over ld labP) _ labP labD h
  intro ld e he hld
  apply foldl_inv (fun ld => LabWF over ld labP) _ (List.range m) ld hld
  intro ld' d _ hld'
  simp only [p2step]
  split
  · obtain ⟨w1, w2, w3⟩ := hld'
    refine ⟨?_, ?_, ?_⟩
    · intro e' he' hn
      rcases List.mem_append.mp he' with h' | h'
      · exact w1 e' h' hn
      · simp only [List.mem_singleton] at h'; subst h'; simp at hn
    · intro e' he'
      exact hasKey_append_left (w2 e' he')
    · intro k hk p' hp'
      rw [List.length_append, List.length_singleton] at hk
      by_cases hlt : k < ld'.length
      · rw [List.getElem_append_left hlt] at hp'
        obtain ⟨d', hd', hkd'⟩ := w3 k hlt p' hp'
        refine ⟨d', hd', ?_⟩
        rw [List.take_append_of_le_length (by omega)]
        exact hkd'
      · have hk' : k = ld'.length := by omega
        subst hk'
        rw [List.getElem_append_right (le_refl _)] at hp'
        simp only [Nat.sub_self, List.getElem_cons_zero, Option.some.injEq] at hp'
        subst hp'
        refine ⟨e.2, he, ?_⟩
        rw [List.take_append_of_le_length (le_refl _), List.take_length]
        exact w2 e he
  · exact hld'

theorem labelLoop_wf {q : Rat} {qt : Nat → Nat → Rat} {x : Mat Nat} {m n : Nat} {under over : List Nat} :
    ∀ (f : Nat) (ld : LabD) (lp : LabP), KeysOk m ld → KeysOk n lp → LabWF over ld lp →
      KeysOk m (labelLoop q qt x m n ord under f ld lp).1 ∧ KeysOk n (labelLoop q qt x m n ord under f ld lp).2 ∧
      LabWF over (labelLoop q qt x m n ord under f ld lp).1 (labelLoop q qt x m n ord under f ld lp).2
  | 0, _, _, hD, hP, hw => ⟨hD, hP, hw⟩
  | f+1, ld, lp, hD, hP, hw => by
    have hP' := phase1_keys (ord := ord) (q := q) (qt := qt) (x := x) (labD := ld) hP
    have hD' := phase2_keys (q := q) (qt := qt) (x := x) (labP := phase1 q qt x n ord ld lp) hD
    have hw' := phase2_wf (q := q) (qt := qt) (x := x) (m := m) (phase1_wf (ord := ord) (q := q) (qt := qt) (x := x) (n := n) hw)
    simp only [labelLoop]
    split
    · exact ⟨hD', hP', hw'⟩
    · split
      · exact ⟨hD', hP', hw'⟩
      · exact labelLoop_wf f _ _ hD' hP' hw'

theorem labeled_wf {q : Rat} {qt : Nat → Nat → Rat} {x : Mat Nat} {m n : Nat} {under over : List Nat}
    (hnd : over.Nodup) (hlt : ∀ d ∈ over, d < m) :
    KeysOk m (labeled q qt x m n ord under over).1 ∧ KeysOk n (labeled q qt x m n ord under over).2 ∧
    LabWF over (labeled q qt x m n ord under over).1 (labeled q qt x m n ord under over).2 := by
  unfold labeled
  apply labelLoop_wf
  · refine ⟨by simpa [List.map_map, Function.comp_def] using hnd, ?_⟩
    intro e he
    obtain ⟨d, hd, rfl⟩ := List.mem_map.mp he
    exact hlt d hd
  · exact ⟨by simp, fun e he => by simp at he⟩
  · refine ⟨?_, fun e he => by simp at he, ?_⟩
    · intro e he _
      obtain ⟨d, hd, rfl⟩ := List.mem_map.mp he
      exact hd
    · intro k hk p hp
      simp at hp

theorem lookupKey_of_nodup {α : Type} : ∀ (l : List (Nat × α)), (l.map (·.1)).Nodup → ∀ e ∈ l,
    lookupKey l e.1 = some e.2
  | [], _, e, he => by simp at he
  | a :: l, hnd, e, he => by
    simp only [List.map_cons, List.nodup_cons] at hnd
    unfold lookupKey
    rcases List.mem_cons.mp he with rfl | he'
    · simp
    · have hne : a.1 ≠ e.1 := by
        intro h; apply hnd.1; rw [h]; exact List.mem_map.mpr ⟨e, he', rfl⟩
      have : (a.1 == e.1) = false := by simpa using hne
      rw [List.find?_cons, this]
      have ih := lookupKey_of_nodup l hnd.2 e he'
      unfold lookupKey at ih
      exact ih

/-- **the path construction never fails**: from a labelled district at position `≤ k`, with more than `k` units of
    fuel, `augPath` succeeds -/
theorem augPath_ok {m n : Nat} {over : List Nat} {labD : LabD} {labP : LabP}
    (hD : KeysOk m labD) (hP : KeysOk n labP) (hw : LabWF over labD labP) :
    ∀ (k i : Nat) (hi : i < labD.length), i ≤ k → ∀ fuel, k < fuel →
      ∃ path, augPath labD labP over fuel (labD[i]).1 = .ok path
  | k, i, hi, hik, 0, hf => by omega
  | k, i, hi, hik, fuel+1, hf => by
    simp only [augPath]
    split
    · exact ⟨[], rfl⟩
    · rename_i hov
      have hl := lookupKey_of_nodup labD hD.1 (labD[i]) (List.getElem_mem hi)
      rw [hl]
      cases hv : (labD[i]).2 with
      | none =>
        exfalso
        have := hw.1 (labD[i]) (List.getElem_mem hi) hv
        apply hov; simpa using this
      | some p =>
        simp only
        obtain ⟨d', hd', hkd'⟩ := hw.2.2 i hi p hv
        have hlp := lookupKey_of_nodup labP hP.1 (p, d') hd'
        simp only at hlp
        rw [hlp]
        simp only
        -- d' stands earlier in labD
        have hmem := (hasKey_iff (labD.take i) d').mp hkd'
        obtain ⟨e, he, hek⟩ := List.mem_map.mp hmem
        obtain ⟨i', hi', rfl⟩ := List.mem_iff_getElem.mp he
        have hi'lt : i' < i := by
          have := hi'; rw [List.length_take] at this; omega
        have hi'len : i' < labD.length := by omega
        have heq : (labD.take i)[i'] = labD[i'] := by simp [List.getElem_take]
        rw [heq] at hek
        cases k with
        | zero => omega
        | succ k =>
          obtain ⟨rest, hrest⟩ := augPath_ok hD hP hw k i' hi'len (by omega) fuel (by omega)
          rw [hek] at hrest
          rw [hrest]
          exact ⟨_, rfl⟩

/-- **no seat is taken from an empty cell**: if every cell that loses a seat holds one and the losing districts are
    pairwise different, the update loop of `_augment_result` succeeds -/
theorem applyPath_ok {m n : Nat} : ∀ (path : List (Nat × Nat × Nat)) (x : Mat Nat),
    shapeOk x m n = true → PathIn m n path → (path.map (·.2.2)).Nodup →
    (∀ t ∈ path, 1 ≤ mget x t.2.2 t.2.1) → ∃ x', applyPath path x = .ok x'
  | [], x, _, _, _, _ => ⟨x, rfl⟩
  | (d, p, d') :: rest, x, hs, hin, hnd, hpos => by
    obtain ⟨hd, hp, hd'⟩ : d < m ∧ p < n ∧ d' < m := hin (d, p, d') List.mem_cons_self
    simp only [List.map_cons, List.nodup_cons] at hnd
    have hs1 : shapeOk (madd1 x d p) m n = true := shapeOk_modify hs d p _
    have hs2 : shapeOk (msub1 (madd1 x d p) d' p) m n = true := shapeOk_modify hs1 d' p _
    have h1 : mget (madd1 x d p) d' p ≠ 0 := by
      rw [mget_madd1 hs hd hp]
      have := hpos (d, p, d') List.mem_cons_self
      simp only at this
      omega
    simp only [applyPath]
    rw [if_neg h1]
    apply applyPath_ok rest _ hs2 (fun c hc => hin c (List.mem_cons_of_mem _ hc)) hnd.2
    intro t ht
    have hne : d' ≠ t.2.2 := by
      intro h; apply hnd.1; rw [h]; exact List.mem_map.mpr ⟨t, ht, rfl⟩
    rw [mget_msub1 hs1 hd' hp, mget_madd1 hs hd hp]
    have := hpos t (List.mem_cons_of_mem _ ht)
    have hne' : ¬ (d' = t.2.2 ∧ p = t.2.1) := fun h => hne h.1
    simp only [hne', if_false]
    omega

/-- **`_adj_coef` never divides by zero** when every cell lies between its signposts (`0 ≤ q`) -/
theorem adjCoef_ok {q : Rat} (hq0 : 0 ≤ q) {qt : Nat → Nat → Rat} {x : Mat Nat} {m n : Nat} {labD : LabD} {labP : LabP}
    (hcell : ∀ i < m, ∀ j < n, isRounding q (qt i j) (mget x i j)) :
    ∃ c, adjCoef q qt x m n labD labP = .ok c := by
  unfold adjCoef
  simp only
  split
  · rename_i hz
    exfalso
    rw [List.any_eq_true] at hz
    obtain ⟨ac, hac, h0⟩ := hz
    have h0' : ac.2 = 0 := by simpa using h0
    unfold alphaCells at hac
    rw [List.mem_filterMap] at hac
    obtain ⟨cell, hcellm, hsome⟩ := hac
    obtain ⟨i, j⟩ := cell
    have hij := mem_cells.mp hcellm
    split at hsome
    · rename_i hcond
      simp only [Bool.and_eq_true, decide_eq_true_eq] at hcond
      simp only [Option.some.injEq] at hsome
      subst hsome
      simp only at h0'
      have hr := hcell i hij.1 j hij.2
      rw [h0'] at hr
      rcases hr.1 with hx | hx
      · rw [hx] at hcond; simp at hcond; linarith [hcond.2]
      · linarith [hcond.2]
    · simp at hsome
  · split
    · exact ⟨_, rfl⟩
    · exact ⟨_, rfl⟩

/-- **Crash-freedom of one pass**: in a consistent state (`shapeOk`, `LoopInv`) with non-negative votes and `0 ≤ q` an
    iteration of the loop either succeeds or raises `VotingSystemError`; the `KeyError` of `_augment_result` and the
    `ZeroDivisionError` of `_adj_coef` are unreachable. -/
theorem step_no_crash {q : Rat} (hq0 : 0 ≤ q) {V : Mat Rat} {tgt : List Nat} {s : State}
    (hs : shapeOk s.x V.length (nCols V) = true) (hinv : LoopInv q V V.length (nCols V) s) :
    (∃ r, step q ord V tgt s = .ok r) ∨ step q ord V tgt s = .error .votingSystemError := by
  unfold step
  simp only
  split
  · exact Or.inl ⟨_, rfl⟩
  · have hovlt : ∀ d ∈ (List.range V.length).filter (fun i => decide (rowSum s.x i > tgt.getD i 0)), d < V.length :=
      fun d hd => List.mem_range.mp (List.mem_filter.mp hd).1
    have hovnd : ((List.range V.length).filter (fun i => decide (rowSum s.x i > tgt.getD i 0))).Nodup :=
      List.Nodup.filter _ List.nodup_range
    have hlab := labeled_ok (ord := ord) (q := q) (qt := quot V s) (x := s.x) (n := nCols V)
      (under := (List.range V.length).filter (fun i => decide (rowSum s.x i < tgt.getD i 0))) hovlt
    have hwf := labeled_wf (ord := ord) (q := q) (qt := quot V s) (x := s.x) (n := nCols V)
      (under := (List.range V.length).filter (fun i => decide (rowSum s.x i < tgt.getD i 0))) hovnd hovlt
    revert hlab hwf
    generalize labeled q (quot V s) s.x V.length (nCols V) ord _ _ = L
    obtain ⟨labD, labP⟩ := L
    intro hlab hwf
    simp only at hlab hwf ⊢
    obtain ⟨hKD, hKP, hW⟩ := hwf
    split
    · rename_i start rest hfil
      left
      have hst : start ∈ List.filter (hasKey labD)
          ((List.range V.length).filter (fun i => decide (rowSum s.x i < tgt.getD i 0))) := by
        rw [hfil]; exact List.mem_cons_self
      have hkey : hasKey labD start = true := (List.mem_filter.mp hst).2
      obtain ⟨e, he, hek⟩ := List.mem_map.mp ((hasKey_iff labD start).mp hkey)
      obtain ⟨i, hi, rfl⟩ := List.mem_iff_getElem.mp he
      have hlen := hKD.length_le
      obtain ⟨path, hpath⟩ := augPath_ok hKD hKP hW (labD.length - 1) i hi (by omega) (V.length + nCols V + 2) (by omega)
      rw [hek] at hpath
      have hcells := augPath_cells hlab.1 hlab.2 _ _ _ hpath
      have hnd3 := chain_thirds_nodup _ _ (augPath_chain _ _ _ hpath) (augPath_nodup _ _ _ hpath)
      obtain ⟨x', hx'⟩ := applyPath_ok path s.x hs hcells.pathIn hnd3 (fun t ht => by
        have := (hcells t ht).2.2.2.2
        simp only [isDown, Bool.and_eq_true, decide_eq_true_eq] at this
        exact this.2)
      unfold augment
      rw [hpath]
      simp only
      rw [hx']
      exact ⟨_, rfl⟩
    · obtain ⟨c, hc⟩ := adjCoef_ok (labD := labD) (labP := labP) hq0 hinv.2.2
      rw [hc]
      simp only
      split
      · exact Or.inr rfl
      · exact Or.inl ⟨_, rfl⟩

/-! the errors of the initialisation are the declared ones -/

theorem haEvaluate_error_eq {div : Nat → Rat} {votes : List Rat} {n : Nat} {e : Err}
    (h : haEvaluate div votes n = .error e) : e = .other "ValueError" := by
  unfold haEvaluate at h
  split at h
  · simp only [Except.error.injEq] at h; exact h.symm
  · simp at h

theorem partySeats_error_eq {div : Nat → Rat} {V : Mat Rat} {total : Nat} {e : Err}
    (h : partySeats div V total = .error e) : e = .other "ValueError" ∨ e = .other "MarginalTie" := by
  unfold partySeats at h
  cases hr : haEvaluate div (colTotals V) total with
  | error e' => rw [hr] at h; simp only [Except.error.injEq] at h; rw [← h]; exact Or.inl (haEvaluate_error_eq hr)
  | ok r =>
    rw [hr] at h
    simp only at h
    split at h
    · simp only [Except.error.injEq] at h; exact Or.inr h.symm
    · simp at h

theorem districtSeats_error_eq {div : Nat → Rat} {V : Mat Rat} {total : Nat} {e : Err}
    (h : districtSeats div V total = .error e) : e = .other "ValueError" ∨ e = .other "MarginalTie" := by
  unfold districtSeats at h
  cases hr : haEvaluate div (rowTotals V) total with
  | error e' => rw [hr] at h; simp only [Except.error.injEq] at h; rw [← h]; exact Or.inl (haEvaluate_error_eq hr)
  | ok r =>
    rw [hr] at h
    simp only at h
    split at h
    · simp only [Except.error.injEq] at h; exact Or.inr h.symm
    · simp at h

theorem initState_error_eq {div : Nat → Rat} {q : Rat} {V : Mat Rat} {total : Nat} {e : Err}
    (h : initState div q V total = .error e) : e = .other "ValueError" ∨ e = .other "MarginalTie" := by
  unfold initState at h
  cases hx : initialSolution div V total with
  | ok x0 => rw [hx] at h; simp at h
  | error e' =>
    rw [hx] at h
    simp only [Except.error.injEq] at h
    subst h
    unfold initialSolution at hx
    cases hps : partySeats div V total with
    | error e'' => rw [hps] at hx; simp only [Except.error.injEq] at hx; rw [← hx]; exact partySeats_error_eq hps
    | ok ps =>
      rw [hps] at hx
      simp only at hx
      cases hcols : (List.range (nCols V)).mapM (fun j => initialColumn div V j (ps.getD j 0)) with
      | ok cols => rw [hcols] at hx; simp at hx
      | error e'' =>
        rw [hcols] at hx
        simp only [Except.error.injEq] at hx
        obtain ⟨j, _, hj⟩ := mapM_except_error _ _ _ hcols
        rw [← hx]
        left
        unfold initialColumn at hj
        split at hj
        · simp at hj
        · cases hr : haEvaluate div (colOf V j) (ps.getD j 0) with
          | error e3 => rw [hr] at hj; simp only [Except.error.injEq] at hj; rw [← hj]; exact haEvaluate_error_eq hr
          | ok r => rw [hr] at hj; simp at hj

end VL.Biprop
