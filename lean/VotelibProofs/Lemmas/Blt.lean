/-
  Helper lemmas about the BLT token-level model (VotelibModel.Blt) for C19.
-/
import VotelibModel.Blt
import Mathlib.Data.List.Nodup
import Mathlib.Algebra.Order.Ring.Rat
import Mathlib.Tactic.Linarith
namespace VL.Blt
open VL

end VL.Blt
