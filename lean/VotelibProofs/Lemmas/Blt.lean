/-
  Helper lemmas about the BLT token-level model (VotelibModel.Blt) for C19.
-/
import VotelibModel.Blt
import Mathlib.Data.List.Nodup
import Mathlib.Algebra.Order.Ring.Rat
import Mathlib.Tactic.Linarith
namespace VL.Blt
open VL
set_option linter.unusedSimpArgs false


@[simp] theorem ok_bind {α β} (a : α) (f : α → Except Err β) : (Except.ok a >>= f) = f a := rfl
@[simp] theorem err_bind {α β} (e : Err) (f : α → Except Err β) : ((Except.error e : Except Err α) >>= f) = Except.error e := rfl
@[simp] theorem pure_eq {α} (a : α) : (pure a : Except Err α) = Except.ok a := rfl
@[simp] theorem throw_eq {α} (e : Err) : (throw e : Except Err α) = Except.error e := rfl

/-! ### number lines written by the writer -/

theorem parseItems_nats (a : Bool) : ∀ ns : List Nat,
    parseItems a false (ns.map Tok.nat) = .ok (ns.map Num.nat)
  | [] => rfl
  | n :: t => by simp [parseItems, parseItems_nats a t]

/-- the weight item of a well-formed ballot is read back with the same value -/
theorem weightTok_num (w : Weight) (h : weightOK w = true) :
    ∃ x : Num, parseItems true true [weightTok w] = .ok [x] ∧ x.val = w.val ∧ x ≠ Num.nan ∧
      ∀ ts, parseItems true true (weightTok w :: ts) = (parseItems true false ts >>= fun xs => pure (x :: xs)) := by
  cases w with
  | int z =>
    have hz : 0 ≤ z := by simpa [weightOK] using h
    refine ⟨.nat z.toNat, by simp [weightTok, hz, parseItems], ?_, by simp, ?_⟩
    · simp only [Num.val, Weight.val]
      have : ((z.toNat : Int)) = z := Int.toNat_of_nonneg hz
      exact_mod_cast this
    · intro ts; simp [weightTok, hz, parseItems]
  | decimal r digits =>
    simp only [weightOK, Bool.and_eq_true, decide_eq_true_eq, Bool.or_eq_true, Bool.not_eq_true'] at h
    obtain ⟨h0, hd⟩ := h
    cases digits with
    | false =>
      exact ⟨.dec r, by simp [weightTok, parseItems], rfl, by simp, by intro ts; simp [weightTok, parseItems]⟩
    | true =>
      have hden : r.den = 1 := by simpa using hd
      have hnum : 0 ≤ r.num := Rat.num_nonneg.2 h0
      refine ⟨.nat r.num.toNat, by simp [weightTok, parseItems], ?_, by simp, by intro ts; simp [weightTok, parseItems]⟩
      simp only [Num.val, Weight.val]
      have h1 : ((r.num.toNat : Int)) = r.num := Int.toNat_of_nonneg hnum
      have h2 : (r.num : Rat) = r := by
        have := Rat.num_div_den r
        rw [hden] at this
        simpa using this
      rw [← h2]
      exact_mod_cast h1
  | fraction r =>
    simp only [weightOK, Bool.and_eq_true, decide_eq_true_eq] at h
    obtain ⟨h0, hden⟩ := h
    have hnum : 0 ≤ r.num := Rat.num_nonneg.2 h0
    refine ⟨.nat r.num.toNat, by simp [weightTok, hden, hnum, parseItems], ?_, by simp,
      by intro ts; simp [weightTok, hden, hnum, parseItems]⟩
    simp only [Num.val, Weight.val]
    have h1 : ((r.num.toNat : Int)) = r.num := Int.toNat_of_nonneg hnum
    have h2 : (r.num : Rat) = r := by
      have := Rat.num_div_den r
      rw [hden] at this
      simpa using this
    rw [← h2]
    exact_mod_cast h1


theorem natsOf_nats : ∀ ns : List Nat, natsOf (ns.map Num.nat) = ns
  | [] => rfl
  | n :: t => by simp [natsOf, natsOf_nats t]

/-- a ballot line of the writer, as the body loop reads it -/
theorem parse_dumpVote (idx : List Nat) (w : Weight) (h : weightOK w = true) :
    ∃ x : Num, x.val = w.val ∧ x ≠ Num.nan ∧
      parseNumline true (dumpVote (idx, w)) = .ok (x :: ((idx.map (· + 1)).map Num.nat ++ [Num.nat 0])) := by
  obtain ⟨x, _, hv, hn, hts⟩ := weightTok_num w h
  refine ⟨x, hv, hn, ?_⟩
  simp only [dumpVote, parseNumline]
  rw [hts]
  have : (idx.map (fun i => Tok.nat (i + 1)) ++ [Tok.nat 0]) = ((idx.map (· + 1)) ++ [0]).map Tok.nat := by simp
  rw [this, parseItems_nats]
  simp

theorem getLast?_append_single {α} (l : List α) (a : α) : (l ++ [a]).getLast? = some a := by simp

/-- one ballot line: the body loop adds the ballot and goes on -/
theorem parseBody_vote (idx : List Nat) (w : Weight) (h : weightOK w = true) (h0 : 0 ≤ w.val)
    (rest : List Line) (bs : RawBallots) (wd : List Rat) (seen : Bool) :
    parseBody (dumpVote (idx, w) :: rest) bs wd seen
      = parseBody rest (addBallot bs (idx.map (· + 1)) w.val) wd true := by
  obtain ⟨x, hv, hn, hp⟩ := parse_dumpVote idx w h
  simp only [parseBody, hp, ok_bind]
  have hne : ((idx.map (· + 1)).map Num.nat ++ [Num.nat 0]).isEmpty = false := by simp
  have hlt : ¬ x.val < 0 := by rw [hv]; exact not_lt.2 h0
  have hlast : (x :: ((idx.map (· + 1)).map Num.nat ++ [Num.nat 0])).getLast? = some (Num.nat 0) := by
    rw [show x :: ((idx.map (· + 1)).map Num.nat ++ [Num.nat 0]) = (x :: (idx.map (· + 1)).map Num.nat) ++ [Num.nat 0] by simp]
    exact getLast?_append_single _ _
  have hdrop : (x :: ((idx.map (· + 1)).map Num.nat ++ [Num.nat 0])).dropLast = x :: (idx.map (· + 1)).map Num.nat := by
    rw [show x :: ((idx.map (· + 1)).map Num.nat ++ [Num.nat 0]) = (x :: (idx.map (· + 1)).map Num.nat) ++ [Num.nat 0] by simp]
    exact List.dropLast_concat
  simp only [hne, Bool.false_and, Bool.false_eq_true, if_false, hn, hlt, hlast, hdrop]
  have hnats : natsOf ((idx.map (· + 1)).map Num.nat) = idx.map (· + 1) := natsOf_nats _
  have h00 : (Num.nat 0).val = 0 := by simp [Num.val]
  simp only [hnats, h00, hv, ne_eq, not_true_eq_false, if_false]

theorem addBallot_fresh : ∀ (bs : RawBallots) (b : List Nat) (w : Rat), b ∉ bs.map (·.1) →
    addBallot bs b w = bs ++ [(b, w)]
  | [], b, w, _ => by simp [addBallot]
  | (b', w') :: t, b, w, h => by
      have hne : b' ≠ b := by intro e; apply h; simp [e]
      have ht : b ∉ t.map (·.1) := by intro hm; apply h; simp [hm]
      simp [addBallot, hne, addBallot_fresh t b w ht]

/-- all ballot lines of the writer, then whatever follows -/
theorem parseBody_votes : ∀ (bl : List (List Nat × Weight)) (rest : List Line) (acc : RawBallots) (wd : List Rat)
    (seen : Bool),
    (∀ b ∈ bl, weightOK b.2 = true) →
    (acc.map (fun (a : List Nat × Rat) => a.1) ++ bl.map (fun (b : List Nat × Weight) => b.1.map (· + 1))).Nodup →
    parseBody (bl.map dumpVote ++ rest) acc wd seen
      = parseBody rest (acc ++ bl.map (fun b => (b.1.map (· + 1), b.2.val))) wd (seen || !bl.isEmpty)
  | [], rest, acc, wd, seen, _, _ => by simp
  | (idx, w) :: t, rest, acc, wd, seen, hok, hn => by
      have hw : weightOK w = true := hok (idx, w) (List.mem_cons_self)
      have h0 : 0 ≤ w.val := by
        cases w with
        | int z => simpa [weightOK, Weight.val] using hw
        | decimal r d =>
          simp only [weightOK, Bool.and_eq_true, decide_eq_true_eq] at hw
          exact hw.1
        | fraction r =>
          simp only [weightOK, Bool.and_eq_true, decide_eq_true_eq] at hw
          exact hw.1
      have hfresh : idx.map (· + 1) ∉ acc.map (·.1) := by
        intro hm
        have := List.nodup_append.1 hn
        exact this.2.2 _ hm _ (by simp) rfl
      simp only [List.map_cons, List.cons_append]
      rw [parseBody_vote idx w hw h0, addBallot_fresh acc _ _ hfresh]
      have hn' : ((acc ++ [(idx.map (· + 1), w.val)]).map (fun (a : List Nat × Rat) => a.1)
          ++ t.map (fun (b : List Nat × Weight) => b.1.map (· + 1))).Nodup := by
        simpa [List.append_assoc] using hn
      rw [parseBody_votes t rest _ wd true (fun b hb => hok b (List.mem_cons_of_mem _ hb)) hn']
      simp


/-- withdrawn lines `-(i+1)`: consumed before any ballot, each adds `i+1` to the withdrawn set -/
theorem parseBody_withdrawn : ∀ (is : List Nat) (rest : List Line) (bs : RawBallots) (wd : List Rat),
    parseBody (is.map (fun (i : Nat) => Line.toks [.dec (-((i : Rat) + 1))]) ++ rest) bs wd false
      = parseBody rest bs (wd ++ is.map (fun (i : Nat) => (i : Rat) + 1)) false
  | [], rest, bs, wd => by simp
  | i :: t, rest, bs, wd => by
      have hpos : (0 : Rat) < (i : Rat) + 1 := by positivity
      have hneg : -((i : Rat) + 1) < 0 := by linarith
      have hne : ¬ (-((i : Rat) + 1) = 0) := by linarith
      simp only [List.map_cons, List.cons_append, parseBody, parseNumline, parseItems, ok_bind, pure_eq,
        Bool.true_and, if_true]
      simp only [List.isEmpty_nil, Bool.true_and, Num.val, hne, hneg, decide_false, Bool.and_false,
        Bool.false_eq_true, if_false, if_true, List.map_nil, neg_neg, ne_eq, reduceCtorEq,
        not_false_eq_true, decide_true]
      rw [parseBody_withdrawn t rest bs]
      simp

/-- the end-of-ballots marker -/
theorem parseBody_term (rest : List Line) (bs : RawBallots) (wd : List Rat) (seen : Bool) :
    parseBody (Line.toks [.nat 0] :: rest) bs wd seen = .ok (bs, wd, rest) := by
  simp [parseBody, parseNumline, parseItems, Num.val]

/-! ### the string section -/
theorem collect_quoted : ∀ (ss : List String) (acc : List String),
    collectStrings (ss.map Line.quoted) false acc = .ok (acc ++ ss)
  | [], acc => by simp [collectStrings]
  | s :: t, acc => by simp [collectStrings, collect_quoted t (acc ++ [s])]

theorem parseStrings_dump (names : List String) (title : Option String) :
    parseStrings (names.map Line.quoted ++ (match title with | some t => [Line.quoted t] | none => [])) names.length
      = .ok (if names.isEmpty then none else some names, title) ∨
    (names = [] ∧ parseStrings (names.map Line.quoted ++ (match title with | some t => [Line.quoted t] | none => [])) names.length
      = .ok (none, title)) := by
  cases title with
  | none =>
    left
    have : names.map Line.quoted ++ [] = names.map Line.quoted := by simp
    simp only [this, parseStrings, collect_quoted, ok_bind, List.nil_append]
    cases names with
    | nil => simp
    | cons a t =>
      cases t with
      | nil => simp
      | cons b u => simp
  | some ti =>
    have hl : names.map Line.quoted ++ [Line.quoted ti] = (names ++ [ti]).map Line.quoted := by simp
    simp only [hl, parseStrings, collect_quoted, ok_bind, List.nil_append]
    cases names with
    | nil => right; simp
    | cons a t =>
      left
      have h1 : ¬ ((a :: t) ++ [ti]).length = 1 := by simp
      have h2 : ¬ ((a :: t) ++ [ti]).length < (a :: t).length := by simp
      have h3 : ¬ ((a :: t) ++ [ti]).length = (a :: t).length := by simp
      have h4 : ((a :: t) ++ [ti]).length = (a :: t).length + 1 := by simp
      have h5 : ((a :: t) ++ [ti]).isEmpty = false := by simp
      simp only [h1, h2, h3, h4, h5, if_false, if_true, Bool.false_eq_true]
      have e : a :: (t ++ [ti]) = (a :: t) ++ [ti] := rfl
      simp only [List.cons_append] 
      rw [e, List.dropLast_concat, getLast?_append_single]
      simp


/-! ### withdrawn flags -/
theorem wdFrom_ge : ∀ (cs : List (String × Bool)) (k i : Nat), i ∈ wdFrom k cs → k ≤ i
  | [], k, i, h => by simp [wdFrom] at h
  | c :: t, k, i, h => by
      simp only [wdFrom] at h
      split at h
      · rcases List.mem_cons.1 h with h1 | h1
        · omega
        · have := wdFrom_ge t (k + 1) i h1; omega
      · have := wdFrom_ge t (k + 1) i h; omega

theorem formFrom_wd : ∀ (cs : List (String × Bool)) (k : Nat) (W' : List Rat),
    (∀ x ∈ W', x < (k : Rat) + 1) →
    formFrom (W' ++ (wdFrom k cs).map (fun (i : Nat) => (i : Rat) + 1)) k (cs.map (·.1)) = cs
  | [], k, W', _ => by simp [formFrom]
  | (nm, fl) :: t, k, W', hW => by
      have hnot : ((k : Rat) + 1) ∉ W' := fun hm => lt_irrefl _ (hW _ hm)
      have hW2 : ∀ x ∈ W' ++ [(k : Rat) + 1], x < ((k + 1 : Nat) : Rat) + 1 := by
        intro x hx
        rcases List.mem_append.1 hx with h1 | h1
        · have := hW x h1; push_cast; linarith
        · simp at h1; subst h1; push_cast; linarith
      have hW1 : ∀ x ∈ W', x < ((k + 1 : Nat) : Rat) + 1 := by
        intro x hx; have := hW x hx; push_cast; linarith
      cases fl with
      | true =>
        simp only [List.map_cons, formFrom, wdFrom, if_true]
        have hmem : ((k : Rat) + 1) ∈ W' ++ ((k : Rat) + 1) :: (wdFrom (k + 1) t).map (fun (i : Nat) => (i : Rat) + 1) := by
          simp
        have e : W' ++ ((k : Rat) + 1) :: (wdFrom (k + 1) t).map (fun (i : Nat) => (i : Rat) + 1)
            = (W' ++ [(k : Rat) + 1]) ++ (wdFrom (k + 1) t).map (fun (i : Nat) => (i : Rat) + 1) := by simp
        simp only [hmem, decide_true]
        rw [e, formFrom_wd t (k + 1) _ hW2]
      | false =>
        simp only [List.map_cons, formFrom, wdFrom, Bool.false_eq_true, if_false]
        have hmem : ((k : Rat) + 1) ∉ W' ++ (wdFrom (k + 1) t).map (fun (i : Nat) => (i : Rat) + 1) := by
          intro hm
          rcases List.mem_append.1 hm with h1 | h1
          · exact hnot h1
          · simp only [List.mem_map] at h1
            obtain ⟨i, hi, he⟩ := h1
            have := wdFrom_ge t (k + 1) i hi
            have h2 : (i : Rat) = (k : Rat) := by linarith
            have h3 : i = k := by exact_mod_cast h2
            omega
        simp only [hmem, decide_false]
        rw [formFrom_wd t (k + 1) _ hW1]

theorem formCandidates_dump (cands : List (String × Bool)) :
    formCandidates (cands.map (·.1)) ((withdrawnInds cands).map (fun (i : Nat) => (i : Rat) + 1)) = cands := by
  have := formFrom_wd cands 0 [] (by simp)
  simpa [formCandidates, withdrawnInds] using this

theorem formFrom_length (W : List Rat) : ∀ (names : List String) (k : Nat), (formFrom W k names).length = names.length
  | [], _ => rfl
  | _ :: t, k => by simp [formFrom, formFrom_length W t (k + 1)]

/-! ### back from 1-based numbers to candidates -/
theorem deindexOne_succ (n : Nat) : ∀ idx : List Nat, (∀ i ∈ idx, i < n) → deindexOne n (idx.map (· + 1)) = .ok idx
  | [], _ => rfl
  | i :: t, h => by
      have hi : i < n := h i (List.mem_cons_self)
      have h1 : pyIndex n (i + 1) = .ok i := by
        have : i + 1 ≤ n := hi
        simp [pyIndex, this]
      simp [deindexOne, h1, deindexOne_succ n t (fun j hj => h j (List.mem_cons_of_mem _ hj))]

theorem setBallot_fresh : ∀ (bs : List (List Nat × Rat)) (b : List Nat) (w : Rat), b ∉ bs.map (·.1) →
    setBallot bs b w = bs ++ [(b, w)]
  | [], b, w, _ => by simp [setBallot]
  | (b', w') :: t, b, w, h => by
      have hne : b' ≠ b := by intro e; apply h; simp [e]
      have ht : b ∉ t.map (·.1) := by intro hm; apply h; simp [hm]
      simp [setBallot, hne, setBallot_fresh t b w ht]

theorem deindex_dump (n : Nat) : ∀ (bl : List (List Nat × Rat)) (acc : List (List Nat × Rat)),
    (∀ b ∈ bl, ∀ i ∈ b.1, i < n) →
    (acc.map (fun (a : List Nat × Rat) => a.1) ++ bl.map (fun (b : List Nat × Rat) => b.1)).Nodup →
    deindex n (bl.map (fun b => (b.1.map (· + 1), b.2))) acc = .ok (acc ++ bl)
  | [], acc, _, _ => by simp [deindex]
  | (idx, w) :: t, acc, hi, hn => by
      have hfresh : idx ∉ acc.map (·.1) := by
        intro hm
        have := List.nodup_append.1 hn
        exact this.2.2 _ hm _ (by simp) rfl
      have hn' : ((acc ++ [(idx, w)]).map (fun (a : List Nat × Rat) => a.1) ++ t.map (fun (b : List Nat × Rat) => b.1)).Nodup := by
        simpa [List.append_assoc] using hn
      simp only [List.map_cons, deindex]
      rw [deindexOne_succ n idx (hi (idx, w) (List.mem_cons_self))]
      simp only [ok_bind]
      rw [setBallot_fresh acc idx w hfresh, deindex_dump n t _ (fun b hb => hi b (List.mem_cons_of_mem _ hb)) hn']
      simp


/-! ### assembly -/
theorem dumpBlt_shape (d : Doc Weight) :
    dumpBlt d = Line.toks [.nat d.cands.length, .nat d.nSeats] ::
      ((withdrawnInds d.cands).map (fun (i : Nat) => Line.toks [.dec (-((i : Rat) + 1))]) ++
        (d.ballots.map dumpVote ++ (Line.toks [.nat 0] ::
          (d.cands.map (fun c => Line.quoted c.1) ++ (match d.title with | some t => [Line.quoted t] | none => []))))) := by
  cases h : d.title <;> simp [dumpBlt, h, List.append_assoc]

theorem load_dump (d : Doc Weight) (h : WFdoc d = true) : loadBlt (dumpBlt d) = .ok (eraseDoc d) := by
  simp only [WFdoc, Bool.and_eq_true, List.all_eq_true, decide_eq_true_eq] at h
  obtain ⟨hall, hnd⟩ := h
  have hok : ∀ b ∈ d.ballots, weightOK b.2 = true := fun b hb => (hall b hb).2
  have hidx : ∀ b ∈ d.ballots, ∀ i ∈ b.1, i < d.cands.length := fun b hb i hi => by
    have := (hall b hb).1 i hi
    simpa using this
  have hinj : Function.Injective (fun (l : List Nat) => l.map (· + 1)) := by
    intro a b hab
    exact List.map_injective_iff.2 (fun x y hxy => by simpa using hxy) hab
  have hnd1 : (([] : RawBallots).map (fun (a : List Nat × Rat) => a.1)
      ++ d.ballots.map (fun (b : List Nat × Weight) => b.1.map (· + 1))).Nodup := by
    simp only [List.map_nil, List.nil_append]
    have : d.ballots.map (fun (b : List Nat × Weight) => b.1.map (· + 1))
        = (d.ballots.map (·.1)).map (fun l => l.map (· + 1)) := by simp
    rw [this]
    exact hnd.map hinj
  rw [dumpBlt_shape]
  simp only [loadBlt]
  have hh : parseHeader (Line.toks [.nat d.cands.length, .nat d.nSeats]) = .ok (d.cands.length, d.nSeats) := by
    simp [parseHeader, parseNumline, parseItems]
  rw [hh]
  simp only [ok_bind]
  rw [parseBody_withdrawn, parseBody_votes _ _ _ _ _ hok hnd1, parseBody_term]
  simp only [ok_bind, List.nil_append]
  have hnames : d.cands.map (fun c => Line.quoted c.1) = (d.cands.map (·.1)).map Line.quoted := by simp
  have hlen : d.cands.length = (d.cands.map (·.1)).length := by simp
  have hraw : d.ballots.map (fun b => (b.1.map (· + 1), b.2.val))
      = (d.ballots.map (fun b => (b.1, b.2.val))).map (fun (b : List Nat × Rat) => (b.1.map (· + 1), b.2)) := by simp
  have hnd2 : (([] : List (List Nat × Rat)).map (fun (a : List Nat × Rat) => a.1)
      ++ (d.ballots.map (fun b => (b.1, b.2.val))).map (fun (b : List Nat × Rat) => b.1)).Nodup := by
    have e : ((fun (a : List Nat × Rat) => a.1) ∘ fun (b : List Nat × Weight) => (b.1, b.2.val)) = (fun b => b.1) := rfl
    simp only [List.map_nil, List.nil_append, List.map_map, e]
    exact hnd
  have hidx2 : ∀ b ∈ d.ballots.map (fun b => (b.1, b.2.val)), ∀ i ∈ b.1, i < d.cands.length := by
    intro b hb i hi
    simp only [List.mem_map] at hb
    obtain ⟨b0, hb0, rfl⟩ := hb
    exact hidx b0 hb0 i hi
  rw [hnames]
  conv => lhs; arg 1; arg 2; rw [hlen]
  rcases parseStrings_dump (d.cands.map (·.1)) d.title with hps | ⟨hnil, hps⟩
  · rw [hps]
    simp only [ok_bind]
    have hgetD : (if (d.cands.map (·.1)).isEmpty then none else some (d.cands.map (·.1))).getD
        (numericCandidates d.cands.length) = d.cands.map (·.1) := by
      cases hc : d.cands with
      | nil => simp [numericCandidates]
      | cons a t => simp
    rw [hgetD, formCandidates_dump, hraw, deindex_dump _ _ _ hidx2 hnd2]
    simp [eraseDoc]
  · rw [hps]
    simp only [ok_bind]
    have hc : d.cands = [] := by simpa using hnil
    have hgetD : (none : Option (List String)).getD (numericCandidates d.cands.length) = d.cands.map (·.1) := by
      simp [hc, numericCandidates]
    rw [hgetD, formCandidates_dump, hraw, deindex_dump _ _ _ hidx2 hnd2]
    simp [eraseDoc]


/-! ### which exceptions the parser can raise -/

/-- errors of the number-line lexer -/
def LexErr (e : Err) : Prop := e = Err.parseError ∨ e = Err.other "ValueError" ∨ e = Err.other "InvalidOperation"

theorem parseItems_err (a : Bool) : ∀ (ts : List Tok) (i0 : Bool) (e : Err), parseItems a i0 ts = .error e → LexErr e
  | [], _, e, h => by simp [parseItems] at h
  | t :: ts, i0, e, h => by
      simp only [parseItems] at h
      cases t with
      | nat n =>
        simp only [ok_bind, pure_eq] at h
        cases hr : parseItems a false ts with
        | error e' => rw [hr] at h; simp at h; subst h; exact parseItems_err a ts false e' hr
        | ok xs => rw [hr] at h; simp at h
      | udigit => simp at h; subst h; exact Or.inr (Or.inl rfl)
      | dec r =>
        by_cases hc : (i0 && a) = true
        · simp only [hc, if_true, ok_bind, pure_eq] at h
          cases hr : parseItems a false ts with
          | error e' => rw [hr] at h; simp at h; subst h; exact parseItems_err a ts false e' hr
          | ok xs => rw [hr] at h; simp at h
        · simp only [hc, if_false] at h; simp at h; subst h; exact Or.inl rfl
      | nan =>
        by_cases hc : (i0 && a) = true
        · simp only [hc, if_true, ok_bind, pure_eq] at h
          cases hr : parseItems a false ts with
          | error e' => rw [hr] at h; simp at h; subst h; exact parseItems_err a ts false e' hr
          | ok xs => rw [hr] at h; simp at h
        · simp only [hc, if_false] at h; simp at h; subst h; exact Or.inl rfl
      | bad =>
        by_cases hc : (i0 && a) = true
        · simp only [hc, if_true] at h; simp at h; subst h; exact Or.inr (Or.inr rfl)
        · simp only [hc, if_false] at h; simp at h; subst h; exact Or.inl rfl

theorem parseNumline_err (a : Bool) (l : Line) (e : Err) (h : parseNumline a l = .error e) : LexErr e := by
  cases l with
  | blank => simp [parseNumline] at h
  | quoted s =>
    cases a <;> simp [parseNumline] at h <;> subst h
    · exact Or.inl rfl
    · exact Or.inr (Or.inr rfl)
  | toks ts => exact parseItems_err a ts true e h

theorem parseHeader_err (l : Line) (e : Err) (h : parseHeader l = .error e) : LexErr e := by
  simp only [parseHeader] at h
  cases hr : parseNumline false l with
  | error e' => rw [hr] at h; simp at h; subst h; exact parseNumline_err _ _ _ hr
  | ok xs =>
    rw [hr] at h
    simp only [ok_bind] at h
    split at h
    · simp at h
    · simp at h; subst h; exact Or.inl rfl

theorem parseBody_err : ∀ (ls : List Line) (bs : RawBallots) (wd : List Rat) (seen : Bool) (e : Err),
    parseBody ls bs wd seen = .error e → LexErr e
  | [], _, _, _, e, h => by simp [parseBody] at h; subst h; exact Or.inl rfl
  | l :: rest, bs, wd, seen, e, h => by
      simp only [parseBody] at h
      cases hr : parseNumline true l with
      | error e' => rw [hr] at h; simp at h; subst h; exact parseNumline_err _ _ _ hr
      | ok result =>
        rw [hr] at h
        simp only [ok_bind] at h
        cases result with
        | nil => exact parseBody_err rest bs wd seen e h
        | cons first more =>
          simp only at h
          split at h
          · simp at h
          · split at h
            · simp at h; subst h; exact Or.inr (Or.inr rfl)
            · split at h
              · split at h
                · simp at h; subst h; exact Or.inl rfl
                · exact parseBody_err rest bs _ seen e h
              · split at h
                · split at h
                  · simp at h; subst h; exact Or.inl rfl
                  · split at h
                    · simp at h; subst h; exact Or.inl rfl
                    · exact parseBody_err rest _ wd true e h
                · simp at h; subst h; exact Or.inl rfl

theorem collectStrings_err : ∀ (ls : List Line) (b : Bool) (acc : List String) (e : Err),
    collectStrings ls b acc = .error e → e = Err.parseError
  | [], _, _, e, h => by simp [collectStrings] at h
  | .quoted s :: rest, b, acc, e, h => by
      simp only [collectStrings] at h
      split at h
      · simp at h; exact h.symm
      · exact collectStrings_err rest b _ e h
  | .blank :: rest, b, acc, e, h => by
      simp only [collectStrings] at h
      exact collectStrings_err rest true acc e h
  | .toks ts :: rest, b, acc, e, h => by
      simp [collectStrings] at h; exact h.symm

theorem parseStrings_err (ls : List Line) (n : Nat) (e : Err) (h : parseStrings ls n = .error e) : e = Err.parseError := by
  simp only [parseStrings] at h
  cases hc : collectStrings ls false [] with
  | error e' => rw [hc] at h; simp at h; subst h; exact collectStrings_err _ _ _ _ hc
  | ok parsed =>
    rw [hc] at h
    simp only [ok_bind] at h
    repeat' split at h
    all_goals first | (simp at h; done) | (simp at h; exact h.symm)

theorem deindexOne_err (n : Nat) : ∀ (idx : List Nat) (e : Err), deindexOne n idx = .error e → e = Err.other "IndexError"
  | [], e, h => by simp [deindexOne] at h
  | i :: t, e, h => by
      simp only [deindexOne] at h
      cases hp : pyIndex n i with
      | error e' =>
        rw [hp] at h; simp at h; subst h
        simp only [pyIndex] at hp
        repeat' split at hp
        all_goals first | (simp at hp; done) | (simp at hp; exact hp.symm)
      | ok j =>
        rw [hp] at h
        simp only [ok_bind] at h
        cases ht : deindexOne n t with
        | error e' => rw [ht] at h; simp at h; subst h; exact deindexOne_err n t e' ht
        | ok js => rw [ht] at h; simp at h

theorem deindex_err (n : Nat) : ∀ (bs : RawBallots) (acc : List (List Nat × Rat)) (e : Err),
    deindex n bs acc = .error e → e = Err.other "IndexError"
  | [], _, e, h => by simp [deindex] at h
  | (b, w) :: t, acc, e, h => by
      simp only [deindex] at h
      cases hb : deindexOne n b with
      | error e' => rw [hb] at h; simp at h; subst h; exact deindexOne_err n b e' hb
      | ok b' => rw [hb] at h; simp only [ok_bind] at h; exact deindex_err n t _ e h

/-- every exception `loads` can raise on any token lines -/
theorem loadBlt_err (ls : List Line) (e : Err) (h : loadBlt ls = .error e) : LexErr e ∨ e = Err.other "IndexError" := by
  cases ls with
  | nil => simp [loadBlt] at h; subst h; exact Or.inl (Or.inl rfl)
  | cons hd rest =>
    simp only [loadBlt] at h
    cases hh : parseHeader hd with
    | error e' => rw [hh] at h; simp at h; subst h; exact Or.inl (parseHeader_err _ _ hh)
    | ok ns =>
      obtain ⟨nC, nS⟩ := ns
      rw [hh] at h
      simp only [ok_bind] at h
      cases hb : parseBody rest [] [] false with
      | error e' => rw [hb] at h; simp at h; subst h; exact Or.inl (parseBody_err _ _ _ _ _ hb)
      | ok r =>
        obtain ⟨bal, wd, rest'⟩ := r
        rw [hb] at h
        simp only [ok_bind] at h
        cases hs : parseStrings rest' nC with
        | error e' => rw [hs] at h; simp at h; subst h; exact Or.inl (Or.inl (parseStrings_err _ _ _ hs))
        | ok r2 =>
          obtain ⟨names?, title⟩ := r2
          rw [hs] at h
          simp only [ok_bind] at h
          cases hd2 : deindex (formCandidates (names?.getD (numericCandidates nC)) wd).length bal [] with
          | error e' => rw [hd2] at h; simp at h; subst h; exact Or.inr (deindex_err _ _ _ _ hd2)
          | ok tb => rw [hd2] at h; simp at h


/-! ### lexically sane texts raise nothing but the parse error (and IndexError for candidate numbers out of range) -/

theorem parseItems_num (a : Bool) : ∀ (ts : List Tok) (i0 : Bool), ts.all Tok.isNum = true →
    (∀ e, parseItems a i0 ts = .error e → e = Err.parseError) ∧
    (∀ xs, parseItems a i0 ts = .ok xs → ∀ x ∈ xs, x ≠ Num.nan)
  | [], _, _ => by simp [parseItems]
  | t :: ts, i0, h => by
      simp only [List.all_cons, Bool.and_eq_true] at h
      obtain ⟨ht, hts⟩ := h
      obtain ⟨ih1, ih2⟩ := parseItems_num a ts false hts
      cases t with
      | nat n =>
        simp only [parseItems, ok_bind, pure_eq]
        cases hr : parseItems a false ts with
        | error e' => simp; exact ih1 e' hr
        | ok xs =>
          simp
          exact ih2 xs hr
      | dec r =>
        simp only [parseItems]
        by_cases hc : (i0 && a) = true
        · simp only [hc, if_true, ok_bind, pure_eq]
          cases hr : parseItems a false ts with
          | error e' => simp; exact ih1 e' hr
          | ok xs =>
            simp
            exact ih2 xs hr
        · simp [hc]
      | nan => simp [Tok.isNum] at ht
      | udigit => simp [Tok.isNum] at ht
      | bad => simp [Tok.isNum] at ht

theorem isTerm_parseBody (ts : List Tok) (h : isTerm ts = true) (rest : List Line) (bs : RawBallots) (wd : List Rat)
    (seen : Bool) : parseBody (Line.toks ts :: rest) bs wd seen = .ok (bs, wd, rest) := by
  match ts, h with
  | [.nat n], h =>
    have : n = 0 := by simpa [isTerm] using h
    subst this
    exact parseBody_term rest bs wd seen
  | [.dec r], h =>
    have : r = 0 := by simpa [isTerm] using h
    subst this
    simp [parseBody, parseNumline, parseItems, Num.val]

theorem parseBody_lexOK : ∀ (ls : List Line) (bs : RawBallots) (wd : List Rat) (seen : Bool) (e : Err),
    bodyLexOK ls = true → parseBody ls bs wd seen = .error e → e = Err.parseError
  | [], _, _, _, e, _, h => by simp [parseBody] at h; exact h.symm
  | .blank :: rest, bs, wd, seen, e, hl, h => by
      simp only [bodyLexOK] at hl
      simp only [parseBody, parseNumline, pure_eq, ok_bind] at h
      exact parseBody_lexOK rest bs wd seen e hl h
  | .quoted s :: rest, _, _, _, _, hl, _ => by simp [bodyLexOK] at hl
  | .toks ts :: rest, bs, wd, seen, e, hl, h => by
      simp only [bodyLexOK, Bool.and_eq_true, Bool.or_eq_true] at hl
      obtain ⟨hnum, hterm⟩ := hl
      by_cases hT : isTerm ts = true
      · rw [isTerm_parseBody ts hT] at h; cases h
      · have hrest : bodyLexOK rest = true := by
          cases hterm with
          | inl h1 => exact absurd h1 hT
          | inr h1 => exact h1
        obtain ⟨hE, hN⟩ := parseItems_num true ts true hnum
        simp only [parseBody, parseNumline] at h
        cases hr : parseItems true true ts with
        | error e' => rw [hr] at h; simp at h; subst h; exact hE e' hr
        | ok result =>
          rw [hr] at h
          simp only [ok_bind] at h
          cases result with
          | nil => exact parseBody_lexOK rest bs wd seen e hrest h
          | cons first more =>
            have hfirst : first ≠ Num.nan := hN _ hr first (List.mem_cons_self)
            simp only at h
            repeat' split at h
            all_goals first
              | contradiction
              | (simp at h; done)
              | (simp at h; exact h.symm)
              | exact parseBody_lexOK rest _ _ _ e hrest h

theorem parseItems_false_noudigit : ∀ (ts : List Tok) (i0 : Bool) (e : Err), ts.all (· ≠ Tok.udigit) = true →
    parseItems false i0 ts = .error e → e = Err.parseError
  | [], _, e, _, h => by simp [parseItems] at h
  | t :: ts, i0, e, hu, h => by
      simp only [List.all_cons, Bool.and_eq_true, decide_eq_true_eq] at hu
      obtain ⟨hu1, hu2⟩ := hu
      cases t with
      | nat n =>
        simp only [parseItems, ok_bind, pure_eq] at h
        cases hr : parseItems false false ts with
        | error e' => rw [hr] at h; simp at h; subst h; exact parseItems_false_noudigit ts false e' hu2 hr
        | ok xs => rw [hr] at h; simp at h
      | udigit => exact absurd rfl hu1
      | dec r => simp [parseItems] at h; exact h.symm
      | nan => simp [parseItems] at h; exact h.symm
      | bad => simp [parseItems] at h; exact h.symm

def headOK : Line → Bool
  | .toks ts => ts.all (· ≠ Tok.udigit)
  | _ => true

theorem lexOK_cons (hd : Line) (rest : List Line) : lexOK (hd :: rest) = (headOK hd && bodyLexOK rest) := by
  cases hd <;> simp [lexOK, headOK]

theorem parseHeader_lexOK (l : Line) (e : Err) (hl : headOK l = true)
    (h : parseHeader l = .error e) : e = Err.parseError := by
  simp only [parseHeader] at h
  cases hr : parseNumline false l with
  | error e' =>
    rw [hr] at h; simp at h; subst h
    cases l with
    | blank => simp [parseNumline] at hr
    | quoted s => simp [parseNumline] at hr; exact hr.symm
    | toks ts => exact parseItems_false_noudigit ts true e' hl hr
  | ok xs =>
    rw [hr] at h
    simp only [ok_bind] at h
    split at h
    · simp at h
    · simp at h; exact h.symm

theorem loadBlt_lexOK (ls : List Line) (e : Err) (hl : lexOK ls = true) (h : loadBlt ls = .error e) :
    e = Err.parseError ∨ e = Err.other "IndexError" := by
  cases ls with
  | nil => simp [loadBlt] at h; exact Or.inl h.symm
  | cons hd rest =>
    rw [lexOK_cons, Bool.and_eq_true] at hl
    obtain ⟨hhead, hbody⟩ := hl
    simp only [loadBlt] at h
    cases hh : parseHeader hd with
    | error e' => rw [hh] at h; simp at h; subst h; exact Or.inl (parseHeader_lexOK _ _ hhead hh)
    | ok ns =>
      obtain ⟨nC, nS⟩ := ns
      rw [hh] at h
      simp only [ok_bind] at h
      cases hb : parseBody rest [] [] false with
      | error e' => rw [hb] at h; simp at h; subst h; exact Or.inl (parseBody_lexOK _ _ _ _ _ hbody hb)
      | ok r =>
        obtain ⟨bal, wd, rest'⟩ := r
        rw [hb] at h
        simp only [ok_bind] at h
        cases hs : parseStrings rest' nC with
        | error e' => rw [hs] at h; simp at h; subst h; exact Or.inl (parseStrings_err _ _ _ hs)
        | ok r2 =>
          obtain ⟨names?, title⟩ := r2
          rw [hs] at h
          simp only [ok_bind] at h
          cases hd2 : deindex (formCandidates (names?.getD (numericCandidates nC)) wd).length bal [] with
          | error e' => rw [hd2] at h; simp at h; subst h; exact Or.inr (deindex_err _ _ _ _ hd2)
          | ok tb => rw [hd2] at h; simp at h


/-! ### candidate numbers within the header count: no IndexError either -/

def inRange (n : Nat) : Tok → Bool
  | .nat i => decide (1 ≤ i) && decide (i ≤ n)
  | _ => false

/-- the candidate numbers of a ballot line (everything between the weight and the closing 0) lie in 1..n;
    withdrawn lines (negative first item) carry none -/
def ballotIdxOK (n : Nat) : List Tok → Bool
  | [] => true
  | .dec r :: more => decide (r < 0) || (more.dropLast).all (inRange n)
  | _ :: more => (more.dropLast).all (inRange n)

def bodyIdxOK (n : Nat) : List Line → Bool
  | [] => true
  | .blank :: rest => bodyIdxOK n rest
  | .quoted _ :: _ => true
  | .toks ts :: rest => isTerm ts || (ballotIdxOK n ts && bodyIdxOK n rest)

/-- `idxOK`: with a header `n s`, every ballot line read names candidates 1..n only -/
def idxOK : List Line → Bool
  | .toks [.nat n, .nat _] :: rest => bodyIdxOK n rest
  | _ => true

theorem parseItems_false_nats (a : Bool) : ∀ (ts : List Tok) (xs : List Num), ts.all Tok.isNum = true →
    parseItems a false ts = .ok xs → ∃ ns : List Nat, ts = ns.map Tok.nat ∧ xs = ns.map Num.nat
  | [], xs, _, h => by simp [parseItems] at h; subst h; exact ⟨[], rfl, rfl⟩
  | t :: ts, xs, hn, h => by
      simp only [List.all_cons, Bool.and_eq_true] at hn
      cases t with
      | nat n =>
        simp only [parseItems, ok_bind, pure_eq] at h
        cases hr : parseItems a false ts with
        | error e => rw [hr] at h; simp at h
        | ok ys =>
          rw [hr] at h; simp at h; subst h
          obtain ⟨ns, h1, h2⟩ := parseItems_false_nats a ts ys hn.2 hr
          exact ⟨n :: ns, by simp [h1], by simp [h2]⟩
      | dec r => simp [parseItems] at h
      | nan => simp [Tok.isNum] at hn
      | udigit => simp [Tok.isNum] at hn
      | bad => simp [Tok.isNum] at hn

/-- all stored ballots name candidates 1..n -/
def rawOK (n : Nat) (bs : RawBallots) : Prop := ∀ b ∈ bs, ∀ i ∈ b.1, 1 ≤ i ∧ i ≤ n

theorem addBallot_rawOK (n : Nat) : ∀ (bs : RawBallots) (b : List Nat) (w : Rat), rawOK n bs →
    (∀ i ∈ b, 1 ≤ i ∧ i ≤ n) → rawOK n (addBallot bs b w)
  | [], b, w, _, hb => by
      intro x hx; simp [addBallot] at hx; subst hx; exact hb
  | (b', w') :: t, b, w, h, hb => by
      simp only [addBallot]
      split
      · intro x hx
        rcases List.mem_cons.1 hx with h1 | h1
        · subst h1; exact h (b', w') (List.mem_cons_self)
        · exact h x (List.mem_cons_of_mem _ h1)
      · intro x hx
        rcases List.mem_cons.1 hx with h1 | h1
        · subst h1; exact h (b', w') (List.mem_cons_self)
        · exact addBallot_rawOK n t b w (fun y hy => h y (List.mem_cons_of_mem _ hy)) hb x h1

theorem natsOf_dropLast_nats (ns : List Nat) : natsOf ((ns.map Num.nat).dropLast) = ns.dropLast := by
  rw [← List.map_dropLast, natsOf_nats]

theorem parseBody_rawOK (n : Nat) : ∀ (ls : List Line) (bs : RawBallots) (wd : List Rat) (seen : Bool)
    (r : RawBallots × List Rat × List Line),
    bodyLexOK ls = true → bodyIdxOK n ls = true → rawOK n bs → parseBody ls bs wd seen = .ok r → rawOK n r.1
  | [], _, _, _, r, _, _, _, h => by simp [parseBody] at h
  | .blank :: rest, bs, wd, seen, r, hl, hi, hb, h => by
      simp only [bodyLexOK] at hl
      simp only [bodyIdxOK] at hi
      simp only [parseBody, parseNumline, pure_eq, ok_bind] at h
      exact parseBody_rawOK n rest bs wd seen r hl hi hb h
  | .quoted s :: rest, _, _, _, _, hl, _, _, _ => by simp [bodyLexOK] at hl
  | .toks ts :: rest, bs, wd, seen, r, hl, hi, hb, h => by
      simp only [bodyLexOK, Bool.and_eq_true, Bool.or_eq_true] at hl
      obtain ⟨hnum, hterm⟩ := hl
      by_cases hT : isTerm ts = true
      · rw [isTerm_parseBody ts hT] at h
        cases h
        exact hb
      · have hrest : bodyLexOK rest = true := by
          cases hterm with
          | inl h1 => exact absurd h1 hT
          | inr h1 => exact h1
        simp only [bodyIdxOK, hT, Bool.false_or, Bool.and_eq_true] at hi
        obtain ⟨hidx, hirest⟩ := hi
        simp only [parseBody, parseNumline] at h
        cases hr : parseItems true true ts with
        | error e' => rw [hr] at h; simp at h
        | ok result =>
          rw [hr] at h
          simp only [ok_bind] at h
          cases result with
          | nil => exact parseBody_rawOK n rest bs wd seen r hrest hirest hb h
          | cons first more =>
            -- the tokens behind `more` are plain numbers
            cases ts with
            | nil => simp [parseItems] at hr
            | cons t0 ts' =>
              simp only [List.all_cons, Bool.and_eq_true] at hnum
              have hmore : ∃ ns : List Nat, ts' = ns.map Tok.nat ∧ more = ns.map Num.nat := by
                cases t0 with
                | nat k =>
                  simp only [parseItems, ok_bind, pure_eq] at hr
                  cases hr' : parseItems true false ts' with
                  | error e => rw [hr'] at hr; simp at hr
                  | ok ys =>
                    rw [hr'] at hr; simp at hr
                    obtain ⟨_, rfl⟩ := hr
                    exact parseItems_false_nats true ts' ys hnum.2 hr'
                | dec q =>
                  simp only [parseItems, Bool.and_self, if_true, ok_bind, pure_eq] at hr
                  cases hr' : parseItems true false ts' with
                  | error e => rw [hr'] at hr; simp at hr
                  | ok ys =>
                    rw [hr'] at hr; simp at hr
                    obtain ⟨_, rfl⟩ := hr
                    exact parseItems_false_nats true ts' ys hnum.2 hr'
                | nan => simp [Tok.isNum] at hnum
                | udigit => simp [Tok.isNum] at hnum
                | bad => simp [Tok.isNum] at hnum
              obtain ⟨ns, hts', rfl⟩ := hmore
              simp only at h
              repeat' split at h
              all_goals first
                | (simp at h; done)
                | (cases h; exact hb)
                | exact parseBody_rawOK n rest bs _ seen r hrest hirest hb h
                | skip
              -- the ballot branch
              all_goals (
                rename_i hnotterm hnotnan hnotneg last hlast hlast0 w idx hbody
                refine parseBody_rawOK n rest _ wd true r hrest hirest (addBallot_rawOK n bs _ _ hb ?_) h
                cases ns with
                | nil => simp at hbody
                | cons k ks =>
                  have hdl : (first :: List.map Num.nat (k :: ks)).dropLast = first :: (List.map Num.nat (k :: ks)).dropLast := by
                    simp [List.dropLast]
                  rw [hdl] at hbody
                  simp only [List.cons.injEq] at hbody
                  obtain ⟨hw, hidxeq⟩ := hbody
                  rw [← hidxeq, natsOf_dropLast_nats]
                  -- the candidate numbers are in range by `ballotIdxOK`
                  have hall : ((k :: ks).dropLast.map Tok.nat).all (inRange n) = true := by
                    have hdrop : ts'.dropLast = (k :: ks).dropLast.map Tok.nat := by rw [hts', List.map_dropLast]
                    cases t0 with
                    | nat k0 => simpa [ballotIdxOK, hdrop] using hidx
                    | dec q =>
                      have hfirst : first = Num.dec q := by
                        simp only [parseItems, Bool.and_self, if_true, ok_bind, pure_eq] at hr
                        cases hr' : parseItems true false ts' with
                        | error e => rw [hr'] at hr; simp at hr
                        | ok ys => rw [hr'] at hr; simp at hr; exact hr.1.symm
                      have hq : ¬ q < 0 := by simpa [hfirst, Num.val] using hnotterm
                      simpa [ballotIdxOK, hdrop, hq] using hidx
                    | nan => simp [Tok.isNum] at hnum
                    | udigit => simp [Tok.isNum] at hnum
                    | bad => simp [Tok.isNum] at hnum
                  intro i hi
                  have := (List.all_eq_true.1 hall) (Tok.nat i) (List.mem_map_of_mem hi)
                  simpa [inRange] using this)


theorem deindexOne_inrange (n : Nat) : ∀ idx : List Nat, (∀ i ∈ idx, 1 ≤ i ∧ i ≤ n) → ∃ js, deindexOne n idx = .ok js
  | [], _ => ⟨[], rfl⟩
  | i :: t, h => by
      obtain ⟨h1, h2⟩ := h i (List.mem_cons_self)
      obtain ⟨js, hj⟩ := deindexOne_inrange n t (fun j hj => h j (List.mem_cons_of_mem _ hj))
      have hne : i ≠ 0 := by omega
      exact ⟨(i - 1) :: js, by simp [deindexOne, pyIndex, hne, h2, hj]⟩

theorem deindex_inrange (n : Nat) : ∀ (bs : RawBallots) (acc : List (List Nat × Rat)), rawOK n bs →
    ∃ out, deindex n bs acc = .ok out
  | [], acc, _ => ⟨acc, rfl⟩
  | (b, w) :: t, acc, h => by
      obtain ⟨js, hj⟩ := deindexOne_inrange n b (h (b, w) (List.mem_cons_self))
      obtain ⟨out, ho⟩ := deindex_inrange n t (setBallot acc js w) (fun x hx => h x (List.mem_cons_of_mem _ hx))
      exact ⟨out, by simp [deindex, hj, ho]⟩

theorem numericCandidates_length (n : Nat) : (numericCandidates n).length = n := by simp [numericCandidates]

/-- whatever `_parse_strings` returns, the candidate list has exactly the header's length -/
theorem parseStrings_length (ls : List Line) (n : Nat) (names? : Option (List String)) (title : Option String)
    (h : parseStrings ls n = .ok (names?, title)) : (names?.getD (numericCandidates n)).length = n := by
  simp only [parseStrings] at h
  cases hc : collectStrings ls false [] with
  | error e => rw [hc] at h; simp at h
  | ok parsed =>
    rw [hc] at h
    simp only [ok_bind] at h
    repeat' split at h
    all_goals first
      | (simp at h; done)
      | (simp at h; obtain ⟨rfl, _⟩ := h; simp [numericCandidates_length]; done)
      | (simp at h; obtain ⟨rfl, _⟩ := h; simp [numericCandidates_length]; omega)

theorem parseItems_length (a : Bool) : ∀ (ts : List Tok) (i0 : Bool) (xs : List Num),
    parseItems a i0 ts = .ok xs → xs.length = ts.length
  | [], _, xs, h => by simp [parseItems] at h; subst h; rfl
  | t :: ts, i0, xs, h => by
      have step : ∀ (x : Num), (parseItems a false ts >>= fun ys => pure (x :: ys)) = Except.ok xs →
          xs.length = (t :: ts).length := by
        intro x hx
        cases hr : parseItems a false ts with
        | error e => rw [hr] at hx; simp at hx
        | ok ys =>
          rw [hr] at hx; simp at hx; subst hx
          simp [parseItems_length a ts false ys hr]
      cases t with
      | nat n => simp only [parseItems, ok_bind, pure_eq] at h; exact step _ h
      | udigit => simp [parseItems] at h
      | dec r =>
        simp only [parseItems] at h
        by_cases hc : (i0 && a) = true
        · simp only [hc, if_true, ok_bind, pure_eq] at h; exact step _ h
        · simp [hc] at h
      | nan =>
        simp only [parseItems] at h
        by_cases hc : (i0 && a) = true
        · simp only [hc, if_true, ok_bind, pure_eq] at h; exact step _ h
        · simp [hc] at h
      | bad =>
        simp only [parseItems] at h
        by_cases hc : (i0 && a) = true
        · simp [hc] at h
        · simp [hc] at h

theorem parseHeader_ok_inv (hd : Line) (nC nS : Nat) (h : parseHeader hd = .ok (nC, nS)) :
    hd = Line.toks [.nat nC, .nat nS] := by
  simp only [parseHeader] at h
  cases hp : parseNumline false hd with
  | error e' => rw [hp] at h; simp at h
  | ok xs =>
    rw [hp] at h
    simp only [ok_bind] at h
    split at h
    · rename_i a b
      simp at h
      obtain ⟨rfl, rfl⟩ := h
      cases hd with
      | blank => simp [parseNumline] at hp
      | quoted s => simp [parseNumline] at hp
      | toks ts =>
        simp only [parseNumline] at hp
        have hlen := parseItems_length false ts true _ hp
        match ts, hlen, hp with
        | [t1, t2], _, hp =>
          cases t1 <;> cases t2 <;> simp [parseItems] at hp
          obtain ⟨rfl, rfl⟩ := hp
          rfl
    · simp at h

theorem loadBlt_inrange (ls : List Line) (e : Err) (hl : lexOK ls = true) (hi : idxOK ls = true)
    (h : loadBlt ls = .error e) : e = Err.parseError := by
  cases ls with
  | nil => simp [loadBlt] at h; exact h.symm
  | cons hd rest =>
    rw [lexOK_cons, Bool.and_eq_true] at hl
    obtain ⟨hhead, hbody⟩ := hl
    simp only [loadBlt] at h
    cases hh : parseHeader hd with
    | error e' => rw [hh] at h; simp at h; subst h; exact parseHeader_lexOK _ _ hhead hh
    | ok ns =>
      obtain ⟨nC, nS⟩ := ns
      -- a header that parses is `toks [nat nC, nat nS]`, so `idxOK` speaks about nC
      have hidx : bodyIdxOK nC rest = true := by
        obtain ⟨hdeq⟩ : Nonempty (hd = Line.toks [.nat nC, .nat nS]) := ⟨parseHeader_ok_inv hd nC nS hh⟩
        subst hdeq
        simpa [idxOK] using hi
      rw [hh] at h
      simp only [ok_bind] at h
      cases hb : parseBody rest [] [] false with
      | error e' => rw [hb] at h; simp at h; subst h; exact parseBody_lexOK _ _ _ _ _ hbody hb
      | ok r =>
        obtain ⟨bal, wd, rest'⟩ := r
        have hraw : rawOK nC bal :=
          parseBody_rawOK nC rest [] [] false (bal, wd, rest') hbody hidx (fun b hb => by simp at hb) hb
        rw [hb] at h
        simp only [ok_bind] at h
        cases hs : parseStrings rest' nC with
        | error e' => rw [hs] at h; simp at h; subst h; exact parseStrings_err _ _ _ hs
        | ok r2 =>
          obtain ⟨names?, title⟩ := r2
          rw [hs] at h
          simp only [ok_bind] at h
          have hlen : (formCandidates (names?.getD (numericCandidates nC)) wd).length = nC := by
            simp only [formCandidates]
            rw [formFrom_length, parseStrings_length _ _ _ _ hs]
          rw [hlen] at h
          obtain ⟨out, ho⟩ := deindex_inrange nC bal [] hraw
          rw [ho] at h
          simp at h

end VL.Blt
