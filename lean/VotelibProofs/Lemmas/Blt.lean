/-
  Helper lemmas about the BLT token-level model (VotelibModel.Blt) for C19.
-/
import VotelibModel.Blt
import Mathlib.Data.List.Nodup
import Mathlib.Algebra.Order.Ring.Rat
import Mathlib.Tactic.Linarith
namespace VL.Blt
open VL
set_option linter.unusedSimpArgs false


@[simp] theorem ok_bind {α β} (a : α) (f : α → Except Err β) : (Except.ok a >>= f) = f a := rfl
@[simp] theorem err_bind {α β} (e : Err) (f : α → Except Err β) : ((Except.error e : Except Err α) >>= f) = Except.error e := rfl
@[simp] theorem pure_eq {α} (a : α) : (pure a : Except Err α) = Except.ok a := rfl
@[simp] theorem throw_eq {α} (e : Err) : (throw e : Except Err α) = Except.error e := rfl

/-! ### number lines written by the writer -/

theorem parseItems_nats (a : Bool) : ∀ ns : List Nat,
    parseItems a false (ns.map Tok.nat) = .ok (ns.map Num.nat)
  | [] => rfl
  | n :: t => by simp [parseItems, parseItems_nats a t]

/-- the weight item of a well-formed ballot is read back with the same value -/
theorem weightTok_num (w : Weight) (h : weightOK w = true) :
    ∃ x : Num, x.val = w.val ∧
      ∀ ts, parseItems true true (weightTok w :: ts) = (parseItems true false ts >>= fun xs => pure (x :: xs)) := by
  cases w with
  | int z =>
    have hz : 0 ≤ z := by simpa [weightOK] using h
    refine ⟨.nat z.toNat, ?_, ?_⟩
    · simp only [Num.val, Weight.val]
      have : ((z.toNat : Int)) = z := Int.toNat_of_nonneg hz
      exact_mod_cast this
    · intro ts; simp [weightTok, hz, parseItems]
  | decimal r digits =>
    simp only [weightOK, Bool.and_eq_true, decide_eq_true_eq, Bool.or_eq_true, Bool.not_eq_true'] at h
    obtain ⟨h0, hd⟩ := h
    cases digits with
    | false => exact ⟨.dec r, rfl, by intro ts; simp [weightTok, parseItems]⟩
    | true =>
      have hden : r.den = 1 := by simpa using hd
      have hnum : 0 ≤ r.num := Rat.num_nonneg.2 h0
      refine ⟨.nat r.num.toNat, ?_, by intro ts; simp [weightTok, parseItems]⟩
      simp only [Num.val, Weight.val]
      have h1 : ((r.num.toNat : Int)) = r.num := Int.toNat_of_nonneg hnum
      have h2 : (r.num : Rat) = r := by
        have := Rat.num_div_den r
        rw [hden] at this
        simpa using this
      rw [← h2]
      exact_mod_cast h1
  | fraction r =>
    have h0 : 0 ≤ r := by simpa [weightOK] using h
    have hnum : 0 ≤ r.num := Rat.num_nonneg.2 h0
    by_cases hden : r.den = 1
    · refine ⟨.nat r.num.toNat, ?_, by intro ts; simp [weightTok, hden, hnum, parseItems]⟩
      simp only [Num.val, Weight.val]
      have h1 : ((r.num.toNat : Int)) = r.num := Int.toNat_of_nonneg hnum
      have h2 : (r.num : Rat) = r := by
        have := Rat.num_div_den r
        rw [hden] at this
        simpa using this
      rw [← h2]
      exact_mod_cast h1
    · exact ⟨.dec r, rfl, by intro ts; simp [weightTok, hden, parseItems]⟩

theorem natsOf_nats : ∀ ns : List Nat, natsOf (ns.map Num.nat) = ns
  | [] => rfl
  | n :: t => by simp [natsOf, natsOf_nats t]

/-- a ballot line of the writer, as the body loop reads it -/
theorem parse_dumpVote (idx : List Nat) (w : Weight) (h : weightOK w = true) :
    ∃ x : Num, x.val = w.val ∧
      parseNumline true (dumpVote (idx, w)) = .ok (x :: ((idx.map (· + 1)).map Num.nat ++ [Num.nat 0])) := by
  obtain ⟨x, hv, hts⟩ := weightTok_num w h
  refine ⟨x, hv, ?_⟩
  simp only [dumpVote, parseNumline]
  rw [hts]
  have : (idx.map (fun i => Tok.nat (i + 1)) ++ [Tok.nat 0]) = ((idx.map (· + 1)) ++ [0]).map Tok.nat := by simp
  rw [this, parseItems_nats]
  simp

theorem getLast?_append_single {α} (l : List α) (a : α) : (l ++ [a]).getLast? = some a := by simp

/-- one ballot line: the body loop adds the ballot and goes on -/
theorem parseBody_vote (idx : List Nat) (w : Weight) (h : weightOK w = true) (h0 : 0 ≤ w.val)
    (rest : List Line) (bs : RawBallots) (wd : List Rat) (seen : Bool) :
    parseBody false (dumpVote (idx, w) :: rest) bs wd seen
      = parseBody false rest (addBallot bs (idx.map (· + 1)) w.val) wd true := by
  obtain ⟨x, hv, hp⟩ := parse_dumpVote idx w h
  simp only [parseBody, hp, ok_bind]
  have hne : ((idx.map (· + 1)).map Num.nat ++ [Num.nat 0]).isEmpty = false := by simp
  have hlt : ¬ x.val < 0 := by rw [hv]; exact not_lt.2 h0
  have hlast : (x :: ((idx.map (· + 1)).map Num.nat ++ [Num.nat 0])).getLast? = some (Num.nat 0) := by
    rw [show x :: ((idx.map (· + 1)).map Num.nat ++ [Num.nat 0]) = (x :: (idx.map (· + 1)).map Num.nat) ++ [Num.nat 0] by simp]
    exact getLast?_append_single _ _
  have hdrop : (x :: ((idx.map (· + 1)).map Num.nat ++ [Num.nat 0])).dropLast = x :: (idx.map (· + 1)).map Num.nat := by
    rw [show x :: ((idx.map (· + 1)).map Num.nat ++ [Num.nat 0]) = (x :: (idx.map (· + 1)).map Num.nat) ++ [Num.nat 0] by simp]
    exact List.dropLast_concat
  simp only [hne, Bool.false_and, Bool.false_eq_true, if_false, hlt, hlast, hdrop]
  have hnats : natsOf ((idx.map (· + 1)).map Num.nat) = idx.map (· + 1) := natsOf_nats _
  have h00 : (Num.nat 0).val = 0 := by simp [Num.val]
  simp only [hnats, h00, hv, ne_eq, not_true_eq_false, if_false]

theorem addBallot_fresh : ∀ (bs : RawBallots) (b : List Nat) (w : Rat), b ∉ bs.map (·.1) →
    addBallot bs b w = bs ++ [(b, w)]
  | [], b, w, _ => by simp [addBallot]
  | (b', w') :: t, b, w, h => by
      have hne : b' ≠ b := by intro e; apply h; simp [e]
      have ht : b ∉ t.map (·.1) := by intro hm; apply h; simp [hm]
      simp [addBallot, hne, addBallot_fresh t b w ht]

/-- all ballot lines of the writer, then whatever follows -/
theorem parseBody_votes : ∀ (bl : List (List Nat × Weight)) (rest : List Line) (acc : RawBallots) (wd : List Rat)
    (seen : Bool),
    (∀ b ∈ bl, weightOK b.2 = true) →
    (acc.map (fun (a : List Nat × Rat) => a.1) ++ bl.map (fun (b : List Nat × Weight) => b.1.map (· + 1))).Nodup →
    parseBody false (bl.map dumpVote ++ rest) acc wd seen
      = parseBody false rest (acc ++ bl.map (fun b => (b.1.map (· + 1), b.2.val))) wd (seen || !bl.isEmpty)
  | [], rest, acc, wd, seen, _, _ => by simp
  | (idx, w) :: t, rest, acc, wd, seen, hok, hn => by
      have hw : weightOK w = true := hok (idx, w) (List.mem_cons_self)
      have h0 : 0 ≤ w.val := by
        cases w with
        | int z => simpa [weightOK, Weight.val] using hw
        | decimal r d =>
          simp only [weightOK, Bool.and_eq_true, decide_eq_true_eq] at hw
          exact hw.1
        | fraction r => simpa [weightOK, Weight.val] using hw
      have hfresh : idx.map (· + 1) ∉ acc.map (·.1) := by
        intro hm
        have := List.nodup_append.1 hn
        exact this.2.2 _ hm _ (by simp) rfl
      simp only [List.map_cons, List.cons_append]
      rw [parseBody_vote idx w hw h0, addBallot_fresh acc _ _ hfresh]
      have hn' : ((acc ++ [(idx.map (· + 1), w.val)]).map (fun (a : List Nat × Rat) => a.1)
          ++ t.map (fun (b : List Nat × Weight) => b.1.map (· + 1))).Nodup := by
        simpa [List.append_assoc] using hn
      rw [parseBody_votes t rest _ wd true (fun b hb => hok b (List.mem_cons_of_mem _ hb)) hn']
      simp


/-- withdrawn lines `-(i+1)`: consumed before any ballot, each adds `i+1` to the withdrawn set -/
theorem parseBody_withdrawn : ∀ (is : List Nat) (rest : List Line) (bs : RawBallots) (wd : List Rat),
    parseBody false (is.map (fun (i : Nat) => Line.toks [.dec (-((i : Rat) + 1))]) ++ rest) bs wd false
      = parseBody false rest bs (wd ++ is.map (fun (i : Nat) => (i : Rat) + 1)) false
  | [], rest, bs, wd => by simp
  | i :: t, rest, bs, wd => by
      have hpos : (0 : Rat) < (i : Rat) + 1 := by positivity
      have hneg : -((i : Rat) + 1) < 0 := by linarith
      have hne : ¬ (-((i : Rat) + 1) = 0) := by linarith
      simp only [List.map_cons, List.cons_append, parseBody, parseNumline, parseItems, ok_bind, pure_eq,
        Bool.true_and, if_true]
      simp only [List.isEmpty_nil, Bool.true_and, Num.val, hne, hneg, decide_false, Bool.and_false,
        Bool.false_eq_true, if_false, if_true, List.map_nil, neg_neg, ne_eq, reduceCtorEq,
        not_false_eq_true, decide_true]
      rw [parseBody_withdrawn t rest bs]
      simp

/-- the end-of-ballots marker -/
theorem parseBody_term (rest : List Line) (bs : RawBallots) (wd : List Rat) (seen : Bool) :
    parseBody false (Line.toks [.nat 0] :: rest) bs wd seen = .ok (bs, wd, rest) := by
  simp [parseBody, parseNumline, parseItems, Num.val]

/-! ### the string section -/
theorem collect_quoted : ∀ (ss : List String) (acc : List String),
    collectStrings (ss.map Line.quoted) false acc = .ok (acc ++ ss)
  | [], acc => by simp [collectStrings]
  | s :: t, acc => by simp [collectStrings, collect_quoted t (acc ++ [s])]

theorem parseStrings_dump (names : List String) (title : Option String) :
    parseStrings (names.map Line.quoted ++ (match title with | some t => [Line.quoted t] | none => [])) names.length
      = .ok (if names.isEmpty then none else some names, title) ∨
    (names = [] ∧ parseStrings (names.map Line.quoted ++ (match title with | some t => [Line.quoted t] | none => [])) names.length
      = .ok (none, title)) := by
  cases title with
  | none =>
    left
    have : names.map Line.quoted ++ [] = names.map Line.quoted := by simp
    simp only [this, parseStrings, collect_quoted, ok_bind, List.nil_append]
    cases names with
    | nil => simp
    | cons a t =>
      cases t with
      | nil => simp
      | cons b u => simp
  | some ti =>
    have hl : names.map Line.quoted ++ [Line.quoted ti] = (names ++ [ti]).map Line.quoted := by simp
    simp only [hl, parseStrings, collect_quoted, ok_bind, List.nil_append]
    cases names with
    | nil => right; simp
    | cons a t =>
      left
      have h1 : ¬ ((a :: t) ++ [ti]).length = 1 := by simp
      have h2 : ¬ ((a :: t) ++ [ti]).length < (a :: t).length := by simp
      have h3 : ¬ ((a :: t) ++ [ti]).length = (a :: t).length := by simp
      have h4 : ((a :: t) ++ [ti]).length = (a :: t).length + 1 := by simp
      have h5 : ((a :: t) ++ [ti]).isEmpty = false := by simp
      simp only [h1, h2, h3, h4, h5, if_false, if_true, Bool.false_eq_true]
      have e : a :: (t ++ [ti]) = (a :: t) ++ [ti] := rfl
      simp only [List.cons_append] 
      rw [e, List.dropLast_concat, getLast?_append_single]
      simp


/-! ### withdrawn flags -/
theorem wdFrom_ge : ∀ (cs : List (String × Bool)) (k i : Nat), i ∈ wdFrom k cs → k ≤ i
  | [], k, i, h => by simp [wdFrom] at h
  | c :: t, k, i, h => by
      simp only [wdFrom] at h
      split at h
      · rcases List.mem_cons.1 h with h1 | h1
        · omega
        · have := wdFrom_ge t (k + 1) i h1; omega
      · have := wdFrom_ge t (k + 1) i h; omega

theorem formFrom_wd : ∀ (cs : List (String × Bool)) (k : Nat) (W' : List Rat),
    (∀ x ∈ W', x < (k : Rat) + 1) →
    formFrom (W' ++ (wdFrom k cs).map (fun (i : Nat) => (i : Rat) + 1)) k (cs.map (·.1)) = cs
  | [], k, W', _ => by simp [formFrom]
  | (nm, fl) :: t, k, W', hW => by
      have hnot : ((k : Rat) + 1) ∉ W' := fun hm => lt_irrefl _ (hW _ hm)
      have hW2 : ∀ x ∈ W' ++ [(k : Rat) + 1], x < ((k + 1 : Nat) : Rat) + 1 := by
        intro x hx
        rcases List.mem_append.1 hx with h1 | h1
        · have := hW x h1; push_cast; linarith
        · simp at h1; subst h1; push_cast; linarith
      have hW1 : ∀ x ∈ W', x < ((k + 1 : Nat) : Rat) + 1 := by
        intro x hx; have := hW x hx; push_cast; linarith
      cases fl with
      | true =>
        simp only [List.map_cons, formFrom, wdFrom, if_true]
        have hmem : ((k : Rat) + 1) ∈ W' ++ ((k : Rat) + 1) :: (wdFrom (k + 1) t).map (fun (i : Nat) => (i : Rat) + 1) := by
          simp
        have e : W' ++ ((k : Rat) + 1) :: (wdFrom (k + 1) t).map (fun (i : Nat) => (i : Rat) + 1)
            = (W' ++ [(k : Rat) + 1]) ++ (wdFrom (k + 1) t).map (fun (i : Nat) => (i : Rat) + 1) := by simp
        simp only [hmem, decide_true]
        rw [e, formFrom_wd t (k + 1) _ hW2]
      | false =>
        simp only [List.map_cons, formFrom, wdFrom, Bool.false_eq_true, if_false]
        have hmem : ((k : Rat) + 1) ∉ W' ++ (wdFrom (k + 1) t).map (fun (i : Nat) => (i : Rat) + 1) := by
          intro hm
          rcases List.mem_append.1 hm with h1 | h1
          · exact hnot h1
          · simp only [List.mem_map] at h1
            obtain ⟨i, hi, he⟩ := h1
            have := wdFrom_ge t (k + 1) i hi
            have h2 : (i : Rat) = (k : Rat) := by linarith
            have h3 : i = k := by exact_mod_cast h2
            omega
        simp only [hmem, decide_false]
        rw [formFrom_wd t (k + 1) _ hW1]

theorem formCandidates_dump (cands : List (String × Bool)) :
    formCandidates (cands.map (·.1)) ((withdrawnInds cands).map (fun (i : Nat) => (i : Rat) + 1)) = cands := by
  have := formFrom_wd cands 0 [] (by simp)
  simpa [formCandidates, withdrawnInds] using this

theorem formFrom_length (W : List Rat) : ∀ (names : List String) (k : Nat), (formFrom W k names).length = names.length
  | [], _ => rfl
  | _ :: t, k => by simp [formFrom, formFrom_length W t (k + 1)]

/-! ### back from 1-based numbers to candidates -/
theorem setBallot_fresh : ∀ (bs : List (List Nat × Rat)) (b : List Nat) (w : Rat), b ∉ bs.map (·.1) →
    setBallot bs b w = bs ++ [(b, w)]
  | [], b, w, _ => by simp [setBallot]
  | (b', w') :: t, b, w, h => by
      have hne : b' ≠ b := by intro e; apply h; simp [e]
      have ht : b ∉ t.map (·.1) := by intro hm; apply h; simp [hm]
      simp [setBallot, hne, setBallot_fresh t b w ht]

theorem map_succ_pred (idx : List Nat) : (idx.map (· + 1)).map (· - 1) = idx := by
  induction idx with
  | nil => rfl
  | cons a t ih => simp [ih]

theorem deindexAll_dump : ∀ (bl : List (List Nat × Rat)) (acc : List (List Nat × Rat)),
    (acc.map (fun (a : List Nat × Rat) => a.1) ++ bl.map (fun (b : List Nat × Rat) => b.1)).Nodup →
    deindexAll (bl.map (fun b => (b.1.map (· + 1), b.2))) acc = acc ++ bl
  | [], acc, _ => by simp [deindexAll]
  | (idx, w) :: t, acc, hn => by
      have hfresh : idx ∉ acc.map (·.1) := by
        intro hm
        have := List.nodup_append.1 hn
        exact this.2.2 _ hm _ (by simp) rfl
      have hn' : ((acc ++ [(idx, w)]).map (fun (a : List Nat × Rat) => a.1) ++ t.map (fun (b : List Nat × Rat) => b.1)).Nodup := by
        simpa [List.append_assoc] using hn
      simp only [List.map_cons, deindexAll, map_succ_pred]
      rw [setBallot_fresh acc idx w hfresh, deindexAll_dump t _ hn']
      simp

theorem deindex_dump (n : Nat) (bl : List (List Nat × Rat))
    (hi : ∀ b ∈ bl, ∀ i ∈ b.1, i < n)
    (hn : (bl.map (fun (b : List Nat × Rat) => b.1)).Nodup) :
    deindex n (bl.map (fun b => (b.1.map (· + 1), b.2))) = .ok bl := by
  have hr : allInRange n (bl.map (fun b => (b.1.map (· + 1), b.2))) = true := by
    simp only [allInRange, List.all_eq_true, List.mem_map, Bool.and_eq_true, decide_eq_true_eq]
    intro x hx j hj
    obtain ⟨b, hb, rfl⟩ := hx
    simp only [List.mem_map] at hj
    obtain ⟨i, hi', rfl⟩ := hj
    have := hi b hb i hi'
    omega
  simp only [deindex, hr, if_true]
  rw [deindexAll_dump bl [] (by simpa using hn)]
  simp

/-! ### assembly -/
theorem dumpLines_shape (d : Doc Weight) :
    dumpLines d = Line.toks [.nat d.cands.length, .nat d.nSeats] ::
      ((withdrawnInds d.cands).map (fun (i : Nat) => Line.toks [.dec (-((i : Rat) + 1))]) ++
        (d.ballots.map dumpVote ++ (Line.toks [.nat 0] ::
          (d.cands.map (fun c => Line.quoted c.1) ++ (match d.title with | some t => [Line.quoted t] | none => []))))) := by
  cases h : d.title <;> simp [dumpLines, h, List.append_assoc]

theorem load_dumpLines (d : Doc Weight) (h : WFdoc d = true) : loadBlt (dumpLines d) = .ok (eraseDoc d) := by
  simp only [WFdoc, Bool.and_eq_true, List.all_eq_true, decide_eq_true_eq] at h
  obtain ⟨hall, hnd⟩ := h
  have hok : ∀ b ∈ d.ballots, weightOK b.2 = true := fun b hb => (hall b hb).2
  have hidx : ∀ b ∈ d.ballots, ∀ i ∈ b.1, i < d.cands.length := fun b hb i hi => by
    have := (hall b hb).1 i hi
    simpa using this
  have hinj : Function.Injective (fun (l : List Nat) => l.map (· + 1)) := by
    intro a b hab
    exact List.map_injective_iff.2 (fun x y hxy => by simpa using hxy) hab
  have hnd1 : (([] : RawBallots).map (fun (a : List Nat × Rat) => a.1)
      ++ d.ballots.map (fun (b : List Nat × Weight) => b.1.map (· + 1))).Nodup := by
    simp only [List.map_nil, List.nil_append]
    have : d.ballots.map (fun (b : List Nat × Weight) => b.1.map (· + 1))
        = (d.ballots.map (·.1)).map (fun l => l.map (· + 1)) := by simp
    rw [this]
    exact hnd.map hinj
  rw [dumpLines_shape]
  simp only [loadBlt, loadBltWith]
  have hh : parseHeader (Line.toks [.nat d.cands.length, .nat d.nSeats]) = .ok (d.cands.length, d.nSeats) := by
    simp [parseHeader, parseNumline, parseItems]
  rw [hh]
  simp only [ok_bind]
  rw [parseBody_withdrawn, parseBody_votes _ _ _ _ _ hok hnd1, parseBody_term]
  simp only [ok_bind, List.nil_append]
  have hnames : d.cands.map (fun c => Line.quoted c.1) = (d.cands.map (·.1)).map Line.quoted := by simp
  have hlen : d.cands.length = (d.cands.map (·.1)).length := by simp
  have hraw : d.ballots.map (fun b => (b.1.map (· + 1), b.2.val))
      = (d.ballots.map (fun b => (b.1, b.2.val))).map (fun (b : List Nat × Rat) => (b.1.map (· + 1), b.2)) := by simp
  have hnd2 : ((d.ballots.map (fun b => (b.1, b.2.val))).map (fun (b : List Nat × Rat) => b.1)).Nodup := by
    have e : ((fun (a : List Nat × Rat) => a.1) ∘ fun (b : List Nat × Weight) => (b.1, b.2.val)) = (fun b => b.1) := rfl
    simp only [List.map_map, e]
    exact hnd
  have hidx2 : ∀ b ∈ d.ballots.map (fun b => (b.1, b.2.val)), ∀ i ∈ b.1, i < d.cands.length := by
    intro b hb i hi
    simp only [List.mem_map] at hb
    obtain ⟨b0, hb0, rfl⟩ := hb
    exact hidx b0 hb0 i hi
  rw [hnames]
  conv => lhs; arg 1; arg 2; rw [hlen]
  rcases parseStrings_dump (d.cands.map (·.1)) d.title with hps | ⟨hnil, hps⟩
  · rw [hps]
    simp only [ok_bind]
    have hgetD : (if (d.cands.map (·.1)).isEmpty then none else some (d.cands.map (·.1))).getD
        (numericCandidates d.cands.length) = d.cands.map (·.1) := by
      cases hc : d.cands with
      | nil => simp [numericCandidates]
      | cons a t => simp
    rw [hgetD, formCandidates_dump, hraw, deindex_dump _ _ hidx2 hnd2]
    simp [eraseDoc]
  · rw [hps]
    simp only [ok_bind]
    have hc : d.cands = [] := by simpa using hnil
    have hgetD : (none : Option (List String)).getD (numericCandidates d.cands.length) = d.cands.map (·.1) := by
      simp [hc, numericCandidates]
    rw [hgetD, formCandidates_dump, hraw, deindex_dump _ _ hidx2 hnd2]
    simp [eraseDoc]



/-! ### the only exception the parser raises is the parse error -/

theorem parseItems_err (a : Bool) : ∀ (ts : List Tok) (i0 : Bool) (e : Err), parseItems a i0 ts = .error e →
    e = Err.parseError
  | [], _, e, h => by simp [parseItems] at h
  | t :: ts, i0, e, h => by
      have step : ∀ (x : Num), (parseItems a false ts >>= fun ys => pure (x :: ys)) = Except.error e →
          e = Err.parseError := by
        intro x hx
        cases hr : parseItems a false ts with
        | error e' => rw [hr] at hx; simp at hx; subst hx; exact parseItems_err a ts false e' hr
        | ok ys => rw [hr] at hx; simp at hx
      cases t with
      | nat n => simp only [parseItems, ok_bind, pure_eq] at h; exact step _ h
      | udigit => simp [parseItems] at h; exact h.symm
      | dec r =>
        simp only [parseItems] at h
        by_cases hc : (i0 && a) = true
        · simp only [hc, if_true, ok_bind, pure_eq] at h; exact step _ h
        · simp [hc] at h; exact h.symm
      | nan => simp [parseItems] at h; exact h.symm
      | bad => simp [parseItems] at h; exact h.symm

theorem parseNumline_err (a : Bool) (l : Line) (e : Err) (h : parseNumline a l = .error e) : e = Err.parseError := by
  cases l with
  | blank => simp [parseNumline] at h
  | quoted s => simp [parseNumline] at h; exact h.symm
  | toks ts => exact parseItems_err a ts true e h

theorem parseHeader_err (l : Line) (e : Err) (h : parseHeader l = .error e) : e = Err.parseError := by
  simp only [parseHeader] at h
  cases hr : parseNumline false l with
  | error e' => rw [hr] at h; simp at h; subst h; exact parseNumline_err _ _ _ hr
  | ok xs =>
    rw [hr] at h
    simp only [ok_bind] at h
    split at h
    · simp at h
    · simp at h; exact h.symm

theorem parseBody_err (op : Bool) : ∀ (ls : List Line) (bs : RawBallots) (wd : List Rat) (seen : Bool) (e : Err),
    parseBody op ls bs wd seen = .error e → e = Err.parseError
  | [], _, _, _, e, h => by simp [parseBody] at h; exact h.symm
  | l :: rest, bs, wd, seen, e, h => by
      simp only [parseBody] at h
      cases hr : parseNumline true l with
      | error e' => rw [hr] at h; simp at h; subst h; exact parseNumline_err _ _ _ hr
      | ok result =>
        rw [hr] at h
        simp only [ok_bind] at h
        cases result with
        | nil => exact parseBody_err op rest bs wd seen e h
        | cons first more =>
          repeat' split at h
          all_goals first
            | (simp at h; done)
            | (simp at h; exact h.symm)
            | exact parseBody_err op rest _ _ _ e h

theorem collectStrings_err : ∀ (ls : List Line) (b : Bool) (acc : List String) (e : Err),
    collectStrings ls b acc = .error e → e = Err.parseError
  | [], _, _, e, h => by simp [collectStrings] at h
  | .quoted s :: rest, b, acc, e, h => by
      simp only [collectStrings] at h
      split at h
      · simp at h; exact h.symm
      · exact collectStrings_err rest b _ e h
  | .blank :: rest, b, acc, e, h => by
      simp only [collectStrings] at h
      exact collectStrings_err rest true acc e h
  | .toks ts :: rest, b, acc, e, h => by
      simp [collectStrings] at h; exact h.symm

theorem parseStrings_err (ls : List Line) (n : Nat) (e : Err) (h : parseStrings ls n = .error e) : e = Err.parseError := by
  simp only [parseStrings] at h
  cases hc : collectStrings ls false [] with
  | error e' => rw [hc] at h; simp at h; subst h; exact collectStrings_err _ _ _ _ hc
  | ok parsed =>
    rw [hc] at h
    simp only [ok_bind] at h
    repeat' split at h
    all_goals first | (simp at h; done) | (simp at h; exact h.symm)

theorem deindex_err (n : Nat) (bs : RawBallots) (e : Err) (h : deindex n bs = .error e) : e = Err.parseError := by
  simp only [deindex] at h
  split at h
  · simp at h
  · simp at h; exact h.symm

/-- every exception `loads` can raise on any token lines, with either setting of `oneplus_weights`, is the parse error -/
theorem loadBltWith_err (op : Bool) (ls : List Line) (e : Err) (h : loadBltWith op ls = .error e) : e = Err.parseError := by
  cases ls with
  | nil => simp [loadBltWith] at h; exact h.symm
  | cons hd rest =>
    simp only [loadBltWith] at h
    cases hh : parseHeader hd with
    | error e' => rw [hh] at h; simp at h; subst h; exact parseHeader_err _ _ hh
    | ok ns =>
      obtain ⟨nC, nS⟩ := ns
      rw [hh] at h
      simp only [ok_bind] at h
      cases hb : parseBody op rest [] [] false with
      | error e' => rw [hb] at h; simp at h; subst h; exact parseBody_err op _ _ _ _ _ hb
      | ok r =>
        obtain ⟨bal, wd, rest'⟩ := r
        rw [hb] at h
        simp only [ok_bind] at h
        cases hs : parseStrings rest' nC with
        | error e' => rw [hs] at h; simp at h; subst h; exact parseStrings_err _ _ _ hs
        | ok r2 =>
          obtain ⟨names?, title⟩ := r2
          rw [hs] at h
          simp only [ok_bind] at h
          cases hd2 : deindex (formCandidates (names?.getD (numericCandidates nC)) wd).length bal with
          | error e' => rw [hd2] at h; simp at h; subst h; exact deindex_err _ _ _ hd2
          | ok tb => rw [hd2] at h; simp at h

theorem loadBlt_err (ls : List Line) (e : Err) (h : loadBlt ls = .error e) : e = Err.parseError :=
  loadBltWith_err false ls e h

/-! ### the writer's refusals -/
theorem wf_not_refused (d : Doc Weight) (h : WFdoc d = true) : d.ballots.any (voteRefused d.cands.length) = false := by
  simp only [WFdoc, Bool.and_eq_true, List.all_eq_true, decide_eq_true_eq] at h
  rw [Bool.eq_false_iff]
  intro hany
  simp only [List.any_eq_true, voteRefused, Bool.or_eq_true, decide_eq_true_eq] at hany
  obtain ⟨b, hb, hr⟩ := hany
  have hb2 := (h.1 b hb)
  rcases hr with hneg | ⟨i, hi, hge⟩
  · have hw := hb2.2
    cases hbw : b.2 with
    | int z =>
      rw [hbw] at hw hneg
      simp only [weightOK, decide_eq_true_eq] at hw
      simp only [Weight.val] at hneg
      have : (0 : Rat) ≤ (z : Rat) := by exact_mod_cast hw
      linarith
    | decimal r dg =>
      rw [hbw] at hw hneg
      simp only [weightOK, Bool.and_eq_true, decide_eq_true_eq] at hw
      simp only [Weight.val] at hneg
      linarith [hw.1]
    | fraction r =>
      rw [hbw] at hw hneg
      simp only [weightOK, decide_eq_true_eq] at hw
      simp only [Weight.val] at hneg
      linarith
  · have := hb2.1 i hi
    omega

theorem load_dump (d : Doc Weight) (h : WFdoc d = true) :
    ∃ ls, dumpBlt d = .ok ls ∧ loadBlt ls = .ok (eraseDoc d) := by
  refine ⟨dumpLines d, ?_, load_dumpLines d h⟩
  simp [dumpBlt, wf_not_refused d h]

/-- a document of the writer's domain that no ballot of which is refused meets the round-trip hypothesis -/
theorem wf_of_not_refused (d : Doc Weight) (hr : WFrepr d = true)
    (hn : d.ballots.any (voteRefused d.cands.length) = false) : WFdoc d = true := by
  simp only [WFrepr, Bool.and_eq_true, List.all_eq_true, decide_eq_true_eq] at hr
  simp only [WFdoc, Bool.and_eq_true, List.all_eq_true, decide_eq_true_eq]
  refine ⟨fun b hb => ?_, hr.2⟩
  have hnb : voteRefused d.cands.length b = false := by
    rw [Bool.eq_false_iff]; intro hx
    have : d.ballots.any (voteRefused d.cands.length) = true := List.any_eq_true.2 ⟨b, hb, hx⟩
    rw [hn] at this; cases this
  simp only [voteRefused, Bool.or_eq_false_iff, decide_eq_false_iff_not, not_lt] at hnb
  obtain ⟨hpos, hidx⟩ := hnb
  refine ⟨fun i hi => ?_, ?_⟩
  · have := List.any_eq_false.1 hidx i hi
    simp only [decide_eq_true_eq, not_le] at this
    simpa using this
  · have hrb := hr.1 b hb
    cases hbw : b.2 with
    | int z =>
      rw [hbw] at hpos
      simp only [Weight.val] at hpos
      simp only [weightOK, decide_eq_true_eq]
      exact_mod_cast hpos
    | decimal r dg =>
      rw [hbw] at hpos hrb
      simp only [Weight.val] at hpos
      simp only [reprOK, Bool.or_eq_true, Bool.not_eq_true', Bool.and_eq_true, decide_eq_true_eq] at hrb
      simp only [weightOK, Bool.and_eq_true, decide_eq_true_eq, Bool.or_eq_true, Bool.not_eq_true']
      refine ⟨hpos, ?_⟩
      rcases hrb with h1 | h2
      · exact Or.inl h1
      · exact Or.inr h2.1
    | fraction r =>
      rw [hbw] at hpos
      simp only [Weight.val] at hpos
      simp only [weightOK, decide_eq_true_eq]
      exact hpos

theorem setBallot_keys : ∀ (acc : List (List Nat × Rat)) (b : List Nat) (w : Rat) (x : List Nat × Rat),
    x ∈ setBallot acc b w → x.1 = b ∨ x ∈ acc
  | [], b, w, x, h => by simp [setBallot] at h; subst h; exact Or.inl rfl
  | (b', w') :: t, b, w, x, h => by
      simp only [setBallot] at h
      split at h
      · rename_i heq
        rcases List.mem_cons.1 h with h1 | h1
        · subst h1; exact Or.inl heq
        · exact Or.inr (List.mem_cons_of_mem _ h1)
      · rcases List.mem_cons.1 h with h1 | h1
        · subst h1; exact Or.inr (List.mem_cons_self)
        · rcases setBallot_keys t b w x h1 with h2 | h2
          · exact Or.inl h2
          · exact Or.inr (List.mem_cons_of_mem _ h2)

theorem deindexAll_valid (n : Nat) : ∀ (bs : RawBallots) (acc : List (List Nat × Rat)),
    allInRange n bs = true → (∀ x ∈ acc, ∀ i ∈ x.1, i < n) → ∀ x ∈ deindexAll bs acc, ∀ i ∈ x.1, i < n
  | [], acc, _, hacc => by simpa [deindexAll] using hacc
  | (b, w) :: t, acc, hr, hacc => by
      simp only [allInRange, List.all_cons, Bool.and_eq_true] at hr
      obtain ⟨hb, ht⟩ := hr
      simp only [deindexAll]
      apply deindexAll_valid n t _ (by simpa [allInRange] using ht)
      intro x hx i hi
      rcases setBallot_keys acc _ w x hx with h1 | h1
      · rw [h1] at hi
        simp only [List.mem_map] at hi
        obtain ⟨j, hj, rfl⟩ := hi
        have := (List.all_eq_true.1 hb) j hj
        simp only [Bool.and_eq_true, decide_eq_true_eq] at this
        omega
      · exact hacc x h1 i hi

theorem formFrom_length' (W : List Rat) (names : List String) : (formCandidates names W).length = names.length := by
  simp [formCandidates, formFrom_length]

/-- a document that is returned never names a candidate outside its own candidate list (no partial / aliased data) -/
theorem loadBlt_valid (ls : List Line) (d : Doc Rat) (h : loadBlt ls = .ok d) :
    ∀ b ∈ d.ballots, ∀ i ∈ b.1, i < d.cands.length := by
  cases ls with
  | nil => simp [loadBlt, loadBltWith] at h
  | cons hd rest =>
    simp only [loadBlt, loadBltWith] at h
    cases hh : parseHeader hd with
    | error e' => rw [hh] at h; simp at h
    | ok ns =>
      obtain ⟨nC, nS⟩ := ns
      rw [hh] at h
      simp only [ok_bind] at h
      cases hb : parseBody false rest [] [] false with
      | error e' => rw [hb] at h; simp at h
      | ok r =>
        obtain ⟨bal, wd, rest'⟩ := r
        rw [hb] at h
        simp only [ok_bind] at h
        cases hs : parseStrings rest' nC with
        | error e' => rw [hs] at h; simp at h
        | ok r2 =>
          obtain ⟨names?, title⟩ := r2
          rw [hs] at h
          simp only [ok_bind] at h
          cases hd2 : deindex (formCandidates (names?.getD (numericCandidates nC)) wd).length bal with
          | error e' => rw [hd2] at h; simp at h
          | ok tb =>
            rw [hd2] at h
            simp at h
            subst h
            simp only [deindex] at hd2
            split at hd2
            · rename_i hr
              simp at hd2
              subst hd2
              exact deindexAll_valid _ bal [] hr (by simp)
            · simp at hd2

/-! ### a written string line is never cut by the comment rule -/

theorem lastQuoteIdx_snoc_quote : ∀ l : List Char, lastQuoteIdx (l ++ ['"']) = some l.length
  | [] => by simp [lastQuoteIdx]
  | c :: t => by simp [lastQuoteIdx, lastQuoteIdx_snoc_quote t]

theorem lstrip_cons_nonws (c : Char) (t : List Char) (h : isWs c = false) : lstrip (c :: t) = c :: t := by
  simp [lstrip, h]

theorem rstrip_snoc_nonws (l : List Char) (c : Char) (h : isWs c = false) : rstrip (l ++ [c]) = l ++ [c] := by
  simp [rstrip, lstrip, h]

theorem cleanLine_strLine (name : List Char) : cleanLineL (strLine name) = strLine name := by
  have hq : isWs '"' = false := by decide
  have e : strLine name = ('"' :: name) ++ ['"'] := rfl
  have e2 : strLine name = '"' :: (name ++ ['"']) := rfl
  have hs : strip (strLine name) = strLine name := by
    unfold strip
    rw [e2, lstrip_cons_nonws _ _ hq, ← e2, e, rstrip_snoc_nonws _ _ hq]
  unfold cleanLineL
  rw [hs]
  unfold cutComment
  rw [e, lastQuoteIdx_snoc_quote]
  simp [hashIdx]

end VL.Blt
