/-
  C10, score family, STAR — part 3: a BRIDGE between the two models of `votelib.evaluate.condorcet.Schulze`:
  the score-side one (`VL.Score.schulze` over `PairCounts`, `Int` counts, candidate set iterated in ascending id order;
  owned by C12) and the Condorcet-side one (`VL.Condorcet.schulze` over `Pairwise`, `Rat` counts, candidates iterated in
  order of first appearance; owned by C05).  On a well-formed table (distinct keys, no self-pairs, non-negative counts)
  they select the same candidates up to `SlotsEquiv`.

  The two loop nests run Floyd-Warshall in different orders; both tables are the max-min path strengths (owners'
  `widestPaths_maxmin`, whose ingredients `pget_widestFold`, `fwInv_fold`, `pathStr_le` are stated for ANY iteration
  order), hence the same map.
-/
import VotelibProofs.Lemmas.PermStar2
import VotelibProofs.Lemmas.PermSchulze
import VotelibProofs.Lemmas.WidestPaths
namespace VL.Perm.Star
open VL VL.Score VL.C10 VL.Appr VL.Condorcet

/-- the score-side table as a Condorcet-side table -/
def toPW (d : PairCounts) : Pairwise := d.map (fun t => (t.1, ((t.2 : Int) : Rat)))

/-- distinct keys, no self-pairs, non-negative counts -/
def PCWF (d : PairCounts) : Prop := (d.map (·.1)).Nodup ∧ (∀ t ∈ d, t.1.1 ≠ t.1.2) ∧ (∀ t ∈ d, 0 ≤ t.2)

instance (d : PairCounts) : Decidable (PCWF d) := by unfold PCWF; infer_instance

theorem keys_toPW (d : PairCounts) : (toPW d).map (·.1) = d.map (·.1) := by
  unfold toPW; rw [List.map_map]; rfl

theorem wf_toPW {d : PairCounts} (h : PCWF d) : Condorcet.WF (toPW d) := by
  refine ⟨by rw [keys_toPW]; exact h.1, ?_, ?_⟩
  · intro e he
    obtain ⟨t, ht, rfl⟩ := List.mem_map.mp he
    exact h.2.1 t ht
  · intro e he
    obtain ⟨t, ht, rfl⟩ := List.mem_map.mp he
    have := h.2.2 t ht
    show (0 : Rat) ≤ ((t.2 : Int) : Rat)
    exact_mod_cast this

theorem pget_toPW (d : PairCounts) (a b : Cand) : pget (toPW d) (a, b) = ((getPair d a b : Int) : Rat) := by
  unfold toPW pget getPair
  induction d with
  | nil => simp
  | cons t ts ih =>
    simp only [List.map_cons, List.find?_cons]
    by_cases h : t.1 = (a, b)
    · simp [h]
    · simp only [h, decide_false]; exact ih

theorem toPW_setPair (d : PairCounts) (a b : Cand) (n : Int) : toPW (setPair d a b n) = pset (toPW d) (a, b) (n : Rat) := by
  unfold toPW
  induction d with
  | nil => rfl
  | cons t ts ih =>
    obtain ⟨q, v⟩ := t
    simp only [setPair, List.map_cons, pset]
    by_cases hq : q = (a, b)
    · simp only [hq, if_true, List.map_cons]
    · simp only [hq, if_false, List.map_cons, ih]

theorem cast_ite_lt (a b x y : Int) :
    (((if a < b then x else y : Int)) : Rat) = if (a : Rat) < (b : Rat) then (x : Rat) else (y : Rat) := by
  simp only [Int.cast_lt]
  split <;> rfl

theorem toPW_step (c1 c2 : Cand) (d : PairCounts) (ca : Cand) : toPW (step c1 c2 d ca) = wpStep c1 c2 (toPW d) ca := by
  unfold step wpStep
  by_cases h : ca ≠ c1 ∧ ca ≠ c2
  · have h' : (ca != c1 && ca != c2) = true := by simpa using h
    rw [if_pos h, if_pos h']
    simp only
    rw [toPW_setPair, pget_toPW, pget_toPW, pget_toPW]
    unfold rmax rmin
    simp only [cast_ite_lt]
  · have h' : ¬ (ca != c1 && ca != c2) = true := by simpa using h
    rw [if_neg h, if_neg h']

theorem toPW_nest (L : List Cand) (d : PairCounts) :
    toPW (nest L d) = L.foldl (fun p1 c1 => L.foldl (fun p2 c2 =>
      if c1 != c2 then L.foldl (wpStep c1 c2) p2 else p2) p1) (toPW d) := by
  unfold nest
  apply foldl_sem
  intro d c1
  apply foldl_sem
  intro d c2
  by_cases h : c1 ≠ c2
  · have h' : (c1 != c2) = true := by simpa using h
    rw [if_pos h, if_pos h']
    exact foldl_sem _ _ _ (toPW_step c1 c2) _ d
  · have h' : ¬ (c1 != c2) = true := by simpa using h
    rw [if_neg h, if_neg h']

/-- the loop nest on the table is the Floyd-Warshall recurrence on maps, whatever the iteration order `L` -/
theorem pget_nest (L : List Cand) (hL : L.Nodup) (d : PairCounts) :
    pget (toPW (nest L d)) = L.foldl (fun F k => fwPhase L k F) (pget (toPW d)) := by
  rw [toPW_nest]
  exact pget_widestFold L hL L (toPW d)

/-! ### the initial table -/

theorem getPair_nonneg' {d : PairCounts} (h : PCWF d) (a b : Cand) : 0 ≤ getPair d a b :=
  getPair_nonneg h.2.2 a b

theorem pget_paths0 {d : PairCounts} (h : PCWF d) : pget (toPW (paths0 d)) = winWeight (toPW d) := by
  funext ⟨x, y⟩
  rw [winWeight_eq (wf_toPW h), pget_toPW, pget_toPW, pget_toPW, getPair_eq (paths0 d), dget_paths0 h.1]
  unfold paths0F
  rw [gp_dget]
  have hxy := getPair_eq d x y
  cases hF : score_dget d (x, y) with
  | none =>
    rw [hF] at hxy
    simp only [Option.getD_none] at hxy ⊢
    rw [hxy]
    have : ¬ ((getPair d y x : Int) : Rat) < ((0 : Int) : Rat) := by
      rw [Int.cast_lt]; exact not_lt.mpr (getPair_nonneg' h y x)
    rw [if_neg this]; simp
  | some v =>
    rw [hF] at hxy
    simp only [Option.getD_some] at hxy ⊢
    rw [hxy]
    simp only [Int.cast_lt]
    split <;> simp

/-! ### keys of the tables -/

theorem foldl_inv_mem {α β : Type} (P : β → Prop) (step : β → α → β) (l : List α)
    (h : ∀ d x, x ∈ l → P d → P (step d x)) : ∀ d : β, P d → P (l.foldl step d) := by
  induction l with
  | nil => intro d hd; exact hd
  | cons x xs ih =>
    intro d hd
    exact ih (fun d y hy => h d y (List.mem_cons_of_mem _ hy)) _ (h d x List.mem_cons_self hd)

theorem mem_allCof {d : PairCounts} {c : Cand} : c ∈ allCof d ↔ ∃ t ∈ d, c = t.1.1 ∨ c = t.1.2 := by
  unfold allCof
  rw [mem_sortDedup, List.mem_flatMap]
  constructor
  · rintro ⟨t, ht, hc⟩
    simp only [List.mem_cons, List.not_mem_nil, or_false] at hc
    exact ⟨t, ht, hc⟩
  · rintro ⟨t, ht, hc⟩
    exact ⟨t, ht, by simpa using hc⟩

theorem mem_candidates_toPW {d : PairCounts} {c : Cand} : c ∈ candidates (toPW d) ↔ c ∈ allCof d := by
  rw [mem_candidates, mem_allCof]
  unfold toPW
  constructor
  · rintro ⟨e, he, hc⟩
    obtain ⟨t, ht, rfl⟩ := List.mem_map.mp he
    exact ⟨t, ht, hc⟩
  · rintro ⟨t, ht, hc⟩
    exact ⟨_, List.mem_map.mpr ⟨t, ht, rfl⟩, hc⟩

theorem mem_pkeys_paths0 {d : PairCounts} (h : (pkeysS d).Nodup) {k : Cand × Cand} (hk : k ∈ pkeysS (paths0 d)) :
    k ∈ pkeysS d := by
  unfold pkeysS at hk ⊢
  rw [← score_dget_isSome] at hk ⊢
  rw [dget_paths0 h] at hk
  unfold paths0F at hk
  cases hF : score_dget d k with
  | none => rw [hF] at hk; simp at hk
  | some v => rfl

/-- every key of the strength table is an ordered pair of distinct candidates -/
theorem keys_table {d : PairCounts} (h : PCWF d) :
    ∀ k ∈ pkeysS (widestPaths d).1, k.1 ∈ allCof d ∧ k.2 ∈ allCof d ∧ k.1 ≠ k.2 := by
  rw [widestPaths_eq]
  simp only
  unfold nest
  have h0 : ∀ k ∈ pkeysS (paths0 d), k.1 ∈ allCof d ∧ k.2 ∈ allCof d ∧ k.1 ≠ k.2 := by
    intro k hk
    have := mem_pkeys_paths0 h.1 hk
    obtain ⟨t, ht, rfl⟩ := List.mem_map.mp this
    exact ⟨mem_allCof.mpr ⟨t, ht, Or.inl rfl⟩, mem_allCof.mpr ⟨t, ht, Or.inr rfl⟩, h.2.1 t ht⟩
  apply foldl_inv_mem (fun p => ∀ k ∈ pkeysS p, k.1 ∈ allCof d ∧ k.2 ∈ allCof d ∧ k.1 ≠ k.2) _ _ _ _ h0
  intro p1 c1 _ hp1
  apply foldl_inv_mem (fun p => ∀ k ∈ pkeysS p, k.1 ∈ allCof d ∧ k.2 ∈ allCof d ∧ k.1 ≠ k.2) _ _ _ _ hp1
  intro p2 c2 hc2 hp2
  split
  · apply foldl_inv_mem (fun p => ∀ k ∈ pkeysS p, k.1 ∈ allCof d ∧ k.2 ∈ allCof d ∧ k.1 ≠ k.2) _ _ _ _ hp2
    intro p3 ca hca hp3
    unfold step
    split
    · rename_i hcond
      intro k hk
      rcases (mem_pkeys_setPair _ _ _ _ _).mp hk with hk' | rfl
      · exact hp3 k hk'
      · exact ⟨hc2, hca, fun e => hcond.2 e.symm⟩
    · exact hp3
  · exact hp2

theorem pget_toPW_of_not_mem {d : PairCounts} {k : Cand × Cand} (h : k ∉ pkeysS d) : pget (toPW d) k = 0 :=
  pget_of_not_mem (by rw [keys_toPW]; exact h)

/-! ### the two strength tables are the same map -/

theorem table_eq {d : PairCounts} (h : PCWF d) :
    pget (toPW (widestPaths d).1) = pget (Condorcet.widestPaths (toPW d)) := by
  have hwf := wf_toPW h
  have hLn : (allCof d).Nodup := sortDedup_nodup _
  -- the invariant of the recurrence in the score-side iteration order
  have hfold : pget (toPW (widestPaths d).1) =
      (allCof d).foldl (fun F k => fwPhase (allCof d) k F) (winWeight (toPW d)) := by
    rw [widestPaths_eq]
    simp only
    rw [pget_nest _ hLn, pget_paths0 h]
  have h0 : FWInv (allCof d) (winWeight (toPW d)) (winWeight (toPW d)) [] :=
    ⟨fun _ => le_refl _, fun a b => PathStr.single a b, by simp⟩
  obtain ⟨P, hP, hinv⟩ := fwInv_fold (allCof d) hLn (fun _ hk => hk) (winWeight (toPW d)) [] (by simp) h0
  rw [← hfold] at hinv
  have hinv' : FWInv (allCof d) (winWeight (toPW d)) (pget (toPW (widestPaths d).1)) (allCof d) :=
    ⟨hinv.ge, hinv.att, fun k hk => hinv.trans k ((hP k).2 (Or.inl hk))⟩
  have hpos : ∀ x y, 0 < winWeight (toPW d) (x, y) → x ∈ allCof d ∧ y ∈ allCof d ∧ x ≠ y := by
    intro x y hxy
    obtain ⟨h1, h2, h3⟩ := winWeight_pos hwf x y hxy
    exact ⟨mem_candidates_toPW.mp h1, mem_candidates_toPW.mp h2, h3⟩
  funext ⟨a, b⟩
  by_cases hab : a = b
  · subst hab
    rw [pget_toPW_of_not_mem, pget_of_not_mem]
    · exact fun hk => widestPaths_no_diag hwf _ hk rfl
    · exact fun hk => (keys_table h _ hk).2.2 rfl
  · by_cases hb : b ∈ allCof d
    · have hb' : b ∈ candidates (toPW d) := mem_candidates_toPW.mpr hb
      obtain ⟨p2, m2⟩ := widestPaths_maxmin hwf hb' hab
      have p1 := hinv'.att a b
      have m1 : ∀ s, PathStr (winWeight (toPW d)) a b s → s ≤ pget (toPW (widestPaths d).1) (a, b) :=
        fun s hs => pathStr_le hinv' (winWeight_nonneg hwf) hpos hs hb hab
      exact le_antisymm (m2 _ p1) (m1 _ p2)
    · rw [pget_toPW_of_not_mem, pget_of_not_mem]
      · exact fun hk => hb (mem_candidates_toPW.mp (widestPaths_keys_in _ _ hk).2)
      · exact fun hk => hb (keys_table h _ hk).2.1

/-! ### the path-win scores -/

theorem getPair_of_not_mem {d : PairCounts} {a b : Cand} (h : (a, b) ∉ pkeysS d) : getPair d a b = 0 := by
  rw [getPair_eq, score_dget_eq_none.mpr h]; rfl

theorem table_cast {d : PairCounts} (h : PCWF d) (a b : Cand) :
    ((getPair (widestPaths d).1 a b : Int) : Rat) = pget (Condorcet.widestPaths (toPW d)) (a, b) := by
  rw [← pget_toPW, table_eq h]

theorem table_nonneg {d : PairCounts} (h : PCWF d) (a b : Cand) : 0 ≤ getPair (widestPaths d).1 a b := by
  have := widestPaths_nonneg (wf_toPW h) (a, b)
  rw [← table_cast h] at this
  exact_mod_cast this

theorem table_nodup (d : PairCounts) : (pkeysS (widestPaths d).1).Nodup := by
  rw [widestPaths_eq]; exact nodup_nest _ _ (nodup_paths0 _)

/-- the winning entries of the score-side table -/
def winEntries (T : PairCounts) : PairCounts := T.filter (fun p => decide (getPair T p.1.2 p.1.1 < p.2))

theorem winIncs_sum (G : Cand → Cand → Int) (T : PairCounts) (c : Cand) :
    (((winIncs G T).filter (fun p => p.1 = c)).map (·.2)).sum =
      (((T.filter (fun p => decide (G p.1.2 p.1.1 < p.2))).filter (fun p => decide (p.1.1 = c))).length : Rat) := by
  unfold winIncs
  induction T with
  | nil => simp
  | cons p ps ih =>
    rw [List.flatMap_cons, List.filter_append, List.map_append, List.sum_append, ih, List.filter_cons]
    by_cases hw : G p.1.2 p.1.1 < p.2
    · simp only [hw, if_true, decide_true, List.filter_cons]
      by_cases h1 : p.1.1 = c
      · by_cases h2 : p.1.2 = c
        · simp [h1, h2]; ring
        · simp [h1, h2]; ring
      · by_cases h2 : p.1.2 = c
        · simp [h1, h2]
        · simp [h1, h2]
    · simp [hw]

theorem seedIncs_sum (d : PairCounts) (c : Cand) : (((seedIncs d).filter (fun p => p.1 = c)).map (·.2)).sum = 0 := by
  apply List.sum_eq_zero
  intro x hx
  obtain ⟨p, hp, rfl⟩ := List.mem_map.mp hx
  have hp' := (List.mem_filter.mp hp).1
  unfold seedIncs at hp'
  obtain ⟨t, _, ht⟩ := List.mem_flatMap.mp hp'
  simp only [List.mem_cons, List.not_mem_nil, or_false] at ht
  rcases ht with rfl | rfl <;> rfl

theorem getD_schulzeScores (d : PairCounts) (c : Cand) :
    getD (schulzeScores d) c 0 =
      (((winEntries (widestPaths d).1).filter (fun p => decide (p.1.1 = c))).length : Rat) := by
  rw [schulzeScores_eq, getD_accum, List.filter_append, List.map_append, List.sum_append, seedIncs_sum, winIncs_sum]
  unfold winEntries
  simp [getD, lookup]

theorem mem_keys_schulzeScores {d : PairCounts} (h : PCWF d) (c : Cand) : c ∈ keys (schulzeScores d) ↔ c ∈ allCof d := by
  rw [schulzeScores_eq, mem_keys_accum]
  simp only [keys, List.map_nil, List.not_mem_nil, false_or, List.mem_append]
  constructor
  · rintro ⟨p, hp | hp, rfl⟩
    · unfold seedIncs at hp
      obtain ⟨t, ht, hpt⟩ := List.mem_flatMap.mp hp
      simp only [List.mem_cons, List.not_mem_nil, or_false] at hpt
      rcases hpt with rfl | rfl
      · exact mem_allCof.mpr ⟨t, ht, Or.inl rfl⟩
      · exact mem_allCof.mpr ⟨t, ht, Or.inr rfl⟩
    · unfold winIncs at hp
      obtain ⟨t, ht, hpt⟩ := List.mem_flatMap.mp hp
      have hk := keys_table h t.1 (List.mem_map.mpr ⟨t, ht, rfl⟩)
      split at hpt
      · simp only [List.mem_cons, List.not_mem_nil, or_false] at hpt
        rcases hpt with rfl | rfl
        · exact hk.1
        · exact hk.2.1
      · cases hpt
  · intro hc
    obtain ⟨t, ht, hct⟩ := mem_allCof.mp hc
    rcases hct with rfl | rfl
    · exact ⟨(t.1.1, 0), Or.inl (List.mem_flatMap.mpr ⟨t, ht, by simp⟩), rfl⟩
    · exact ⟨(t.1.2, 0), Or.inl (List.mem_flatMap.mpr ⟨t, ht, by simp⟩), rfl⟩

/-- the wins of the two tables are the same pairs -/
theorem wins_perm {d : PairCounts} (h : PCWF d) :
    ((winEntries (widestPaths d).1).map (·.1)).Perm (pairwiseWins (Condorcet.widestPaths (toPW d)) false) := by
  have hwf := wf_toPW h
  have hTn := table_nodup d
  apply (List.perm_ext_iff_of_nodup ?_ (nodup_pairwiseWins_of_nodup (widestPaths_nodup hwf.1) false)).mpr
  · rintro ⟨a, b⟩
    rw [mem_wins_widestPaths hwf, ← table_cast h, ← table_cast h, Int.cast_lt]
    unfold winEntries
    simp only [List.mem_map, List.mem_filter, decide_eq_true_eq]
    constructor
    · rintro ⟨p, ⟨hp, hw⟩, hpk⟩
      obtain ⟨⟨x, y⟩, v⟩ := p
      simp only at hpk hw
      injection hpk with h1 h2
      subst h1 h2
      rw [getPair_of_mem hTn hp]
      exact hw
    · intro hw
      have hpos : getPair (widestPaths d).1 a b ≠ 0 := by
        have := table_nonneg h b a
        omega
      have hkey : (a, b) ∈ pkeysS (widestPaths d).1 := by
        by_contra hk
        exact hpos (getPair_of_not_mem hk)
      obtain ⟨p, hp, hpk⟩ := List.mem_map.mp hkey
      obtain ⟨⟨x, y⟩, v⟩ := p
      simp only at hpk
      injection hpk with h1 h2
      subst h1 h2
      refine ⟨((x, y), v), ⟨hp, ?_⟩, rfl⟩
      simp only
      rw [← getPair_of_mem hTn hp]
      exact hw
  · unfold winEntries
    exact hTn.sublist (List.Sublist.map _ List.filter_sublist)

theorem schulzeScores_bridge {d : PairCounts} (h : PCWF d) :
    (schulzeScores d).Perm
      ((pairwiseWins (Condorcet.widestPaths (toPW d)) false).foldl (fun s w => incr (incr s w.1 1) w.2 0)
        ((candidates (toPW d)).map (fun c => (c, (0 : Rat))))) := by
  have hk1 : (keys (schulzeScores d)).Nodup := by
    rw [schulzeScores_eq]; exact nodup_keys_accum _ _ (by simp [keys])
  apply votes_perm_of_getD hk1
  · rw [keys_schulzeScores]; exact nodup_candidates _
  · rw [keys_schulzeScores]
    apply (List.perm_ext_iff_of_nodup hk1 (nodup_candidates _)).mpr
    intro c
    rw [mem_keys_schulzeScores h, mem_candidates_toPW]
  · intro c
    rw [getD_schulzeFold, getD_zeroDict, getD_schulzeScores, zero_add, ← winsBy_perm (wins_perm h) c]
    unfold winsBy
    rw [List.filter_map, List.length_map]
    rfl

end VL.Perm.Star

namespace VL.Perm
open VL VL.Score VL.C10

/-- **The two models of `Schulze.evaluate` agree**: on a table with distinct keys, no self-pairs and non-negative
    counts, the score-side model (used by STAR) and the Condorcet-side model select the same candidates up to
    `SlotsEquiv` (order among equal path-win scores) -/
theorem star_schulze_bridge {d : PairCounts} (h : Star.PCWF d) (n : Nat) :
    SlotsEquiv (Score.schulze d n) (Condorcet.schulze (Star.toPW d) n) := by
  unfold Score.schulze Condorcet.schulze
  exact getNBest_perm _ _ (Star.schulzeScores_bridge h) n

example : Star.PCWF [((0, 1), 3), ((1, 0), 2), ((1, 2), 4), ((2, 1), 1), ((0, 2), 1), ((2, 0), 5)] := by decide +kernel

end VL.Perm
