/-
  `beat_counts` counts pairwise wins; `CondorcetWinner.evaluate` finds the candidate who beats all others.
-/
import VotelibProofs.Lemmas.Pairwise
import Mathlib.Tactic.Ring
namespace VL.Condorcet
open VL

/-- number of wins of `c` in a list of wins -/
def winsBy (wins : List Pair) (c : Cand) : Nat := (wins.filter (fun w => w.1 = c)).length
/-- number of losses of `c` in a list of wins -/
def lossesOf (wins : List Pair) (c : Cand) : Nat := (wins.filter (fun w => w.2 = c)).length

theorem winsBy_cons (w : Pair) (ws : List Pair) (c : Cand) :
    winsBy (w :: ws) c = (if w.1 = c then 1 else 0) + winsBy ws c := by
  unfold winsBy
  by_cases h : w.1 = c <;> simp [List.filter_cons, h, Nat.add_comm]

theorem lossesOf_cons (w : Pair) (ws : List Pair) (c : Cand) :
    lossesOf (w :: ws) c = (if w.2 = c then 1 else 0) + lossesOf ws c := by
  unfold lossesOf
  by_cases h : w.2 = c <;> simp [List.filter_cons, h, Nat.add_comm]

theorem nodup_keys_beatFold (wins : List Pair) (d : Votes) (hd : (keys d).Nodup) :
    (keys (wins.foldl (fun d w => incr d w.1 1) d)).Nodup := by
  induction wins generalizing d with
  | nil => exact hd
  | cons w ws ih => exact ih _ (nodup_keys_incr hd _ _)

theorem lookup_beatFold (wins : List Pair) (d : Votes) (c : Cand) :
    lookup (wins.foldl (fun d w => incr d w.1 1) d) c =
      if winsBy wins c = 0 then lookup d c else some ((lookup d c).getD 0 + (winsBy wins c : Rat)) := by
  induction wins generalizing d with
  | nil => simp [winsBy]
  | cons w ws ih =>
    rw [List.foldl_cons, ih, winsBy_cons, lookup_incr]
    by_cases hw : w.1 = c
    · have hc : c = w.1 := hw.symm
      subst hc
      by_cases h0 : winsBy ws w.1 = 0
      · simp [h0]
      · simp only [h0, if_true, if_false, Option.getD_some]
        have : 1 + winsBy ws w.1 ≠ 0 := by omega
        simp only [this, if_false, Option.some.injEq]
        push_cast
        ring
    · have hc : ¬ c = w.1 := fun h => hw h.symm
      simp [hw, hc]

theorem nodup_keys_beatCounts (v : Pairwise) : (keys (beatCounts v)).Nodup :=
  nodup_keys_beatFold _ [] (by simp [keys])

theorem lookup_beatCounts (v : Pairwise) (c : Cand) :
    lookup (beatCounts v) c =
      if winsBy (pairwiseWins v false) c = 0 then none else some (winsBy (pairwiseWins v false) c : Rat) := by
  unfold beatCounts
  rw [lookup_beatFold]
  simp [lookup_nil]

/-- the losers of `c`'s wins are exactly the candidates `c` beats -/
theorem winsBy_eq_filter {v : Pairwise} (hwf : WF v) (c : Cand) :
    winsBy (pairwiseWins v false) c = ((candidates v).filter (fun o => decide (Beats v c o))).length := by
  have h1 : winsBy (pairwiseWins v false) c =
      (((pairwiseWins v false).filter (fun w => w.1 = c)).map (·.2)).length := by simp [winsBy]
  rw [h1]
  apply List.Perm.length_eq
  rw [List.perm_ext_iff_of_nodup]
  · intro o
    simp only [List.mem_map, List.mem_filter, decide_eq_true_eq]
    constructor
    · rintro ⟨⟨a, b⟩, ⟨hw, ha⟩, hb⟩
      simp only at ha hb
      subst ha; subst hb
      have := (mem_pairwiseWins hwf).1 hw
      exact ⟨(this.mem hwf).2, this⟩
    · rintro ⟨_, hb⟩
      exact ⟨(c, o), ⟨(mem_pairwiseWins hwf).2 hb, rfl⟩, rfl⟩
  · apply List.Nodup.map_on
    · rintro ⟨a, b⟩ ha ⟨a', b'⟩ ha' hbb
      simp only [List.mem_filter, decide_eq_true_eq] at ha ha'
      simp only at hbb
      rw [Prod.mk.injEq]
      exact ⟨ha.2.trans ha'.2.symm, hbb⟩
    · exact (nodup_pairwiseWins hwf false).filter _
  · exact (nodup_candidates v).filter _

/-- in a duplicate-free list, a predicate that fails at `c` holds for `length - 1` members iff it holds
    for all the others -/
theorem filter_length_eq_pred {l : List Cand} (hl : l.Nodup) {c : Cand} (hc : c ∈ l) (P : Cand → Bool)
    (hPc : P c = false) :
    (l.filter P).length + 1 = l.length ↔ ∀ o ∈ l, o ≠ c → P o = true := by
  induction l with
  | nil => simp at hc
  | cons x xs ih =>
    simp only [List.nodup_cons] at hl
    rcases List.mem_cons.1 hc with rfl | hc'
    · -- c is the head
      simp only [List.filter_cons, hPc, Bool.false_eq_true, if_false, List.length_cons, Nat.add_right_cancel_iff,
        List.mem_cons, ne_eq, forall_eq_or_imp, not_true_eq_false, false_imp_iff, true_and]
      constructor
      · intro h o ho _
        have := (List.filter_eq_self (p := P)).1 (List.Sublist.eq_of_length (List.filter_sublist) h)
        exact this o ho
      · intro h
        have : xs.filter P = xs := List.filter_eq_self.2 (fun o ho => h o ho (by rintro rfl; exact hl.1 ho))
        rw [this]
    · have hxc : x ≠ c := by rintro rfl; exact hl.1 hc'
      have ih' := ih hl.2 hc'
      have hle := List.length_filter_le P xs
      cases hPx : P x with
      | true =>
        simp only [List.filter_cons, hPx, if_true, List.length_cons, Nat.add_right_cancel_iff, List.mem_cons, ne_eq,
          forall_eq_or_imp]
        rw [ih']
        simp
      | false =>
        simp only [List.filter_cons, hPx, Bool.false_eq_true, if_false, List.length_cons, List.mem_cons, ne_eq,
          forall_eq_or_imp]
        constructor
        · intro h
          have hlt : (xs.filter P).length < xs.length := by
            by_contra hcon
            have heq : (xs.filter P).length = xs.length := by omega
            have := (List.filter_eq_self (p := P)).1 (List.Sublist.eq_of_length List.filter_sublist heq) c hc'
            rw [hPc] at this
            exact Bool.false_ne_true this
          omega
        · intro h
          exact absurd (h.1 hxc) (by simp)

/-- `c` beats every other candidate -/
def IsCW (v : Pairwise) (c : Cand) : Prop :=
  c ∈ candidates v ∧ ∀ o ∈ candidates v, o ≠ c → Beats v c o

instance (v : Pairwise) (c : Cand) : Decidable (IsCW v c) := by unfold IsCW; infer_instance

theorem IsCW.unique {v : Pairwise} {c c' : Cand} (h : IsCW v c) (h' : IsCW v c') : c = c' := by
  by_contra hne
  exact (h.2 c' h'.1 (fun e => hne e.symm)).asymm (h'.2 c h.1 hne)

/-- a candidate has another candidate next to it (no self-pairs) -/
theorem exists_other {v : Pairwise} (hwf : WF v) {c : Cand} (hc : c ∈ candidates v) :
    ∃ o ∈ candidates v, o ≠ c := by
  obtain ⟨e, he, h⟩ := mem_candidates.1 hc
  rcases h with rfl | rfl
  · exact ⟨e.1.2, snd_mem_candidates he, fun h => hwf.2.1 e he h.symm⟩
  · exact ⟨e.1.1, fst_mem_candidates he, hwf.2.1 e he⟩

theorem isCW_iff_count {v : Pairwise} (hwf : WF v) (c : Cand) :
    IsCW v c ↔ winsBy (pairwiseWins v false) c ≠ 0 ∧
      winsBy (pairwiseWins v false) c + 1 = (candidates v).length := by
  rw [winsBy_eq_filter hwf]
  constructor
  · intro h
    have hc := h.1
    have := (filter_length_eq_pred (nodup_candidates v) hc (fun o => decide (Beats v c o))
      (by simp [Beats])).2 (fun o ho hne => by simpa using h.2 o ho hne)
    refine ⟨?_, this⟩
    obtain ⟨o, ho, hne⟩ := exists_other hwf hc
    have hb := h.2 o ho hne
    intro h0
    have : o ∈ (candidates v).filter (fun o => decide (Beats v c o)) := by
      simp [List.mem_filter, ho, hb]
    rw [List.length_eq_zero_iff.1 h0] at this
    simp at this
  · rintro ⟨h0, h1⟩
    have hc : c ∈ candidates v := by
      obtain ⟨o, ho⟩ := List.exists_mem_of_length_pos (Nat.pos_of_ne_zero h0)
      simp only [List.mem_filter, decide_eq_true_eq] at ho
      exact (ho.2.mem hwf).1
    refine ⟨hc, fun o ho hne => ?_⟩
    have := (filter_length_eq_pred (nodup_candidates v) hc (fun o => decide (Beats v c o))
      (by simp [Beats])).1 h1 o ho hne
    simpa using this

theorem condorcetWinner_find {v : Pairwise} (hwf : WF v) (p : Cand × Rat) (hp : p ∈ beatCounts v)
    (hval : p.2 = ((candidates v).length : Rat) - 1) : IsCW v p.1 := by
  obtain ⟨c, x⟩ := p
  have hl := (mem_iff_lookup (nodup_keys_beatCounts v)).1 hp
  rw [lookup_beatCounts] at hl
  simp only at hval
  by_cases h0 : winsBy (pairwiseWins v false) c = 0
  · simp [h0] at hl
  · simp only [h0, if_false, Option.some.injEq] at hl
    rw [isCW_iff_count hwf]
    refine ⟨h0, ?_⟩
    have : ((winsBy (pairwiseWins v false) c + 1 : Nat) : Rat) = ((candidates v).length : Rat) := by
      push_cast; rw [hl, hval]; ring
    exact_mod_cast this

theorem cw_sound {v : Pairwise} (hwf : WF v) {c : Cand} (h : condorcetWinner v = [c]) : IsCW v c := by
  unfold condorcetWinner at h
  simp only at h
  cases hf : (beatCounts v).find? (fun p => p.2 = ((candidates v).length : Rat) - 1) with
  | none => rw [hf] at h; simp at h
  | some p =>
    rw [hf] at h
    simp only [List.cons.injEq, and_true] at h
    subst h
    have h2 := List.find?_some hf
    simp only [decide_eq_true_eq] at h2
    exact condorcetWinner_find hwf p (List.mem_of_find?_eq_some hf) h2

theorem cw_complete {v : Pairwise} (hwf : WF v) {c : Cand} (h : IsCW v c) : condorcetWinner v = [c] := by
  have hcnt := (isCW_iff_count hwf c).1 h
  have hl : lookup (beatCounts v) c = some (((candidates v).length : Rat) - 1) := by
    rw [lookup_beatCounts]
    simp only [hcnt.1, if_false, Option.some.injEq]
    rw [← hcnt.2]
    push_cast
    ring
  have hmem := (mem_iff_lookup (nodup_keys_beatCounts v)).2 hl
  unfold condorcetWinner
  simp only
  cases hf : (beatCounts v).find? (fun p => p.2 = ((candidates v).length : Rat) - 1) with
  | none =>
    rw [List.find?_eq_none] at hf
    exact absurd (by simp) (hf _ hmem)
  | some p =>
    have h2 := List.find?_some hf
    simp only [decide_eq_true_eq] at h2
    have hcw := condorcetWinner_find hwf p (List.mem_of_find?_eq_some hf) h2
    simp only [List.cons.injEq, and_true]
    exact hcw.unique h

theorem condorcetWinner_shape (v : Pairwise) : condorcetWinner v = [] ∨ ∃ c, condorcetWinner v = [c] := by
  unfold condorcetWinner
  simp only
  cases (beatCounts v).find? (fun p => p.2 = ((candidates v).length : Rat) - 1) with
  | none => exact Or.inl rfl
  | some p => exact Or.inr ⟨p.1, rfl⟩

end VL.Condorcet
