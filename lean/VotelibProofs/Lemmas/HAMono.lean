/-
  House monotonicity of highest averages by simulation: the run for `n+1` seats shadows the run for `n` seats
  (same pool, same totals, one more seat left) until the latter stops, and totals only grow afterwards.
-/
import VotelibProofs.Lemmas.HAStrict
namespace VL
open HACfg

/-- the same election with one more seat in the house -/
def HACfg.succHouse (cfg : HACfg) : HACfg := { cfg with n := cfg.n + 1 }

theorem haStep_tot_mono (cfg : HACfg) (s : HAState) (c : Cand) : s.tot c ≤ (haStep cfg s).tot c := by
  rcases haStep_cases cfg s with ⟨ht, _, _⟩ | ⟨m, _, _, ht, _, _, _⟩
  · rw [ht]
  · rw [ht]; unfold bumpAll; split <;> omega

theorem haLoop_tot_mono (cfg : HACfg) : ∀ (fuel : Nat) (s : HAState) (c : Cand), s.tot c ≤ (haLoop cfg fuel s).tot c := by
  intro fuel
  induction fuel with
  | zero => intro s c; exact le_refl _
  | succ f ih =>
    intro s c
    unfold haLoop
    split
    · exact le_refl _
    · exact le_trans (haStep_tot_mono cfg s c) (ih _ c)

theorem haLoop_stop (cfg : HACfg) (fuel : Nat) (s : HAState) (h : s.rem = 0 ∨ s.pool = []) : haLoop cfg fuel s = s := by
  cases fuel with
  | zero => rfl
  | succ f => unfold haLoop; rw [if_pos h]

theorem natLookup_le_sum (l : List (Cand × Nat)) (c : Cand) : natLookup l c 0 ≤ l.foldl (fun acc p => acc + p.2) 0 := by
  have hgen : ∀ (l : List (Cand × Nat)) (a : Nat), a + natLookup l c 0 ≤ l.foldl (fun acc p => acc + p.2) a := by
    intro l
    induction l with
    | nil => intro a; simp [natLookup]
    | cons x xs ih =>
      intro a
      simp only [List.foldl_cons]
      unfold natLookup
      simp only [List.find?_cons]
      by_cases hx : x.1 = c
      · simp only [hx, decide_true]
        have : a + x.2 ≤ List.foldl (fun acc p => acc + p.2) (a + x.2) xs := by
          have := ih (a + x.2)
          omega
        exact this
      · simp only [hx, decide_false]
        have := ih (a + x.2)
        unfold natLookup at this
        omega
  have := hgen l 0
  omega

theorem prevOf_le_sumPrev (cfg : HACfg) (c : Cand) : cfg.prevOf c ≤ cfg.sumPrev := natLookup_le_sum cfg.prev c

/-- the default cap is the only thing besides `rem` that sees the house size -/
theorem capOf_succHouse (cfg : HACfg) (c : Cand) :
    cfg.succHouse.capOf c = cfg.capOf c ∨ (cfg.capOf c = cfg.n ∧ cfg.succHouse.capOf c = cfg.n + 1) := by
  unfold HACfg.capOf HACfg.succHouse natLookup
  cases cfg.caps.find? (fun p => p.1 = c) with
  | none => right; exact ⟨rfl, rfl⟩
  | some p => left; rfl

theorem cap_cond_eq (cfg : HACfg) (c : Cand) (t : Nat) (ht : t < cfg.n) :
    (t < cfg.succHouse.capOf c) ↔ (t < cfg.capOf c) := by
  rcases capOf_succHouse cfg c with h | ⟨h1, h2⟩
  · rw [h]
  · rw [h1, h2]; omega

/-- a single party's total never exceeds the house size minus the seats still open -/
theorem tot_le_house (cfg : HACfg) (s : HAState) (hi : Inv cfg s) (hsp : cfg.sumPrev ≤ cfg.n) (c : Cand)
    (hc : c ∈ haCands cfg) : s.tot c + s.rem ≤ cfg.n := by
  have hcount := hi.count
  have hterm : s.tot c - cfg.prevOf c ≤ awarded cfg s := by
    unfold awarded
    exact List.single_le_sum (fun _ _ => Nat.zero_le _) _ (List.mem_map.mpr ⟨c, hc, rfl⟩)
  have hp := prevOf_le_sumPrev cfg c
  have hge := hi.ge_prev c
  unfold openSeats at hcount
  omega

structure Shadow (s₁ s₂ : HAState) : Prop where
  tot  : s₂.tot = s₁.tot
  pool : s₂.pool = s₁.pool
  rem  : s₂.rem = s₁.rem + 1

theorem shadow_loop (cfg : HACfg) (h : CfgOK cfg) (hsp : cfg.sumPrev ≤ cfg.n) :
    ∀ (fuel : Nat) (s₁ s₂ : HAState), Inv cfg s₁ → Shadow s₁ s₂ → s₁.rem ≤ fuel →
      ∀ c, (haLoop cfg fuel s₁).tot c ≤ (haLoop cfg.succHouse (fuel + 1) s₂).tot c := by
  intro fuel
  induction fuel with
  | zero =>
    intro s₁ s₂ _ hsh _ c
    have : (haLoop cfg 0 s₁).tot c = s₂.tot c := by rw [hsh.tot]; rfl
    rw [this]; exact haLoop_tot_mono _ _ _ _
  | succ f ih =>
    intro s₁ s₂ hi hsh hfuel c
    by_cases hstop : s₁.rem = 0 ∨ s₁.pool = []
    · rw [haLoop_stop cfg _ s₁ hstop, ← hsh.tot]; exact haLoop_tot_mono _ _ _ _
    · have hrem : s₁.rem ≠ 0 := fun h0 => hstop (Or.inl h0)
      have hpool : s₁.pool ≠ [] := fun h0 => hstop (Or.inr h0)
      have hstop2 : ¬ (s₂.rem = 0 ∨ s₂.pool = []) := by
        rw [hsh.rem, hsh.pool]; intro hh; rcases hh with h0 | h0 <;> [omega; exact hpool h0]
      have e1 : haLoop cfg (f + 1) s₁ = haLoop cfg f (haStep cfg s₁) := by
        conv => lhs; unfold haLoop
        rw [if_neg hstop]
      have e2 : haLoop cfg.succHouse (f + 1 + 1) s₂ = haLoop cfg.succHouse (f + 1) (haStep cfg.succHouse s₂) := by
        conv => lhs; unfold haLoop
        rw [if_neg hstop2]
      rw [e1, e2]
      have hi' := haStep_inv cfg h s₁ hi hrem
      rcases haStep_cases cfg s₁ with ⟨ht, _, hz⟩ | ⟨m, hm, hfit, ht, hr, _, hp⟩
      · -- run 1 stops here (tie): totals unchanged
        have hz' : (haStep cfg s₁).rem = 0 ∨ (haStep cfg s₁).pool = [] := by
          rcases hz with h0 | h0
          · exact Or.inl h0
          · exact absurd h0 hpool
        rw [haLoop_stop cfg _ _ hz', ht, ← hsh.tot]
        exact le_trans (haStep_tot_mono _ s₂ c) (haLoop_tot_mono _ _ _ _)
      · -- the batch fits in run 1, hence in run 2
        rcases haStep_cases cfg.succHouse s₂ with ⟨_, _, hz2⟩ | ⟨m2, hm2, hfit2, ht2, hr2, _, hp2⟩
        · -- impossible: run 2 has more seats left
          exfalso
          rcases hz2 with h0 | h0
          · -- a tie in run 2 means the batch exceeds rem₂ > rem₁
            have : (haStep cfg.succHouse s₂).rem = 0 := h0
            unfold haStep at this
            rw [hsh.pool, hm] at this
            simp only at this
            split at this
            · rename_i hgt; rw [hsh.rem] at hgt; omega
            · simp only at this; rw [hsh.rem] at this; omega
          · rw [hsh.pool] at h0; exact hpool h0
        · have hmm : m = m2 := by
            rw [hsh.pool, hm] at hm2; exact Option.some.inj hm2
          subst hmm
          rw [hsh.pool, hsh.tot] at ht2 hp2
          rw [hsh.pool] at hr2
          by_cases hz1 : (haStep cfg s₁).rem = 0
          · rw [haLoop_stop cfg _ _ (Or.inl hz1), ht, ← ht2]
            exact haLoop_tot_mono _ _ _ _
          · -- both continue: the shadow relation is preserved
            apply ih _ _ hi' ?_ (by rw [hr]; have := haStep_rem_lt cfg s₁ hrem hpool; omega)
            refine ⟨by rw [ht2, ht], ?_, by rw [hr2, hr, hsh.rem]; omega⟩
            rw [hp2, hp]
            congr 1
            apply List.filterMap_congr
            intro d hd
            have hdkey : d ∈ keys cfg.votes := by
              obtain ⟨p, hp', rfl⟩ := List.mem_map.mp hd
              exact hi.pool_key p (List.mem_filter.mp hp').1
            have hle := tot_le_house cfg _ hi' hsp d (mem_haCands_of_key hdkey)
            rw [ht] at hle
            have hlt : bumpAll s₁.tot ((s₁.pool.filter (fun p => p.2 = m)).map (·.1)) d < cfg.n := by
              have : 0 < (haStep cfg s₁).rem := Nat.pos_of_ne_zero hz1
              omega
            have hq : ∀ j, cfg.succHouse.quot d j = cfg.quot d j := fun j => rfl
            by_cases hcnd : bumpAll s₁.tot ((s₁.pool.filter (fun p => p.2 = m)).map (·.1)) d < cfg.capOf d
            · rw [if_pos hcnd, if_pos ((cap_cond_eq cfg d _ hlt).mpr hcnd), hq]
            · rw [if_neg hcnd, if_neg (fun hh => hcnd ((cap_cond_eq cfg d _ hlt).mp hh))]

/-- **House monotonicity.**  Adding a seat to the house never costs any party an individually awarded seat. -/
theorem haSeats_succHouse (cfg : HACfg) (h : CfgOK cfg) (c : Cand) : haSeats cfg c ≤ haSeats cfg.succHouse c := by
  have hprev : cfg.succHouse.prevOf c = cfg.prevOf c := rfl
  unfold haSeats
  rw [hprev]
  apply Nat.sub_le_sub_right
  by_cases hsp : cfg.sumPrev < cfg.n
  · have hshadow : Shadow (haInit cfg) (haInit cfg.succHouse) := by
      refine ⟨rfl, ?_, ?_⟩
      · unfold haInit
        simp only
        apply List.filterMap_congr
        intro p _
        have hlt : cfg.prevOf p.1 < cfg.n := lt_of_le_of_lt (prevOf_le_sumPrev cfg p.1) hsp
        have hpv : cfg.succHouse.prevOf p.1 = cfg.prevOf p.1 := rfl
        have hdv : cfg.succHouse.div = cfg.div := rfl
        rw [hpv, hdv]
        by_cases hcnd : 0 < cfg.div (cfg.prevOf p.1) ∧ cfg.prevOf p.1 < cfg.capOf p.1
        · rw [if_pos hcnd, if_pos ⟨hcnd.1, (cap_cond_eq cfg p.1 _ hlt).mpr hcnd.2⟩]
        · rw [if_neg hcnd, if_neg (fun hh => hcnd ⟨hh.1, (cap_cond_eq cfg p.1 _ hlt).mp hh.2⟩)]
      · show cfg.n + 1 - cfg.sumPrev = cfg.n - cfg.sumPrev + 1
        omega
    have := shadow_loop cfg h (le_of_lt hsp) (haInit cfg).rem _ _ (haInit_inv cfg h) hshadow (le_refl _) c
    unfold haRun
    rw [hshadow.rem]
    exact this
  · -- no seat open in the smaller house: nothing was awarded there
    have hrem : (haInit cfg).rem = 0 := by show cfg.n - cfg.sumPrev = 0; omega
    have : haRun cfg = haInit cfg := by unfold haRun; rw [hrem]; rfl
    rw [this]
    exact le_trans (le_of_eq rfl) ((haRun_inv cfg.succHouse ⟨h.div_pos, h.div_mono, h.vote_nn, h.nodup⟩).ge_prev c)

/-! ### vote monotonicity (exchange argument on the optimality clause) -/

/-- `cfg'` differs from `cfg` only in that party `c` has strictly more votes -/
structure MoreVotes (cfg cfg' : HACfg) (c : Cand) : Prop where
  div   : cfg'.div = cfg.div
  n     : cfg'.n = cfg.n
  prev  : cfg'.prev = cfg.prev
  caps  : cfg'.caps = cfg.caps
  keys  : keys cfg'.votes = keys cfg.votes
  more  : cfg.vote c < cfg'.vote c
  same  : ∀ e, e ≠ c → cfg'.vote e = cfg.vote e

theorem sum_pigeon (L : List Cand) (f g : Cand → Nat) (hsum : (L.map f).sum ≤ (L.map g).sum)
    (c : Cand) (hc : c ∈ L) (hlt : g c < f c) : ∃ e ∈ L, f e < g e := by
  by_contra hno
  have hall : ∀ e ∈ L, g e ≤ f e := by
    intro e he
    by_contra hlt'
    exact hno ⟨e, he, Nat.lt_of_not_ge hlt'⟩
  have := List.sum_lt_sum (f := g) (g := f) hall ⟨c, hc, hlt⟩
  omega

/-- **Vote monotonicity (tie-free form).**  Giving one party more votes while the others keep theirs never lowers
    its individually awarded seats, provided the run with more votes reports no tie.  (Caps are at least the
    previous gains, as in the property's quantifier.) -/
theorem haSeats_more_votes (cfg cfg' : HACfg) (c : Cand) (h : CfgOK cfg) (h' : CfgOK cfg') (hm : MoreVotes cfg cfg' c)
    (hcaps : ∀ e, cfg.prevOf e ≤ cfg.capOf e) (hnotie : (haRun cfg').tie = none) :
    haSeats cfg c ≤ haSeats cfg' c := by
  by_contra hlt
  have hlt : haSeats cfg' c < haSeats cfg c := Nat.lt_of_not_ge hlt
  have hi := haRun_inv cfg h
  have hi' := haRun_inv cfg' h'
  have hprev : ∀ e, cfg'.prevOf e = cfg.prevOf e := fun e => by unfold HACfg.prevOf; rw [hm.prev]
  have hcap : ∀ e, cfg'.capOf e = cfg.capOf e := fun e => by unfold HACfg.capOf; rw [hm.caps, hm.n]
  have hcands : haCands cfg' = haCands cfg := by
    have hk := hm.keys
    unfold VL.keys at hk
    unfold haCands; rw [hm.prev, hk]
  have hopen : openSeats cfg' = openSeats cfg := by unfold openSeats HACfg.sumPrev; rw [hm.n, hm.prev]
  have hquot_e : ∀ e, e ≠ c → ∀ j, cfg'.quot e j = cfg.quot e j := by
    intro e he j; unfold HACfg.quot; rw [hm.same e he, hm.div]
  -- c gained a seat in run cfg, so it is a voted party
  have hckey : c ∈ keys cfg.votes := hi.only_keys c (by unfold haSeats at hlt; omega)
  have hcC : c ∈ haCands cfg := mem_haCands_of_key hckey
  -- c is below its cap in run cfg'
  have hge' := hi'.ge_prev c
  have hge := hi.ge_prev c
  have htc : (haRun cfg).tot c ≤ cfg.capOf c := hi.le_cap c (hcaps c)
  have ht'lt : (haRun cfg').tot c < (haRun cfg).tot c := by
    unfold haSeats at hlt; rw [hprev] at hlt; rw [hprev] at hge'; omega
  have hElig' : Elig0 cfg' c := by
    refine ⟨by rw [hm.keys]; exact hckey, ?_⟩
    rw [hprev, hcap]; rw [hprev] at hge'; omega
  have hroom' : (haRun cfg').tot c < cfg'.capOf c := by rw [hcap]; omega
  -- hence the pool of run cfg' is not empty, all open seats were awarded individually there
  have hrem' : (haRun cfg').rem = 0 := by
    rcases haRun_done cfg' with h0 | h0
    · exact h0
    · have := hi'.pool_all c hElig' hroom'
      rw [h0] at this; simp at this
  have hsum' : ((haCands cfg).map (haSeats cfg')).sum = openSeats cfg := by
    have := hi'.count
    unfold awarded tieSeats at this
    rw [hnotie, hrem', hcands, hopen] at this
    unfold haSeats
    simpa using this
  have hsum : ((haCands cfg).map (haSeats cfg)).sum ≤ openSeats cfg := by
    have := hi.count
    unfold awarded at this
    unfold haSeats
    omega
  obtain ⟨e, heC, hemore⟩ := sum_pigeon (haCands cfg) (haSeats cfg) (haSeats cfg') (by rw [hsum']; exact hsum) c hcC hlt
  have hec : e ≠ c := by rintro rfl; omega
  -- e gained a seat in run cfg' that it does not hold in run cfg
  have hge_e := hi.ge_prev e
  have hge_e' := hi'.ge_prev e
  rw [hprev] at hge_e'
  have hte : (haRun cfg).tot e < (haRun cfg').tot e := by
    unfold haSeats at hemore; rw [hprev] at hemore; omega
  have hekey : e ∈ keys cfg.votes := by
    rw [← hm.keys]; exact hi'.only_keys e (by rw [hprev]; omega)
  have hte'cap : (haRun cfg').tot e ≤ cfg.capOf e := by
    rw [← hcap]; exact hi'.le_cap e (by rw [hprev, hcap]; exact hcaps e)
  have hElig_e : Elig0 cfg e := ⟨hekey, by omega⟩
  -- optimality in run cfg: e waits, seat (c, t-1) is seated
  have hseat_c : (haRun cfg).tot c - 1 < (haRun cfg).tot c := by omega
  obtain ⟨p, hp, hpk⟩ := List.mem_map.mp (hi.pool_all e hElig_e (by omega))
  have ho1 := hi.seated c ((haRun cfg).tot c - 1) (by rw [hprev] at hge'; omega) hseat_c p hp
  rw [hi.pool_q p hp, hpk] at ho1
  -- optimality in run cfg': c waits, seat (e, tot e) is seated
  obtain ⟨p', hp', hpk'⟩ := List.mem_map.mp (hi'.pool_all c hElig' hroom')
  have ho2 := hi'.seated e ((haRun cfg).tot e) (by rw [hprev]; exact hge_e) hte p' hp'
  rw [hi'.pool_q p' hp', hpk', hquot_e e hec] at ho2
  -- c's own quotients: more votes, earlier seat
  have ho3 : cfg'.quot c ((haRun cfg).tot c - 1) ≤ cfg'.quot c ((haRun cfg').tot c) :=
    quot_anti_le h' c (by omega)
  have ho4 : cfg.quot c ((haRun cfg).tot c - 1) < cfg'.quot c ((haRun cfg).tot c - 1) := by
    unfold HACfg.quot
    rw [hm.div]
    exact div_lt_div_of_pos_right hm.more (h.div_pos _)
  linarith

end VL
