/-
  Continuing a highest-averages distribution from a sub-allocation: if the previous gains lie pointwise below
  the from-scratch distribution of the same house, and that distribution has no tie, then previous gains plus
  the seats awarded on top of them ARE the from-scratch distribution (exchange argument on the C01 optimality
  and strict-separation theorems).
-/
import VotelibProofs.Lemmas.OverhangTerm
import Mathlib.Algebra.BigOperators.Group.List.Basic
namespace VL.OH
open VL HACfg

/-- a sum over a duplicate-free index list only depends on the support of the summand -/
theorem sum_eq_of_support (L M : List Cand) (hL : L.Nodup) (hM : M.Nodup) (hsub : ∀ c ∈ M, c ∈ L) (f : Cand → Nat)
    (hz : ∀ c ∈ L, c ∉ M → f c = 0) : (L.map f).sum = (M.map f).sum := by
  have h1 : (L.map f).sum = ((L.filter (fun c => decide (c ∈ M))).map f).sum := by
    clear hsub hL
    induction L with
    | nil => rfl
    | cons x xs ih =>
      have ih' := ih (fun c hc => hz c (List.mem_cons_of_mem _ hc))
      by_cases hx : x ∈ M
      · simp [List.filter_cons, hx, ih']
      · have := hz x List.mem_cons_self hx
        simp [List.filter_cons, hx, ih', this]
  rw [h1]
  apply List.Perm.sum_eq
  apply List.Perm.map
  rw [List.perm_ext_iff_of_nodup (hL.filter _) hM]
  intro c
  simp only [List.mem_filter, decide_eq_true_eq]
  exact ⟨fun h => h.2, fun h => ⟨hsub c h, h⟩⟩

theorem natLookup_cons (x : Cand × Nat) (xs : Seats) (c : Cand) :
    natLookup (x :: xs) c 0 = if x.1 = c then x.2 else natLookup xs c 0 := by
  unfold natLookup
  by_cases h : x.1 = c
  · simp [h]
  · simp [h]

theorem natLookup_zero_of_not_mem (prev : Seats) (c : Cand) (h : c ∉ prev.map (·.1)) : natLookup prev c 0 = 0 := by
  induction prev with
  | nil => rfl
  | cons x xs ih =>
    rw [natLookup_cons]
    simp only [List.map_cons, List.mem_cons, not_or] at h
    rw [if_neg (fun he => h.1 he.symm)]
    exact ih h.2

theorem sumSeats_eq_lookup (prev : Seats) (hnd : (prev.map (·.1)).Nodup) :
    sumSeats prev = ((prev.map (·.1)).map (fun c => natLookup prev c 0)).sum := by
  induction prev with
  | nil => rfl
  | cons x xs ih =>
    rw [List.map_cons, List.nodup_cons] at hnd
    unfold sumSeats at ih ⊢
    simp only [List.map_cons, List.sum_cons]
    rw [natLookup_cons, if_pos rfl, ih hnd.2]
    congr 1
    apply congrArg
    apply List.map_congr_left
    intro c hc
    rw [natLookup_cons]
    have : x.1 ≠ c := fun he => hnd.1 (he ▸ hc)
    rw [if_neg this]

theorem sum_lt_of_le_of_lt (L : List Cand) (f g : Cand → Nat) (hle : ∀ c ∈ L, f c ≤ g c) (c : Cand) (hc : c ∈ L)
    (hlt : f c < g c) : (L.map f).sum < (L.map g).sum := by
  induction L with
  | nil => simp at hc
  | cons x xs ih =>
    simp only [List.map_cons, List.sum_cons]
    have hx := hle x List.mem_cons_self
    have hrest : (xs.map f).sum ≤ (xs.map g).sum := List.sum_le_sum (fun i hi => hle i (List.mem_cons_of_mem _ hi))
    rcases List.mem_cons.mp hc with rfl | hc'
    · omega
    · have := ih (fun i hi => hle i (List.mem_cons_of_mem _ hi)) hc'
      omega

/-- the evaluation that continues from `prev` -/
def cfgP (div : Nat → Rat) (votes : Votes) (N : Nat) (prev : Seats) : HACfg :=
  { div := div, votes := votes, n := N, prev := prev, caps := [] }

/-- **Continuation from a sub-allocation.** -/
theorem ha_continue (div : Nat → Rat) (hd : (∀ k, 0 < div k) ∧ StrictMono div) (votes : Votes)
    (hv : ∀ p ∈ votes, 0 < p.2) (hn : (keys votes).Nodup) (N : Nat) (hN : 0 < N) (prev : Seats)
    (hpn : (prev.map (·.1)).Nodup) (hpool : (haInit (cfgP div votes N prev)).pool ≠ [])
    (hle : ∀ c, natLookup prev c 0 ≤ haSeats (cfgH div votes N) c)
    (htie : (haRun (cfgH div votes N)).tie = none) :
    (∀ c, natLookup prev c 0 + haSeats (cfgP div votes N prev) c = haSeats (cfgH div votes N) c) ∧
    (haRun (cfgP div votes N prev)).tie = none := by
  set c0 := cfgH div votes N with hc0
  set cp := cfgP div votes N prev with hcp
  have hv0 : ∀ p ∈ votes, 0 ≤ p.2 := fun p hp => le_of_lt (hv p hp)
  have hok0 : CfgOK c0 := C01.cfgOK_of_divisor c0 hd hv0 hn
  have hokp : CfgOK cp := C01.cfgOK_of_divisor cp hd hv0 hn
  have hne : votes ≠ [] := by
    intro h0
    apply hpool
    simp [hcp, cfgP, haInit, h0]
  let f : Cand → Nat := haSeats c0
  let a : Cand → Nat := fun c => natLookup prev c 0 + haSeats cp c
  let L := haCands cp
  have hLnd : L.Nodup := haCands_nodup cp
  have hLmem : ∀ c, c ∈ L ↔ c ∈ prev.map (·.1) ∨ c ∈ keys votes := by
    intro c
    show c ∈ dedupC (prev.map (·.1) ++ votes.map (·.1)) ↔ _
    rw [mem_dedupC, List.mem_append]; rfl
  -- Σ_L f = N
  have hf0 : ∀ c, c ∉ keys votes → f c = 0 := by
    intro c hc
    by_contra hne0
    exact hc (C01.ha_only_voted c0 hok0 c (Nat.pos_of_ne_zero hne0))
  have hsumf : (L.map f).sum = N := by
    have h1 := ha_fills c0 hok0 rfl (by simp [sumSeats, hc0, cfgH]) (cfgH_pool_ne div hd.1 votes hne N hN)
    rw [sumDist_haResult] at h1
    have ht0 : tieSeats (haRun c0) = 0 := by unfold tieSeats; rw [htie]
    have h2 : (L.map f).sum = ((haCands c0).map f).sum := by
      apply sum_eq_of_support L (haCands c0) hLnd (haCands_nodup c0)
      · intro c hc
        have : c ∈ keys votes := by
          have : c ∈ dedupC (keys votes) := hc
          exact mem_dedupC.mp this
        exact (hLmem c).mpr (Or.inr this)
      · intro c _ hc
        apply hf0
        intro hk
        exact hc (mem_haCands_of_key hk)
    have h1' : 0 + (((haCands c0).map f).sum + tieSeats (haRun c0)) = N := h1
    rw [h2]; omega
  -- Σ prev = Σ_L prevOf ≤ N
  have hsumprev : sumSeats prev = (L.map (fun c => natLookup prev c 0)).sum := by
    rw [sumSeats_eq_lookup prev hpn]
    symm
    apply sum_eq_of_support L (prev.map (·.1)) hLnd hpn
    · intro c hc; exact (hLmem c).mpr (Or.inl hc)
    · intro c _ hc; exact natLookup_zero_of_not_mem prev c hc
  have hprevle : sumSeats prev ≤ N := by
    rw [hsumprev, ← hsumf]
    exact List.sum_le_sum (fun c _ => hle c)
  -- Σ_L a + tieSeats = N
  have hsuma : (L.map a).sum + tieSeats (haRun cp) = N := by
    have h1 := ha_fills cp hokp rfl hprevle hpool
    rw [sumDist_haResult] at h1
    have hsplit : (L.map a).sum = (L.map (fun c => natLookup prev c 0)).sum + (L.map (haSeats cp)).sum := by
      show (L.map (fun c => natLookup prev c 0 + haSeats cp c)).sum = _
      exact List.sum_map_add
    have hpp : sumSeats cp.prev = sumSeats prev := rfl
    have hnp : cp.n = N := rfl
    rw [hsplit, ← hsumprev]
    show sumSeats prev + ((haCands cp).map (haSeats cp)).sum + tieSeats (haRun cp) = N
    omega
  have hprevOf : ∀ c, cp.prevOf c = natLookup prev c 0 := fun c => rfl
  have hcapp : ∀ c, cp.capOf c = N := fun c => rfl
  have hcap0 : ∀ c, c0.capOf c = N := fun c => rfl
  have hprev0 : ∀ c, c0.prevOf c = 0 := fun c => rfl
  have hquot : ∀ c k, cp.quot c k = c0.quot c k := fun c k => rfl
  have hfN : ∀ c, f c ≤ N := by
    intro c
    by_cases hc : c ∈ L
    · rw [← hsumf]
      exact List.single_le_sum (by simp) _ (List.mem_map.mpr ⟨c, hc, rfl⟩)
    · have : f c = 0 := hf0 c (fun hk => hc ((hLmem c).mpr (Or.inr hk)))
      omega
  have hinL : ∀ c, 0 < a c → c ∈ L := by
    intro c hpos
    rw [hLmem]
    by_cases hp : 0 < natLookup prev c 0
    · left
      by_contra hnot
      rw [natLookup_zero_of_not_mem prev c hnot] at hp
      exact Nat.lt_irrefl 0 hp
    · right
      have : 0 < haSeats cp c := by
        change 0 < natLookup prev c 0 + haSeats cp c at hpos
        omega
      exact C01.ha_only_voted cp hokp c this
  -- Claim A: a ≤ f pointwise
  have hA : ∀ c, a c ≤ f c := by
    intro c
    by_contra hgt
    have hgt' : f c < a c := Nat.lt_of_not_ge hgt
    have hcL : c ∈ L := hinL c (by omega)
    -- some party is short
    have hex : ∃ c' ∈ L, a c' < f c' := by
      by_contra hno
      have hall : ∀ c' ∈ L, f c' ≤ a c' := fun c' hc' => Nat.le_of_not_gt (fun h => hno ⟨c', hc', h⟩)
      have := sum_lt_of_le_of_lt L f a hall c hcL hgt'
      omega
    obtain ⟨c', _, hc'lt⟩ := hex
    have hgain : 0 < haSeats cp c := by
      have := hle c
      change f c < natLookup prev c 0 + haSeats cp c at hgt'
      change natLookup prev c 0 ≤ f c at this
      omega
    have hck : c ∈ keys votes := C01.ha_only_voted cp hokp c hgain
    have hc'k : c' ∈ keys votes := by
      by_contra hnk
      have := hf0 c' hnk
      omega
    -- in the continued run: c' waits, c holds seat number a c
    have h1 : cp.quot c' (a c') ≤ cp.quot c (a c - 1) := by
      have hel : Elig0 cp c' := ⟨hc'k, by
        rw [hprevOf, hcapp]
        have := hfN c'
        change natLookup prev c' 0 + haSeats cp c' < f c' at hc'lt
        omega⟩
      have hroom : cp.prevOf c' + haSeats cp c' < cp.capOf c' := by
        rw [hprevOf, hcapp]
        have := hfN c'
        change natLookup prev c' 0 + haSeats cp c' < f c' at hc'lt
        omega
      have := C01.ha_optimal cp hokp c' hel hroom c (a c - 1)
        (by rw [hprevOf]; have := hle c; show natLookup prev c 0 ≤ natLookup prev c 0 + haSeats cp c - 1; omega)
        (by rw [hprevOf]; show natLookup prev c 0 + haSeats cp c - 1 < natLookup prev c 0 + haSeats cp c; omega)
      rw [hprevOf] at this
      exact this
    -- in the from-scratch run: c waits at index f c, c' holds seat number f c'
    have h2 : c0.quot c (f c) < c0.quot c' (f c' - 1) := by
      have hel : Elig0 c0 c := ⟨hck, by rw [hprev0, hcap0]; exact hN⟩
      have hroom : c0.prevOf c + haSeats c0 c < c0.capOf c := by
        rw [hprev0, hcap0, Nat.zero_add]
        have h3 : a c ≤ N := by
          -- a c ≤ Σ_L a ≤ N
          have : a c ≤ (L.map a).sum := List.single_le_sum (by simp) _ (List.mem_map.mpr ⟨c, hcL, rfl⟩)
          omega
        show f c < N
        omega
      have := C01.ha_strict_separation c0 hd hv hn c hel hroom c' (f c' - 1)
        (by rw [hprev0]; omega) (by rw [hprev0, Nat.zero_add]; show f c' - 1 < f c'; omega)
      rw [hprev0, Nat.zero_add] at this
      exact this
    have h3 : cp.quot c (a c - 1) ≤ cp.quot c (f c) := quot_anti_le hokp c (by omega)
    have h4 : c0.quot c' (f c' - 1) ≤ c0.quot c' (a c') := quot_anti_le hok0 c' (by omega)
    simp only [hquot] at h1 h3
    linarith
  -- no tie in the continued run
  have htp : (haRun cp).tie = none := by
    cases ht : (haRun cp).tie with
    | none => rfl
    | some Tm =>
      exfalso
      obtain ⟨T, m⟩ := Tm
      obtain ⟨hmpos, hmlt, _, q, hT, hq⟩ := C01.ha_tie cp hokp T m ht
      have hi := haRun_inv cp hokp
      obtain ⟨_, _, _, q', _, hTeq⟩ := hi.tie_ok T m ht
      have hTnd : T.Nodup := by rw [hTeq]; exact batch_nodup hi.pool_nd q'
      have hts : tieSeats (haRun cp) = m := by unfold tieSeats; rw [ht]
      -- every member of the tie is short of its from-scratch total
      have hshort : ∀ t ∈ T, a t < f t := by
        intro t ht'
        obtain ⟨helt, hroomt, hqt⟩ := (hT t).mp ht'
        by_contra hnot
        have hat : a t = f t := Nat.le_antisymm (hA t) (Nat.le_of_not_gt hnot)
        -- somebody is short (the tie carries seats)
        have hex : ∃ c' ∈ L, a c' < f c' := by
          by_contra hno
          have hall : ∀ c' ∈ L, f c' ≤ a c' := fun c' hc' => Nat.le_of_not_gt (fun h => hno ⟨c', hc', h⟩)
          have : (L.map f).sum ≤ (L.map a).sum := List.sum_le_sum hall
          omega
        obtain ⟨c', _, hc'lt⟩ := hex
        have hc'k : c' ∈ keys votes := by
          by_contra hnk
          have := hf0 c' hnk
          omega
        have hfc' := hfN c'
        have hel' : Elig0 cp c' := ⟨hc'k, by
          rw [hprevOf, hcapp]
          change natLookup prev c' 0 + haSeats cp c' < f c' at hc'lt
          omega⟩
        have hroom' : C01.finalTot cp c' < cp.capOf c' := by
          rw [C01.finalTot_eq cp hokp, hprevOf, hcapp]
          change natLookup prev c' 0 + haSeats cp c' < f c' at hc'lt
          omega
        have hle' := hq c' hel' hroom'
        rw [C01.finalTot_eq cp hokp, hprevOf] at hle' hqt
        -- t waits in the from-scratch run at index f t = a t, c' is seated there at f c' - 1 ≥ a c'
        have hel0 : Elig0 c0 t := ⟨helt.1, by rw [hprev0, hcap0]; exact hN⟩
        have hroom0 : c0.prevOf t + haSeats c0 t < c0.capOf t := by
          rw [hprev0, hcap0, Nat.zero_add]
          rw [C01.finalTot_eq cp hokp, hprevOf, hcapp] at hroomt
          show f t < N
          change natLookup prev t 0 + haSeats cp t = f t at hat
          omega
        have hsep := C01.ha_strict_separation c0 hd hv hn t hel0 hroom0 c' (f c' - 1)
          (by rw [hprev0]; omega) (by rw [hprev0, Nat.zero_add]; show f c' - 1 < f c'; omega)
        rw [hprev0, Nat.zero_add] at hsep
        have h4 : c0.quot c' (f c' - 1) ≤ c0.quot c' (a c') := quot_anti_le hok0 c' (by omega)
        have hqt' : cp.quot t (a t) = q := hqt
        have hle'' : cp.quot c' (a c') ≤ q := hle'
        rw [hquot] at hqt' hle''
        rw [hat] at hqt'
        have : c0.quot t (haSeats c0 t) = c0.quot t (f t) := rfl
        linarith
      -- so the shortfall is at least |T| > m, but it is exactly m
      have hTL : ∀ t ∈ T, t ∈ L := fun t ht' => (hLmem t).mpr (Or.inr ((hT t).mp ht').1.1)
      have hdef : (L.map (fun c => f c - a c)).sum = m := by
        have : (L.map (fun c => f c - a c)).sum + (L.map a).sum = (L.map f).sum := by
          rw [← List.sum_map_add]
          apply congrArg
          apply List.map_congr_left
          intro c _
          have := hA c
          omega
        omega
      have hge : T.length ≤ (L.map (fun c => f c - a c)).sum := by
        have h1 : (L.map (fun c => f c - a c)).sum = ((L.filter (fun c => decide (c ∈ T))).map (fun c => f c - a c)).sum
            + ((L.filter (fun c => !decide (c ∈ T))).map (fun c => f c - a c)).sum := by
          clear hdef
          induction L with
          | nil => rfl
          | cons x xs ih =>
            by_cases hx : x ∈ T <;> simp [List.filter_cons, hx, ih] <;> omega
        have h2 : T.length ≤ ((L.filter (fun c => decide (c ∈ T))).map (fun c => f c - a c)).sum := by
          have hperm : (L.filter (fun c => decide (c ∈ T))).Perm T := by
            rw [List.perm_ext_iff_of_nodup (hLnd.filter _) hTnd]
            intro c
            simp only [List.mem_filter, decide_eq_true_eq]
            exact ⟨fun h => h.2, fun h => ⟨hTL c h, h⟩⟩
          rw [(hperm.map _).sum_eq]
          have : (T.map (fun _ => 1)).sum ≤ (T.map (fun c => f c - a c)).sum :=
            List.sum_le_sum (fun t ht' => by have := hshort t ht'; omega)
          simpa using this
        omega
      omega
  refine ⟨fun c => ?_, htp⟩
  -- Σ_L a = N = Σ_L f with a ≤ f pointwise
  have hts : tieSeats (haRun cp) = 0 := by unfold tieSeats; rw [htp]
  by_contra hne'
  have hlt : a c < f c := lt_of_le_of_ne (hA c) hne'
  have hcL : c ∈ L := by
    rw [hLmem]; right
    by_contra hnk
    have := hf0 c hnk
    omega
  have := sum_lt_of_le_of_lt L a f (fun c' _ => hA c') c hcL hlt
  omega

theorem two_le_sum (L : List Cand) (hL : L.Nodup) (f : Cand → Nat) (a b : Cand) (ha : a ∈ L) (hb : b ∈ L) (hab : a ≠ b) :
    f a + f b ≤ (L.map f).sum := by
  induction L with
  | nil => simp at ha
  | cons x xs ih =>
    rw [List.nodup_cons] at hL
    simp only [List.map_cons, List.sum_cons]
    rcases List.mem_cons.mp ha with rfl | ha'
    · rcases List.mem_cons.mp hb with rfl | hb'
      · exact absurd rfl hab
      · have : f b ≤ (xs.map f).sum := List.single_le_sum (by simp) _ (List.mem_map.mpr ⟨b, hb', rfl⟩)
        omega
    · rcases List.mem_cons.mp hb with rfl | hb'
      · have : f a ≤ (xs.map f).sum := List.single_le_sum (by simp) _ (List.mem_map.mpr ⟨a, ha', rfl⟩)
        omega
      · have := ih hL.2 ha' hb'
        omega


theorem haEval_ok (div : Nat → Rat) (votes : Votes) (n : Nat) (prev : Seats) (r : Dist)
    (h : haEval div votes n prev [] = .ok r) :
    r = normDist (haResult (cfgP div votes n prev)) ∧ (haInit (cfgP div votes n prev)).pool ≠ [] := by
  unfold haEval highestAverages at h
  split at h
  · simp [Except.map] at h
  · rename_i hpool
    simp only [Except.map, Except.ok.injEq] at h
    exact ⟨h.symm, hpool⟩

theorem distHas_lowestAllowed (prop : Dist) (prev : Seats) (k : Key) :
    distHas (lowestAllowed prop prev) k = distHas prop k := by
  unfold distHas lowestAllowed
  rw [List.any_map]
  rfl


end VL.OH
