/-
  C08 helper lemmas for the composed evaluators `PreConverted(converter, Plurality())` (positional voting, AV, SAV):
  the converter's result is a dict whose keys are exactly the candidates of the votes (C13), and plurality over it
  has the selection shape (C09).
-/
import VotelibProofs.Lemmas.ShapeDefs
import VotelibProofs.Props.C13
import VotelibModel.ShapeCompose
namespace VL.C08
open VL VL.Convert

/-- plurality over a dict whose keys are a duplicate-free enumeration of the same candidates as `U` -/
theorem plurality_over_dict (d : Votes) (U : List Cand) (hU : U.Nodup) (hd : (dkeys d).Nodup)
    (hmem : ∀ k, k ∈ dkeys d ↔ k ∈ U) (n : Nat) (h1 : 1 ≤ n) (hlen : n ≤ U.length) :
    SelShape U n (plurality d n) := by
  have hperm : (dkeys d).Perm U := (List.perm_ext_iff_of_nodup hd hU).mpr hmem
  have hl : d.length = U.length := by
    have := hperm.length_eq
    simpa [dkeys] using this
  have := getNBest_shape d hd n h1 (by omega)
  exact this.mono (fun c hc => (hmem c).mp hc)

/-- ranked ballots as the library accepts them: no candidate twice on a ballot, no empty shared rank -/
def RankedWF (p : RProfile) : Prop := ∀ bw ∈ p, (ballotCands bw.1).Nodup ∧ ∀ it ∈ bw.1, it.cands ≠ []

instance (p : RProfile) : Decidable (RankedWF p) := by unfold RankedWF; infer_instance

theorem length_le_ballotCands (b : Ballot) (h : ∀ it ∈ b, it.cands ≠ []) : b.length ≤ (ballotCands b).length := by
  induction b with
  | nil => simp [ballotCands]
  | cons it rest ih =>
    have hpos : 0 < it.cands.length := List.length_pos_iff.mpr (h it List.mem_cons_self)
    have := ih (fun x hx => h x (List.mem_cons_of_mem _ hx))
    simp only [ballotCands, List.flatMap_cons, List.length_append, List.length_cons] at this ⊢
    omega

/-- every rank scorer except the degenerate `Geometric(0)` accepts every well-formed profile (Borda refuses a ballot
    with more ranks than candidates, which a well-formed ballot cannot have) -/
theorem scorerOK_of_wf (sc : Scorer) (hgeo : sc ≠ .geometric 0) (p : RProfile) (h : RankedWF p) :
    C13.ScorerOK sc (allRankedCandidates p).length p := by
  intro bw hbw
  cases sc with
  | borda base =>
    simp only [scorerAccepts, decide_eq_true_eq]
    obtain ⟨hnd, hne⟩ := h bw hbw
    have h1 := length_le_ballotCands bw.1 hne
    have h2 : (ballotCands bw.1).length ≤ (allRankedCandidates p).length := by
      apply List.Subperm.length_le
      exact List.subperm_of_subset hnd (fun c hc => (mem_allRankedCandidates p c).2 ⟨bw, hbw, hc⟩)
    omega
  | geometric base =>
    cases base with
    | zero => exact absurd rfl hgeo
    | succ b => rfl
  | dowdall => rfl
  | modifiedBorda => rfl
  | fixedTop top => rfl
  | sequence seq => rfl

/-- candidates appearing in an approval profile -/
def approvalCands (p : AProfile) : List Cand := canonSet (p.flatMap (·.1))

theorem mem_dkeys_approvalStep (split : Bool) (acc : Dict Cand) (bw : Approval × Rat) (x : Cand) :
    x ∈ dkeys (approvalStep split acc bw) ↔ x ∈ dkeys acc ∨ x ∈ bw.1 := by
  unfold approvalStep
  generalize (if split then bw.2 / (bw.1.length : Rat) else bw.2) = v
  generalize bw.1 = l
  induction l generalizing acc with
  | nil => simp
  | cons c cs ih =>
    rw [List.foldl_cons, ih, mem_dkeys_addTo, List.mem_cons]; tauto

theorem mem_dkeys_approvalFold (split : Bool) (p : AProfile) : ∀ (acc : Dict Cand) (x : Cand),
    x ∈ dkeys (p.foldl (approvalStep split) acc) ↔ x ∈ dkeys acc ∨ ∃ bw ∈ p, x ∈ bw.1 := by
  induction p with
  | nil => intro acc x; simp
  | cons bw t ih =>
    intro acc x
    rw [List.foldl_cons, ih, mem_dkeys_approvalStep]
    simp only [List.mem_cons, exists_eq_or_imp]; tauto

end VL.C08
