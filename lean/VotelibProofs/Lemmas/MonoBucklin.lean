/-
  C17 helper lemmas: the Bucklin loop (`PreferenceAddition.evaluate` for one seat).
  The running totals after round `j` are the place-based scores with the indicator of the first `j+1` places.
-/
import VotelibProofs.Lemmas.MonoAdditive
namespace VL.Mono
open VL VL.Convert

/-! ### majority filter and the abstract loop -/

/-- `{cand: n for cand, n in sorted_votes(total_votes) if n > majority_quota}` -/
def majOf (tot : Votes) (q : Rat) : Votes := (sortDesc tot).filter (fun e => decide (q < e.2))

/-- the loop over the rounds, abstracted from how the running totals `tots j` (after round `j`) are computed -/
def loopA (tots : Nat → Votes) (q : Rat) : Nat → Nat → List Slot
  | 0, _ => []
  | f + 1, i =>
    if (getNBest (majOf (tots i) q) 1).length = 1 then getNBest (majOf (tots i) q) 1
    else loopA tots q f (i + 1)

theorem sortDesc_eq_nil {d : Votes} : sortDesc d = [] ↔ d = [] := by
  constructor
  · intro h
    have := (sortDesc_perm d).length_eq
    rw [h] at this
    exact List.length_eq_zero_iff.mp this.symm
  · rintro rfl; rfl

theorem getNBest_one_length (d : Votes) : (getNBest d 1).length = 1 ↔ d ≠ [] := by
  rcases getNBest_one_cases d with ⟨hs, h0⟩ | ⟨a, hs, h1⟩ | ⟨a, b, t, hs, _, T, h2⟩ | ⟨a, b, t, hs, _, h3⟩
  · rw [h0, sortDesc_eq_nil.mp hs]; simp
  · rw [h1]; simp only [List.length_cons, List.length_nil, zero_add, true_iff]
    intro h; rw [h] at hs; cases hs
  · rw [h2]; simp only [List.length_cons, List.length_nil, zero_add, true_iff]
    intro h; rw [h] at hs; cases hs
  · rw [h3]; simp only [List.length_cons, List.length_nil, zero_add, true_iff]
    intro h; rw [h] at hs; cases hs

theorem mem_majOf {tot : Votes} {q : Rat} {e : Cand × Rat} : e ∈ majOf tot q ↔ e ∈ tot ∧ q < e.2 := by
  unfold majOf
  rw [List.mem_filter, mem_sortDesc]; simp

theorem nodup_majOf {tot : Votes} (h : (keys tot).Nodup) (q : Rat) : (keys (majOf tot q)).Nodup := by
  have h1 : (keys (sortDesc tot)).Nodup := (keys_perm (sortDesc_perm tot)).nodup_iff.mpr h
  unfold majOf keys at *
  exact h1.sublist (List.filter_sublist.map _)

theorem mem_keys_of_pos {tot : Votes} {c : Cand} (h : 0 < toFun tot c) : c ∈ keys tot := by
  by_contra hc
  have : toFun tot c = 0 := toFun_eq_zero_of_not_mem (by simpa [dkeys, keys] using hc)
  rw [this] at h; exact lt_irrefl _ h

/-- `c` passes the quota -/
theorem above_iff {tot : Votes} (hn : (keys tot).Nodup) {q : Rat} (hq : 0 ≤ q) (c : Cand) :
    (c, toFun tot c) ∈ majOf tot q ↔ q < toFun tot c := by
  rw [mem_majOf]
  constructor
  · exact fun h => h.2
  · intro h
    exact ⟨(mem_iff_toFun hn (mem_keys_of_pos (lt_of_le_of_lt hq h))).mpr rfl, h⟩

theorem majOf_entry {tot : Votes} (hn : (keys tot).Nodup) {q : Rat} {e : Cand × Rat} (h : e ∈ majOf tot q) :
    e.2 = toFun tot e.1 ∧ q < toFun tot e.1 := by
  obtain ⟨h1, h2⟩ := mem_majOf.mp h
  have hk : e.1 ∈ keys tot := List.mem_map.mpr ⟨e, h1, rfl⟩
  have hv : toFun tot e.1 = e.2 := (mem_iff_toFun hn hk).mp (show (e.1, e.2) ∈ tot from h1)
  exact ⟨hv.symm, by rw [hv]; exact h2⟩

/-- the one-seat result of a round is `[w]` iff `w` passes the quota and beats everybody else who does -/
theorem round_sole {tot : Votes} (hn : (keys tot).Nodup) {q : Rat} (hq : 0 ≤ q) (w : Cand) :
    getNBest (majOf tot q) 1 = [Slot.cand w] ↔
      q < toFun tot w ∧ ∀ c, c ≠ w → q < toFun tot c → toFun tot c < toFun tot w := by
  rw [sole_iff _ (nodup_majOf hn q)]
  constructor
  · rintro ⟨x, hwx, hlt⟩
    obtain ⟨hx, hqw⟩ := majOf_entry hn hwx
    simp only at hx hqw
    refine ⟨hqw, fun c hc hqc => ?_⟩
    have := hlt _ ((above_iff hn hq c).mpr hqc) hc
    rw [hx] at this; exact this
  · rintro ⟨hqw, hlt⟩
    refine ⟨toFun tot w, (above_iff hn hq w).mpr hqw, fun e he hew => ?_⟩
    obtain ⟨hx, hqe⟩ := majOf_entry hn he
    rw [hx]; exact hlt e.1 hew hqe

/-- **Abstract Bucklin monotonicity.**  In every round: whoever (other than `w`) passes the new quota passed the
    old one, `w` still passes when it did, and `w` keeps its lead over those who pass.  Then the loop that elected
    `w` alone still elects `w` alone (given at least as many rounds). -/
theorem loopA_mono (tots tots' : Nat → Votes) (q q' : Rat) (w : Cand)
    (hn : ∀ j, (keys (tots j)).Nodup) (hn' : ∀ j, (keys (tots' j)).Nodup) (hq : 0 ≤ q) (hq' : 0 ≤ q')
    (ha : ∀ j y, y ≠ w → q' < toFun (tots' j) y → q < toFun (tots j) y)
    (hb : ∀ j, q < toFun (tots j) w → q' < toFun (tots' j) w)
    (hc : ∀ j y, y ≠ w → q' < toFun (tots' j) y → toFun (tots j) y < toFun (tots j) w →
      toFun (tots' j) y < toFun (tots' j) w) :
    ∀ f f' i, f ≤ f' → loopA tots q f i = [Slot.cand w] → loopA tots' q' f' i = [Slot.cand w] := by
  intro f
  induction f with
  | zero => intro f' i _ h; simp [loopA] at h
  | succ f ih =>
    intro f' i hf h
    obtain ⟨f'', rfl⟩ : ∃ f'', f' = f'' + 1 := ⟨f' - 1, by omega⟩
    unfold loopA at h ⊢
    by_cases hm : (getNBest (majOf (tots i) q) 1).length = 1
    · rw [if_pos hm] at h
      obtain ⟨hqw, hlt⟩ := (round_sole (hn i) hq w).mp h
      have hsole' : getNBest (majOf (tots' i) q') 1 = [Slot.cand w] := by
        rw [round_sole (hn' i) hq' w]
        exact ⟨hb i hqw, fun c hcw hqc => hc i c hcw hqc (hlt c hcw (ha i c hcw hqc))⟩
      rw [if_pos (by rw [hsole']; rfl)]; exact hsole'
    · rw [if_neg hm] at h
      have hempty : majOf (tots i) q = [] := by
        by_contra hne; exact hm ((getNBest_one_length _).mpr hne)
      by_cases hm' : (getNBest (majOf (tots' i) q') 1).length = 1
      · rw [if_pos hm']
        rw [round_sole (hn' i) hq' w]
        have hnone : ∀ c, c ≠ w → ¬ q' < toFun (tots' i) c := by
          intro c hcw hqc
          have := (above_iff (hn i) hq c).mpr (ha i c hcw hqc)
          rw [hempty] at this; simp at this
        refine ⟨?_, fun c hcw hqc => absurd hqc (hnone c hcw)⟩
        have hne : majOf (tots' i) q' ≠ [] := (getNBest_one_length _).mp hm'
        obtain ⟨e, he⟩ := List.exists_mem_of_ne_nil _ hne
        obtain ⟨_, hqe⟩ := majOf_entry (hn' i) he
        by_cases hew : e.1 = w
        · rw [← hew]; exact hqe
        · exact absurd hqe (hnone e.1 hew)
      · rw [if_neg hm']
        exact ih f'' (i + 1) (by omega) h

/-! ### the running totals -/

/-- the candidates standing at place `i` of a ballot -/
def placeCands (b : Ballot) (i : Nat) : List Cand :=
  match b[i]? with
  | some it => it.cands
  | none => []

def roundItems (i : Nat) (bw : Ballot × Rat) : List (Cand × Rat) := (placeCands bw.1 i).map (fun c => (c, bw.2))

theorem bucklinRound_eq (p : RProfile) (i : Nat) (tot : Votes) : bucklinRound p i tot = accum (roundItems i) p tot := by
  unfold bucklinRound accum
  congr 1
  funext t bw
  unfold roundItems placeCands
  cases bw.1[i]? with
  | none => simp
  | some it => simp [List.foldl_map]

theorem toFun_map_const (l : List Cand) (v : Rat) (k : Cand) : toFun (l.map (fun c => (c, v))) k = v * cnt l k := by
  induction l with
  | nil => simp
  | cons a t ih => rw [List.map_cons, toFun_cons, ih, cnt_cons]; simp only; split <;> ring

/-- running totals after round `j` (places `0..j` added) -/
def cum (p : RProfile) : Nat → Votes
  | 0 => bucklinRound p 0 []
  | j + 1 => bucklinRound p (j + 1) (cum p j)

/-- worth 1 for the places `0..j` -/
def indLe (j : Nat) (x : Nat) : Rat := if x ≤ j then 1 else 0

theorem rankScore_add_point (f g : Nat → Rat) (i : Nat) (hg : ∀ x, g x = f x + (if x = i then 1 else 0))
    (r : Nat) (b : Ballot) (k : Cand) :
    rankScore g r b k = rankScore f r b k + (if r ≤ i then cnt (placeCands b (i - r)) k else 0) := by
  induction b generalizing r with
  | nil => simp [rankScore, placeCands]
  | cons it rest ih =>
    simp only [rankScore, ih (r + 1), hg r]
    by_cases h1 : r = i
    · subst h1
      simp [placeCands]; ring
    · by_cases h2 : r < i
      · have e : i - r = (i - (r + 1)) + 1 := by omega
        rw [if_neg h1, if_pos (by omega : r + 1 ≤ i), if_pos (by omega : r ≤ i)]
        have : placeCands (it :: rest) (i - r) = placeCands rest (i - (r + 1)) := by
          unfold placeCands; rw [e]; simp
        rw [this]; ring
      · rw [if_neg h1, if_neg (by omega), if_neg (by omega)]; ring

theorem toFun_cum (p : RProfile) (j : Nat) (k : Cand) :
    toFun (cum p j) k = wsum p (fun b => rankScore (indLe j) 0 b k) := by
  induction j with
  | zero =>
    simp only [cum, bucklinRound_eq, toFun_accum, toFun_nil, zero_add, wsum]
    congr 1
    apply List.map_congr_left
    intro bw _
    rw [rankScore_add_point (fun _ => 0) (indLe 0) 0 (by intro x; simp [indLe]) 0 bw.1 k, rankScore_zero_fn]
    simp [roundItems, toFun_map_const]
  | succ j ih =>
    simp only [cum, bucklinRound_eq, toFun_accum, ih, wsum]
    rw [← List.sum_map_add]
    congr 1
    apply List.map_congr_left
    intro bw _
    rw [rankScore_add_point (indLe j) (indLe (j + 1)) (j + 1) (by
      intro x; unfold indLe
      by_cases h1 : x = j + 1
      · subst h1; simp
      · by_cases h2 : x ≤ j
        · rw [if_pos h2, if_pos (by omega), if_neg h1]; ring
        · rw [if_neg h2, if_neg (by omega), if_neg h1]; ring) 0 bw.1 k]
    simp [roundItems, toFun_map_const]; ring

theorem nodup_cum (p : RProfile) (j : Nat) : (keys (cum p j)).Nodup := by
  induction j with
  | zero => simp only [cum, bucklinRound_eq]; exact nodup_accum _ p (by simp [dkeys])
  | succ j ih => simp only [cum, bucklinRound_eq]; exact nodup_accum _ p ih

theorem bucklinLoop_succ (p : RProfile) (q : Rat) (f i : Nat) (tot : Votes) :
    bucklinLoop p q (f + 1) i tot =
      if (getNBest (majOf (bucklinRound p i tot) q) 1).length = 1 then getNBest (majOf (bucklinRound p i tot) q) 1
      else bucklinLoop p q f (i + 1) (bucklinRound p i tot) := rfl

theorem loopA_succ (tots : Nat → Votes) (q : Rat) (f i : Nat) :
    loopA tots q (f + 1) i =
      if (getNBest (majOf (tots i) q) 1).length = 1 then getNBest (majOf (tots i) q) 1
      else loopA tots q f (i + 1) := rfl

/-- the model loop is the abstract loop over the running totals -/
theorem bucklinLoop_eq (p : RProfile) (q : Rat) (f i : Nat) :
    bucklinLoop p q f (i + 1) (cum p i) = loopA (cum p) q f (i + 1) ∧
    bucklinLoop p q f 0 [] = loopA (cum p) q f 0 := by
  induction f generalizing i with
  | zero => exact ⟨rfl, rfl⟩
  | succ f ih =>
    constructor
    · rw [bucklinLoop_succ, loopA_succ]
      show (if (getNBest (majOf (cum p (i + 1)) q) 1).length = 1 then getNBest (majOf (cum p (i + 1)) q) 1
        else bucklinLoop p q f (i + 1 + 1) (cum p (i + 1))) = _
      rw [(ih (i + 1)).1]
    · rw [bucklinLoop_succ, loopA_succ]
      show (if (getNBest (majOf (cum p 0) q) 1).length = 1 then getNBest (majOf (cum p 0) q) 1
        else bucklinLoop p q f (0 + 1) (cum p 0)) = _
      rw [(ih 0).1]

theorem evalBucklin_eq (p : RProfile) (hp : p ≠ []) :
    evalBucklin p = .ok (loopA (cum p) (sumValues p / 2) (maxLen p) 0) := by
  unfold evalBucklin
  have : p.isEmpty = false := by cases p <;> simp_all
  rw [this]
  simp only [Bool.false_eq_true, ↓reduceIte, Except.ok.injEq]
  exact (bucklinLoop_eq p _ _ 0).2

/-! ### quota and number of rounds -/

theorem sumValues_eq_wsum {κ : Type} (d : Dict κ) : sumValues d = wsum d (fun _ => 1) := by
  have : ∀ (acc : Rat), d.foldl (fun acc kv => acc + kv.2) acc = acc + wsum d (fun _ => 1) := by
    induction d with
    | nil => intro acc; simp
    | cons e t ih => intro acc; rw [List.foldl_cons, ih, wsum_cons]; ring
  unfold sumValues
  rw [this 0]; ring

theorem sumValues_nonneg {κ : Type} (d : Dict κ) (h : ∀ bw ∈ d, 0 ≤ bw.2) : 0 ≤ sumValues d := by
  rw [sumValues_eq_wsum]
  have := wsum_le_wsum (p := d) (f := fun _ => 0) (g := fun _ => 1) h (fun _ _ => by norm_num)
  rw [wsum_zero] at this; exact this

theorem maxLen_foldl (p : RProfile) (m : Nat) :
    (∀ x ∈ dkeys p, x.length ≤ p.foldl (fun m bw => max m bw.1.length) m) ∧ m ≤ p.foldl (fun m bw => max m bw.1.length) m ∧
    ∀ M, m ≤ M → (∀ x ∈ dkeys p, x.length ≤ M) → p.foldl (fun m bw => max m bw.1.length) m ≤ M := by
  induction p generalizing m with
  | nil => simp [dkeys]
  | cons e t ih =>
    obtain ⟨h1, h2, h3⟩ := ih (max m e.1.length)
    simp only [List.foldl_cons, dkeys, List.map_cons, List.mem_cons, forall_eq_or_imp] at *
    refine ⟨⟨le_trans (le_max_right _ _) h2, h1⟩, le_trans (le_max_left _ _) h2, fun M hm hM => ?_⟩
    exact h3 M (max_le hm hM.1) hM.2

theorem le_maxLen {p : RProfile} {x : Ballot} (h : x ∈ dkeys p) : x.length ≤ maxLen p := (maxLen_foldl p 0).1 x h

theorem maxLen_le {p : RProfile} {M : Nat} (h : ∀ x ∈ dkeys p, x.length ≤ M) : maxLen p ≤ M :=
  (maxLen_foldl p 0).2.2 M (Nat.zero_le _) h

theorem length_le_lift {w : Cand} {i : Nat} {b : Ballot} (hnd : (ballotCands b).Nodup) (hok : liftOK w i b = true) :
    b.length ≤ (lift w i b).length := by
  unfold liftOK at hok
  rcases decompose w b with ⟨hwb, hpos⟩ | ⟨b₁, it, b₂, hb, hwit, hwb1, hpos⟩
  · rw [hpos] at hok
    simp only [decide_eq_true_eq] at hok
    have hs : strip w b = b := strip_of_not_mem hwb
    rw [lift_length w i b (by rw [hs]; exact hok), hs]; omega
  · rw [hpos] at hok
    simp only [decide_eq_true_eq] at hok
    subst hb
    have hwb2 : w ∉ ballotCands b₂ := by
      intro h
      rw [ballotCands_append, bc_cons] at hnd
      have h2 := (List.nodup_append.mp hnd).2.1
      exact (List.nodup_append.mp h2).2.2 w hwit w h rfl
    have hs := strip_decomposed (it := it) hwb1 hwb2
    have hl : b₁.length + b₂.length ≤ (strip w (b₁ ++ it :: b₂)).length := by rw [hs]; simp
    rw [lift_length w i _ (by omega)]
    simp only [List.length_append, List.length_cons] at hl ⊢; omega

theorem indLe_nonneg (j x : Nat) : 0 ≤ indLe j x := by unfold indLe; split <;> norm_num

theorem indLe_step (j x : Nat) : indLe j (x + 1) ≤ indLe j x := by
  simp only [indLe]
  by_cases h : x + 1 ≤ j
  · rw [if_pos h, if_pos (by omega)]
  · rw [if_neg h]; split <;> norm_num

theorem indLe_le (j : Nat) {i r : Nat} (h : i ≤ r) : indLe j r ≤ indLe j i := by
  induction r with
  | zero => have : i = 0 := by omega
            subst this; exact le_refl _
  | succ r ih =>
    rcases Nat.eq_or_lt_of_le h with rfl | hlt
    · exact le_refl _
    · exact le_trans (indLe_step j r) (ih (by omega))

/-- per-ballot effect of a lift on the Bucklin running totals: nobody else rises, `w` does not fall -/
theorem lift_cum (j : Nat) (w : Cand) (i : Nat) (b : Ballot) (hnd : (ballotCands b).Nodup) (hok : liftOK w i b = true)
    (y : Cand) (hy : y ≠ w) :
    rankScore (indLe j) 0 (lift w i b) y ≤ rankScore (indLe j) 0 b y ∧
    rankScore (indLe j) 0 b w ≤ rankScore (indLe j) 0 (lift w i b) w := by
  obtain ⟨c', _, hc', h1, h2⟩ := lift_delta_gen (S := fun _ => indLe j) (fun _ x _ => indLe_step j x) w i b hnd hok 0
    (le_refl _)
    (fun _ => ⟨fun x _ => by simp, fun x _ => indLe_step j x,
      fun i r hir _ => by simpa using indLe_le j hir, fun i _ => indLe_nonneg j i⟩) y hy
  have hc0 : c' = 0 := by rcases hc' with h | h <;> exact h
  subst hc0
  unfold bscore at h1 h2
  constructor <;> linarith

/-! ### the default Bucklin on profiles without shared ranks -/

/-- no ballot of the profile has a shared rank -/
def Strict (p : RProfile) : Prop := ∀ b ∈ dkeys p, b.any isShared = false

instance (p : RProfile) : Decidable (Strict p) := by unfold Strict; infer_instance

theorem decouple_of_strict (p : RProfile) (h : Strict p) : decouple p = p := by
  unfold decouple
  have : ∀ (q acc : RProfile), (∀ bw ∈ q, bw.1.any isShared = false) →
      q.foldl (fun nv bw => if bw.1.any isShared then
        (linearize bw.1).foldl (fun nv v => addTo nv v (bw.2 / ((linearize bw.1).length : Rat)))
          (nv.filter (fun e => e.1 ≠ bw.1)) else nv) acc = acc := by
    intro q
    induction q with
    | nil => intro acc _; rfl
    | cons a t ih =>
      intro acc hq
      rw [List.foldl_cons, hq a (by simp)]
      simp only [Bool.false_eq_true, ↓reduceIte]
      exact ih acc (fun bw hbw => hq bw (by simp [hbw]))
  exact this p p (fun bw hbw => h bw.1 (List.mem_map.mpr ⟨bw, hbw, rfl⟩))

theorem strip_strict {w : Cand} {b : Ballot} (h : b.any isShared = false) : (strip w b).any isShared = false := by
  induction b with
  | nil => rfl
  | cons it rest ih =>
    simp only [List.any_cons, Bool.or_eq_false_iff] at h
    cases it with
    | shared cs => simp [isShared] at h
    | one c =>
      by_cases hc : c = w
      · have : strip w (RankItem.one c :: rest) = strip w rest := by simp [strip, stripItem, hc]
        rw [this]; exact ih h.2
      · have : strip w (RankItem.one c :: rest) = RankItem.one c :: strip w rest := by simp [strip, stripItem, hc]
        rw [this, List.any_cons, ih h.2]; rfl

theorem lift_strict {w : Cand} {i : Nat} {b : Ballot} (h : b.any isShared = false) : (lift w i b).any isShared = false := by
  have hs := strip_strict (w := w) h
  unfold lift
  rw [List.any_append, List.any_cons]
  have h1 : ((strip w b).take i).any isShared = false := by
    rw [List.any_eq_false] at hs ⊢
    exact fun x hx => hs x (List.mem_of_mem_take hx)
  have h2 : ((strip w b).drop i).any isShared = false := by
    rw [List.any_eq_false] at hs ⊢
    exact fun x hx => hs x (List.mem_of_mem_drop hx)
  rw [h1, h2]; rfl

theorem strict_replaceUnit {p : RProfile} {w : Cand} {i : Nat} {b : Ballot} (h : Strict p) (hb : b ∈ dkeys p) :
    Strict (replaceUnit p b (lift w i b)) := by
  intro x hx
  rcases mem_dkeys_replaceUnit hx with hx | rfl
  · exact h x hx
  · exact lift_strict (h b hb)

theorem strict_bullet {p : RProfile} (w : Cand) (h : Strict p) : Strict (addTo p [RankItem.one w] 1) := by
  intro x hx
  rcases (mem_dkeys_addTo p _ 1 x).mp hx with hx | rfl
  · exact h x hx
  · rfl

end VL.Mono
