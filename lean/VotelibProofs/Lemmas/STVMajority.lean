/-
  Single-seat transferable vote: a candidate who is first on a majority of the ballots is the winner.
-/
import VotelibProofs.Lemmas.PSC
namespace VL.STV
open VL

theorem pile_le_held {a : Alloc} (hn : NonNeg a) (h : Option Cand) : pileTotal (allocPile a h) ≤ held a := by
  induction a with
  | nil => simp [allocPile]
  | cons y ys ih =>
    obtain ⟨k, p⟩ := y
    have hp : 0 ≤ pileTotal p := pileTotal_nonneg (hn (k, p) List.mem_cons_self)
    have hys : NonNeg ys := fun hp hhp => hn hp (List.mem_cons_of_mem _ hhp)
    have hh : 0 ≤ held ys := by
      have := ih hys
      exact le_trans (pileTotal_nonneg (hys.pile h)) this
    rw [allocPile_cons, held_cons]
    split
    · simp only; linarith
    · have := ih hys; simp only; linarith

theorem two_piles_le_held {a : Alloc} (hk : KeysNodup a) (hn : NonNeg a) {h1 h2 : Option Cand} (hne : h2 ≠ h1) :
    pileTotal (allocPile a h1) + pileTotal (allocPile a h2) ≤ held a := by
  rw [← held_erase hk h1, ← allocPile_erase_ne a hne]
  have := pile_le_held (hn.erase h1) h2
  linarith

theorem maxGet_selector {l : List Cand} {c : Cand} (hc : c ∈ l) : maxGet (l.map (fun c => (c, 1))) c = some 1 := by
  induction l with
  | nil => cases hc
  | cons x xs ih =>
    by_cases hx : x = c
    · simp [maxGet, hx]
    · have : c ∈ xs := by
        rcases List.mem_cons.mp hc with h | h
        · exact absurd h.symm hx
        · exact h
      have ih' := ih this
      simp only [maxGet, List.map_cons, List.find?_cons, hx, decide_false] at ih' ⊢
      exact ih'

theorem emptyWeight_nonneg {votes : Profile} (hwf : WFVotes votes) : 0 ≤ emptyWeight votes := by
  have : emptyWeight votes = pileTotal (votes.filter (fun bw => decide (bw.1 = []))) := rfl
  rw [this]
  exact pileTotal_nonneg (fun x hx => hwf x (List.mem_filter.mp hx).1)

theorem totalVotes_nonneg {votes : Profile} (hwf : WFVotes votes) : 0 ≤ totalVotes votes :=
  pileTotal_nonneg hwf

/-- the invariant of a single-seat run with a majority candidate `c` -/
def MajInv (votes : Profile) (c : Cand) (st : St) : Prop :=
  (st.seats = [] ∧ st.final = false ∧ st.byQuota = 0 ∧ c ∈ continuing st.alloc ∧
      totalVotes votes / 2 < totalOf st.alloc c) ∨ st.seats = [(c, 1)]

/-- with `c` above half of the votes cast, every other continuing candidate is below half -/
theorem others_below_half {cfg : Cfg} {votes : Profile} (hwf : WFVotes votes) {c : Cand} {st : St}
    (hi : StInv cfg (selectorInput votes 1) st) (hf : st.final = false) (hb : st.byQuota = 0)
    (hc : totalVotes votes / 2 < totalOf st.alloc c) {x : Cand} (hx : x ≠ c) :
    totalOf st.alloc x < totalVotes votes / 2 := by
  have hcons := hi.cons hf
  simp only [selectorInput, hb, Nat.cast_zero, mul_zero, add_zero] at hcons
  have h2 := two_piles_le_held (hi.keys hf) (hi.nonneg hwf hf) (h1 := some c) (h2 := some x)
    (by intro e; injection e with e; exact hx e)
  have he := emptyWeight_nonneg hwf
  unfold totalOf at *
  linarith

theorem maj_step {E : Engine} (hE : EngineOK E) {cfg : Cfg} {votes : Profile} (hwf : WFVotes votes) {c : Cand}
    {s : Int} (hstep : cfg.step = some s) (hneg : s < 0)
    (hq : ∀ q, computeQuota cfg (totalVotes votes) 1 = some q → totalVotes votes / 2 ≤ q)
    {st st' : St} (hi : StInv cfg (selectorInput votes 1) st) (hm : MajInv votes c st)
    (h : countStep E cfg (selectorInput votes 1) st = .ok (some st')) : MajInv votes c st' := by
  obtain ⟨hne, out, ds', hnext, _, hadv⟩ := countStep_inv h
  rcases hm with ⟨hs0, hf, hb, hcc, hct⟩ | hs1
  swap
  · exfalso; apply hne; rw [hs1]; simp [selectorInput, sumSeats]
  subst hadv
  have hk := hi.keys hf
  have hnn := hi.nonneg hwf hf
  have hsub := hi.cont_sub
  obtain ⟨hle, hcase⟩ := nextCount_cases hnext
  simp only [selectorInput] at hnext hcase hle hsub
  rw [hs0] at hcase
  cases hcase with
  | shortcut hs he =>
    right
    obtain ⟨_, _, _, _, hel, _⟩ := electAll_spec he
    have hfill := shortcut_fills hs he (by simp [sumSeats])
    simp only [sumSeats_nil, zero_add] at hfill
    -- every continuing candidate is elected with one seat
    have havail : out.elected = ((sortDesc (totalsInPlay st.alloc)).map (·.1)).map (fun x => (x, 1)) := by
      rw [hel]
      simp only [availSeats, List.map_map]
      apply List.map_congr_left
      intro x hx
      have hxc : x.1 ∈ continuing st.alloc := by
        rw [← keys_totalsInPlay]
        exact List.mem_map.mpr ⟨x, mem_sortDesc.mp hx, rfl⟩
      simp [Function.comp_def, maxGet_selector (hsub _ hxc), seatsGet]
    have hlen : ((sortDesc (totalsInPlay st.alloc)).map (·.1)).length = 1 := by
      have : sumSeats out.elected = ((sortDesc (totalsInPlay st.alloc)).map (·.1)).length := by
        rw [havail]
        generalize (sortDesc (totalsInPlay st.alloc)).map (·.1) = l
        induction l with
        | nil => rfl
        | cons y ys ih => simp only [List.map_cons, sumSeats_cons, ih, List.length_cons]; omega
      omega
    have hcm : c ∈ (sortDesc (totalsInPlay st.alloc)).map (·.1) := by
      have : c ∈ (totalsInPlay st.alloc).map (·.1) := by rw [keys_totalsInPlay]; exact hcc
      exact ((sortDesc_perm _).map (·.1)).mem_iff.mpr this
    obtain ⟨y, hy⟩ := List.length_eq_one_iff.mp hlen
    rw [hy] at hcm havail
    simp only [List.mem_singleton] at hcm
    simp only [advance, hs0, havail, hcm, List.map_cons, List.map_nil, seatsAdd, List.foldl_cons, List.foldl_nil,
      seatsAdd1, Nat.zero_add]
  | election qv hqv hpos el hel hnel hout =>
    right
    obtain ⟨_, _, _, _, he1, _, _⟩ := afterElection_inv hout
    obtain ⟨hnd, hfacts⟩ := election_facts hk hpos hel
    have hqge := hq qv hqv
    have hall : ∀ ck ∈ el, ck = (c, 1) := by
      intro ck hck
      obtain ⟨hcont, h1, hqle, hmax⟩ := hfacts ck hck
      have hk1 : ck.2 = 1 := by
        have := hmax 1 (maxGet_selector (hsub _ hcont))
        simp [seatsGet] at this
        omega
      have hc1 : ck.1 = c := by
        by_contra hx
        have := others_below_half hwf hi hf hb hct hx
        rw [hk1] at hqle
        simp only [Nat.cast_one, one_mul] at hqle
        linarith
      exact Prod.ext hc1 hk1
    have hel1 : el = [(c, 1)] := by
      cases el with
      | nil => exact absurd rfl hnel
      | cons x xs =>
        have hx := hall x List.mem_cons_self
        cases xs with
        | nil => rw [hx]
        | cons y ys =>
          exfalso
          have hy := hall y (List.mem_cons_of_mem _ List.mem_cons_self)
          rw [hx, hy] at hnd
          simp at hnd
    simp only [advance, hs0, he1, hel1, seatsAdd, List.foldl_cons, List.foldl_nil, seatsAdd1, Nat.zero_add]
  | elimination _ hout =>
    left
    obtain ⟨retained, hsel, he, htr, he1, he2⟩ := afterElimination_inv hout
    rw [hstep] at hsel
    have hes := elim_spec hneg hsel
    rw [← he] at hes
    have hm' := transferIf_moved hE htr
    have hnd : ((totalsInPlay st.alloc).map (·.1)).Nodup := by rw [keys_totalsInPlay]; exact continuing_nodup hk
    have hckeys : c ∈ (totalsInPlay st.alloc).map (·.1) := by rw [keys_totalsInPlay]; exact hcc
    have hcne : c ∉ out.eliminated := by
      intro hce
      -- somebody is retained
      have hcount := hes.count hnd
      have hpos := retainedCount_pos hneg (totalsInPlay st.alloc).length
      have hlen : 0 < (totalsInPlay st.alloc).length := by
        have := List.length_pos_of_mem hckeys
        simpa using this
      have hlt : out.eliminated.length < ((totalsInPlay st.alloc).map (·.1)).length := by
        rw [List.length_map]; omega
      have : ∃ y ∈ (totalsInPlay st.alloc).map (·.1), y ∉ out.eliminated := by
        by_contra hall
        have hall' : ∀ y ∈ (totalsInPlay st.alloc).map (·.1), y ∈ out.eliminated := by
          intro y hy; by_contra hyn; exact hall ⟨y, hy, hyn⟩
        have hsubl : ((totalsInPlay st.alloc).map (·.1)).length ≤ out.eliminated.length :=
          (List.subperm_of_subset hnd hall').length_le
        omega
      obtain ⟨y, hy, hyn⟩ := this
      obtain ⟨pc, hpc, hpce⟩ := List.mem_map.mp hckeys
      obtain ⟨py, hpy, hpye⟩ := List.mem_map.mp hy
      have hlow := hes.lowest hnd c hce y hy hyn pc.2 py.2 (by rw [← hpce]; exact hpc) (by rw [← hpye]; exact hpy)
      have h1 := totalsInPlay_total hk hpc
      have h2 := totalsInPlay_total hk hpy
      have hyc : y ≠ c := fun e => hyn (e ▸ hce)
      have := others_below_half hwf hi hf hb hct hyc
      unfold totalOf at this hct
      rw [hpce] at h1; rw [hpye] at h2
      rw [← h1] at hct; rw [← h2] at this
      linarith
    refine ⟨?_, ?_, ?_, ?_, ?_⟩
    · simp only [advance, hs0, he1, seatsAdd, List.foldl_nil]
    · simp only [advance, he2]
    · simp only [advance, hb, he2, Bool.false_eq_true, if_false, he1, sumSeats_nil]
    · simp only [advance]
      rw [hm'.cont_eq]
      exact List.mem_filter.mpr ⟨hcc, by simpa using hcne⟩
    · simp only [advance]
      exact lt_of_lt_of_le hct (hm'.grow hnn c hcne)

theorem maj_reach {E : Engine} (hE : EngineOK E) {cfg : Cfg} {votes : Profile} (hwf : WFVotes votes) {c : Cand}
    (hmaj : totalVotes votes / 2 < pileTotal (votes.filter (firstIs c)))
    {s : Int} (hstep : cfg.step = some s) (hneg : s < 0)
    (hq : ∀ q, computeQuota cfg (totalVotes votes) 1 = some q → totalVotes votes / 2 ≤ q)
    {ds : List Draw} {st : St} (hr : Reach E cfg (selectorInput votes 1) ds st) : MajInv votes c st := by
  induction hr with
  | init h =>
    obtain ⟨_, hf, hs, hb⟩ := initState_inv (cfg := cfg) hE h
    unfold initState at h
    split at h
    · cases h
    · rename_i a ds' hinit
      injection h with h; subst h
      have hi := init_inv hE hinit
      left
      have hpos : 0 < pileTotal (votes.filter (firstIs c)) :=
        lt_of_le_of_lt (by have := totalVotes_nonneg hwf; linarith) hmaj
      have hcm : c ∈ allRanked votes := by
        cases hfl : votes.filter (firstIs c) with
        | nil => rw [hfl] at hpos; simp at hpos
        | cons bw rest =>
          have hbw : bw ∈ votes.filter (firstIs c) := by rw [hfl]; exact List.mem_cons_self
          obtain ⟨hbv, hfi⟩ := List.mem_filter.mp hbw
          unfold firstIs at hfi
          split at hfi
          · rename_i c' more hb
            have : c' = c := by simpa using hfi
            exact first_mem_allRanked hbv (this ▸ hb)
          · cases hfi
      refine ⟨rfl, rfl, rfl, by simp only; rw [hi.cont_eq]; exact hcm, ?_⟩
      exact lt_of_lt_of_le hmaj (hi.grow hwf c hcm)
  | step hr' h ih => exact maj_step hE hwf hstep hneg hq (reach_inv hE hr') ih h

end VL.STV
