/-
  C17 helper lemmas: the approval / score-sum accumulations as instances of `Additive`, the moves `approve` and
  `raiseScore`, and small facts used by the property theorems of Props/C17.lean.
-/
import VotelibProofs.Lemmas.MonoAdditive
import VotelibProofs.Lemmas.MonoBucklin
import VotelibProofs.Lemmas.MonoBridge
namespace VL.Mono
open VL VL.Convert

/-- what one approval ballot contributes -/
def approvalItems (bw : Approval × Rat) : List (Cand × Rat) := bw.1.map (fun c => (c, bw.2))

theorem approval_additive : Additive approvalItems (fun b k => cnt b k) (fun b => b) := by
  refine ⟨fun bw k => ?_, fun bw k => by simp [approvalItems, dkeys, List.map_map, Function.comp_def]⟩
  obtain ⟨b, v⟩ := bw
  simp only [approvalItems]
  induction b with
  | nil => simp
  | cons a t ih => rw [List.map_cons, toFun_cons, ih, cnt_cons]; simp only; split <;> ring

theorem evalApproval_eq (p : AProfile) : evalApproval p = .ok (getNBest (accum approvalItems p []) 1) := by
  unfold evalApproval
  rw [approvalToSimple_eq_ok false p (by simp)]
  simp only [Except.ok.injEq]
  congr 1
  unfold accum
  congr 1
  funext agg bw
  simp [approvalStep, approvalItems, List.foldl_map]

theorem cnt_approve (w : Cand) (b : Approval) (k : Cand) (hw : w ∉ b) :
    cnt (approve w b) k = cnt b k + (if w = k then 1 else 0) := by
  induction b with
  | nil => simp [approve, cnt_cons]
  | cons c cs ih =>
    have hwc : w ≠ c := fun h => hw (by simp [h])
    have hwcs : w ∉ cs := fun h => hw (by simp [h])
    by_cases h1 : w < c
    · simp only [approve, if_pos h1]
      rw [cnt_cons]; ring
    · simp only [approve, if_neg h1, if_neg hwc]
      rw [cnt_cons, cnt_cons, ih hwcs]; ring

theorem mem_approve (w : Cand) (b : Approval) (k : Cand) : k ∈ approve w b ↔ k = w ∨ k ∈ b := by
  induction b with
  | nil => simp [approve]
  | cons c cs ih =>
    simp only [approve]
    split
    · simp
    · split
      · rename_i h; subst h; simp
      · simp only [List.mem_cons, ih]; tauto


def scoreItems (bw : ScoreBallot × Rat) : List (Cand × Rat) := bw.1.map (fun cs => (cs.1, bw.2 * cs.2))

theorem score_additive : Additive scoreItems (fun b k => toFun b k) (fun b => dkeys b) := by
  refine ⟨fun bw k => ?_, fun bw k => by simp [scoreItems, dkeys, List.map_map, Function.comp_def]⟩
  obtain ⟨b, v⟩ := bw
  simp only [scoreItems]
  induction b with
  | nil => simp
  | cons a t ih => rw [List.map_cons, toFun_cons, toFun_cons, ih]; simp only; split <;> ring

theorem evalScoreSum_eq (p : SProfile) : evalScoreSum p = getNBest (accum scoreItems p []) 1 := by
  unfold evalScoreSum scoreSum accum
  congr 2
  funext agg bw
  simp [scoreItems, List.foldl_map]

/-- a score ballot in canonical form: candidates strictly ascending (a frozenset of (candidate, score) pairs
    scoring every candidate at most once) -/
def ScoreBallotOK (b : ScoreBallot) : Prop := (dkeys b).Pairwise (· < ·)

theorem toFun_raiseScore (w : Cand) (s : Rat) (b : ScoreBallot) (hb : ScoreBallotOK b) (k : Cand) :
    toFun (raiseScore w s b) k = if k = w then s else toFun b k := by
  induction b with
  | nil =>
    simp only [raiseScore, toFun_cons, toFun_nil]
    by_cases h : k = w
    · rw [if_pos h.symm, if_pos h]; ring
    · rw [if_neg (fun h' => h h'.symm), if_neg h]; ring
  | cons e rest ih =>
    obtain ⟨c, x⟩ := e
    unfold ScoreBallotOK at hb ih
    simp only [dkeys, List.map_cons, List.pairwise_cons] at hb ih
    obtain ⟨hlt, hrest⟩ := hb
    simp only [raiseScore]
    by_cases h1 : w < c
    · rw [if_pos h1, toFun_cons]
      simp only
      by_cases hk : k = w
      · subst hk
        rw [if_pos rfl, if_pos rfl]
        have : toFun ((c, x) :: rest) k = 0 := by
          apply toFun_eq_zero_of_not_mem
          simp only [dkeys, List.map_cons, List.mem_cons, not_or]
          refine ⟨fun h => ?_, fun hm => ?_⟩
          · rw [h] at h1; exact lt_irrefl _ h1
          · exact lt_asymm h1 (hlt k hm)
        rw [this]; ring
      · rw [if_neg (fun h => hk h.symm), if_neg hk]; ring
    · rw [if_neg h1]
      by_cases h2 : w = c
      · subst h2
        rw [if_pos rfl, toFun_cons, toFun_cons]
        simp only
        by_cases hk : k = w
        · subst hk
          have : toFun rest k = 0 := by
            apply toFun_eq_zero_of_not_mem
            intro hm
            exact lt_irrefl _ (hlt k hm)
          rw [if_pos rfl, if_pos rfl, this]; ring
        · rw [if_neg (fun h => hk h.symm), if_neg hk, if_neg (fun h => hk h.symm)]
      · rw [if_neg h2, toFun_cons, toFun_cons, ih hrest]
        simp only
        by_cases hk : k = w
        · subst hk
          rw [if_neg (fun h => h2 h.symm), if_pos rfl, if_pos rfl]; ring
        · rw [if_neg hk, if_neg hk]

theorem mem_dkeys_raiseScore (w : Cand) (s : Rat) (b : ScoreBallot) (k : Cand) :
    k ∈ dkeys (raiseScore w s b) ↔ k = w ∨ k ∈ dkeys b := by
  induction b with
  | nil => simp [raiseScore, dkeys]
  | cons e rest ih =>
    obtain ⟨c, x⟩ := e
    simp only [raiseScore]
    split
    · simp [dkeys]
    · split
      · rename_i h; subst h; simp [dkeys]
      · simp only [dkeys, List.map_cons, List.mem_cons] at ih ⊢
        rw [ih]; tauto


theorem ne_nil_of_mem_dkeys {κ : Type} {p : Dict κ} {b : κ} (h : b ∈ dkeys p) : p ≠ [] := by
  rintro rfl; simp [dkeys] at h

theorem addTo_ne_nil {κ : Type} [DecidableEq κ] (p : Dict κ) (b : κ) (v : Rat) : addTo p b v ≠ [] := by
  cases p with
  | nil => simp [addTo]
  | cons e t => obtain ⟨k, x⟩ := e; simp only [addTo]; split <;> simp


theorem mem_candidates_of_copeland {p : RProfile} {w : Cand} (h : evalCopeland false p = [Slot.cand w]) :
    w ∈ Condorcet.candidates (pairwiseOf p) := by
  have h0 : getNBest (Condorcet.seededScores (pairwiseOf p)
      (Condorcet.copelandScoresRaw (Condorcet.pairwiseWins (pairwiseOf p) false))) 1 = [Slot.cand w] := by
    unfold evalCopeland Condorcet.copeland at h; simpa using h
  have hn : (keys (Condorcet.seededScores (pairwiseOf p)
      (Condorcet.copelandScoresRaw (Condorcet.pairwiseWins (pairwiseOf p) false)))).Nodup := by
    rw [keys_seeded]; exact Condorcet.nodup_candidates _
  rw [sole_iff _ hn, soleMax_iff _ hn, keys_seeded] at h0
  exact h0.1


theorem mem_candidates_of_minimax {sc : Condorcet.Scorer} {p : RProfile} {w : Cand} (hp : ProfileOK p)
    (h : evalMinimax sc p = [Slot.cand w]) : w ∈ Condorcet.candidates (pairwiseOf p) := by
  unfold evalMinimax at h
  rw [minimax_eq_worst sc _ (wf_pairwiseOf p hp).1] at h
  have hn : (keys ((Condorcet.candidates (pairwiseOf p)).map
      (fun c => (c, -(Condorcet.worstDefeat sc (pairwiseOf p) c))))).Nodup := by
    rw [keys_worstTable]; exact Condorcet.nodup_candidates _
  rw [sole_iff _ hn, soleMax_iff _ hn, keys_worstTable] at h
  exact h.1


/-! ### score-sum with a numeric `unscored_value` -/

theorem scoreSum_eq_accum (p : SProfile) : scoreSum p = accum scoreItems p [] := by
  unfold scoreSum accum
  congr 1
  funext agg bw
  simp [scoreItems, List.foldl_map]

def swItems (bw : ScoreBallot × Rat) : List (Cand × Rat) := bw.1.map (fun cs => (cs.1, bw.2))

theorem scoredWeight_eq_accum (p : SProfile) : scoredWeight p = accum swItems p [] := by
  unfold scoredWeight accum
  congr 1
  funext agg bw
  simp [swItems, List.foldl_map]

/-- 1 if the ballot scores `c` -/
def scoresInd (b : ScoreBallot) (c : Cand) : Rat := if c ∈ dkeys b then 1 else 0

theorem toFun_map_weight (b : ScoreBallot) (v : Rat) (c : Cand) (hnd : (b.map (·.1)).Nodup) :
    toFun (b.map (fun cs => (cs.1, v))) c = v * (if c ∈ b.map (·.1) then 1 else 0) := by
  induction b with
  | nil => simp
  | cons a t ih =>
    simp only [List.map_cons, List.nodup_cons] at hnd
    rw [List.map_cons, toFun_cons, ih hnd.2]
    by_cases h : a.1 = c
    · subst h
      simp [hnd.1]
    · have h' : ¬ c = a.1 := fun e => h e.symm
      by_cases h2 : c ∈ t.map (·.1)
      · simp [h, h2]
      · simp [h, h', h2]

theorem toFun_swItems (bw : ScoreBallot × Rat) (hb : ScoreBallotOK bw.1) (c : Cand) :
    toFun (swItems bw) c = bw.2 * scoresInd bw.1 c := by
  have hnd : (bw.1.map (·.1)).Nodup := by
    unfold ScoreBallotOK dkeys at hb
    exact hb.imp (fun h => Nat.ne_of_lt h)
  exact toFun_map_weight bw.1 bw.2 c hnd

theorem getD_eq_toFun (d : Votes) (hn : (keys d).Nodup) (c : Cand) : getD d c 0 = toFun d c := by
  induction d with
  | nil => simp [getD, lookup]
  | cons e t ih =>
    obtain ⟨a, x⟩ := e
    simp only [keys, List.map_cons, List.nodup_cons] at hn
    rw [toFun_cons]
    unfold getD at ih ⊢
    rw [Condorcet.lookup_cons]
    by_cases h : a = c
    · subst h
      have : toFun t a = 0 := toFun_eq_zero_of_not_mem (by simpa [dkeys] using hn.1)
      simp [this]
    · simp only [h, if_false]
      rw [ih hn.2]; ring

theorem toFun_map_add (d : Votes) (hn : (keys d).Nodup) (g : Cand → Rat) (c : Cand) (hc : c ∈ keys d) :
    toFun (d.map (fun e => (e.1, e.2 + g e.1))) c = toFun d c + g c := by
  induction d with
  | nil => simp [keys] at hc
  | cons e t ih =>
    simp only [keys, List.map_cons, List.nodup_cons, List.mem_cons] at hn hc
    rw [List.map_cons, toFun_cons, toFun_cons]
    simp only
    by_cases h : e.1 = c
    · subst h
      have h1 : toFun t e.1 = 0 := toFun_eq_zero_of_not_mem (by simpa [dkeys] using hn.1)
      have h2 : toFun (t.map (fun e => (e.1, e.2 + g e.1))) e.1 = 0 :=
        toFun_eq_zero_of_not_mem (by simpa [dkeys, List.map_map, Function.comp_def] using hn.1)
      rw [if_pos rfl, if_pos rfl, h1, h2]; ring
    · rw [if_neg h, if_neg h]
      rcases hc with hc | hc
      · exact absurd hc.symm h
      · rw [ih hn.2 hc]; ring

/-- what a ballot counts for `c` when unscored candidates count as `u` -/
def valU (u : Rat) (b : ScoreBallot) (c : Cand) : Rat := toFun b c + u * (1 - scoresInd b c)

theorem wsum_valU (u : Rat) (p : SProfile) (c : Cand) :
    wsum p (fun b => valU u b c)
      = wsum p (fun b => toFun b c) + (wsum p (fun _ => 1) - wsum p (fun b => scoresInd b c)) * u := by
  induction p with
  | nil => simp
  | cons a t ih => rw [wsum_cons, wsum_cons, wsum_cons, wsum_cons, ih]; simp only [valU]; ring

/-- every ballot of the profile is in canonical form -/
def ScoreProfileOK (p : SProfile) : Prop := ∀ b ∈ dkeys p, ScoreBallotOK b

theorem toFun_scoredWeight (p : SProfile) (hp : ScoreProfileOK p) (c : Cand) :
    toFun (scoredWeight p) c = wsum p (fun b => scoresInd b c) := by
  rw [scoredWeight_eq_accum, toFun_accum]
  simp only [toFun_nil, zero_add, wsum]
  congr 1
  apply List.map_congr_left
  intro bw hbw
  exact toFun_swItems bw (hp bw.1 (List.mem_map.mpr ⟨bw, hbw, rfl⟩)) c

theorem keys_scoreSumU (u : Rat) (p : SProfile) : keys (scoreSumU u p) = keys (scoreSum p) := by
  simp [scoreSumU, keys, List.map_map, Function.comp_def]

theorem nodup_scoreSum (p : SProfile) : (keys (scoreSum p)).Nodup := by
  rw [scoreSum_eq_accum]; exact Additive.nodup p

/-- the totals with a fill-in value are weighted sums of the per-ballot values -/
theorem toFun_scoreSumU (u : Rat) (p : SProfile) (hp : ScoreProfileOK p) (c : Cand) (hc : c ∈ keys (scoreSum p)) :
    toFun (scoreSumU u p) c = wsum p (fun b => valU u b c) := by
  unfold scoreSumU
  rw [toFun_map_add _ (nodup_scoreSum p) (fun c => (sumValues p - getD (scoredWeight p) c 0) * u) c hc]
  have hsw : (keys (scoredWeight p)).Nodup := by rw [scoredWeight_eq_accum]; exact Additive.nodup p
  rw [getD_eq_toFun _ hsw, toFun_scoredWeight p hp, sumValues_eq_wsum, wsum_valU]
  congr 1
  rw [scoreSum_eq_accum]; exact score_additive.toFun_eq p c

theorem mem_keys_scoreSum (p : SProfile) (c : Cand) : c ∈ keys (scoreSum p) ↔ ∃ b ∈ dkeys p, c ∈ dkeys b := by
  rw [scoreSum_eq_accum]; exact score_additive.mem_keys p c

theorem scoresInd_raiseScore (w : Cand) (s : Rat) (b : ScoreBallot) (c : Cand) :
    scoresInd (raiseScore w s b) c = if c = w then 1 else scoresInd b c := by
  unfold scoresInd
  by_cases h : c = w
  · rw [if_pos h, if_pos ((mem_dkeys_raiseScore w s b c).mpr (Or.inl h))]
  · rw [if_neg h]
    by_cases h2 : c ∈ dkeys b
    · rw [if_pos h2, if_pos ((mem_dkeys_raiseScore w s b c).mpr (Or.inr h2))]
    · rw [if_neg h2, if_neg (fun h3 => by
        rcases (mem_dkeys_raiseScore w s b c).mp h3 with h4 | h4
        · exact h h4
        · exact h2 h4)]

theorem valU_raiseScore_other (u : Rat) (w : Cand) (s : Rat) (b : ScoreBallot) (hb : ScoreBallotOK b) (c : Cand) (hc : c ≠ w) :
    valU u (raiseScore w s b) c = valU u b c := by
  unfold valU
  rw [toFun_raiseScore w s b hb c, scoresInd_raiseScore, if_neg hc, if_neg hc]

theorem valU_raiseScore_self (u : Rat) (w : Cand) (s : Rat) (b : ScoreBallot) (hb : ScoreBallotOK b) :
    valU u (raiseScore w s b) w = s := by
  unfold valU
  rw [toFun_raiseScore w s b hb w, scoresInd_raiseScore, if_pos rfl, if_pos rfl]; ring

theorem scoreBallotOK_raiseScore (w : Cand) (s : Rat) (b : ScoreBallot) (hb : ScoreBallotOK b) :
    ScoreBallotOK (raiseScore w s b) := by
  unfold ScoreBallotOK at *
  induction b with
  | nil => simp [raiseScore, dkeys]
  | cons e rest ih =>
    obtain ⟨c, x⟩ := e
    simp only [dkeys, List.map_cons, List.pairwise_cons] at hb ih
    obtain ⟨hlt, hrest⟩ := hb
    simp only [raiseScore]
    by_cases h1 : w < c
    · rw [if_pos h1]
      simp only [dkeys, List.map_cons, List.pairwise_cons, List.mem_cons]
      refine ⟨?_, hlt, hrest⟩
      rintro a (rfl | ha)
      · exact h1
      · exact lt_trans h1 (hlt a ha)
    · rw [if_neg h1]
      by_cases h2 : w = c
      · rw [if_pos h2]
        simp only [dkeys, List.map_cons, List.pairwise_cons]
        exact ⟨hlt, hrest⟩
      · rw [if_neg h2]
        simp only [dkeys, List.map_cons, List.pairwise_cons]
        refine ⟨?_, ih hrest⟩
        intro a ha
        have := (mem_dkeys_raiseScore w s rest a).mp (by simpa [dkeys] using ha)
        rcases this with rfl | ha'
        · exact lt_of_le_of_ne (Nat.le_of_not_lt h1) (fun h => h2 h.symm)
        · exact hlt a (by simpa [dkeys] using ha')

end VL.Mono
