/-
  C17 helper lemmas: the approval / score-sum accumulations as instances of `Additive`, the moves `approve` and
  `raiseScore`, and small facts used by the property theorems of Props/C17.lean.
-/
import VotelibProofs.Lemmas.MonoAdditive
import VotelibProofs.Lemmas.MonoBucklin
import VotelibProofs.Lemmas.MonoBridge
namespace VL.Mono
open VL VL.Convert

/-- what one approval ballot contributes -/
def approvalItems (bw : Approval × Rat) : List (Cand × Rat) := bw.1.map (fun c => (c, bw.2))

theorem approval_additive : Additive approvalItems (fun b k => cnt b k) (fun b => b) := by
  refine ⟨fun bw k => ?_, fun bw k => by simp [approvalItems, dkeys, List.map_map, Function.comp_def]⟩
  obtain ⟨b, v⟩ := bw
  simp only [approvalItems]
  induction b with
  | nil => simp
  | cons a t ih => rw [List.map_cons, toFun_cons, ih, cnt_cons]; simp only; split <;> ring

theorem evalApproval_eq (p : AProfile) : evalApproval p = .ok (getNBest (accum approvalItems p []) 1) := by
  unfold evalApproval
  rw [approvalToSimple_eq_ok false p (by simp)]
  simp only [Except.ok.injEq]
  congr 1
  unfold accum
  congr 1
  funext agg bw
  simp [approvalStep, approvalItems, List.foldl_map]

theorem cnt_approve (w : Cand) (b : Approval) (k : Cand) (hw : w ∉ b) :
    cnt (approve w b) k = cnt b k + (if w = k then 1 else 0) := by
  induction b with
  | nil => simp [approve, cnt_cons]
  | cons c cs ih =>
    have hwc : w ≠ c := fun h => hw (by simp [h])
    have hwcs : w ∉ cs := fun h => hw (by simp [h])
    by_cases h1 : w < c
    · simp only [approve, if_pos h1]
      rw [cnt_cons]; ring
    · simp only [approve, if_neg h1, if_neg hwc]
      rw [cnt_cons, cnt_cons, ih hwcs]; ring

theorem mem_approve (w : Cand) (b : Approval) (k : Cand) : k ∈ approve w b ↔ k = w ∨ k ∈ b := by
  induction b with
  | nil => simp [approve]
  | cons c cs ih =>
    simp only [approve]
    split
    · simp
    · split
      · rename_i h; subst h; simp
      · simp only [List.mem_cons, ih]; tauto


def scoreItems (bw : ScoreBallot × Rat) : List (Cand × Rat) := bw.1.map (fun cs => (cs.1, bw.2 * cs.2))

theorem score_additive : Additive scoreItems (fun b k => toFun b k) (fun b => dkeys b) := by
  refine ⟨fun bw k => ?_, fun bw k => by simp [scoreItems, dkeys, List.map_map, Function.comp_def]⟩
  obtain ⟨b, v⟩ := bw
  simp only [scoreItems]
  induction b with
  | nil => simp
  | cons a t ih => rw [List.map_cons, toFun_cons, toFun_cons, ih]; simp only; split <;> ring

theorem evalScoreSum_eq (p : SProfile) : evalScoreSum p = getNBest (accum scoreItems p []) 1 := by
  unfold evalScoreSum scoreSum accum
  congr 2
  funext agg bw
  simp [scoreItems, List.foldl_map]

/-- a score ballot in canonical form: candidates strictly ascending (a frozenset of (candidate, score) pairs
    scoring every candidate at most once) -/
def ScoreBallotOK (b : ScoreBallot) : Prop := (dkeys b).Pairwise (· < ·)

theorem toFun_raiseScore (w : Cand) (s : Rat) (b : ScoreBallot) (hb : ScoreBallotOK b) (k : Cand) :
    toFun (raiseScore w s b) k = if k = w then s else toFun b k := by
  induction b with
  | nil =>
    simp only [raiseScore, toFun_cons, toFun_nil]
    by_cases h : k = w
    · rw [if_pos h.symm, if_pos h]; ring
    · rw [if_neg (fun h' => h h'.symm), if_neg h]; ring
  | cons e rest ih =>
    obtain ⟨c, x⟩ := e
    unfold ScoreBallotOK at hb ih
    simp only [dkeys, List.map_cons, List.pairwise_cons] at hb ih
    obtain ⟨hlt, hrest⟩ := hb
    simp only [raiseScore]
    by_cases h1 : w < c
    · rw [if_pos h1, toFun_cons]
      simp only
      by_cases hk : k = w
      · subst hk
        rw [if_pos rfl, if_pos rfl]
        have : toFun ((c, x) :: rest) k = 0 := by
          apply toFun_eq_zero_of_not_mem
          simp only [dkeys, List.map_cons, List.mem_cons, not_or]
          refine ⟨fun h => ?_, fun hm => ?_⟩
          · rw [h] at h1; exact lt_irrefl _ h1
          · exact lt_asymm h1 (hlt k hm)
        rw [this]; ring
      · rw [if_neg (fun h => hk h.symm), if_neg hk]; ring
    · rw [if_neg h1]
      by_cases h2 : w = c
      · subst h2
        rw [if_pos rfl, toFun_cons, toFun_cons]
        simp only
        by_cases hk : k = w
        · subst hk
          have : toFun rest k = 0 := by
            apply toFun_eq_zero_of_not_mem
            intro hm
            exact lt_irrefl _ (hlt k hm)
          rw [if_pos rfl, if_pos rfl, this]; ring
        · rw [if_neg (fun h => hk h.symm), if_neg hk, if_neg (fun h => hk h.symm)]
      · rw [if_neg h2, toFun_cons, toFun_cons, ih hrest]
        simp only
        by_cases hk : k = w
        · subst hk
          rw [if_neg (fun h => h2 h.symm), if_pos rfl, if_pos rfl]; ring
        · rw [if_neg hk, if_neg hk]

theorem mem_dkeys_raiseScore (w : Cand) (s : Rat) (b : ScoreBallot) (k : Cand) :
    k ∈ dkeys (raiseScore w s b) ↔ k = w ∨ k ∈ dkeys b := by
  induction b with
  | nil => simp [raiseScore, dkeys]
  | cons e rest ih =>
    obtain ⟨c, x⟩ := e
    simp only [raiseScore]
    split
    · simp [dkeys]
    · split
      · rename_i h; subst h; simp [dkeys]
      · simp only [dkeys, List.map_cons, List.mem_cons] at ih ⊢
        rw [ih]; tauto


theorem ne_nil_of_mem_dkeys {κ : Type} {p : Dict κ} {b : κ} (h : b ∈ dkeys p) : p ≠ [] := by
  rintro rfl; simp [dkeys] at h

theorem addTo_ne_nil {κ : Type} [DecidableEq κ] (p : Dict κ) (b : κ) (v : Rat) : addTo p b v ≠ [] := by
  cases p with
  | nil => simp [addTo]
  | cons e t => obtain ⟨k, x⟩ := e; simp only [addTo]; split <;> simp


theorem mem_candidates_of_copeland {p : RProfile} {w : Cand} (h : evalCopeland false p = [Slot.cand w]) :
    w ∈ Condorcet.candidates (pairwiseOf p) := by
  have h0 : getNBest (Condorcet.seededScores (pairwiseOf p)
      (Condorcet.copelandScoresRaw (Condorcet.pairwiseWins (pairwiseOf p) false))) 1 = [Slot.cand w] := by
    unfold evalCopeland Condorcet.copeland at h; simpa using h
  have hn : (keys (Condorcet.seededScores (pairwiseOf p)
      (Condorcet.copelandScoresRaw (Condorcet.pairwiseWins (pairwiseOf p) false)))).Nodup := by
    rw [keys_seeded]; exact Condorcet.nodup_candidates _
  rw [sole_iff _ hn, soleMax_iff _ hn, keys_seeded] at h0
  exact h0.1


theorem mem_candidates_of_minimax {sc : Condorcet.Scorer} {p : RProfile} {w : Cand} (hp : ProfileOK p)
    (h : evalMinimax sc p = [Slot.cand w]) : w ∈ Condorcet.candidates (pairwiseOf p) := by
  unfold evalMinimax at h
  rw [minimax_eq_worst sc _ (wf_pairwiseOf p hp).1] at h
  have hn : (keys ((Condorcet.candidates (pairwiseOf p)).map
      (fun c => (c, -(Condorcet.worstDefeat sc (pairwiseOf p) c))))).Nodup := by
    rw [keys_worstTable]; exact Condorcet.nodup_candidates _
  rw [sole_iff _ hn, soleMax_iff _ hn, keys_worstTable] at h
  exact h.1


end VL.Mono
