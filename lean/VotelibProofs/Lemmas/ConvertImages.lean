/-
  Per-converter lemmas for C13: the one-item accumulator, canonical sets, all_rankings as a transpose.
-/
import VotelibProofs.Lemmas.ConvertSum
import Mathlib.Data.List.Sort
import Mathlib.Algebra.BigOperators.Ring.List
namespace VL.Convert
open VL

variable {κ β γ : Type}

/-! ### sums of images -/

/-- `X` is the weighted sum of the per-ballot images: `X(p)(k) = Σ_{(b,w) ∈ p} w · img b k` -/
def SumOfImages [DecidableEq κ] (X : Dict β → Dict κ) (img : β → κ → Rat) : Prop :=
  ∀ p k, toFun (X p) k = wsum p (fun b => img b k)

section
variable [DecidableEq κ] {X : Dict β → Dict κ} {img : β → κ → Rat}

theorem SumOfImages.additive (h : SumOfImages X img) (p₁ p₂ : Dict β) (k : κ) :
    toFun (X (p₁ ++ p₂)) k = toFun (X p₁) k + toFun (X p₂) k := by
  rw [h, h, h, wsum_append]

theorem SumOfImages.merged [DecidableEq β] (h : SumOfImages X img) (p : Dict β) (k : κ) :
    toFun (X (mergeDict p)) k = toFun (X p) k := by
  rw [h, h, wsum_mergeDict]

/-- the converter only sees the profile as a function ballot -> weight -/
theorem SumOfImages.congr [DecidableEq β] (h : SumOfImages X img) {p q : Dict β}
    (hpq : ∀ b, toFun p b = toFun q b) (k : κ) : toFun (X p) k = toFun (X q) k := by
  rw [h, h, wsum_congr_toFun hpq]

theorem SumOfImages.additive_merged [DecidableEq β] (h : SumOfImages X img) (p₁ p₂ : Dict β) (k : κ) :
    toFun (X (mergeDict (p₁ ++ p₂))) k = toFun (X p₁) k + toFun (X p₂) k := by
  rw [h.merged, h.additive]

theorem SumOfImages.single (h : SumOfImages X img) (b : β) (w : Rat) (k : κ) :
    toFun (X [(b, w)]) k = w * img b k := by
  rw [h, wsum_cons]; simp

/-- a second converter applied to the output of a first one is still additive -/
theorem SumOfImages.comp_additive [DecidableEq γ] {Y : Dict κ → Dict γ} {img₂ : κ → γ → Rat}
    (hX : SumOfImages X img) (hY : SumOfImages Y img₂) (p₁ p₂ : Dict β) (g : γ) :
    toFun (Y (X (p₁ ++ p₂))) g = toFun (Y (X p₁)) g + toFun (Y (X p₂)) g := by
  have h1 : ∀ k, toFun (X (p₁ ++ p₂)) k = toFun (X p₁ ++ X p₂) k := by
    intro k; rw [hX.additive, toFun_append]
  rw [hY.congr h1, hY.additive]

theorem SumOfImages.comp_additive_merged [DecidableEq γ] [DecidableEq β] {Y : Dict κ → Dict γ} {img₂ : κ → γ → Rat}
    (hX : SumOfImages X img) (hY : SumOfImages Y img₂) (p₁ p₂ : Dict β) (g : γ) :
    toFun (Y (X (mergeDict (p₁ ++ p₂)))) g = toFun (Y (X p₁)) g + toFun (Y (X p₂)) g := by
  have h1 : ∀ k, toFun (X (mergeDict (p₁ ++ p₂))) k = toFun (X p₁ ++ X p₂) k := by
    intro k; rw [hX.additive_merged, toFun_append]
  rw [hY.congr h1, hY.additive]
end

/-! ### the one-item-per-ballot accumulator -/

/-- `for ballot, n in votes.items(): k = key(ballot); if k is not None: out[k] += n` -/
def accumOne [DecidableEq κ] (key : β → Option κ) (p : Dict β) : Dict κ :=
  p.foldl (fun acc bw => match key bw.1 with
    | none => acc
    | some k => addTo acc k bw.2) []

section
variable [DecidableEq κ] (key : β → Option κ)

theorem accumOne_sum : SumOfImages (accumOne key) (fun b k => if key b = some k then 1 else 0) := by
  intro p k
  unfold accumOne
  rw [toFun_foldl_step _ (fun b k => if key b = some k then 1 else 0)]
  · simp
  · intro acc bw k
    cases hk : key bw.1 with
    | none => simp
    | some k' =>
      simp only [toFun_addTo]
      by_cases h : k' = k <;> simp [h]

theorem accumOne_total (p : Dict β) :
    total (accumOne key p) = wsum p (fun b => if (key b).isSome then 1 else 0) := by
  unfold accumOne
  rw [total_foldl_step _ (fun b => if (key b).isSome then 1 else 0)]
  · simp [total]
  · intro acc bw
    cases hk : key bw.1 with
    | none => simp
    | some k' => simp [total_addTo]

theorem accumOne_nodup (p : Dict β) : (dkeys (accumOne key p)).Nodup := by
  unfold accumOne
  apply nodup_foldl_step
  · intro acc bw h
    cases hk : key bw.1 with
    | none => exact h
    | some k' => exact nodup_dkeys_addTo h _ _
  · simp [dkeys]

theorem mem_dkeys_accumOne (p : Dict β) (k : κ) :
    k ∈ dkeys (accumOne key p) ↔ ∃ bw ∈ p, key bw.1 = some k := by
  unfold accumOne
  have : ∀ acc : Dict κ, k ∈ dkeys (p.foldl (fun acc bw => match key bw.1 with
      | none => acc
      | some k => addTo acc k bw.2) acc) ↔ k ∈ dkeys acc ∨ ∃ bw ∈ p, key bw.1 = some k := by
    induction p with
    | nil => intro acc; simp
    | cons bw t ih =>
      intro acc
      rw [List.foldl_cons, ih]
      cases hk : key bw.1 with
      | none => simp [hk]
      | some k' =>
        simp only [mem_dkeys_addTo, List.mem_cons, exists_eq_or_imp, hk, Option.some.injEq]
        constructor
        · rintro ((h | h) | h)
          · exact Or.inl h
          · exact Or.inr (Or.inl h.symm)
          · exact Or.inr (Or.inr h)
        · rintro (h | h | h)
          · exact Or.inl (Or.inl h)
          · exact Or.inl (Or.inr h.symm)
          · exact Or.inr h
  rw [this]; simp [dkeys]

/-- the output of a single ballot -/
theorem accumOne_single (b : β) (w : Rat) :
    accumOne key [(b, w)] = match key b with
      | none => []
      | some k => [(k, w)] := by
  unfold accumOne
  cases h : key b <;> simp [h, addTo]
end

/-! ### canonical sets -/

section
variable {α : Type} [DecidableEq α] (le : α → α → Bool)

theorem mem_insertSet (x y : α) (l : List α) : y ∈ insertSet le x l ↔ y = x ∨ y ∈ l := by
  induction l with
  | nil => simp [insertSet]
  | cons a t ih =>
    unfold insertSet
    by_cases h1 : x = a
    · subst h1; simp
    · rw [if_neg h1]
      by_cases h2 : le x a = true
      · rw [if_pos h2]; simp
      · rw [if_neg h2]; simp only [List.mem_cons, ih]; tauto

theorem mem_canonBy (y : α) (l : List α) : y ∈ canonBy le l ↔ y ∈ l := by
  induction l with
  | nil => simp [canonBy]
  | cons a t ih =>
    have : canonBy le (a :: t) = insertSet le a (canonBy le t) := rfl
    rw [this, mem_insertSet, ih]; simp

end

theorem insertSet_map {α' : Type} [DecidableEq α] [DecidableEq α'] (le : α → α → Bool) (le' : α' → α' → Bool)
    (f : α → α') (hf : Function.Injective f) (hle : ∀ a b, le' (f a) (f b) = le a b) (x : α) (l : List α) :
    insertSet le' (f x) (l.map f) = (insertSet le x l).map f := by
  induction l with
  | nil => simp [insertSet]
  | cons a t ih =>
    simp only [List.map_cons, insertSet, hle]
    by_cases h1 : x = a
    · subst h1; simp
    · have : f x ≠ f a := fun e => h1 (hf e)
      simp only [h1, this, if_false]
      by_cases h2 : le x a = true
      · simp [h2]
      · simp [h2, ih]

theorem canonBy_map {α' : Type} [DecidableEq α] [DecidableEq α'] (le : α → α → Bool) (le' : α' → α' → Bool)
    (f : α → α') (hf : Function.Injective f) (hle : ∀ a b, le' (f a) (f b) = le a b) (l : List α) :
    canonBy le' (l.map f) = (canonBy le l).map f := by
  induction l with
  | nil => simp [canonBy]
  | cons a t ih =>
    have e1 : canonBy le' ((a :: t).map f) = insertSet le' (f a) (canonBy le' (t.map f)) := rfl
    have e2 : canonBy le (a :: t) = insertSet le a (canonBy le t) := rfl
    rw [e1, e2, ih, insertSet_map le le' f hf hle]

/-- `canonSet` produces strictly increasing lists -/
theorem sorted_insertSet (x : Nat) {l : List Nat} (h : l.Pairwise (· < ·)) :
    (insertSet Nat.ble x l).Pairwise (· < ·) := by
  induction l with
  | nil => simp [insertSet]
  | cons a t ih =>
    unfold insertSet
    by_cases h1 : x = a
    · rw [if_pos h1]; exact h
    · rw [if_neg h1]
      rw [List.pairwise_cons] at h
      by_cases h2 : Nat.ble x a = true
      · rw [if_pos h2, List.pairwise_cons]
        have hxa : x < a := lt_of_le_of_ne (Nat.le_of_ble_eq_true h2) h1
        refine ⟨?_, List.pairwise_cons.2 h⟩
        intro b hb
        rcases List.mem_cons.1 hb with rfl | hb
        · exact hxa
        · exact lt_trans hxa (h.1 b hb)
      · rw [if_neg h2, List.pairwise_cons]
        have hax : a < x := by
          have : ¬ x ≤ a := fun hle => h2 (Nat.ble_eq_true_of_le hle)
          omega
        refine ⟨?_, ih h.2⟩
        intro b hb
        rw [mem_insertSet] at hb
        rcases hb with rfl | hb
        · exact hax
        · exact h.1 b hb

theorem sorted_canonSet (l : List Cand) : (canonSet l).Pairwise (· < ·) := by
  induction l with
  | nil => simp [canonSet, canonBy]
  | cons a t ih => exact sorted_insertSet a ih

theorem mem_canonSet (c : Cand) (l : List Cand) : c ∈ canonSet l ↔ c ∈ l := mem_canonBy _ c l

theorem nodup_canonSet (l : List Cand) : (canonSet l).Nodup :=
  (sorted_canonSet l).imp (fun h => Nat.ne_of_lt h)

/-- the canonical form identifies exactly the lists with the same members: two ballots get the same
    frozenset key iff they name the same candidates -/
theorem canonSet_eq_iff (l₁ l₂ : List Cand) : canonSet l₁ = canonSet l₂ ↔ ∀ c, c ∈ l₁ ↔ c ∈ l₂ := by
  constructor
  · intro h c
    rw [← mem_canonSet c l₁, ← mem_canonSet c l₂, h]
  · intro h
    apply (sorted_canonSet l₁).eq_of_mem_iff (sorted_canonSet l₂)
    intro c
    rw [mem_canonSet, mem_canonSet, h]

/-- a strictly increasing list is its own canonical form -/
theorem canonSet_of_sorted {l : List Cand} (h : l.Pairwise (· < ·)) : canonSet l = l := by
  apply (sorted_canonSet l).eq_of_mem_iff h
  intro c; rw [mem_canonSet]

/-! ### counting -/

/-- number of occurrences, as a rational -/
def cnt {α : Type} [DecidableEq α] (l : List α) (k : α) : Rat := ((l.count k : Nat) : Rat)

section
variable {α : Type} [DecidableEq α]
@[simp] theorem cnt_nil (k : α) : cnt ([] : List α) k = 0 := by simp [cnt]
theorem cnt_cons (a : α) (l : List α) (k : α) : cnt (a :: l) k = (if a = k then 1 else 0) + cnt l k := by
  unfold cnt
  rw [List.count_cons]
  by_cases h : a = k
  · subst h; simp; ring
  · have : (a == k) = false := by simpa using h
    simp [h, this]
theorem cnt_append (l₁ l₂ : List α) (k : α) : cnt (l₁ ++ l₂) k = cnt l₁ k + cnt l₂ k := by
  simp [cnt, List.count_append]
theorem cnt_nonneg (l : List α) (k : α) : 0 ≤ cnt l k := by simp [cnt]
theorem cnt_of_nodup {l : List α} (h : l.Nodup) (k : α) : cnt l k = if k ∈ l then 1 else 0 := by
  unfold cnt
  by_cases hk : k ∈ l
  · rw [if_pos hk, List.count_eq_one_of_mem h hk]; simp
  · rw [if_neg hk, List.count_eq_zero_of_not_mem hk]; simp
theorem cnt_eq_zero {l : List α} {k : α} (h : k ∉ l) : cnt l k = 0 := by
  simp [cnt, List.count_eq_zero_of_not_mem h]
theorem cnt_le_one {l : List α} (h : l.Nodup) (k : α) : cnt l k ≤ 1 := by
  rw [cnt_of_nodup h]; split <;> norm_num
theorem cnt_flatMap {γ : Type} (l : List γ) (f : γ → List α) (k : α) :
    cnt (l.flatMap f) k = (l.map (fun x => cnt (f x) k)).sum := by
  induction l with
  | nil => simp
  | cons a t ih => rw [List.flatMap_cons, cnt_append, ih]; simp
theorem cnt_perm {l₁ l₂ : List α} (h : l₁.Perm l₂) (k : α) : cnt l₁ k = cnt l₂ k := by
  simp [cnt, h.count_eq]
end

/-- `for c in l: agg[c] += v` -/
theorem toFun_foldl_addTo_const [DecidableEq κ] (l : List κ) (v : Rat) (acc : Dict κ) (k : κ) :
    toFun (l.foldl (fun agg c => addTo agg c v) acc) k = toFun acc k + v * cnt l k := by
  induction l generalizing acc with
  | nil => simp
  | cons a t ih =>
    rw [List.foldl_cons, ih, toFun_addTo, cnt_cons]
    by_cases h : a = k
    · simp [h]; ring
    · simp [h]

theorem total_foldl_addTo_const [DecidableEq κ] (l : List κ) (v : Rat) (acc : Dict κ) :
    total (l.foldl (fun agg c => addTo agg c v) acc) = total acc + v * (l.length : Rat) := by
  induction l generalizing acc with
  | nil => simp
  | cons a t ih =>
    rw [List.foldl_cons, ih, total_addTo]; push_cast [List.length_cons]; ring

theorem nodup_foldl_addTo_const [DecidableEq κ] (l : List κ) (v : Rat) {acc : Dict κ} (h : (dkeys acc).Nodup) :
    (dkeys (l.foldl (fun agg c => addTo agg c v) acc)).Nodup := by
  induction l generalizing acc with
  | nil => exact h
  | cons a t ih => exact ih (nodup_dkeys_addTo h _ _)

/-! ### sums over two lists and over rank positions -/

theorem sum_comm_lists {α β : Type} (l : List α) (m : List β) (f : α → β → Rat) :
    (l.map (fun a => (m.map (fun b => f a b)).sum)).sum = (m.map (fun b => (l.map (fun a => f a b)).sum)).sum := by
  induction l with
  | nil => simp
  | cons a t ih =>
    simp only [List.map_cons, List.sum_cons]
    rw [ih, ← List.sum_map_add]

theorem sum_range_getElem? {γ : Type} (b : List γ) (g : Option γ → Rat) (hg : g none = 0) (n : Nat)
    (h : b.length ≤ n) : ((List.range n).map (fun i => g b[i]?)).sum = (b.map (fun x => g (some x))).sum := by
  induction b generalizing n with
  | nil =>
    simp only [List.getElem?_nil, hg, List.map_nil, List.sum_nil]
    apply List.sum_eq_zero; intro x hx; simp at hx; exact hx.2.symm ▸ rfl
  | cons x t ih =>
    obtain ⟨n', rfl⟩ : ∃ n', n = n' + 1 := ⟨n - 1, by simp at h; omega⟩
    rw [List.range_succ_eq_map]
    simp only [List.map_cons, List.sum_cons, List.map_map, List.getElem?_cons_zero]
    congr 1
    have := ih n' (by simp at h; omega)
    rw [← this]
    congr 1

theorem sum_flatMap' {α : Type} (l : List α) (f : α → List Rat) :
    (l.flatMap f).sum = (l.map (fun x => (f x).sum)).sum := by
  induction l with
  | nil => simp
  | cons a t ih => rw [List.flatMap_cons, List.sum_append, ih]; simp

theorem sum_map_one {α : Type} (l : List α) : (l.map (fun _ => (1 : Rat))).sum = (l.length : Rat) := by
  induction l with
  | nil => simp
  | cons a t ih => rw [List.map_cons, List.sum_cons, ih]; push_cast [List.length_cons]; ring

theorem toFun_flatMap [DecidableEq κ] {α : Type} (l : List α) (f : α → Dict κ) (k : κ) :
    toFun (l.flatMap f) k = (l.map (fun x => toFun (f x) k)).sum := by
  induction l with
  | nil => simp
  | cons a t ih => rw [List.flatMap_cons, toFun_append, ih]; simp

/-! ### util.all_rankings -/

theorem le_foldl_max (p : RProfile) (m : Nat) :
    m ≤ p.foldl (fun m bw => max m bw.1.length) m ∧
    ∀ bw ∈ p, bw.1.length ≤ p.foldl (fun m bw => max m bw.1.length) m := by
  induction p generalizing m with
  | nil => simp
  | cons a t ih =>
    rw [List.foldl_cons]
    obtain ⟨h1, h2⟩ := ih (max m a.1.length)
    refine ⟨le_trans (le_max_left _ _) h1, ?_⟩
    intro bw hbw
    rcases List.mem_cons.1 hbw with rfl | hbw
    · exact le_trans (le_max_right _ _) h1
    · exact h2 bw hbw

theorem length_le_maxLen {p : RProfile} {bw : Ballot × Rat} (h : bw ∈ p) : bw.1.length ≤ maxLen p :=
  (le_foldl_max p 0).2 bw h

/-- occurrences of candidate `k` on a ballot (all ranks, shared or not) -/
def presence (b : Ballot) (k : Cand) : Rat := cnt (ballotCands b) k

theorem presence_eq_sum (b : Ballot) (k : Cand) : presence b k = (b.map (fun it => cnt it.cands k)).sum := by
  unfold presence ballotCands; rw [cnt_flatMap]

theorem sum_indicator_eq_cnt {α : Type} [DecidableEq α] (l : List α) (k : α) :
    (l.map (fun c => if c = k then (1 : Rat) else 0)).sum = cnt l k := by
  induction l with
  | nil => simp
  | cons a t ih => rw [List.map_cons, List.sum_cons, ih, cnt_cons]

/-- `all_rankings` visits every (candidate occurrence, ballot) pair exactly once: any weighted sum over
    its output is the sum over the ballots of the sum over their candidates -/
theorem sum_allRankings (p : RProfile) (g : Cand → Rat) :
    ((allRankings p).map (fun t => t.2.2 * g t.1)).sum = wsum p (fun b => ((ballotCands b).map g).sum) := by
  unfold allRankings
  rw [List.map_flatMap, sum_flatMap']
  have h1 : ∀ i, (List.map (fun t : Cand × Nat × Rat => t.2.2 * g t.1) (p.flatMap (rankingsAt i))).sum
      = (p.map (fun bw => bw.2 * (match bw.1[i]? with | some it => (it.cands.map g).sum | none => 0))).sum := by
    intro i
    rw [List.map_flatMap, sum_flatMap']
    congr 1
    apply List.map_congr_left
    intro bw _
    unfold rankingsAt
    cases bw.1[i]? with
    | none => simp
    | some it =>
      simp only [List.map_map]
      rw [← List.sum_map_mul_left]
      rfl
  simp only [h1]
  rw [sum_comm_lists]
  unfold wsum
  congr 1
  apply List.map_congr_left
  intro bw hbw
  rw [List.sum_map_mul_left]
  congr 1
  have : ((ballotCands bw.1).map g).sum = (bw.1.map (fun it => (it.cands.map g).sum)).sum := by
    unfold ballotCands
    rw [List.map_flatMap, sum_flatMap']
  show _ = ((ballotCands bw.1).map g).sum
  rw [this]
  exact sum_range_getElem? bw.1 (fun o => match o with | some it => (it.cands.map g).sum | none => 0) rfl _
    (length_le_maxLen hbw)

theorem toFun_allRankings (p : RProfile) (k : Cand) :
    toFun ((allRankings p).map (fun t => (t.1, t.2.2))) k = wsum p (fun b => presence b k) := by
  have := sum_allRankings p (fun c => if c = k then 1 else 0)
  simp only [sum_indicator_eq_cnt] at this
  rw [← show wsum p (fun b => cnt (ballotCands b) k) = wsum p (fun b => presence b k) from rfl, ← this]
  unfold toFun
  rw [List.map_map]
  congr 1
  apply List.map_congr_left
  intro t _
  simp only [Function.comp]
  by_cases h : t.1 = k <;> simp [h]

theorem total_allRankings (p : RProfile) :
    total ((allRankings p).map (fun t => (t.1, t.2.2))) = wsum p (fun b => ((ballotCands b).length : Rat)) := by
  have := sum_allRankings p (fun _ => 1)
  simp only [sum_map_one, mul_one] at this
  rw [← this]
  unfold total
  rw [List.map_map]
  rfl

/-! ### folds in `Except` -/

theorem foldlM_ok_of_step {σ α : Type} (step : σ → α → Except Err σ) (pstep : σ → α → σ) (l : List α)
    (h : ∀ s a, a ∈ l → step s a = .ok (pstep s a)) (s0 : σ) :
    l.foldlM step s0 = .ok (l.foldl pstep s0) := by
  induction l generalizing s0 with
  | nil => rfl
  | cons a t ih =>
    rw [List.foldlM_cons, h s0 a (by simp), List.foldl_cons]
    exact ih (fun s a' ha' => h s a' (by simp [ha'])) _

theorem foldlM_error_of_step {σ α : Type} (step : σ → α → Except Err σ) (e : Err) (l : List α)
    (h : ∀ s a, a ∈ l → (∃ s', step s a = .ok s') ∨ step s a = .error e)
    (hex : ∃ a ∈ l, ∀ s, step s a = .error e) (s0 : σ) :
    l.foldlM step s0 = .error e := by
  induction l generalizing s0 with
  | nil => simp at hex
  | cons a t ih =>
    rw [List.foldlM_cons]
    rcases h s0 a (by simp) with ⟨s', hs⟩ | herr
    · rw [hs]
      obtain ⟨a', ha', hall⟩ := hex
      rcases List.mem_cons.1 ha' with rfl | ha'
      · rw [hall] at hs; cases hs
      · exact ih (fun s a'' ha'' => h s a'' (by simp [ha''])) ⟨a', ha', hall⟩ _
    · rw [herr]; rfl

/-! ### ApprovalToSimpleVotes -/

/-- the documented image of one approval ballot: one vote (or an equal share) per approved candidate -/
def approvalImage (split : Bool) (b : Approval) (c : Cand) : Rat :=
  if split then cnt b c / (b.length : Rat) else cnt b c

/-- pure step of the converter -/
def approvalStep (split : Bool) (agg : Dict Cand) (bw : Approval × Rat) : Dict Cand :=
  bw.1.foldl (fun agg c => addTo agg c (if split then bw.2 / (bw.1.length : Rat) else bw.2)) agg

theorem approvalToSimple_eq_ok (split : Bool) (p : AProfile)
    (h : split = true → ∀ bw ∈ p, bw.1 ≠ []) :
    approvalToSimple split p = .ok (p.foldl (approvalStep split) []) := by
  unfold approvalToSimple
  apply foldlM_ok_of_step
  intro s bw hbw
  cases split with
  | false => simp [approvalStep]
  | true =>
    have := h rfl bw hbw
    have hl : bw.1.length ≠ 0 := by simpa using this
    simp [approvalStep, hl]

theorem approvalToSimple_eq_error (p : AProfile) (h : ∃ bw ∈ p, bw.1 = []) :
    approvalToSimple true p = .error (.other "ZeroDivisionError") := by
  unfold approvalToSimple
  apply foldlM_error_of_step
  · intro s bw _
    by_cases hl : bw.1.length = 0
    · right; simp [hl]
    · left; simp [hl]
  · obtain ⟨bw, hbw, he⟩ := h
    exact ⟨bw, hbw, fun s => by simp [he]⟩

theorem toFun_approvalStep (split : Bool) (acc : Dict Cand) (bw : Approval × Rat) (k : Cand) :
    toFun (approvalStep split acc bw) k = toFun acc k + bw.2 * approvalImage split bw.1 k := by
  unfold approvalStep approvalImage
  rw [toFun_foldl_addTo_const]
  cases split
  · simp
  · simp; ring

theorem total_approvalStep (split : Bool) (acc : Dict Cand) (bw : Approval × Rat) (h : split = true → bw.1 ≠ []) :
    total (approvalStep split acc bw) = total acc + bw.2 * (if split then 1 else (bw.1.length : Rat)) := by
  unfold approvalStep
  rw [total_foldl_addTo_const]
  cases split with
  | false => simp
  | true =>
    have hl : (bw.1.length : Rat) ≠ 0 := by
      have := h rfl
      simpa using this
    simp only [if_true]
    rw [div_mul_cancel₀ _ hl, mul_one]

end VL.Convert
