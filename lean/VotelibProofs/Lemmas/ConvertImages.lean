/-
  Per-converter lemmas for C13: the one-item accumulator, canonical sets, all_rankings as a transpose.
-/
import VotelibProofs.Lemmas.ConvertSum
import Mathlib.Data.List.Sort
namespace VL.Convert
open VL

variable {κ β γ : Type}

/-! ### sums of images -/

/-- `X` is the weighted sum of the per-ballot images: `X(p)(k) = Σ_{(b,w) ∈ p} w · img b k` -/
def SumOfImages [DecidableEq κ] (X : Dict β → Dict κ) (img : β → κ → Rat) : Prop :=
  ∀ p k, toFun (X p) k = wsum p (fun b => img b k)

section
variable [DecidableEq κ] {X : Dict β → Dict κ} {img : β → κ → Rat}

theorem SumOfImages.additive (h : SumOfImages X img) (p₁ p₂ : Dict β) (k : κ) :
    toFun (X (p₁ ++ p₂)) k = toFun (X p₁) k + toFun (X p₂) k := by
  rw [h, h, h, wsum_append]

theorem SumOfImages.merged [DecidableEq β] (h : SumOfImages X img) (p : Dict β) (k : κ) :
    toFun (X (mergeDict p)) k = toFun (X p) k := by
  rw [h, h, wsum_mergeDict]

/-- the converter only sees the profile as a function ballot -> weight -/
theorem SumOfImages.congr [DecidableEq β] (h : SumOfImages X img) {p q : Dict β}
    (hpq : ∀ b, toFun p b = toFun q b) (k : κ) : toFun (X p) k = toFun (X q) k := by
  rw [h, h, wsum_congr_toFun hpq]

theorem SumOfImages.additive_merged [DecidableEq β] (h : SumOfImages X img) (p₁ p₂ : Dict β) (k : κ) :
    toFun (X (mergeDict (p₁ ++ p₂))) k = toFun (X p₁) k + toFun (X p₂) k := by
  rw [h.merged, h.additive]

theorem SumOfImages.single (h : SumOfImages X img) (b : β) (w : Rat) (k : κ) :
    toFun (X [(b, w)]) k = w * img b k := by
  rw [h, wsum_cons]; simp

/-- a second converter applied to the output of a first one is still additive -/
theorem SumOfImages.comp_additive [DecidableEq γ] {Y : Dict κ → Dict γ} {img₂ : κ → γ → Rat}
    (hX : SumOfImages X img) (hY : SumOfImages Y img₂) (p₁ p₂ : Dict β) (g : γ) :
    toFun (Y (X (p₁ ++ p₂))) g = toFun (Y (X p₁)) g + toFun (Y (X p₂)) g := by
  have h1 : ∀ k, toFun (X (p₁ ++ p₂)) k = toFun (X p₁ ++ X p₂) k := by
    intro k; rw [hX.additive, toFun_append]
  rw [hY.congr h1, hY.additive]

theorem SumOfImages.comp_additive_merged [DecidableEq γ] [DecidableEq β] {Y : Dict κ → Dict γ} {img₂ : κ → γ → Rat}
    (hX : SumOfImages X img) (hY : SumOfImages Y img₂) (p₁ p₂ : Dict β) (g : γ) :
    toFun (Y (X (mergeDict (p₁ ++ p₂)))) g = toFun (Y (X p₁)) g + toFun (Y (X p₂)) g := by
  have h1 : ∀ k, toFun (X (mergeDict (p₁ ++ p₂))) k = toFun (X p₁ ++ X p₂) k := by
    intro k; rw [hX.additive_merged, toFun_append]
  rw [hY.congr h1, hY.additive]
end

/-! ### the one-item-per-ballot accumulator -/

/-- `for ballot, n in votes.items(): k = key(ballot); if k is not None: out[k] += n` -/
def accumOne [DecidableEq κ] (key : β → Option κ) (p : Dict β) : Dict κ :=
  p.foldl (fun acc bw => match key bw.1 with
    | none => acc
    | some k => addTo acc k bw.2) []

section
variable [DecidableEq κ] (key : β → Option κ)

theorem accumOne_sum : SumOfImages (accumOne key) (fun b k => if key b = some k then 1 else 0) := by
  intro p k
  unfold accumOne
  rw [toFun_foldl_step _ (fun b k => if key b = some k then 1 else 0)]
  · simp
  · intro acc bw k
    cases hk : key bw.1 with
    | none => simp
    | some k' =>
      simp only [toFun_addTo]
      by_cases h : k' = k <;> simp [h]

theorem accumOne_total (p : Dict β) :
    total (accumOne key p) = wsum p (fun b => if (key b).isSome then 1 else 0) := by
  unfold accumOne
  rw [total_foldl_step _ (fun b => if (key b).isSome then 1 else 0)]
  · simp [total]
  · intro acc bw
    cases hk : key bw.1 with
    | none => simp
    | some k' => simp [total_addTo]

theorem accumOne_nodup (p : Dict β) : (dkeys (accumOne key p)).Nodup := by
  unfold accumOne
  apply nodup_foldl_step
  · intro acc bw h
    cases hk : key bw.1 with
    | none => exact h
    | some k' => exact nodup_dkeys_addTo h _ _
  · simp [dkeys]

theorem mem_dkeys_accumOne (p : Dict β) (k : κ) :
    k ∈ dkeys (accumOne key p) ↔ ∃ bw ∈ p, key bw.1 = some k := by
  unfold accumOne
  have : ∀ acc : Dict κ, k ∈ dkeys (p.foldl (fun acc bw => match key bw.1 with
      | none => acc
      | some k => addTo acc k bw.2) acc) ↔ k ∈ dkeys acc ∨ ∃ bw ∈ p, key bw.1 = some k := by
    induction p with
    | nil => intro acc; simp
    | cons bw t ih =>
      intro acc
      rw [List.foldl_cons, ih]
      cases hk : key bw.1 with
      | none => simp [hk]
      | some k' =>
        simp only [mem_dkeys_addTo, List.mem_cons, exists_eq_or_imp, hk, Option.some.injEq]
        constructor
        · rintro ((h | h) | h)
          · exact Or.inl h
          · exact Or.inr (Or.inl h.symm)
          · exact Or.inr (Or.inr h)
        · rintro (h | h | h)
          · exact Or.inl (Or.inl h)
          · exact Or.inl (Or.inr h.symm)
          · exact Or.inr h
  rw [this]; simp [dkeys]

/-- the output of a single ballot -/
theorem accumOne_single (b : β) (w : Rat) :
    accumOne key [(b, w)] = match key b with
      | none => []
      | some k => [(k, w)] := by
  unfold accumOne
  cases h : key b <;> simp [h, addTo]
end

/-! ### canonical sets -/

section
variable {α : Type} [DecidableEq α] (le : α → α → Bool)

theorem mem_insertSet (x y : α) (l : List α) : y ∈ insertSet le x l ↔ y = x ∨ y ∈ l := by
  induction l with
  | nil => simp [insertSet]
  | cons a t ih =>
    unfold insertSet
    by_cases h1 : x = a
    · subst h1; simp
    · rw [if_neg h1]
      by_cases h2 : le x a = true
      · rw [if_pos h2]; simp
      · rw [if_neg h2]; simp only [List.mem_cons, ih]; tauto

theorem mem_canonBy (y : α) (l : List α) : y ∈ canonBy le l ↔ y ∈ l := by
  induction l with
  | nil => simp [canonBy]
  | cons a t ih =>
    have : canonBy le (a :: t) = insertSet le a (canonBy le t) := rfl
    rw [this, mem_insertSet, ih]; simp

end

/-- `canonSet` produces strictly increasing lists -/
theorem sorted_insertSet (x : Nat) {l : List Nat} (h : l.Pairwise (· < ·)) :
    (insertSet Nat.ble x l).Pairwise (· < ·) := by
  induction l with
  | nil => simp [insertSet]
  | cons a t ih =>
    unfold insertSet
    by_cases h1 : x = a
    · rw [if_pos h1]; exact h
    · rw [if_neg h1]
      rw [List.pairwise_cons] at h
      by_cases h2 : Nat.ble x a = true
      · rw [if_pos h2, List.pairwise_cons]
        have hxa : x < a := lt_of_le_of_ne (Nat.le_of_ble_eq_true h2) h1
        refine ⟨?_, List.pairwise_cons.2 h⟩
        intro b hb
        rcases List.mem_cons.1 hb with rfl | hb
        · exact hxa
        · exact lt_trans hxa (h.1 b hb)
      · rw [if_neg h2, List.pairwise_cons]
        have hax : a < x := by
          have : ¬ x ≤ a := fun hle => h2 (Nat.ble_eq_true_of_le hle)
          omega
        refine ⟨?_, ih h.2⟩
        intro b hb
        rw [mem_insertSet] at hb
        rcases hb with rfl | hb
        · exact hax
        · exact h.1 b hb

theorem sorted_canonSet (l : List Cand) : (canonSet l).Pairwise (· < ·) := by
  induction l with
  | nil => simp [canonSet, canonBy]
  | cons a t ih => exact sorted_insertSet a ih

theorem mem_canonSet (c : Cand) (l : List Cand) : c ∈ canonSet l ↔ c ∈ l := mem_canonBy _ c l

theorem nodup_canonSet (l : List Cand) : (canonSet l).Nodup :=
  (sorted_canonSet l).imp (fun h => Nat.ne_of_lt h)

/-- the canonical form identifies exactly the lists with the same members: two ballots get the same
    frozenset key iff they name the same candidates -/
theorem canonSet_eq_iff (l₁ l₂ : List Cand) : canonSet l₁ = canonSet l₂ ↔ ∀ c, c ∈ l₁ ↔ c ∈ l₂ := by
  constructor
  · intro h c
    rw [← mem_canonSet c l₁, ← mem_canonSet c l₂, h]
  · intro h
    apply (sorted_canonSet l₁).eq_of_mem_iff (sorted_canonSet l₂)
    intro c
    rw [mem_canonSet, mem_canonSet, h]

/-- a strictly increasing list is its own canonical form -/
theorem canonSet_of_sorted {l : List Cand} (h : l.Pairwise (· < ·)) : canonSet l = l := by
  apply (sorted_canonSet l).eq_of_mem_iff h
  intro c; rw [mem_canonSet]

end VL.Convert
