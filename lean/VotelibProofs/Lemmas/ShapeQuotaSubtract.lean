/-
  C08 for the over-award policy `'subtract'` of `QuotaDistributor` / `LargestRemainder` (model VL.QD, owned by C02;
  proportional.py L259-298 `_subtract_overaward`), for `evaluate(votes, n)` (no previous gains, no caps).

  Invariant of the withdrawal loop (`SubInv`): every entry of `selected` is positive, its key is a party of the votes or
  a `Tie` of such parties, no key twice, a party never holds more seats than whole quotas (`q·seats ≤ votes`), and at
  most ONE key of `selected` is a `Tie`.  Consequences:
  * a party's "remainder" `−(v − q·seats)` is `≤ 0`, a Tie key's remainder `q·count` is `> 0`: as soon as a Tie key
    exists it is the unique maximum and the loop only decrements it — a second Tie key is never created and a `Tie`
    of `Tie`s (`Model:NestedTie`) is never formed;
  * the loop runs `sum(selected) − n` times and every pass lowers the sum by one, so `selected` is never empty while
    it runs: `get_n_best({}, 1)[0]` (`IndexError`) is unreachable.
-/
import VotelibProofs.Lemmas.ShapeQuota
namespace VL.C08
open VL VL.QD

/-! ### dict operations -/

theorem sub_getD_of_mem {votes : Votes} (hwf : (votes.map (·.1)).Nodup) {c : Cand} {v : Rat} (h : (c, v) ∈ votes)
    (d : Rat) : getD votes c d = v := by
  unfold getD lookup
  cases hf : votes.find? (fun p => p.1 = c) with
  | none =>
    have := List.find?_eq_none.mp hf (c, v) h
    simp at this
  | some p =>
    have hm := List.mem_of_find?_eq_some hf
    have hk : p.1 = c := by simpa using List.find?_some hf
    have : p = (c, v) := List.inj_on_of_nodup_map hwf hm h hk
    rw [this]; rfl

theorem length_insNat (x : Nat) (l : List Nat) : (insNat x l).length = l.length + 1 := by
  induction l with
  | nil => rfl
  | cons y ys ih =>
    unfold insNat
    split
    · rfl
    · simp only [List.length_cons, ih]

theorem length_sortNat (l : List Nat) : (sortNat l).length = l.length := by
  induction l with
  | nil => rfl
  | cons y ys ih => simp only [sortNat, length_insNat, ih, List.length_cons]

theorem getK_nonneg_of_pos {s : Sel} (h : ∀ p ∈ s, 0 < p.2) (k : Key) : 0 ≤ getK s k 0 := by
  by_cases hk : hasK s k = true
  · exact le_of_lt (h _ (getK_mem_of_hasK hk))
  · rw [getK_of_not_hasK (by simpa using hk)]

theorem hasK_of_mem {s : Sel} {p : Key × Int} (h : p ∈ s) : hasK s p.1 = true :=
  (hasK_iff s p.1).mpr (List.mem_map.mpr ⟨p, h, rfl⟩)

theorem mem_decK {s : Sel} {k : Key} {p : Key × Int} (h : p ∈ decK s k) :
    p ∈ s ∨ (p = (k, getK s k 0 - 1) ∧ getK s k 0 ≠ 1) := by
  unfold decK at h
  split at h
  · left; exact (List.mem_filter.mp h).1
  · rename_i h1
    rcases mem_setK h with rfl | h
    · right; exact ⟨rfl, h1⟩
    · left; exact h

theorem keys_decK_subset {s : Sel} {k k' : Key} (hk : hasK s k = true) (h : k' ∈ (decK s k).map (·.1)) :
    k' ∈ s.map (·.1) := by
  obtain ⟨p, hp, rfl⟩ := List.mem_map.mp h
  rcases mem_decK hp with hp | ⟨rfl, _⟩
  · exact List.mem_map.mpr ⟨p, hp, rfl⟩
  · exact (hasK_iff s k).mp hk

theorem hasK_decK_ne {s : Sel} {k k' : Key} (h : hasK s k' = true) (hne : k' ≠ k) : hasK (decK s k) k' = true := by
  unfold decK
  split
  · rw [hasK_iff, keys_delK, List.mem_filter]
    exact ⟨(hasK_iff _ _).mp h, by simpa using hne⟩
  · rw [hasK_setK, h]; rfl

/-! ### the invariant of the withdrawal loop -/

/-- invariant of `selected` in `_subtract_overaward` (no previous gains) -/
structure SubInv (votes : Votes) (q : Rat) (sel : Sel) : Prop where
  pos : ∀ p ∈ sel, 0 < p.2
  keyok : ∀ p ∈ sel, KeyOK (keys votes) p.1
  nd : KNodup sel
  /-- a party never holds more seats than it has whole quotas -/
  marg : ∀ c m, (Key.cand c, m) ∈ sel → q * (m : Rat) ≤ getD votes c 0
  /-- at most one key is a `Tie` -/
  oneTie : ∀ T T', Key.tie T ∈ sel.map (·.1) → Key.tie T' ∈ sel.map (·.1) → T = T'
  /-- a `Tie` holds fewer seats than it has members -/
  tieBig : ∀ T m, (Key.tie T, m) ∈ sel → m < T.length

/-- no key is a `Tie` -/
def NoTie (sel : Sel) : Prop := ∀ T, Key.tie T ∉ sel.map (·.1)

theorem SubInv.decK {votes : Votes} {q : Rat} {sel : Sel} (hq : 0 ≤ q) (inv : SubInv votes q sel) {k : Key}
    (hk : hasK sel k = true) : SubInv votes q (decK sel k) := by
  have hmem := getK_mem_of_hasK hk
  have hg := inv.pos _ hmem
  simp only at hg
  refine ⟨?_, ?_, KNodup_decK inv.nd k, ?_, ?_, ?_⟩
  · intro p hp
    rcases mem_decK hp with hp | ⟨rfl, h1⟩
    · exact inv.pos p hp
    · simp only; omega
  · intro p hp
    rcases mem_decK hp with hp | ⟨rfl, _⟩
    · exact inv.keyok p hp
    · exact inv.keyok (k, getK sel k 0) hmem
  · intro c m hp
    rcases mem_decK hp with hp | ⟨he, _⟩
    · exact inv.marg c m hp
    · injection he with he1 he2
      subst he1
      have := inv.marg c _ hmem
      rw [he2]
      push_cast
      nlinarith
  · intro T T' hT hT'
    exact inv.oneTie T T' (keys_decK_subset hk hT) (keys_decK_subset hk hT')
  · intro T m hp
    rcases mem_decK hp with hp | ⟨he, _⟩
    · exact inv.tieBig T m hp
    · injection he with he1 he2
      subst he1
      have := inv.tieBig T _ hmem
      omega

theorem SubInv.foldl_decK {votes : Votes} {q : Rat} (hq : 0 ≤ q) (cs : List Cand) : ∀ (sel : Sel),
    SubInv votes q sel → cs.Nodup → (∀ c ∈ cs, hasK sel (.cand c) = true) →
    SubInv votes q (cs.foldl (fun acc c => QD.decK acc (.cand c)) sel) ∧
      ∀ k, k ∈ (cs.foldl (fun acc c => QD.decK acc (.cand c)) sel).map (·.1) → k ∈ sel.map (·.1) := by
  induction cs with
  | nil => intro sel inv _ _; exact ⟨inv, fun _ h => h⟩
  | cons c cs ih =>
    intro sel inv hnd hall
    have hnd' := List.nodup_cons.mp hnd
    have hc := hall c List.mem_cons_self
    simp only [List.foldl_cons]
    obtain ⟨h1, h2⟩ := ih (QD.decK sel (.cand c)) (inv.decK hq hc) hnd'.2 (by
      intro c' hc'
      refine hasK_decK_ne (hall c' (List.mem_cons_of_mem _ hc')) ?_
      intro e; injection e with e; subst e; exact hnd'.1 hc')
    exact ⟨h1, fun k hk => keys_decK_subset hc (h2 k hk)⟩

theorem SubInv.setK_tie {votes : Votes} {q : Rat} {sel : Sel} (inv : SubInv votes q sel) (hno : NoTie sel)
    {T : List Cand} {v : Int} (hv : 0 < v) (hv2 : v < T.length) (hT : KeyOK (keys votes) (Key.tie T)) :
    SubInv votes q (setK sel (Key.tie T) v) := by
  have hg := goodSel_setK (cands := keys votes) ⟨inv.pos, inv.keyok⟩ hv hT
  refine ⟨hg.1, hg.2, KNodup_setK inv.nd _ _, ?_, ?_, ?_⟩
  · intro c m hp
    rcases mem_setK hp with he | hp
    · cases he
    · exact inv.marg c m hp
  · have key : ∀ T1, Key.tie T1 ∈ (setK sel (Key.tie T) v).map (·.1) → T = T1 := by
      intro T1 h1
      have := (hasK_iff _ _).mpr h1
      rw [hasK_setK] at this
      have hn : hasK sel (Key.tie T1) = false := by
        rw [← Bool.not_eq_true]; intro hh; exact hno T1 ((hasK_iff _ _).mp hh)
      rw [hn] at this
      simp only [Bool.false_or, decide_eq_true_eq] at this
      injection this
    intro T1 T2 h1 h2
    rw [← key T1 h1, ← key T2 h2]
  · intro T1 m hp
    rcases mem_setK hp with he | hp
    · injection he with he1 he2
      injection he1 with he1
      rw [he1, he2]; exact hv2
    · exact inv.tieBig T1 m hp

/-! ### the remainders dict of one pass -/

theorem margin_cand (votes : Votes) (q : Rat) (c : Cand) (m : Int) :
    margin votes q [] (Key.cand c, m) = getD votes c 0 - q * (m : Rat) := by
  unfold margin votesOfKey prevOfKey
  simp [getI_nil]

theorem margin_tie (votes : Votes) (q : Rat) (T : List Cand) (m : Int) :
    margin votes q [] (Key.tie T, m) = - (q * (m : Rat)) := by
  unfold margin votesOfKey prevOfKey
  simp

theorem keys_subRemainders (votes : Votes) (q : Rat) (prev : IMap) (sel : Sel) :
    (subRemainders votes q prev sel).map (·.1) = List.range sel.length := by
  unfold subRemainders
  rw [List.map_map]
  have : ((fun x : Cand × Rat => x.1) ∘ fun ip : Nat × (Key × Int) =>
      (ip.1, -(votesOfKey votes ip.2.1 - q * (((ip.2.2 + prevOfKey prev ip.2.1 : Int)) : Rat)))) = Prod.fst := rfl
  rw [this]
  exact List.map_fst_zip (by simp)

theorem level_subRemainders_nodup (votes : Votes) (q : Rat) (prev : IMap) (sel : Sel) (t : Rat) :
    (level (subRemainders votes q prev sel) t).Nodup := by
  unfold level
  refine List.Nodup.sublist (List.Sublist.map _ List.filter_sublist) ?_
  rw [keys_subRemainders]
  exact List.nodup_range

theorem mem_level_subRemainders {votes : Votes} {q : Rat} {prev : IMap} {sel : Sel} {t : Rat} {i : Nat} :
    i ∈ level (subRemainders votes q prev sel) t ↔ ∃ e, sel[i]? = some e ∧ - margin votes q prev e = t := by
  unfold level
  simp only [List.mem_map, List.mem_filter, decide_eq_true_eq]
  constructor
  · rintro ⟨y, ⟨hy, hyt⟩, rfl⟩
    obtain ⟨e, he, hye⟩ := mem_subRemainders.mp hy
    exact ⟨e, he, by rw [← hyt, hye]⟩
  · rintro ⟨e, he, hme⟩
    exact ⟨(i, - margin votes q prev e), ⟨mem_subRemainders.mpr ⟨e, he, rfl⟩, hme⟩, rfl⟩

theorem keyAt_of_get {sel : Sel} {i : Nat} {e : Key × Int} (h : sel[i]? = some e) : keyAt sel i = e.1 := by
  unfold keyAt; rw [h]

theorem exists_ne_of_nodup {L : List Nat} (hnd : L.Nodup) (hl : L.length ≠ 1) {i : Nat} (hi : i ∈ L) :
    ∃ j ∈ L, j ≠ i := by
  match L, hnd, hl, hi with
  | [a], _, hl, _ => exact absurd rfl hl
  | a :: b :: rest, hnd, _, _ =>
    have hab : a ≠ b := by intro e; subst e; simp at hnd
    by_cases h : a = i
    · exact ⟨b, by simp, fun e => hab (h.trans e.symm)⟩
    · exact ⟨a, by simp, h⟩

theorem mapM_candOfKey_of_cands (ks : List Key) (h : ∀ k ∈ ks, ∃ c, k = Key.cand c) :
    ∃ cs, ks.mapM candOfKey = some cs := by
  induction ks with
  | nil => exact ⟨[], rfl⟩
  | cons k ks ih =>
    obtain ⟨c, rfl⟩ := h k List.mem_cons_self
    obtain ⟨cs, hcs⟩ := ih (fun k' hk' => h k' (List.mem_cons_of_mem _ hk'))
    refine ⟨c :: cs, ?_⟩
    rw [List.mapM_cons, hcs]
    rfl

/-! ### one pass of the loop never fails and keeps the invariant -/

theorem subtractStep_ok {votes : Votes} {q : Rat} {sel : Sel} (hq : 0 < q) (inv : SubInv votes q sel)
    (hne : sel ≠ []) : ∃ sel', subtractStep votes q [] sel = .ok sel' ∧ SubInv votes q sel' := by
  obtain ⟨t, ⟨x, hx, hxt⟩, hall, hbest⟩ := getNBest_one (subRemainders votes q [] sel) (subRemainders_ne_nil hne)
  -- remainders: parties `≤ 0`, Tie keys `> 0`
  have hcand : ∀ e ∈ sel, ∀ c, e.1 = Key.cand c → - margin votes q [] e ≤ 0 := by
    rintro ⟨k, m⟩ he c hk
    simp only at hk; subst hk
    rw [margin_cand]
    have := inv.marg c m he
    linarith
  have htie : ∀ e ∈ sel, ∀ T, e.1 = Key.tie T → 0 < - margin votes q [] e := by
    rintro ⟨k, m⟩ he T hk
    simp only at hk; subst hk
    rw [margin_tie, neg_neg]
    have : (0 : Rat) < (m : Rat) := by exact_mod_cast inv.pos _ he
    positivity
  have hmax : ∀ e ∈ sel, - margin votes q [] e ≤ t := by
    intro e he
    obtain ⟨i, hi, hie⟩ := List.mem_iff_getElem.mp he
    exact hall (i, - margin votes q [] e)
      (mem_subRemainders.mpr ⟨e, by rw [← hie]; exact List.getElem?_eq_getElem hi, rfl⟩)
  have hLnd := level_subRemainders_nodup votes q [] sel t
  have hLmem : ∀ i ∈ level (subRemainders votes q [] sel) t, ∃ e, e ∈ sel ∧ sel[i]? = some e ∧
      keyAt sel i = e.1 ∧ - margin votes q [] e = t := by
    intro i hi
    obtain ⟨e, he, hm⟩ := mem_level_subRemainders.mp hi
    exact ⟨e, List.mem_of_getElem? he, he, keyAt_of_get he, hm⟩
  unfold subtractStep
  rw [hbest]
  by_cases hl : (level (subRemainders votes q [] sel) t).length = 1
  · rw [if_pos hl]
    obtain ⟨i, hi⟩ := List.length_eq_one_iff.mp hl
    obtain ⟨e, hes, _, hk, _⟩ := hLmem i (by rw [hi]; exact List.mem_singleton_self i)
    rw [hi]
    refine ⟨_, rfl, inv.decK (le_of_lt hq) ?_⟩
    rw [hk]; exact hasK_of_mem hes
  · rw [if_neg hl]
    -- several entries share the largest remainder: none of them is a Tie key
    have hallcand : ∀ i ∈ level (subRemainders votes q [] sel) t, ∃ c, keyAt sel i = Key.cand c := by
      intro i hi
      obtain ⟨e, hes, hget, hk, hm⟩ := hLmem i hi
      cases hek : e.1 with
      | cand c => exact ⟨c, by rw [hk, hek]⟩
      | tie T =>
        exfalso
        have htpos : 0 < t := hm ▸ htie e hes T hek
        obtain ⟨j, hj, hji⟩ := exists_ne_of_nodup hLnd hl hi
        obtain ⟨e', hes', hget', _, hm'⟩ := hLmem j hj
        cases hek' : e'.1 with
        | cand c' =>
          have := hcand e' hes' c' hek'
          rw [hm'] at this
          linarith
        | tie T' =>
          have hTT : T = T' := inv.oneTie T T' (List.mem_map.mpr ⟨e, hes, hek⟩) (List.mem_map.mpr ⟨e', hes', hek'⟩)
          apply hji
          have hjlt : j < (sel.map (·.1)).length := by
            rw [List.length_map]; exact (List.getElem?_eq_some_iff.mp hget').1
          refine (List.getElem?_inj hjlt inv.nd).mp ?_
          rw [List.getElem?_map, List.getElem?_map, hget, hget']
          simp only [Option.map_some, hek, hek', hTT]
    obtain ⟨cs, hcs⟩ := mapM_candOfKey_of_cands ((level (subRemainders votes q [] sel) t).map (keyAt sel)) (by
      intro k hk
      obtain ⟨i, hi, rfl⟩ := List.mem_map.mp hk
      exact hallcand i hi)
    have hks := mapM_candOfKey_some _ _ hcs
    simp only [hcs]
    -- the tied parties are distinct holders
    have hcsnd : cs.Nodup := by
      have h1 : ((level (subRemainders votes q [] sel) t).map (keyAt sel)).Nodup := by
        refine List.Nodup.map_on ?_ hLnd
        intro i hi j hj hij
        obtain ⟨e, _, hget, hk, _⟩ := hLmem i hi
        obtain ⟨e', _, hget', hk', _⟩ := hLmem j hj
        have hilt : i < (sel.map (·.1)).length := by
          rw [List.length_map]; exact (List.getElem?_eq_some_iff.mp hget).1
        refine (List.getElem?_inj hilt inv.nd).mp ?_
        rw [List.getElem?_map, List.getElem?_map, hget, hget']
        simp only [Option.map_some]
        rw [← hk, ← hk', hij]
      rw [hks] at h1
      exact List.Nodup.of_map _ h1
    have hcsmem : ∀ c ∈ cs, hasK sel (Key.cand c) = true ∧ c ∈ keys votes := by
      intro c hc
      have : Key.cand c ∈ (level (subRemainders votes q [] sel) t).map (keyAt sel) := by
        rw [hks]; exact List.mem_map.mpr ⟨c, hc, rfl⟩
      obtain ⟨i, hi, hic⟩ := List.mem_map.mp this
      obtain ⟨e, hes, _, hk, _⟩ := hLmem i hi
      have hek : e.1 = Key.cand c := by rw [← hk, hic]
      refine ⟨hek ▸ hasK_of_mem hes, ?_⟩
      have := inv.keyok e hes
      rw [hek] at this
      exact this
    have hLpos : 0 < (level (subRemainders votes q [] sel) t).length :=
      List.length_pos_of_mem (mem_level_subRemainders.mpr (by
        obtain ⟨e, he, hxe⟩ := mem_subRemainders.mp hx
        exact ⟨e, he, by rw [← hxe, hxt]⟩) : x.1 ∈ _)
    have hTok : KeyOK (keys votes) (mkTie cs) := keyOK_mkTie (fun c hc => (hcsmem c hc).2)
    split
    · rename_i hk
      exact ⟨_, rfl, inv.decK (le_of_lt hq) hk⟩
    · -- a fresh Tie object: it receives `len − 1 ≥ 1` seats, and it is the only Tie key
      have hlen : 2 ≤ cs.length := by
        have h1 : cs.length = (level (subRemainders votes q [] sel) t).length := by
          have := congrArg List.length hks
          simpa using this.symm
        omega
      have hno : NoTie sel := by
        intro T hT
        obtain ⟨e, hes, hek⟩ := List.mem_map.mp hT
        have h1 := htie e hes T hek
        have h2 := hmax e hes
        -- `t` is the remainder of a party
        obtain ⟨i, hi⟩ := List.exists_mem_of_length_pos hLpos
        obtain ⟨c, hc⟩ := hallcand i hi
        obtain ⟨e0, hes0, _, hk0, hm0⟩ := hLmem i hi
        have := hcand e0 hes0 c (by rw [← hk0, hc])
        rw [hm0] at this
        linarith
      obtain ⟨inv', hsub⟩ := SubInv.foldl_decK (le_of_lt hq) cs sel inv hcsnd (fun c hc => (hcsmem c hc).1)
      have hno' : NoTie (cs.foldl (fun acc c => QD.decK acc (.cand c)) sel) := fun T hT => hno T (hsub _ hT)
      refine ⟨_, rfl, ?_⟩
      unfold mkTie
      have hz : getK (cs.foldl (fun acc c => QD.decK acc (.cand c)) sel) (Key.tie (sortNat cs)) 0 = 0 := by
        apply getK_of_not_hasK
        rw [← Bool.not_eq_true]
        intro hh
        exact hno' _ ((hasK_iff _ _).mp hh)
      rw [hz]
      refine inv'.setK_tie hno' (by omega) (by rw [length_sortNat]; omega) hTok

/-- **the withdrawal loop never fails** while `selected` holds at least as many seats as there are passes to run -/
theorem subtractLoop_ok {votes : Votes} {q : Rat} (hq : 0 < q) : ∀ (k : Nat) (sel : Sel), SubInv votes q sel →
    (k : Int) ≤ sumK sel → ∃ r, subtractLoop votes q [] k sel = .ok r ∧ SubInv votes q r
  | 0, sel, inv, _ => ⟨sel, rfl, inv⟩
  | k + 1, sel, inv, hk => by
    have hne : sel ≠ [] := by
      intro e; subst e; rw [sumK_nil] at hk; push_cast at hk; omega
    obtain ⟨sel', hs, inv'⟩ := subtractStep_ok hq inv hne
    obtain ⟨hsum, _⟩ := subtractStep_sum votes q [] sel sel' inv.nd hs
    obtain ⟨r, hr, invr⟩ := subtractLoop_ok hq k sel' inv' (by rw [hsum]; push_cast at hk; omega)
    refine ⟨r, ?_, invr⟩
    unfold subtractLoop
    rw [hs]
    exact hr

/-! ### the whole-quota dict satisfies the invariant -/

theorem SubInv.wholeSel {votes : Votes} {q : Rat} (hq : 0 < q) (ae : Bool) (hwf : C02.WF votes []) :
    SubInv votes q (wholeSel q ae [] [] votes) := by
  have hg := goodSel_wholeSel q ae [] [] votes
  refine ⟨hg.1, hg.2, KNodup_wholeSel q ae [] [] votes hwf.keys_nodup, ?_, ?_, ?_⟩
  · intro c m hp
    unfold QD.wholeSel at hp
    obtain ⟨p, hpv, he⟩ := List.mem_filterMap.mp hp
    split at he
    · injection he with he
      injection he with he1 he2
      injection he1 with he1
      subst he1
      rw [← he2, wholeAward_nil hq ae p (hwf.votes_nonneg p hpv),
        sub_getD_of_mem hwf.keys_nodup (show (p.1, p.2) ∈ votes from hpv)]
      have h1 := (rem_bounds (v := p.2) hq ae).1
      have h2 : ((wholeQ q ae p.2 : Int) : Rat) ≤ p.2 / q := by linarith
      rw [le_div_iff₀ hq] at h2
      linarith
    · cases he
  · intro T T' hT _
    obtain ⟨p, _, he⟩ := mem_keys_wholeSel hT
    cases he
  · intro T m hT
    obtain ⟨p, _, he⟩ := mem_keys_wholeSel (List.mem_map.mpr ⟨_, hT, rfl⟩)
    cases he

theorem sub_totalAwarded_nonneg (q : Rat) (ae : Bool) (votes : Votes) : 0 ≤ C02.totalAwarded q ae [] [] votes := by
  unfold C02.totalAwarded
  rw [sumK_wholeSel]
  have : 0 ≤ (votes.map (wholeAward q ae [] [])).sum := by
    induction votes with
    | nil => simp
    | cons x xs ih =>
      simp only [List.map_cons, List.sum_cons]
      have := wholeAward_nonneg q ae [] [] x
      omega
  have h0 : sumI [] = 0 := rfl
  omega

/-- under `'subtract'` the distributor is the withdrawal loop run `awarded − n` times on the whole-quota dict, and that
    loop succeeds with a dict satisfying the invariant -/
theorem qd_subtract_run (cfg : Cfg) (votes : Votes) (n : Nat) (hwf : C02.WF votes [])
    (hq : 0 < cfg.quota (sumVals votes) n) (hpol : cfg.onOver = .subtract) :
    ∃ res, quotaDistribute cfg votes n [] [] = .ok res ∧ SubInv votes (cfg.quota (sumVals votes) n) res := by
  have hinv := SubInv.wholeSel hq cfg.acceptEqual hwf
  rw [C02.qd_whole_quotas cfg votes n [] [] hwf hq]
  unfold applyPolicy
  simp only
  split
  · rw [hpol]
    simp only [subtractOveraward]
    have h0 : sumI [] = 0 := rfl
    exact subtractLoop_ok hq _ _ hinv (by rw [h0]; omega)
  · exact ⟨_, rfl, hinv⟩

/-- **QuotaDistributor, policy `'subtract'`** (`evaluate(votes, n)`, positive quota): every answer has positive awards
    to parties of the votes or `Tie`s of them, no key twice, never more than `n` seats, and exactly `n` seats whenever
    the whole quotas over-award (i.e. whenever the policy is consulted). -/
theorem qd_subtract_shape (cfg : Cfg) (votes : Votes) (n : Nat) (hwf : C02.WF votes [])
    (hq : 0 < cfg.quota (sumVals votes) n) (hpol : cfg.onOver = .subtract) :
    ∀ res, quotaDistribute cfg votes n [] [] = .ok res →
      DistShapeI (keys votes) res ∧ sumK res ≤ n ∧
      ((n : Int) < C02.totalAwarded (cfg.quota (sumVals votes) n) cfg.acceptEqual [] [] votes → sumK res = n) := by
  intro res hres
  obtain ⟨r, hr, inv⟩ := qd_subtract_run cfg votes n hwf hq hpol
  rw [hres] at hr
  injection hr with hr
  subst hr
  have h0 : sumI [] = 0 := rfl
  have hover : (n : Int) < C02.totalAwarded (cfg.quota (sumVals votes) n) cfg.acceptEqual [] [] votes → sumK res = n := by
    intro hgt
    have := C02.qd_policy_subtract_total cfg votes n [] [] hwf hq hpol hgt res hres
    omega
  refine ⟨distShapeI_of _ _ inv.pos inv.keyok inv.nd, ?_, hover⟩
  rcases lt_or_ge (n : Int) (C02.totalAwarded (cfg.quota (sumVals votes) n) cfg.acceptEqual [] [] votes) with hgt | hle
  · exact le_of_eq (hover hgt)
  · rw [C02.qd_no_overaward cfg votes n [] [] hwf hq hle] at hres
    injection hres with hres
    subst hres
    unfold C02.totalAwarded at hle
    omega

/-- more about the answers under `'subtract'`: at most one key is a `Tie`, a `Tie` holds fewer seats than it has
    members (the analogue of `SelShape.tie_big`), and no party keeps more seats than it has whole quotas -/
theorem qd_subtract_ties (cfg : Cfg) (votes : Votes) (n : Nat) (hwf : C02.WF votes [])
    (hq : 0 < cfg.quota (sumVals votes) n) (hpol : cfg.onOver = .subtract) :
    ∀ res, quotaDistribute cfg votes n [] [] = .ok res →
      (∀ T T' m m', (Key.tie T, m) ∈ res → (Key.tie T', m') ∈ res → T = T') ∧
      (∀ T m, (Key.tie T, m) ∈ res → m < T.length) ∧
      (∀ c m, (Key.cand c, m) ∈ res → cfg.quota (sumVals votes) n * (m : Rat) ≤ getD votes c 0) := by
  intro res hres
  obtain ⟨r, hr, inv⟩ := qd_subtract_run cfg votes n hwf hq hpol
  rw [hres] at hr
  injection hr with hr
  subst hr
  exact ⟨fun T T' m m' h h' => inv.oneTie T T' (List.mem_map.mpr ⟨_, h, rfl⟩) (List.mem_map.mpr ⟨_, h', rfl⟩),
    inv.tieBig, inv.marg⟩

/-- **QuotaDistributor, policy `'subtract'`: no refusal at all.**  For `evaluate(votes, n)` with a positive quota the
    withdrawal loop can raise neither `IndexError` (`get_n_best({}, 1)[0]`: `selected` is never empty while seats
    remain to be withdrawn) nor form a `Tie` of `Tie`s (the model's `Model:NestedTie`: at most one key is a `Tie`), and
    `VotingSystemError` belongs to policy `'error'`: there is no error outcome. -/
theorem qd_subtract_refusals (cfg : Cfg) (votes : Votes) (n : Nat) (hwf : C02.WF votes [])
    (hq : 0 < cfg.quota (sumVals votes) n) (hpol : cfg.onOver = .subtract) :
    (∃ res, quotaDistribute cfg votes n [] [] = .ok res) ∧ ∀ e, quotaDistribute cfg votes n [] [] ≠ .error e := by
  obtain ⟨r, hr, _⟩ := qd_subtract_run cfg votes n hwf hq hpol
  exact ⟨⟨r, hr⟩, fun e he => by rw [hr] at he; cases he⟩

/-- **LargestRemainder, policy `'subtract'`** (`evaluate(votes, n)`, `n ≤ #parties`, positive quota): it always
    answers, with positive awards to parties of the votes or `Tie`s of them, no key twice, and **exactly `n` seats**. -/
theorem lr_subtract_shape (cfg : Cfg) (votes : Votes) (n : Nat) (hwf : C02.WF votes [])
    (hq : 0 < cfg.quota (sumVals votes) n) (hlen : n ≤ votes.length) (hpol : cfg.onOver = .subtract) :
    ∀ res, largestRemainder cfg votes n [] [] = .ok res → DistShapeI (keys votes) res ∧ sumK res = n := by
  intro res h
  have hgood := goodSel_wholeSel (cfg.quota (sumVals votes) n) cfg.acceptEqual [] [] votes
  have hnd := KNodup_wholeSel (cfg.quota (sumVals votes) n) cfg.acceptEqual [] [] votes hwf.keys_nodup
  have h0 : sumI [] = 0 := rfl
  rcases lt_or_ge (n : Int) (C02.totalAwarded (cfg.quota (sumVals votes) n) cfg.acceptEqual [] [] votes) with hgt | hle
  · -- the whole quotas over-award: `LargestRemainder` returns what its `QuotaDistributor` returns
    rw [(C02.lr_policy_subtract cfg votes n [] [] hwf hq hpol hgt).1] at h
    obtain ⟨hs, _, hsum⟩ := qd_subtract_shape cfg votes n hwf hq hpol res h
    exact ⟨hs, hsum hgt⟩
  · -- no over-award: the policy is not consulted (as in `lr_shape`)
    have hplain : C02.Plain cfg votes n [] [] := ⟨hwf, hq, hle⟩
    have htot := C02.lr_total cfg votes n [] [] hplain (by
      rw [lrRems_plain hq cfg.acceptEqual votes hwf.votes_nonneg, List.length_map]
      have := sub_totalAwarded_nonneg (cfg.quota (sumVals votes) n) cfg.acceptEqual votes
      unfold C02.remSeats
      omega) res h
    rw [C02.lr_whole_then_remainders cfg votes n [] [] hplain] at h
    injection h with h; subst h
    refine ⟨?_, by omega⟩
    have hkeys : ∀ s ∈ C02.lrBest (cfg.quota (sumVals votes) n) cfg.acceptEqual n [] [] votes,
        KeyOK (keys votes) (slotKey s) := fun s hs =>
      (keyOK_slotKey_getNBest _ _ s hs).mono (keys_lrRems_subset _ _ _ _ _)
    have hg := goodSel_foldl_incK _ hkeys _ hgood
    exact distShapeI_of _ _ hg.1 hg.2 (KNodup_foldl_incK _ _ hnd)

/-- **LargestRemainder, policy `'subtract'`: no refusal at all** -/
theorem lr_subtract_refusals (cfg : Cfg) (votes : Votes) (n : Nat) (hwf : C02.WF votes [])
    (hq : 0 < cfg.quota (sumVals votes) n) (hpol : cfg.onOver = .subtract) :
    (∃ res, largestRemainder cfg votes n [] [] = .ok res) ∧ ∀ e, largestRemainder cfg votes n [] [] ≠ .error e := by
  have hex : ∃ res, largestRemainder cfg votes n [] [] = .ok res := by
    rcases lt_or_ge (n : Int) (C02.totalAwarded (cfg.quota (sumVals votes) n) cfg.acceptEqual [] [] votes) with hgt | hle
    · rw [(C02.lr_policy_subtract cfg votes n [] [] hwf hq hpol hgt).1]
      exact (qd_subtract_refusals cfg votes n hwf hq hpol).1
    · exact ⟨_, C02.lr_whole_then_remainders cfg votes n [] [] ⟨hwf, hq, hle⟩⟩
  obtain ⟨r, hr⟩ := hex
  exact ⟨⟨r, hr⟩, fun e he => by rw [hr] at he; cases he⟩

/-- non-vacuity (Imperiali over-awards 6 seats for a house of 4): the first pass finds the three parties tied and hands
    `3 − 1 = 2` seats to a fresh `Tie`, the second pass withdraws one seat from that `Tie` (its "remainder" `q·2 > 0`
    is the unique maximum) -/
example : C02.WF [(0, 6), (1, 6), (2, 6), (3, 0)] [] ∧
    0 < Gen.Quota.imperiali (sumVals [(0, 6), (1, 6), (2, 6), (3, 0)]) 4 ∧
    (4 : Int) < C02.totalAwarded (Gen.Quota.imperiali (sumVals [(0, 6), (1, 6), (2, 6), (3, 0)]) 4) true [] []
      [(0, 6), (1, 6), (2, 6), (3, 0)] ∧
    quotaDistribute ⟨Gen.Quota.imperiali, true, .subtract⟩ [(0, 6), (1, 6), (2, 6), (3, 0)] 4 [] [] =
      .ok [(.cand 0, 1), (.cand 1, 1), (.cand 2, 1), (.tie [0, 1, 2], 1)] ∧
    largestRemainder ⟨Gen.Quota.imperiali, true, .subtract⟩ [(0, 6), (1, 6), (2, 6), (3, 0)] 4 [] [] =
      .ok [(.cand 0, 1), (.cand 1, 1), (.cand 2, 1), (.tie [0, 1, 2], 1)] := by
  refine ⟨by unfold C02.WF; decide +kernel, by decide +kernel, by decide +kernel, by decide +kernel, by decide +kernel⟩

/-- non-vacuity: a `Tie` entry that drops to 0 is deleted (two tied parties, two seats to withdraw) -/
example : quotaDistribute ⟨Gen.Quota.imperiali, true, .subtract⟩ [(0, 5), (1, 5)] 2 [] [] =
    .ok [(.cand 0, 1), (.cand 1, 1)] := by decide +kernel

end VL.C08
