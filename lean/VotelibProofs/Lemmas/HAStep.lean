/-
  Preservation of the highest-averages invariant by one loop iteration, by the initial state, and by the loop.
-/
import VotelibProofs.Lemmas.HA
namespace VL
open HACfg

theorem haStep_inv (cfg : HACfg) (h : CfgOK cfg) (s : HAState) (hi : Inv cfg s) (hrem : s.rem ≠ 0) :
    Inv cfg (haStep cfg s) := by
  have htie : s.tie = none := by
    cases ht : s.tie with
    | none => rfl
    | some tm => obtain ⟨T, m⟩ := tm; exact absurd (hi.tie_ok T m ht).1 hrem
  have hts : tieSeats s = 0 := by unfold tieSeats; rw [htie]
  unfold haStep
  cases hm : maxQ s.pool with
  | none => simpa using hi
  | some m =>
    simp only
    have hmax := maxQ_ge s.pool m hm
    split
    · -- tie: more parties at the maximal quotient than seats left
      rename_i hgt
      refine ⟨hi.pool_q, hi.pool_nd, hi.pool_cap, hi.pool_key, hi.pool_all, hi.seated, hi.ge_prev, hi.le_cap,
        hi.only_keys, ?_, ?_⟩
      · have := hi.count
        rw [hts] at this
        simp only [tieSeats, awarded] at this ⊢
        omega
      · intro T m' he
        simp only [Option.some.injEq, Prod.mk.injEq] at he
        obtain ⟨hT, hm'⟩ := he
        subst hT; subst hm'
        exact ⟨rfl, Nat.pos_of_ne_zero hrem, hgt, m, hmax, rfl⟩
    · rename_i hfit
      generalize hbatch : (s.pool.filter (fun p => p.2 = m)).map (·.1) = batch at hfit ⊢
      have hfit' : batch.length ≤ s.rem := Nat.le_of_not_gt hfit
      have hbnd : batch.Nodup := by rw [← hbatch]; exact batch_nodup hi.pool_nd m
      have hbmem : ∀ c, c ∈ batch ↔ ∃ p ∈ s.pool, p.2 = m ∧ p.1 = c := by
        intro c
        rw [← hbatch]
        simp only [List.mem_map, List.mem_filter, decide_eq_true_eq]
        constructor
        · rintro ⟨p, ⟨hp, hpm⟩, rfl⟩; exact ⟨p, hp, hpm, rfl⟩
        · rintro ⟨p, hp, hpm, rfl⟩; exact ⟨p, ⟨hp, hpm⟩, rfl⟩
      have hbq : ∀ c ∈ batch, cfg.quot c (s.tot c) = m := by
        intro c hc
        obtain ⟨p, hp, hpm, rfl⟩ := (hbmem c).mp hc
        rw [← hi.pool_q p hp]; exact hpm
      have hbcap : ∀ c ∈ batch, s.tot c < cfg.capOf c := by
        intro c hc
        obtain ⟨p, hp, _, rfl⟩ := (hbmem c).mp hc
        exact hi.pool_cap p hp
      have hbkey : ∀ c ∈ batch, c ∈ keys cfg.votes := by
        intro c hc
        obtain ⟨p, hp, _, rfl⟩ := (hbmem c).mp hc
        exact hi.pool_key p hp
      have hrest_notin : ∀ p ∈ s.pool, p.2 ≠ m → p.1 ∉ batch := by
        intro p hp hne hin
        obtain ⟨q, hq, hqm, hqk⟩ := (hbmem p.1).mp hin
        have := entry_unique hi.pool_nd hq hp hqk
        rw [this] at hqm
        exact hne hqm
      have hbump_in : ∀ c ∈ batch, bumpAll s.tot batch c = s.tot c + 1 := by
        intro c hc; unfold bumpAll; rw [if_pos hc]
      have hbump_out : ∀ c, c ∉ batch → bumpAll s.tot batch c = s.tot c := by
        intro c hc; unfold bumpAll; rw [if_neg hc]
      have hnew : ∀ p, p ∈ (s.pool.filter (fun p => p.2 ≠ m)) ++ batch.filterMap (fun c =>
            if bumpAll s.tot batch c < cfg.capOf c then some (c, cfg.quot c (bumpAll s.tot batch c)) else none) ↔
          (p ∈ s.pool ∧ p.2 ≠ m) ∨
          (p.1 ∈ batch ∧ s.tot p.1 + 1 < cfg.capOf p.1 ∧ p.2 = cfg.quot p.1 (s.tot p.1 + 1)) := by
        intro p
        simp only [List.mem_append, List.mem_filter, List.mem_filterMap, decide_eq_true_eq, ne_eq,
          decide_not, Bool.not_eq_eq_eq_not, Bool.not_true, decide_eq_false_iff_not]
        constructor
        · rintro (h1 | ⟨c, hc, hcond⟩)
          · exact Or.inl h1
          · right
            rw [hbump_in c hc] at hcond
            split at hcond
            · rename_i hlt
              simp only [Option.some.injEq] at hcond
              subst hcond
              exact ⟨hc, hlt, rfl⟩
            · simp at hcond
        · rintro (h1 | ⟨hc, hlt, hq⟩)
          · exact Or.inl h1
          · right
            refine ⟨p.1, hc, ?_⟩
            rw [hbump_in p.1 hc, if_pos hlt, ← hq]
      refine ⟨?_, ?_, ?_, ?_, ?_, ?_, ?_, ?_, ?_, ?_, ?_⟩ <;> try dsimp only
      · -- pool_q
        intro p hp
        rcases (hnew p).mp hp with ⟨hp1, hp2⟩ | ⟨hc, _, hq⟩
        · rw [hbump_out _ (hrest_notin p hp1 hp2)]; exact hi.pool_q p hp1
        · rw [hbump_in _ hc]; exact hq
      · -- pool_nd
        rw [List.map_append, List.nodup_append]
        refine ⟨List.Nodup.sublist (List.Sublist.map _ List.filter_sublist) hi.pool_nd, ?_, ?_⟩
        · rw [filterMap_keys]; exact hbnd.filter _
        · intro a ha b hb
          rw [filterMap_keys] at hb
          have hb' : b ∈ batch := (List.mem_filter.mp hb).1
          obtain ⟨p, hp, rfl⟩ := List.mem_map.mp ha
          have hp' := List.mem_filter.mp hp
          have hne : p.2 ≠ m := by simpa using hp'.2
          intro heq
          exact hrest_notin p hp'.1 hne (heq ▸ hb')
      · -- pool_cap
        intro p hp
        rcases (hnew p).mp hp with ⟨hp1, hp2⟩ | ⟨hc, hlt, _⟩
        · rw [hbump_out _ (hrest_notin p hp1 hp2)]; exact hi.pool_cap p hp1
        · rw [hbump_in _ hc]; exact hlt
      · -- pool_key
        intro p hp
        rcases (hnew p).mp hp with ⟨hp1, _⟩ | ⟨hc, _, _⟩
        · exact hi.pool_key p hp1
        · exact hbkey _ hc
      · -- pool_all
        intro c he hlt
        by_cases hc : c ∈ batch
        · rw [hbump_in c hc] at hlt
          exact List.mem_map.mpr ⟨(c, cfg.quot c (s.tot c + 1)), (hnew _).mpr (Or.inr ⟨hc, hlt, rfl⟩), rfl⟩
        · rw [hbump_out c hc] at hlt
          obtain ⟨p, hp, rfl⟩ := List.mem_map.mp (hi.pool_all c he hlt)
          have hne : p.2 ≠ m := fun hpm => hc ((hbmem p.1).mpr ⟨p, hp, hpm, rfl⟩)
          exact List.mem_map.mpr ⟨p, (hnew p).mpr (Or.inl ⟨hp, hne⟩), rfl⟩
      · -- seated
        intro c k hk1 hk2 p hp
        have hple : p.2 ≤ m := by
          rcases (hnew p).mp hp with ⟨hp1, _⟩ | ⟨hc, _, hq⟩
          · exact hmax p hp1
          · rw [hq, ← hbq p.1 hc]; exact quot_anti h _ _
        by_cases hc : c ∈ batch
        · rw [hbump_in c hc] at hk2
          rcases Nat.lt_or_ge k (s.tot c) with hlt | hge
          · -- an old seat
            rcases (hnew p).mp hp with ⟨hp1, _⟩ | ⟨hb, _, hq⟩
            · exact hi.seated c k hk1 hlt p hp1
            · obtain ⟨p0, hp0, hp0m, hp0k⟩ := (hbmem p.1).mp hb
              have := hi.seated c k hk1 hlt p0 hp0
              rw [hp0m] at this
              exact le_trans hple this
          · have hk : k = s.tot c := by omega
            rw [hk, hbq c hc]; exact hple
        · rw [hbump_out c hc] at hk2
          rcases (hnew p).mp hp with ⟨hp1, _⟩ | ⟨hb, _, hq⟩
          · exact hi.seated c k hk1 hk2 p hp1
          · obtain ⟨p0, hp0, hp0m, hp0k⟩ := (hbmem p.1).mp hb
            have := hi.seated c k hk1 hk2 p0 hp0
            rw [hp0m] at this
            exact le_trans hple this
      · -- ge_prev
        intro c
        unfold bumpAll
        split
        · exact Nat.le_succ_of_le (hi.ge_prev c)
        · exact hi.ge_prev c
      · -- le_cap
        intro c hpc
        by_cases hc : c ∈ batch
        · rw [hbump_in c hc]; exact hbcap c hc
        · rw [hbump_out c hc]; exact hi.le_cap c hpc
      · -- only_keys
        intro c hne
        by_cases hc : c ∈ batch
        · exact hbkey c hc
        · rw [hbump_out c hc] at hne; exact hi.only_keys c hne
      · -- count
        have hsum := sum_bump (haCands cfg) batch (haCands_nodup cfg) hbnd
          (fun c hc => mem_haCands_of_key (hbkey c hc)) s.tot cfg.prevOf hi.ge_prev
        have := hi.count
        rw [hts] at this
        simp only [awarded, tieSeats] at this ⊢
        rw [hsum]
        omega
      · intro T m' he
        simp at he

theorem haInit_pool_mem (cfg : HACfg) (p : Cand × Rat) :
    p ∈ (haInit cfg).pool ↔ ∃ q ∈ cfg.votes, 0 < cfg.div (cfg.prevOf q.1) ∧ cfg.prevOf q.1 < cfg.capOf q.1 ∧
      p = (q.1, q.2 / cfg.div (cfg.prevOf q.1)) := by
  unfold haInit
  simp only [List.mem_filterMap]
  constructor
  · rintro ⟨q, hq, hc⟩
    split at hc
    · rename_i hcond
      simp only [Option.some.injEq] at hc
      exact ⟨q, hq, hcond.1, hcond.2, hc.symm⟩
    · simp at hc
  · rintro ⟨q, hq, h1, h2, rfl⟩
    exact ⟨q, hq, by rw [if_pos ⟨h1, h2⟩]⟩

theorem haInit_inv (cfg : HACfg) (h : CfgOK cfg) : Inv cfg (haInit cfg) := by
  have hkeys : (haInit cfg).pool.map (·.1) =
      (cfg.votes.filter (fun p => decide (0 < cfg.div (cfg.prevOf p.1) ∧ cfg.prevOf p.1 < cfg.capOf p.1))).map (·.1) := by
    unfold haInit
    simp only
    induction cfg.votes with
    | nil => rfl
    | cons x xs ih =>
      by_cases hx : 0 < cfg.div (cfg.prevOf x.1) ∧ cfg.prevOf x.1 < cfg.capOf x.1
      · simp [List.filterMap_cons, List.filter_cons, hx, ih]
      · simp [List.filterMap_cons, List.filter_cons, hx, ih]
  refine ⟨?_, ?_, ?_, ?_, ?_, ?_, ?_, ?_, ?_, ?_, ?_⟩
  · intro p hp
    obtain ⟨q, hq, _, _, rfl⟩ := (haInit_pool_mem cfg p).mp hp
    show q.2 / _ = cfg.quot q.1 (cfg.prevOf q.1)
    unfold HACfg.quot
    rw [vote_of_mem h.nodup hq]
  · rw [hkeys]
    exact List.Nodup.sublist (List.Sublist.map _ List.filter_sublist) h.nodup
  · intro p hp
    obtain ⟨q, hq, _, h2, rfl⟩ := (haInit_pool_mem cfg p).mp hp
    exact h2
  · intro p hp
    obtain ⟨q, hq, _, _, rfl⟩ := (haInit_pool_mem cfg p).mp hp
    exact List.mem_map.mpr ⟨q, hq, rfl⟩
  · intro c he hlt
    obtain ⟨q, hq, rfl⟩ := List.mem_map.mp he.1
    exact List.mem_map.mpr ⟨_, (haInit_pool_mem cfg _).mpr ⟨q, hq, h.div_pos _, he.2, rfl⟩, rfl⟩
  · intro c k hk1 hk2
    exact absurd hk2 (by simp only [haInit]; omega)
  · intro c; exact le_refl _
  · intro c hc; exact hc
  · intro c hne; exact absurd rfl hne
  · simp only [haInit, awarded, tieSeats, openSeats, Nat.sub_self]
    simp
  · intro T m he; simp [haInit] at he

theorem haLoop_inv (cfg : HACfg) (h : CfgOK cfg) : ∀ (fuel : Nat) (s : HAState), Inv cfg s → Inv cfg (haLoop cfg fuel s) := by
  intro fuel
  induction fuel with
  | zero => intro s hi; exact hi
  | succ f ih =>
    intro s hi
    unfold haLoop
    split
    · exact hi
    · rename_i hc
      have hrem : s.rem ≠ 0 := fun h0 => hc (Or.inl h0)
      exact ih _ (haStep_inv cfg h s hi hrem)

theorem haStep_rem_lt (cfg : HACfg) (s : HAState) (hrem : s.rem ≠ 0) (hpool : s.pool ≠ []) :
    (haStep cfg s).rem < s.rem := by
  unfold haStep
  cases hm : maxQ s.pool with
  | none => exact absurd (maxQ_eq_none.mp hm) hpool
  | some m =>
    simp only
    obtain ⟨p, hp, hpm⟩ := maxQ_mem s.pool m hm
    have hpos : 0 < ((s.pool.filter (fun p => p.2 = m)).map (·.1)).length := by
      rw [List.length_map]
      apply List.length_pos_of_mem (a := p)
      simp [List.mem_filter, hp, hpm]
    split
    · simp only; omega
    · simp only; omega

/-- the loop stops only when no seat is left or nobody waits -/
theorem haLoop_done (cfg : HACfg) : ∀ (fuel : Nat) (s : HAState), s.rem ≤ fuel →
    (haLoop cfg fuel s).rem = 0 ∨ (haLoop cfg fuel s).pool = [] := by
  intro fuel
  induction fuel with
  | zero => intro s hle; left; unfold haLoop; omega
  | succ f ih =>
    intro s hle
    unfold haLoop
    split
    · rename_i hc; exact hc
    · rename_i hc
      have hrem : s.rem ≠ 0 := fun h0 => hc (Or.inl h0)
      have hpool : s.pool ≠ [] := fun h0 => hc (Or.inr h0)
      have := haStep_rem_lt cfg s hrem hpool
      exact ih _ (by omega)

theorem haRun_inv (cfg : HACfg) (h : CfgOK cfg) : Inv cfg (haRun cfg) :=
  haLoop_inv cfg h _ _ (haInit_inv cfg h)

theorem haRun_done (cfg : HACfg) : (haRun cfg).rem = 0 ∨ (haRun cfg).pool = [] :=
  haLoop_done cfg _ _ (le_refl _)

end VL
