/-
  Ranked-vote plumbing of the Condorcet hybrids: every candidate of the pairwise dictionary derived
  from a profile is a ranked candidate of the profile; with a Condorcet winner the Smith set is `[w]`.
-/
import VotelibProofs.Lemmas.CopelandSmith
import VotelibModel.CondorcetRanked
namespace VL.Condorcet
open VL

theorem eq_singleton_of_nodup {l : List Cand} (hl : l.Nodup) {c : Cand} (h : ∀ x, x ∈ l ↔ x = c) : l = [c] := by
  match l, hl, h with
  | [], _, h => exact absurd ((h c).2 rfl) (by simp)
  | [a], _, h => rw [(h a).1 (by simp)]
  | a :: b :: rest, hl, h =>
    have ha := (h a).1 (by simp)
    have hb := (h b).1 (by simp)
    rw [List.nodup_cons] at hl
    exact absurd (by rw [ha, hb]; simp) hl.1

/-- with a Condorcet winner the Smith set selector returns exactly `[w]` -/
theorem smithSet_of_cw {v : Pairwise} (hwf : WF v) {w : Cand} (hw : IsCW v w) : smithSet v = [w] := by
  apply eq_singleton_of_nodup (nodup_smithSchwartz v true)
  intro x
  have hdom : Graph.Dominating (candidates v) (Beats v) (fun x => x = w) := by
    refine ⟨fun s hs => hs ▸ hw.1, fun s o hs ho hno => ?_⟩
    subst hs
    exact hw.2 o ho hno
  constructor
  · intro hx
    exact Graph.smithReach_least hdom ⟨w, rfl⟩ ((mem_smithSet hwf x).1 hx)
  · rintro rfl
    obtain ⟨y, hy⟩ := Graph.smithReach_nonempty (cands := candidates v) (B := Beats v)
      (fun _ _ h => Beats.asymm h) (List.ne_nil_of_mem hw.1)
    have : y = x := Graph.smithReach_least hdom ⟨x, rfl⟩ hy
    subst this
    exact (mem_smithSet hwf y).2 hy

theorem le_maxLenFold (p : Profile) (m0 : Nat) :
    m0 ≤ p.foldl (fun m b => if m < b.1.length then b.1.length else m) m0 ∧
    ∀ b ∈ p, b.1.length ≤ p.foldl (fun m b => if m < b.1.length then b.1.length else m) m0 := by
  induction p generalizing m0 with
  | nil => simp
  | cons x xs ih =>
    rw [List.foldl_cons]
    obtain ⟨h1, h2⟩ := ih (if m0 < x.1.length then x.1.length else m0)
    refine ⟨le_trans (by split <;> omega) h1, ?_⟩
    intro b hb
    rcases List.mem_cons.1 hb with rfl | hb'
    · exact le_trans (by split <;> omega) h1
    · exact h2 b hb'

theorem item_mem_allRanked {p : Profile} {b : Ballot × Rat} (hb : b ∈ p) {c : Cand}
    (hc : c ∈ b.1.flatMap itemCands) : c ∈ allRankedCandidates p := by
  obtain ⟨it, hit, hcit⟩ := List.mem_flatMap.1 hc
  obtain ⟨i, hi, hget⟩ := List.mem_iff_getElem.1 hit
  unfold allRankedCandidates
  simp only [mem_uniq, List.mem_flatMap, List.mem_range]
  refine ⟨i, lt_of_lt_of_le hi ((le_maxLenFold p 0).2 b hb), b, hb, ?_⟩
  rw [List.getElem?_eq_getElem hi, hget]
  exact hcit

theorem pkeys_padd (m : Pairwise) (q : Pair) (x : Rat) :
    pkeys (padd m q x) = if q ∈ pkeys m then pkeys m else pkeys m ++ [q] := by
  induction m with
  | nil => simp [padd, pkeys]
  | cons e es ih =>
    obtain ⟨a, y⟩ := e
    by_cases ha : a = q
    · subst ha; simp [padd, pkeys]
    · have hqa : ¬ q = a := fun h => ha h.symm
      simp only [pkeys] at ih
      simp only [padd, ha, if_false, pkeys, List.map_cons, List.mem_cons, hqa, false_or, ih]
      by_cases hc : q ∈ List.map (fun x => x.1) es
      · simp [hc]
      · simp [hc]

theorem mem_pkeys_padd {m : Pairwise} {q : Pair} {x : Rat} {k : Pair} (hk : k ∈ pkeys (padd m q x)) :
    k ∈ pkeys m ∨ k = q := by
  rw [pkeys_padd] at hk
  split at hk
  · exact Or.inl hk
  · rcases List.mem_append.1 hk with h | h
    · exact Or.inl h
    · exact Or.inr (by simpa using h)

theorem mem_ballotPairs {ac : List Cand} {ballot : Ballot} {unranked : List Cand} {u l : Cand}
    (h : (u, l) ∈ ballotPairs ac ballot unranked) :
    u ∈ ballot.flatMap itemCands ∧ (l ∈ ballot.flatMap itemCands ∨ l ∈ unranked) := by
  induction ballot with
  | nil => simp [ballotPairs] at h
  | cons it rest ih =>
    unfold ballotPairs at h
    rcases List.mem_append.1 h with h1 | h1
    · obtain ⟨u', hu', hp⟩ := List.mem_flatMap.1 h1
      rcases List.mem_append.1 hp with h2 | h2
      · obtain ⟨l', hl', heq⟩ := List.mem_map.1 h2
        simp only [Prod.mk.injEq] at heq
        obtain ⟨rfl, rfl⟩ := heq
        exact ⟨by simp [List.flatMap_cons, hu'], Or.inl (by simp [List.flatMap_cons, hl'])⟩
      · obtain ⟨l', hl', heq⟩ := List.mem_map.1 h2
        simp only [Prod.mk.injEq] at heq
        obtain ⟨rfl, rfl⟩ := heq
        exact ⟨by simp [List.flatMap_cons, hu'], Or.inr hl'⟩
    · obtain ⟨h3, h4⟩ := ih h1
      refine ⟨by simp [List.flatMap_cons, h3], ?_⟩
      rcases h4 with h4 | h4
      · exact Or.inl (by simp [List.flatMap_cons, h4])
      · exact Or.inr h4

/-- every key of the derived pairwise dictionary joins two ranked candidates of the profile -/
theorem rankedToCondorcet_keys_in (p : Profile) :
    ∀ k ∈ pkeys (rankedToCondorcet p), k.1 ∈ allRankedCandidates p ∧ k.2 ∈ allRankedCandidates p := by
  unfold rankedToCondorcet
  simp only
  apply foldl_preserves (fun counts : Pairwise => ∀ k ∈ pkeys counts,
    k.1 ∈ allRankedCandidates p ∧ k.2 ∈ allRankedCandidates p)
  · simp [pkeys]
  · intro counts b hb hcounts
    apply foldl_preserves (fun counts : Pairwise => ∀ k ∈ pkeys counts,
      k.1 ∈ allRankedCandidates p ∧ k.2 ∈ allRankedCandidates p) _ _ _ hcounts
    intro cs pr hpr hcs k hk
    rcases mem_pkeys_padd hk with h | rfl
    · exact hcs k h
    · obtain ⟨u, l⟩ := k
      obtain ⟨hu, hl⟩ := mem_ballotPairs hpr
      refine ⟨item_mem_allRanked hb hu, ?_⟩
      rcases hl with hl | hl
      · exact item_mem_allRanked hb hl
      · exact (List.mem_filter.1 hl).1

theorem candidates_rankedToCondorcet_sub (p : Profile) {c : Cand} (hc : c ∈ candidates (rankedToCondorcet p)) :
    c ∈ allRankedCandidates p := by
  obtain ⟨e, he, h⟩ := mem_candidates.1 hc
  have := rankedToCondorcet_keys_in p e.1 (List.mem_map.2 ⟨e, he, rfl⟩)
  rcases h with rfl | rfl
  · exact this.1
  · exact this.2

end VL.Condorcet

-- outcomes of the refusing evaluators are compared by `decide` in witness lemmas
deriving instance DecidableEq for Except
